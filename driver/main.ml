(* correspondence driver: reads one case per line (op arg ...), evaluates the
   extracted Coq model, prints one result per line *)
open Model
open Sx

let rest_len (s : st) : sx = A (string_of_int (List.length s.rest))

let eval (op : string) (args : sx list) : sx list =
  match op, args with
  | "to_len", [n] -> [sx_of_z (go_toOriginLength (z_of_sx n))]
  | "from_len", [n] -> [sx_of_z (go_fromOriginLength (z_of_sx n))]
  | "abs", [n] -> [sx_of_z (go_Abs (z_of_sx n))]
  | "origin_new", [p] -> sx_of_out (fun b -> [sx_of_bytes b]) (new_origin (bytes_of_sx p))
  | "origin_bytes", [p] -> sx_of_out (fun b -> [sx_of_bytes b]) (origin_bytes (bytes_of_sx p))
  | "origin_len", [p] -> [sx_of_z (origin_len (bytes_of_sx p))]
  | "origin_validate", [n; p] ->
    sx_of_out (fun b -> [sx_of_bool b]) (validate_origin (bytes_of_sx p) (z_of_sx n))
  | "origin_slow", [n; p] ->
    let (o, s) = slow_origin_parser (z_of_sx n) (st_of (bytes_of_sx p)) in
    sx_of_out (fun b -> [sx_of_bytes b; rest_len s]) o
  | "origin_block", [n; p] ->
    let (o, s) = origin_block_parser (z_of_sx n) (st_of (bytes_of_sx p)) in
    sx_of_out (fun b -> [sx_of_bytes b; rest_len s]) o
  | "loc_shift", [l; i; n] -> sx_of_out (fun r -> [sx_of_loc r]) (shift (loc_of_sx l) (z_of_sx i) (z_of_sx n))
  | "loc_expand", [l; i; n] -> sx_of_out (fun r -> [sx_of_loc r]) (expand (loc_of_sx l) (z_of_sx i) (z_of_sx n))
  | "loc_reverse", [l; n] -> sx_of_out (fun r -> [sx_of_loc r]) (reverse (loc_of_sx l) (z_of_sx n))
  | "loc_normalize", [l; n] -> sx_of_out (fun r -> [sx_of_loc r]) (normalize (loc_of_sx l) (z_of_sx n))
  | "loc_join", [ls] -> sx_of_out (fun r -> [sx_of_loc r]) (join (list_of_sx loc_of_sx ls))
  | "loc_order", [ls] -> sx_of_out (fun r -> [sx_of_loc r]) (order (list_of_sx loc_of_sx ls))
  | "loc_complement", [l] -> [A "ok"; sx_of_loc (complement (loc_of_sx l))]
  | "loc_show", [l] -> [A "ok"; sx_of_bytes (Model.show (loc_of_sx l))]
  | "loc_len", [l] -> [A "ok"; sx_of_z (loc_len (loc_of_sx l))]
  | "loc_less", [a; b] -> [A "ok"; sx_of_bool (loc_less (loc_of_sx a) (loc_of_sx b))]
  | "loc_within", [l; a; b] -> [A "ok"; sx_of_bool (loc_within (loc_of_sx l) (z_of_sx a) (z_of_sx b))]
  | "loc_overlap", [l; a; b] -> [A "ok"; sx_of_bool (loc_overlap (loc_of_sx l) (z_of_sx a) (z_of_sx b))]
  | "loc_region", [l] -> [A "ok"; sx_of_region (loc_region (loc_of_sx l))]
  | "loc_strand", [l] -> [A "ok"; sx_of_z (check_strand (loc_of_sx l))]
  | "loc_den", [l] -> [A "ok"; sx_of_den (den (loc_of_sx l))]
  | "loc_ascomplete", [l] -> [A "ok"; sx_of_loc (as_complete (loc_of_sx l))]
  | "region_den", [r] -> [A "ok"; sx_of_den (region_den (region_of_sx r))]
  | "fs_insert", [L fs; f] -> [A "ok"; L (List.map sx_of_feature (fs_insert (List.map feature_of_sx fs) (feature_of_sx f)))]
  | "seq_insert", [h; i; g] -> sx_of_out (fun r -> [sx_of_seq r]) (seq_insert (seq_of_sx h) (z_of_sx i) (seq_of_sx g))
  | "seq_embed", [h; i; g] -> sx_of_out (fun r -> [sx_of_seq r]) (seq_embed (seq_of_sx h) (z_of_sx i) (seq_of_sx g))
  | "seq_delete", [s; i; n] -> sx_of_out (fun r -> [sx_of_seq r]) (seq_delete (seq_of_sx s) (z_of_sx i) (z_of_sx n))
  | "seq_erase", [s; i; n] -> sx_of_out (fun r -> [sx_of_seq r]) (seq_erase (seq_of_sx s) (z_of_sx i) (z_of_sx n))
  | "seq_slice", [s; a; b] -> sx_of_out (fun r -> [sx_of_seq r]) (seq_slice (seq_of_sx s) (z_of_sx a) (z_of_sx b))
  | "seq_rotate", [s; n] -> sx_of_out (fun r -> [sx_of_seq r]) (seq_rotate (seq_of_sx s) (z_of_sx n))
  | "seq_reverse", [s] -> sx_of_out (fun r -> [sx_of_seq r]) (seq_reverse (seq_of_sx s))
  | "seq_complement", [s] -> sx_of_out (fun r -> [sx_of_seq r]) (seq_complement (seq_of_sx s))
  | "seq_transcribe", [s] -> sx_of_out (fun r -> [sx_of_seq r]) (seq_transcribe (seq_of_sx s))
  | "seq_concat", [L ss] -> sx_of_out (fun r -> [sx_of_seq r]) (seq_concat (List.map seq_of_sx ss))
  | "seq_locate", [r; s] -> sx_of_out (fun r -> [sx_of_seq r]) (locate (region_of_sx r) (seq_of_sx s))
  | "region_resize", [r; m] -> sx_of_out (fun r -> [sx_of_region r]) (region_resize (region_of_sx r) (modifier_of_sx m))
  | "region_len", [r] -> [A "ok"; sx_of_z (region_len (region_of_sx r))]
  | "region_head", [r] -> [A "ok"; sx_of_z (region_head (region_of_sx r))]
  | "region_tail", [r] -> [A "ok"; sx_of_z (region_tail (region_of_sx r))]
  | "region_complement", [r] -> [A "ok"; sx_of_region (region_complement (region_of_sx r))]
  | "mod_apply", [m; h; t] -> let (a, b) = mod_apply (modifier_of_sx m) (z_of_sx h) (z_of_sx t) in [A "ok"; sx_of_z a; sx_of_z b]
  | "minimize", [r] -> [A "ok"; sx_of_segs (minimize (region_of_sx r))]
  | "invert_linear", [r; n] -> [A "ok"; L (List.map sx_of_region (invert_linear (region_of_sx r) (z_of_sx n)))]
  | "invert_circular", [r; n] -> sx_of_out (fun rr -> [L (List.map sx_of_region rr)]) (invert_circular (region_of_sx r) (z_of_sx n))
  | "complement_bytes", [p] -> sx_of_out (fun b -> [sx_of_bytes b]) (complement_bytes (bytes_of_sx p))
  | "transcribe_bytes", [p] -> sx_of_out (fun b -> [sx_of_bytes b]) (transcribe_bytes (bytes_of_sx p))
  | "match", [s; q] -> sx_of_out (fun l -> [sx_of_segs l]) (match_segments (bytes_of_sx s) (bytes_of_sx q))
  | "search", [s; q] -> [A "ok"; sx_of_segs (search_segments (bytes_of_sx s) (bytes_of_sx q))]
  | "cache_open", [hsz; L htab; L itab; rsum; dsum; f] ->
    let pairs l = List.map (function L [a; b] -> (bytes_of_sx a, bytes_of_sx b) | _ -> failwith "pair expected") l in
    (match open_entry_tab (z_of_sx hsz) (pairs htab) (pairs itab) (bytes_of_sx rsum) (bytes_of_sx dsum) (bytes_of_sx f) with
     | Some d -> [A "ok"; sx_of_bytes d]
     | None -> [A "none"])
  | "fasta_format", [d; p] -> [A "ok"; sx_of_bytes (fasta_format (bytes_of_sx d) (bytes_of_sx p))]
  | "gb_to_fasta", [v; has; h; t; d; p] ->
    let reg = if has = A "1" then Some (z_of_sx h, z_of_sx t) else None in
    [A "ok"; sx_of_bytes (gb_to_fasta (bytes_of_sx v) reg (bytes_of_sx d) (bytes_of_sx p))]
  | "fasta_scan", [inp] ->
    sx_of_out (fun (recs, clean) ->
        [L (List.map (fun (d, p) -> L [sx_of_bytes d; sx_of_bytes p]) recs); sx_of_bool clean])
      (scan_fasta (bytes_of_sx inp))
  | "as_location", [s] -> sx_of_out (fun l -> [sx_of_loc l]) (as_location (bytes_of_sx s))
  | "try_location", [s] -> sx_of_out (fun l -> [sx_of_loc l]) (try_location (bytes_of_sx s))
  | "as_modifier", [s] -> sx_of_out (fun m -> [sx_of_modifier m]) (as_modifier (bytes_of_sx s))
  | "mod_show", [m] -> [A "ok"; sx_of_bytes (mod_show (modifier_of_sx m))]
  | "locate", [str; s] ->
    sx_of_out (fun rr -> [L (List.map sx_of_region rr)]) (locate_string frag_ok frag_match (bytes_of_sx str) (seq_of_sx s))
  | "selector", [s; f] ->
    sx_of_out (fun p -> [sx_of_bool (feval frag_match p (feature_of_sx f))]) (selector frag_ok (bytes_of_sx s))
  | "shift_selector", [s] -> let (h, t) = shift_selector (bytes_of_sx s) false [] in [A "ok"; sx_of_bytes h; sx_of_bytes t]
  | "filter_eval", [p; f] -> [A "ok"; sx_of_bool (feval frag_match (filt_of_sx p) (feature_of_sx f))]
  | "feature_filter", [p; L fs] ->
    [A "ok"; L (List.map sx_of_feature (feature_filter frag_match (filt_of_sx p) (List.map feature_of_sx fs)))]
  | "repair", [L fs] -> [A "ok"; L (List.map sx_of_feature (repair (List.map feature_of_sx fs)))]
  | "alias_bytes", [op; buf; hl; gl; sp] ->
    let (b, r) = alias_bytes (z_of_sx op) (bytes_of_sx buf) (z_of_sx hl) (z_of_sx gl) (bool_of_sx sp) in
    [A "ok"; sx_of_bytes b; sx_of_bytes r]
  | "alias_table", [n; sp; i] ->
    let (b, r) = alias_table (z_of_sx n) (z_of_sx sp) (z_of_sx i) in
    [A "ok"; L (List.map sx_of_z b); L (List.map sx_of_z r)]
  | "plan_delete", [_; _; s; L rr; e] ->
    sx_of_out (fun r -> [L [sx_of_seq r]]) (plan_delete (seq_of_sx s) (List.map region_of_sx rr) (bool_of_sx e))
  | "plan_insert", [_; _; _; s; L rr; g; e] ->
    sx_of_out (fun r -> [L [sx_of_seq r]]) (plan_insert (seq_of_sx s) (List.map region_of_sx rr) (seq_of_sx g) (bool_of_sx e))
  | "plan_rotate", [_; _; s; L rr] ->
    sx_of_out (fun r -> [L [sx_of_seq r]]) (plan_rotate (seq_of_sx s) (List.map region_of_sx rr))
  | "plan_split", [_; _; s; L rr; c] ->
    sx_of_out (fun rs -> [L (List.map sx_of_seq rs)]) (plan_split (seq_of_sx s) (List.map region_of_sx rr) (bool_of_sx c))
  | "plan_extract", [_; _; s; L rr; v] ->
    sx_of_out (fun rs -> [L (List.map sx_of_seq rs)]) (plan_extract (seq_of_sx s) (List.map region_of_sx rr) (bool_of_sx v))
  | "cache_hist", [L h] ->
    let one = function L [i; k; ok; tf] -> (((z_of_sx i, z_of_sx k), bool_of_sx ok), bool_of_sx tf) | _ -> failwith "step expected" in
    [A "ok"; L (List.map sx_of_z (entry_counts (List.map one h)))]
  | "gb_scan", [inp] ->
    sx_of_out (fun ((recs, clean), _) -> [L (List.map sx_of_gb recs); sx_of_bool clean])
      (scan_genbank default_registry (bytes_of_sx inp))
  | "auto_scan", [inp] ->
    sx_of_out (fun ((recs, fas), clean) ->
        [L (List.map sx_of_gb recs); L (List.map (fun (d, p) -> L [sx_of_bytes d; sx_of_bytes p]) fas); sx_of_bool clean])
      (auto_scan default_registry (bytes_of_sx inp))
  | "gb_write", [g] ->
    let (gb, res) = gb_of_sx g in
    (match new_origin res with
     | Ok blk -> sx_of_out (fun t -> [sx_of_bytes t]) (gb_show default_registry { gb with gb_origin = blk })
     | o -> sx_of_out (fun _ -> []) o)
  | "as_date", [s] -> sx_of_out (fun ((y, m), d) -> [sx_of_zbig y; sx_of_zbig m; sx_of_zbig d]) (as_date (bytes_of_sx s))
  | "date_show", [y; m; d] -> [A "ok"; sx_of_bytes (date_show ((z_of_sx y, z_of_sx m), z_of_sx d))]
  | "table_parse", [inp] ->
    let (o, s) = table_parser [] default_registry (st_of (bytes_of_sx inp)) in
    sx_of_out (fun (ff, _) -> [L (List.map sx_of_feature ff); rest_len s]) o
  | "table_show", [L ff] -> sx_of_out (fun t -> [sx_of_bytes t]) (table_show default_registry (bytes_of_sx (A "x2020202020")) (z_of_int 21) (List.map feature_of_sx ff))
  | "wrap_space", [s; n] -> [A "ok"; sx_of_bytes (wrap_space (bytes_of_sx s) (nat_of_int (int_of_z (z_of_sx n))))]
  | "flatfile_split", [s] -> [A "ok"; L (List.map sx_of_bytes (flatfile_split (bytes_of_sx s)))]
  | "refs_slice", [mol; st; en; L refs] ->
    sx_of_out (fun rs -> [L (List.map sx_of_ref rs)])
      (refs_slice (bytes_of_sx mol) (z_of_sx st) (z_of_sx en) (List.map ref_of_sx refs))
  | "alias", _ | "alias_seq", _ | "alias_repair", _ -> [A "same"] (* the frame theorems: nothing the caller holds changes *)
  | _ -> [A "unknown-op"]

let () =
  try
    while true do
      let line = input_line stdin in
      if String.length line > 0 then begin
        match parse_line line with
        | A op :: args ->
          let r = try eval op args with Failure m -> [A "driver-error"; A m] | Stack_overflow -> [A "stack-overflow"] in
          print_endline (String.concat " " (List.map show r))
        | _ -> print_endline "bad-line"
      end
    done
  with End_of_file -> ()
