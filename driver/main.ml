(* correspondence driver: reads one case per line (op arg ...), evaluates the
   extracted Coq model, prints one result per line *)
open Model
open Sx

let rest_len (s : st) : sx = A (string_of_int (List.length s.rest))

let eval (op : string) (args : sx list) : sx list =
  match op, args with
  | "to_len", [n] -> [sx_of_z (go_toOriginLength (z_of_sx n))]
  | "from_len", [n] -> [sx_of_z (go_fromOriginLength (z_of_sx n))]
  | "abs", [n] -> [sx_of_z (go_Abs (z_of_sx n))]
  | "origin_new", [p] -> sx_of_out (fun b -> [sx_of_bytes b]) (new_origin (bytes_of_sx p))
  | "origin_bytes", [p] -> sx_of_out (fun b -> [sx_of_bytes b]) (origin_bytes (bytes_of_sx p))
  | "origin_len", [p] -> [sx_of_z (origin_len (bytes_of_sx p))]
  | "origin_validate", [n; p] ->
    sx_of_out (fun b -> [sx_of_bool b]) (validate_origin (bytes_of_sx p) (z_of_sx n))
  | "origin_slow", [n; p] ->
    let (o, s) = slow_origin_parser (z_of_sx n) (st_of (bytes_of_sx p)) in
    sx_of_out (fun b -> [sx_of_bytes b; rest_len s]) o
  | "origin_block", [n; p] ->
    let (o, s) = origin_block_parser (z_of_sx n) (st_of (bytes_of_sx p)) in
    sx_of_out (fun b -> [sx_of_bytes b; rest_len s]) o
  | _ -> [A "unknown-op"]

let () =
  try
    while true do
      let line = input_line stdin in
      if String.length line > 0 then begin
        match parse_line line with
        | A op :: args ->
          let r = try eval op args with Failure m -> [A "driver-error"; A m] | Stack_overflow -> [A "stack-overflow"] in
          print_endline (String.concat " " (List.map show r))
        | _ -> print_endline "bad-line"
      end
    done
  with End_of_file -> ()
