(* s-expression reader/printer and conversions between OCaml values and the
   extracted Coq datatypes (trusted glue, DESIGN.md §6) *)
open Model

type sx = A of string | L of sx list

let parse_line (s : string) : sx list =
  let n = String.length s in
  let pos = ref 0 in
  let rec skip () = if !pos < n && (s.[!pos] = ' ' || s.[!pos] = '\t') then (incr pos; skip ()) in
  let rec one () : sx =
    skip ();
    if !pos >= n then failwith "unexpected end of line"
    else if s.[!pos] = '(' then begin
      incr pos;
      let items = ref [] in
      let rec loop () =
        skip ();
        if !pos >= n then failwith "unclosed paren"
        else if s.[!pos] = ')' then incr pos
        else (items := one () :: !items; loop ())
      in
      loop ();
      L (List.rev !items)
    end else begin
      let st = !pos in
      while !pos < n && s.[!pos] <> ' ' && s.[!pos] <> '\t' && s.[!pos] <> '(' && s.[!pos] <> ')' do incr pos done;
      A (String.sub s st (!pos - st))
    end
  in
  let out = ref [] in
  let rec all () = skip (); if !pos < n then (out := one () :: !out; all ()) in
  all ();
  List.rev !out

let rec show (x : sx) : string =
  match x with
  | A s -> s
  | L l -> "(" ^ String.concat " " (List.map show l) ^ ")"

(* ---- integers *)
let rec pos_of_int (n : int) : positive =
  if n = 1 then XH
  else if n land 1 = 1 then XI (pos_of_int (n lsr 1))
  else XO (pos_of_int (n lsr 1))
let z_of_int (n : int) : z =
  if n = 0 then Z0 else if n > 0 then Zpos (pos_of_int n) else Zneg (pos_of_int (- n))
let rec int_of_pos (p : positive) : int =
  match p with XH -> 1 | XO q -> 2 * int_of_pos q | XI q -> 2 * int_of_pos q + 1
let int_of_z (x : z) : int =
  match x with Z0 -> 0 | Zpos p -> int_of_pos p | Zneg p -> - (int_of_pos p)
let rec nat_of_int (n : int) : nat = if n <= 0 then O else S (nat_of_int (n - 1))

(* decimal text to Z without going through OCaml's 63-bit int *)
let z_of_decimal (s : string) : z =
  let neg = String.length s > 0 && s.[0] = '-' in
  let start = if String.length s > 0 && (s.[0] = '-' || s.[0] = '+') then 1 else 0 in
  if String.length s <= start then failwith "int expected";
  let ten = z_of_int 10 in
  let acc = ref Z0 in
  for i = start to String.length s - 1 do
    let c = Char.code s.[i] - 48 in
    if c < 0 || c > 9 then failwith "int expected";
    acc := Z.add (Z.mul !acc ten) (z_of_int c)
  done;
  if neg then Z.opp !acc else !acc
let z_of_sx = function A s -> z_of_decimal s | _ -> failwith "int expected"
(* printed through the model's own itoa: values may exceed OCaml's 63-bit int *)
let string_of_bytes (l : z list) = String.concat "" (List.map (fun c -> String.make 1 (Char.chr ((int_of_z c) land 255))) l)
let sx_of_z (x : z) = A (string_of_bytes (itoa x))
let bool_of_sx = function A "1" | A "true" -> true | A "0" | A "false" -> false | _ -> failwith "bool expected"
let sx_of_bool b = A (if b then "1" else "0")

(* ---- byte strings: x<hex> *)
let hexval c =
  match c with
  | '0'..'9' -> Char.code c - 48
  | 'a'..'f' -> Char.code c - 87
  | 'A'..'F' -> Char.code c - 55
  | _ -> failwith "bad hex"
let bytes_of_sx = function
  | A s when String.length s >= 1 && s.[0] = 'x' ->
    let n = (String.length s - 1) / 2 in
    List.init n (fun i -> z_of_int (hexval s.[1 + 2*i] * 16 + hexval s.[2 + 2*i]))
  | _ -> failwith "hex bytes expected"
let sx_of_bytes (l : z list) =
  let b = Buffer.create 16 in
  Buffer.add_char b 'x';
  List.iter (fun c -> Buffer.add_string b (Printf.sprintf "%02x" ((int_of_z c) land 255))) l;
  A (Buffer.contents b)

(* ---- outcomes *)
let sx_of_out (f : 'a -> sx list) (o : 'a out) : sx list =
  match o with
  | Ok a -> A "ok" :: f a
  | Err _ -> [A "err"]
  | Panic -> [A "panic"]
  | OutOfFuel -> [A "outoffuel"]

(* ---- locations, regions, features, sequences *)
let rec loc_of_sx (x : sx) : loc =
  match x with
  | L [A "B"; p] -> Between (z_of_sx p)
  | L [A "P"; p] -> Point (z_of_sx p)
  | L [A "R"; s; e; a; b] -> Ranged (z_of_sx s, z_of_sx e, bool_of_sx a, bool_of_sx b)
  | L [A "A"; s; e] -> Ambiguous (z_of_sx s, z_of_sx e)
  | L (A "J" :: ls) -> Joined (List.map loc_of_sx ls)
  | L (A "O" :: ls) -> Ordered (List.map loc_of_sx ls)
  | L [A "C"; l] -> Complemented (loc_of_sx l)
  | _ -> failwith "loc expected"
let rec sx_of_loc (l : loc) : sx =
  match l with
  | Between p -> L [A "B"; sx_of_z p]
  | Point p -> L [A "P"; sx_of_z p]
  | Ranged (s, e, a, b) -> L [A "R"; sx_of_z s; sx_of_z e; sx_of_bool a; sx_of_bool b]
  | Ambiguous (s, e) -> L [A "A"; sx_of_z s; sx_of_z e]
  | Joined ls -> L (A "J" :: List.map sx_of_loc ls)
  | Ordered ls -> L (A "O" :: List.map sx_of_loc ls)
  | Complemented l -> L [A "C"; sx_of_loc l]
let list_of_sx f = function L xs -> List.map f xs | _ -> failwith "list expected"
let rec region_of_sx (x : sx) : region =
  match x with
  | L [A "G"; h; t] -> Seg (z_of_sx h, z_of_sx t)
  | L (A "GG" :: rs) -> Regs (List.map region_of_sx rs)
  | _ -> failwith "region expected"
let rec sx_of_region (r : region) : sx =
  match r with
  | Seg (h, t) -> L [A "G"; sx_of_z h; sx_of_z t]
  | Regs rs -> L (A "GG" :: List.map sx_of_region rs)
let feature_of_sx (x : sx) : feature =
  match x with
  | L [A "F"; k; l; L ps] ->
    { fkey = bytes_of_sx k; floc = loc_of_sx l;
      fprops = List.map (list_of_sx bytes_of_sx) ps }
  | _ -> failwith "feature expected"
let sx_of_feature (f : feature) : sx =
  L [A "F"; sx_of_bytes f.fkey; sx_of_loc f.floc;
     L (List.map (fun p -> L (List.map sx_of_bytes p)) f.fprops)]
let seq_of_sx (x : sx) : seq =
  match x with
  | L [A "S"; L fs; p] -> { feats = List.map feature_of_sx fs; residues = bytes_of_sx p }
  | _ -> failwith "seq expected"
let sx_of_seq (s : seq) : sx =
  L [A "S"; L (List.map sx_of_feature s.feats); sx_of_bytes s.residues]
let sx_of_den (d : (z * bool) list) : sx =
  L (List.map (fun (p, c) -> A ((string_of_int (int_of_z p)) ^ (if c then "-" else "+"))) d)

let modifier_of_sx (x : sx) : modifier =
  match x with
  | L [A "H"; p] -> MHead (z_of_sx p)
  | L [A "T"; p] -> MTail (z_of_sx p)
  | L [A "HT"; p; q] -> MHeadTail (z_of_sx p, z_of_sx q)
  | L [A "HH"; p; q] -> MHeadHead (z_of_sx p, z_of_sx q)
  | L [A "TT"; p; q] -> MTailTail (z_of_sx p, z_of_sx q)
  | _ -> failwith "modifier expected"
let sx_of_modifier (m : modifier) : sx =
  match m with
  | MHead p -> L [A "H"; sx_of_z p]
  | MTail p -> L [A "T"; sx_of_z p]
  | MHeadTail (p, q) -> L [A "HT"; sx_of_z p; sx_of_z q]
  | MHeadHead (p, q) -> L [A "HH"; sx_of_z p; sx_of_z q]
  | MTailTail (p, q) -> L [A "TT"; sx_of_z p; sx_of_z q]
let sx_of_segs (l : (z * z) list) : sx = L (List.map (fun (a, b) -> L [A "G"; sx_of_z a; sx_of_z b]) l)

let rec filt_of_sx (x : sx) : filt =
  match x with
  | A "true" -> FTrue
  | A "false" -> FFalse
  | L (A "and" :: l) -> FAnd (List.map filt_of_sx l)
  | L (A "or" :: l) -> FOr (List.map filt_of_sx l)
  | L [A "not"; f] -> FNot (filt_of_sx f)
  | L [A "within"; a; b] -> FWithin (z_of_sx a, z_of_sx b)
  | L [A "overlap"; a; b] -> FOverlap (z_of_sx a, z_of_sx b)
  | L [A "key"; k] -> FKey (bytes_of_sx k)
  | L [A "qual"; n; q] -> FQual (bytes_of_sx n, bytes_of_sx q)
  | A "fwd" -> FFwd
  | A "rev" -> FRev
  | _ -> failwith "filter expected"

(* ---- GenBank records *)
let sx_of_zbig = sx_of_z
let sx_of_pairs l = L (List.map (fun (a, b) -> L [sx_of_bytes a; sx_of_bytes b]) l)
let pairs_of_sx = list_of_sx (function L [a; b] -> (bytes_of_sx a, bytes_of_sx b) | _ -> failwith "pair expected")
let sx_of_ref (r : reference) : sx =
  L [A "REF"; sx_of_zbig r.r_number; sx_of_bytes r.r_info; sx_of_bytes r.r_authors; sx_of_bytes r.r_group;
     sx_of_bytes r.r_title; sx_of_bytes r.r_journal;
     (match r.r_pubmed with Some v -> sx_of_bytes v | None -> A "-"); sx_of_bytes r.r_comment]
let ref_of_sx = function
  | L [A "REF"; n; i; a; g; t; j; p; c] ->
    { r_number = z_of_sx n; r_info = bytes_of_sx i; r_authors = bytes_of_sx a; r_group = bytes_of_sx g;
      r_title = bytes_of_sx t; r_journal = bytes_of_sx j;
      r_pubmed = (match p with A "-" -> None | v -> Some (bytes_of_sx v)); r_comment = bytes_of_sx c }
  | _ -> failwith "reference expected"
let sx_of_gb (g : genbank) : sx =
  let f = g.gb_fields in
  let ((y, m), d) = f.f_date in
  let ((ca, ch), ct) = f.f_contig in
  L [A "GB"; sx_of_bytes f.f_locus; sx_of_bytes f.f_molecule; sx_of_zbig f.f_topology; sx_of_bytes f.f_division;
     L [sx_of_zbig y; sx_of_zbig m; sx_of_zbig d];
     sx_of_bytes f.f_definition; sx_of_bytes f.f_accession; sx_of_bytes f.f_version;
     sx_of_pairs f.f_dblink; L (List.map sx_of_bytes f.f_keywords);
     sx_of_bytes f.f_species; sx_of_bytes f.f_organism; L (List.map sx_of_bytes f.f_taxon);
     L (List.map sx_of_ref f.f_references); L (List.map sx_of_bytes f.f_comments); sx_of_pairs f.f_extra;
     L [sx_of_bytes ca; sx_of_zbig ch; sx_of_zbig ct];
     (match f.f_region with None -> A "-" | Some (h, t) -> L [sx_of_zbig h; sx_of_zbig t]);
     L (List.map sx_of_feature g.gb_table); sx_of_bytes g.gb_origin]
(* the origin of an input record is given as residues *)
let gb_of_sx (x : sx) : genbank * z list =
  match x with
  | L [A "GB"; lo; mo; top; dv; L [y; m; d]; def; acc; ver; dbl; kw; sp; org; tax; refs; coms; ex; L [ca; ch; ct]; reg; L feats; ori] ->
    ({ gb_fields = { f_locus = bytes_of_sx lo; f_molecule = bytes_of_sx mo; f_topology = z_of_sx top; f_division = bytes_of_sx dv;
                     f_date = ((z_of_sx y, z_of_sx m), z_of_sx d);
                     f_definition = bytes_of_sx def; f_accession = bytes_of_sx acc; f_version = bytes_of_sx ver;
                     f_dblink = pairs_of_sx dbl; f_keywords = list_of_sx bytes_of_sx kw;
                     f_species = bytes_of_sx sp; f_organism = bytes_of_sx org; f_taxon = list_of_sx bytes_of_sx tax;
                     f_references = list_of_sx ref_of_sx refs; f_comments = list_of_sx bytes_of_sx coms;
                     f_extra = pairs_of_sx ex; f_contig = ((bytes_of_sx ca, z_of_sx ch), z_of_sx ct);
                     f_region = (match reg with A "-" -> None | L [h; t] -> Some (z_of_sx h, z_of_sx t) | _ -> failwith "region expected") };
       gb_table = List.map feature_of_sx feats; gb_origin = [] }, bytes_of_sx ori)
  | _ -> failwith "genbank record expected"
