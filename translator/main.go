// translator: reads /repo sources with go/parser and regenerates the Coq files
// under coq/gen from what the code says now (DESIGN.md §4.1).
//
//	T1 byte/string tables   -> gen/Tables.v
//	T2 straight-line int fns -> gen/Arith.v
//	T3 CLI option tables    -> gen/Cli.v
//
// Anything outside the supported fragment makes the translator fail loudly.
package main

import (
	"bytes"
	"fmt"
	"go/ast"
	"go/parser"
	"go/token"
	"os"
	"path/filepath"
	"sort"
	"strconv"
	"strings"
)

// die aborts the translation of the current section (see section()).
type dieErr string

func die(format string, args ...interface{}) {
	panic(dieErr(fmt.Sprintf(format, args...)))
}

// status of every section, written to <outdir>/status.json: a section whose
// source is outside the supported fragment gets a stub definition so that the
// rest of the development still compiles, and every property that depends on
// that section reports a broken tie.
var status = map[string]string{}

func section(name string, stub string, f func() string) string {
	out := ""
	func() {
		defer func() {
			if r := recover(); r != nil {
				if e, ok := r.(dieErr); ok {
					status[name] = string(e)
					fmt.Fprintf(os.Stderr, "translator: section %s: %s\n", name, string(e))
					out = "(* TRANSLATION FAILED: " + strings.ReplaceAll(string(e), "*)", "* )") + " *)\n" + stub + "\n"
					return
				}
				panic(r)
			}
		}()
		out = f()
		status[name] = "ok"
	}()
	return out
}

func fnStub(name string, nparams int, ret string) string {
	ps := ""
	for i := 0; i < nparams; i++ {
		ps += fmt.Sprintf(" (_x%d : Z)", i)
	}
	val := "0"
	if ret == "bool" {
		val = "false"
	}
	return fmt.Sprintf("Definition go_%s%s : %s := %s.", name, ps, ret, val)
}

type pkgFiles struct {
	fset  *token.FileSet
	files map[string]*ast.File
}

func load(dir string, names ...string) *pkgFiles {
	fset := token.NewFileSet()
	files := map[string]*ast.File{}
	for _, n := range names {
		f, err := parser.ParseFile(fset, filepath.Join(dir, n), nil, 0)
		if err != nil {
			die("parse %s: %v", n, err)
		}
		files[n] = f
	}
	return &pkgFiles{fset, files}
}

func (p *pkgFiles) fn(file, name string) *ast.FuncDecl {
	f := p.files[file]
	for _, d := range f.Decls {
		if fd, ok := d.(*ast.FuncDecl); ok && fd.Name.Name == name && fd.Recv == nil {
			return fd
		}
	}
	die("function %s not found in %s", name, file)
	return nil
}

// ---------------------------------------------------------------- T2

type tr struct {
	known map[string]bool // translated function names
}

func v(name string) string { return "v_" + name }

func (t *tr) expr(e ast.Expr) string {
	switch x := e.(type) {
	case *ast.Ident:
		switch x.Name {
		case "true", "false":
			return x.Name
		case "intSize":
			return "64"
		}
		return v(x.Name)
	case *ast.BasicLit:
		if x.Kind != token.INT {
			die("unsupported literal %s", x.Value)
		}
		return x.Value
	case *ast.ParenExpr:
		return "(" + t.expr(x.X) + ")"
	case *ast.UnaryExpr:
		switch x.Op {
		case token.SUB:
			return "(- " + t.expr(x.X) + ")"
		case token.NOT:
			return "(negb " + t.expr(x.X) + ")"
		}
		die("unsupported unary op %s", x.Op)
	case *ast.BinaryExpr:
		a, b := t.expr(x.X), t.expr(x.Y)
		switch x.Op {
		case token.ADD:
			return "(" + a + " + " + b + ")"
		case token.SUB:
			return "(" + a + " - " + b + ")"
		case token.MUL:
			return "(" + a + " * " + b + ")"
		case token.QUO:
			return "(gdiv " + a + " " + b + ")"
		case token.REM:
			return "(gmod " + a + " " + b + ")"
		case token.SHR:
			return "(Z.shiftr " + a + " " + b + ")"
		case token.XOR:
			return "(Z.lxor " + a + " " + b + ")"
		case token.LSS:
			return "(" + a + " <? " + b + ")"
		case token.LEQ:
			return "(" + a + " <=? " + b + ")"
		case token.GTR:
			return "(" + b + " <? " + a + ")"
		case token.GEQ:
			return "(" + b + " <=? " + a + ")"
		case token.EQL:
			return "(" + a + " =? " + b + ")"
		case token.NEQ:
			return "(negb (" + a + " =? " + b + "))"
		case token.LAND:
			return "(" + a + " && " + b + ")"
		case token.LOR:
			return "(" + a + " || " + b + ")"
		}
		die("unsupported binary op %s", x.Op)
	case *ast.CallExpr:
		id, ok := x.Fun.(*ast.Ident)
		if !ok || !t.known[id.Name] {
			die("unsupported call %v", x.Fun)
		}
		s := "(go_" + id.Name
		for _, a := range x.Args {
			s += " " + t.expr(a)
		}
		return s + ")"
	}
	die("unsupported expression %T", e)
	return ""
}

func assignedVars(stmts []ast.Stmt) []string {
	set := map[string]bool{}
	for _, s := range stmts {
		as, ok := s.(*ast.AssignStmt)
		if !ok {
			die("if-body without return may contain only assignments, got %T", s)
		}
		if as.Tok == token.DEFINE {
			die("if-body defines a new variable")
		}
		for _, l := range as.Lhs {
			id, ok := l.(*ast.Ident)
			if !ok {
				die("unsupported assignment target %T", l)
			}
			set[id.Name] = true
		}
	}
	var out []string
	for k := range set {
		out = append(out, k)
	}
	sort.Strings(out)
	return out
}

func endsWithReturn(stmts []ast.Stmt) bool {
	if len(stmts) == 0 {
		return false
	}
	_, ok := stmts[len(stmts)-1].(*ast.ReturnStmt)
	return ok
}

func tuple(vars []string) string {
	if len(vars) == 1 {
		return v(vars[0])
	}
	vs := make([]string, len(vars))
	for i, x := range vars {
		vs[i] = v(x)
	}
	return "(" + strings.Join(vs, ", ") + ")"
}

func pattern(vars []string) string {
	if len(vars) == 1 {
		return v(vars[0])
	}
	return "'" + tuple(vars)
}

// stmts translates a statement list; cont is the expression for "fall off the
// end" (empty string = not allowed).
func (t *tr) stmts(ss []ast.Stmt, cont string) string {
	if len(ss) == 0 {
		if cont == "" {
			die("function body falls off the end")
		}
		return cont
	}
	s, rest := ss[0], ss[1:]
	switch x := s.(type) {
	case *ast.ReturnStmt:
		if len(x.Results) != 1 {
			die("only single-value returns are supported")
		}
		return t.expr(x.Results[0])
	case *ast.AssignStmt:
		switch x.Tok {
		case token.DEFINE, token.ASSIGN:
			if len(x.Lhs) != len(x.Rhs) {
				die("unsupported assignment arity")
			}
			names := make([]string, len(x.Lhs))
			vals := make([]string, len(x.Rhs))
			for i := range x.Lhs {
				id, ok := x.Lhs[i].(*ast.Ident)
				if !ok {
					die("unsupported assignment target %T", x.Lhs[i])
				}
				names[i] = id.Name
				vals[i] = t.expr(x.Rhs[i])
			}
			if len(names) == 1 {
				return "let " + v(names[0]) + " := " + vals[0] + " in\n  " + t.stmts(rest, cont)
			}
			return "let " + pattern(names) + " := (" + strings.Join(vals, ", ") + ") in\n  " + t.stmts(rest, cont)
		case token.ADD_ASSIGN, token.SUB_ASSIGN:
			id, ok := x.Lhs[0].(*ast.Ident)
			if !ok || len(x.Lhs) != 1 {
				die("unsupported op-assignment")
			}
			op := " + "
			if x.Tok == token.SUB_ASSIGN {
				op = " - "
			}
			return "let " + v(id.Name) + " := (" + v(id.Name) + op + t.expr(x.Rhs[0]) + ") in\n  " + t.stmts(rest, cont)
		}
		die("unsupported assignment token %s", x.Tok)
	case *ast.IfStmt:
		if x.Init != nil || x.Else != nil {
			die("if with init/else is outside the fragment")
		}
		c := t.expr(x.Cond)
		if endsWithReturn(x.Body.List) {
			return "if " + c + " then (" + t.stmts(x.Body.List, "") + ")\n  else (" + t.stmts(rest, cont) + ")"
		}
		vars := assignedVars(x.Body.List)
		tup := tuple(vars)
		return "let " + pattern(vars) + " := (if " + c + " then (" + t.stmts(x.Body.List, tup) + ") else " + tup + ") in\n  " + t.stmts(rest, cont)
	case *ast.SwitchStmt:
		if x.Init != nil || x.Tag != nil {
			die("switch with tag/init is outside the fragment")
		}
		var def *ast.CaseClause
		out := ""
		closers := ""
		for _, c := range x.Body.List {
			cc := c.(*ast.CaseClause)
			if cc.List == nil {
				def = cc
				continue
			}
			if len(cc.List) != 1 || !endsWithReturn(cc.Body) {
				die("switch case must have one condition and end with return")
			}
			out += "if " + t.expr(cc.List[0]) + " then (" + t.stmts(cc.Body, "") + ")\n  else ("
			closers += ")"
		}
		if def != nil {
			if !endsWithReturn(def.Body) {
				die("switch default must end with return")
			}
			out += t.stmts(def.Body, "")
		} else {
			out += t.stmts(rest, cont)
		}
		return out + closers
	}
	die("unsupported statement %T", s)
	return ""
}

func (t *tr) function(fd *ast.FuncDecl) string {
	var params []string
	for _, f := range fd.Type.Params.List {
		id, ok := f.Type.(*ast.Ident)
		if !ok || id.Name != "int" {
			die("%s: only int parameters are supported", fd.Name.Name)
		}
		for _, n := range f.Names {
			params = append(params, "("+v(n.Name)+" : Z)")
		}
	}
	if fd.Type.Results == nil || len(fd.Type.Results.List) != 1 {
		die("%s: exactly one result expected", fd.Name.Name)
	}
	rid, ok := fd.Type.Results.List[0].Type.(*ast.Ident)
	if !ok || (rid.Name != "int" && rid.Name != "bool") {
		die("%s: result must be int or bool", fd.Name.Name)
	}
	rt := "Z"
	if rid.Name == "bool" {
		rt = "bool"
	}
	body := t.stmts(fd.Body.List, "")
	t.known[fd.Name.Name] = true
	return fmt.Sprintf("Definition go_%s %s : %s :=\n  %s.\n", fd.Name.Name, strings.Join(params, " "), rt, body)
}

// ---------------------------------------------------------------- T1

func coqBytes(s string) string {
	parts := make([]string, len(s))
	for i := 0; i < len(s); i++ {
		parts[i] = strconv.Itoa(int(s[i]))
	}
	return "[" + strings.Join(parts, "; ") + "]"
}

func strLit(e ast.Expr) (string, bool) {
	bl, ok := e.(*ast.BasicLit)
	if !ok {
		return "", false
	}
	switch bl.Kind {
	case token.STRING:
		s, err := strconv.Unquote(bl.Value)
		if err != nil {
			die("bad string literal %s", bl.Value)
		}
		return s, true
	case token.CHAR:
		s, err := strconv.Unquote(bl.Value)
		if err != nil {
			die("bad char literal %s", bl.Value)
		}
		return s, true
	}
	return "", false
}

// byteSliceLit matches []byte("...") and returns the string.
func byteSliceLit(e ast.Expr) (string, bool) {
	ce, ok := e.(*ast.CallExpr)
	if !ok || len(ce.Args) != 1 {
		return "", false
	}
	at, ok := ce.Fun.(*ast.ArrayType)
	if !ok {
		return "", false
	}
	if id, ok := at.Elt.(*ast.Ident); !ok || id.Name != "byte" {
		return "", false
	}
	return strLit(ce.Args[0])
}

// alphabets finds the replaceBytes(seq.Bytes(), []byte(from), []byte(to)) call
// in the named function.
func alphabets(fd *ast.FuncDecl) (string, string) {
	var from, to string
	found := false
	ast.Inspect(fd.Body, func(n ast.Node) bool {
		ce, ok := n.(*ast.CallExpr)
		if !ok {
			return true
		}
		id, ok := ce.Fun.(*ast.Ident)
		if !ok || id.Name != "replaceBytes" || len(ce.Args) != 3 {
			return true
		}
		f, ok1 := byteSliceLit(ce.Args[1])
		t, ok2 := byteSliceLit(ce.Args[2])
		if !ok1 || !ok2 {
			die("%s: replaceBytes alphabets are not literals", fd.Name.Name)
		}
		from, to, found = f, t, true
		return false
	})
	if !found {
		die("%s: replaceBytes call not found", fd.Name.Name)
	}
	return from, to
}

// matchTable reads the switch in Match: case bytes -> regexp fragment written.
func matchTable(fd *ast.FuncDecl) (rows []string, defaultQuoted bool, lowerQuery bool, lowerSeq bool) {
	var sw *ast.SwitchStmt
	ast.Inspect(fd.Body, func(n ast.Node) bool {
		if s, ok := n.(*ast.SwitchStmt); ok && sw == nil {
			sw = s
			return false
		}
		return true
	})
	if sw == nil {
		die("Match: switch not found")
	}
	for _, c := range sw.Body.List {
		cc := c.(*ast.CaseClause)
		if len(cc.Body) != 1 {
			die("Match: case body must be one statement")
		}
		es, ok := cc.Body[0].(*ast.ExprStmt)
		if !ok {
			die("Match: case body must be a call")
		}
		call, ok := es.X.(*ast.CallExpr)
		if !ok {
			die("Match: case body must be a call")
		}
		sel, ok := call.Fun.(*ast.SelectorExpr)
		if !ok {
			die("Match: case body must be b.WriteX")
		}
		if cc.List == nil {
			// default: b.WriteByte(c) or b.WriteString(regexp.QuoteMeta(string(c)))
			switch sel.Sel.Name {
			case "WriteByte":
				defaultQuoted = false
			case "WriteString":
				var buf bytes.Buffer
				ast.Inspect(call, func(n ast.Node) bool {
					if s, ok := n.(*ast.SelectorExpr); ok {
						buf.WriteString(s.Sel.Name + ";")
					}
					return true
				})
				if !strings.Contains(buf.String(), "QuoteMeta") {
					die("Match: default branch writes a string that is not QuoteMeta")
				}
				defaultQuoted = true
			default:
				die("Match: unsupported default branch")
			}
			continue
		}
		if sel.Sel.Name != "WriteString" || len(call.Args) != 1 {
			die("Match: case must WriteString a literal")
		}
		cls, ok := strLit(call.Args[0])
		if !ok {
			die("Match: case class is not a literal")
		}
		keys := ""
		for _, k := range cc.List {
			s, ok := strLit(k)
			if !ok || len(s) != 1 {
				die("Match: case key is not a byte literal")
			}
			keys += s
		}
		rows = append(rows, fmt.Sprintf("(%s, %s)", coqBytes(keys), coqBytes(cls)))
	}
	// ToLower applied to query and to sequence?
	src := 0
	ast.Inspect(fd.Body, func(n ast.Node) bool {
		if ce, ok := n.(*ast.CallExpr); ok {
			if s, ok := ce.Fun.(*ast.SelectorExpr); ok && s.Sel.Name == "ToLower" {
				src++
			}
		}
		return true
	})
	lowerQuery, lowerSeq = src >= 1, src >= 2
	return
}

func stringSliceVar(f *ast.File, name string) []string {
	var out []string
	found := false
	ast.Inspect(f, func(n ast.Node) bool {
		vs, ok := n.(*ast.ValueSpec)
		if !ok {
			return true
		}
		for i, id := range vs.Names {
			if id.Name != name || i >= len(vs.Values) {
				continue
			}
			cl, ok := vs.Values[i].(*ast.CompositeLit)
			if !ok {
				die("%s is not a composite literal", name)
			}
			for _, e := range cl.Elts {
				s, ok := strLit(e)
				if !ok {
					die("%s has a non-literal element", name)
				}
				out = append(out, s)
			}
			found = true
		}
		return true
	})
	if !found {
		die("variable %s not found", name)
	}
	return out
}

func coqStrList(ss []string) string {
	parts := make([]string, len(ss))
	for i, s := range ss {
		parts[i] = coqBytes(s)
	}
	return "[" + strings.Join(parts, ";\n   ") + "]"
}

func writeIfChanged(path string, content string) {
	old, err := os.ReadFile(path)
	if err == nil && string(old) == content {
		return
	}
	if err := os.WriteFile(path, []byte(content), 0644); err != nil {
		fmt.Fprintf(os.Stderr, "translator: write %s: %v\n", path, err)
		os.Exit(2)
	}
}

// ---------------------------------------------------------------- T3

func identsOf(n ast.Node) []string {
	var out []string
	ast.Inspect(n, func(x ast.Node) bool {
		switch v := x.(type) {
		case *ast.Ident:
			out = append(out, v.Name)
		case *ast.SelectorExpr:
			// x.Sel is a field/method name, not a variable
			ast.Inspect(v.X, func(y ast.Node) bool {
				if id, ok := y.(*ast.Ident); ok {
					out = append(out, id.Name)
				}
				return true
			})
			return false
		}
		return true
	})
	return out
}

type cliOpt struct {
	varName, name string
	positional  bool
}

// cliCommand analyses one command function: its declared options, the payload
// handed to encodePayload and the def-use closure from the payload.
func cliCommand(fd *ast.FuncDecl) (opts []cliOpt, keyed map[string]bool, hasCache bool) {
	deps := map[string]map[string]bool{}
	addDep := func(lhs string, from []string) {
		if deps[lhs] == nil {
			deps[lhs] = map[string]bool{}
		}
		for _, f := range from {
			deps[lhs][f] = true
		}
	}
	var payload []string
	var walk func(n ast.Node, ctl []string)
	walk = func(n ast.Node, ctl []string) {
		switch v := n.(type) {
		case *ast.BlockStmt:
			for _, s := range v.List {
				walk(s, ctl)
			}
		case *ast.IfStmt:
			c := append(append([]string(nil), ctl...), identsOf(v.Cond)...)
			if v.Init != nil {
				walk(v.Init, ctl)
				c = append(c, identsOf(v.Init)...)
			}
			walk(v.Body, c)
			if v.Else != nil {
				walk(v.Else, c)
			}
		case *ast.ForStmt:
			walk(v.Body, ctl)
		case *ast.RangeStmt:
			c := append(append([]string(nil), ctl...), identsOf(v.X)...)
			for _, e := range []ast.Expr{v.Key, v.Value} {
				if id, ok := e.(*ast.Ident); ok {
					addDep(id.Name, identsOf(v.X))
				}
			}
			walk(v.Body, c)
		case *ast.SwitchStmt:
			c := append([]string(nil), ctl...)
			if v.Tag != nil {
				c = append(c, identsOf(v.Tag)...)
			}
			for _, cc := range v.Body.List {
				cl := cc.(*ast.CaseClause)
				c2 := append([]string(nil), c...)
				for _, e := range cl.List {
					c2 = append(c2, identsOf(e)...)
				}
				for _, s := range cl.Body {
					walk(s, c2)
				}
			}
		case *ast.AssignStmt:
			var rhs []string
			for _, r := range v.Rhs {
				rhs = append(rhs, identsOf(r)...)
			}
			for _, l := range v.Lhs {
				for _, name := range identsOf(l) {
					addDep(name, rhs)
					addDep(name, ctl)
				}
			}
			// option declarations
			if len(v.Lhs) == 1 && len(v.Rhs) == 1 {
				if call, ok := v.Rhs[0].(*ast.CallExpr); ok {
					if sel, ok := call.Fun.(*ast.SelectorExpr); ok {
						if recv, ok := sel.X.(*ast.Ident); ok && (recv.Name == "opt" || recv.Name == "pos") {
							if lhs, ok := v.Lhs[0].(*ast.Ident); ok {
								idx := 1
								if recv.Name == "pos" {
									idx = 0
								}
								if idx < len(call.Args) {
									if name, ok := strLit(call.Args[idx]); ok {
										opts = append(opts, cliOpt{lhs.Name, name, recv.Name == "pos"})
									}
								}
							}
						}
					}
				}
			}
		case *ast.DeclStmt, *ast.ExprStmt, *ast.ReturnStmt, *ast.DeferStmt, *ast.IncDecStmt, *ast.BranchStmt:
		case *ast.LabeledStmt:
			walk(v.Stmt, ctl)
		}
	}
	walk(fd.Body, nil)
	// digests of secondary inputs are accumulated by side effect in hash
	// objects: every variable derived from newHash() (and the readers wrapped
	// around it) depends on whatever is passed in a call together with it
	taint := map[string]bool{}
	ast.Inspect(fd.Body, func(n ast.Node) bool {
		as, ok := n.(*ast.AssignStmt)
		if !ok || len(as.Rhs) != 1 {
			return true
		}
		if call, ok := as.Rhs[0].(*ast.CallExpr); ok {
			if id, ok := call.Fun.(*ast.Ident); ok && id.Name == "newHash" {
				for _, l := range as.Lhs {
					for _, name := range identsOf(l) {
						taint[name] = true
					}
				}
			}
		}
		return true
	})
	for changed := true; changed; {
		changed = false
		ast.Inspect(fd.Body, func(n ast.Node) bool {
			as, ok := n.(*ast.AssignStmt)
			if !ok {
				return true
			}
			uses := false
			for _, r := range as.Rhs {
				for _, name := range identsOf(r) {
					if taint[name] {
						uses = true
					}
				}
			}
			if uses {
				for _, l := range as.Lhs {
					for _, name := range identsOf(l) {
						if name != "err" && name != "_" && name != "ok" && !taint[name] {
							taint[name] = true
							changed = true
						}
					}
				}
			}
			return true
		})
	}
	ast.Inspect(fd.Body, func(n ast.Node) bool {
		call, ok := n.(*ast.CallExpr)
		if !ok {
			return true
		}
		all := identsOf(call)
		for _, name := range all {
			if taint[name] {
				addDep(name, all)
			}
		}
		return true
	})
	ast.Inspect(fd.Body, func(n ast.Node) bool {
		call, ok := n.(*ast.CallExpr)
		if !ok {
			return true
		}
		if id, ok := call.Fun.(*ast.Ident); ok && id.Name == "encodePayload" {
			payload = append(payload, identsOf(call)...)
		}
		if sel, ok := call.Fun.(*ast.SelectorExpr); ok && sel.Sel.Name == "TryCache" {
			hasCache = true
			// the payload variable flows in through the second argument
			payload = append(payload, identsOf(call)...)
		}
		return true
	})
	keyed = map[string]bool{}
	var visit func(v string)
	visit = func(v string) {
		if keyed[v] {
			return
		}
		keyed[v] = true
		for d := range deps[v] {
			visit(d)
		}
	}
	for _, p := range payload {
		visit(p)
	}
	return
}

func cliTable(dir string) string {
	entries, err := os.ReadDir(dir)
	if err != nil {
		die("read %s: %v", dir, err)
	}
	var rows []string
	for _, e := range entries {
		if !strings.HasSuffix(e.Name(), ".go") || strings.HasSuffix(e.Name(), "_test.go") {
			continue
		}
		pf := load(dir, e.Name())
		f := pf.files[e.Name()]
		// command names registered in init(): flags.Register("name", desc, fn)
		reg := map[string]string{}
		ast.Inspect(f, func(n ast.Node) bool {
			call, ok := n.(*ast.CallExpr)
			if !ok || len(call.Args) != 3 {
				return true
			}
			if sel, ok := call.Fun.(*ast.SelectorExpr); ok && sel.Sel.Name == "Register" {
				if name, ok := strLit(call.Args[0]); ok {
					if fn, ok := call.Args[2].(*ast.Ident); ok {
						reg[fn.Name] = name
					}
				}
			}
			return true
		})
		for _, d := range f.Decls {
			fd, ok := d.(*ast.FuncDecl)
			if !ok || fd.Body == nil {
				continue
			}
			name, ok := reg[fd.Name.Name]
			if !ok {
				continue
			}
			opts, keyed, hasCache := cliCommand(fd)
			if !hasCache {
				continue
			}
			var os_ []string
			for _, o := range opts {
				neutral := o.name == "no-cache" || o.name == "output" || o.name == "seqin"
				// the primary input is hashed as the root digest; for insert/infix the
				// primary input is the positional read through the io delegate
				os_ = append(os_, fmt.Sprintf("(%s, %v, %v)", coqBytes(o.name), keyed[o.varName], neutral))
			}
			rows = append(rows, fmt.Sprintf("(%s,\n    [%s])", coqBytes(name), strings.Join(os_, ";\n     ")))
		}
	}
	sort.Strings(rows)
	return "(* per cached subcommand: (option name, reaches the cache payload, neutral) *)\n" +
		"Definition cli_table : list (list byte * list (list byte * bool * bool)) :=\n  [" + strings.Join(rows, ";\n   ") + "].\n"
}

type fnSpec struct {
	dir, file, name string
	nparams         int
	ret             string
}

func main() {
	if len(os.Args) != 3 {
		fmt.Fprintln(os.Stderr, "usage: translator <repo> <outdir>")
		os.Exit(2)
	}
	repo, out := os.Args[1], os.Args[2]
	header := "(* GENERATED by /verif/translator from /repo — do not edit. *)\nFrom GTS Require Import Base.\nOpen Scope Z_scope.\n\n"

	// ---- T2
	{
		t := &tr{known: map[string]bool{}}
		var b strings.Builder
		b.WriteString(header)
		fns := []fnSpec{
			{"", "utils.go", "Abs", 1, "Z"}, {"", "utils.go", "Compare", 2, "Z"},
			{"", "utils.go", "Min", 2, "Z"}, {"", "utils.go", "Max", 2, "Z"},
			{"", "location.go", "rangeCompare", 4, "Z"}, {"", "location.go", "rangeWithin", 4, "bool"},
			{"", "location.go", "rangeOverlap", 4, "bool"},
			{"seqio", "origin.go", "toOriginLength", 1, "Z"}, {"seqio", "origin.go", "fromOriginLength", 1, "Z"},
			{"seqio", "date.go", "isLeapYear", 1, "bool"},
		}
		for _, fs := range fns {
			fs := fs
			b.WriteString(section("Arith."+fs.name, fnStub(fs.name, fs.nparams, fs.ret), func() string {
				pf := load(filepath.Join(repo, fs.dir), fs.file)
				return t.function(pf.fn(fs.file, fs.name))
			}) + "\n")
			t.known[fs.name] = true
		}
		writeIfChanged(filepath.Join(out, "Arith.v"), b.String())
	}

	// ---- T1
	{
		var b strings.Builder
		b.WriteString(header)
		b.WriteString(section("Tables.complement",
			"Definition complement_from : list byte := [].\nDefinition complement_to : list byte := [].", func() string {
				nuc := load(repo, "nucleotide.go")
				cf, ct := alphabets(nuc.fn("nucleotide.go", "Complement"))
				return "Definition complement_from : list byte := " + coqBytes(cf) + ".\n" +
					"Definition complement_to : list byte := " + coqBytes(ct) + ".\n"
			}))
		b.WriteString(section("Tables.transcribe",
			"Definition transcribe_from : list byte := [].\nDefinition transcribe_to : list byte := [].", func() string {
				nuc := load(repo, "nucleotide.go")
				tf, tt := alphabets(nuc.fn("nucleotide.go", "Transcribe"))
				return "Definition transcribe_from : list byte := " + coqBytes(tf) + ".\n" +
					"Definition transcribe_to : list byte := " + coqBytes(tt) + ".\n\n"
			}))
		b.WriteString(section("Tables.match",
			"Definition match_rows : list (list byte * list byte) := [].\nDefinition match_default_quoted : bool := false.\nDefinition match_lowers_query : bool := false.\nDefinition match_lowers_seq : bool := false.", func() string {
				nuc := load(repo, "nucleotide.go")
				rows, dq, lq, ls := matchTable(nuc.fn("nucleotide.go", "Match"))
				return "(* Match: query byte(s) -> regexp fragment written for it *)\n" +
					"Definition match_rows : list (list byte * list byte) :=\n  [" + strings.Join(rows, ";\n   ") + "].\n" +
					fmt.Sprintf("Definition match_default_quoted : bool := %v.\n", dq) +
					fmt.Sprintf("Definition match_lowers_query : bool := %v.\n", lq) +
					fmt.Sprintf("Definition match_lowers_seq : bool := %v.\n\n", ls)
			}))
		for _, n := range []string{"QuotedQualifierNames", "LiteralQualifierNames", "ToggleQualifierNames"} {
			n := n
			b.WriteString(section("Tables."+n, "Definition "+n+" : list (list byte) := [].", func() string {
				insdc := load(filepath.Join(repo, "seqio"), "insdc.go")
				ss := stringSliceVar(insdc.files["insdc.go"], n)
				sort.Strings(ss) // init() sorts them
				return "Definition " + n + " : list (list byte) :=\n  " + coqStrList(ss) + ".\n\n"
			}))
		}
		writeIfChanged(filepath.Join(out, "Tables.v"), b.String())
	}

	// ---- T3: CLI option tables and cache payloads
	{
		var b strings.Builder
		b.WriteString(header)
		b.WriteString(section("Cli.table", "Definition cli_table : list (list byte * list (list byte * bool * bool)) := [].", func() string {
			return cliTable(filepath.Join(repo, "cmd", "gts"))
		}))
		writeIfChanged(filepath.Join(out, "Cli.v"), b.String())
	}

	keys := make([]string, 0, len(status))
	for k := range status {
		keys = append(keys, k)
	}
	sort.Strings(keys)
	var sb strings.Builder
	sb.WriteString("{\n")
	for i, k := range keys {
		sep := ","
		if i == len(keys)-1 {
			sep = ""
		}
		sb.WriteString(fmt.Sprintf(" %q: %q%s\n", k, status[k], sep))
	}
	sb.WriteString("}\n")
	writeIfChanged(filepath.Join(out, "status.json"), sb.String())
}
