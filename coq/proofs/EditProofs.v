(* EditProofs.v — what Shift / Expand / Reverse do to the denoted residues,
   for locations built from contiguous kinds, order() and complement()
   (jfree: no join in the INPUT; the joins produced by splitting are covered) *)
From GTS Require Import Base Arith Loc BaseLemmas LocProofs.
Open Scope Z_scope.

Definition bump (i n p : Z) : Z := if i <=? p then p + n else p.

Ltac zb :=
  repeat match goal with
  | H : (_ <? _) = true |- _ => apply Z.ltb_lt in H
  | H : (_ <? _) = false |- _ => apply Z.ltb_ge in H
  | H : (_ <=? _) = true |- _ => apply Z.leb_le in H
  | H : (_ <=? _) = false |- _ => apply Z.leb_gt in H
  | H : (_ =? _) = true |- _ => apply Z.eqb_eq in H
  | H : (_ =? _) = false |- _ => apply Z.eqb_neq in H
  | H : _ && _ = true |- _ => apply andb_true_iff in H as [? ?]
  | H : _ || _ = false |- _ => apply orb_false_iff in H as [? ?]
  end.

Lemma map_bump_range i n s e : 0 <= n ->
  map (bump i n) (zrange s e) =
  zrange s (Z.min e (Z.max s i)) ++ zrange (Z.max s i + n) (e + n).
Proof.
  intros Hn. destruct (Z.le_gt_cases e s) as [H|H].
  - rewrite !zrange_empty by lia. reflexivity.
  - destruct (Z.le_gt_cases i s) as [Hi|Hi].
    + (* all residues move *)
      rewrite (zrange_empty s (Z.min e (Z.max s i))) by lia. cbn [app].
      replace (Z.max s i) with s by lia.
      apply zrange_map_add. intros x Hx. unfold bump.
      replace (i <=? x) with true by (symmetry; apply Z.leb_le; lia). reflexivity.
    + destruct (Z.le_gt_cases e i) as [He|He].
      * (* none moves *)
        replace (Z.min e (Z.max s i)) with e by lia.
        rewrite (zrange_empty (Z.max s i + n)) by lia. rewrite app_nil_r.
        rewrite <- (Z.add_0_r s) at 2. rewrite <- (Z.add_0_r e) at 2.
        apply zrange_map_add. intros x Hx. unfold bump.
        replace (i <=? x) with false by (symmetry; apply Z.leb_gt; lia). lia.
      * (* split at i *)
        replace (Z.min e (Z.max s i)) with i by lia.
        replace (Z.max s i) with i by lia.
        rewrite (zrange_split s i e) by lia. rewrite map_app. f_equal.
        -- rewrite <- (Z.add_0_r s) at 2. rewrite <- (Z.add_0_r i) at 3.
           apply zrange_map_add. intros x Hx. unfold bump.
           replace (i <=? x) with false by (symmetry; apply Z.leb_gt; lia). lia.
        -- apply zrange_map_add. intros x Hx. unfold bump.
           replace (i <=? x) with true by (symmetry; apply Z.leb_le; lia). reflexivity.
Qed.

Definition shift_post (i n : Z) (l l' : loc) : Prop :=
  den l' = map (onpos (bump i n)) (den l) /\ ord_ok l' = true.

Lemma shift_between i n p : 0 <= n -> shift_post i n (Between p) (between_expand p i n).
Proof. intros; split; reflexivity. Qed.

Lemma shift_point i n p : 0 <= n -> shift_post i n (Point p) (point_expand p i n).
Proof.
  intros Hn. unfold point_expand.
  replace (n <? 0) with false by (symmetry; apply Z.ltb_ge; lia).
  replace (0 <=? n) with true by (symmetry; apply Z.leb_le; lia).
  cbn [andb orb]. rewrite orb_false_r.
  split; [|destruct (i <=? p); reflexivity].
  unfold bump, onpos. cbn [den map fst snd].
  destruct (i <=? p) eqn:E; zb; cbn [den]; rewrite ?go_Max_spec; [|reflexivity].
  replace (Z.max i (p + n)) with (p + n) by lia. reflexivity.
Qed.

Lemma shift_ranged i n s e a b : 0 <= n ->
  exists l', ranged_shift s e a b i n = Ok l' /\ shift_post i n (Ranged s e a b) l'.
Proof.
  intros Hn. unfold ranged_shift, shift_post.
  destruct (n =? 0) eqn:E0; zb.
  { subst n. eexists; split; [reflexivity|]. split; [|reflexivity].
    rewrite <- (map_id (den _)) at 1. apply map_ext. intros [p c]. unfold onpos, bump. cbn.
    destruct (i <=? p); f_equal; lia. }
  replace (n <? 0) with false by (symmetry; apply Z.ltb_ge; lia).
  rewrite den_ranged, map_onpos_fwd, map_bump_range by lia.
  destruct ((s <? i) && (i <? e)) eqn:E1; zb.
  - unfold partial_range.
    replace (i <=? s) with false by (symmetry; apply Z.leb_gt; lia).
    replace (e + n <=? i + n) with false by (symmetry; apply Z.leb_gt; lia).
    cbn [obind]. rewrite join_two_ranges by lia.
    eexists; split; [reflexivity|]. split; [|reflexivity].
    cbn [den flat_map]. rewrite app_nil_r, map_app.
    replace (Z.min e (Z.max s i)) with i by lia. replace (Z.max s i) with i by lia. reflexivity.
  - eexists; split; [reflexivity|]. split; [|reflexivity].
    rewrite den_ranged.
    apply andb_false_iff in E1.
    destruct (i <=? s) eqn:E2; destruct (i <? e) eqn:E3; zb.
    + rewrite (zrange_empty s) by lia. replace (Z.max s i) with s by lia. reflexivity.
    + rewrite !zrange_empty by lia. reflexivity.
    + destruct E1 as [E1|E1]; zb; lia.
    + replace (Z.min e (Z.max s i)) with e by lia.
      rewrite (zrange_empty (Z.max s i + n)) by lia. now rewrite app_nil_r.
Qed.

Lemma order_two_amb a b c d :
  order [Ambiguous a b; Ambiguous c d] = Ok (Ordered [Ambiguous a b; Ambiguous c d]).
Proof. reflexivity. Qed.

Lemma shift_ambiguous i n s e : 0 <= n ->
  exists l', ambiguous_shift s e i n = Ok l' /\ shift_post i n (Ambiguous s e) l'.
Proof.
  intros Hn. unfold ambiguous_shift, shift_post.
  destruct (n =? 0) eqn:E0; zb.
  { subst n. eexists; split; [reflexivity|]. split; [|reflexivity].
    rewrite <- (map_id (den _)) at 1. apply map_ext. intros [p c]. unfold onpos, bump. cbn.
    destruct (i <=? p); f_equal; lia. }
  replace (n <? 0) with false by (symmetry; apply Z.ltb_ge; lia).
  rewrite den_ambiguous, map_onpos_fwd, map_bump_range by lia.
  destruct ((s <? i) && (i <? e)) eqn:E1; zb.
  - rewrite order_two_amb.
    eexists; split; [reflexivity|]. split; [|reflexivity].
    cbn [den flat_map]. rewrite app_nil_r, map_app.
    replace (Z.min e (Z.max s i)) with i by lia. replace (Z.max s i) with i by lia. reflexivity.
  - eexists; split; [reflexivity|]. split; [|reflexivity].
    rewrite den_ambiguous.
    apply andb_false_iff in E1.
    destruct (i <=? s) eqn:E2; destruct (i <? e) eqn:E3; zb.
    + rewrite (zrange_empty s) by lia. replace (Z.max s i) with s by lia. reflexivity.
    + rewrite !zrange_empty by lia. reflexivity.
    + destruct E1 as [E1|E1]; zb; lia.
    + replace (Z.min e (Z.max s i)) with e by lia.
      rewrite (zrange_empty (Z.max s i + n)) by lia. now rewrite app_nil_r.
Qed.

(* Insert: every host feature keeps exactly its residues, moved past the guest *)
Theorem shift_den_jfree i n : 0 <= n -> forall l,
  jfree l = true -> ord_ok l = true ->
  exists l', shift l i n = Ok l' /\ shift_post i n l l'.
Proof.
  intros Hn. induction l as [p|p|s e a b|s e|ls IH|ls IH|x IH] using loc_ind'; intros Hj Ho.
  - eexists; split; [reflexivity | now apply shift_between].
  - eexists; split; [reflexivity | now apply shift_point].
  - now apply shift_ranged.
  - now apply shift_ambiguous.
  - discriminate.
  - cbn [jfree] in Hj. cbn [ord_ok] in Ho. apply andb_true_iff in Ho as [Hne Hoa].
    apply forallb_Forall in Hj. apply forallb_Forall in Hoa.
    assert (HF : Forall (fun x => exists y, shift x i n = Ok y /\
                          den y = map (onpos (bump i n)) (den x) /\ ord_ok y = true) ls).
    { clear Hne. induction ls as [|x t IHt]; constructor.
      - inversion IH; inversion Hj; inversion Hoa; subst.
        destruct (H1 H5 H9) as [y [Hy [Hd Hok]]]. exists y. auto.
      - inversion IH; inversion Hj; inversion Hoa; subst. apply IHt; assumption. }
    destruct (omapM_den (fun y => ord_ok y = true) ls HF) as [ys [Hys [Hds [Hl HQ]]]].
    cbn [shift]. rewrite Hys. cbn [obind].
    assert (Hne' : ys <> []).
    { destruct ls; [discriminate|]. destruct ys; [discriminate|congruence]. }
    destruct (order_ok ys Hne' (Forall_forallb _ _ HQ)) as [r Hr].
    exists r. split; [exact Hr|]. split.
    + rewrite (order_ok_den _ _ Hr). cbn [den]. exact Hds.
    + (* the flattened result is an order of order-free parts or a single part *)
      unfold order in Hr.
      pose proof (flatten_nonempty (S (list_size ys)) ys Hne' (Forall_forallb _ _ HQ)).
      assert (HA : forallb ord_ok (flatten_locs (S (list_size ys)) ys) = true).
      { clear - HQ. generalize (S (list_size ys)). intros fuel. revert ys HQ.
        induction fuel as [|f IHf]; intros ys HQ; [now apply Forall_forallb|].
        cbn [flatten_locs]. induction HQ as [|y t Hy Ht IHt]; [reflexivity|].
        cbn [flat_map]. rewrite forallb_app, IHt, andb_true_r.
        destruct y; try (cbn [forallb]; now rewrite Hy).
        cbn [ord_ok] in Hy. apply andb_true_iff in Hy as [_ Hy].
        apply IHf. now apply forallb_Forall. }
      destruct (flatten_locs (S (list_size ys)) ys) as [|u [|v t]]; [congruence| |].
      * inversion Hr; subst. cbn [forallb] in HA. now rewrite andb_true_r in HA.
      * inversion Hr; subst. cbn [ord_ok]. exact HA.
  - cbn [jfree] in Hj. cbn [ord_ok] in Ho.
    destruct (IH Hj Ho) as [x' [Hx [Hd Hok]]].
    cbn [shift]. rewrite Hx. cbn [obind]. eexists; split; [reflexivity|]. split.
    + rewrite !den_complemented, Hd. symmetry. apply map_rev_flip.
    + exact Hok.
Qed.

(* ---------- generic lifting from contiguous kinds to order()/complement() *)

Definition contiguous (l : loc) : Prop :=
  match l with Between _ | Point _ | Ranged _ _ _ _ | Ambiguous _ _ => True | _ => False end.

Section Lift.
  Variable op : loc -> out loc.
  (* R d' d : the residues d' denoted afterwards are related to d before *)
  Variable R : list (Z * bool) -> list (Z * bool) -> Prop.
  Variable wf : loc -> bool.   (* side condition on contiguous parts *)
  Variable rv : bool.          (* true: the operation also reverses part order *)
  Hypothesis op_ordered : forall ls,
    op (Ordered ls) = (ls' <- omapM op ls ;; order (if rv then rev ls' else ls')).
  Hypothesis op_compl : forall x, op (Complemented x) = (x' <- op x ;; Ok (Complemented x')).
  Hypothesis R_nil : R [] [].
  Hypothesis R_app : forall a' a b' b, R a' a -> R b' b ->
    R (if rv then b' ++ a' else a' ++ b') (a ++ b).
  Hypothesis R_flip : forall d' d, R d' d -> R (rev (map flipd d')) (rev (map flipd d)).
  Hypothesis base : forall l, contiguous l -> wf l = true ->
    exists l', op l = Ok l' /\ R (den l') (den l) /\ ord_ok l' = true.

  Fixpoint wf_all (l : loc) : bool :=
    match l with
    | Joined ls | Ordered ls => forallb wf_all ls
    | Complemented x => wf_all x
    | _ => wf l
    end.

  Lemma omapM_lift ls :
    Forall (fun x => exists y, op x = Ok y /\ R (den y) (den x) /\ ord_ok y = true) ls ->
    exists ys, omapM op ls = Ok ys /\
               R (flat_map den (if rv then rev ys else ys)) (flat_map den ls) /\
               length ys = length ls /\ Forall (fun y => ord_ok y = true) ys.
  Proof.
    induction 1 as [|x t [y [Hy [Hd HQ]]] _ [ys [Hys [Hds [Hl HQs]]]]].
    - exists []. split; [reflexivity|]. split; [destruct rv; cbn [rev flat_map]; exact R_nil|].
      split; [reflexivity | constructor].
    - exists (y :: ys). cbn [omapM]. rewrite Hy. cbn [obind]. rewrite Hys. cbn [obind].
      repeat split.
      + cbn [flat_map]. pose proof (R_app _ _ _ _ Hd Hds) as HA. destruct rv.
        * cbn [rev]. rewrite flat_map_app. cbn [flat_map]. rewrite app_nil_r. exact HA.
        * cbn [flat_map]. exact HA.
      + cbn [length]. now rewrite Hl.
      + constructor; assumption.
  Qed.

  Lemma order_ord_ok ys r : ys <> [] -> Forall (fun y => ord_ok y = true) ys ->
    order ys = Ok r -> ord_ok r = true.
  Proof.
    intros Hne HQ Hr. unfold order in Hr.
    assert (HA : forallb ord_ok (flatten_locs (S (list_size ys)) ys) = true).
    { clear - HQ. generalize (S (list_size ys)). intros fuel. revert ys HQ.
      induction fuel as [|f IHf]; intros ys HQ; [now apply Forall_forallb|].
      cbn [flatten_locs]. induction HQ as [|y t Hy Ht IHt]; [reflexivity|].
      cbn [flat_map]. rewrite forallb_app, IHt, andb_true_r.
      destruct y; try (cbn [forallb]; now rewrite Hy).
      cbn [ord_ok] in Hy. apply andb_true_iff in Hy as [_ Hy].
      apply IHf. now apply forallb_Forall. }
    destruct (flatten_locs (S (list_size ys)) ys) as [|u [|v t]]; [discriminate| |].
    - inversion Hr; subst. cbn [forallb] in HA. now rewrite andb_true_r in HA.
    - inversion Hr; subst. cbn [ord_ok]. exact HA.
  Qed.

  Theorem lift_jfree : forall l,
    jfree l = true -> ord_ok l = true -> wf_all l = true ->
    exists l', op l = Ok l' /\ R (den l') (den l) /\ ord_ok l' = true.
  Proof.
    induction l as [p|p|s e a b|s e|ls IH|ls IH|x IH] using loc_ind'; intros Hj Ho Hw.
    - apply base; [exact I | exact Hw].
    - apply base; [exact I | exact Hw].
    - apply base; [exact I | exact Hw].
    - apply base; [exact I | exact Hw].
    - discriminate.
    - cbn [jfree] in Hj. cbn [ord_ok] in Ho. cbn [wf_all] in Hw.
      apply andb_true_iff in Ho as [Hne Hoa].
      apply forallb_Forall in Hj. apply forallb_Forall in Hoa. apply forallb_Forall in Hw.
      assert (HF : Forall (fun x => exists y, op x = Ok y /\ R (den y) (den x) /\ ord_ok y = true) ls).
      { clear Hne. induction ls as [|x t IHt]; constructor.
        - inversion IH; inversion Hj; inversion Hoa; inversion Hw; subst. auto.
        - inversion IH; inversion Hj; inversion Hoa; inversion Hw; subst. apply IHt; assumption. }
      destruct (omapM_lift ls HF) as [ys [Hys [Hds [Hl HQ]]]].
      rewrite op_ordered, Hys. cbn [obind].
      set (zs := if rv then rev ys else ys) in *.
      assert (HQz : Forall (fun y => ord_ok y = true) zs).
      { unfold zs. destruct rv; [|exact HQ]. apply Forall_rev. exact HQ. }
      assert (Hne' : zs <> []).
      { unfold zs. destruct ls; [discriminate|]. destruct ys as [|y0 ys0]; [discriminate|].
        destruct rv; [|congruence]. cbn [rev]. intros E. apply app_eq_nil in E as [_ E]. discriminate. }
      destruct (order_ok zs Hne' (Forall_forallb _ _ HQz)) as [r Hr].
      exists r. split; [exact Hr|]. split.
      + rewrite (order_ok_den _ _ Hr). cbn [den]. exact Hds.
      + exact (order_ord_ok zs r Hne' HQz Hr).
    - cbn [jfree] in Hj. cbn [ord_ok] in Ho. cbn [wf_all] in Hw.
      destruct (IH Hj Ho Hw) as [x' [Hx [Hd Hok]]].
      rewrite op_compl, Hx. cbn [obind]. eexists; split; [reflexivity|]. split.
      + rewrite !den_complemented. apply R_flip. exact Hd.
      + exact Hok.
  Qed.
End Lift.

Lemma wf_all_true l : wf_all (fun _ => true) l = true.
Proof.
  induction l using loc_ind'; cbn [wf_all]; try reflexivity.
  - now apply Forall_forallb.
  - now apply Forall_forallb.
  - assumption.
Qed.

(* pointwise transformations satisfy the distribution hypotheses *)
Lemma mapfilter_flip (f : Z -> Z) (p : Z -> bool) d :
  map (onpos f) (filter (fun x => p (fst x)) (rev (map flipd d))) =
  rev (map flipd (map (onpos f) (filter (fun x => p (fst x)) d))).
Proof.
  induction d as [|x t IH]; [reflexivity|].
  cbn [map rev]. rewrite filter_app, map_app, IH. cbn [filter].
  destruct x as [q c]. cbn [flipd fst]. cbn [filter fst].
  destruct (p q); cbn [map rev app]; [|now rewrite app_nil_r].
  reflexivity.
Qed.

(* ---------- Delete: Expand(i, -n) *)

Definition outside (i n p : Z) : bool := (p <? i) || (i + n <=? p).
Definition unbump (i n p : Z) : Z := if i + n <=? p then p - n else p.
Definition clamp (i n x : Z) : Z := if x <=? i then x else Z.max i (x - n).

Definition del_den (i n : Z) (d : list (Z * bool)) : list (Z * bool) :=
  map (onpos (unbump i n)) (filter (fun x => outside i n (fst x)) d).

Lemma del_range i n s e : 0 < n ->
  map (unbump i n) (filter (outside i n) (zrange s e)) = zrange (clamp i n s) (clamp i n e).
Proof.
  intros Hn. unfold clamp.
  destruct (Z.le_gt_cases e s) as [Hse|Hse].
  { rewrite zrange_empty by lia. cbn [filter map]. symmetry. apply zrange_empty.
    destruct (s <=? i) eqn:E1; destruct (e <=? i) eqn:E2; zb; lia. }
  assert (Hkeep_lo : forall a b, b <= i -> map (unbump i n) (filter (outside i n) (zrange a b)) = zrange a b).
  { intros a b Hb. rewrite zrange_filter_all.
    - rewrite <- (Z.add_0_r a) at 2. rewrite <- (Z.add_0_r b) at 2.
      apply zrange_map_add. intros x Hx. unfold unbump.
      replace (i + n <=? x) with false by (symmetry; apply Z.leb_gt; lia). lia.
    - intros x Hx. unfold outside. replace (x <? i) with true by (symmetry; apply Z.ltb_lt; lia). reflexivity. }
  assert (Hkeep_hi : forall a b, i + n <= a -> map (unbump i n) (filter (outside i n) (zrange a b)) = zrange (a - n) (b - n)).
  { intros a b Ha. rewrite zrange_filter_all.
    - apply (zrange_map_add (unbump i n) (- n)). intros x Hx. unfold unbump.
      replace (i + n <=? x) with true by (symmetry; apply Z.leb_le; lia). lia.
    - intros x Hx. unfold outside. replace (i + n <=? x) with true by (symmetry; apply Z.leb_le; lia).
      apply orb_true_r. }
  assert (Hdrop : forall a b, i <= a -> b <= i + n -> map (unbump i n) (filter (outside i n) (zrange a b)) = []).
  { intros a b Ha Hb. rewrite zrange_filter_none; [reflexivity|].
    intros x Hx. unfold outside.
    replace (x <? i) with false by (symmetry; apply Z.ltb_ge; lia).
    replace (i + n <=? x) with false by (symmetry; apply Z.leb_gt; lia). reflexivity. }
  destruct (s <=? i) eqn:E1; destruct (e <=? i) eqn:E2; zb.
  - (* e <= i *) apply Hkeep_lo. lia.
  - (* s <= i < e *)
    rewrite (zrange_split s i e) by lia. rewrite filter_app, map_app, Hkeep_lo by lia.
    destruct (Z.le_gt_cases e (i + n)).
    + rewrite Hdrop by lia. rewrite app_nil_r. f_equal. lia.
    + rewrite (zrange_split i (i + n) e) by lia. rewrite filter_app, map_app, Hdrop, Hkeep_hi by lia.
      cbn [app]. replace (i + n - n) with i by lia.
      rewrite <- zrange_split by lia. f_equal. lia.
  - lia.
  - (* i < s *)
    destruct (Z.le_gt_cases (i + n) s).
    + rewrite Hkeep_hi by lia. f_equal; lia.
    + destruct (Z.le_gt_cases e (i + n)).
      * rewrite Hdrop by lia. symmetry. apply zrange_empty. lia.
      * rewrite (zrange_split s (i + n) e) by lia. rewrite filter_app, map_app, Hdrop, Hkeep_hi by lia.
        cbn [app]. f_equal; lia.
Qed.

Lemma del_fwd i n l :
  del_den i n (map fwd l) = map fwd (map (unbump i n) (filter (outside i n) l)).
Proof.
  unfold del_den. rewrite (filter_map_fwd (outside i n)). apply map_onpos_fwd.
Qed.

Lemma expand_neg_base i n : 0 < n -> forall l, contiguous l -> true = true ->
  exists l', expand l i (- n) = Ok l' /\ den l' = del_den i n (den l) /\ ord_ok l' = true.
Proof.
  intros Hn l Hc _. destruct l as [p|p|s e a b|s e| | |]; try contradiction; cbn [expand].
  - eexists; split; [reflexivity|]. split; reflexivity.
  - eexists; split; [reflexivity|]. unfold point_expand.
    replace (- n <? 0) with true by (symmetry; apply Z.ltb_lt; lia).
    replace (0 <=? - n) with false by (symmetry; apply Z.leb_gt; lia).
    cbn [andb orb]. replace (i - - n) with (i + n) by lia.
    split; [|destruct ((i <=? p) && (p <? i + n)); [reflexivity | destruct (i <? p); reflexivity]].
    unfold del_den, outside, unbump, onpos. cbn [den filter fst].
    destruct ((i <=? p) && (p <? i + n)) eqn:E1.
    + zb. replace (p <? i) with false by (symmetry; apply Z.ltb_ge; lia).
      replace (i + n <=? p) with false by (symmetry; apply Z.leb_gt; lia). reflexivity.
    + apply andb_false_iff in E1. destruct (i <? p) eqn:E2; zb.
      * assert (i + n <= p) by (destruct E1 as [E1|E1]; zb; lia).
        assert (Hq1 : (p <? i) = false) by (apply Z.ltb_ge; lia).
        assert (Hq2 : (i + n <=? p) = true) by (apply Z.leb_le; lia).
        rewrite Hq1, Hq2. cbn [orb map fst snd den]. rewrite Hq2, go_Max_spec.
        replace (Z.max i (p + - n)) with (p - n) by lia. reflexivity.
      * assert (p < i) by (destruct E1 as [E1|E1]; zb; lia).
        assert (Hq1 : (p <? i) = true) by (apply Z.ltb_lt; lia).
        assert (Hq2 : (i + n <=? p) = false) by (apply Z.leb_gt; lia).
        rewrite Hq1, Hq2. cbn [orb map fst snd den]. rewrite Hq2. reflexivity.
  - unfold ranged_expand.
    replace (- n =? 0) with false by (symmetry; apply Z.eqb_neq; lia).
    replace (- n <? 0) with true by (symmetry; apply Z.ltb_lt; lia).
    replace (0 <=? - n) with false by (symmetry; apply Z.leb_gt; lia).
    cbn [andb orb]. rewrite !go_Max_spec.
    assert (Hs : (if i <? s then Z.max i (s + - n) else s) = clamp i n s).
    { unfold clamp. destruct (i <? s) eqn:E; destruct (s <=? i) eqn:E'; zb; lia. }
    assert (He : (if i <=? e then Z.max i (e + - n) else e) = clamp i n e).
    { unfold clamp. destruct (i <=? e) eqn:E; destruct (e <=? i) eqn:E'; zb; lia. }
    rewrite Hs, He. rewrite den_ranged, del_fwd, del_range by lia.
    destruct (clamp i n s =? clamp i n e) eqn:E; zb.
    + eexists; split; [reflexivity|]. split; [|reflexivity].
      rewrite E, zrange_empty by lia. reflexivity.
    + eexists; split; [reflexivity|]. split; reflexivity.
  - unfold ambiguous_expand.
    replace (- n =? 0) with false by (symmetry; apply Z.eqb_neq; lia).
    replace (- n <? 0) with true by (symmetry; apply Z.ltb_lt; lia).
    replace (0 <=? - n) with false by (symmetry; apply Z.leb_gt; lia).
    cbn [andb orb]. rewrite !go_Max_spec.
    assert (Hs : (if i <? s then Z.max i (s + - n) else s) = clamp i n s).
    { unfold clamp. destruct (i <? s) eqn:E; destruct (s <=? i) eqn:E'; zb; lia. }
    assert (He : (if i <=? e then Z.max i (e + - n) else e) = clamp i n e).
    { unfold clamp. destruct (i <=? e) eqn:E; destruct (e <=? i) eqn:E'; zb; lia. }
    rewrite Hs, He. rewrite den_ambiguous, del_fwd, del_range by lia.
    destruct (clamp i n s =? clamp i n e) eqn:E; zb.
    + eexists; split; [reflexivity|]. split; [|reflexivity].
      rewrite E, zrange_empty by lia. reflexivity.
    + eexists; split; [reflexivity|]. split; reflexivity.
Qed.

(* Delete: every surviving feature denotes exactly its former residues minus
   the removed ones, same order and strand *)
Theorem expand_neg_den_jfree i n : 0 < n -> forall l,
  jfree l = true -> ord_ok l = true ->
  exists l', expand l i (- n) = Ok l' /\ den l' = del_den i n (den l) /\ ord_ok l' = true.
Proof.
  intros Hn l Hj Ho.
  apply (lift_jfree (fun l => expand l i (- n)) (fun d' d => d' = del_den i n d) (fun _ => true) false);
    try assumption.
  - reflexivity.
  - reflexivity.
  - reflexivity.
  - intros a' a b' b -> ->. unfold del_den. now rewrite filter_app, map_app.
  - intros d' d ->. unfold del_den. symmetry. apply mapfilter_flip.
  - now apply expand_neg_base.
  - apply wf_all_true.
Qed.

(* ---------- Reverse *)

Definition mirror (L p : Z) : Z := L - 1 - p.
Definition rev_den (L : Z) (d : list (Z * bool)) : list (Z * bool) :=
  rev (map (onpos (mirror L)) d).
Definition range_wf (l : loc) : bool :=
  match l with Ranged s e _ _ => s <? e | _ => true end.

Lemma rev_den_fwd L l : rev_den L (map fwd l) = map fwd (rev (map (mirror L) l)).
Proof. unfold rev_den. rewrite map_onpos_fwd, map_rev. reflexivity. Qed.

Lemma reverse_base L : forall l, contiguous l -> range_wf l = true ->
  exists l', reverse l L = Ok l' /\ den l' = rev_den L (den l) /\ ord_ok l' = true.
Proof.
  intros l Hc Hw. destruct l as [p|p|s e a b|s e| | |]; try contradiction; cbn [reverse].
  - eexists; split; [reflexivity|]. split; reflexivity.
  - eexists; split; [reflexivity|]. split; reflexivity.
  - cbn [range_wf] in Hw. zb. unfold ranged_reverse, partial_range.
    replace (L - s <=? L - e) with false by (symmetry; apply Z.leb_gt; lia).
    cbn [obind].
    assert (HD : forall x y, den (Ranged (L - e) (L - s) x y) = rev_den L (den (Ranged s e a b))).
    { intros x y. rewrite !den_ranged, rev_den_fwd. f_equal. symmetry. apply zrange_rev_mirror. }
    destruct a, b; eexists; (split; [reflexivity|]); (split; [apply HD | reflexivity]).
  - eexists; split; [reflexivity|]. split; [|reflexivity].
    rewrite !den_ambiguous, rev_den_fwd. f_equal. symmetry. apply zrange_rev_mirror.
Qed.

(* Reverse mirrors every feature: parts in mirrored order, none lost *)
Theorem reverse_den_jfree L : forall l,
  jfree l = true -> ord_ok l = true -> wf_all range_wf l = true ->
  exists l', reverse l L = Ok l' /\ den l' = rev_den L (den l) /\ ord_ok l' = true.
Proof.
  intros l Hj Ho Hw.
  apply (lift_jfree (fun l => reverse l L) (fun d' d => d' = rev_den L d) range_wf true); try assumption.
  - reflexivity.
  - reflexivity.
  - reflexivity.
  - intros a' a b' b -> ->. unfold rev_den. now rewrite map_app, rev_app_distr.
  - intros d' d ->. unfold rev_den. rewrite map_rev, rev_involutive.
    rewrite <- map_rev, rev_involutive. rewrite !map_map. apply map_ext.
    intros [p c]. reflexivity.
  - apply reverse_base.
Qed.

(* ---------- Embed: Expand(i, n) with n >= 0 *)

Definition emb_den (i n : Z) (d : list (Z * bool)) : list (Z * bool) :=
  filter (fun x => outside i n (fst x)) d.

(* Expand(i,n), n>=0: the feature's former residues (moved past the guest) are
   exactly its residues outside the guest interval *)
Lemma expand_pos_range i n s e : 0 <= n ->
  let s' := if i <=? s then s + n else s in
  let e' := if i <? e then e + n else e in
  filter (outside i n) (zrange s' e') = map (bump i n) (zrange s e).
Proof.
  intros Hn s' e'. subst s' e'. rewrite map_bump_range by lia.
  assert (Hall : forall a b, b <= i \/ i + n <= a -> filter (outside i n) (zrange a b) = zrange a b).
  { intros a b H. apply zrange_filter_all. intros x Hx. unfold outside.
    destruct H; [replace (x <? i) with true by (symmetry; apply Z.ltb_lt; lia); reflexivity|].
    replace (i + n <=? x) with true by (symmetry; apply Z.leb_le; lia). apply orb_true_r. }
  assert (Hnone : forall a b, i <= a -> b <= i + n -> filter (outside i n) (zrange a b) = []).
  { intros a b Ha Hb. apply zrange_filter_none. intros x Hx. unfold outside.
    replace (x <? i) with false by (symmetry; apply Z.ltb_ge; lia).
    replace (i + n <=? x) with false by (symmetry; apply Z.leb_gt; lia). reflexivity. }
  destruct (i <=? s) eqn:E1; destruct (i <? e) eqn:E2; zb.
  - rewrite Hall by lia. rewrite (zrange_empty s) by lia. replace (Z.max s i) with s by lia. reflexivity.
  - rewrite !zrange_empty by lia. reflexivity.
  - (* s < i < e : extended over the guest *)
    rewrite (zrange_split s i (e + n)) by lia. rewrite (zrange_split i (i + n) (e + n)) by lia.
    rewrite !filter_app, Hall, Hnone, Hall by lia. cbn [app].
    replace (Z.min e (Z.max s i)) with i by lia. replace (Z.max s i) with i by lia. reflexivity.
  - rewrite Hall by lia. replace (Z.min e (Z.max s i)) with e by lia.
    rewrite (zrange_empty (Z.max s i + n)) by lia. now rewrite app_nil_r.
Qed.

Lemma expand_pos_base i n : 0 < n -> forall l, contiguous l -> true = true ->
  exists l', expand l i n = Ok l' /\
             emb_den i n (den l') = map (onpos (bump i n)) (den l) /\ ord_ok l' = true.
Proof.
  intros Hn l Hc _. destruct l as [p|p|s e a b|s e| | |]; try contradiction; cbn [expand].
  - eexists; split; [reflexivity|]. split; reflexivity.
  - eexists; split; [reflexivity|]. unfold point_expand.
    replace (n <? 0) with false by (symmetry; apply Z.ltb_ge; lia).
    replace (0 <=? n) with true by (symmetry; apply Z.leb_le; lia).
    cbn [andb orb]. rewrite orb_false_r.
    split; [|destruct (i <=? p); reflexivity].
    unfold emb_den, outside, bump, onpos. cbn [den map fst snd].
    destruct (i <=? p) eqn:E; zb; cbn [den filter fst]; rewrite ?go_Max_spec.
    + replace (Z.max i (p + n)) with (p + n) by lia.
      replace (i + n <=? p + n) with true by (symmetry; apply Z.leb_le; lia).
      rewrite orb_true_r. reflexivity.
    + replace (p <? i) with true by (symmetry; apply Z.ltb_lt; lia). reflexivity.
  - unfold ranged_expand.
    replace (n =? 0) with false by (symmetry; apply Z.eqb_neq; lia).
    replace (n <? 0) with false by (symmetry; apply Z.ltb_ge; lia).
    replace (0 <=? n) with true by (symmetry; apply Z.leb_le; lia).
    cbn [andb orb]. rewrite !orb_false_r, !go_Max_spec.
    replace (if i <=? s then Z.max i (s + n) else s) with (if i <=? s then s + n else s)
      by (destruct (i <=? s) eqn:E; zb; lia).
    replace (if i <? e then Z.max i (e + n) else e) with (if i <? e then e + n else e)
      by (destruct (i <? e) eqn:E; zb; lia).
    pose proof (expand_pos_range i n s e ltac:(lia)) as HR. cbv zeta in HR.
    match goal with |- context [?a =? ?b] => destruct (a =? b) eqn:E end; zb.
    + eexists; split; [reflexivity|]. split; [|reflexivity].
      rewrite den_ranged, map_onpos_fwd, <- HR, E, zrange_empty by lia. reflexivity.
    + eexists; split; [reflexivity|]. split; [|reflexivity].
      unfold emb_den. rewrite !den_ranged, (filter_map_fwd (outside i n)), map_onpos_fwd, HR. reflexivity.
  - unfold ambiguous_expand.
    replace (n =? 0) with false by (symmetry; apply Z.eqb_neq; lia).
    replace (n <? 0) with false by (symmetry; apply Z.ltb_ge; lia).
    replace (0 <=? n) with true by (symmetry; apply Z.leb_le; lia).
    cbn [andb orb]. rewrite !orb_false_r, !go_Max_spec.
    replace (if i <=? s then Z.max i (s + n) else s) with (if i <=? s then s + n else s)
      by (destruct (i <=? s) eqn:E; zb; lia).
    replace (if i <? e then Z.max i (e + n) else e) with (if i <? e then e + n else e)
      by (destruct (i <? e) eqn:E; zb; lia).
    pose proof (expand_pos_range i n s e ltac:(lia)) as HR. cbv zeta in HR.
    match goal with |- context [?a =? ?b] => destruct (a =? b) eqn:E end; zb.
    + eexists; split; [reflexivity|]. split; [|reflexivity].
      rewrite den_ambiguous, map_onpos_fwd, <- HR, E, zrange_empty by lia. reflexivity.
    + eexists; split; [reflexivity|]. split; [|reflexivity].
      unfold emb_den. rewrite !den_ambiguous, (filter_map_fwd (outside i n)), map_onpos_fwd, HR. reflexivity.
Qed.

Lemma filter_rev_flip (p : Z -> bool) d :
  filter (fun x => p (fst x)) (rev (map flipd d)) = rev (map flipd (filter (fun x => p (fst x)) d)).
Proof.
  induction d as [|x t IH]; [reflexivity|].
  cbn [map rev]. rewrite filter_app, IH. cbn [filter].
  destruct x as [q c]. cbn [flipd fst]. cbn [filter fst].
  destruct (p q); cbn [map rev app]; [reflexivity | now rewrite app_nil_r].
Qed.

(* Embed: the feature's residues outside the guest are exactly its former
   residues, moved past the guest *)
Theorem expand_pos_den_jfree i n : 0 < n -> forall l,
  jfree l = true -> ord_ok l = true ->
  exists l', expand l i n = Ok l' /\
             emb_den i n (den l') = map (onpos (bump i n)) (den l) /\ ord_ok l' = true.
Proof.
  intros Hn l Hj Ho.
  apply (lift_jfree (fun l => expand l i n)
           (fun d' d => emb_den i n d' = map (onpos (bump i n)) d) (fun _ => true) false);
    try assumption.
  - reflexivity.
  - reflexivity.
  - reflexivity.
  - intros a' a b' b Ha Hb. unfold emb_den in *. now rewrite filter_app, map_app, Ha, Hb.
  - intros d' d H. unfold emb_den in *. rewrite (filter_rev_flip (outside i n)), H. symmetry. apply map_rev_flip.
  - now apply expand_pos_base.
  - apply wf_all_true.
Qed.

(* ---------- Delete undoes Insert (contiguous locations: restored exactly,
   partial markers included; the join created by the split re-merges) *)

Theorem undo_insert_contig i n : 0 < n -> forall l, contiguous l -> range_wf l = true ->
  match l with Ambiguous s e => (s <? e) && negb ((s <? i) && (i <? e)) | _ => true end = true ->
  exists l', shift l i n = Ok l' /\ expand l' i (- n) = Ok l.
Proof.
  intros Hn l Hc Hw Ha. destruct l as [p|p|s e a b|s e| | |]; try contradiction; cbn [shift].
  - eexists; split; [reflexivity|]. unfold between_expand. cbn [expand]. unfold between_expand. f_equal. f_equal.
    rewrite !go_Max_spec. destruct (i <? p) eqn:E; zb.
    + replace (i <? Z.max i (p + n)) with true by (symmetry; apply Z.ltb_lt; lia). cbv iota. lia.
    + replace (i <? p) with false by (symmetry; apply Z.ltb_ge; lia). reflexivity.
  - eexists; split; [reflexivity|]. unfold point_expand.
    replace (n <? 0) with false by (symmetry; apply Z.ltb_ge; lia).
    replace (0 <=? n) with true by (symmetry; apply Z.leb_le; lia).
    cbn [andb orb]. rewrite orb_false_r, go_Max_spec.
    destruct (i <=? p) eqn:E; zb; cbn [expand]; unfold point_expand;
      replace (- n <? 0) with true by (symmetry; apply Z.ltb_lt; lia);
      replace (0 <=? - n) with false by (symmetry; apply Z.leb_gt; lia);
      cbn [andb orb]; rewrite ?go_Max_spec.
    + replace (Z.max i (p + n)) with (p + n) by lia.
      replace (i <=? p + n) with true by (symmetry; apply Z.leb_le; lia).
      replace (p + n <? i - - n) with false by (symmetry; apply Z.ltb_ge; lia).
      replace (i <? p + n) with true by (symmetry; apply Z.ltb_lt; lia).
      cbn [andb]. do 2 f_equal. lia.
    + replace (i <=? p) with false by (symmetry; apply Z.leb_gt; lia).
      replace (i <? p) with false by (symmetry; apply Z.ltb_ge; lia). reflexivity.
  - cbn [range_wf] in Hw. zb. unfold ranged_shift.
    replace (n =? 0) with false by (symmetry; apply Z.eqb_neq; lia).
    replace (n <? 0) with false by (symmetry; apply Z.ltb_ge; lia).
    assert (HE : forall s e a b, s < e ->
              (i <= s -> ranged_expand (s + n) (e + n) a b i (- n) = Ranged s e a b) /\
              (e <= i -> ranged_expand s e a b i (- n) = Ranged s e a b) /\
              (i = s -> ranged_expand (s + n) (e + n) false b i (- n) = Ranged s e false b)).
    { clear - Hn. intros s e a b Hse. unfold ranged_expand. repeat split; intros H.
      all: replace (- n =? 0) with false by (symmetry; apply Z.eqb_neq; lia);
        replace (- n <? 0) with true by (symmetry; apply Z.ltb_lt; lia);
        replace (0 <=? - n) with false by (symmetry; apply Z.leb_gt; lia);
        cbn [andb orb]; rewrite ?go_Max_spec; replace (i - - n) with (i + n) by lia.
      - replace (s + n <? i + n) with false by (symmetry; apply Z.ltb_ge; lia).
        replace (e + n <=? i + n) with false by (symmetry; apply Z.leb_gt; lia).
        rewrite !andb_false_r.
        replace (i <? s + n) with true by (symmetry; apply Z.ltb_lt; lia).
        replace (i <=? e + n) with true by (symmetry; apply Z.leb_le; lia).
        replace (Z.max i (s + n + - n)) with s by lia. replace (Z.max i (e + n + - n)) with e by lia.
        replace (s =? e) with false by (symmetry; apply Z.eqb_neq; lia). reflexivity.
      - replace (i <=? s) with false by (symmetry; apply Z.leb_gt; lia).
        replace (i <? e) with false by (symmetry; apply Z.ltb_ge; lia). cbn [andb].
        replace (i <? s) with false by (symmetry; apply Z.ltb_ge; lia).
        destruct (i <=? e) eqn:E; zb.
        + replace (Z.max i (e + - n)) with e by lia.
          replace (s =? e) with false by (symmetry; apply Z.eqb_neq; lia). reflexivity.
        + replace (s =? e) with false by (symmetry; apply Z.eqb_neq; lia). reflexivity.
      - subst i.
        replace (s + n <? s + n) with false by (symmetry; apply Z.ltb_ge; lia).
        replace (e + n <=? s + n) with false by (symmetry; apply Z.leb_gt; lia).
        rewrite !andb_false_r.
        replace (s <? s + n) with true by (symmetry; apply Z.ltb_lt; lia).
        replace (s <=? e + n) with true by (symmetry; apply Z.leb_le; lia).
        replace (Z.max s (s + n + - n)) with s by lia. replace (Z.max s (e + n + - n)) with e by lia.
        replace (s =? e) with false by (symmetry; apply Z.eqb_neq; lia). reflexivity. }
    destruct ((s <? i) && (i <? e)) eqn:E1; zb.
    + unfold partial_range.
      replace (i <=? s) with false by (symmetry; apply Z.leb_gt; lia).
      replace (e + n <=? i + n) with false by (symmetry; apply Z.leb_gt; lia).
      cbn [obind]. rewrite join_two_ranges by lia.
      eexists; split; [reflexivity|].
      cbn [expand omapM obind].
      destruct (HE s i a false ltac:(lia)) as [_ [H2 _]]. rewrite (H2 ltac:(lia)).
      destruct (HE i e false b ltac:(lia)) as [_ [_ H3]]. rewrite (H3 eq_refl).
      apply join_two_ranges_abut.
    + eexists; split; [reflexivity|]. cbn [expand].
      apply andb_false_iff in E1.
      destruct (i <=? s) eqn:E2; destruct (i <? e) eqn:E3; zb; try lia.
      * f_equal. apply (HE s e a b); lia.
      * f_equal. apply (HE s e a b); lia.
  - unfold ambiguous_shift.
    replace (n =? 0) with false by (symmetry; apply Z.eqb_neq; lia).
    replace (n <? 0) with false by (symmetry; apply Z.ltb_ge; lia).
    apply andb_true_iff in Ha as [Hse Ha]. apply Z.ltb_lt in Hse.
    rewrite negb_true_iff in Ha. rewrite Ha.
    eexists; split; [reflexivity|]. cbn [expand]. f_equal. unfold ambiguous_expand.
    replace (- n =? 0) with false by (symmetry; apply Z.eqb_neq; lia).
    replace (- n <? 0) with true by (symmetry; apply Z.ltb_lt; lia).
    replace (0 <=? - n) with false by (symmetry; apply Z.leb_gt; lia).
    cbn [andb orb]. rewrite !go_Max_spec.
    apply andb_false_iff in Ha.
    destruct (i <=? s) eqn:E2; destruct (i <? e) eqn:E3; zb.
    + replace (i <? s + n) with true by (symmetry; apply Z.ltb_lt; lia).
      replace (i <=? e + n) with true by (symmetry; apply Z.leb_le; lia).
      replace (Z.max i (s + n + - n)) with s by lia. replace (Z.max i (e + n + - n)) with e by lia.
      destruct (s =? e) eqn:E; zb; [|reflexivity].
      subst. exfalso. lia.
    + exfalso. lia.
    + exfalso. lia.
    + replace (i <? s) with false by (symmetry; apply Z.ltb_ge; lia).
      destruct (i <=? e) eqn:E; zb.
      * replace (Z.max i (e + - n)) with e by lia.
        destruct (s =? e) eqn:E'; zb; [|reflexivity]. subst. exfalso. lia.
      * destruct (s =? e) eqn:E'; zb; [|reflexivity]. subst. exfalso. lia.
Qed.
