(* SeqProofs.v — residue-level facts about the sequence operations of Seq.v *)
From GTS Require Import Base Arith Tables Loc Seq BaseLemmas LocProofs.
Open Scope Z_scope.

Lemma slice_prefix {A} (p : list A) i : 0 <= i <= zlen p ->
  slice p 0 i = Ok (firstn (Z.to_nat i) p).
Proof.
  intros H. unfold slice.
  replace ((0 <=? 0) && (0 <=? i) && (i <=? zlen p)) with true
    by (symmetry; rewrite !andb_true_iff, !Z.leb_le; lia).
  rewrite Z.sub_0_r. reflexivity.
Qed.

Lemma slice_suffix {A} (p : list A) i : 0 <= i <= zlen p ->
  slice p i (zlen p) = Ok (skipn (Z.to_nat i) p).
Proof.
  intros H. unfold slice.
  replace ((0 <=? i) && (i <=? zlen p) && (zlen p <=? zlen p)) with true
    by (symmetry; rewrite !andb_true_iff, !Z.leb_le; lia).
  f_equal. apply firstn_all2. rewrite skipn_length. unfold zlen in *. lia.
Qed.

Lemma slice_out_of_range {A} (p : list A) a b : (a < 0 \/ b < a \/ zlen p < b) -> slice p a b = Panic.
Proof.
  intros H. unfold slice.
  replace ((0 <=? a) && (a <=? b) && (b <=? zlen p)) with false; [reflexivity|].
  symmetry. rewrite !andb_false_iff, !Z.leb_gt. lia.
Qed.

(* Insert/Embed place the guest exactly *)
Lemma insert_bytes_spec p i q : 0 <= i <= zlen p ->
  insert_bytes p i q = Ok (firstn (Z.to_nat i) p ++ q ++ skipn (Z.to_nat i) p).
Proof.
  intros H. unfold insert_bytes. rewrite slice_prefix, slice_suffix by lia. reflexivity.
Qed.

Lemma insert_bytes_panics p i q : (i < 0 \/ zlen p < i) -> insert_bytes p i q = Panic.
Proof.
  intros H. unfold insert_bytes. pose proof (zlen_nonneg p).
  destruct H; [rewrite slice_out_of_range by lia; reflexivity|].
  rewrite slice_out_of_range by lia. reflexivity.
Qed.

(* the residue part of Delete *)
Definition delete_bytes (q : list byte) (offset length : Z) : out (list byte) :=
  r <- seq_delete (mkseq [] q) offset length ;; Ok (residues r).

Lemma delete_bytes_spec q off len : 0 <= off -> 0 <= len -> off + len <= zlen q ->
  delete_bytes q off len = Ok (firstn (Z.to_nat off) q ++ skipn (Z.to_nat (off + len)) q).
Proof.
  intros H1 H2 H3. unfold delete_bytes, seq_delete. cbn [feats residues map_locs obind].
  replace (zlen q - len <? 0) with false by (symmetry; apply Z.ltb_ge; lia).
  rewrite slice_prefix by lia. cbn [obind].
  replace (zlen q - len <? off) with false by (symmetry; apply Z.ltb_ge; lia).
  rewrite slice_suffix by lia. cbn [obind residues]. f_equal.
  set (p := firstn (Z.to_nat off) q ++ skipn (Z.to_nat (off + len)) q).
  assert (Hp : zlen p = zlen q - len).
  { unfold p. rewrite zlen_app, zlen_firstn, zlen_skipn. lia. }
  rewrite Hp, Z.sub_diag. rewrite repeat_byte_nonpos by lia. rewrite app_nil_r.
  apply firstn_all2. unfold zlen in *. lia.
Qed.

(* Delete undoes Insert on residues *)
Lemma delete_insert_bytes p i q : 0 <= i <= zlen p ->
  (r <- insert_bytes p i q ;; delete_bytes r i (zlen q)) = Ok p.
Proof.
  intros H. rewrite insert_bytes_spec by lia. cbn [obind].
  pose proof (zlen_nonneg q).
  assert (Hl : zlen (firstn (Z.to_nat i) p) = i) by (rewrite zlen_firstn; lia).
  rewrite delete_bytes_spec; try lia.
  2:{ rewrite !zlen_app, Hl, zlen_skipn. lia. }
  f_equal.
  assert (Hn : Z.to_nat i = length (firstn (Z.to_nat i) p)) by (unfold zlen in Hl; lia).
  rewrite Hn at 1. rewrite firstn_app, firstn_all, Nat.sub_diag. cbn [firstn]. rewrite app_nil_r.
  replace (Z.to_nat (i + zlen q)) with (length (firstn (Z.to_nat i) p) + length q)%nat
    by (unfold zlen in *; lia).
  rewrite skipn_app. rewrite skipn_all2 by lia.
  replace (length (firstn (Z.to_nat i) p) + length q - length (firstn (Z.to_nat i) p))%nat
    with (length q) by lia.
  rewrite skipn_app, skipn_all, Nat.sub_diag. cbn [skipn app].
  apply firstn_skipn.
Qed.

(* Reverse is an involution on residues *)
Lemma reverse_bytes_involution (s : seq) : feats s = [] ->
  (r <- seq_reverse s ;; r' <- seq_reverse r ;; Ok (residues r')) = Ok (residues s).
Proof.
  intros H. unfold seq_reverse. rewrite H. cbn [insert_all obind residues feats].
  now rewrite rev_involutive.
Qed.

(* Rotate: residue k moves to position (k + n) mod L *)
Definition rotate_bytes (p : list byte) (n : Z) : out (list byte) :=
  r <- seq_rotate (mkseq [] p) n ;; Ok (residues r).

Lemma rotate_bytes_spec p n : 0 < zlen p ->
  let m := Z.to_nat (zlen p - n mod zlen p) in
  rotate_bytes p n = Ok (skipn m p ++ firstn m p).
Proof.
  intros HL m. unfold rotate_bytes, seq_rotate. cbn [feats residues insert_all obind].
  replace (zlen p =? 0) with false by (symmetry; apply Z.eqb_neq; lia).
  assert (Hn : (if n <? 0 then n mod zlen p else gmod n (zlen p)) = n mod zlen p).
  { destruct (n <? 0) eqn:E; [reflexivity|]. apply Z.ltb_ge in E. unfold gmod.
    apply Z.rem_mod_nonneg; lia. }
  rewrite Hn. pose proof (Z.mod_pos_bound n (zlen p) HL).
  rewrite slice_suffix by lia. cbn [obind].
  rewrite slice_prefix by lia. cbn [obind residues]. reflexivity.
Qed.

Lemma nth_firstn_lt' {A} (l : list A) : forall n i d, (i < n)%nat -> nth i (firstn n l) d = nth i l d.
Proof.
  induction l as [|x t IH]; intros n i d H.
  - rewrite firstn_nil. reflexivity.
  - destruct n; [lia|]. destruct i; [reflexivity|]. cbn [firstn nth]. apply IH. lia.
Qed.

Lemma nth_skipn' {A} (l : list A) : forall n i d, nth i (skipn n l) d = nth (n + i) l d.
Proof.
  induction l as [|x t IH]; intros n i d.
  - rewrite skipn_nil. destruct i, n; reflexivity.
  - destruct n; [reflexivity|]. cbn [skipn Nat.add nth]. apply IH.
Qed.

Lemma nth_rotate (p : list byte) n k d : 0 < zlen p -> 0 <= k < zlen p ->
  let L := zlen p in
  let m := Z.to_nat (L - n mod L) in
  nth (Z.to_nat ((k + n) mod L)) (skipn m p ++ firstn m p) d = nth (Z.to_nat k) p d.
Proof.
  intros HL Hk L m.
  pose proof (Z.mod_pos_bound n L HL) as Hb.
  assert (Hm : (m <= length p)%nat) by (unfold m, L, zlen in *; lia).
  assert (Hsk : length (skipn m p) = (length p - m)%nat) by apply skipn_length.
  destruct (Z.lt_ge_cases k (L - n mod L)) as [Hlo|Hhi].
  - (* k < m : lands in the second part *)
    assert (E : (k + n) mod L = k + n mod L).
    { rewrite <- (Z.mod_small (k + n mod L) L) by lia. rewrite Zplus_mod_idemp_r. reflexivity. }
    rewrite E. rewrite app_nth2 by (rewrite Hsk; unfold m, L, zlen in *; lia).
    rewrite Hsk. rewrite nth_firstn_lt' by (unfold m, L, zlen in *; lia).
    f_equal. unfold m, L, zlen in *. lia.
  - assert (E : (k + n) mod L = k + n mod L - L).
    { rewrite <- (Z.mod_small (k + n mod L - L) L) by lia.
      rewrite <- Zplus_mod_idemp_r. replace (k + n mod L - L) with (k + n mod L + (-1) * L) by lia.
      now rewrite Z.mod_add by lia. }
    rewrite E. rewrite app_nth1 by (rewrite Hsk; unfold m, L, zlen in *; lia).
    rewrite nth_skipn'. f_equal. unfold m, L, zlen in *. lia.
Qed.
