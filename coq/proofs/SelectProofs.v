(* SelectProofs.v — C19: selectors, the location order, sorted insertion *)
From Coq Require Import Sorting.Sorted.
From GTS Require Import Base Arith Loc Seq Select BaseLemmas LocProofs SeqProofs.
Open Scope Z_scope.

(* ---------- selector semantics (any regexp engine) *)

Section SelectorSem.
  Variable re_ok : list byte -> bool.
  Variable re_match : list byte -> list byte -> bool.

  Notation feval := (feval re_match).
  Notation selector := (selector re_ok).

  (* the clauses of the selector tail, in order *)
  Fixpoint clauses (fuel : nat) (tail : list byte) : list (list byte) :=
    match fuel with
    | O => []
    | S f =>
      match tail with
      | [] => []
      | _ => let '(head, tail') := shift_selector tail false [] in head :: clauses f tail'
      end
    end.

  Definition clause_parts (c : list byte) : list byte * list byte :=
    match index_of 61 c [] with Some (n, q) => (n, q) | None => (c, []) end.

  (* a named clause needs some value of that qualifier to match the regexp (any
     value when the regexp is empty); an unnamed clause needs some value of any
     qualifier to match *)
  Definition clause_holds (f : feature) (c : list byte) : bool :=
    let '(name, query) := clause_parts c in qual_eval re_match name query f.

  Definition clause_compiles (c : list byte) : bool := re_ok (snd (clause_parts c)).

  Lemma selector_loop_sem fuel : forall tail flt,
    match selector_loop re_ok fuel tail flt with
    | Ok p => forallb clause_compiles (clauses fuel tail) = true /\
              forall f, feval p f = feval flt f && forallb (clause_holds f) (clauses fuel tail)
    | Err _ => forallb clause_compiles (clauses fuel tail) = false
    | Panic => False
    | OutOfFuel => (length tail >= fuel)%nat \/ True
    end.
  Proof.
    induction fuel as [|f IH]; intros tail flt; cbn [selector_loop clauses]; [right; exact I|].
    destruct tail as [|c t]; [split; [reflexivity | intros; now rewrite andb_true_r]|].
    destruct (shift_selector (c :: t) false []) as [head tail'] eqn:Es.
    unfold to_qualifier. fold (clause_parts head).
    destruct (clause_parts head) as [name query] eqn:Ep.
    assert (Hcc : clause_compiles head = re_ok query) by (unfold clause_compiles; now rewrite Ep).
    assert (Hch : forall ft, clause_holds ft head = qual_eval re_match name query ft)
      by (intros ft; unfold clause_holds; now rewrite Ep).
    cbn [forallb]. rewrite Hcc.
    destruct (re_ok query) eqn:Eq; cbn [obind andb]; [|reflexivity].
    specialize (IH tail' (FAnd [flt; FQual name query])).
    destruct (selector_loop re_ok f tail' (FAnd [flt; FQual name query])); try exact IH; [|right; exact I].
    destruct IH as [H1 H2]. split; [exact H1|].
    intros ft. rewrite H2, Hch. cbn [Select.feval forallb].
    rewrite andb_true_r, andb_assoc. reflexivity.
  Qed.

  (* acceptance <=> the key (when given) is equal and every clause is satisfied *)
  Theorem selector_sem sel p :
    selector sel = Ok p ->
    let '(key, tail) := shift_selector sel false [] in
    forall f, feval p f =
      (match key with [] => true | _ => bytes_eqb (fkey f) key end) &&
      forallb (clause_holds f) (clauses (S (length tail)) tail).
  Proof.
    unfold Select.selector. destruct (shift_selector sel false []) as [key tail].
    intros H. pose proof (selector_loop_sem (S (length tail)) tail (FKey key)) as HS.
    rewrite H in HS. destruct HS as [_ HS]. intros f. rewrite HS. reflexivity.
  Qed.

  (* Filter returns exactly the accepted features, in table order, unaltered *)
  Theorem filter_exact p ff :
    feature_filter re_match p ff = filter (feval p) ff.
  Proof. reflexivity. Qed.

  Theorem filter_sublist p ff x :
    In x (feature_filter re_match p ff) <-> In x ff /\ feval p x = true.
  Proof. unfold feature_filter. apply filter_In. Qed.

  (* table order and multiplicity: the filter acts feature by feature *)
  Theorem filter_pointwise p a x b :
    feature_filter re_match p (a ++ x :: b) =
    feature_filter re_match p a ++ (if feval p x then [x] else []) ++ feature_filter re_match p b.
  Proof.
    unfold feature_filter. rewrite filter_app. cbn [filter]. now destruct (feval p x).
  Qed.

  (* boolean algebra *)
  Theorem and_sem a b f : feval (FAnd [a; b]) f = feval a f && feval b f.
  Proof. cbn. now rewrite andb_true_r. Qed.
  Theorem or_sem a b f : feval (FOr [a; b]) f = feval a f || feval b f.
  Proof. cbn. now rewrite orb_false_r. Qed.
  Theorem not_sem a f : feval (FNot a) f = negb (feval a f).
  Proof. reflexivity. Qed.
End SelectorSem.

(* ---------- the location order is a strict weak order: loc_less a b <-> key a < key b *)

Definition tkey := option (Z * Z * Z).   (* None = +infinity (an empty join/order) *)

Definition tlt (a b : Z * Z * Z) : bool :=
  let '(a0, a1, a2) := a in let '(b0, b1, b2) := b in
  (a0 <? b0) || ((a0 =? b0) && ((a1 <? b1) || ((a1 =? b1) && (a2 <? b2)))).

Definition klt (a b : tkey) : bool :=
  match a, b with
  | Some x, Some y => tlt x y
  | Some _, None => true
  | None, _ => false
  end.

Definition kmin (a b : tkey) : tkey :=
  match a, b with
  | None, _ => b
  | _, None => a
  | Some x, Some y => if tlt y x then b else a
  end.

Fixpoint lkey (l : loc) : tkey :=
  match l with
  | Between p => Some (p, p, 0)
  | Point p => Some (p, p + 1, 0)
  | Ranged s e p5 p3 => Some (Z.min s e, Z.max s e, (if p5 then 1 else 0) + (if p3 then 1 else 0))
  | Ambiguous s e => Some (Z.min s e, Z.max s e, 0)
  | Joined ls | Ordered ls => fold_right (fun x acc => kmin (lkey x) acc) None ls
  | Complemented x => lkey x
  end.

Lemma tlt_irrefl x : tlt x x = false.
Proof. destruct x as [[a b] c]. unfold tlt. rewrite !Z.ltb_irrefl, !Z.eqb_refl. reflexivity. Qed.

Ltac zb' :=
  repeat match goal with
  | H : (_ <? _) = true |- _ => apply Z.ltb_lt in H
  | H : (_ <? _) = false |- _ => apply Z.ltb_ge in H
  | H : (_ =? _) = true |- _ => apply Z.eqb_eq in H
  | H : (_ =? _) = false |- _ => apply Z.eqb_neq in H
  | H : _ && _ = true |- _ => apply andb_true_iff in H as [? ?]
  | H : _ || _ = true |- _ => apply orb_true_iff in H as [?|?]
  end.

Lemma tlt_spec x y : tlt x y = true <->
  (fst (fst x) < fst (fst y) \/
   (fst (fst x) = fst (fst y) /\ (snd (fst x) < snd (fst y) \/
      (snd (fst x) = snd (fst y) /\ snd x < snd y)))).
Proof.
  destruct x as [[a b] c], y as [[d e] f]. unfold tlt. cbn [fst snd].
  rewrite !orb_true_iff, !andb_true_iff, !orb_true_iff, !andb_true_iff, !Z.ltb_lt, !Z.eqb_eq. tauto.
Qed.

Lemma tlt_trans x y z : tlt x y = true -> tlt y z = true -> tlt x z = true.
Proof. rewrite !tlt_spec. lia. Qed.

Lemma tlt_total x y : tlt x y = false -> tlt y x = false -> x = y.
Proof.
  intros H1 H2.
  assert (N1 : ~ tlt x y = true) by congruence. assert (N2 : ~ tlt y x = true) by congruence.
  rewrite tlt_spec in N1, N2. destruct x as [[a b] c], y as [[d e] f]. cbn [fst snd] in *.
  f_equal; [f_equal|]; lia.
Qed.

Lemma klt_irrefl k : klt k k = false.
Proof. destruct k; [apply tlt_irrefl | reflexivity]. Qed.

Lemma klt_trans a b c : klt a b = true -> klt b c = true -> klt a c = true.
Proof.
  destruct a as [x|], b as [y|], c as [z|]; cbn; try discriminate; try reflexivity.
  apply tlt_trans.
Qed.

(* incomparable keys are equal, hence incomparability is transitive *)
Lemma klt_incomparable a b : klt a b = false -> klt b a = false -> a = b.
Proof.
  destruct a as [x|], b as [y|]; cbn; try discriminate; try reflexivity.
  intros H1 H2. f_equal. now apply tlt_total.
Qed.

Lemma kmin_exists (kb : tkey) ks :
  existsb (fun k => klt k kb) ks = klt (fold_right kmin None ks) kb.
Proof.
  induction ks as [|k t IH]; [reflexivity|]. cbn [existsb fold_right]. rewrite IH.
  set (m := fold_right kmin None t). clearbody m. clear IH.
  destruct k as [x|], m as [y|], kb as [z|]; cbn; try reflexivity;
    try (now rewrite orb_false_r); try (destruct (tlt y x); reflexivity).
  destruct (tlt y x) eqn:E; cbn.
  - destruct (tlt x z) eqn:E1; [|reflexivity]. cbn. symmetry. eapply tlt_trans; eauto.
  - destruct (tlt y z) eqn:E2; [|now rewrite orb_false_r].
    rewrite orb_true_r. symmetry.
    destruct (tlt x y) eqn:E3; [eapply tlt_trans; eauto|].
    now rewrite (tlt_total x y E3 E).
Qed.

Lemma kmin_forall (x : Z * Z * Z) ks :
  forallb (fun k => klt (Some x) k) ks = klt (Some x) (fold_right kmin None ks).
Proof.
  induction ks as [|k t IH]; [reflexivity|]. cbn [forallb fold_right]. rewrite IH.
  set (m := fold_right kmin None t). clearbody m. clear IH.
  destruct k as [y|], m as [z|]; cbn; try reflexivity; try (now rewrite andb_true_r).
  destruct (tlt z y) eqn:E; cbn.
  - destruct (tlt x z) eqn:E1; [|now rewrite andb_false_r]. rewrite andb_true_r.
    eapply tlt_trans; eauto.
  - destruct (tlt x y) eqn:E1; [|reflexivity]. cbn.
    destruct (tlt y z) eqn:E3; [eapply tlt_trans; eauto|].
    now rewrite <- (tlt_total y z E3 E).
Qed.

Lemma lkey_fold ls : fold_right (fun x acc => kmin (lkey x) acc) None ls = fold_right kmin None (map lkey ls).
Proof. induction ls as [|x t IH]; [reflexivity|]. cbn. now rewrite IH. Qed.

Definition is_contig (l : loc) : bool :=
  match l with Between _ | Point _ | Ranged _ _ _ _ | Ambiguous _ _ => true | _ => false end.

Lemma range_compare_spec s1 e1 s2 e2 :
  let c := go_rangeCompare s1 e1 s2 e2 in
  (c = -1 \/ c = 0 \/ c = 1) /\
  (c = -1 <-> (Z.min s1 e1 < Z.min s2 e2 \/ (Z.min s1 e1 = Z.min s2 e2 /\ Z.max s1 e1 < Z.max s2 e2))) /\
  (c = 0 <-> (Z.min s1 e1 = Z.min s2 e2 /\ Z.max s1 e1 = Z.max s2 e2)).
Proof.
  unfold go_rangeCompare.
  destruct (e1 <? s1) eqn:A; destruct (e2 <? s2) eqn:B; zb';
  repeat match goal with |- context [if ?c then _ else _] => destruct c eqn:?; zb' end; lia.
Qed.

Lemma triple_eq (a b c a' b' c' : Z) : a = a' -> b = b' -> c = c' -> Some (a, b, c) = Some (a', b', c').
Proof. now intros -> -> ->. Qed.

Lemma contig_less a b : is_contig a = true -> is_contig b = true ->
  forall sa ea sb eb, span a = Some (sa, ea) -> span b = Some (sb, eb) ->
  (let c := go_rangeCompare sa ea sb eb in
   if negb (c =? 0) then c <? 0 else partial_count a <? partial_count b) = klt (lkey a) (lkey b).
Proof.
  intros Ha Hb sa ea sb eb Sa Sb.
  pose proof (range_compare_spec sa ea sb eb) as [Hc [Hm H0]]. cbv zeta in *.
  set (c := go_rangeCompare sa ea sb eb) in *.
  assert (Ka : lkey a = Some (Z.min sa ea, Z.max sa ea, partial_count a)).
  { destruct a; try discriminate; cbn in Sa; inversion Sa; subst; cbn [lkey partial_count];
      apply triple_eq; lia. }
  assert (Kb : lkey b = Some (Z.min sb eb, Z.max sb eb, partial_count b)).
  { destruct b; try discriminate; cbn in Sb; inversion Sb; subst; cbn [lkey partial_count];
      apply triple_eq; lia. }
  rewrite Ka, Kb. cbn [klt]. unfold tlt.
  destruct (c =? 0) eqn:E0; zb'; cbn [negb].
  - apply H0 in E0 as [E1 E2]. rewrite E1, E2, !Z.ltb_irrefl, !Z.eqb_refl. reflexivity.
  - destruct Hc as [Hc|[Hc|Hc]]; [|lia|].
    + rewrite Hc. cbn. symmetry. apply Hm in Hc.
      destruct Hc as [Hc|[Hc1 Hc2]].
      * replace (Z.min sa ea <? Z.min sb eb) with true by (symmetry; apply Z.ltb_lt; lia). reflexivity.
      * rewrite Hc1, Z.ltb_irrefl, Z.eqb_refl.
        replace (Z.max sa ea <? Z.max sb eb) with true by (symmetry; apply Z.ltb_lt; lia). reflexivity.
    + rewrite Hc. cbn. symmetry.
      assert (~ (Z.min sa ea < Z.min sb eb \/ Z.min sa ea = Z.min sb eb /\ Z.max sa ea < Z.max sb eb)) by (rewrite <- Hm; lia).
      assert (~ (Z.min sa ea = Z.min sb eb /\ Z.max sa ea = Z.max sb eb)) by (rewrite <- H0; lia).
      replace (Z.min sa ea <? Z.min sb eb) with false by (symmetry; apply Z.ltb_ge; lia).
      destruct (Z.min sa ea =? Z.min sb eb) eqn:E1; zb'; [|reflexivity].
      replace (Z.max sa ea <? Z.max sb eb) with false by (symmetry; apply Z.ltb_ge; lia).
      replace (Z.max sa ea =? Z.max sb eb) with false by (symmetry; apply Z.eqb_neq; lia). reflexivity.
Qed.

Lemma contig_span a : is_contig a = true -> exists s e, span a = Some (s, e).
Proof. destruct a; try discriminate; cbn; eauto. Qed.

Lemma contig_key a : is_contig a = true -> exists x, lkey a = Some x.
Proof. destruct a; try discriminate; cbn; eauto. Qed.

Lemma size_pos l : (0 < loc_size l)%nat.
Proof. destruct l; cbn; lia. Qed.

Lemma in_size (x : loc) ls : In x ls -> (loc_size x <= fold_right (fun y acc => loc_size y + acc) 0 ls)%nat.
Proof.
  induction ls as [|y t IH]; [contradiction|]. intros [->|H]; cbn [fold_right]; [lia|].
  specialize (IH H). lia.
Qed.

Lemma existsb_ext' {A} (f g : A -> bool) l : (forall x, In x l -> f x = g x) -> existsb f l = existsb g l.
Proof.
  induction l as [|x t IH]; intros H; [reflexivity|]. cbn [existsb].
  rewrite (H x (or_introl eq_refl)), IH; [reflexivity|]. intros y Hy. apply H. now right.
Qed.

Lemma forallb_ext' {A} (f g : A -> bool) l : (forall x, In x l -> f x = g x) -> forallb f l = forallb g l.
Proof.
  induction l as [|x t IH]; intros H; [reflexivity|]. cbn [forallb].
  rewrite (H x (or_introl eq_refl)), IH; [reflexivity|]. intros y Hy. apply H. now right.
Qed.

Lemma existsb_map' {A B} (f : B -> bool) (g : A -> B) l : existsb f (map g l) = existsb (fun x => f (g x)) l.
Proof. induction l as [|x t IH]; [reflexivity|]. cbn. now rewrite IH. Qed.

Lemma forallb_map' {A B} (f : B -> bool) (g : A -> B) l : forallb f (map g l) = forallb (fun x => f (g x)) l.
Proof. induction l as [|x t IH]; [reflexivity|]. cbn. now rewrite IH. Qed.

Theorem loc_less_key fuel : forall a b, (loc_size a + loc_size b < fuel)%nat ->
  loc_less_f fuel a b = klt (lkey a) (lkey b).
Proof.
  induction fuel as [|f IH]; intros a b Hf; [lia|].
  cbn [loc_less_f].
  destruct a as [p|p|s e p5 p3|s e|ls|ls|x].
  7:{ change (lkey (Complemented x)) with (lkey x). apply IH. cbn [loc_size] in Hf. lia. }
  all: destruct b as [q|q|s' e' q5 q3|s' e'|ms|ms|y].
  all: try (match goal with |- _ = klt _ (lkey (Complemented ?y)) =>
              change (lkey (Complemented y)) with (lkey y); apply IH; cbn [loc_size] in Hf |- *; lia end).
  (* a is a join/order: exists *)
  all: try (match goal with
            | |- existsb _ ?ls = _ =>
              cbn [lkey]; rewrite (lkey_fold ls), <- kmin_exists, existsb_map';
              apply existsb_ext'; intros l Hl; apply IH;
              pose proof (in_size l ls Hl); cbn [loc_size] in Hf |- *; lia
            end).
  (* b is a join/order, a contiguous: forall *)
  all: try (match goal with
            | |- forallb _ ?ms = klt (lkey ?a) _ =>
              destruct (contig_key a eq_refl) as [xa Hxa];
              cbn [lkey] in Hxa |- *; rewrite ?Hxa; cbn [lkey];
              rewrite (lkey_fold ms), <- kmin_forall, forallb_map';
              apply forallb_ext'; intros l Hl;
              rewrite <- Hxa; apply IH;
              pose proof (in_size l ms Hl); cbn [loc_size] in Hf |- *; lia
            end).
  (* both contiguous *)
  all: cbn [span]; match goal with |- _ = klt (lkey ?a) (lkey ?b) =>
         exact (contig_less a b eq_refl eq_refl _ _ _ _ eq_refl eq_refl) end.
Qed.

Theorem loc_less_is_key a b : loc_less a b = klt (lkey a) (lkey b).
Proof. unfold loc_less. apply loc_less_key. lia. Qed.

(* the location order is a strict weak order *)
Theorem less_irrefl a : loc_less a a = false.
Proof. rewrite loc_less_is_key. apply klt_irrefl. Qed.

Theorem less_trans a b c : loc_less a b = true -> loc_less b c = true -> loc_less a c = true.
Proof. rewrite !loc_less_is_key. apply klt_trans. Qed.

Theorem less_incomparable_trans a b c :
  loc_less a b = false -> loc_less b a = false ->
  loc_less b c = false -> loc_less c b = false ->
  loc_less a c = false /\ loc_less c a = false.
Proof.
  rewrite !loc_less_is_key. intros H1 H2 H3 H4.
  rewrite (klt_incomparable _ _ H1 H2), (klt_incomparable _ _ H3 H4), klt_irrefl. auto.
Qed.

(* ---------- sort.Search *)

Lemma search_loop_spec (pred : Z -> bool) n fuel : forall i j,
  (forall x y, 0 <= x <= y -> y < n -> pred x = true -> pred y = true) ->
  0 <= i <= j -> j <= n -> (Z.to_nat (j - i) < fuel)%nat ->
  (forall x, 0 <= x < i -> pred x = false) ->
  (forall x, j <= x < n -> pred x = true) ->
  let r := search_loop fuel pred i j in
  0 <= r <= n /\ (forall x, 0 <= x < r -> pred x = false) /\ (forall x, r <= x < n -> pred x = true).
Proof.
  induction fuel as [|f IH]; intros i j Hmono Hij Hjn Hf Hlo Hhi; [lia|].
  cbn [search_loop]. destruct (i <? j) eqn:E; [apply Z.ltb_lt in E | apply Z.ltb_ge in E].
  - assert (Hh : i <= (i + j) / 2 < j) by (split; [apply Z.div_le_lower_bound | apply Z.div_lt_upper_bound]; lia).
    destruct (pred ((i + j) / 2)) eqn:Ep; cbn [negb].
    + apply IH; try assumption; try lia.
      intros x Hx. apply (Hmono ((i + j) / 2) x); try lia. exact Ep.
    + apply IH; try assumption; try lia.
      intros x Hx. destruct (Z.lt_ge_cases x i); [apply Hlo; lia|].
      destruct (pred x) eqn:Ex; [|reflexivity].
      assert (C : pred ((i + j) / 2) = true) by (apply (Hmono x); try lia; exact Ex). congruence.
  - assert (i = j) by lia. subst j. repeat split; try lia; assumption.
Qed.

Lemma sort_search_spec (pred : Z -> bool) n : 0 <= n ->
  (forall x y, 0 <= x <= y -> y < n -> pred x = true -> pred y = true) ->
  let r := sort_search n pred in
  0 <= r <= n /\ (forall x, 0 <= x < r -> pred x = false) /\ (forall x, r <= x < n -> pred x = true).
Proof.
  intros Hn Hm. unfold sort_search. apply search_loop_spec; try assumption; try lia.
Qed.

(* ---------- FeatureSlice.Insert keeps the table sorted *)

(* g may follow f in a sorted table *)
Definition may_follow (f g : feature) : Prop := loc_less (floc g) (floc f) = false.

Lemma count_sources_app srcs rest :
  Forall (fun f => is_source f = true) srcs ->
  match rest with [] => True | r :: _ => is_source r = false end ->
  count_sources (srcs ++ rest) = length srcs.
Proof.
  induction 1 as [|s t Hs _ IH]; intros Hr; cbn [app count_sources length].
  - destruct rest; [reflexivity|]. cbn [count_sources]. now rewrite Hr.
  - cbn beta in Hs. rewrite Hs. f_equal. now apply IH.
Qed.

Lemma nth_loc_app srcs rest j : 0 <= j < zlen rest ->
  nth_loc (srcs ++ rest) (Z.of_nat (length srcs) + j) = floc (nth (Z.to_nat j) rest (mkfeat [] (Between 0) [])).
Proof.
  intros Hj. unfold nth_loc.
  replace (Z.to_nat (Z.of_nat (length srcs) + j)) with (length srcs + Z.to_nat j)%nat by lia.
  rewrite nth_error_app2 by lia.
  replace (length srcs + Z.to_nat j - length srcs)%nat with (Z.to_nat j) by lia.
  rewrite (nth_error_nth' rest (mkfeat [] (Between 0) [])); [reflexivity|]. unfold zlen in Hj. lia.
Qed.

Lemma sorted_nth (rest : list feature) d : StronglySorted may_follow rest ->
  forall x y, (x <= y < length rest)%nat -> may_follow (nth x rest d) (nth y rest d) \/ x = y.
Proof.
  induction 1 as [|a t Hs IH Hall]; intros x y Hxy; [cbn in Hxy; lia|].
  destruct x as [|x]; destruct y as [|y]; cbn [nth length] in *.
  - now right.
  - left. rewrite Forall_forall in Hall. apply Hall. apply nth_In. lia.
  - lia.
  - destruct (IH x y ltac:(lia)) as [H|H]; [now left | right; lia].
Qed.

Lemma sorted_insert_mid (r1 r2 : list feature) f :
  StronglySorted may_follow (r1 ++ r2) ->
  Forall (fun a => may_follow a f) r1 -> Forall (fun b => may_follow f b) r2 ->
  StronglySorted may_follow (r1 ++ f :: r2).
Proof.
  induction r1 as [|a t IH]; intros Hs H1 H2; cbn [app] in *.
  - constructor; assumption.
  - inversion Hs as [|? ? Hs' Hall]; subst. inversion H1; subst.
    constructor; [now apply IH|].
    apply Forall_app in Hall as [Ha1 Ha2]. apply Forall_app. split; [exact Ha1|].
    constructor; assumption.
Qed.

Theorem insert_sorted srcs rest f :
  Forall (fun g => is_source g = true) srcs ->
  Forall (fun g => is_source g = false) rest ->
  StronglySorted may_follow rest ->
  exists r1 r2, rest = r1 ++ r2 /\
    fs_insert (srcs ++ rest) f =
      (if is_source f then srcs ++ f :: rest else srcs ++ r1 ++ f :: r2) /\
    (is_source f = false -> StronglySorted may_follow (r1 ++ f :: r2)).
Proof.
  intros Hsrc Hrest Hsorted. unfold fs_insert.
  assert (Hc : count_sources (srcs ++ rest) = length srcs).
  { apply count_sources_app; [exact Hsrc|]. destruct rest; [exact I|]. now inversion Hrest. }
  rewrite Hc. destruct (is_source f) eqn:Ef.
  - exists [], rest. split; [reflexivity|]. split; [|discriminate].
    rewrite Nat2Z.id, firstn_app, firstn_all, Nat.sub_diag, skipn_app, skipn_all, Nat.sub_diag.
    cbn [firstn skipn app]. now rewrite app_nil_r.
  - set (d := mkfeat [] (Between 0) []).
    set (n := zlen (srcs ++ rest) - Z.of_nat (length srcs)).
    assert (Hn : n = zlen rest) by (unfold n; rewrite zlen_app; unfold zlen; lia).
    set (pred := fun j => loc_less (floc f) (nth_loc (srcs ++ rest) (Z.of_nat (length srcs) + j))).
    assert (Hpred : forall j, 0 <= j < n -> pred j = klt (lkey (floc f)) (lkey (floc (nth (Z.to_nat j) rest d)))).
    { intros j Hj. unfold pred. rewrite nth_loc_app by lia. apply loc_less_is_key. }
    assert (Hmono : forall x y, 0 <= x <= y -> y < n -> pred x = true -> pred y = true).
    { intros x y Hxy Hy Hx. rewrite Hpred in * by lia.
      destruct (sorted_nth rest d Hsorted (Z.to_nat x) (Z.to_nat y)) as [Hf|He];
        [unfold zlen in *; lia | | now rewrite <- He].
      unfold may_follow in Hf. rewrite loc_less_is_key in Hf.
      (* kf < kx, not (ky < kx)  =>  kf < ky *)
      set (kx := lkey (floc (nth (Z.to_nat x) rest d))) in *.
      set (ky := lkey (floc (nth (Z.to_nat y) rest d))) in *.
      destruct (klt kx ky) eqn:E; [eapply klt_trans; eauto|].
      now rewrite <- (klt_incomparable _ _ E Hf). }
    destruct (sort_search_spec pred n ltac:(rewrite Hn; apply zlen_nonneg) Hmono) as [Hr [Hlo Hhi]].
    set (r := sort_search n pred) in *.
    exists (firstn (Z.to_nat r) rest), (skipn (Z.to_nat r) rest).
    split; [symmetry; apply firstn_skipn|]. split.
    + replace (Z.to_nat (Z.of_nat (length srcs) + r)) with (length srcs + Z.to_nat r)%nat by lia.
      rewrite firstn_app, skipn_app.
      rewrite firstn_all2 by lia. rewrite skipn_all2 by lia.
      replace (length srcs + Z.to_nat r - length srcs)%nat with (Z.to_nat r) by lia.
      cbn [app]. now rewrite <- app_assoc.
    + intros _. apply sorted_insert_mid.
      * now rewrite firstn_skipn.
      * apply Forall_forall. intros a Ha. apply (In_nth _ _ d) in Ha as [k [Hk Hnth]].
        rewrite firstn_length in Hk.
        assert (Hk' : 0 <= Z.of_nat k < r) by lia.
        specialize (Hlo _ Hk'). rewrite Hpred in Hlo by lia. rewrite Nat2Z.id in Hlo.
        unfold may_follow. rewrite loc_less_is_key. rewrite <- Hnth.
        rewrite nth_firstn_lt' by lia. exact Hlo.
      * apply Forall_forall. intros b Hb. apply (In_nth _ _ d) in Hb as [k [Hk Hnth]].
        rewrite skipn_length in Hk.
        assert (Hk' : r <= r + Z.of_nat k < n) by (unfold zlen in *; lia).
        specialize (Hhi _ Hk'). rewrite Hpred in Hhi by lia.
        unfold may_follow. rewrite loc_less_is_key. rewrite <- Hnth, nth_skipn'.
        replace (Z.to_nat r + k)%nat with (Z.to_nat (r + Z.of_nat k)) by lia.
        (* kf < kb  =>  not (kb < kf) *)
        destruct (klt (lkey (floc (nth (Z.to_nat (r + Z.of_nat k)) rest d))) (lkey (floc f))) eqn:E; [|reflexivity].
        pose proof (klt_trans _ _ _ Hhi E) as C. now rewrite klt_irrefl in C.
Qed.
