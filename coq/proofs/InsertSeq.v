(* InsertSeq.v — Insert, Embed and Reverse on whole records (C02, C05): the
   output table holds every input feature exactly once, key and qualifiers
   unchanged (relocate), with the location the per-location theorems describe. *)
From Coq Require Import List ZArith Lia Bool Permutation.
From GTS Require Import Base Arith Loc Seq BaseLemmas LocProofs EditProofs SeqProofs JoinSafe JoinDen RotateProofs JoinLift RotateJoin.
Import ListNotations.
Open Scope Z_scope.

(* two passes of `for f in ff { gg = gg.Insert(op f) }` over two tables *)
Lemma insert_all_two op1 op2 ff1 ff2 :
  Forall (fun f => exists l, op1 (floc f) = Ok l) ff1 ->
  Forall (fun f => exists l, op2 (floc f) = Ok l) ff2 ->
  exists gg ls ms,
    (g1 <- insert_all op1 [] ff1 ;; insert_all op2 g1 ff2) = Ok gg /\
    Forall2 (fun f l => op1 (floc f) = Ok l) ff1 ls /\
    Forall2 (fun f l => op2 (floc f) = Ok l) ff2 ms /\
    Permutation gg (relocate ff1 ls ++ relocate ff2 ms).
Proof.
  intros H1 H2.
  destruct (insert_all_perm op1 ff1 [] H1) as (g1 & ls & E1 & F1 & P1).
  destruct (insert_all_perm op2 ff2 g1 H2) as (gg & ms & E2 & F2 & P2).
  exists gg, ls, ms. rewrite E1. cbn [obind]. split; [exact E2|]. split; [exact F1|]. split; [exact F2|].
  eapply Permutation_trans; [exact P2|]. apply Permutation_app_tail. exact P1.
Qed.

Lemma Forall2_den (op : loc -> out loc) (R : loc -> loc -> Prop) (C : feature -> Prop) ff ls :
  (forall f l, C f -> op (floc f) = Ok l -> R (floc f) l) ->
  Forall C ff -> Forall2 (fun f l => op (floc f) = Ok l) ff ls ->
  Forall2 (fun f l => R (floc f) l) ff ls.
Proof.
  intros H Hc F. induction F as [|f l t ls' Hfl _ IH]; [constructor|].
  inversion Hc; subst. constructor; [apply H; assumption|apply IH; assumption].
Qed.

(* what a host feature must satisfy for Insert at i of n residues, a guest
   feature for being moved to i (M: any bound above the guest's coordinates) *)
Definition ins_host_ok (i n : Z) (f : feature) : Prop :=
  k1_after (fun x => shift x i n) (floc f) /\ exists l, shift (floc f) i n = Ok l.
Definition emb_host_ok (i n : Z) (f : feature) : Prop :=
  k1_after (fun x => expand x i n) (floc f) /\ exists l, expand (floc f) i n = Ok l.
Definition guest_ok (i M : Z) (g : feature) : Prop :=
  wf_all (awf i M) (floc g) = true /\ k1_after (fun x => expand x 0 i) (floc g) /\ exists l, expand (floc g) 0 i = Ok l.

Theorem seq_insert_features host i guest M :
  let n := zlen (residues guest) in 0 <= i <= zlen (residues host) ->
  Forall (ins_host_ok i n) (feats host) -> Forall (guest_ok i M) (feats guest) ->
  exists gg ls ms,
    seq_insert host i guest = Ok (mkseq gg (firstn (Z.to_nat i) (residues host) ++ residues guest ++ skipn (Z.to_nat i) (residues host))) /\
    Forall2 (fun f l => deq (den l) (map (onpos (bump i n)) (den (floc f)))) (feats host) ls /\
    Forall2 (fun g l => deq (den l) (map (onpos (fun x => x + i)) (den (floc g)))) (feats guest) ms /\
    Permutation gg (relocate (feats host) ls ++ relocate (feats guest) ms).
Proof.
  intros n Hi Hh Hg. pose proof (zlen_nonneg (residues guest)) as Hn. fold n in Hn.
  destruct (insert_all_two (fun l => shift l i n) (fun l => expand l 0 i) (feats host) (feats guest)) as (gg & ls & ms & E & F1 & F2 & P).
  { eapply Forall_impl; [|exact Hh]. intros f [_ H]. exact H. }
  { eapply Forall_impl; [|exact Hg]. intros f (_ & _ & H). exact H. }
  exists gg, ls, ms. unfold seq_insert. fold n.
  destruct (insert_all (fun l => shift l i n) [] (feats host)) as [g1| | |] eqn:E1; try discriminate.
  cbn [obind] in E |- *. rewrite E. cbn [obind]. rewrite insert_bytes_spec by lia. cbn [obind].
  split; [reflexivity|]. split; [|split; [|exact P]].
  - apply (Forall2_den (fun x => shift x i n) (fun a l => deq (den l) (map (onpos (bump i n)) (den a))) (ins_host_ok i n) _ _ (fun f l Hf Hl => shift_den_all i n Hn (floc f) (proj1 Hf) l Hl) Hh F1).
  - apply (Forall2_den (fun x => expand x 0 i) (fun a l => deq (den l) (map (onpos (fun x => x + i)) (den a))) (guest_ok i M) _ _
             (fun g l Hg' Hl => expandA_den_all i M (proj1 Hi) (floc g) (proj1 Hg') (proj1 (proj2 Hg')) l Hl) Hg F2).
Qed.

Theorem seq_embed_features host i guest M :
  let n := zlen (residues guest) in 0 <= i <= zlen (residues host) -> 0 < n ->
  Forall (emb_host_ok i n) (feats host) -> Forall (guest_ok i M) (feats guest) ->
  exists gg ls ms,
    seq_embed host i guest = Ok (mkseq gg (firstn (Z.to_nat i) (residues host) ++ residues guest ++ skipn (Z.to_nat i) (residues host))) /\
    Forall2 (fun f l => deq (emb_den i n (den l)) (map (onpos (bump i n)) (den (floc f)))) (feats host) ls /\
    Forall2 (fun g l => deq (den l) (map (onpos (fun x => x + i)) (den (floc g)))) (feats guest) ms /\
    Permutation gg (relocate (feats host) ls ++ relocate (feats guest) ms).
Proof.
  intros n Hi Hn Hh Hg.
  destruct (insert_all_two (fun l => expand l i n) (fun l => expand l 0 i) (feats host) (feats guest)) as (gg & ls & ms & E & F1 & F2 & P).
  { eapply Forall_impl; [|exact Hh]. intros f [_ H]. exact H. }
  { eapply Forall_impl; [|exact Hg]. intros f (_ & _ & H). exact H. }
  exists gg, ls, ms. unfold seq_embed. fold n.
  destruct (insert_all (fun l => expand l i n) [] (feats host)) as [g1| | |] eqn:E1; try discriminate.
  cbn [obind] in E |- *. rewrite E. cbn [obind]. rewrite insert_bytes_spec by lia. cbn [obind].
  split; [reflexivity|]. split; [|split; [|exact P]].
  - apply (Forall2_den (fun x => expand x i n) (fun a l => deq (emb_den i n (den l)) (map (onpos (bump i n)) (den a))) (emb_host_ok i n) _ _ (fun f l Hf Hl => expand_pos_den_all i n Hn (floc f) (proj1 Hf) l Hl) Hh F1).
  - apply (Forall2_den (fun x => expand x 0 i) (fun a l => deq (den l) (map (onpos (fun x => x + i)) (den a))) (guest_ok i M) _ _
             (fun g l Hg' Hl => expandA_den_all i M (proj1 Hi) (floc g) (proj1 Hg') (proj1 (proj2 Hg')) l Hl) Hg F2).
Qed.

(* Reverse on a whole record *)
Definition rev_ok (L : Z) (f : feature) : Prop :=
  wf_all range_wf (floc f) = true /\ k1_after (fun x => reverse x L) (floc f) /\ exists l, reverse (floc f) L = Ok l.

Theorem seq_reverse_features s : let L := zlen (residues s) in
  Forall (rev_ok L) (feats s) ->
  exists gg ls, seq_reverse s = Ok (mkseq gg (rev (residues s))) /\
    Forall2 (fun f l => deq (den l) (rev_den L (den (floc f)))) (feats s) ls /\
    Permutation gg (relocate (feats s) ls).
Proof.
  intros L Hok.
  destruct (insert_all_perm (fun l => reverse l L) (feats s) []) as (gg & ls & E & F & P).
  { eapply Forall_impl; [|exact Hok]. intros f (_ & _ & H). exact H. }
  exists gg, ls. unfold seq_reverse. fold L. rewrite E. cbn [obind]. split; [reflexivity|]. split; [|exact P].
  apply (Forall2_den (fun x => reverse x L) (fun a l => deq (den l) (rev_den L (den a))) (rev_ok L) _ _
           (fun f l Hf Hl => reverse_den_all L (floc f) (proj1 Hf) (proj1 (proj2 Hf)) l Hl) Hok F).
Qed.

(* Delete on a whole record: the table keeps its order (map_locs) *)
Lemma map_locs_spec op : forall ff,
  Forall (fun f => exists l, op (floc f) = Ok l) ff ->
  exists ls, map_locs op ff = Ok (relocate ff ls) /\ Forall2 (fun f l => op (floc f) = Ok l) ff ls.
Proof.
  induction ff as [|f t IH]; intros H.
  - exists []. split; [reflexivity|constructor].
  - inversion H as [|? ? [l Hl] Ht]; subst. destruct (IH Ht) as (ls & E & F).
    exists (l :: ls). cbn [map_locs]. rewrite Hl. cbn [obind]. rewrite E. cbn [obind].
    split; [reflexivity|constructor; assumption].
Qed.

Definition del_ok (i n : Z) (f : feature) : Prop :=
  k1_after (fun x => expand x i (- n)) (floc f) /\ exists l, expand (floc f) i (- n) = Ok l.

Theorem seq_delete_features s off len : 0 <= off -> 0 < len -> off + len <= zlen (residues s) ->
  Forall (del_ok off len) (feats s) ->
  exists ls, seq_delete s off len =
      Ok (mkseq (relocate (feats s) ls)
                (firstn (Z.to_nat off) (residues s) ++ skipn (Z.to_nat (off + len)) (residues s))) /\
    Forall2 (fun f l => deq (den l) (del_den off len (den (floc f)))) (feats s) ls.
Proof.
  intros H1 H2 H3 Hok.
  destruct (map_locs_spec (fun l => expand l off (- len)) (feats s)) as (ls & E & F).
  { eapply Forall_impl; [|exact Hok]. intros f [_ H]. exact H. }
  exists ls. split.
  - pose proof (delete_bytes_spec (residues s) off len H1 ltac:(lia) H3) as B.
    unfold delete_bytes, seq_delete in B. cbn [feats residues map_locs obind] in B.
    unfold seq_delete. rewrite E. cbn [obind].
    destruct (zlen (residues s) - len <? 0); [discriminate|].
    destruct (slice (residues s) 0 off) as [a| | |]; try discriminate. cbn [obind] in *.
    destruct (zlen (residues s) - len <? off); [discriminate|].
    destruct (slice (residues s) (off + len) (zlen (residues s))) as [b| | |]; try discriminate. cbn [obind residues] in *.
    inversion B as [B']. rewrite B'. reflexivity.
  - apply (Forall2_den (fun x => expand x off (- len)) (fun a l => deq (den l) (del_den off len (den a))) (del_ok off len) _ _
             (fun f l Hf Hl => expand_neg_den_all off len H2 (floc f) (proj1 Hf) l Hl) Hok F).
Qed.
