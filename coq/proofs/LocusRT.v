(* LocusRT.v — C01: the LOCUS line written by GenBank.String is read back by
   genbankLocusParser field by field. *)
From Coq Require Import List ZArith Lia Bool.
From GTS Require Import Base Arith Pars Loc Insdc GenBank BaseLemmas ParsLemmas FastaProofs IntRT LocRT BodyRT ParsSpec ModRT GenBankProofs Origin.
Import ListNotations.
Open Scope Z_scope.

(* ---------- a run of bytes satisfying f, read by Push / Next / advance-while / Trail *)
Definition scan (f : byte -> bool) : M (list byte) :=
  push ;;; _ <-- try next ;;; advance_while f ;;; trail.

Lemma span_all (f : byte -> bool) w post : Forall (fun c => f c = true) w ->
  match post with c :: _ => f c = false | [] => True end ->
  span_n f (w ++ post) = (length w, post).
Proof.
  intros Hw Hp. induction Hw as [|c t Hc _ IH]; cbn [app span_n length].
  - destruct post as [|c t]; [reflexivity|]. cbn [span_n]. now rewrite Hp.
  - rewrite Hc, IH. reflexivity.
Qed.

Lemma scan_okp f w post : Forall (fun c => f c = true) w ->
  match post with c :: _ => f c = false | [] => True end ->
  okp (scan f) w post w.
Proof.
  intros Hw Hp o e a fr k. unfold scan. run ltac:(apply push_eq).
  set (F := (w ++ post, o, a)).
  assert (Hn : exists e1, try next (mkst (w ++ post) o e a (F :: fr :: k)) =
                          (Ok (match w ++ post with c :: _ => (Some c, EOther) | [] => (None, EEof) end),
                           mkst (w ++ post) o e1 a (F :: fr :: k))).
  { destruct (w ++ post) as [|c t] eqn:Ewp.
    - eexists. apply try_err. apply next_nil.
    - eexists. apply try_ok. apply next_cons. }
  destruct Hn as (e1 & Hn). run ltac:(exact Hn). subst F.
  pose proof (span_all f w post Hw Hp) as Hsp.
  destruct w as [|c t].
  - (* nothing to read *)
    cbn [app] in *. unfold bind at 1. unfold advance_while. cbn [rest stk off apos endr]. rewrite Hsp. cbn [length]. cbv beta iota.
    unfold trail. cbn [stk]. unfold bind at 1. cbn [off].
    rewrite (bind_ok _ _ _ _ _ (pop_ne _ _ _ _ _ _ _ _ _)).
    unfold bind at 1. cbn [off]. rewrite Z.sub_diag.
    rewrite (bind_ok _ _ _ (Some tt, EOther) _ (try_ok _ _ _ _ (request_ok post o e1 a (fr :: k) 0 eq_refl))).
    unfold bind at 1. unfold buffer. cbn [endr off rest]. replace (o + 0 - o) with 0 by lia. cbn [Z.ltb Z.compare Z.to_nat firstn].
    rewrite (bind_ok _ _ _ tt _ (advance_ne post o a fr k 0 ltac:(lia) eq_refl)).
    cbn [Z.to_nat skipn]. unfold ret. change (zlen []) with 0. rewrite !Z.add_0_r. do 2 eexists. reflexivity.
  - unfold bind at 1. unfold advance_while. cbn [rest stk off apos endr]. rewrite Hsp. cbn [length].
    set (L := Z.of_nat (S (length t))).
    unfold trail. cbn [stk]. unfold bind at 1. cbn [off].
    rewrite (bind_ok _ _ _ _ _ (pop_ne _ _ _ _ _ _ _ _ _)).
    unfold bind at 1. cbn [off]. replace (o + L - o) with L by lia.
    assert (HhL : has_n ((c :: t) ++ post) (Z.to_nat L) = true).
    { subst L. rewrite Nat2Z.id. change (S (length t)) with (length (c :: t)). apply has_n_app. }
    rewrite (bind_ok _ _ _ (Some tt, EOther) _ (try_ok _ _ _ _ (request_ok _ o _ a (fr :: k) L HhL))).
    unfold bind at 1. unfold buffer. cbn [endr off rest]. replace (o + L - o) with L by lia.
    destruct (Z.ltb_spec L 0); [subst L; lia|].
    rewrite (bind_ok _ _ _ tt _ (advance_ne _ o a fr k L ltac:(subst L; lia) HhL)).
    unfold ret.
    assert (Hf : firstn (Z.to_nat L) ((c :: t) ++ post) = c :: t).
    { subst L. rewrite Nat2Z.id. change (S (length t)) with (length (c :: t)). rewrite firstn_app, firstn_all, Nat.sub_diag. cbn [firstn]. now rewrite app_nil_r. }
    assert (Hk : skipn (Z.to_nat L) ((c :: t) ++ post) = post).
    { subst L. rewrite Nat2Z.id. change (S (length t)) with (length (c :: t)). rewrite skipn_app, skipn_all, Nat.sub_diag. reflexivity. }
    rewrite Hf, Hk. replace (zlen (c :: t)) with L by (subst L; unfold zlen; cbn [length]; reflexivity).
    do 2 eexists. reflexivity.
Qed.

Lemma pSpaces_eq : pSpaces = scan is_space. Proof. reflexivity. Qed.

Lemma bind_assoc {A B C} (m : M A) (f : A -> M B) (g : B -> M C) s :
  bind (bind m f) g s = bind m (fun x => bind (f x) g) s.
Proof. unfold bind. destruct (m s) as [[x| | |] s1]; reflexivity. Qed.

Lemma pWord_scan f s : pWord f s = (p <-- scan f ;;; match p with [] => fail EOther | _ => ret p end) s.
Proof. unfold pWord, scan. rewrite !bind_assoc. unfold bind. destruct (push s) as [[x| | |] s1]; try reflexivity.
  destruct (try next s1) as [[y| | |] s2]; try reflexivity.
  destruct (advance_while f s2) as [[z| | |] s3]; reflexivity.
Qed.

Lemma pWord_okp f w post : w <> [] -> Forall (fun c => f c = true) w ->
  match post with c :: _ => f c = false | [] => True end ->
  okp (pWord f) w post w.
Proof.
  intros Hne Hw Hp o e a fr k.
  destruct (scan_okp f w post Hw Hp o e a fr k) as (o' & e' & E).
  rewrite pWord_scan. erewrite bind_ok; [|exact E]. destruct w; [contradiction|]. do 2 eexists. reflexivity.
Qed.

(* ---------- small parsers of the LOCUS line *)
Lemma pFilter_okp f c post : f c = true -> okp (pFilter f) [c] post c.
Proof.
  intros Hc o e a fr k. unfold pFilter. cbn [app]. run ltac:(apply next_cons). rewrite Hc.
  run ltac:(apply advance_ne; [lia|reflexivity]). cbn [skipn Z.to_nat Pos.to_nat Pos.iter_op Nat.add].
  change (zlen [c]) with 1. do 2 eexists. reflexivity.
Qed.

Lemma pMaybe_okp {A} (p : M A) txt post v : okp p txt post v -> okp (pMaybe p) txt post (Some v).
Proof.
  intros H o e a fr k. unfold pMaybe. run ltac:(apply push_eq).
  destruct (H o e a (txt ++ post, o, a) (fr :: k)) as (o' & e' & E).
  run ltac:(apply try_ok; exact E). run ltac:(apply drop_ne). do 2 eexists. reflexivity.
Qed.

Lemma pInt_okp n post : 0 <= n <= int64_max ->
  match post with c :: _ => is_digit c = false | [] => True end -> okp pInt (itoa n) post n.
Proof. intros Hn Hp o e a fr k. rewrite pInt_itoa by assumption. do 2 eexists. reflexivity. Qed.

Lemma pLine_okp line post : no_eol line -> okp pLine (line ++ [10]) post line.
Proof.
  intros H o e a fr k.
  destruct (pLine_lf line post o e a (fr :: k) H) as (o' & e' & E).
  replace ((line ++ [10]) ++ post) with (line ++ 10 :: post) by (now rewrite <- app_assoc).
  exists o', e'. eapply eq_trans; [exact E|].
  rewrite zlen_app. change (zlen [10]) with 1. now rewrite Z.add_assoc.
Qed.

Lemma spaces_forall n : Forall (fun c => is_space c = true) (repeat_byte 32 n).
Proof. unfold repeat_byte. induction (Z.to_nat n) as [|k IH]; constructor; [reflexivity|exact IH]. Qed.

Definition word (w : list byte) : Prop := w <> [] /\ Forall (fun c => not_space c = true) w.

Lemma word_head_nonspace w post : word w -> match w ++ post with c :: _ => is_space c = false | [] => True end.
Proof.
  intros [Hne Hw]. destruct w as [|c t]; [contradiction|]. cbn [app]. inversion Hw as [|? ? Hc _]; subst.
  unfold not_space in Hc. now apply negb_true_iff in Hc.
Qed.

Lemma space_stops_word post : match (32 : byte) :: post with c :: _ => not_space c = false | [] => True end.
Proof. reflexivity. Qed.

(* ---------- the LOCUS line *)
Definition bp : list byte := [32; 98; 112].

Definition locus_text (name : list byte) (len : Z) (mol : list byte) (top : Z) (div dt : list byte) : list byte :=
  pad_right 12 str_LOCUS ++ pad_right 17 name ++ [32] ++ pad_left 10 (itoa len) ++ [32;98;112;32] ++
  pad_left 6 mol ++ [32;32;32;32;32] ++ pad_right 9 (topology_show top) ++ div ++ [32] ++ dt.

Definition upper3 (d : list byte) : Prop :=
  exists x y z, d = [x; y; z] /\ is_upper x = true /\ is_upper y = true /\ is_upper z = true.

Definition date_text (dt : list byte) (date : Z * Z * Z) : Prop :=
  no_eol dt /\ as_date dt = Ok date /\
  match dt with c :: _ => is_space c = false | [] => False end.

Lemma upper_not_space c : is_upper c = true -> is_space c = false.
Proof.
  unfold is_upper, is_space. intros H. apply andb_true_iff in H as [H1 H2]. apply Z.leb_le in H1. apply Z.leb_le in H2.
  repeat (match goal with |- context [?x =? ?y] => destruct (Z.eqb_spec x y); [lia|] end). reflexivity.
Qed.

Lemma topology_word top : top = 0 \/ top = 1 -> word (topology_show top).
Proof. intros [->| ->]; (split; [discriminate|repeat constructor]). Qed.

Ltac stepk H :=
  match goal with
  | |- context [mkst _ ?o ?e ?a (?fr :: ?k)] =>
    let o' := fresh "o" in let e' := fresh "e" in let E := fresh "E" in
    destruct (H o e a fr k) as (o' & e' & E); run ltac:(apply try_ok; exact E); clear E
  end.
Ltac stepb H :=
  match goal with
  | |- context [mkst _ ?o ?e ?a (?fr :: ?k)] =>
    let o' := fresh "o" in let e' := fresh "e" in let E := fresh "E" in
    destruct (H o e a fr k) as (o' & e' & E); run ltac:(exact E); clear E
  end.
Ltac with_post tac := match goal with |- context [mkst (_ ++ ?post) _ _ _ _] => tac post end.

Lemma sp_then_word S w R : Forall (fun c => is_space c = true) S -> word w -> okp (scan is_space) S (w ++ R) S.
Proof. intros HS Hw. apply scan_okp; [exact HS|]. now apply word_head_nonspace. Qed.
Lemma sp_then_char S c R : Forall (fun c => is_space c = true) S -> is_space c = false -> okp (scan is_space) S (c :: R) S.
Proof. intros HS Hc. apply scan_okp; [exact HS|exact Hc]. Qed.
Lemma word_then_sp w R : word w -> okp (pWord not_space) w (32 :: R) w.
Proof. intros [Hne Hw]. apply pWord_okp; [exact Hne|exact Hw|reflexivity]. Qed.

Lemma locus_split name len mol top div dt :
  locus_text name len mol top div dt ++ [10] =
  str_LOCUS ++ repeat_byte 32 7 ++ name ++
  (repeat_byte 32 (17 - zlen name) ++ [32] ++ repeat_byte 32 (10 - zlen (itoa len))) ++
  itoa len ++ bp ++ ([32] ++ repeat_byte 32 (6 - zlen mol)) ++ mol ++ [32;32;32;32;32] ++
  topology_show top ++ repeat_byte 32 (9 - zlen (topology_show top)) ++ div ++ [32] ++ (dt ++ [10]).
Proof.
  unfold locus_text, pad_right, pad_left, bp. change (12 - zlen str_LOCUS) with 7.
  repeat rewrite <- app_assoc. reflexivity.
Qed.

Lemma forall_app_spaces a b : Forall (fun c => is_space c = true) a -> Forall (fun c => is_space c = true) b ->
  Forall (fun c => is_space c = true) (a ++ b).
Proof. intros; apply Forall_app; split; assumption. Qed.

Lemma head_space_pad n X R :
  match (repeat_byte 32 n ++ [32] ++ X) ++ R with c :: _ => not_space c = false | [] => True end.
Proof. unfold repeat_byte. destruct (Z.to_nat n); reflexivity. Qed.

Lemma digit_not_space c : is_digit c = true -> is_space c = false.
Proof.
  unfold is_digit, is_space. intros H. apply andb_true_iff in H as [H1 H2]. apply Z.leb_le in H1. apply Z.leb_le in H2.
  repeat (match goal with |- context [?x =? ?y] => destruct (Z.eqb_spec x y); [lia|] end). reflexivity.
Qed.

Lemma top_pad_head top R : top = 0 \/ top = 1 ->
  match repeat_byte 32 (9 - zlen (topology_show top)) ++ R with c :: _ => not_space c = false | [] => True end.
Proof. intros [->| ->]; reflexivity. Qed.

Lemma upper3_okp x y z post : is_upper x = true -> is_upper y = true -> is_upper z = true ->
  okp (pMaybe (pMap (pSeq3 (pFilter is_upper) (pFilter is_upper) (pFilter is_upper))
                    (fun '(x, y, z) => Ok [x; y; z]))) [x; y; z] post (Some [x; y; z]).
Proof.
  intros Hx Hy Hz. apply pMaybe_okp. eapply pMap_okp with (v := (x, y, z)); [|reflexivity].
  change [x; y; z] with ([x] ++ [y] ++ [z]). apply pSeq3_okp; now apply pFilter_okp.
Qed.

Lemma unit_okp_any post : okp (pAny [pBytes [32;98;112]; pBytes [32;97;97]]) bp post tt.
Proof. apply pAny_okp, anyl_here, pBytes_okp. Qed.

Theorem locus_line_reads name len mol top div dt date post :
  word name -> 0 <= len <= int64_max -> word mol -> (top = 0 \/ top = 1) -> upper3 div -> date_text dt date ->
  okp locus_parser (locus_text name len mol top div dt ++ [10]) post
      (12, name, len, mol, topology_show top, div, date).
Proof.
  intros Hname Hlen Hmol Htop (x & y & z & -> & Hx & Hy & Hz) (Hnoeol & Hdate & Hdt0).
  pose proof (topology_word top Htop) as Htw.
  destruct dt as [|d0 dt']; [contradiction|].
  destruct (itoa_head len ltac:(lia)) as (c0 & t0 & Eit & Hc0).
  intros o e a fr k.
  assert (Hfin : a + zlen (locus_text name len mol top [x; y; z] (d0 :: dt') ++ [10]) =
                 a + zlen str_LOCUS + zlen (repeat_byte 32 7) + zlen name +
                 zlen (repeat_byte 32 (17 - zlen name) ++ [32] ++ repeat_byte 32 (10 - zlen (itoa len))) +
                 zlen (itoa len) + zlen bp + zlen ([32] ++ repeat_byte 32 (6 - zlen mol)) + zlen mol +
                 zlen [32;32;32;32;32] + zlen (topology_show top) + zlen (repeat_byte 32 (9 - zlen (topology_show top))) +
                 zlen [x; y; z] + zlen [32] + zlen ((d0 :: dt') ++ [10])).
  { rewrite locus_split. rewrite !zlen_app. unfold byte in *. lia. }
  rewrite Hfin. clear Hfin.
  rewrite locus_split. unfold locus_parser, pMap. run ltac:(apply push_eq).
  match goal with |- context [(?r, o, a) :: fr :: k] => set (F1 := (r, o, a)) end.
  repeat rewrite <- app_assoc.
  match goal with |- context [try ?body] => set (B := body) end.
  assert (EB : exists o' e',
    B (mkst (str_LOCUS ++ repeat_byte 32 7 ++ name ++
        (repeat_byte 32 (17 - zlen name) ++ [32] ++ repeat_byte 32 (10 - zlen (itoa len))) ++
        itoa len ++ bp ++ ([32] ++ repeat_byte 32 (6 - zlen mol)) ++ mol ++ [32;32;32;32;32] ++
        topology_show top ++ repeat_byte 32 (9 - zlen (topology_show top)) ++ [x; y; z] ++ [32] ++ ((d0 :: dt') ++ [10]) ++ post)
        o e a (F1 :: fr :: k)) =
    (Ok (12, name, len, mol, topology_show top, [x; y; z], date),
     mkst post o' e'
       (a + zlen str_LOCUS + zlen (repeat_byte 32 7) + zlen name +
        zlen (repeat_byte 32 (17 - zlen name) ++ [32] ++ repeat_byte 32 (10 - zlen (itoa len))) +
        zlen (itoa len) + zlen bp + zlen ([32] ++ repeat_byte 32 (6 - zlen mol)) + zlen mol +
        zlen [32;32;32;32;32] + zlen (topology_show top) + zlen (repeat_byte 32 (9 - zlen (topology_show top))) +
        zlen [x; y; z] + zlen [32] + zlen ((d0 :: dt') ++ [10])) (F1 :: fr :: k))).
  { subst B. run ltac:(apply push_eq).
    match goal with |- context [(?r, o, a) :: F1 :: fr :: k] => set (F2 := (r, o, a)) end.
    cbv zeta.
    with_post ltac:(fun P => stepk (pBytes_okp str_LOCUS P)).
    rewrite pSpaces_eq.
    with_post ltac:(fun P => match P with ?w ++ ?R => stepb (sp_then_word (repeat_byte 32 7) w R (spaces_forall 7) Hname) end).
    with_post ltac:(fun P => stepk (pWord_okp not_space name P (proj1 Hname) (proj2 Hname) (head_space_pad _ _ _))).
    (* padding, then the length *)
    rewrite Eit.
    with_post ltac:(fun P => match P with (?c :: ?t) ++ ?R =>
      stepb (sp_then_char (repeat_byte 32 (17 - zlen name) ++ [32] ++ repeat_byte 32 (10 - zlen (c :: t))) c (t ++ R)
               (forall_app_spaces _ _ (spaces_forall _) (forall_app_spaces _ _ (spaces_forall 1) (spaces_forall _)))
               (digit_not_space c Hc0)) end).
    match goal with |- context [mkst (c0 :: t0 ++ ?R) _ _ _ _] => change (c0 :: t0 ++ R) with ((c0 :: t0) ++ R) end.
    rewrite <- Eit.
    with_post ltac:(fun P => stepk (pInt_okp len P Hlen eq_refl)).
    with_post ltac:(fun P => stepk (unit_okp_any P)).
    with_post ltac:(fun P => match P with ?w ++ ?R =>
      stepb (sp_then_word ([32] ++ repeat_byte 32 (6 - zlen mol)) w R (forall_app_spaces _ _ (spaces_forall 1) (spaces_forall _)) Hmol) end).
    with_post ltac:(fun P => stepk (pWord_okp not_space mol P (proj1 Hmol) (proj2 Hmol) eq_refl)).
    with_post ltac:(fun P => match P with ?w ++ ?R =>
      stepb (sp_then_word [32;32;32;32;32] w R (spaces_forall 5) Htw) end).
    with_post ltac:(fun P => stepk (pWord_okp not_space (topology_show top) P (proj1 Htw) (proj2 Htw) (top_pad_head top _ Htop))).
    with_post ltac:(fun P => match P with (?c :: ?t) ++ ?R =>
      stepb (sp_then_char (repeat_byte 32 (9 - zlen (topology_show top))) c (t ++ R) (spaces_forall _) (upper_not_space c Hx)) end).
    match goal with |- context [mkst (x :: [y; z] ++ ?R) _ _ _ _] => change (x :: [y; z] ++ R) with ([x; y; z] ++ R) end.
    with_post ltac:(fun P => stepk (upper3_okp x y z P Hx Hy Hz)).
    with_post ltac:(fun P => match P with ((?c :: ?t) ++ ?L) ++ ?R =>
      stepb (sp_then_char [32] c ((t ++ L) ++ R) (spaces_forall 1) Hdt0) end).
    match goal with |- context [mkst (d0 :: (dt' ++ [10]) ++ ?R) _ _ _ _] => change (d0 :: (dt' ++ [10]) ++ R) with (((d0 :: dt') ++ [10]) ++ R) end.
    with_post ltac:(fun P => stepk (pMap_okp pLine as_date ((d0 :: dt') ++ [10]) P (d0 :: dt') date (pLine_okp (d0 :: dt') P Hnoeol) Hdate)).
    run ltac:(apply drop_ne). do 2 eexists. reflexivity. }
  destruct EB as (o' & e' & EB).
  match type of EB with B (mkst ?g _ _ _ _) = _ =>
    match goal with |- context [mkst ?r o e a (F1 :: fr :: k)] =>
      replace r with g by (repeat rewrite <- app_assoc; reflexivity) end end.
  run ltac:(apply try_ok; exact EB). run ltac:(apply drop_ne).
  do 2 eexists. reflexivity.
Qed.

(* ---------- the date text written by the writer *)
Lemma month_name_facts m : 1 <= m <= 12 ->
  Forall (fun c => c <> 10 /\ c <> 13) (nth (Z.to_nat (m - 1)) month_names []).
Proof.
  intros H. assert (C : m = 1 \/ m = 2 \/ m = 3 \/ m = 4 \/ m = 5 \/ m = 6 \/ m = 7 \/ m = 8 \/ m = 9 \/ m = 10 \/ m = 11 \/ m = 12) by lia.
  repeat (destruct C as [->|C]; [cbn; repeat constructor; lia|]). subst. cbn. repeat constructor; lia.
Qed.

Lemma date_show_text y m d : valid_date y m d -> date_text (date_show (y, m, d)) (y, m, d).
Proof.
  intros Hv. pose proof (date_roundtrip y m d Hv) as Hrt. destruct Hv as (Hy & Hm & Hd1 & Hd2).
  assert (Hd99 : 0 <= d <= 99).
  { unfold days_in in Hd2. destruct (m =? 2); destruct (go_isLeapYear y); cbn [andb] in Hd2;
      repeat match type of Hd2 with context [if ?b then _ else _] => destruct b end; lia. }
  assert (Hq : 0 <= d / 10 <= 9) by (split; [apply Z.div_pos; lia|assert (d / 10 < 10) by (apply Z.div_lt_upper_bound; lia); lia]).
  pose proof (Z.mod_pos_bound d 10 ltac:(lia)) as Hr.
  split; [|split; [exact Hrt|]].
  - unfold date_show, two_digits, four_digits. replace (y <? 10000) with true by (symmetry; apply Z.ltb_lt; lia).
    unfold no_eol. cbn [app]. constructor; [lia|]. constructor; [lia|]. constructor; [lia|].
    apply Forall_app. split; [now apply month_name_facts|].
    assert (0 <= y / 1000 <= 9) by (split; [apply Z.div_pos; lia|assert (y / 1000 < 10) by (apply Z.div_lt_upper_bound; lia); lia]).
    pose proof (Z.mod_pos_bound (y / 100) 10 ltac:(lia)). pose proof (Z.mod_pos_bound (y / 10) 10 ltac:(lia)).
    pose proof (Z.mod_pos_bound y 10 ltac:(lia)).
    repeat constructor; lia.
  - unfold date_show, two_digits. cbn [app]. unfold is_space.
    repeat (match goal with |- context [?x =? ?y] => destruct (Z.eqb_spec x y); [lia|] end). reflexivity.
Qed.

(* ---------- what GenBank.String writes first *)
Definition locus_length (g : genbank) : Z :=
  let f := gb_fields g in
  let olen := origin_len (gb_origin g) in
  if olen =? 0 then (let '(_, h, t) := f_contig f in go_Abs (t - h)) else olen.

Lemma gb_show_starts reg g out : gb_show reg g = Ok out ->
  exists rest, out = (locus_text (f_locus (gb_fields g)) (locus_length g) (f_molecule (gb_fields g))
                        (f_topology (gb_fields g)) (f_division (gb_fields g)) (date_show (f_date (gb_fields g))) ++ [10]) ++ rest.
Proof.
  unfold gb_show, locus_length. intros H.
  destruct (omapM reference_show (f_references (gb_fields g))) as [refs| | |]; try discriminate. cbn [obind] in H.
  destruct (table_show reg [32; 32; 32; 32; 32] 21 (gb_table g)) as [tb| | |]; try discriminate. cbn [obind] in H.
  apply (f_equal (fun o => match o with Ok v => v | _ => [] end)) in H. cbv beta iota in H. rewrite <- H.
  unfold locus_text, nl. eexists. rewrite <- !app_assoc. reflexivity.
Qed.

(* the LOCUS line of every written record reads back as the fields it was
   written from *)
Theorem locus_roundtrip reg g out : gb_show reg g = Ok out ->
  let f := gb_fields g in
  word (f_locus f) -> 0 <= locus_length g <= int64_max -> word (f_molecule f) ->
  (f_topology f = 0 \/ f_topology f = 1) -> upper3 (f_division f) ->
  (let '(y, m, d) := f_date f in valid_date y m d) ->
  exists line rest, out = (line ++ [10]) ++ rest /\
    okp locus_parser (line ++ [10]) rest
      (12, f_locus f, locus_length g, f_molecule f, topology_show (f_topology f), f_division f, f_date f).
Proof.
  intros H f Hn Hl Hm Ht Hd Hdate. destruct (gb_show_starts reg g out H) as (rest & ->).
  eexists. exists rest. split; [reflexivity|]. fold f.
  destruct (f_date f) as [[y m] d] eqn:Ed. apply locus_line_reads; try assumption. now apply date_show_text.
Qed.
