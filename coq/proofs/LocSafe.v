(* LocSafe.v — the location parsers (ParseLocation, AsLocation, tryLocation)
   never panic, and return locations Join/Order accept. *)
From GTS Require Import Base Arith Pars Loc LocParse BaseLemmas ParsLemmas Safety JoinSafe.
From Coq Require Import Lia.
Open Scope Z_scope.

Definition safeL (m : M loc) : Prop := triple wf m (fun l s => wf s /\ ne l) wf.
Definition safeLs (m : M (list loc)) : Prop := triple wf m (fun ls s => wf s /\ ls <> [] /\ Forall ne ls) wf.

Lemma safeL_safe m : safeL m -> safe m.
Proof. intros H. eapply t_conseq; [exact H| | |]; auto. intros a s [Hw _]; exact Hw. Qed.

Lemma popfail_any {A} k (Q : A -> st -> Prop) : triple wf (pop ;;; fail k) Q wf.
Proof. eapply t_bind; [apply pop_spec|]. intros u. apply t_fail. auto. Qed.
Lemma popfail_wr {A} k (Q : A -> st -> Prop) : triple wr (pop ;;; fail k) Q wf.
Proof. eapply t_conseq; [apply (popfail_any k Q)| | |]; auto. intros s [H _]; exact H. Qed.
Lemma fail_any {A} k (Q : A -> st -> Prop) : triple wf (fail k) Q wf.
Proof. apply t_fail. auto. Qed.
Lemma fail_wr {A} k (Q : A -> st -> Prop) : triple wr (fail k) Q wf.
Proof. apply t_fail. intros s [H _]; exact H. Qed.
Ltac popfail := first [ apply popfail_any | apply popfail_wr | apply fail_any | apply fail_wr ].
Ltac trynext := eapply t_bind; [apply (t_try _ _ _ _ wf next_spec)|]; intros [[?c|] ?k]; cbv beta iota.
Ltac tryp H := eapply t_bind; [apply (safe_try' _ H)|]; intros [[?v|] ?k]; cbv beta iota.
Ltac adv := eapply t_bind; [apply safe_advance|]; intros ?u.

Lemma ret_ne (l : loc) : ne l -> triple wf (ret l) (fun l s => wf s /\ ne l) wf.
Proof. intros H. apply t_ret. auto. Qed.

Lemma safe_parse_between : safeL parse_between.
Proof.
  unfold safeL, parse_between. eapply t_bind; [apply push_spec|]. intros ?u.
  tryp safe_pInt; [|popfail].
  trynext; [|popfail].
  destruct (negb (c =? 94)); [popfail|]. adv.
  tryp safe_pInt; [|popfail].
  destruct (negb (v + 1 =? v0)); [popfail|].
  eapply t_bind; [apply drop_spec|]. intros ?u. apply ret_ne. exact I.
Qed.

Lemma safe_parse_point : safeL parse_point.
Proof.
  unfold safeL, parse_point, pMap. eapply t_bind; [apply push_spec|]. intros ?u.
  tryp safe_pInt; [|popfail].
  eapply t_bind; [apply drop_spec|]. intros ?u. apply (ret_ne (Point (v - 1))). exact I.
Qed.

Lemma safe_parse_range : safeL parse_range.
Proof.
  unfold safeL, parse_range. eapply t_bind; [apply push_spec|]. intros ?u.
  trynext; [|popfail].
  eapply t_bind.
  { instantiate (1 := fun _ => wf). destruct (c =? 60); [adv; apply safe_ret|apply wr_weaken, safe_ret]. }
  intros p5. tryp safe_pInt; [|popfail].
  eapply t_bind; [apply (t_try _ _ _ _ wf (request_spec 2 ltac:(lia)))|]. intros [[?x|] ?k]; cbv beta iota; [|popfail].
  eapply t_bind; [apply (buffer_spec wf)|]. intros b.
  destruct (negb (bytes_eqb b s_dotdot)); [popfail|]. adv.
  trynext; [|popfail].
  eapply t_bind.
  { instantiate (1 := fun _ => wf). destruct (c0 =? 62); [adv; apply safe_ret|apply wr_weaken, safe_ret]. }
  intros p3. tryp safe_pInt; [|popfail].
  trynext.
  - eapply t_bind.
    { instantiate (1 := fun _ => wf).
      destruct c1 as [|q|q]; try (apply wr_weaken, safe_ret).
      repeat (destruct q as [q|q|]; try (apply wr_weaken, safe_ret)). adv. apply safe_ret. }
    intros p3'. eapply t_bind; [apply drop_spec|]. intros ?u. apply ret_ne. exact I.
  - eapply t_bind; [apply safe_ret|]. intros p3'. eapply t_bind; [apply drop_spec|]. intros ?u. apply ret_ne. exact I.
Qed.

Lemma safe_parse_ambiguous : safeL parse_ambiguous.
Proof.
  unfold safeL, parse_ambiguous. eapply t_bind; [apply push_spec|]. intros ?u.
  tryp safe_pInt; [|popfail].
  trynext; [|popfail].
  destruct (negb (c =? 46)); [popfail|]. adv.
  tryp safe_pInt; [|popfail].
  eapply t_bind; [apply drop_spec|]. intros ?u. apply ret_ne. exact I.
Qed.

Lemma safe_location_delimiter : safe location_delimiter.
Proof.
  unfold safe, location_delimiter. eapply t_bind; [apply push_spec|]. intros ?u.
  trynext.
  - destruct (negb (c =? 44)).
    + apply wr_weaken. apply safe_bind; [apply pop_spec|]. intros _. apply safe_ret.
    + adv. apply safe_bind; [apply safe_try', safe_next|]. intros _.
      apply safe_bind; [apply safe_advance_while|]. intros _.
      apply safe_bind; [apply drop_spec|]. intros _. apply safe_ret.
  - apply safe_bind; [apply pop_spec|]. intros _. apply safe_ret.
Qed.

Lemma t_pure {A} (P : st -> Prop) (phi : Prop) (m : M A) Q E :
  (phi -> triple P m Q E) -> triple (fun s => P s /\ phi) m Q E.
Proof. intros H s [Hs Hp]. apply (H Hp s Hs). Qed.

Section RecSafe.
  Variable pl : M loc.
  Hypothesis Hpl : safeL pl.

  Lemma safe_multi_loop fuel : forall acc, acc <> [] -> Forall ne acc -> safeLs (multi_loop pl fuel acc).
  Proof.
    induction fuel as [|f IH]; intros acc Hn Ha; cbn [multi_loop]; [apply t_nofuel|].
    unfold safeLs. eapply t_bind; [apply safe_location_delimiter|]. intros [|].
    - eapply t_bind; [apply (t_try _ _ _ _ wf Hpl)|]. intros [[l|] k]; cbv beta iota.
      + apply t_pure. intros Hl. apply (IH (l :: acc)); [discriminate|constructor; assumption].
      + apply popfail_any.
    - eapply t_bind; [apply drop_spec|]. intros ?u. apply t_ret. intros s Hs. split; [exact Hs|].
      split; [|apply Forall_rev; exact Ha].
      intros E. apply Hn. apply (f_equal (@rev loc)) in E. rewrite rev_involutive in E. exact E.
  Qed.

  Lemma safe_multiple : safeLs (multiple_location_parser pl).
  Proof.
    unfold safeLs, multiple_location_parser. eapply t_bind; [apply push_spec|]. intros ?u.
    eapply t_bind; [apply (t_try _ _ _ _ wf Hpl)|]. intros [[l|] k]; cbv beta iota; [|apply popfail_any].
    apply t_pure. intros Hl. eapply t_bind; [apply safe_get|]. intros s.
    apply safe_multi_loop; [discriminate|constructor; [assumption|constructor]].
  Qed.

  Lemma safe_parse_wrapped prefix finish :
    (forall locs, locs <> [] -> Forall ne locs -> finish locs <> Panic /\ (forall l, finish locs = Ok l -> ne l)) ->
    safeL (parse_wrapped pl prefix finish).
  Proof.
    intros Hfin. unfold safeL, parse_wrapped. eapply t_bind; [apply push_spec|]. intros ?u.
    eapply t_bind; [apply (t_try _ _ _ _ wf (request_spec _ (zlen_nonneg prefix)))|]. intros [[?x|] ?k]; cbv beta iota; [|popfail].
    eapply t_bind; [apply (buffer_spec wf)|]. intros b.
    destruct (negb (bytes_eqb b prefix)); [popfail|]. adv.
    eapply t_bind; [apply (t_try _ _ _ _ wf safe_multiple)|]. intros [[locs|] ?k]; cbv beta iota; [|popfail].
    apply (t_conseq (fun s => wf s /\ (locs <> [] /\ Forall ne locs)) _ _ (fun l s => wf s /\ ne l) (fun l s => wf s /\ ne l) wf wf); auto.
    apply t_pure. intros [Hn Hf]. destruct (Hfin locs Hn Hf) as [Hp Hok].
    trynext; [|popfail].
    destruct (negb (c =? 41)); [popfail|]. adv.
    destruct (finish locs) as [l|kk| |] eqn:Ef; try contradiction.
    - change (lift (Ok l)) with (ret l).
      eapply t_bind; [apply (t_ret wf l (fun x s => wf s /\ x = l)); auto|]. intros l'. apply t_pure. intros ->.
      eapply t_bind; [apply drop_spec|]. intros ?u. apply ret_ne. apply Hok; reflexivity.
    - change (lift (@Err loc kk)) with (@fail loc kk). intros s Hs. cbn. exact Hs.
    - intros s Hs. cbn. exact I.
  Qed.

  Lemma safe_parse_complement inner : safeL inner -> safeL (parse_complement inner).
  Proof.
    intros Hin. unfold safeL, parse_complement. eapply t_bind; [apply push_spec|]. intros ?u.
    eapply t_bind; [apply (t_try _ _ _ _ wf (request_spec 11 ltac:(lia)))|]. intros [[?x|] ?k]; cbv beta iota; [|popfail].
    eapply t_bind; [apply (buffer_spec wf)|]. intros b.
    destruct (negb (bytes_eqb b s_complement)); [popfail|]. adv.
    eapply t_bind; [apply (t_try _ _ _ _ wf Hin)|]. intros [[l|] ?k]; cbv beta iota; [|popfail].
    apply t_pure. intros Hl.
    trynext; [|popfail].
    destruct (negb (c =? 41)); [popfail|]. adv.
    eapply t_bind; [apply drop_spec|]. intros ?u. apply ret_ne. apply complement_ne, Hl.
  Qed.

  Lemma safeL_any (ps : list (M loc)) : Forall safeL ps -> forall last, safeL (any_loop ps last).
  Proof.
    induction ps as [|p t IH]; intros H last; cbn [any_loop].
    - apply popfail_any.
    - inversion H as [|? ? Hp Ht]; subst. unfold safeL.
      eapply t_bind; [apply (t_try _ _ _ _ wf Hp)|]. intros [[l|] k]; cbv beta iota.
      + apply t_pure. intros Hl. eapply t_bind; [apply drop_spec|]. intros ?u. apply ret_ne, Hl.
      + eapply t_bind; [apply safe_pushed|]. intros [|]; [apply (IH Ht)|apply fail_any].
  Qed.

  Lemma safe_location_body : safeL (parse_location_body pl).
  Proof.
    unfold parse_location_body, pAny, safeL. eapply t_bind; [apply push_spec|]. intros ?u.
    apply safeL_any. repeat constructor.
    - apply safe_parse_range.
    - apply safe_parse_between.
    - apply safe_parse_ambiguous.
    - apply safe_parse_complement, Hpl.
    - apply safe_parse_wrapped. apply join_no_panic.
    - apply safe_parse_wrapped. apply order_no_panic.
    - apply safe_parse_point.
  Qed.
End RecSafe.

Lemma safe_parse_location fuel : safeL (parse_location fuel).
Proof.
  induction fuel as [|f IH]; cbn [parse_location]; [apply t_nofuel|]. apply safe_location_body, IH.
Qed.

Lemma safe_try_location_parser fuel : safeL (try_location_parser fuel).
Proof.
  induction fuel as [|f IH]; cbn [try_location_parser]; [apply t_nofuel|].
  unfold pAny, safeL. eapply t_bind; [apply push_spec|]. intros ?u.
  apply safeL_any. repeat constructor.
  - apply safe_parse_complement, IH.
  - apply safe_parse_range.
  - apply safe_parse_point.
Qed.

(* AsLocation and tryLocation never panic *)
Lemma wf_st_of input : zlen input <= input_bound -> wf (st_of input).
Proof. intros H. unfold st_of, wf, small. cbn [off stk rest frames_le]. repeat split; auto; try lia; try constructor. Qed.

Theorem as_location_no_panic s : zlen s <= input_bound -> as_location s <> Panic.
Proof.
  intros Hb. unfold as_location, run. pose proof (safe_parse_location (S (length s)) (st_of s) (wf_st_of s Hb)) as H.
  destruct (parse_location (S (length s)) (st_of s)) as [[l|k| |] s']; cbn [fst]; try discriminate. contradiction.
Qed.

Theorem try_location_no_panic s : zlen s <= input_bound -> try_location s <> Panic.
Proof.
  intros Hb. unfold try_location, run.
  pose proof (safe_pExact _ (safeL_safe _ (safe_try_location_parser (S (length s)))) (st_of s) (wf_st_of s Hb)) as H.
  destruct (pExact (try_location_parser (S (length s))) (st_of s)) as [[l|k| |] s']; cbn [fst]; try discriminate. contradiction.
Qed.
