(* ReverseInvol.v — C05: mirroring twice is the identity.  For every contiguous
   location (between-site, point, range with either partial marker, ambiguous
   range) and its complement, Reverse of the Reverse is the location itself:
   coordinates AND partial markers (the markers swap ends each time). *)
From GTS Require Import Base Arith Loc BaseLemmas LocProofs EditProofs.
Open Scope Z_scope.

Theorem reverse_leaf_involution L l : contiguous l -> range_wf l = true ->
  exists l', reverse l L = Ok l' /\ reverse l' L = Ok l.
Proof.
  intros Hc Hw. destruct l as [p|p|s e a b|s e| | |]; try contradiction; cbn [reverse].
  - eexists; split; [reflexivity|]. cbn [reverse]. do 2 f_equal. lia.
  - eexists; split; [reflexivity|]. cbn [reverse]. do 2 f_equal. lia.
  - cbn [range_wf] in Hw. zb. unfold ranged_reverse, partial_range.
    replace (L - s <=? L - e) with false by (symmetry; apply Z.leb_gt; lia). cbn [obind].
    destruct a, b; eexists; (split; [reflexivity|]); cbn [reverse]; unfold ranged_reverse, partial_range;
      replace (L - (L - e)) with e by lia; replace (L - (L - s)) with s by lia;
      replace (e <=? s) with false by (symmetry; apply Z.leb_gt; lia); reflexivity.
  - eexists; split; [reflexivity|]. cbn [reverse]. f_equal. f_equal; lia.
Qed.

Theorem reverse_complement_leaf_involution L l : contiguous l -> range_wf l = true ->
  exists l', reverse (Complemented l) L = Ok l' /\ reverse l' L = Ok (Complemented l).
Proof.
  intros Hc Hw. destruct (reverse_leaf_involution L l Hc Hw) as [l' [H1 H2]].
  exists (Complemented l'). cbn [reverse]. rewrite H1. cbn [obind]. split; [reflexivity|].
  cbn [reverse]. rewrite H2. reflexivity.
Qed.
