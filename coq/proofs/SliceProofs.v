(* SliceProofs.v — C11: the operations write only into arrays they allocated *)
From GTS Require Import Base GoSlice BaseLemmas.
Open Scope nat_scope.

Section SliceProofs.
  Context {A : Type}.
  Variable dflt : A.

  Notation heap := (@heap A).

  (* h' extends h0 without touching any array of h0 *)
  Definition agree (h0 h' : heap) : Prop :=
    length h0 <= length h' /\ forall id, id < length h0 -> array h' id = array h0 id.

  Lemma agree_refl h : agree h h.
  Proof. split; auto. Qed.

  Lemma agree_trans a b c : agree a b -> agree b c -> agree a c.
  Proof. intros [L1 H1] [L2 H2]. split; [lia|]. intros id Hid. rewrite H2 by lia. now apply H1. Qed.

  Lemma set_array_length (h : heap) id a : length (set_array h id a) = length h.
  Proof. revert id. induction h as [|x t IH]; intros [|id]; cbn; auto. Qed.

  Lemma set_array_other (h : heap) id a id' : id' <> id -> array (set_array h id a) id' = array h id'.
  Proof.
    unfold array. revert id id'. induction h as [|x t IH]; intros [|id] [|id'] H; cbn; auto; try congruence.
  Qed.

  Lemma set_array_same (h : heap) id a : id < length h -> array (set_array h id a) id = a.
  Proof.
    unfold array. revert id. induction h as [|x t IH]; intros [|id] H; cbn in *; try lia; auto.
    apply IH. lia.
  Qed.

  Lemma array_app_old (h : heap) x id : id < length h -> array (h ++ [x]) id = array h id.
  Proof. intros H. unfold array. rewrite app_nth1 by exact H. reflexivity. Qed.

  Lemma array_app_new (h : heap) x : array (h ++ [x]) (length h) = x.
  Proof. unfold array. rewrite app_nth2 by lia. rewrite Nat.sub_diag. reflexivity. Qed.

  Lemma agree_make (h : heap) len cap : agree h (fst (go_make dflt h len cap)).
  Proof. cbn. split; [rewrite app_length; cbn; lia|]. intros id H. now apply array_app_old. Qed.

  (* a slice living in an array allocated after h0 *)
  Definition fresh (h0 : heap) (s : slc) : Prop := length h0 <= arr s.

  Lemma agree_append (h0 h : heap) (s : slc) (xs : list A) : agree h0 h -> fresh h0 s ->
    agree h0 (fst (go_append h s xs)) /\ fresh h0 (snd (go_append h s xs)).
  Proof.
    intros [L H] F. unfold go_append. destruct (Nat.leb _ _); cbn [fst snd].
    - split; [|exact F]. split; [now rewrite set_array_length|].
      intros id Hid. rewrite set_array_other by (unfold fresh in F; lia). now apply H.
    - split; [|unfold fresh; cbn; lia]. split; [rewrite app_length; cbn; lia|].
      intros id Hid. rewrite array_app_old by lia. now apply H.
  Qed.

  Lemma agree_copy (h0 h : heap) (dst : slc) (xs : list A) : agree h0 h -> fresh h0 dst -> agree h0 (go_copy h dst xs).
  Proof.
    intros [L H] F. unfold go_copy. split; [now rewrite set_array_length|].
    intros id Hid. rewrite set_array_other by (unfold fresh in F; lia). now apply H.
  Qed.

  (* views of slices in old arrays are not affected *)
  Lemma view_agree (h0 h : heap) (s : slc) : agree h0 h -> arr s < length h0 -> view h s = view h0 s.
  Proof. intros [_ H] Hs. unfold view. now rewrite H. Qed.

  Lemma write_length (l : list A) pos (xs : list A) : pos + length xs <= length l -> length (write l pos xs) = length l.
  Proof.
    intros H. unfold write. rewrite !app_length, firstn_length, skipn_length. lia.
  Qed.

  (* append: the result reads as the old view followed by xs *)
  Lemma append_view (h : heap) (s : slc) (xs : list A) : wf_slc h s ->
    view (fst (go_append h s xs)) (snd (go_append h s xs)) = view h s ++ xs.
  Proof.
    intros [Ha [Hc Hl]]. unfold go_append. destruct (Nat.leb (slen s + length xs) (scap s)) eqn:E; cbn [fst snd].
    - apply Nat.leb_le in E. unfold view. cbn [arr soff slen].
      rewrite set_array_same by assumption.
      set (a := array h (arr s)) in *. unfold write.
      assert (La : soff s + slen s <= length a) by lia.
      (* skip soff, take slen + |xs| *)
      rewrite skipn_app.
      rewrite firstn_length, Nat.min_l by lia.
      replace (soff s - (soff s + slen s)) with 0 by lia. cbn [skipn].
      rewrite skipn_firstn_comm.
      replace (soff s + slen s - soff s) with (slen s) by lia.
      rewrite firstn_app, firstn_length, skipn_length.
      rewrite Nat.min_l by lia.
      rewrite (firstn_all2 (firstn (slen s) (skipn (soff s) a)))
        by (rewrite firstn_length, skipn_length; lia).
      f_equal.
      replace (slen s + length xs - slen s) with (length xs) by lia.
      rewrite firstn_app, firstn_all, Nat.sub_diag. cbn [firstn]. now rewrite app_nil_r.
    - unfold view. cbn [arr soff slen]. rewrite array_app_new. cbn [skipn].
      rewrite firstn_all2; [reflexivity|]. rewrite !app_length.
      unfold GoSlice.view. rewrite firstn_length, skipn_length. fold (array h (arr s)). lia.
  Qed.

  Lemma append_wf (h : heap) (s : slc) (xs : list A) : wf_slc h s ->
    wf_slc (fst (go_append h s xs)) (snd (go_append h s xs)).
  Proof.
    intros [Ha [Hc Hl]]. unfold go_append. destruct (Nat.leb (slen s + length xs) (scap s)) eqn:E; cbn [fst snd].
    - apply Nat.leb_le in E. unfold wf_slc. cbn [arr soff slen scap].
      rewrite set_array_length, set_array_same by assumption.
      rewrite write_length by lia. repeat split; lia.
    - apply Nat.leb_gt in E. unfold wf_slc. cbn [arr soff slen scap].
      rewrite app_length, array_app_new, app_length. cbn [length].
      unfold view. rewrite firstn_length, skipn_length. fold (array h (arr s)). repeat split; lia.
  Qed.

  Lemma make_wf (h : heap) len cap : len <= cap -> wf_slc (fst (go_make dflt h len cap)) (snd (go_make dflt h len cap)).
  Proof.
    intros H. cbn. unfold wf_slc. cbn [arr soff slen scap].
    rewrite app_length, array_app_new, repeat_length. cbn. repeat split; lia.
  Qed.

  Lemma make_view0 (h : heap) cap : view (fst (go_make dflt h 0 cap)) (snd (go_make dflt h 0 cap)) = [].
  Proof. reflexivity. Qed.

  Lemma subslice_view_prefix (h : heap) (s : slc) n : n <= slen s -> view h (subslice s 0 n) = firstn n (view h s).
  Proof.
    intros H. unfold view, subslice. cbn [arr soff slen]. rewrite Nat.add_0_r, Nat.sub_0_r.
    rewrite firstn_firstn. f_equal. lia.
  Qed.

  Lemma subslice_view_suffix (h : heap) (s : slc) n : n <= slen s -> view h (subslice s n (slen s)) = skipn n (view h s).
  Proof.
    intros H. unfold view, subslice. cbn [arr soff slen].
    rewrite <- (skipn_skipn n (soff s)). now rewrite skipn_firstn_comm.
  Qed.

  (* ---------------- Insert / Embed: the bytes *)
  Theorem ins_new_frame (h : heap) (p : slc) pos (q : slc) :
    wf_slc h p -> wf_slc h q -> pos <= slen p ->
    let '(h', r) := ins_new dflt h p pos q in
    agree h h' /\
    view h' r = firstn pos (view h p) ++ view h q ++ skipn pos (view h p).
  Proof.
    intros Wp Wq Hpos. unfold ins_new.
    pose proof (agree_make h 0 (slen p + slen q)) as A1.
    pose proof (make_wf h 0 (slen p + slen q) ltac:(lia)) as W1.
    destruct (go_make dflt h 0 (slen p + slen q)) as [h1 r1] eqn:E1. cbn [fst snd] in *.
    assert (F1 : fresh h r1) by (inversion E1; subst; unfold fresh; cbn; lia).
    assert (V1 : view h1 r1 = []) by (inversion E1; subst; reflexivity).
    set (x1 := view h1 (subslice p 0 pos)).
    pose proof (agree_append h h1 r1 x1 A1 F1) as [A2 F2].
    pose proof (append_view h1 r1 x1 W1) as V2. pose proof (append_wf h1 r1 x1 W1) as W2.
    destruct (go_append h1 r1 x1) as [h2 r2]. cbn [fst snd] in *.
    set (x2 := view h2 q).
    pose proof (agree_append h h2 r2 x2 A2 F2) as [A3 F3].
    pose proof (append_view h2 r2 x2 W2) as V3. pose proof (append_wf h2 r2 x2 W2) as W3.
    destruct (go_append h2 r2 x2) as [h3 r3]. cbn [fst snd] in *.
    set (x3 := view h3 (subslice p pos (slen p))).
    pose proof (agree_append h h3 r3 x3 A3 F3) as [A4 F4].
    pose proof (append_view h3 r3 x3 W3) as V4.
    destruct (go_append h3 r3 x3) as [h4 r4]. cbn [fst snd] in *.
    split; [exact A4|].
    rewrite V4, V3, V2, V1. cbn [app]. rewrite <- app_assoc.
    destruct Wp as [Hp _]. destruct Wq as [Hq _].
    unfold x1, x2, x3.
    rewrite (view_agree h h1 (subslice p 0 pos) A1) by exact Hp.
    rewrite (view_agree h h2 q A2) by exact Hq.
    rewrite (view_agree h h3 (subslice p pos (slen p)) A3) by exact Hp.
    now rewrite subslice_view_prefix, subslice_view_suffix by lia.
  Qed.

  (* ---------------- Rotate *)
  Theorem rot_new_frame (h : heap) (q : slc) m : wf_slc h q -> m <= slen q ->
    let '(h', r) := rot_new dflt h q m in
    agree h h' /\ view h' r = skipn m (view h q) ++ firstn m (view h q).
  Proof.
    intros Wq Hm. unfold rot_new.
    pose proof (agree_make h 0 (slen q)) as A1.
    pose proof (make_wf h 0 (slen q) ltac:(lia)) as W1.
    destruct (go_make dflt h 0 (slen q)) as [h1 r1] eqn:E1. cbn [fst snd] in *.
    assert (F1 : fresh h r1) by (inversion E1; subst; unfold fresh; cbn; lia).
    assert (V1 : view h1 r1 = []) by (inversion E1; subst; reflexivity).
    set (x1 := view h1 (subslice q m (slen q))).
    pose proof (agree_append h h1 r1 x1 A1 F1) as [A2 F2].
    pose proof (append_view h1 r1 x1 W1) as V2. pose proof (append_wf h1 r1 x1 W1) as W2.
    destruct (go_append h1 r1 x1) as [h2 r2]. cbn [fst snd] in *.
    set (x2 := view h2 (subslice q 0 m)).
    pose proof (agree_append h h2 r2 x2 A2 F2) as [A3 F3].
    pose proof (append_view h2 r2 x2 W2) as V3.
    destruct (go_append h2 r2 x2) as [h3 r3]. cbn [fst snd] in *.
    split; [exact A3|]. rewrite V3, V2, V1. cbn [app].
    destruct Wq as [Hq _]. unfold x1, x2.
    rewrite (view_agree h h1 _ A1), (view_agree h h2 _ A2) by exact Hq.
    now rewrite subslice_view_prefix, subslice_view_suffix by lia.
  Qed.

  (* ---------------- Concat (residues) *)
  Theorem cat_new_frame (h : heap) (a b : slc) : wf_slc h a -> wf_slc h b ->
    let '(h', r) := cat_new h a b in
    agree h h' /\ view h' r = view h a ++ view h b.
  Proof.
    intros Wa Wb. unfold cat_new.
    (* append onto the nil slice: capacity 0, so a new array *)
    assert (E : go_append h (mkslc (length h) 0 0 0) (view h a) =
                match view h a with
                | [] => (set_array h (length h) (write (array h (length h)) 0 []), mkslc (length h) 0 0 0)
                | _ => (h ++ [view h a], mkslc (length h) 0 (length (view h a)) (length (view h a)))
                end).
    { unfold go_append. cbn [slen scap arr soff]. destruct (view h a) eqn:Ev; cbn [length Nat.leb Nat.add].
      - reflexivity.
      - unfold view at 1. cbn [slen soff arr firstn app]. reflexivity. }
    rewrite E. clear E.
    destruct (view h a) as [|x t] eqn:Ev.
    - (* empty head: the nil slice stays nil; appending b allocates *)
      assert (Hs : set_array h (length h) (write (array h (length h)) 0 []) = h).
      { clear. induction h as [|y u IH]; [reflexivity|]. cbn [length set_array]. f_equal.
        unfold array in *. cbn [nth]. exact IH. }
      rewrite Hs. unfold go_append. cbn [slen scap arr soff Nat.add].
      destruct (view h b) as [|y u] eqn:Eb; cbn [length Nat.leb].
      + rewrite Hs. split; [apply agree_refl|]. reflexivity.
      + split; [split; [rewrite app_length; cbn; lia | intros id Hid; now apply array_app_old]|].
        unfold view at 1. cbn [slen soff arr]. rewrite array_app_new. cbn [skipn].
        unfold view at 1. cbn [slen soff arr firstn]. cbn [app].
        f_equal. apply firstn_all.
    - set (h1 := h ++ [x :: t]). set (r1 := mkslc (length h) 0 (length (x :: t)) (length (x :: t))).
      assert (A1 : agree h h1) by (split; [unfold h1; rewrite app_length; cbn; lia | intros id Hid; now apply array_app_old]).
      assert (F1 : fresh h r1) by (unfold fresh, r1; cbn; lia).
      assert (W1 : wf_slc h1 r1).
      { unfold wf_slc, r1, h1. cbn [arr soff slen scap]. rewrite app_length, array_app_new. cbn [length]. repeat split; lia. }
      assert (V1 : view h1 r1 = x :: t).
      { unfold view, r1, h1. cbn [arr soff slen]. rewrite array_app_new. cbn [skipn]. apply firstn_all. }
      pose proof (agree_append h h1 r1 (view h1 b) A1 F1) as [A2 F2].
      pose proof (append_view h1 r1 (view h1 b) W1) as V2.
      destruct (go_append h1 r1 (view h1 b)) as [h2 r2]. cbn [fst snd] in *.
      split; [exact A2|]. rewrite V2, V1. f_equal.
      destruct Wb as [Hb _]. now apply view_agree.
  Qed.
  (* ---------------- FeatureSlice.Insert and Delete's table: nothing the
     caller can reach is written *)
  Theorem fsins_new_frame (h : heap) (ff : slc) i (f : A) :
    agree h (fst (fsins_new dflt h ff i f)).
  Proof.
    unfold fsins_new.
    pose proof (agree_make h (slen ff + 1) (slen ff + 1)) as A1.
    destruct (go_make dflt h (slen ff + 1) (slen ff + 1)) as [h1 gg] eqn:E1. cbn [fst snd] in *.
    assert (F1 : fresh h gg) by (inversion E1; subst; unfold fresh; cbn; lia).
    cbn [fst].
    apply agree_copy; [|unfold fresh, subslice in *; cbn [arr]; exact F1].
    apply agree_copy; [|unfold fresh, subslice in *; cbn [arr]; exact F1].
    apply agree_copy; [exact A1 | exact F1].
  Qed.

  Theorem del_table_new_frame (h : heap) (tab : slc) (g : A -> A) :
    agree h (fst (del_table_new dflt h tab g)).
  Proof.
    unfold del_table_new.
    pose proof (agree_make h (slen tab) (slen tab)) as A1.
    destruct (go_make dflt h (slen tab) (slen tab)) as [h1 ff] eqn:E1. cbn [fst snd] in *.
    assert (F1 : fresh h ff) by (inversion E1; subst; unfold fresh; cbn; lia).
    cbn [fst]. apply agree_copy; [|exact F1]. apply agree_copy; [exact A1 | exact F1].
  Qed.
End SliceProofs.
