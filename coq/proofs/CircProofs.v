(* CircProofs.v — C09: InvertCircular.  The regions it returns cover, together
   with the minimized input, every position of [0,n) exactly once; when the
   input touches neither end, the gap across the origin is ONE region reading
   from the last gap into the first. *)
From Coq Require Import List ZArith Lia Bool.
From GTS Require Import Base Arith Loc Region BaseLemmas LocProofs RegionProofs.
Import ListNotations.
Open Scope Z_scope.

(* how many of the (nested) forward segments of a region cover x *)
Fixpoint rcnt (r : region) (x : Z) : nat :=
  match r with
  | Seg h t => if covb (h, t) x then 1%nat else O
  | Regs rs => (fix go (rs : list region) : nat := match rs with [] => O | y :: t => (rcnt y x + go t)%nat end) rs
  end.
Definition rcountL (rs : list region) (x : Z) : nat := fold_right (fun r acc => (rcnt r x + acc)%nat) O rs.

Lemma rcnt_regs rs x : rcnt (Regs rs) x = rcountL rs x.
Proof. induction rs as [|y t IH]; [reflexivity|]. unfold rcountL. cbn [fold_right]. fold (rcountL t x). rewrite <- IH. reflexivity. Qed.

Lemma rcountL_app a b x : rcountL (a ++ b) x = (rcountL a x + rcountL b x)%nat.
Proof. induction a as [|y t IH]; [reflexivity|]. cbn [app]. unfold rcountL in *. cbn [fold_right]. rewrite IH. lia. Qed.

Definition seg_region (s : Z * Z) : region := Seg (fst s) (snd s).

Lemma rcountL_segs inv x : rcountL (map seg_region inv) x = countc inv x.
Proof.
  induction inv as [|s t IH]; [reflexivity|]. cbn [map rcountL fold_right]. rewrite countc_cons. fold (rcountL (map seg_region t) x).
  rewrite IH. unfold seg_region. cbn [rcnt]. destruct s as [h tl]. cbn [fst snd]. destruct (covb (h, tl) x); reflexivity.
Qed.

(* the inverted segments of a non-empty minimized list: the first gap starts at
   `start` (if there is one), the last gap ends at n (if there is one) *)
Lemma invert_last ss : forall start n, ss <> [] -> snd (last ss (0, 0)) <> n ->
  exists init, invert_segments ss start n = init ++ [(snd (last ss (0, 0)), n)].
Proof.
  induction ss as [|s t IH]; intros start n Hne Hl; [contradiction|].
  cbn [invert_segments]. destruct t as [|s2 t'].
  - cbn [last] in Hl. cbn [invert_segments last].
    replace (snd s =? n) with false by (symmetry; now apply Z.eqb_neq). cbn [negb].
    eexists. reflexivity.
  - destruct (IH (snd s) n ltac:(discriminate) Hl) as (init & E).
    change (last (s :: s2 :: t') (0, 0)) with (last (s2 :: t') (0, 0)). rewrite E.
    eexists. rewrite app_assoc. reflexivity.
Qed.

Lemma invert_shape s0 t start n : fst s0 <> start -> snd (last (s0 :: t) (0, 0)) <> n ->
  exists mid, invert_segments (s0 :: t) start n = (start, fst s0) :: mid ++ [(snd (last (s0 :: t) (0, 0)), n)].
Proof.
  intros H0 Hl. cbn [invert_segments].
  replace (start =? fst s0) with false by (symmetry; apply Z.eqb_neq; congruence). cbn [negb app].
  destruct t as [|s2 t'].
  - cbn [last] in *. cbn [invert_segments]. replace (snd s0 =? n) with false by (symmetry; now apply Z.eqb_neq).
    exists []. reflexivity.
  - change (last (s0 :: s2 :: t') (0, 0)) with (last (s2 :: t') (0, 0)) in *.
    destruct (invert_last (s2 :: t') (snd s0) n ltac:(discriminate) Hl) as (init & ->). exists init. reflexivity.
Qed.

Lemma removelast_wrap (r0 rl : region) mid x :
  rcountL (removelast (Regs [rl; r0] :: mid ++ [rl])) x = rcountL (r0 :: mid ++ [rl]) x.
Proof.
  change (Regs [rl; r0] :: mid ++ [rl]) with ((Regs [rl; r0] :: mid) ++ [rl]).
  rewrite removelast_last. cbn [rcountL fold_right]. fold (rcountL mid x). fold (rcountL (mid ++ [rl]) x).
  rewrite rcountL_app, rcnt_regs. cbn [rcountL fold_right]. lia.
Qed.

Theorem invert_circular_partition r n : 0 <= n -> within n r ->
  exists out, invert_circular r n = Ok out /\
    forall x, 0 <= x < n -> (countc (minimize r) x + rcountL out x = 1)%nat.
Proof.
  intros Hn Hw.
  destruct (invert_linear_partition r n Hn Hw) as [Hpos Hcnt].
  unfold invert_circular, invert_linear.
  set (ss := minimize r) in *. set (inv := invert_segments ss 0 n) in *.
  assert (Hmap : map (fun s => Seg (fst s) (snd s)) inv = map seg_region inv) by reflexivity.
  rewrite Hmap.
  destruct ss as [|s0 t] eqn:Ess.
  { exists (map seg_region inv). split; [reflexivity|]. intros x Hx.
    rewrite rcountL_segs. specialize (Hcnt x Hx). rewrite countc_app in Hcnt. exact Hcnt. }
  destruct ((fst s0 =? 0) || (snd (last (s0 :: t) s0) =? n)) eqn:Etouch.
  - exists (map seg_region inv). split; [reflexivity|]. intros x Hx.
    rewrite rcountL_segs. specialize (Hcnt x Hx). rewrite countc_app in Hcnt. exact Hcnt.
  - apply orb_false_iff in Etouch as [E0 En]. apply Z.eqb_neq in E0. apply Z.eqb_neq in En.
    assert (Hlast : last (s0 :: t) s0 = last (s0 :: t) (0, 0)).
    { clear. generalize s0 at 1 3. induction t as [|y u IH]; intros d; [reflexivity|]. destruct u; [reflexivity|]. apply (IH d). }
    rewrite Hlast in En.
    destruct (invert_shape s0 t 0 n E0 En) as (init' & Einv).
    fold inv in Einv. rewrite Einv. cbn [app map].
    set (r0 := seg_region (0, fst s0)). set (rl := seg_region (snd (last (s0 :: t) (0, 0)), n)).
    rewrite map_app. cbn [map]. fold rl.
    assert (Hl : last (r0 :: map seg_region init' ++ [rl]) r0 = rl).
    { change (r0 :: map seg_region init' ++ [rl]) with ((r0 :: map seg_region init') ++ [rl]). apply last_last. }
    rewrite Hl.
    eexists. split; [reflexivity|]. intros x Hx.
    rewrite removelast_wrap. specialize (Hcnt x Hx). rewrite countc_app in Hcnt.
    replace (r0 :: map seg_region init' ++ [rl]) with (map seg_region inv) by (rewrite Einv; cbn [map]; rewrite map_app; reflexivity).
    rewrite rcountL_segs. exact Hcnt.
Qed.

(* the wrapped region reads the last gap, then the first gap: across the origin *)
Lemma wrapped_den a n b : a <= n -> 0 <= b ->
  region_den (Regs [Seg a n; Seg 0 b]) = map (fun x => (x, false)) (zrange a n ++ zrange 0 b).
Proof.
  intros H1 H2. cbn [region_den flat_map].
  replace (n <? a) with false by (symmetry; apply Z.ltb_ge; lia).
  replace (b <? 0) with false by (symmetry; apply Z.ltb_ge; lia).
  now rewrite app_nil_r, map_app.
Qed.
