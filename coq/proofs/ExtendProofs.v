(* ExtendProofs.v — Region.Resize for EVERY modifier, offsets outside the region
   included (C08: "offsets outside extend the first/last segment outward").

   eden r j is residue j of the region r continued without end in both
   directions: inside [0, len r) it is the j-th residue r denotes (eden_full);
   before 0 it continues the first segment outward, from len r on the last
   segment, each in the direction of its own strand (eden_before, eden_after).
   resize_ext: Region.Resize succeeds for every modifier and the result denotes
   exactly positions [lo, hi) of that continuation. *)
From Coq Require Import List ZArith Lia Bool.
From GTS Require Import Base Arith Loc Region BaseLemmas LocProofs RegionProofs PlansProofs ResizeProofs.
Import ListNotations.
Open Scope Z_scope.

Fixpoint eden (r : region) (j : Z) : Z * bool :=
  match r with
  | Seg h t => if t <? h then (h - 1 - j, true) else (h + j, false)
  | Regs rs =>
    (fix go (rs : list region) (j : Z) : Z * bool :=
       match rs with
       | [] => (0, false)
       | x :: t => match t with
                   | [] => eden x j
                   | _ :: _ => if j <? region_len x then eden x j else go t (j - region_len x)
                   end
       end) rs j
  end.

Fixpoint eden_list (rs : list region) (j : Z) : Z * bool :=
  match rs with
  | [] => (0, false)
  | x :: t => match t with
              | [] => eden x j
              | _ :: _ => if j <? region_len x then eden x j else eden_list t (j - region_len x)
              end
  end.

Lemma eden_regs rs j : eden (Regs rs) j = eden_list rs j.
Proof.
  cbn [eden]. revert j. induction rs as [|x t IH]; intros j; [reflexivity|].
  cbn [eden_list]. destruct t as [|y t']; [reflexivity|]. rewrite <- IH. reflexivity.
Qed.

(* every element of pre is passed by index j: it ends at or before j *)
Fixpoint passes (pre : list region) (j : Z) : Prop :=
  match pre with [] => True | y :: p => region_len y <= j /\ passes p (j - region_len y) end.

(* the walk of Regions.Resize passes an element when it is strictly shorter than the bound *)
Fixpoint spasses (pre : list region) (b : Z) : Prop :=
  match pre with [] => True | y :: p => region_len y < b /\ spasses p (b - region_len y) end.

Lemma spasses_passes pre : forall b j, b <= j -> spasses pre b -> passes pre j.
Proof.
  induction pre as [|y p IH]; intros b j Hj H; [exact I|]. destruct H as [H1 H2].
  split; [lia|]. apply (IH (b - region_len y)); [lia|exact H2].
Qed.

Lemma sum_passes pre : forall j, rwf_all pre -> sumlen pre <= j -> passes pre j.
Proof.
  induction pre as [|y p IH]; intros j Hw Hj; [exact I|]. destruct Hw as [Hy Hp].
  rewrite sumlen_cons in Hj. destruct (den_len y Hy) as [_ Py]. destruct (den_len_all p Hp) as [_ Pp].
  split; [lia|]. apply IH; [exact Hp|lia].
Qed.

Lemma spasses_app a : forall b c, spasses (a ++ c) b <-> spasses a b /\ spasses c (b - sumlen a).
Proof.
  induction a as [|y a IH]; intros b c; cbn [app spasses].
  - change (sumlen []) with 0. rewrite Z.sub_0_r. tauto.
  - rewrite IH, sumlen_cons. replace (b - region_len y - sumlen a) with (b - (region_len y + sumlen a)) by lia. tauto.
Qed.

Lemma spasses_pos p : forall b, 0 < b -> spasses p b -> 0 < b - sumlen p.
Proof.
  induction p as [|y p IH]; intros b Hb H.
  - change (sumlen []) with 0. lia.
  - destruct H as [H1 H2]. rewrite sumlen_cons. specialize (IH (b - region_len y) ltac:(lia) H2). lia.
Qed.

Lemma eden_at pre : forall x post j, passes pre j ->
  (post = [] \/ j - sumlen pre < region_len x) ->
  eden_list (pre ++ x :: post) j = eden x (j - sumlen pre).
Proof.
  induction pre as [|y p IH]; intros x post j Hp Hq.
  - change (sumlen []) with 0 in *. rewrite Z.sub_0_r in *. cbn [app eden_list].
    destruct post as [|z post']; [reflexivity|].
    destruct Hq as [Hq|Hq]; [discriminate|]. replace (j <? region_len x) with true by (symmetry; apply Z.ltb_lt; lia).
    reflexivity.
  - destruct Hp as [H1 H2]. cbn [app eden_list].
    destruct (p ++ x :: post) as [|z rest] eqn:E; [destruct p; discriminate|].
    replace (j <? region_len y) with false by (symmetry; apply Z.ltb_ge; lia).
    rewrite <- E. rewrite IH; [|exact H2|rewrite sumlen_cons in Hq; destruct Hq as [Hq|Hq]; [left; exact Hq|right; lia]].
    rewrite sumlen_cons. f_equal. lia.
Qed.

(* ---------- ranges *)

Lemma map_zrange_shift {A} (f : Z -> A) c s e :
  map (fun j => f (j - c)) (zrange s e) = map f (zrange (s - c) (e - c)).
Proof.
  assert (H : map (fun x => x - c) (zrange s e) = zrange (s + - c) (e + - c))
    by (apply zrange_map_add; intros; lia).
  replace (s - c) with (s + - c) by lia. replace (e - c) with (e + - c) by lia.
  rewrite <- H, map_map. reflexivity.
Qed.

Lemma in_zrange_n j : forall n s0, In j (zrange_n s0 n) -> s0 <= j < s0 + Z.of_nat n.
Proof.
  induction n as [|n IH]; intros s0 Hin; cbn [zrange_n In] in Hin; [contradiction|].
  destruct Hin as [<-|Hin]; [lia|]. specialize (IH _ Hin). lia.
Qed.

Lemma map_ext_zrange {A} (f g : Z -> A) s e :
  (forall j, s <= j < e -> f j = g j) -> map f (zrange s e) = map g (zrange s e).
Proof.
  intros H. apply map_ext_in. intros j Hj. apply H.
  unfold zrange in Hj. apply in_zrange_n in Hj.
  destruct (Z.le_gt_cases (e - s) 0); lia.
Qed.

(* a segment: every index, inside or outside *)
Lemma eden_seg_den h t lo hi : lo <= hi ->
  region_den (Seg (fst (if t <? h then (h - lo, h - hi) else (h + lo, h + hi)))
                  (snd (if t <? h then (h - lo, h - hi) else (h + lo, h + hi))))
  = map (eden (Seg h t)) (zrange lo hi).
Proof.
  intros Hle. cbn [eden]. destruct (Z.ltb_spec t h) as [Hlt|Hge]; cbn [fst snd region_den].
  - destruct (Z.ltb_spec (h - hi) (h - lo)) as [H1|H1].
    + rewrite <- map_rev.
      rewrite <- (zrange_rev_mirror h lo hi). rewrite rev_involutive, map_map. reflexivity.
    + assert (hi = lo) by lia. subst hi. rewrite !zrange_empty by lia. reflexivity.
  - replace (h + hi <? h + lo) with false by (symmetry; apply Z.ltb_ge; lia).
    assert (H : map (fun x => h + x) (zrange lo hi) = zrange (lo + h) (hi + h))
      by (apply zrange_map_add; intros; lia).
    replace (h + lo) with (lo + h) by lia. replace (h + hi) with (hi + h) by lia.
    rewrite <- H, map_map. reflexivity.
Qed.

Lemma seg_resize_ext m h t : rwf (Seg h t) ->
  region_den (Seg (fst (mod_apply m h t)) (snd (mod_apply m h t)))
  = map (eden (Seg h t)) (zrange (fst (mod_bounds m (region_len (Seg h t)))) (snd (mod_bounds m (region_len (Seg h t))))).
Proof.
  intros Hw. cbn [rwf] in Hw. cbn [region_len]. rewrite abs_spec by lia.
  pose proof (eden_seg_den h t) as G.
  destruct (Z.ltb_spec t h) as [Hlt|Hge].
  - rewrite Z.abs_neq by lia. replace (- (t - h)) with (h - t) by lia.
    rewrite mod_apply_back by lia. cbn [fst snd] in *. apply G, mod_bounds_le.
  - rewrite Z.abs_eq by lia. rewrite mod_apply_fwd by lia. cbn [fst snd] in *. apply G, mod_bounds_le.
Qed.

(* ---------- the walk, without any bound on b *)

Lemma walk_gen rs : forall k b, rs <> [] ->
  exists pre x post, rs = pre ++ x :: post /\
    resize_walk rs k b = (k + zlen pre, b - sumlen pre) /\
    spasses pre b /\ (post = [] \/ b - sumlen pre <= region_len x).
Proof.
  induction rs as [|r t IH]; intros k b Hne; [contradiction|].
  destruct t as [|y t'].
  - exists [], r, []. cbn [app resize_walk]. change (sumlen []) with 0.
    split; [reflexivity|]. split; [f_equal; unfold zlen; cbn [length]; lia|]. split; [exact I|left; reflexivity].
  - change (resize_walk (r :: y :: t') k b) with
      (if region_len r <? b then resize_walk (y :: t') (k + 1) (b - region_len r) else (k, b)).
    destruct (Z.ltb_spec (region_len r) b) as [Hlt|Hge].
    + destruct (IH (k + 1) (b - region_len r) ltac:(discriminate)) as (pre & x & post & E & Ew & H1 & H2).
      exists (r :: pre), x, post. rewrite Ew, E. cbn [app]. rewrite sumlen_cons.
      split; [reflexivity|]. split; [f_equal; [unfold zlen; cbn [length]; lia|lia]|].
      split; [split; assumption|]. destruct H2 as [H2|H2]; [left; exact H2|right; lia].
    + exists [], r, (y :: t'). cbn [app]. change (sumlen []) with 0.
      split; [reflexivity|]. split; [f_equal; unfold zlen; cbn [length]; lia|]. split; [exact I|right; lia].
Qed.

(* ---------- a whole region is positions [0, len) of its continuation *)

Lemma eden_list_whole rs : rwf_all rs ->
  (forall x, In x rs -> rwf x -> map (eden x) (zrange 0 (region_len x)) = region_den x) ->
  forall pre, rwf_all pre ->
  map (eden_list (pre ++ rs)) (zrange (sumlen pre) (sumlen pre + sumlen rs)) = region_den (Regs rs).
Proof.
  induction rs as [|x t IH]; intros Hw Hx pre Hpre.
  - change (sumlen []) with 0. rewrite Z.add_0_r, zrange_empty by lia. reflexivity.
  - destruct Hw as [Hwx Hwt]. destruct (den_len x Hwx) as [_ Px]. destruct (den_len_all t Hwt) as [_ Pt].
    rewrite sumlen_cons, den_regs_cons.
    rewrite (zrange_split (sumlen pre) (sumlen pre + region_len x)) by lia. rewrite map_app. f_equal.
    + rewrite (map_ext_zrange _ (fun j => eden x (j - sumlen pre))).
      * rewrite map_zrange_shift. replace (sumlen pre - sumlen pre) with 0 by lia.
        replace (sumlen pre + region_len x - sumlen pre) with (region_len x) by lia.
        apply Hx; [left; reflexivity|exact Hwx].
      * intros j Hj. apply eden_at; [apply sum_passes; [exact Hpre|lia]|right; lia].
    + replace (pre ++ x :: t) with ((pre ++ [x]) ++ t) by (rewrite <- app_assoc; reflexivity).
      specialize (IH Hwt (fun y Hy => Hx y (or_intror Hy)) (pre ++ [x])).
      rewrite sumlen_app, sumlen_cons in IH. change (sumlen []) with 0 in IH.
      replace (sumlen pre + (region_len x + 0)) with (sumlen pre + region_len x) in IH by lia.
      replace (sumlen pre + (region_len x + sumlen t)) with (sumlen pre + region_len x + sumlen t) by lia.
      apply IH. apply rwf_all_app. split; [exact Hpre|]. split; [exact Hwx|exact I].
Qed.

Lemma eden_full r : rwf r -> map (eden r) (zrange 0 (region_len r)) = region_den r.
Proof.
  induction r as [h t|rs IH] using region_ind'; intros Hw.
  - pose proof (seg_resize_ext (MHeadTail 0 0) h t Hw) as G.
    assert (Hb : mod_bounds (MHeadTail 0 0) (region_len (Seg h t)) = (0, region_len (Seg h t))).
    { destruct (den_len _ Hw) as [_ P]. unfold mod_bounds. f_equal; lia. }
    rewrite Hb in G. cbn [fst snd] in G. rewrite <- G. clear G Hb.
    cbn [rwf] in Hw. destruct (Z.ltb_spec t h).
    + rewrite mod_apply_back by lia. unfold mod_bounds. cbn [fst snd].
      match goal with |- region_den (Seg ?a ?b) = _ => replace a with h by lia; replace b with t by lia end. reflexivity.
    + rewrite mod_apply_fwd by lia. unfold mod_bounds. cbn [fst snd].
      match goal with |- region_den (Seg ?a ?b) = _ => replace a with h by lia; replace b with t by lia end. reflexivity.
  - apply rwf_regs in Hw. destruct Hw as [_ Hw]. rewrite region_len_regs.
    rewrite (map_ext _ (eden_list rs)) by (intros; apply eden_regs).
    pose proof (eden_list_whole rs Hw) as G. specialize (G (fun x Hin Hx => proj1 (Forall_forall _ _) IH x Hin Hx) [] I).
    change (sumlen []) with 0 in G. cbn [app] in G. rewrite Z.add_0_l in G. exact G.
Qed.

(* inside the region the continuation is the region: the slice of C08_resize_slice *)
Lemma eden_inside r lo hi : rwf r -> 0 <= lo -> hi <= region_len r ->
  map (eden r) (zrange lo hi) = lslice lo hi (region_den r).
Proof.
  intros Hw Hlo Hhi. rewrite <- (eden_full r Hw). unfold lslice. rewrite skipn_map, firstn_map. f_equal.
  destruct (Z.le_gt_cases hi lo) as [Hle|Hgt].
  - rewrite zrange_empty by lia. replace (Z.to_nat (hi - lo)) with O by lia. reflexivity.
  - unfold zrange. rewrite Z.sub_0_r. rewrite skipn_zrange_n, firstn_zrange_n.
    rewrite Z2Nat.id by lia. rewrite Z.add_0_l. f_equal. lia.
Qed.

(* before the region: the first segment continued outward *)
Fixpoint first_seg (r : region) : Z * Z :=
  match r with
  | Seg h t => (h, t)
  | Regs rs => match rs with x :: _ => first_seg x | [] => (0, 0) end
  end.

Fixpoint last_seg (r : region) : Z * Z :=
  match r with
  | Seg h t => (h, t)
  | Regs rs => (fix last (rs : list region) : Z * Z :=
                  match rs with [] => (0, 0) | x :: t => match t with [] => last_seg x | _ :: _ => last t end end) rs
  end.

Lemma eden_before r : rwf r -> forall j, j < 0 ->
  eden r j = let '(h, t) := first_seg r in if t <? h then (h - 1 - j, true) else (h + j, false).
Proof.
  induction r as [h t|rs IH] using region_ind'; intros Hw j Hj.
  - reflexivity.
  - apply rwf_regs in Hw. destruct Hw as [Hne Hw]. rewrite eden_regs.
    destruct rs as [|x rest]; [contradiction|]. destruct Hw as [Hx _].
    cbn [first_seg eden_list]. inversion IH as [|? ? IHx _]; subst.
    destruct rest as [|y rest']; [apply IHx; assumption|].
    destruct (den_len x Hx) as [_ Px].
    replace (j <? region_len x) with true by (symmetry; apply Z.ltb_lt; lia). apply IHx; assumption.
Qed.

Lemma last_seg_regs x t : t <> [] -> last_seg (Regs (x :: t)) = last_seg (Regs t).
Proof. destruct t as [|y t']; [contradiction|reflexivity]. Qed.

Lemma eden_after r : rwf r -> forall j, region_len r <= j ->
  eden r j = let '(h, t) := last_seg r in
             if t <? h then (t - 1 - (j - region_len r), true) else (t + (j - region_len r), false).
Proof.
  induction r as [h t|rs IH] using region_ind'; intros Hw j Hj.
  - cbn [rwf] in Hw. cbn [eden last_seg region_len] in *. rewrite abs_spec in * by lia.
    destruct (Z.ltb_spec t h); f_equal; lia.
  - apply (proj1 (rwf_regs rs)) in Hw. destruct Hw as [Hne Hw]. rewrite eden_regs. rewrite region_len_regs in *.
    revert j Hj. induction IH as [|x rest IHx _ IHrest]; intros j Hj; [contradiction|].
    destruct Hw as [Hx Hrest]. destruct (den_len x Hx) as [_ Px]. rewrite sumlen_cons in *.
    destruct rest as [|y rest'].
    + cbn [eden_list]. change (sumlen []) with 0 in *. rewrite Z.add_0_r in *.
      change (last_seg (Regs [x])) with (last_seg x). apply IHx; assumption.
    + destruct (den_len_all _ Hrest) as [_ Pr].
      change (eden_list (x :: y :: rest') j) with
        (if j <? region_len x then eden x j else eden_list (y :: rest') (j - region_len x)).
      replace (j <? region_len x) with false by (symmetry; apply Z.ltb_ge; lia).
      rewrite last_seg_regs by discriminate.
      rewrite (IHrest ltac:(discriminate) Hrest (j - region_len x)) by lia.
      destruct (last_seg (Regs (y :: rest'))) as [h t]. destruct (t <? h); f_equal; lia.
Qed.

(* ---------- Regions.Resize, any bounds *)

Definition resize_ext_ok (f : nat) : Prop := forall r m, (region_depth r <= f)%nat -> rwf r ->
  exists r', resize f r m = Ok r' /\
    region_den r' = map (eden r) (zrange (fst (mod_bounds m (region_len r))) (snd (mod_bounds m (region_len r)))).

Lemma resize_body_ext f rs lower upper : resize_ext_ok f ->
  (region_depth (Regs rs) <= S f)%nat -> rs <> [] -> rwf_all rs ->
  exists r', resize_body f rs lower upper = Ok r' /\
    region_den r' = map (eden_list rs) (zrange lower (Z.max lower upper)).
Proof.
  intros IHf Hd Hne Hw.
  destruct (walk_gen rs 0 lower Hne) as (pre1 & x1 & post1 & E1 & W1 & S1 & C1).
  destruct (walk_gen rs 0 upper Hne) as (pre2 & x2 & post2 & E2 & W2 & S2 & C2).
  unfold resize_body. rewrite W1, W2. cbv zeta. rewrite !Z.add_0_l.
  set (l' := lower - sumlen pre1) in *. set (u' := upper - sumlen pre2) in *.
  assert (Hw1 := Hw). rewrite E1 in Hw1. apply rwf_all_app in Hw1. destruct Hw1 as [Hwp1 [Hwx1 Hwq1]].
  assert (Hw2 := Hw). rewrite E2 in Hw2. apply rwf_all_app in Hw2. destruct Hw2 as [Hwp2 [Hwx2 Hwq2]].
  assert (Hd1 : (region_depth x1 <= f)%nat) by (apply (depth_child pre1 x1 post1); rewrite <- E1; exact Hd).
  assert (Hd2 : (region_depth x2 <= f)%nat) by (apply (depth_child pre2 x2 post2); rewrite <- E2; exact Hd).
  destruct (den_len x1 Hwx1) as [Ld1 Lp1]. destruct (den_len x2 Hwx2) as [Ld2 Lp2].
  destruct (den_len_all pre1 Hwp1) as [_ Ppre1]. destruct (den_len_all pre2 Hwp2) as [_ Ppre2].
  unfold go_Compare.
  destruct (Z.ltb_spec (zlen pre1) (zlen pre2)) as [Hlt|Hge].
  - (* left < right *)
    change (-1 =? 1) with false. change (-1 =? 0) with false. cbv iota.
    assert (E12 : pre1 ++ x1 :: post1 = pre2 ++ x2 :: post2) by (rewrite <- E1; exact E2).
    destruct (app_split_lt pre1 x1 post1 pre2 x2 post2 E12 ltac:(unfold zlen in Hlt; lia)) as (mid & -> & ->).
    apply rwf_all_app in Hwp2. destruct Hwp2 as [_ [_ Hwmid]].
    destruct (den_len_all mid Hwmid) as [_ Pmid].
    apply spasses_app in S2. destruct S2 as [S2a [S2x S2m]].
    rewrite sumlen_app, sumlen_cons in *.
    assert (Eu : u' = upper - (sumlen pre1 + (region_len x1 + sumlen mid)))
      by (subst u'; rewrite sumlen_app, sumlen_cons; reflexivity).
    clearbody u'.
    assert (Hl1 : l' <= region_len x1) by (destruct C1 as [C1|C1]; [destruct mid; discriminate|exact C1]).
    assert (Hlu : lower < upper) by (subst l'; lia).
    assert (Hu0 : 0 < u').
    { pose proof (spasses_pos mid (upper - sumlen pre1 - region_len x1) ltac:(lia) S2m). lia. }
    rewrite Z.max_r by lia.
    destruct (IHf x1 (MHeadTail l' 0) Hd1 Hwx1) as (xl' & Rl & Dl).
    destruct (IHf x2 (MHeadHead 0 u') Hd2 Hwx2) as (xr' & Rr & Dr).
    rewrite E1, index_mid. cbn [obind]. rewrite Rl. cbn [obind].
    rewrite replace_nth_mid.
    replace (pre1 ++ xl' :: mid ++ x2 :: post2) with ((pre1 ++ xl' :: mid) ++ x2 :: post2)
      by (rewrite <- app_assoc; reflexivity).
    replace (zlen (pre1 ++ x1 :: mid)) with (zlen (pre1 ++ xl' :: mid))
      by (rewrite !zlen_app; unfold zlen; cbn [length]; reflexivity).
    rewrite index_mid. cbn [obind]. rewrite Rr. cbn [obind]. rewrite replace_nth_mid.
    replace ((pre1 ++ xl' :: mid) ++ xr' :: post2) with (pre1 ++ (xl' :: mid ++ [xr']) ++ post2)
      by (rewrite <- !app_assoc; cbn [app]; rewrite <- app_assoc; reflexivity).
    replace (zlen (pre1 ++ xl' :: mid) + 1) with (zlen pre1 + zlen (xl' :: mid ++ [xr']))
      by (rewrite !zlen_app; unfold zlen; cbn [length]; rewrite app_length; cbn [length]; lia).
    rewrite slice_mid. cbn [obind]. eexists; split; [reflexivity|].
    rewrite den_regs_cons, den_regs_app, den_regs_cons. change (region_den (Regs [])) with (@nil (Z * bool)).
    rewrite app_nil_r, Dl, Dr. unfold mod_bounds. cbn [fst snd].
    rewrite Z.max_r by lia. rewrite Z.add_0_r. rewrite (Z.max_r 0 u') by lia.
    set (a := sumlen pre1 + region_len x1). set (b := a + sumlen mid).
    rewrite (zrange_split lower a upper) by (subst a l'; lia).
    rewrite (zrange_split a b upper) by (subst b a u'; lia).
    rewrite !map_app. f_equal; [|f_equal].
    + (* the left element, from l' to its end *)
      symmetry. rewrite (map_ext_zrange (eden_list _) (fun j => eden x1 (j - sumlen pre1))).
      * rewrite map_zrange_shift. subst a l'. f_equal. f_equal. lia.
      * intros j Hj. apply eden_at; [apply (spasses_passes _ lower); [lia|exact S1]|right; subst a; lia].
    + (* the elements in between, whole *)
      symmetry.
      replace (pre1 ++ x1 :: mid ++ x2 :: post2) with ((pre1 ++ [x1]) ++ mid ++ x2 :: post2)
        by (rewrite <- app_assoc; reflexivity).
      (* cut the range of mid out of the whole tail *)
      assert (Hmid : forall pre0, rwf_all pre0 ->
                map (eden_list (pre0 ++ mid ++ x2 :: post2)) (zrange (sumlen pre0) (sumlen pre0 + sumlen mid))
                = region_den (Regs mid)).
      { clear - Hwmid Hwx2 Hwq2. induction mid as [|y mid' IHm]; intros pre0 Hp0.
        - change (sumlen []) with 0. rewrite Z.add_0_r, zrange_empty by lia. reflexivity.
        - destruct Hwmid as [Hy Hm']. destruct (den_len y Hy) as [_ Py]. destruct (den_len_all mid' Hm') as [_ Pm].
          rewrite sumlen_cons, den_regs_cons.
          rewrite (zrange_split (sumlen pre0) (sumlen pre0 + region_len y)) by lia. rewrite map_app. f_equal.
          + cbn [app]. rewrite (map_ext_zrange _ (fun j => eden y (j - sumlen pre0))).
            * rewrite map_zrange_shift. replace (sumlen pre0 - sumlen pre0) with 0 by lia.
              replace (sumlen pre0 + region_len y - sumlen pre0) with (region_len y) by lia.
              apply eden_full, Hy.
            * intros j Hj. apply eden_at; [apply sum_passes; [exact Hp0|lia]|right; lia].
          + cbn [app]. replace (pre0 ++ y :: mid' ++ x2 :: post2) with ((pre0 ++ [y]) ++ mid' ++ x2 :: post2)
              by (rewrite <- app_assoc; reflexivity).
            specialize (IHm Hm' (pre0 ++ [y])). rewrite sumlen_app, sumlen_cons in IHm. change (sumlen []) with 0 in IHm.
            replace (sumlen pre0 + (region_len y + 0)) with (sumlen pre0 + region_len y) in IHm by lia.
            replace (sumlen pre0 + (region_len y + sumlen mid')) with (sumlen pre0 + region_len y + sumlen mid') by lia.
            apply IHm. apply rwf_all_app. split; [exact Hp0|]. split; [exact Hy|exact I]. }
      specialize (Hmid (pre1 ++ [x1])). rewrite sumlen_app, sumlen_cons in Hmid. change (sumlen []) with 0 in Hmid.
      replace (sumlen pre1 + (region_len x1 + 0)) with a in Hmid by (subst a; lia).
      apply Hmid. apply rwf_all_app. split; [exact Hwp1|]. split; [exact Hwx1|exact I].
    + (* the right element, from its start to u' *)
      replace (pre1 ++ x1 :: mid ++ x2 :: post2) with ((pre1 ++ x1 :: mid) ++ x2 :: post2)
        by (rewrite <- app_assoc; reflexivity).
      symmetry. rewrite (map_ext_zrange (eden_list _) (fun j => eden x2 (j - b))).
      * rewrite map_zrange_shift. subst b a u'. f_equal. f_equal; lia.
      * intros j Hj. rewrite eden_at.
        -- rewrite sumlen_app, sumlen_cons. f_equal. subst b a. lia.
        -- apply sum_passes; [apply rwf_all_app; split; [exact Hwp1|split; [exact Hwx1|exact Hwmid]]|].
           rewrite sumlen_app, sumlen_cons. subst b a. lia.
        -- rewrite sumlen_app, sumlen_cons. destruct C2 as [C2|C2]; [left; exact C2|right; subst b a u'; lia].
  - destruct (Z.ltb_spec (zlen pre2) (zlen pre1)) as [Hgt|Heq].
    + (* left > right: nothing between the bounds *)
      change (1 =? 1) with true. cbv iota.
      assert (E12 : pre2 ++ x2 :: post2 = pre1 ++ x1 :: post1) by (rewrite <- E2; exact E1).
      destruct (app_split_lt pre2 x2 post2 pre1 x1 post1 E12 ltac:(unfold zlen in Hgt; lia)) as (mid & -> & ->).
      apply spasses_app in S1. destruct S1 as [S1a [S1x S1m]].
      assert (Hu2 : u' <= region_len x2) by (destruct C2 as [C2|C2]; [destruct mid; discriminate|exact C2]).
      assert (Hul : upper < lower) by (subst u'; lia).
      destruct (IHf x1 (MHead l') Hd1 Hwx1) as (r' & R & D).
      rewrite E1, index_mid. cbn [obind]. exists r'. split; [exact R|].
      rewrite D. unfold mod_bounds. cbn [fst snd]. rewrite Z.max_l by lia. rewrite !zrange_empty by lia. reflexivity.
    + (* left = right *)
      change (0 =? 1) with false. change (0 =? 0) with true. cbv iota.
      assert (E12 : pre1 ++ x1 :: post1 = pre2 ++ x2 :: post2) by (rewrite <- E1; exact E2).
      destruct (app_split_eq pre1 x1 post1 pre2 x2 post2 E12 ltac:(unfold zlen in *; lia)) as (<- & <- & <-).
      destruct (IHf x1 (MHeadHead l' u') Hd1 Hwx1) as (r' & R & D).
      rewrite E1, index_mid. cbn [obind]. exists r'. split; [exact R|].
      rewrite D. unfold mod_bounds. cbn [fst snd].
      rewrite (map_ext_zrange (eden_list (pre1 ++ x1 :: post1)) (fun j => eden x1 (j - sumlen pre1))).
      * rewrite map_zrange_shift. subst l' u'. f_equal. f_equal; lia.
      * intros j Hj. apply eden_at; [apply (spasses_passes _ lower); [lia|exact S1]|].
        destruct C2 as [C2|C2]; [left; exact C2|right; subst u'; lia].
Qed.

Theorem resize_ext f : resize_ext_ok f.
Proof.
  induction f as [|f IH]; intros r m Hd Hw.
  - pose proof (depth_pos r). lia.
  - destruct r as [h t|rs].
    + cbn [resize]. destruct (mod_apply m h t) as [h' t'] eqn:E. eexists; split; [reflexivity|].
      pose proof (seg_resize_ext m h t Hw) as S. rewrite E in S. exact S.
    + rewrite resize_regs. rewrite mod_bounds_lu. cbn [fst snd].
      apply rwf_regs in Hw. destruct Hw as [Hne Hw].
      destruct (resize_body_ext f rs (fst (mod_lu m (region_len (Regs rs)))) (snd (mod_lu m (region_len (Regs rs)))) IH Hd Hne Hw) as (r' & R & D).
      exists r'. split; [exact R|]. rewrite D. apply map_ext. intros j. symmetry. apply eden_regs.
Qed.

Theorem region_resize_ext r m : rwf r ->
  exists r', region_resize r m = Ok r' /\
    region_den r' = map (eden r) (zrange (fst (mod_bounds m (region_len r))) (snd (mod_bounds m (region_len r)))).
Proof. intros. apply resize_ext; [lia|assumption]. Qed.
