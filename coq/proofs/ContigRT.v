(* ContigRT.v — C01: the CONTIG field  CONTIG      join(ACCESSION:h..t)  is read
   back as (accession, h-1, t). *)
From Coq Require Import List ZArith Lia Bool.
From GTS Require Import Base Arith Pars Insdc GenBank BaseLemmas ParsLemmas FastaProofs BodyRT ParsSpec ModRT LocusRT IntRT FieldRT.
Import ListNotations.
Open Scope Z_scope.

(* untilByte(e) on  w ++ e :: post, e not in w: returns w, stops before e *)
Lemma pUntilByte_okp e w post : Forall (fun c => negb (c =? e) = true) w ->
  okp (pUntilByte e) w (e :: post) w.
Proof.
  intros Hw o en a fr k. unfold pUntilByte. rewrite (bind_ok _ _ _ tt _ (push_eq _ _ _ _ _)).
  set (F := (w ++ e :: post, o, a)).
  assert (Hn : exists c e1, try next (mkst (w ++ e :: post) o en a (F :: fr :: k)) =
                          (Ok (Some c, EOther), mkst (w ++ e :: post) o e1 a (F :: fr :: k))).
  { destruct (w ++ e :: post) as [|c t] eqn:Ewp; [destruct w; discriminate|]. exists c. eexists. apply try_ok. apply next_cons. }
  destruct Hn as (c0 & e1 & Hn). rewrite (bind_ok _ _ _ _ _ Hn). subst F.
  assert (Hp : match e :: post with c :: _ => negb (c =? e) = false | [] => True end) by (rewrite Z.eqb_refl; reflexivity).
  pose proof (span_all (fun c => negb (c =? e)) w (e :: post) Hw Hp) as Hsp.
  destruct w as [|c t].
  - cbn [app] in *. unfold bind at 1. unfold advance_while. cbn [rest stk off apos endr]. rewrite Hsp. cbn [length]. cbv beta iota.
    unfold bind at 1. unfold get. cbn [rest].
    unfold trail. cbn [stk]. unfold bind at 1. cbn [off].
    rewrite (bind_ok _ _ _ _ _ (pop_ne _ _ _ _ _ _ _ _ _)).
    unfold bind at 1. cbn [off]. rewrite Z.sub_diag.
    rewrite (bind_ok _ _ _ (Some tt, EOther) _ (try_ok _ _ _ _ (request_ok (e :: post) o e1 a (fr :: k) 0 eq_refl))).
    unfold bind at 1. unfold buffer. cbn [endr off rest]. replace (o + 0 - o) with 0 by lia. cbn [Z.ltb Z.compare Z.to_nat firstn].
    rewrite (bind_ok _ _ _ tt _ (advance_ne (e :: post) o a fr k 0 ltac:(lia) eq_refl)).
    cbn [Z.to_nat skipn]. unfold ret. change (zlen []) with 0. rewrite !Z.add_0_r. do 2 eexists. reflexivity.
  - unfold bind at 1. unfold advance_while. cbn [rest stk off apos endr].
    unfold byte in *. rewrite Hsp. cbn [length].
    set (L := Z.of_nat (S (length t))).
    unfold bind at 1. unfold get. cbn [rest].
    assert (Hk : skipn (Z.to_nat L) ((c :: t) ++ e :: post) = e :: post).
    { subst L. rewrite Nat2Z.id. change (S (length t)) with (length (c :: t)). rewrite skipn_app, skipn_all, Nat.sub_diag. reflexivity. }
    unfold trail. cbn [stk]. unfold bind at 1. cbn [off].
    rewrite (bind_ok _ _ _ _ _ (pop_ne _ _ _ _ _ _ _ _ _)).
    unfold bind at 1. cbn [off]. replace (o + L - o) with L by lia.
    assert (HhL : has_n ((c :: t) ++ e :: post) (Z.to_nat L) = true).
    { subst L. rewrite Nat2Z.id. change (S (length t)) with (length (c :: t)). apply has_n_app. }
    rewrite (bind_ok _ _ _ (Some tt, EOther) _ (try_ok _ _ _ _ (request_ok _ o _ a (fr :: k) L HhL))).
    unfold bind at 1. unfold buffer. cbn [endr off rest]. replace (o + L - o) with L by lia.
    destruct (Z.ltb_spec L 0); [subst L; lia|].
    rewrite (bind_ok _ _ _ tt _ (advance_ne _ o a fr k L ltac:(subst L; lia) HhL)).
    unfold ret.
    assert (Hf : firstn (Z.to_nat L) ((c :: t) ++ e :: post) = c :: t).
    { subst L. rewrite Nat2Z.id. change (S (length t)) with (length (c :: t)). rewrite firstn_app, firstn_all, Nat.sub_diag. cbn [firstn]. now rewrite app_nil_r. }
    exists (o + L), None.
    assert (HL : zlen (c :: t) = L) by (subst L; unfold zlen; cbn [length]; reflexivity).
    refine (f_equal2 pair _ _); [apply f_equal; exact Hf|].
    rewrite HL. exact (f_equal (fun r => mkst r (o + L) None (a + L) (fr :: k)) Hk).
Qed.

Lemma skip_one c r o e a (fr : frame) k :
  skip 1 (mkst (c :: r) o e a (fr :: k)) = (Ok tt, mkst r (o + 1) None (a + 1) (fr :: k)).
Proof.
  unfold skip. rewrite (bind_ok _ _ _ tt _ (request_ok (c :: r) o e a (fr :: k) 1 eq_refl)).
  rewrite (advance_ne (c :: r) o a fr k 1 ltac:(lia) eq_refl). reflexivity.
Qed.

Definition contig_text (accn : list byte) (h t : Z) : list byte :=
  [106;111;105;110;40] ++ accn ++ [58] ++ itoa (h + 1) ++ [46;46] ++ itoa t ++ [41].

Theorem p_contig_roundtrip depth a accn h t post o e ap fr k :
  zlen n_CONTIG <= depth -> Forall (fun c => negb (c =? 58) = true) accn ->
  0 <= h + 1 <= int64_max -> 0 <= t <= int64_max ->
  exists s', p_contig depth a
               (mkst (n_CONTIG ++ repeat_byte 32 (depth - zlen n_CONTIG) ++ contig_text accn h t ++ post) o e ap (fr :: k)) =
             (Ok (upd_fields a (set_contig (a_fields a) (accn, h, t)), None), s') /\ rest s' = post /\ stk s' = fr :: k.
Proof.
  intros Hd Hacc Hh Ht. unfold p_contig, sub_of.
  set (t1 := accn ++ [58] ++ itoa (h + 1) ++ [46;46] ++ itoa t ++ [41] ++ post).
  assert (Eb : contig_text accn h t ++ post = [106;111;105;110;40] ++ t1) by (unfold contig_text, t1; rewrite <- !app_assoc; reflexivity).
  rewrite Eb.
  destruct (field_name_reads n_CONTIG depth ([106;111;105;110;40] ++ t1) o e ap fr k Hd) as (o1 & e1 & H1).
  destruct (pBytes_ok [106;111;105;110;40] t1 o1 e1 (ap + depth) (fr :: k)) as (o2 & e2 & H2).
  set (t2 := itoa (h + 1) ++ [46;46] ++ itoa t ++ [41] ++ post).
  assert (E1 : t1 = accn ++ 58 :: t2) by reflexivity.
  destruct (pUntilByte_okp 58 accn t2 Hacc o2 e2 (ap + depth + zlen [106;111;105;110;40]) fr k) as (o3 & e3 & H3).
  set (a3 := ap + depth + zlen [106;111;105;110;40] + zlen accn) in *.
  pose proof (skip_one 58 t2 o3 e3 a3 fr k) as H4.
  set (t3 := [46;46] ++ itoa t ++ [41] ++ post).
  assert (H5 := pInt_itoa (h + 1) t3 (o3 + 1) None (a3 + 1) fr k Hh eq_refl).
  destruct (pBytes_ok [46;46] (itoa t ++ [41] ++ post) (o3 + 1 + zlen (itoa (h + 1))) None (a3 + 1 + zlen (itoa (h + 1))) (fr :: k)) as (o6 & e6 & H6).
  assert (H7 := pInt_itoa t ([41] ++ post) o6 e6 (a3 + 1 + zlen (itoa (h + 1)) + zlen [46;46]) fr k Ht eq_refl).
  destruct (pByte_okp 41 post (o6 + zlen (itoa t)) None (a3 + 1 + zlen (itoa (h + 1)) + zlen [46;46] + zlen (itoa t)) fr k) as (o8 & e8 & H8).
  assert (Inner : (_ <-- field_name_parser (fixed_name n_CONTIG) depth;;;
                   pBytes [106;111;105;110;40];;;
                   accn0 <-- pUntilByte 58;;; _ <-- try (skip 1);;; h0 <-- pInt;;; pBytes [46;46];;; t0 <-- pInt;;; _ <-- pByte 41;;;
                   ret (upd_fields a (set_contig (a_fields a) (accn0, h0 - 1, t0))))
                  (mkst (n_CONTIG ++ repeat_byte 32 (depth - zlen n_CONTIG) ++ [106;111;105;110;40] ++ t1) o e ap (fr :: k))
                  = (Ok (upd_fields a (set_contig (a_fields a) (accn, h, t))), mkst post o8 e8
                        (a3 + 1 + zlen (itoa (h + 1)) + zlen [46;46] + zlen (itoa t) + zlen [41]) (fr :: k))).
  { erewrite bind_ok; [|exact H1]. erewrite bind_ok; [|exact H2]. erewrite bind_ok; [|exact H3].
    erewrite bind_ok; [|apply try_ok; exact H4].
    erewrite bind_ok; [|exact H5]. erewrite bind_ok; [|exact H6]. erewrite bind_ok; [|exact H7].
    erewrite bind_ok; [|exact H8].
    unfold ret. replace (h + 1 - 1) with h by lia. reflexivity. }
  rewrite (bind_ok _ _ _ (Some (upd_fields a (set_contig (a_fields a) (accn, h, t))), EOther) _ (try_ok _ _ _ _ Inner)).
  eexists. split; [reflexivity|split; reflexivity].
Qed.
