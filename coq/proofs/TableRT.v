(* TableRT.v — C01: INSDCTableParser(INSDCFormatter.String(table)) = table. *)
From Coq Require Import List ZArith Lia Bool.
From GTS Require Import Base Arith Pars Loc LocParse Seq Insdc GenBank BaseLemmas ParsLemmas FastaProofs LocRT StripProofs ParsSpec KeylineRT QualRT FeatRT PropsRT.
Import ListNotations.
Open Scope Z_scope.

Section Writer.
  Variable r : registry.
  Variables np depth : Z.
  Hypothesis Hnp : 0 <= np.
  Hypothesis Hdepth : np < depth.

  Notation kp := (kprefix np).
  Notation qp := (qprefix depth).

  Lemma quals_equals f : quals f = flat_map equals (fprops f).
  Proof. reflexivity. Qed.

  Lemma writer_qprefix : kp ++ repeat_byte 32 (depth - zlen kp) = qp.
  Proof.
    rewrite zlen_kprefix by assumption. unfold kprefix, qprefix, repeat_byte.
    rewrite <- repeat_app. f_equal. lia.
  Qed.

  Lemma flat_map_flat_map {A B C} (g : B -> list C) (h : A -> list B) l :
    flat_map (fun e => flat_map g (h e)) l = flat_map g (flat_map h l).
  Proof. induction l as [|x t IH]; [reflexivity|]. cbn [flat_map]. now rewrite flat_map_app, IH. Qed.

  Lemma feature_show_text f : pnormal (fprops f) ->
    feature_show r kp depth f = fhead np depth f ++ flat_map (fun q => [10] ++ qline r qp q) (quals f).
  Proof.
    intros Hn. unfold feature_show, fhead. rewrite writer_qprefix.
    rewrite <- !app_assoc. do 3 f_equal. rewrite quals_equals, <- flat_map_flat_map.
    assert (G : forall l, incl l (fprops f) ->
      flat_map (fun p => match p with
                         | name :: _ => flat_map (fun v => [10] ++ qp ++ add_prefix (qualifier_show r name v) qp) (props_first (fprops f) name)
                         | [] => [] end) l =
      flat_map (fun e => flat_map (fun q => [10] ++ qline r qp q) (equals e)) l).
    { induction l as [|e t IH]; intros Hi; [reflexivity|]. cbn [flat_map].
      rewrite IH by (intros x Hx; apply Hi; now right). f_equal.
      assert (He : In e (fprops f)) by (apply Hi; now left).
      destruct Hn as [Hnd Hf]. pose proof (props_first_own (fprops f) (conj Hnd Hf) e He) as Hown.
      rewrite Forall_forall in Hf. destruct (Hf e He) as (n & v & vs & ->). cbn [entry_name tl] in Hown.
      rewrite Hown. cbn [equals]. generalize (v :: vs). intros l0. induction l0 as [|w l0 IHl]; [reflexivity|].
      cbn [map flat_map]. rewrite IHl. reflexivity. }
    f_equal. apply G. apply incl_refl.
  Qed.

  Lemma qlines_text qs last :
    flat_map (fun q => [10] ++ qline r qp q) qs ++ last =
    match qs with [] => last | _ => [10] ++ qtext r qp qs last end.
  Proof.
    induction qs as [|q t IH]; [reflexivity|]. cbn [flat_map]. rewrite <- !app_assoc. rewrite IH.
    destruct t as [|q2 t']; reflexivity.
  Qed.

  Lemma feature_text f last : pnormal (fprops f) -> feature_show r kp depth f ++ last = ftext r np depth f last.
  Proof.
    intros Hn. rewrite (feature_show_text f Hn). unfold ftext. rewrite <- app_assoc. f_equal.
    rewrite qlines_text. destruct (quals f); reflexivity.
  Qed.

  Lemma table_text f t last : Forall (fun f => pnormal (fprops f)) (f :: t) ->
    sep_by [10] (map (feature_show r kp depth) (f :: t)) ++ last = ttext r np depth (f :: t) last.
  Proof.
    revert f. induction t as [|g t IH]; intros f Hn; inversion Hn as [|? ? Hf Ht]; subst.
    - cbn [map sep_by flat_map ttext]. rewrite app_nil_r. now apply feature_text.
    - change (ttext r np depth (f :: g :: t) last) with (ftext r np depth f [10] ++ ttext r np depth (g :: t) last).
      rewrite <- (IH g Ht). rewrite <- (feature_text f [10] Hf).
      cbn [map sep_by flat_map]. rewrite <- !app_assoc. reflexivity.
  Qed.

  Lemma fnorm_id f : pnormal (fprops f) -> fnorm f = f.
  Proof. intros Hn. unfold fnorm. rewrite quals_equals, (props_of_flat _ Hn). destruct f; reflexivity. Qed.

  (* INSDCTableParser reads back what INSDCFormatter wrote *)
  Theorem table_roundtrip f t last post reg W :
    Forall (fok r np depth) (f :: t) -> Forall (fun g => pnormal (fprops g)) (f :: t) ->
    names_ok r reg (f :: t) -> eol_post last post -> stops np depth post ->
    table_show r kp depth (f :: t) = Ok W ->
    forall o e a (fr : frame) k, exists o' e' a',
      table_parser [] reg (mkst ((W ++ last) ++ post) o e a (fr :: k)) =
      (Ok (f :: t, regs_feats reg (f :: t)), mkst post o' e' a' (fr :: k)).
  Proof.
    intros Hok Hn Hnames Heol Hstop HW o e a fr k.
    unfold table_show in HW. destruct (existsb _ (f :: t)); [discriminate|].
    apply (f_equal (fun o => match o with Ok v => v | _ => [] end)) in HW. cbv beta iota in HW. rewrite <- HW. clear HW.
    pose proof (table_text f t last Hn) as TT. unfold byte in *. rewrite TT. clear TT.
    destruct (table_parser_reads r np depth Hnp Hdepth f t last post Hok Heol Hstop reg o e a fr k Hnames) as (o' & e' & a' & E).
    exists o', e', a'. eapply eq_trans; [exact E|]. f_equal. f_equal. f_equal.
    clear - Hn. induction Hn as [|g gs Hg _ IH]; [reflexivity|]. cbn [map]. now rewrite (fnorm_id g Hg), IH.
  Qed.
End Writer.

(* ---------- the hypotheses are satisfiable: a small table *)
Lemma no_occ_no10 p v : no10 v -> no_occ (10 :: p) v.
Proof.
  intros H j. unfold occurs_at. revert j. induction H as [|c t Hc _ IH]; intros j.
  - destruct j; reflexivity.
  - destruct j as [|j]; cbn [skipn is_prefix].
    + replace (10 =? c) with false by (symmetry; apply Z.eqb_neq; congruence). reflexivity.
    + apply IH.
Qed.
