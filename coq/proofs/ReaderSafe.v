(* ReaderSafe.v — the feature-table reader, the GenBank reader, the FASTA
   reader and the scanners never reach the Panic outcome, for any input. *)
From GTS Require Import Base Arith Tables Pars Loc LocParse Seq Origin Insdc GenBank Fasta
     BaseLemmas ParsLemmas Safety JoinSafe LocSafe GenBankProofs OriginSafe.
From Coq Require Import Lia.
Open Scope Z_scope.

Ltac sb := apply safe_bind; [|intros ?x].
Ltac trynext := eapply t_bind; [apply (t_try _ _ _ _ wf next_spec)|]; intros [[?c|] ?k]; cbv beta iota.
Ltac tryp H := apply safe_bind; [apply (safe_try' _ H)|]; intros [[?v|] ?k]; cbv beta iota.
Ltac adv := eapply t_bind; [apply safe_advance|]; intros ?u.
Ltac popfail := first [ apply popfail_any | apply popfail_wr | apply fail_any | apply fail_wr ].

(* ---------- Insdc *)

Lemma safe_qualifier_name_parser prefix : safe (qualifier_name_parser prefix).
Proof.
  unfold safe, qualifier_name_parser.
  eapply t_bind; [apply (request_spec' _ (zlen_nonneg _))|]. intros ?u.
  eapply t_bind; [apply (buffer_spec wf)|]. intros b.
  destruct (negb (bytes_eqb b (prefix ++ [47]))); [popfail|]. adv. apply safe_pWord.
Qed.

Lemma safe_quoted_qualifier_parser prefix : safe (quoted_qualifier_parser prefix).
Proof.
  unfold safe, quoted_qualifier_parser. eapply t_bind; [apply push_spec|]. intros ?u.
  trynext; [|popfail].
  destruct (negb (c =? 61)); [popfail|]. adv.
  tryp (safe_pQuoted 34); [|popfail].
  sb; [apply drop_spec|]. sb; [apply safe_try', safe_pEOL|].
  destruct prefix; apply safe_ret.
Qed.

Lemma safe_literal_lines fuel : forall prefix p, safe (literal_lines fuel prefix p).
Proof.
  induction fuel as [|f IH]; intros prefix p; cbn [literal_lines]; [apply safe_nofuel|].
  tryp (safe_pBytes prefix).
  - unfold safe. trynext.
    + destruct (c =? 47).
      * apply wr_weaken. sb; [apply pop_spec|]. apply safe_ret.
      * apply wr_weaken. sb; [apply safe_pLine|]. sb; [apply drop_spec|]. sb; [apply push_spec|]. apply IH.
    + sb; [apply pop_spec|]. apply safe_ret.
  - sb; [apply drop_spec|]. apply safe_ret.
Qed.

Lemma safe_literal_value_parser prefix : safe (literal_value_parser prefix).
Proof.
  unfold literal_value_parser. sb; [apply safe_pLine|]. sb; [apply push_spec|]. sb; [apply safe_get|]. apply safe_literal_lines.
Qed.

Lemma safe_literal_qualifier_parser prefix : safe (literal_qualifier_parser prefix).
Proof.
  unfold safe, literal_qualifier_parser. eapply t_bind; [apply push_spec|]. intros ?u.
  trynext; [|popfail].
  destruct (negb (c =? 61)); [popfail|]. adv.
  sb; [apply safe_literal_value_parser|]. sb; [apply drop_spec|]. apply safe_ret.
Qed.

Lemma safe_qualifier_parser prefix reg : safe (qualifier_parser prefix reg).
Proof.
  unfold qualifier_parser. sb; [apply safe_qualifier_name_parser|].
  destruct (qualifier_type reg x =? 3).
  - tryp (safe_quoted_qualifier_parser prefix); [apply safe_ret|].
    tryp (safe_literal_qualifier_parser prefix); [apply safe_ret|].
    tryp safe_pEOL; apply safe_ret.
  - sb; [|apply safe_ret].
    destruct (qualifier_type reg x =? 0); [apply safe_quoted_qualifier_parser|].
    destruct (qualifier_type reg x =? 1); [apply safe_literal_qualifier_parser|apply safe_pEOL].
Qed.

Lemma safe_qualifiers_loop fuel : forall prefix reg start acc, safe (qualifiers_loop fuel prefix reg start acc).
Proof.
  induction fuel as [|f IH]; intros prefix reg start acc; cbn [qualifiers_loop]; [apply safe_nofuel|].
  tryp (safe_qualifier_parser prefix reg); [|apply safe_ret].
  destruct v as [q reg']. sb; [apply safe_position|]. destruct (x =? start); [apply safe_ret|apply IH].
Qed.

Lemma safe_qualifiers_parser prefix reg : safe (qualifiers_parser prefix reg).
Proof. unfold qualifiers_parser. sb; [apply safe_get|]. apply safe_qualifiers_loop. Qed.

Lemma safe_parse_loc : safe parse_loc.
Proof. unfold parse_loc. sb; [apply safe_get|]. apply safeL_safe, safe_parse_location. Qed.

Lemma safe_indent_loop n : safe (indent_loop n).
Proof.
  induction n as [|n IH]; cbn [indent_loop]; [apply safe_ret|].
  unfold safe. eapply t_bind; [apply next_spec|]. intros c.
  destruct (negb (c =? 32)); [popfail|]. adv. apply IH.
Qed.

Lemma safe_keyline_parser prefix depth : safe (keyline_parser prefix depth).
Proof.
  unfold safe, keyline_parser.
  eapply t_bind; [apply (request_spec' _ (zlen_nonneg _))|]. intros ?u.
  eapply t_bind; [apply (buffer_spec wf)|]. intros b.
  destruct (negb (bytes_eqb b prefix)); [popfail|]. adv.
  sb; [apply safe_pWord|]. sb; [apply safe_indent_loop|]. sb; [apply safe_parse_loc|]. sb; [apply safe_pEOL|]. apply safe_ret.
Qed.

Lemma safe_features_loop fuel : forall kprefix depth qprefix reg acc, safe (features_loop fuel kprefix depth qprefix reg acc).
Proof.
  induction fuel as [|f IH]; intros; cbn [features_loop]; [apply safe_nofuel|].
  tryp (safe_keyline_parser kprefix depth); [|apply safe_ret].
  destruct v as [key l]. sb; [apply safe_qualifiers_parser|]. destruct x as [qs reg']. apply IH.
Qed.

Lemma safe_table_parser prefix reg : safe (table_parser prefix reg).
Proof.
  unfold table_parser. sb.
  - apply safe_pMap; [|intros; discriminate].
    sb; [apply push_spec|]. tryp (safe_pBytes prefix); [|sb; [apply pop_spec|apply safe_fail]].
    sb; [apply safe_pSpaces|]. tryp (safe_pWord is_featkey); [|sb; [apply pop_spec|apply safe_fail]].
    sb; [apply safe_pSpaces|]. tryp safe_parse_loc; [|sb; [apply pop_spec|apply safe_fail]].
    tryp safe_pEOL; [|sb; [apply pop_spec|apply safe_fail]].
    sb; [apply drop_spec|]. apply safe_ret.
  - destruct x as [[[pre key] pst] lc].
    sb; [apply safe_qualifiers_parser|]. destruct x as [qs reg']. sb; [apply safe_get|]. apply safe_features_loop.
Qed.

(* ---------- GenBank *)

Lemma safe_locus_parser : safe locus_parser.
Proof.
  unfold locus_parser. apply safe_pMap; [|intros; discriminate].
  sb; [apply push_spec|].
  assert (SF : forall A k, safe (pop ;;; @fail A k)) by (intros; sb; [apply pop_spec|apply safe_fail]).
  tryp (safe_pBytes str_LOCUS); [|apply SF].
  sb; [apply safe_pSpaces|].
  tryp (safe_pWord not_space); [|apply SF].
  sb; [apply safe_pSpaces|].
  tryp safe_pInt; [|apply SF].
  tryp (safe_pAny [pBytes [32;98;112]; pBytes [32;97;97]] ltac:(repeat constructor; apply safe_pBytes)); [|apply SF].
  sb; [apply safe_pSpaces|].
  tryp (safe_pWord not_space); [|apply SF].
  sb; [apply safe_pSpaces|].
  tryp (safe_pWord not_space); [|apply SF].
  sb; [apply safe_pSpaces|].
  apply safe_bind.
  { apply safe_try'. apply safe_pMaybe. apply safe_pMap; [|intros [[? ?] ?]; discriminate].
    apply safe_pSeq3; apply safe_pFilter. }
  intros [[dv|] ?k]; cbv beta iota; [|apply SF].
  sb; [apply safe_pSpaces|].
  apply safe_bind.
  { apply safe_try'. apply safe_pMap; [apply safe_pLine|]. intros a. apply as_date_total. }
  intros [[date|] ?k]; cbv beta iota; [|apply SF].
  sb; [apply drop_spec|]. apply safe_ret.
Qed.

Lemma safe_fixed_name s : safe (fixed_name s).
Proof. unfold fixed_name. sb; [apply safe_pBytes|]. apply safe_ret. Qed.

Lemma safe_field_name_parser np depth : safe np -> safe (field_name_parser np depth).
Proof.
  intros Hnp. unfold field_name_parser. sb; [exact Hnp|].
  destruct (depth - zlen x <? 0); [sb; [apply clear_spec|apply safe_fail]|].
  apply safe_bind.
  { apply safe_try'. apply safe_pAny. repeat constructor.
    - sb; [apply safe_pBytes|]. apply safe_ret.
    - sb; [apply safe_pDry, safe_pEOL|]. apply safe_ret. }
  intros [[v|] k]; [apply safe_ret|]. sb; [apply clear_spec|apply safe_fail].
Qed.

Lemma safe_field_line_parser depth : safe (field_line_parser depth).
Proof. unfold field_line_parser. tryp (safe_pBytes (repeat_byte 32 depth)); [apply safe_pLine|apply safe_fail]. Qed.

Lemma safe_body_loop fuel : forall depth sep acc m, safe (body_loop fuel depth sep acc m).
Proof.
  induction fuel as [|f IH]; intros; cbn [body_loop]; [apply safe_nofuel|].
  tryp (safe_field_line_parser depth); [apply IH|apply safe_ret].
Qed.

Lemma safe_field_body_parser' depth sep : safe (field_body_parser' depth sep).
Proof. unfold field_body_parser'. sb; [apply safe_pLine|]. sb; [apply safe_get|]. apply safe_body_loop. Qed.

Lemma safe_field_body_parser depth sep : safe (field_body_parser depth sep).
Proof. unfold field_body_parser. sb; [apply safe_field_body_parser'|]. apply safe_ret. Qed.

Lemma safe_generic_field_parser name depth : safe (generic_field_parser name depth).
Proof.
  unfold generic_field_parser. sb; [apply safe_field_name_parser, safe_fixed_name|].
  sb; [apply safe_field_body_parser'|]. apply safe_ret.
Qed.

Lemma safe_subfield_name_parser name depth stale void : safe (subfield_name_parser name depth stale void).
Proof.
  unfold subfield_name_parser. apply safe_bind; [apply safe_try', safe_pWord|]. intros p.
  match goal with |- context [if ?b then _ else _] => destruct b end; [apply safe_fail|].
  sb; [apply safe_pBytes|]. apply safe_bind; [apply safe_try', safe_pWord|]. intros q.
  match goal with |- context [if ?b then _ else _] => destruct b end; [apply safe_fail|apply safe_ret].
Qed.

Lemma safe_generic_subfield_parser name depth stale : safe (generic_subfield_parser name depth stale).
Proof. unfold generic_subfield_parser. sb; [apply safe_subfield_name_parser|]. apply safe_field_body_parser. Qed.

Lemma safe_dblink_pair d : safe (dblink_pair d).
Proof.
  unfold dblink_pair. sb; [apply safe_pLine|]. destruct (index_byte_from 58 x 0) as [i|]; [|apply safe_fail].
  destruct (Nat.ltb (length x) (i + 2)); [apply safe_fail|apply safe_ret].
Qed.

Lemma safe_dblink_loop fuel : forall depth d, safe (dblink_loop fuel depth d).
Proof.
  induction fuel as [|f IH]; intros; cbn [dblink_loop]; [apply safe_nofuel|].
  tryp (safe_pBytes (repeat_byte 32 depth)); [|apply safe_ret].
  tryp (safe_dblink_pair d); [apply IH|apply safe_ret].
Qed.

Lemma safe_ref_subfield depth stale r : safe (ref_subfield depth stale r).
Proof.
  unfold ref_subfield. apply safe_pAny.
  repeat constructor; (apply safe_pMap; [apply safe_generic_subfield_parser|intros; discriminate]).
Qed.

Lemma safe_ref_loop fuel : forall depth stale r, safe (ref_loop fuel depth stale r).
Proof.
  induction fuel as [|f IH]; intros; cbn [ref_loop]; [apply safe_nofuel|].
  tryp (safe_ref_subfield depth stale r); [|apply safe_ret]. destruct v as [r' st]. apply IH.
Qed.

Lemma safe_sub_of p : (forall a, safe (p a)) -> forall a, safe (sub_of p a).
Proof. intros H a. unfold sub_of. tryp (H a); apply safe_ret. Qed.

Lemma safe_p_definition depth a : safe (p_definition depth a).
Proof.
  apply safe_sub_of. intros a0. apply safe_pMap; [apply safe_generic_field_parser|].
  intros [p z]. destruct (rev p) as [|c r]; [discriminate|].
  destruct c as [|q|q]; try discriminate. repeat (destruct q as [q|q|]; try discriminate).
Qed.

Lemma safe_p_accession depth a : safe (p_accession depth a).
Proof. apply safe_sub_of. intros a0. apply safe_pMap; [apply safe_generic_field_parser|intros [p z]; discriminate]. Qed.
Lemma safe_p_version depth a : safe (p_version depth a).
Proof. apply safe_sub_of. intros a0. apply safe_pMap; [apply safe_generic_field_parser|intros [p z]; discriminate]. Qed.
Lemma safe_p_comment depth a : safe (p_comment depth a).
Proof. apply safe_sub_of. intros a0. apply safe_pMap; [apply safe_generic_field_parser|intros [p z]; discriminate]. Qed.

Lemma safe_p_dblink depth a : safe (p_dblink depth a).
Proof.
  unfold p_dblink. tryp (safe_field_name_parser _ depth (safe_fixed_name n_DBLINK)); [|apply safe_ret].
  tryp (safe_dblink_pair (f_dblink (a_fields a))); [|apply safe_ret].
  sb; [apply safe_get|]. sb; [apply safe_dblink_loop|]. apply safe_ret.
Qed.

Lemma safe_p_keywords depth a : safe (p_keywords depth a).
Proof.
  apply safe_sub_of. intros a0. sb; [apply safe_field_name_parser, safe_fixed_name|].
  sb; [apply safe_field_body_parser|]. apply safe_ret.
Qed.

Lemma safe_taxon_loop fuel : forall depth acc0, safe (taxon_loop fuel depth acc0).
Proof.
  induction fuel as [|f IH]; intros; cbn [taxon_loop]; [apply safe_nofuel|].
  tryp (safe_field_line_parser depth); [apply IH|apply safe_ret].
Qed.

Lemma safe_p_source depth a : safe (p_source depth a).
Proof.
  unfold p_source. apply safe_bind.
  { apply safe_try'. apply safe_pMap; [apply safe_generic_field_parser|intros; discriminate]. }
  intros [[[species vtok]|] k]; [|apply safe_ret].
  tryp (safe_subfield_name_parser n_ORGANISM depth vtok true).
  - sb; [apply safe_pLine|]. sb; [apply safe_get|]. sb; [apply safe_taxon_loop|]. apply safe_ret.
  - sb; [apply pop_spec|]. apply safe_ret.
Qed.

Lemma safe_p_reference depth a : safe (p_reference depth a).
Proof.
  apply safe_sub_of. intros a0. sb; [apply safe_field_name_parser, safe_fixed_name|].
  sb; [apply safe_pInt|]. sb; [apply safe_try', safe_pBytes|]. sb; [apply safe_pLine|].
  sb; [apply safe_get|]. sb; [apply safe_ref_loop|]. apply safe_ret.
Qed.

Lemma safe_p_features depth a : safe (p_features depth a).
Proof.
  apply safe_sub_of. intros a0. sb; [apply safe_pBytes|]. sb; [apply safe_pLine|]. sb; [apply clear_spec|].
  tryp safe_next.
  - destruct (negb (v =? 32)); [apply safe_ret|]. sb; [apply safe_table_parser|]. apply safe_ret.
  - sb; [apply safe_table_parser|]. apply safe_ret.
Qed.

Lemma safe_p_contig depth a : safe (p_contig depth a).
Proof.
  apply safe_sub_of. intros a0. sb; [apply safe_field_name_parser, safe_fixed_name|].
  sb; [apply safe_pBytes|]. sb; [apply safe_pUntilByte|]. sb; [apply safe_try', safe_skip; lia|].
  sb; [apply safe_pInt|]. sb; [apply safe_pBytes|]. sb; [apply safe_pInt|]. sb; [apply safe_pByte|]. apply safe_ret.
Qed.

Lemma safe_p_extra depth a : safe (p_extra depth a).
Proof.
  apply safe_sub_of. intros a0. tryp (safe_field_name_parser _ depth (safe_pWord is_upper)); [|apply safe_fail].
  destruct v as [name z]. sb; [apply safe_field_body_parser|]. apply safe_ret.
Qed.

Section WithOrigin.
  (* the ORIGIN block reader: discharged below *)
  Hypothesis Horigin : forall len, safe (origin_block_parser len).

  Lemma safe_p_origin len depth a : safe (p_origin len depth a).
  Proof.
    apply safe_sub_of. intros a0. sb; [apply safe_field_name_parser, safe_fixed_name|].
    sb; [apply safe_pLine|]. sb; [apply Horigin|]. apply safe_ret.
  Qed.

  Lemma safe_try_all ps : (forall p a, In p ps -> safe (p a)) -> forall a last, safe (try_all ps a last).
  Proof.
    induction ps as [|p t IH]; intros H a last; cbn [try_all]; [apply safe_ret|].
    apply safe_bind; [apply push_spec|]. intros _.
    apply safe_bind; [apply H; left; reflexivity|]. intros [a' [k|]].
    - apply safe_bind; [apply safe_pushed|]. intros [|]; [|apply safe_ret].
      apply safe_bind; [apply pop_spec|]. intros _. apply IH. intros p0 a0 Hin. apply H. right; exact Hin.
    - apply safe_bind; [apply drop_spec|]. intros _. apply safe_ret.
  Qed.

  Lemma safe_subparsers len depth p a : In p (subparsers len depth) -> safe (p a).
  Proof.
    unfold subparsers. cbn [In]. intros H.
    repeat (destruct H as [<-|H]; [first [apply safe_p_definition|apply safe_p_accession|apply safe_p_version|apply safe_p_dblink
      |apply safe_p_keywords|apply safe_p_source|apply safe_p_reference|apply safe_p_comment|apply safe_p_features
      |apply safe_p_contig|apply safe_p_origin|apply safe_p_extra]|]). contradiction.
  Qed.

  Lemma safe_record_end_parser : safe record_end_parser.
  Proof. unfold record_end_parser. sb; [apply safe_pSeq2; [apply safe_pBytes|apply safe_pEOL]|]. apply safe_ret. Qed.

  Lemma safe_field_loop fuel : forall len depth a, safe (field_loop fuel len depth a).
  Proof.
    induction fuel as [|f IH]; intros; cbn [field_loop]; [apply safe_nofuel|].
    tryp safe_record_end_parser; [apply safe_ret|].
    apply safe_bind; [apply safe_try_all; intros; eapply safe_subparsers; eassumption|].
    intros [a' [k0|]]; [|apply IH].
    destruct k0; try apply safe_fail.
    apply safe_bind; [apply safe_pLine|]. intros _. tryp safe_pEnd; [apply safe_fail|apply IH].
  Qed.

  Lemma safe_genbank_parser reg : safe (genbank_parser reg).
  Proof.
    unfold genbank_parser. apply safe_bind; [apply safe_locus_parser|].
    intros [[[[[[depth name] len] mol] top] dv] date].
    apply safe_bind; [apply clear_spec|]. intros _.
    destruct (negb (is_molecule mol)); [apply safe_fail|].
    apply safe_bind.
    { repeat match goal with |- context [if ?b then _ else _] => destruct b end; first [apply safe_ret|apply safe_fail]. }
    intros t. apply safe_bind; [apply safe_get|]. intros s. apply safe_bind; [apply safe_field_loop|]. intros a. apply safe_ret.
  Qed.

  Lemma safe_gb_scan_loop fuel : forall reg accu, safe (gb_scan_loop fuel reg accu).
  Proof.
    induction fuel as [|f IH]; intros; cbn [gb_scan_loop]; [apply safe_nofuel|].
    apply safe_bind; [apply safe_at_end|]. intros [|]; [apply safe_ret|].
    tryp (safe_genbank_parser reg); [|apply safe_ret]. destruct v as [g reg']. apply IH.
  Qed.
End WithOrigin.

(* ---------- FASTA and the scanners *)

Lemma safe_fasta_parser : safe fasta_parser.
Proof.
  unfold fasta_parser. apply safe_pMap; [|intros [[? ?] ?]; discriminate].
  apply safe_pSeq3; [apply safe_pByte|apply safe_pLine|]. apply safe_pUntilP. apply safe_pAny.
  repeat constructor; [|apply safe_pEnd]. sb; [apply safe_pByte|]. apply safe_ret.
Qed.

Lemma safe_scan_loop {A} (p : M A) : safe p -> forall fuel acc, safe (scan_loop fuel p acc).
Proof.
  intros Hp. induction fuel as [|f IH]; intros; cbn [scan_loop]; [apply safe_nofuel|].
  apply safe_bind; [apply safe_at_end|]. intros [|]; [apply safe_ret|].
  tryp Hp; [apply IH|apply safe_ret].
Qed.

Lemma run_safe {A} (m : M A) input : zlen input <= input_bound -> safe m -> fst (m (st_of input)) <> Panic.
Proof.
  intros Hb H. pose proof (H (st_of input) (wf_st_of input Hb)) as G.
  destruct (m (st_of input)) as [[a|k| |] s']; cbn [fst]; try discriminate. contradiction.
Qed.

Theorem scan_fasta_no_panic input : zlen input <= input_bound -> scan_fasta input <> Panic.
Proof. intros Hb. unfold scan_fasta. apply run_safe; [exact Hb|]. apply safe_scan_loop, safe_fasta_parser. Qed.

Theorem table_parser_no_panic reg input : zlen input <= input_bound -> fst (table_parser [] reg (st_of input)) <> Panic.
Proof. intros Hb. apply run_safe; [exact Hb|apply safe_table_parser]. Qed.

Section WithOrigin2.
  Hypothesis Horigin : forall len, safe (origin_block_parser len).

  Theorem scan_genbank_no_panic_given reg input : zlen input <= input_bound -> scan_genbank reg input <> Panic.
  Proof. intros Hb. unfold scan_genbank. apply run_safe; [exact Hb|]. apply safe_gb_scan_loop, Horigin. Qed.

  Theorem auto_scan_no_panic_given reg input : zlen input <= input_bound -> auto_scan reg input <> Panic.
  Proof.
    intros Hb. unfold auto_scan. apply run_safe; [exact Hb|].
    apply safe_bind; [apply safe_at_end|]. intros [|]; [apply safe_ret|].
    apply safe_bind; [apply push_spec|]. intros _.
    tryp (safe_genbank_parser Horigin reg).
    - destruct v as [g reg']. apply safe_bind; [apply drop_spec|]. intros _.
      apply safe_bind; [apply safe_gb_scan_loop, Horigin|]. intros x. apply safe_ret.
    - apply safe_bind; [apply pop_spec|]. intros _. apply safe_bind; [apply push_spec|]. intros _.
      tryp safe_fasta_parser.
      + apply safe_bind; [apply drop_spec|]. intros _.
        apply safe_bind; [apply safe_scan_loop, safe_fasta_parser|]. intros x. apply safe_ret.
      + apply safe_bind; [apply pop_spec|]. intros _. apply safe_ret.
  Qed.
End WithOrigin2.

(* with the ORIGIN block reader proved safe (OriginSafe.v) *)
Theorem scan_genbank_no_panic reg input : zlen input <= input_bound -> scan_genbank reg input <> Panic.
Proof. apply scan_genbank_no_panic_given. exact safe_origin_block_parser. Qed.

Theorem auto_scan_no_panic reg input : zlen input <= input_bound -> auto_scan reg input <> Panic.
Proof. apply auto_scan_no_panic_given. exact safe_origin_block_parser. Qed.
