(* JoinSafe.v — gts.Join / gts.Order never panic on the locations the parser
   hands them: non-empty lists of locations without an empty join inside. *)
From GTS Require Import Base Loc BaseLemmas.
From Coq Require Import Lia.
Open Scope Z_scope.

Fixpoint ne (l : loc) : Prop :=
  match l with
  | Joined js => js <> [] /\ (fix all (xs : list loc) : Prop := match xs with [] => True | x :: t => ne x /\ all t end) js
  | Ordered xs => xs <> [] /\ (fix all (xs : list loc) : Prop := match xs with [] => True | x :: t => ne x /\ all t end) xs
  | Complemented x => ne x
  | _ => True
  end.

Lemma all_forall xs : (fix all (xs : list loc) : Prop := match xs with [] => True | x :: t => ne x /\ all t end) xs <-> Forall ne xs.
Proof.
  induction xs as [|x t IH]; split; intros H; [constructor|exact I| |].
  - destruct H as [H1 H2]. constructor; [exact H1|now apply IH].
  - inversion H; subst. split; [assumption|now apply IH].
Qed.

Lemma ne_joined js : ne (Joined js) <-> js <> [] /\ Forall ne js.
Proof. cbn [ne]. rewrite all_forall. tauto. Qed.
Lemma ne_ordered js : ne (Ordered js) <-> js <> [] /\ Forall ne js.
Proof. cbn [ne]. rewrite all_forall. tauto. Qed.

Lemma split_last_some {A} (l : list A) : l <> [] -> exists i z, split_last l = Some (i, z) /\ l = i ++ [z].
Proof.
  induction l as [|x t IH]; [contradiction|]. intros _. destruct t as [|y t'].
  - exists [], x. split; reflexivity.
  - destruct (IH ltac:(discriminate)) as (i & z & H1 & H2). exists (x :: i), z.
    cbn [split_last]. cbn [split_last] in H1. rewrite H1. split; [reflexivity|]. cbn [app]. now rewrite <- H2.
Qed.

Lemma split_last_none {A} (l : list A) : split_last l = None -> l = [].
Proof.
  destruct l as [|x t]; [reflexivity|]. intros H. destruct (split_last_some (x :: t) ltac:(discriminate)) as (i & z & H1 & _).
  rewrite H1 in H. discriminate.
Qed.

Definition good (o : out (list loc)) : Prop :=
  match o with Ok r => Forall ne r /\ r <> [] | Panic => False | _ => True end.

(* folding pushes over a list *)
Section Fold.
  Variable push1 : list loc -> loc -> out (list loc).
  Hypothesis Hpush : forall ll l, Forall ne ll -> ne l -> good (push1 ll l).
  Fixpoint foldp (ll js : list loc) : out (list loc) :=
    match js with [] => Ok ll | j :: t => ll' <- push1 ll j ;; foldp ll' t end.
  Lemma foldp_good js : forall ll, Forall ne ll -> Forall ne js -> (ll <> [] \/ js <> []) -> good (foldp ll js).
  Proof.
    induction js as [|j t IH]; intros ll Hll Hjs Hne; cbn [foldp].
    - cbn. split; [assumption|]. destruct Hne; [assumption|contradiction].
    - inversion Hjs as [|? ? Hj Ht]; subst. pose proof (Hpush ll j Hll Hj) as G.
      destruct (push1 ll j) as [r|k| |]; cbn [obind good] in *; try tauto.
      apply IH; tauto.
  Qed.
End Fold.

Lemma merge_simple_ne v u force d : merge_simple v u force = Replace d -> ne d.
Proof.
  destruct v, u; cbn [merge_simple]; intros H;
    repeat match type of H with context [if ?b then _ else _] => destruct b end; inversion H; exact I.
Qed.

Lemma ll_push_good f : forall ll l force, Forall ne ll -> ne l -> good (ll_push f ll l force).
Proof.
  induction f as [|f IH]; intros ll l force Hll Hl; cbn [ll_push]; [exact I|].
  assert (NJ : forall (P : out (list loc)),
    (P = match split_last ll with
         | None => Ok [l]
         | Some (init, last) =>
           match last, l with
           | Complemented v, Complemented u =>
             tmp <- ll_push f [u] v force ;;
             pushed <- (fix go (acc xs : list loc) : out (list loc) :=
                          match xs with [] => Ok acc | x :: t => acc' <- ll_push f acc x true ;; go acc' t end) [] tmp ;;
             match pushed with
             | [] => Panic
             | [x] => Ok (init ++ [Complemented x])
             | xs => Ok (init ++ [Complemented (Joined xs)])
             end
           | _, _ =>
             match merge_simple last l force with
             | Keep => Ok ll
             | Replace d => Ok (init ++ [d])
             | Append => Ok (ll ++ [l])
             end
           end
         end) -> good P).
  { intros P ->. destruct (split_last ll) as [[init last]|] eqn:Es.
    2:{ cbn. split; [constructor; [assumption|constructor]|discriminate]. }
    assert (Hll' : ll = init ++ [last]).
    { destruct (split_last_some ll) as (i & z & H1 & H2); [intros ->; discriminate|]. rewrite H1 in Es. inversion Es; subst. reflexivity. }
    assert (Hinit : Forall ne init) by (rewrite Hll' in Hll; apply Forall_app in Hll; tauto).
    assert (Hlast : ne last) by (rewrite Hll' in Hll; apply Forall_app in Hll; destruct Hll as [_ H]; inversion H; assumption).
    assert (Hnn : ll <> []) by (rewrite Hll'; destruct init; discriminate).
    assert (Simple : good match merge_simple last l force with
                          | Keep => Ok ll | Replace d => Ok (init ++ [d]) | Append => Ok (ll ++ [l]) end).
    { destruct (merge_simple last l force) as [|d|] eqn:Em; cbn.
      - tauto.
      - split; [apply Forall_app; split; [assumption|constructor; [apply (merge_simple_ne _ _ _ _ Em)|constructor]]|destruct init; discriminate].
      - split; [apply Forall_app; split; [assumption|constructor; [assumption|constructor]]|destruct ll; discriminate]. }
    destruct last as [| | | | | |v]; try exact Simple.
    destruct l as [| | | | | |u]; try exact Simple.
    cbn [ne] in Hlast, Hl.
    pose proof (IH [u] v force ltac:(constructor; [assumption|constructor]) Hlast) as G1.
    destruct (ll_push f [u] v force) as [tmp|k| |]; cbn [obind good] in *; try tauto.
    destruct G1 as [Gt Gn].
    pose proof (foldp_good (fun a x => ll_push f a x true) (fun a x Ha Hx => IH a x true Ha Hx) tmp [] ltac:(constructor) Gt ltac:(right; assumption)) as G2.
    change (foldp (fun a x => ll_push f a x true) [] tmp) with
      ((fix go (acc xs : list loc) : out (list loc) :=
          match xs with [] => Ok acc | x :: t => acc' <- ll_push f acc x true ;; go acc' t end) [] tmp) in G2.
    destruct ((fix go (acc xs : list loc) : out (list loc) :=
          match xs with [] => Ok acc | x :: t => acc' <- ll_push f acc x true ;; go acc' t end) [] tmp) as [pushed|k| |];
      cbn [obind good] in *; try tauto.
    destruct G2 as [Gp Gpn]. destruct pushed as [|x [|y r]]; [contradiction| |].
    - cbn. split; [apply Forall_app; split; [assumption|]|destruct init; discriminate].
      constructor; [|constructor]. cbn [ne]. inversion Gp; assumption.
    - cbn. split; [apply Forall_app; split; [assumption|]|destruct init; discriminate].
      constructor; [|constructor]. change (ne (Joined (x :: y :: r))). apply ne_joined. split; [discriminate|assumption]. }
  destruct l as [p|p|s e a b|s e|js|os|c]; try (apply NJ; reflexivity).
  apply ne_joined in Hl. destruct Hl as [Hj1 Hj2].
  pose proof (foldp_good (fun a x => ll_push f a x force) (fun a x Ha Hx => IH a x force Ha Hx) js ll Hll Hj2 ltac:(right; assumption)) as G.
  exact G.
Qed.

Lemma ll_push_all_good f xs : forall acc force, Forall ne acc -> Forall ne xs -> (acc <> [] \/ xs <> []) ->
  good (ll_push_all f acc xs force).
Proof.
  induction xs as [|x t IH]; intros acc force Ha Hx Hn; cbn [ll_push_all].
  - cbn. split; [assumption|]. destruct Hn; [assumption|contradiction].
  - inversion Hx; subst. pose proof (ll_push_good f acc x force Ha ltac:(assumption)) as G.
    destruct (ll_push f acc x force); cbn [obind good] in *; try tauto. apply IH; tauto.
Qed.

Theorem join_no_panic locs : locs <> [] -> Forall ne locs ->
  join locs <> Panic /\ (forall l, join locs = Ok l -> ne l).
Proof.
  intros Hn Hf. unfold join.
  pose proof (ll_push_all_good (S (S (list_size locs))) locs [] true ltac:(constructor) Hf ltac:(right; assumption)) as G.
  destruct (ll_push_all (S (S (list_size locs))) [] locs true) as [r|k| |]; cbn [obind good] in *; try tauto.
  - destruct G as [G1 G2]. destruct r as [|x [|y t]]; [contradiction| |].
    + split; [discriminate|]. intros l H; inversion H; subst. inversion G1; assumption.
    + split; [discriminate|]. intros l H; inversion H; subst. apply ne_joined. split; [discriminate|assumption].
  - split; [discriminate|intros; discriminate].
  - split; [discriminate|intros; discriminate].
Qed.

Lemma flatten_good f : forall locs, locs <> [] -> Forall ne locs ->
  flatten_locs f locs <> [] /\ Forall ne (flatten_locs f locs).
Proof.
  induction f as [|f IH]; intros locs Hn Hf; cbn [flatten_locs]; [tauto|].
  induction locs as [|l t IHt]; [contradiction|]. inversion Hf as [|? ? Hl Ht]; subst. cbn [flat_map].
  assert (Hd : (match l with Ordered xs => flatten_locs f xs | _ => [l] end) <> [] /\
               Forall ne (match l with Ordered xs => flatten_locs f xs | _ => [l] end)).
  { destruct l; try (split; [discriminate|constructor; [assumption|constructor]]).
    apply ne_ordered in Hl. apply IH; tauto. }
  destruct Hd as [Hd1 Hd2]. split.
  - intros E. apply app_eq_nil in E. tauto.
  - apply Forall_app. split; [assumption|]. destruct t as [|y t']; [constructor|]. apply IHt; [discriminate|assumption].
Qed.

Theorem order_no_panic locs : locs <> [] -> Forall ne locs ->
  order locs <> Panic /\ (forall l, order locs = Ok l -> ne l).
Proof.
  intros Hn Hf. unfold order. destruct (flatten_good (S (list_size locs)) locs Hn Hf) as [G1 G2].
  destruct (flatten_locs (S (list_size locs)) locs) as [|x [|y t]]; [contradiction| |].
  - split; [discriminate|]. intros l H; inversion H; subst. inversion G2; assumption.
  - split; [discriminate|]. intros l H; inversion H; subst. apply ne_ordered. split; [discriminate|assumption].
Qed.

Lemma complement_ne l : ne l -> ne (complement l).
Proof. destruct l; cbn [complement ne]; auto. Qed.
