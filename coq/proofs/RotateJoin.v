(* RotateJoin.v — Rotate on locations that contain join(...) (C04).
   Expand(0,n) and Normalize(L) are lifted through join/order/complement with
   liftJ; joins re-reduce their parts after each step, so the statement is up
   to adjacent duplicates (deq) and holds whenever the images of the leaves
   are free of the K1 shapes after each of the two steps. *)
From Coq Require Import List ZArith Lia Bool Permutation.
From GTS Require Import Base Arith Loc Seq BaseLemmas LocProofs EditProofs SeqProofs JoinSafe JoinDen RotateProofs JoinLift.
Import ListNotations.
Open Scope Z_scope.

Theorem expandA_den_all n L : 0 <= n -> forall l, wf_all (awf n L) l = true ->
  k1_after (fun x => expand x 0 n) l ->
  forall l', expand l 0 n = Ok l' -> deq (den l') (map (onpos (fun x => x + n)) (den l)).
Proof.
  intros Hn l Hw [HK HR] l' E0.
  assert (B : forall x, contiguous x -> awf n L x = true -> forall x', expand x 0 n = Ok x' ->
              deq (den x') (map (onpos (fun x => x + n)) (den x))).
  { intros x Hc Hx x' Ex. destruct (expandA_base n L Hn x Hc Hx) as (y & Ey & Dy & _).
    rewrite Ey in Ex. inversion Ex; subst. rewrite Dy. apply deq_refl. }
  exact (proj1 (liftJ (fun x => expand x 0 n) (fun d => d) (map (onpos (fun x => x + n))) (awf n L) false
     (fun _ => eq_refl) (fun _ => eq_refl) (fun _ => eq_refl)
     (fun _ _ => eq_refl) eq_refl (fun _ => eq_refl) (fun _ _ H => H)
     (fun a b => map_app _ a b) eq_refl (flip_rev_map _) B
     _ _ HK l Hw (images_okl _ l HR) l' E0)).
Qed.

Theorem normalize_den_all L : 0 < L -> forall l, wf_all (awf 0 L) l = true ->
  k1_after (fun x => normalize x L) l ->
  forall l', normalize l L = Ok l' -> deq (den l') (map (onpos (fun x => x mod L)) (den l)).
Proof.
  intros HL l Hw [HK HR] l' E0.
  assert (B : forall x, contiguous x -> awf 0 L x = true -> forall x', normalize x L = Ok x' ->
              deq (den x') (map (onpos (fun x => x mod L)) (den x))).
  { intros x Hc Hx x' Ex. destruct (normalize_base L HL x Hc Hx) as (y & Ey & Dy & _).
    rewrite Ey in Ex. inversion Ex; subst. rewrite Dy. apply deq_refl. }
  exact (proj1 (liftJ (fun x => normalize x L) (fun d => d) (map (onpos (fun x => x mod L))) (awf 0 L) false
     (fun _ => eq_refl) (fun _ => eq_refl) (fun _ => eq_refl)
     (fun _ _ => eq_refl) eq_refl (fun _ => eq_refl) (fun _ _ H => H)
     (fun a b => map_app _ a b) eq_refl (flip_rev_map _) B
     _ _ HK l Hw (images_okl _ l HR) l' E0)).
Qed.

(* the (decidable) side conditions of a rotation by n, 0 <= n < L *)
Definition rot_okb (n L : Z) (l : loc) : bool :=
  wf_all (awf n L) l && k1_afterb (fun x => expand x 0 n) l &&
  match expand l 0 n with
  | Ok l1 => wf_all (awf 0 L) l1 && k1_afterb (fun x => normalize x L) l1 &&
             match normalize l1 L with Ok _ => true | _ => false end
  | _ => false
  end.

Theorem rotate_den_all n L : 0 <= n < L -> forall l, rot_okb n L l = true ->
  exists l', rot_loc n L l = Ok l' /\ deq (den l') (map (onpos (fun x => (x + n) mod L)) (den l)).
Proof.
  intros Hn l H. unfold rot_okb in H.
  apply andb_true_iff in H as [H H3]. apply andb_true_iff in H as [H1 H2].
  destruct (expand l 0 n) as [l1| | |] eqn:E1; try discriminate.
  apply andb_true_iff in H3 as [H3 H6]. apply andb_true_iff in H3 as [H4 H5].
  destruct (normalize l1 L) as [l2| | |] eqn:E2; try discriminate.
  exists l2. unfold rot_loc. rewrite E1. cbn [obind]. split; [exact E2|].
  pose proof (expandA_den_all n L ltac:(lia) l H1 (k1_afterb_spec _ _ H2) l1 E1) as D1.
  pose proof (normalize_den_all L ltac:(lia) l1 H4 (k1_afterb_spec _ _ H5) l2 E2) as D2.
  eapply deq_trans; [exact D2|].
  eapply deq_trans; [apply deq_map, D1|]. rewrite map_map.
  erewrite map_ext; [apply deq_refl|]. intros [q c]. reflexivity.
Qed.

(* Rotate on a sequence whose features are join-free (rot_ok) or satisfy the
   side conditions above: every feature keeps key and qualifiers and denotes
   its former residues moved to (x + n) mod L, up to adjacent duplicates *)
Definition rot_ok2 (n L : Z) (f : feature) : Prop :=
  rot_ok n L f \/ rot_okb (n mod L) L (floc f) = true.

Theorem seq_rotate_features_joins s n : let L := zlen (residues s) in 0 < L ->
  Forall (rot_ok2 n L) (feats s) ->
  exists gg ls, seq_rotate s n = Ok (mkseq gg (skipn (Z.to_nat (L - n mod L)) (residues s) ++ firstn (Z.to_nat (L - n mod L)) (residues s))) /\
    Forall2 (fun f l => deq (den l) (map (onpos (fun x => (x + n) mod L)) (den (floc f)))) (feats s) ls /\
    Permutation gg (relocate (feats s) ls).
Proof.
  intros L HL Hok. unfold seq_rotate. fold L.
  replace (L =? 0) with false by (symmetry; apply Z.eqb_neq; lia).
  rewrite rot_amount by lia.
  pose proof (Z.mod_pos_bound n L HL) as Hn.
  assert (Hone : forall f, rot_ok2 n L f -> exists l', rot_loc (n mod L) L (floc f) = Ok l' /\
                   deq (den l') (map (onpos (fun x => (x + n) mod L)) (den (floc f)))).
  { intros f [(Hj & Ho & Hw)|Hb].
    - destruct (rotate_den (n mod L) L Hn (floc f) Hj Ho Hw) as (l' & E & D). exists l'. split; [exact E|].
      rewrite D. erewrite map_ext; [apply deq_refl|]. intros [q c]. unfold onpos. cbn [fst snd]. f_equal.
      apply Zplus_mod_idemp_r.
    - destruct (rotate_den_all (n mod L) L Hn (floc f) Hb) as (l' & E & D). exists l'. split; [exact E|].
      eapply deq_trans; [exact D|]. erewrite map_ext; [apply deq_refl|]. intros [q c]. unfold onpos. cbn [fst snd]. f_equal.
      apply Zplus_mod_idemp_r. }
  assert (HF : Forall (fun f => exists l, (fun l0 => l' <- expand l0 0 (n mod L) ;; normalize l' L) (floc f) = Ok l) (feats s)).
  { eapply Forall_impl; [|exact Hok]. intros f Hf. destruct (Hone f Hf) as (l' & E & _). exists l'. exact E. }
  destruct (insert_all_perm _ (feats s) [] HF) as (gg & ls & E & F & P).
  rewrite E. cbn [obind].
  assert (Hs1 : slice (residues s) (L - n mod L) L = Ok (skipn (Z.to_nat (L - n mod L)) (residues s))).
  { apply slice_suffix. fold L. lia. }
  assert (Hs2 : slice (residues s) 0 (L - n mod L) = Ok (firstn (Z.to_nat (L - n mod L)) (residues s))).
  { apply slice_prefix. fold L. lia. }
  rewrite Hs1. cbn [obind]. rewrite Hs2. cbn [obind].
  exists gg, ls. split; [reflexivity|]. split; [|exact P].
  clear E P HF. induction F as [|f l t ls' Hfl _ IHt]; [constructor|].
  inversion Hok as [|? ? Hf Hok']; subst. constructor; [|apply IHt; assumption].
  destruct (Hone f Hf) as (l' & E & D). unfold rot_loc in E. rewrite E in Hfl. inversion Hfl; subst l'. exact D.
Qed.
