(* NucProofs.v — C18: alphabet tables (finite sweeps over all 256 byte values,
   lifted with forallb_forall) and the Match / Search scanners (unbounded) *)
From GTS Require Import Base Arith Tables Loc Seq Nuc BaseLemmas LocProofs.
Open Scope Z_scope.

Definition all_bytes : list Z := zrange 0 256.

Lemma in_all_bytes b : 0 <= b < 256 -> In b all_bytes.
Proof.
  intros H. unfold all_bytes, zrange. change (Z.to_nat (256 - 0)) with 256%nat.
  assert (G : forall n s x, s <= x < s + Z.of_nat n -> In x (zrange_n s n)).
  { induction n as [|n IH]; intros s x Hx; [lia|]. cbn [zrange_n].
    destruct (Z.eq_dec x s) as [->|Hne]; [now left|]. right. apply IH. lia. }
  apply G. lia.
Qed.

(* ---------- complement table *)

Definition complement_ok (b : byte) : bool :=
  match complement_byte b with
  | Ok c =>
    match iupac_mask b with
    | Some m =>
      match iupac_mask c with
      | Some m' => (m' =? compl_mask m) && Bool.eqb (ascii_is_upper b) (ascii_is_upper c)
      | None => false
      end
    | None => c =? b
    end
  | _ => false
  end.

Lemma complement_table_all : forallb complement_ok all_bytes = true.
Proof. vm_compute. reflexivity. Qed.

Lemma complement_table b : 0 <= b < 256 -> complement_ok b = true.
Proof.
  intros H. pose proof complement_table_all as HA. rewrite forallb_forall in HA.
  apply HA. now apply in_all_bytes.
Qed.

(* involution up to U -> A -> T *)
Definition complement_invol_ok (b : byte) : bool :=
  match complement_byte b with
  | Ok c =>
    match complement_byte c with
    | Ok d => d =? (if b =? 85 then 84 else if b =? 117 then 116 else b)
    | _ => false
    end
  | _ => false
  end.

Lemma complement_invol_all : forallb complement_invol_ok all_bytes = true.
Proof. vm_compute. reflexivity. Qed.

Lemma complement_invol b : 0 <= b < 256 -> complement_invol_ok b = true.
Proof.
  intros H. pose proof complement_invol_all as HA. rewrite forallb_forall in HA.
  apply HA. now apply in_all_bytes.
Qed.

(* transcribe differs only in writing U for the complement of A *)
Definition transcribe_ok (b : byte) : bool :=
  match complement_byte b, transcribe_byte b with
  | Ok c, Ok t => t =? (if c =? 84 then 85 else if c =? 116 then 117 else c)
  | _, _ => false
  end.

Lemma transcribe_all : forallb transcribe_ok all_bytes = true.
Proof. vm_compute. reflexivity. Qed.

Lemma transcribe_table b : 0 <= b < 256 -> transcribe_ok b = true.
Proof.
  intros H. pose proof transcribe_all as HA. rewrite forallb_forall in HA.
  apply HA. now apply in_all_bytes.
Qed.

(* length preserved, no panic: both alphabets pair up *)
Lemma replace_bytes_length old new p r :
  replace_bytes p old new = Ok r -> length r = length p.
Proof.
  unfold replace_bytes. revert r. induction p as [|c t IH]; intros r H; cbn [omapM] in H.
  - now inversion H.
  - destruct (replace_byte old new c); try discriminate. cbn [obind] in H.
    destruct (omapM (replace_byte old new) t) eqn:E; try discriminate. cbn [obind] in H.
    inversion H; subst. cbn [length]. f_equal. now apply IH.
Qed.

Lemma complement_bytes_total p : Forall (fun b => 0 <= b < 256) p ->
  exists r, complement_bytes p = Ok r /\ length r = length p.
Proof.
  intros H. unfold complement_bytes, replace_bytes.
  induction H as [|c t Hc _ [r [Hr Hl]]]; [exists []; split; reflexivity|].
  pose proof (complement_table c Hc) as Hok. unfold complement_ok, complement_byte in Hok.
  cbn [omapM]. destruct (replace_byte complement_from complement_to c) eqn:E; try discriminate.
  cbn [obind]. rewrite Hr. cbn [obind]. eexists; split; [reflexivity|]. cbn [length]. now rewrite Hl.
Qed.

(* ---------- match table: IUPAC letters, both cases, against the generated switch *)

Definition iupac_letters : list byte :=
  [97; 99; 103; 116; 117; 114; 121; 107; 109; 115; 119; 98; 100; 104; 118; 110].

Definition table_ok_for (q s : byte) : bool :=
  match iupac_lower_mask q, iupac_lower_mask s with
  | Some mq, Some ms => Bool.eqb (cls_accepts (cls_of q) s) (mask_subset ms mq)
  | _, _ => true
  end.

(* every query letter except k (known finding K3, pinned by TestMatch) *)
Lemma match_table_all :
  forallb (fun q => (q =? 107) || forallb (table_ok_for q) iupac_letters) iupac_letters = true.
Proof. vm_compute. reflexivity. Qed.

Lemma match_table q s : In q iupac_letters -> In s iupac_letters -> q <> 107 ->
  table_ok_for q s = true.
Proof.
  intros Hq Hs Hk. pose proof match_table_all as HA. rewrite forallb_forall in HA.
  specialize (HA q Hq). apply orb_true_iff in HA as [HA|HA].
  - apply Z.eqb_eq in HA. congruence.
  - rewrite forallb_forall in HA. now apply HA.
Qed.

(* K3: the row for k is [gtuy]; IUPAC k = {g,t} accepts k and rejects y *)
Lemma match_k_refuted :
  cls_accepts (cls_of 107) 121 = true /\ cls_accepts (cls_of 107) 107 = false.
Proof. vm_compute. split; reflexivity. Qed.

(* non-alphabet query bytes are literals that match only themselves *)
Lemma literal_class q x : find_row match_rows q = None -> match_default_quoted = true ->
  cls_accepts (cls_of q) x = (x =? q).
Proof. intros H1 H2. unfold cls_of. rewrite H1, H2. reflexivity. Qed.

Lemma default_is_quoted : match_default_quoted = true.
Proof. reflexivity. Qed.

(* ---------- the scanner *)

Lemma skipn_length_le {A} n (l : list A) : (length (skipn n l) <= length l)%nat.
Proof. rewrite skipn_length. lia. Qed.

(* positions are tracked relative to the whole sequence s0 *)
Lemma scan_sound fuel cs m : forall s pos (s0 : list byte),
  m = length cs -> (0 < m)%nat ->
  s = skipn (Z.to_nat pos) s0 -> 0 <= pos ->
  forall a b, In (a, b) (scan fuel cs m s pos) ->
    b = a + Z.of_nat m /\ pos <= a /\ matches_here cs (skipn (Z.to_nat a) s0) = true.
Proof.
  induction fuel as [|f IH]; intros s pos s0 Hm Hm0 Hs Hpos a b Hin; [contradiction|].
  cbn [scan] in Hin. destruct s as [|x t]; [contradiction|].
  destruct (matches_here cs (x :: t)) eqn:E.
  - destruct Hin as [Heq|Hin].
    + inversion Heq; subst a b. repeat split; [lia|]. rewrite <- Hs. exact E.
    + destruct (IH (skipn m (x :: t)) (pos + Z.of_nat m) s0 Hm Hm0) with (a := a) (b := b)
        as [H1 [H2 H3]]; try assumption; try lia.
      * rewrite Hs, skipn_skipn. f_equal. lia.
      * repeat split; [exact H1 | lia | exact H3].
  - destruct (IH t (pos + 1) s0 Hm Hm0) with (a := a) (b := b) as [H1 [H2 H3]]; try assumption; try lia.
    + replace (Z.to_nat (pos + 1)) with (Z.to_nat pos + 1)%nat by lia.
      rewrite <- skipn_skipn, <- Hs. reflexivity.
    + repeat split; [exact H1 | lia | exact H3].
Qed.

Lemma matches_here_length cs s : matches_here cs s = true -> (length cs <= length s)%nat.
Proof.
  revert s. induction cs as [|c ct IH]; intros s H; [cbn; lia|].
  destruct s as [|x st]; [discriminate|]. cbn [matches_here] in H.
  apply andb_true_iff in H as [_ H]. apply IH in H. cbn [length]. lia.
Qed.

(* every matching start position is reported or lies inside a reported segment *)
Lemma scan_complete fuel cs m : forall s pos (s0 : list byte),
  m = length cs -> (0 < m)%nat ->
  s = skipn (Z.to_nat pos) s0 -> 0 <= pos -> (length s < fuel)%nat ->
  forall i, pos <= i -> matches_here cs (skipn (Z.to_nat i) s0) = true ->
  exists a b, In (a, b) (scan fuel cs m s pos) /\ a <= i < b.
Proof.
  induction fuel as [|f IH]; intros s pos s0 Hm Hm0 Hs Hpos Hf i Hi Hmatch; [lia|].
  cbn [scan]. destruct s as [|x t].
  - (* nothing left: a match at i >= pos needs m > 0 bytes *)
    exfalso. apply matches_here_length in Hmatch. rewrite skipn_length in Hmatch.
    assert (length (skipn (Z.to_nat pos) s0) = O) by (rewrite <- Hs; reflexivity).
    rewrite skipn_length in H. lia.
  - destruct (matches_here cs (x :: t)) eqn:E.
    + destruct (Z.lt_ge_cases i (pos + Z.of_nat m)) as [Hlt|Hge].
      * exists pos, (pos + Z.of_nat m). split; [now left | lia].
      * destruct (IH (skipn m (x :: t)) (pos + Z.of_nat m) s0 Hm Hm0) with (i := i)
          as [a [b [Hin Hab]]]; try assumption; try lia.
        -- rewrite Hs, skipn_skipn. f_equal. lia.
        -- rewrite skipn_length. cbn [length] in *. lia.
        -- exists a, b. split; [now right | exact Hab].
    + destruct (Z.eq_dec i pos) as [->|Hne].
      * rewrite <- Hs in Hmatch. congruence.
      * destruct (IH t (pos + 1) s0 Hm Hm0) with (i := i) as [a [b [Hin Hab]]]; try assumption; try lia.
        -- replace (Z.to_nat (pos + 1)) with (Z.to_nat pos + 1)%nat by lia.
           rewrite <- skipn_skipn, <- Hs. reflexivity.
        -- cbn [length] in Hf. lia.
        -- exists a, b. split; [exact Hin | exact Hab].
Qed.

(* ---------- Search *)

Lemma occurrences_spec fuel q m : forall s pos (s0 : list byte),
  s = skipn (Z.to_nat pos) s0 -> 0 <= pos -> (length s <= fuel)%nat ->
  forall a b, In (a, b) (occurrences fuel q m s pos) <->
    (b = a + m /\ pos <= a < pos + Z.of_nat (length s) /\ is_prefix q (skipn (Z.to_nat a) s0) = true).
Proof.
  induction fuel as [|f IH]; intros s pos s0 Hs Hpos Hf a b.
  - destruct s; [|cbn in Hf; lia]. cbn. split; [contradiction | lia].
  - cbn [occurrences]. destruct s as [|x t].
    + cbn. split; [contradiction | lia].
    + rewrite in_app_iff.
      assert (Ht : t = skipn (Z.to_nat (pos + 1)) s0).
      { replace (Z.to_nat (pos + 1)) with (Z.to_nat pos + 1)%nat by lia.
        rewrite <- skipn_skipn, <- Hs. reflexivity. }
      rewrite (IH t (pos + 1) s0 Ht ltac:(lia) ltac:(cbn in Hf; lia)).
      cbn [length]. split.
      * intros [H|H].
        -- destruct (is_prefix q (x :: t)) eqn:E; [|contradiction].
           destruct H as [H|[]]. inversion H; subst a b. rewrite <- Hs. repeat split; try lia. exact E.
        -- destruct H as [H1 [H2 H3]]. repeat split; try lia. exact H3.
      * intros [H1 [H2 H3]]. destruct (Z.eq_dec a pos) as [->|Hne].
        -- left. rewrite <- Hs in H3. rewrite H3. left. now subst b.
        -- right. repeat split; try lia. exact H3.
Qed.

Lemma occurrences_sorted fuel q m : forall s pos,
  forall l, l = occurrences fuel q m s pos ->
  Forall (fun ab => pos <= fst ab) l /\
  (fix asc (l : list (Z * Z)) : Prop :=
     match l with
     | a :: ((b :: _) as t) => fst a < fst b /\ asc t
     | _ => True
     end) l.
Proof.
  induction fuel as [|f IH]; intros s pos l ->; [split; [constructor | exact I]|].
  cbn [occurrences]. destruct s as [|x t]; [split; [constructor | exact I]|].
  destruct (IH t (pos + 1) _ eq_refl) as [H1 H2].
  destruct (is_prefix q (x :: t)); cbn [app].
  - split.
    + constructor; [cbn; lia|]. eapply Forall_impl; [|exact H1]. cbn beta. intros; lia.
    + destruct (occurrences f q m t (pos + 1)) as [|b u] eqn:E; [exact I|].
      split; [|exact H2]. inversion H1; subst. cbn [fst] in *. lia.
  - split; [|exact H2]. eapply Forall_impl; [|exact H1]. cbn beta. intros; lia.
Qed.
