(* JoinDen.v — C06: the reductions of gts.Join (LocationList.Push) never change
   the ordered, stranded list of residues a location denotes, up to dropping
   adjacent duplicates — whenever no point coordinate coincides with the end
   of a range (the K1 pattern, which the code does get wrong). *)
From Coq Require Import List ZArith Lia Bool.
From GTS Require Import Base Arith Loc BaseLemmas LocProofs JoinSafe.
Import ListNotations.
Open Scope Z_scope.

(* equal up to dropping adjacent duplicates *)
Inductive deq {A} : list A -> list A -> Prop :=
| deq_refl l : deq l l
| deq_sym a b : deq a b -> deq b a
| deq_trans a b c : deq a b -> deq b c -> deq a c
| deq_app a a' b b' : deq a a' -> deq b b' -> deq (a ++ b) (a' ++ b')
| deq_dup x : deq [x; x] [x].

Lemma deq_rev {A} (a b : list A) : deq a b -> deq (rev a) (rev b).
Proof.
  induction 1 as [l|a b _ IH|a b c _ IH1 _ IH2|a a' b b' _ IH1 _ IH2|x].
  - apply deq_refl.
  - now apply deq_sym.
  - eapply deq_trans; eassumption.
  - rewrite !rev_app_distr. now apply deq_app.
  - apply deq_dup.
Qed.

Lemma deq_map {A B} (f : A -> B) (a b : list A) : deq a b -> deq (map f a) (map f b).
Proof.
  induction 1 as [l|a b _ IH|a b c _ IH1 _ IH2|a a' b b' _ IH1 _ IH2|x].
  - apply deq_refl.
  - now apply deq_sym.
  - eapply deq_trans; eassumption.
  - rewrite !map_app. now apply deq_app.
  - apply deq_dup.
Qed.

Lemma deq_cons_dup {A} (x : A) t : deq (x :: t) (x :: x :: t).
Proof. change (deq ([x] ++ t) ([x; x] ++ t)). apply deq_app; [apply deq_sym, deq_dup|apply deq_refl]. Qed.

(* deq keeps the set of elements ... *)
Lemma deq_in {A} (a b : list A) : deq a b -> forall x, In x a <-> In x b.
Proof.
  induction 1 as [l|a b _ IH|a b c _ IH1 _ IH2|a a' b b' _ IH1 _ IH2|y]; intros x.
  - tauto.
  - symmetry. apply IH.
  - rewrite IH1. apply IH2.
  - rewrite !in_app_iff, IH1, IH2. tauto.
  - cbn [In]. tauto.
Qed.

(* ... and deq lists have the same canonical form (adjacent duplicates
   dropped), so the order of first occurrences is kept as well *)
Section DD.
  Context {A : Type} (eqb : A -> A -> bool).
  Hypothesis eqb_spec : forall x y, eqb x y = true <-> x = y.

  Definition dcons (x : A) (acc : list A) : list A :=
    match acc with
    | y :: _ => if eqb x y then acc else x :: acc
    | [] => [x]
    end.
  Definition dd (l : list A) : list A := fold_right dcons [] l.

  Lemma dcons_idem x z : dcons x (dcons x z) = dcons x z.
  Proof.
    pose proof (proj2 (eqb_spec x x) eq_refl) as Hxx.
    destruct z as [|y r]; cbn [dcons].
    - now rewrite Hxx.
    - destruct (eqb x y) eqn:E; cbn [dcons]; [now rewrite E|now rewrite Hxx].
  Qed.

  Lemma fold_dd c a : fold_right dcons c a = fold_right dcons c (dd a).
  Proof.
    induction a as [|x t IH]; [reflexivity|].
    cbn [fold_right]. unfold dd. cbn [fold_right]. fold (dd t). rewrite IH.
    destruct (dd t) as [|y r] eqn:Et; [reflexivity|].
    cbn [dcons]. destruct (eqb x y) eqn:E.
    - apply eqb_spec in E. subst y. cbn [fold_right]. apply dcons_idem.
    - reflexivity.
  Qed.

  Lemma dd_app a b : dd (a ++ b) = fold_right dcons (dd b) (dd a).
  Proof. unfold dd at 1. rewrite fold_right_app. fold (dd b). apply fold_dd. Qed.

  Lemma deq_dd a b : deq a b -> dd a = dd b.
  Proof.
    induction 1 as [l|a b _ IH|a b c _ IH1 _ IH2|a a' b b' _ IH1 _ IH2|x].
    - reflexivity.
    - now symmetry.
    - now rewrite IH1.
    - now rewrite !dd_app, IH1, IH2.
    - unfold dd. cbn [fold_right dcons]. now rewrite (proj2 (eqb_spec x x) eq_refl).
  Qed.
End DD.

Definition pos_eqb (a b : Z * bool) : bool := (fst a =? fst b) && Bool.eqb (snd a) (snd b).
Lemma pos_eqb_spec a b : pos_eqb a b = true <-> a = b.
Proof.
  destruct a as [p c], b as [q d]. unfold pos_eqb. cbn [fst snd].
  rewrite andb_true_iff, Z.eqb_eq, Bool.eqb_true_iff. split; [intros [-> ->]; reflexivity|intros H; inversion H; auto].
Qed.

(* ---------- coordinates that matter for K1, and well-formed ranges *)

Fixpoint ends (l : loc) : list Z :=
  match l with
  | Ranged _ e _ _ => [e]
  | Joined ls | Ordered ls => flat_map ends ls
  | Complemented x => ends x
  | _ => []
  end.

Fixpoint pts (l : loc) : list Z :=
  match l with
  | Point p => [p]
  | Joined ls | Ordered ls => flat_map pts ls
  | Complemented x => pts x
  | _ => []
  end.

Fixpoint rokb (l : loc) : bool :=
  match l with
  | Ranged s e _ _ => s <? e
  | Joined ls | Ordered ls => forallb rokb ls
  | Complemented x => rokb x
  | _ => true
  end.

Definition D (ll : list loc) : list (Z * bool) := flat_map den ll.

Lemma D_app a b : D (a ++ b) = D a ++ D b.
Proof. apply flat_map_app. Qed.

Section K1Free.
  Variables E P : list Z.
  Hypothesis K : forall e p, In e E -> In p P -> e <> p.

  Definition okl (l : loc) : Prop := incl (ends l) E /\ incl (pts l) P /\ rokb l = true.

  Lemma okl_joined js : okl (Joined js) <-> Forall okl js.
  Proof.
    unfold okl. cbn [ends pts rokb]. induction js as [|j t IH]; cbn [flat_map forallb].
    - split; [constructor|]. intros _. repeat split; try apply incl_nil_l.
    - split.
      + intros (H1 & H2 & H3). apply andb_true_iff in H3 as [H3 H4].
        apply incl_app_inv in H1 as [H1 H1']. apply incl_app_inv in H2 as [H2 H2'].
        constructor; [tauto|]. apply IH. tauto.
      + intros H. inversion H as [|? ? (A1 & A2 & A3) Ht]; subst. apply IH in Ht. destruct Ht as (B1 & B2 & B3).
        repeat split; try (apply incl_app; assumption). now rewrite A3, B3.
  Qed.

  Lemma okl_compl x : okl (Complemented x) <-> okl x.
  Proof. unfold okl. cbn [ends pts rokb]. tauto. Qed.

  Definition goodD (ll : list loc) (extra : list (Z * bool)) (o : out (list loc)) : Prop :=
    match o with
    | Ok r => Forall okl r /\ deq (D r) (D ll ++ extra)
    | _ => True
    end.

  Lemma merge_den v u force : okl v -> okl u ->
    match merge_simple v u force with
    | Keep => deq (den v) (den v ++ den u)
    | Replace d => okl d /\ deq (den d) (den v ++ den u)
    | Append => True
    end.
  Proof.
    intros (Ev & Pv & Rv) (Eu & Pu & Ru).
    destruct v as [v|v|vs ve a b|vs ve| | |], u as [u|u|us ue c d|us ue| | |]; cbn [merge_simple]; try exact I.
    - destruct (v =? u); [|exact I]. cbn [den app]. apply deq_refl.
    - destruct (v =? u); [|exact I]. split; [repeat split; assumption|]. cbn [den app]. apply deq_refl.
    - destruct (v =? us); [|exact I]. split; [repeat split; assumption|]. cbn [den app]. apply deq_refl.
    - destruct (v + 1 =? u); [|exact I]. cbn [den]. rewrite app_nil_r. apply deq_refl.
    - destruct (Z.eqb_spec v u) as [->|]; [|exact I]. cbn [den app]. apply deq_sym, deq_dup.
    - destruct (Z.eqb_spec v us) as [->|]; [|exact I]. split; [repeat split; assumption|].
      cbn [rokb] in Ru. apply Z.ltb_lt in Ru. cbn [den app].
      unfold zrange. replace (Z.to_nat (ue - us)) with (S (Z.to_nat (ue - us - 1))) by lia.
      cbn [zrange_n map]. apply deq_cons_dup.
    - destruct (ve =? u); [|exact I]. cbn [den]. rewrite app_nil_r. apply deq_refl.
    - destruct (Z.eqb_spec ve u) as [->|]; [|exact I]. exfalso.
      apply (K u u); [apply Ev; cbn [ends]; now left|apply Pu; cbn [pts]; now left|reflexivity].
    - destruct (((b && c) || force) && (ve =? us)) eqn:Em; [|exact I].
      apply andb_true_iff in Em as [_ Em]. apply Z.eqb_eq in Em. subst us.
      cbn [rokb] in Rv, Ru. apply Z.ltb_lt in Rv. apply Z.ltb_lt in Ru.
      split.
      + repeat split; [exact Eu|exact Pv|cbn [rokb]; apply Z.ltb_lt; lia].
      + cbn [den]. rewrite <- map_app, <- (zrange_split vs ve ue) by lia. apply deq_refl.
  Qed.

  Section Fold.
    Variable push1 : list loc -> loc -> out (list loc).
    Hypothesis Hpush : forall ll l, Forall okl ll -> okl l -> goodD ll (den l) (push1 ll l).
    Lemma foldp_goodD js : forall ll, Forall okl ll -> Forall okl js -> goodD ll (D js) (foldp push1 ll js).
    Proof.
      induction js as [|j t IH]; intros ll Hll Hjs; cbn [foldp].
      - cbn. split; [assumption|]. unfold D at 2. cbn [flat_map]. rewrite app_nil_r. apply deq_refl.
      - inversion Hjs as [|? ? Hj Ht]; subst. pose proof (Hpush ll j Hll Hj) as G.
        destruct (push1 ll j) as [r|k| |]; cbn [obind goodD] in *; try exact I.
        destruct G as [G1 G2]. pose proof (IH r G1 Ht) as G3.
        destruct (foldp push1 r t) as [r'|k| |]; cbn [goodD] in *; try exact I.
        destruct G3 as [G3 G4]. split; [exact G3|].
        eapply deq_trans; [exact G4|]. change (D (j :: t)) with (den j ++ D t).
        rewrite app_assoc. apply deq_app; [exact G2|apply deq_refl].
    Qed.
  End Fold.

  Lemma den_single_or_joined xs : xs <> [] ->
    den (match xs with [x] => x | _ => Joined xs end) = D xs.
  Proof.
    destruct xs as [|x [|y t]]; [contradiction| |]; intros _.
    - unfold D. cbn [flat_map]. now rewrite app_nil_r.
    - reflexivity.
  Qed.

  Lemma ll_push_goodD f : forall ll l force, Forall okl ll -> okl l -> goodD ll (den l) (ll_push f ll l force).
  Proof.
    induction f as [|f IH]; intros ll l force Hll Hl; cbn [ll_push]; [exact I|].
    assert (NJ : forall (Pr : out (list loc)),
      (Pr = match split_last ll with
           | None => Ok [l]
           | Some (init, last) =>
             match last, l with
             | Complemented v, Complemented u =>
               tmp <- ll_push f [u] v force ;;
               pushed <- (fix go (acc xs : list loc) : out (list loc) :=
                            match xs with [] => Ok acc | x :: t => acc' <- ll_push f acc x true ;; go acc' t end) [] tmp ;;
               match pushed with
               | [] => Panic
               | [x] => Ok (init ++ [Complemented x])
               | xs => Ok (init ++ [Complemented (Joined xs)])
               end
             | _, _ =>
               match merge_simple last l force with
               | Keep => Ok ll
               | Replace d => Ok (init ++ [d])
               | Append => Ok (ll ++ [l])
               end
             end
           end) -> goodD ll (den l) Pr).
    { intros Pr ->. destruct (split_last ll) as [[init last]|] eqn:Es.
      2:{ apply split_last_none in Es. subst ll. cbn. split; [constructor; [assumption|constructor]|].
          unfold D. cbn [flat_map]. rewrite app_nil_r. apply deq_refl. }
      assert (Hll' : ll = init ++ [last]).
      { destruct (split_last_some ll) as (i & z & H1 & H2); [intros ->; discriminate|]. rewrite H1 in Es. inversion Es; subst. reflexivity. }
      assert (Hinit : Forall okl init) by (rewrite Hll' in Hll; apply Forall_app in Hll; tauto).
      assert (Hlast : okl last) by (rewrite Hll' in Hll; apply Forall_app in Hll; destruct Hll as [_ H]; inversion H; assumption).
      assert (HD : D ll = D init ++ den last).
      { rewrite Hll', D_app. unfold D at 2. cbn [flat_map]. now rewrite app_nil_r. }
      assert (Simple : goodD ll (den l) match merge_simple last l force with
                            | Keep => Ok ll | Replace d => Ok (init ++ [d]) | Append => Ok (ll ++ [l]) end).
      { pose proof (merge_den last l force Hlast Hl) as M.
        destruct (merge_simple last l force) as [|d|] eqn:Em; cbn.
        - split; [assumption|]. rewrite HD, <- app_assoc. apply deq_app; [apply deq_refl|exact M].
        - destruct M as [Md Mq]. split; [apply Forall_app; split; [assumption|constructor; [assumption|constructor]]|].
          rewrite D_app, HD, <- app_assoc. apply deq_app; [apply deq_refl|].
          unfold D. cbn [flat_map]. rewrite app_nil_r. exact Mq.
        - split; [apply Forall_app; split; [assumption|constructor; [assumption|constructor]]|].
          rewrite D_app. unfold D at 2. cbn [flat_map]. rewrite app_nil_r. apply deq_refl. }
      destruct last as [| | | | | |v]; try exact Simple.
      destruct l as [| | | | | |u]; try exact Simple.
      apply okl_compl in Hlast. apply okl_compl in Hl.
      pose proof (IH [u] v force ltac:(constructor; [assumption|constructor]) Hlast) as G1.
      destruct (ll_push f [u] v force) as [tmp|k| |]; cbn [obind goodD] in *; try exact I.
      destruct G1 as [Gt Gd].
      pose proof (foldp_goodD (fun a x => ll_push f a x true) (fun a x Ha Hx => IH a x true Ha Hx) tmp [] ltac:(constructor) Gt) as G2.
      change (foldp (fun a x => ll_push f a x true) [] tmp) with
        ((fix go (acc xs : list loc) : out (list loc) :=
            match xs with [] => Ok acc | x :: t => acc' <- ll_push f acc x true ;; go acc' t end) [] tmp) in G2.
      destruct ((fix go (acc xs : list loc) : out (list loc) :=
            match xs with [] => Ok acc | x :: t => acc' <- ll_push f acc x true ;; go acc' t end) [] tmp) as [pushed|k| |];
        cbn [obind goodD] in *; try exact I.
      destruct G2 as [Gp Gq].
      assert (Hden : deq (D pushed) (den u ++ den v)).
      { eapply deq_trans; [exact Gq|]. change (D []) with (@nil (Z * bool)). cbn [app].
        eapply deq_trans; [exact Gd|]. unfold D. cbn [flat_map]. rewrite app_nil_r. apply deq_refl. }
      assert (Hfin : forall X, okl X -> den X = D pushed ->
                goodD ll (den (Complemented u)) (Ok (init ++ [Complemented X]))).
      { intros X HX HdX. cbn [goodD]. split; [apply Forall_app; split; [assumption|constructor; [now apply okl_compl|constructor]]|].
        rewrite D_app, HD, <- app_assoc. apply deq_app; [apply deq_refl|].
        unfold D. cbn [flat_map]. rewrite app_nil_r.
        rewrite !den_complemented, HdX. rewrite <- (rev_app_distr (map flipd (den u)) (map flipd (den v))), <- map_app.
        apply deq_rev, deq_map. exact Hden. }
      destruct pushed as [|x [|y r]]; [exact I| |].
      - apply Hfin; [inversion Gp; assumption|]. unfold D. cbn [flat_map]. now rewrite app_nil_r.
      - apply Hfin; [apply okl_joined; assumption|reflexivity]. }
    destruct l as [p|p|s e a b|s e|js|os|c]; try (apply NJ; reflexivity).
    apply okl_joined in Hl.
    exact (foldp_goodD (fun a x => ll_push f a x force) (fun a x Ha Hx => IH a x force Ha Hx) js ll Hll Hl).
  Qed.

  Lemma ll_push_all_goodD f xs : forall acc force, Forall okl acc -> Forall okl xs ->
    goodD acc (D xs) (ll_push_all f acc xs force).
  Proof.
    induction xs as [|x t IH]; intros acc force Ha Hx; cbn [ll_push_all].
    - cbn. split; [assumption|]. change (D []) with (@nil (Z * bool)). rewrite app_nil_r. apply deq_refl.
    - inversion Hx as [|? ? Hx1 Hx2]; subst. pose proof (ll_push_goodD f acc x force Ha Hx1) as G.
      destruct (ll_push f acc x force) as [r|k| |]; cbn [obind goodD] in *; try exact I.
      destruct G as [G1 G2]. pose proof (IH r force G1 Hx2) as G3.
      destruct (ll_push_all f r t force) as [r'|k| |]; cbn [goodD] in *; try exact I.
      destruct G3 as [G3 G4]. split; [exact G3|].
      eapply deq_trans; [exact G4|]. change (D (x :: t)) with (den x ++ D t).
      rewrite app_assoc. apply deq_app; [exact G2|apply deq_refl].
  Qed.

  Theorem join_den_closed locs j : Forall okl locs -> join locs = Ok j ->
    deq (den j) (D locs) /\ okl j.
  Proof.
    intros Hok E0. unfold join in E0.
    pose proof (ll_push_all_goodD (S (S (list_size locs))) locs [] true ltac:(constructor) Hok) as G.
    destruct (ll_push_all (S (S (list_size locs))) [] locs true) as [r|k| |]; cbn [obind goodD] in *; try discriminate.
    destruct G as [G1 G2]. change (D []) with (@nil (Z * bool)) in G2. cbn [app] in G2.
    destruct r as [|x [|y t]]; [discriminate| |]; inversion E0; subst.
    - split; [|inversion G1; assumption]. unfold D in G2 at 1. cbn [flat_map] in G2. now rewrite app_nil_r in G2.
    - split; [exact G2|]. now apply okl_joined.
  Qed.
End K1Free.

(* the closed statement: the K1 coordinates are those of the arguments *)
Definition k1_free (locs : list loc) : Prop :=
  forall e p, In e (flat_map ends locs) -> In p (flat_map pts locs) -> e <> p.

Theorem join_den locs j : k1_free locs -> forallb rokb locs = true -> join locs = Ok j ->
  deq (den j) (flat_map den locs).
Proof.
  intros HK HR E0.
  apply (join_den_closed (flat_map ends locs) (flat_map pts locs) HK locs j); [|exact E0].
  apply forallb_Forall in HR. clear E0 HK.
  apply Forall_forall. intros l Hl. rewrite Forall_forall in HR. repeat split.
  - intros z Hz. apply in_flat_map. exists l. tauto.
  - intros z Hz. apply in_flat_map. exists l. tauto.
  - apply HR, Hl.
Qed.

(* the same statement through the canonical form *)
Corollary join_den_dd locs j : k1_free locs -> forallb rokb locs = true -> join locs = Ok j ->
  dd pos_eqb (den j) = dd pos_eqb (flat_map den locs) /\
  (forall x, In x (den j) <-> In x (flat_map den locs)).
Proof.
  intros HK HR E0. pose proof (join_den locs j HK HR E0) as H. split.
  - apply (deq_dd pos_eqb pos_eqb_spec), H.
  - apply deq_in, H.
Qed.

(* a decision procedure for k1_free (used by the examples) *)
Definition k1_freeb (locs : list loc) : bool :=
  forallb (fun e => forallb (fun p => negb (e =? p)) (flat_map pts locs)) (flat_map ends locs).

Lemma k1_freeb_spec locs : k1_freeb locs = true -> k1_free locs.
Proof.
  unfold k1_freeb, k1_free. intros H e p He Hp. rewrite forallb_forall in H.
  specialize (H e He). rewrite forallb_forall in H. specialize (H p Hp).
  apply negb_true_iff, Z.eqb_neq in H. exact H.
Qed.
