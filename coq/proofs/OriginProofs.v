(* OriginProofs.v — lemmas behind props/C16.v *)
From GTS Require Import Base Arith Pars Origin BaseLemmas.
Open Scope Z_scope.

(* ---------- the generated size arithmetic *)

Lemma from_to n : 0 <= n -> go_fromOriginLength (go_toOriginLength n) = n.
Proof.
  intros Hn. unfold go_fromOriginLength, go_toOriginLength, gdiv, gmod.
  destruct (Z.rem n 60 =? 0) eqn:E1.
  - apply Z.eqb_eq in E1.
    destruct (Z.rem (Z.quot n 60 * 76) 76 =? 0) eqn:E2.
    + Z.to_euclidean_division_equations. lia.
    + apply Z.eqb_neq in E2. Z.to_euclidean_division_equations. lia.
  - apply Z.eqb_neq in E1.
    destruct (Z.rem (Z.rem n 60) 10 =? 0) eqn:E3.
    + apply Z.eqb_eq in E3.
      match goal with |- context [Z.rem ?x 76 =? 0] => destruct (Z.rem x 76 =? 0) eqn:E2 end.
      * apply Z.eqb_eq in E2. Z.to_euclidean_division_equations. lia.
      * Z.to_euclidean_division_equations. lia.
    + apply Z.eqb_neq in E3.
      match goal with |- context [Z.rem ?x 76 =? 0] => destruct (Z.rem x 76 =? 0) eqn:E2 end.
      * apply Z.eqb_eq in E2. Z.to_euclidean_division_equations. lia.
      * Z.to_euclidean_division_equations. lia.
Qed.

Lemma to_len_step m : 60 <= m -> go_toOriginLength m = 76 + go_toOriginLength (m - 60).
Proof.
  intros Hm. unfold go_toOriginLength, gdiv, gmod.
  assert (R : Z.rem (m - 60) 60 = Z.rem m 60) by (Z.to_euclidean_division_equations; lia).
  assert (Q : Z.quot (m - 60) 60 = Z.quot m 60 - 1) by (Z.to_euclidean_division_equations; lia).
  rewrite R, Q.
  destruct (Z.rem m 60 =? 0); [lia|].
  destruct (Z.rem (Z.rem m 60) 10 =? 0); lia.
Qed.

Lemma to_len_small m : 0 < m <= 60 ->
  go_toOriginLength m = 10 + m + (m + 9) / 10.
Proof.
  intros Hm. unfold go_toOriginLength, gdiv, gmod.
  destruct (Z.rem m 60 =? 0) eqn:E1.
  - apply Z.eqb_eq in E1. Z.to_euclidean_division_equations. lia.
  - apply Z.eqb_neq in E1.
    destruct (Z.rem (Z.rem m 60) 10 =? 0) eqn:E2.
    + apply Z.eqb_eq in E2. Z.to_euclidean_division_equations. lia.
    + apply Z.eqb_neq in E2. Z.to_euclidean_division_equations. lia.
Qed.

Lemma to_len_zero : go_toOriginLength 0 = 0.
Proof. reflexivity. Qed.

(* ---------- layout length *)

Lemma pad9_len k : 0 <= k < 10 ^ 9 -> zlen (pad9 k) = 9.
Proof.
  intros Hk. unfold pad9. apply pad_left_len. apply itoa_len_le; lia.
Qed.

Lemma ogroups_nil fuel : ogroups fuel [] = [].
Proof. destruct fuel; reflexivity. Qed.

Lemma olines_nil fuel i : olines fuel i [] = [].
Proof. destruct fuel; reflexivity. Qed.

Lemma firstn10_len (c : list byte) : zlen (firstn 10 c) = Z.min 10 (zlen c).
Proof. rewrite zlen_firstn. lia. Qed.

Lemma skipn10_len (c : list byte) : zlen (skipn 10 c) = Z.max 0 (zlen c - 10).
Proof. rewrite zlen_skipn. lia. Qed.

Lemma ogroups_len fuel : forall c,
  zlen c <= 10 * Z.of_nat fuel ->
  zlen (ogroups fuel c) = zlen c + (zlen c + 9) / 10.
Proof.
  induction fuel as [|f IH]; intros c Hc.
  - pose proof (zlen_nonneg c). assert (zlen c = 0) by lia.
    rewrite (zlen_zero_nil c H0). reflexivity.
  - destruct c as [|x c']; [reflexivity|].
    cbn [ogroups]. set (c := x :: c') in *.
    rewrite zlen_cons, zlen_app, firstn10_len.
    rewrite IH by (rewrite skipn10_len; lia).
    rewrite skipn10_len.
    assert (0 < zlen c) by (unfold c; rewrite zlen_cons; pose proof (zlen_nonneg c'); lia).
    destruct (Z.le_gt_cases (zlen c) 10).
    + replace (Z.min 10 (zlen c)) with (zlen c) by lia.
      replace (Z.max 0 (zlen c - 10)) with 0 by lia.
      Z.to_euclidean_division_equations; lia.
    + replace (Z.min 10 (zlen c)) with 10 by lia.
      replace (Z.max 0 (zlen c - 10)) with (zlen c - 10) by lia.
      Z.to_euclidean_division_equations; lia.
Qed.

Lemma olines_len fuel : forall i p,
  (length p < fuel)%nat -> 0 <= i -> i + zlen p < 10 ^ 9 ->
  zlen (olines fuel i p) = go_toOriginLength (zlen p).
Proof.
  induction fuel as [|f IH]; intros i p Hf Hi Hb; [lia|].
  destruct p as [|x p']; [reflexivity|].
  cbn [olines]. set (p := x :: p') in *.
  assert (Hp : 0 < zlen p) by (unfold p; rewrite zlen_cons; pose proof (zlen_nonneg p'); lia).
  rewrite !zlen_app, pad9_len by lia.
  rewrite ogroups_len by (rewrite zlen_firstn; lia).
  rewrite zlen_firstn. change (zlen [10]) with 1.
  destruct (Z.le_gt_cases (zlen p) 60).
  - replace (skipn 60 p) with (@nil byte).
    2:{ symmetry. apply zlen_zero_nil. rewrite zlen_skipn. lia. }
    rewrite olines_nil, zlen_nil.
    replace (Z.min (Z.of_nat 60) (zlen p)) with (zlen p) by lia.
    rewrite to_len_small by lia. lia.
  - rewrite IH.
    + rewrite zlen_skipn.
      replace (Z.min (Z.of_nat 60) (zlen p)) with 60 by lia.
      replace (Z.max 0 (zlen p - Z.of_nat 60)) with (zlen p - 60) by lia.
      rewrite (to_len_step (zlen p)) by lia.
      change ((60 + 9) / 10) with 6. lia.
    + rewrite skipn_length. unfold zlen in *. lia.
    + lia.
    + rewrite zlen_skipn. lia.
Qed.

Lemma layout_length p : zlen p < 10 ^ 9 ->
  zlen (origin_layout p) = go_toOriginLength (zlen p).
Proof.
  intros H. unfold origin_layout. apply olines_len; [lia | lia | lia].
Qed.

Lemma new_origin_layout p : zlen p < 10 ^ 9 -> new_origin p = Ok (origin_layout p).
Proof.
  intros H. unfold new_origin. rewrite layout_length by assumption.
  now rewrite Z.eqb_refl.
Qed.

Lemma to_len_nonneg n : 0 <= n -> 0 <= go_toOriginLength n.
Proof.
  intros. unfold go_toOriginLength, gdiv, gmod.
  destruct (Z.rem n 60 =? 0); [Z.to_euclidean_division_equations; lia|].
  destruct (Z.rem (Z.rem n 60) 10 =? 0); Z.to_euclidean_division_equations; lia.
Qed.

Lemma to_len_pos n : 0 < n -> 12 <= go_toOriginLength n.
Proof.
  intros. unfold go_toOriginLength, gdiv, gmod.
  destruct (Z.rem n 60 =? 0) eqn:E1.
  - apply Z.eqb_eq in E1. Z.to_euclidean_division_equations; lia.
  - apply Z.eqb_neq in E1.
    destruct (Z.rem (Z.rem n 60) 10 =? 0) eqn:E2.
    + apply Z.eqb_eq in E2. Z.to_euclidean_division_equations; lia.
    + apply Z.eqb_neq in E2. Z.to_euclidean_division_equations; lia.
Qed.

Lemma to_len_ge n : 0 <= n -> n <= go_toOriginLength n.
Proof.
  intros. unfold go_toOriginLength, gdiv, gmod.
  destruct (Z.rem n 60 =? 0) eqn:E1.
  - apply Z.eqb_eq in E1. Z.to_euclidean_division_equations; lia.
  - apply Z.eqb_neq in E1.
    destruct (Z.rem (Z.rem n 60) 10 =? 0) eqn:E2.
    + apply Z.eqb_eq in E2. Z.to_euclidean_division_equations; lia.
    + apply Z.eqb_neq in E2. Z.to_euclidean_division_equations; lia.
Qed.

Lemma origin_len_layout p : zlen p < 10 ^ 9 -> origin_len (origin_layout p) = zlen p.
Proof.
  intros H. unfold origin_len.
  destruct (origin_layout p) eqn:E.
  - pose proof (layout_length p H) as HL. rewrite E, zlen_nil in HL.
    destruct p as [|x p']; [reflexivity|].
    assert (0 < zlen (x :: p')) by (rewrite zlen_cons; pose proof (zlen_nonneg p'); lia).
    pose proof (to_len_pos _ H0). lia.
  - rewrite <- E, layout_length by assumption. apply from_to. apply zlen_nonneg.
Qed.

(* ---------- decoding the layout: Origin.Bytes (NewOrigin p) = p *)

Ltac napp := repeat (progress (rewrite <- ?app_assoc; cbn [app])).

Lemma copy_into_fits len acc src :
  zlen acc + zlen src <= len -> copy_into len acc src = acc ++ src.
Proof.
  intros H. unfold copy_into. f_equal. apply firstn_all2. unfold zlen in *. lia.
Qed.

Lemma min_go a b : go_Min a b = Z.min a b.
Proof. unfold go_Min. destruct (a <? b) eqn:E; [apply Z.ltb_lt in E | apply Z.ltb_ge in E]; lia. Qed.

Lemma firstn_skipn_app {A} (n : nat) (l : list A) : firstn n l ++ skipn n l = l.
Proof. apply firstn_skipn. Qed.

Lemma ogroups_S f (c : list byte) : 0 < zlen c ->
  ogroups (S f) c = 32 :: firstn 10 c ++ ogroups f (skipn 10 c).
Proof. destruct c; [intros H; exfalso; exact (Z.lt_irrefl 0 H) | reflexivity]. Qed.

Lemma olines_S f i (p : list byte) : 0 < zlen p ->
  olines (S f) i p = pad9 (i + 1) ++ ogroups 6 (firstn 60 p) ++ [10] ++ olines f (i + 60) (skipn 60 p).
Proof. destruct p; [intros H; exfalso; exact (Z.lt_irrefl 0 H) | reflexivity]. Qed.

Lemma zlen_pos_cons {A} (x : A) l : 0 < zlen (x :: l).
Proof. rewrite zlen_cons. pose proof (zlen_nonneg l). lia. Qed.

Lemma groups_decode (B : list byte) (L : Z) fuel : forall (cr pre post acc : list byte) i j start,
  B = pre ++ ogroups fuel cr ++ [10] ++ post ->
  zlen pre = start ->
  zlen cr <= 10 * Z.of_nat fuel ->
  i + j = zlen acc ->
  i + j + zlen cr <= L ->
  ((j + zlen cr = 60 /\ j mod 10 = 0) \/ i + j + zlen cr = L) ->
  (i + j + zlen cr = L -> post = []) ->
  0 <= j -> j + zlen cr <= 60 ->
  obytes_groups fuel B L i j start acc = Ok (start + zlen (ogroups fuel cr), acc ++ cr).
Proof.
  induction fuel as [|f IH]; intros cr pre post acc i j start HB Hpre Hfuel Hij Hle Hinv Hpost Hj Hj60.
  - pose proof (zlen_nonneg cr). assert (E : zlen cr = 0) by lia.
    apply zlen_zero_nil in E. subst cr. cbn [obytes_groups ogroups].
    rewrite zlen_nil, app_nil_r. f_equal. f_equal. lia.
  - destruct cr as [|x cr'].
    + cbn [ogroups]. rewrite zlen_nil, app_nil_r, Z.add_0_r. cbn [obytes_groups].
      rewrite zlen_nil in Hinv.
      replace ((j <? 60) && (i + j <? L)) with false; [reflexivity|].
      symmetry. apply andb_false_iff. rewrite !Z.ltb_ge. lia.
    + pose proof (zlen_pos_cons x cr') as Hcr.
      remember (x :: cr') as cr eqn:Ecr. clear Ecr x cr'.
      cbn [obytes_groups].
      assert (Hc : (j <? 60) && (i + j <? L) = true).
      { apply andb_true_iff. rewrite !Z.ltb_lt. lia. }
      rewrite Hc.
      rewrite (ogroups_S f cr Hcr) in *.
      (* locate the group in B *)
      assert (HB' : B = (pre ++ [32]) ++ firstn 10 cr ++ (ogroups f (skipn 10 cr) ++ [10] ++ post)).
      { rewrite HB. napp. reflexivity. }
      assert (Hpre' : zlen (pre ++ [32]) = start + 1) by (rewrite zlen_app; change (zlen [32]) with 1; lia).
      assert (HBlen : zlen B = start + 1 + zlen (firstn 10 cr) + zlen (ogroups f (skipn 10 cr)) + 1 + zlen post).
      { rewrite HB'. rewrite zlen_app, Hpre'. rewrite !zlen_app. change (zlen [10]) with 1. lia. }
      rewrite min_go.
      assert (He : Z.min (start + 1 + 10) (zlen B - 1) = start + 1 + zlen (firstn 10 cr)).
      { rewrite HBlen, firstn10_len.
        pose proof (zlen_nonneg (ogroups f (skipn 10 cr))). pose proof (zlen_nonneg post).
        destruct (Z.le_gt_cases 10 (zlen cr)); [lia|].
        (* short group: it is the last one of the buffer *)
        assert (Hlast : i + j + zlen cr = L)
          by (destruct Hinv as [[Ha Hb]|Ha]; [Z.to_euclidean_division_equations; lia | exact Ha]).
        rewrite (Hpost Hlast).
        replace (skipn 10 cr) with (@nil byte)
          by (symmetry; apply zlen_zero_nil; rewrite skipn10_len; lia).
        rewrite ogroups_nil, zlen_nil. lia. }
      rewrite He.
      replace (slice B (start + 1) (start + 1 + zlen (firstn 10 cr))) with (Ok (firstn 10 cr)).
      2:{ symmetry. rewrite HB', <- Hpre'. apply slice_app_mid. }
      cbn [obind].
      rewrite copy_into_fits by (rewrite firstn10_len; lia).
      destruct (Z.le_gt_cases (zlen cr) 10) as [Hs|Hs].
      * (* this was the last group of the chunk *)
        replace (skipn 10 cr) with (@nil byte) in *
          by (symmetry; apply zlen_zero_nil; rewrite skipn10_len; lia).
        replace (firstn 10 cr) with cr in *
          by (symmetry; apply firstn_all2; unfold zlen in *; lia).
        rewrite ogroups_nil, app_nil_r.
        destruct f as [|f'].
        { cbn [obytes_groups]. rewrite zlen_cons. f_equal. f_equal. lia. }
        cbn [obytes_groups].
        replace ((j + 10 <? 60) && (i + (j + 10) <? L)) with false.
        2:{ symmetry. apply andb_false_iff. rewrite !Z.ltb_ge.
            destruct Hinv as [[H1 H2]|H1]; [left; Z.to_euclidean_division_equations; lia | right; lia]. }
        rewrite zlen_cons. f_equal. f_equal. lia.
      * rewrite (IH (skipn 10 cr) ((pre ++ [32]) ++ firstn 10 cr) post (acc ++ firstn 10 cr) i (j + 10)
                    (start + 1 + zlen (firstn 10 cr))).
        -- rewrite zlen_cons, zlen_app. rewrite <- app_assoc, firstn_skipn. f_equal. f_equal. lia.
        -- rewrite HB'. napp. reflexivity.
        -- rewrite zlen_app, Hpre'. reflexivity.
        -- rewrite skipn10_len. lia.
        -- rewrite zlen_app, firstn10_len. lia.
        -- rewrite skipn10_len. lia.
        -- rewrite skipn10_len.
           destruct Hinv as [[H1 H2]|H1]; [left; split; [lia | Z.to_euclidean_division_equations; lia] | right; lia].
        -- rewrite skipn10_len. intros H. apply Hpost. lia.
        -- lia.
        -- rewrite skipn10_len. lia.
Qed.

Lemma lines_decode (B : list byte) (L : Z) fl : forall fo (rp pre acc : list byte) i start,
  B = pre ++ olines fo i rp ->
  zlen pre = start ->
  i = zlen acc ->
  zlen acc + zlen rp = L ->
  (length rp < fo)%nat -> (length rp < fl)%nat ->
  i + zlen rp < 10 ^ 9 ->
  obytes_lines fl B L i start acc = Ok (acc ++ rp).
Proof.
  induction fl as [|f IH]; intros fo rp pre acc i start HB Hpre Hi HL Hfo Hfl Hb; [lia|].
  pose proof (zlen_nonneg acc) as Hacc.
  destruct rp as [|x rp'].
  - cbn [obytes_lines]. rewrite zlen_nil in HL.
    replace (i <? L) with false by (symmetry; apply Z.ltb_ge; lia).
    rewrite repeat_byte_nonpos by lia. reflexivity.
  - pose proof (zlen_pos_cons x rp') as Hrp.
    remember (x :: rp') as rp eqn:Erp. clear Erp x rp'.
    cbn [obytes_lines].
    replace (i <? L) with true by (symmetry; apply Z.ltb_lt; lia).
    destruct fo as [|fo']; [lia|].
    rewrite (olines_S fo' i rp Hrp) in HB.
    assert (Hp9 : zlen (pad9 (i + 1)) = 9) by (apply pad9_len; lia).
    assert (Hch : zlen (firstn 60 rp) = Z.min 60 (zlen rp)) by (rewrite zlen_firstn; lia).
    rewrite (groups_decode B L 6 (firstn 60 rp) (pre ++ pad9 (i + 1))
               (olines fo' (i + 60) (skipn 60 rp)) acc i 0 (start + 9)).
    + cbn [obind].
      destruct (Z.le_gt_cases (zlen rp) 60) as [Hs|Hs].
      * (* last line *)
        replace (firstn 60 rp) with rp by (symmetry; apply firstn_all2; unfold zlen in *; lia).
        destruct f as [|f']; [unfold zlen in *; cbn [length] in *; lia|].
        cbn [obytes_lines].
        replace (i + 60 <? L) with false by (symmetry; apply Z.ltb_ge; lia).
        rewrite repeat_byte_nonpos by (rewrite zlen_app; lia).
        now rewrite app_nil_r.
      * rewrite (IH fo' (skipn 60 rp)
                   (pre ++ pad9 (i + 1) ++ ogroups 6 (firstn 60 rp) ++ [10])
                   (acc ++ firstn 60 rp) (i + 60)).
        -- rewrite <- app_assoc, firstn_skipn. reflexivity.
        -- rewrite HB. napp. reflexivity.
        -- rewrite !zlen_app, Hp9. change (zlen [10]) with 1. lia.
        -- rewrite zlen_app, Hch. lia.
        -- rewrite zlen_app, Hch, zlen_skipn. lia.
        -- rewrite skipn_length. unfold zlen in *. lia.
        -- rewrite skipn_length. unfold zlen in *. lia.
        -- rewrite zlen_skipn. lia.
    + rewrite HB. napp. reflexivity.
    + rewrite zlen_app, Hp9. lia.
    + rewrite Hch. lia.
    + lia.
    + rewrite Hch. lia.
    + rewrite Hch. destruct (Z.le_gt_cases (zlen rp) 60); [right; lia | left; split; [lia | reflexivity]].
    + rewrite Hch. intros H.
      replace (skipn 60 rp) with (@nil byte)
        by (symmetry; apply zlen_zero_nil; rewrite zlen_skipn; lia).
      apply olines_nil.
    + lia.
    + rewrite Hch. lia.
Qed.

Lemma origin_bytes_layout p : zlen p < 10 ^ 9 - 60 ->
  origin_bytes (origin_layout p) = Ok p.
Proof.
  intros H. unfold origin_bytes.
  assert (Hl : zlen (origin_layout p) = go_toOriginLength (zlen p)) by (apply layout_length; lia).
  destruct p as [|x p'].
  - reflexivity.
  - pose proof (zlen_pos_cons x p') as Hp.
    remember (x :: p') as p eqn:Ep. clear Ep x p'.
    pose proof (to_len_pos _ Hp).
    replace (zlen (origin_layout p) <? 12) with false by (symmetry; apply Z.ltb_ge; lia).
    rewrite Hl, from_to by lia.
    replace (zlen p <? 0) with false by (symmetry; apply Z.ltb_ge; lia).
    rewrite (lines_decode (origin_layout p) (zlen p) _ (S (length p)) p [] [] 0 0).
    + reflexivity.
    + reflexivity.
    + reflexivity.
    + reflexivity.
    + rewrite zlen_nil. lia.
    + lia.
    + assert (zlen p <= zlen (origin_layout p)) by (rewrite Hl; apply to_len_ge; lia).
      unfold zlen in *. lia.
    + lia.
Qed.
