(* ParsSpec.v — compositional specifications for parsers on the pars model:
   okp  : the parser reads exactly a given text and leaves the stack as it was;
   failp: the parser fails and hands the state back (only the pending-request
          marker may differ);
   okl  : like okp at the end of the input, but ONE extra frame is left on the
          stack (pars.Int does not Pop when it meets the end of the input). *)
From Coq Require Import List ZArith Lia Bool.
From GTS Require Import Base Arith Pars BaseLemmas ParsLemmas FastaProofs IntRT LocRT.
Import ListNotations.
Open Scope Z_scope.

Definition okp {A} (p : M A) (txt post : list byte) (v : A) : Prop :=
  forall o e a (fr : frame) k, exists o' e',
    p (mkst (txt ++ post) o e a (fr :: k)) = (Ok v, mkst post o' e' (a + zlen txt) (fr :: k)).

Definition failp {A} (p : M A) (r : list byte) : Prop :=
  forall o e a (fr : frame) k, exists kk e',
    p (mkst r o e a (fr :: k)) = (Err kk, mkst r o e' a (fr :: k)).

Definition okl {A} (p : M A) (txt : list byte) (v : A) : Prop :=
  forall o e a (fr : frame) k, exists o' e' x,
    p (mkst txt o e a (fr :: k)) = (Ok v, mkst [] o' e' (a + zlen txt) (x :: fr :: k)).

(* ---------- bind with a pure continuation *)
Lemma okp_ret {A B} (p : M A) (f : A -> B) txt post v :
  okp p txt post v -> okp (x <-- p ;;; ret (f x)) txt post (f v).
Proof.
  intros H o e a fr k. destruct (H o e a fr k) as (o' & e' & E). exists o', e'.
  erewrite bind_ok; [|exact E]. reflexivity.
Qed.
Lemma failp_bind {A B} (p : M A) (f : A -> M B) r : failp p r -> failp (x <-- p ;;; f x) r.
Proof.
  intros H o e a fr k. destruct (H o e a fr k) as (kk & e' & E). exists kk, e'.
  erewrite bind_err; [|exact E]. reflexivity.
Qed.
Lemma okl_ret {A B} (p : M A) (f : A -> B) txt v :
  okl p txt v -> okl (x <-- p ;;; ret (f x)) txt (f v).
Proof.
  intros H o e a fr k. destruct (H o e a fr k) as (o' & e' & x & E). exists o', e', x.
  erewrite bind_ok; [|exact E]. reflexivity.
Qed.

(* ---------- pMap *)
Lemma pMap_okp {A B} (p : M A) (f : A -> out B) txt post v w :
  okp p txt post v -> f v = Ok w -> okp (pMap p f) txt post w.
Proof.
  intros H Hf o e a fr k. unfold pMap. run ltac:(apply push_eq).
  destruct (H o e a (txt ++ post, o, a) (fr :: k)) as (o' & e' & E).
  run ltac:(apply try_ok; exact E). run ltac:(apply drop_ne). unfold lift. rewrite Hf. eauto.
Qed.
Lemma pMap_failp {A B} (p : M A) (f : A -> out B) r : failp p r -> failp (pMap p f) r.
Proof.
  intros H o e a fr k. unfold pMap. run ltac:(apply push_eq).
  destruct (H o e a (r, o, a) (fr :: k)) as (kk & e' & E).
  run ltac:(apply try_err; exact E). run ltac:(apply pop_ne). unfold fail. eauto.
Qed.
Lemma pMap_okl {A B} (p : M A) (f : A -> out B) txt v w :
  okl p txt v -> f v = Ok w -> okl (pMap p f) txt w.
Proof.
  intros H Hf o e a fr k. unfold pMap. run ltac:(apply push_eq).
  destruct (H o e a (txt, o, a) (fr :: k)) as (o' & e' & x & E).
  run ltac:(apply try_ok; exact E). run ltac:(apply drop_ne). unfold lift. rewrite Hf. eauto.
Qed.

(* ---------- pSeq2 *)
Lemma pSeq2_okp {A B} (p : M A) (q : M B) t1 t2 post a0 b0 :
  okp p t1 (t2 ++ post) a0 -> okp q t2 post b0 -> okp (pSeq2 p q) (t1 ++ t2) post (a0, b0).
Proof.
  intros Hp Hq o e a fr k. unfold pSeq2. run ltac:(apply push_eq).
  set (F := ((t1 ++ t2) ++ post, o, a)).
  replace ((t1 ++ t2) ++ post) with (t1 ++ t2 ++ post) by (now rewrite <- app_assoc).
  destruct (Hp o e a F (fr :: k)) as (o1 & e1 & E1). run ltac:(apply try_ok; exact E1).
  destruct (Hq o1 e1 (a + zlen t1) F (fr :: k)) as (o2 & e2 & E2).
  run ltac:(apply try_ok; exact E2). run ltac:(apply drop_ne).
  rewrite zlen_app, Z.add_assoc. do 2 eexists. reflexivity.
Qed.
Lemma pSeq2_fail1 {A B} (p : M A) (q : M B) r : failp p r -> failp (pSeq2 p q) r.
Proof.
  intros H o e a fr k. unfold pSeq2. run ltac:(apply push_eq).
  destruct (H o e a (r, o, a) (fr :: k)) as (kk & e' & E).
  run ltac:(apply try_err; exact E). run ltac:(apply pop_ne). unfold fail. eauto.
Qed.
Lemma pSeq2_fail2 {A B} (p : M A) (q : M B) t1 post a0 :
  okp p t1 post a0 -> failp q post -> failp (pSeq2 p q) (t1 ++ post).
Proof.
  intros Hp Hq o e a fr k. unfold pSeq2. run ltac:(apply push_eq).
  destruct (Hp o e a (t1 ++ post, o, a) (fr :: k)) as (o1 & e1 & E1).
  run ltac:(apply try_ok; exact E1).
  destruct (Hq o1 e1 (a + zlen t1) (t1 ++ post, o, a) (fr :: k)) as (kk & e2 & E2).
  run ltac:(apply try_err; exact E2). run ltac:(apply pop_ne). unfold fail. eauto.
Qed.

(* ---------- pSeq3 *)
Lemma pSeq3_okp {A B C} (p : M A) (q : M B) (r : M C) t1 t2 t3 post a0 b0 c0 :
  okp p t1 (t2 ++ t3 ++ post) a0 -> okp q t2 (t3 ++ post) b0 -> okp r t3 post c0 ->
  okp (pSeq3 p q r) (t1 ++ t2 ++ t3) post (a0, b0, c0).
Proof.
  intros Hp Hq Hr o e a fr k. unfold pSeq3. run ltac:(apply push_eq).
  set (F := ((t1 ++ t2 ++ t3) ++ post, o, a)).
  replace ((t1 ++ t2 ++ t3) ++ post) with (t1 ++ t2 ++ t3 ++ post) by (now rewrite <- !app_assoc).
  destruct (Hp o e a F (fr :: k)) as (o1 & e1 & E1). run ltac:(apply try_ok; exact E1).
  destruct (Hq o1 e1 (a + zlen t1) F (fr :: k)) as (o2 & e2 & E2). run ltac:(apply try_ok; exact E2).
  destruct (Hr o2 e2 (a + zlen t1 + zlen t2) F (fr :: k)) as (o3 & e3 & E3). run ltac:(apply try_ok; exact E3).
  run ltac:(apply drop_ne). rewrite !zlen_app.
  replace (a + (zlen t1 + (zlen t2 + zlen t3))) with (a + zlen t1 + zlen t2 + zlen t3) by lia. do 2 eexists. reflexivity.
Qed.
Lemma pSeq3_fail1 {A B C} (p : M A) (q : M B) (r : M C) txt : failp p txt -> failp (pSeq3 p q r) txt.
Proof.
  intros H o e a fr k. unfold pSeq3. run ltac:(apply push_eq).
  destruct (H o e a (txt, o, a) (fr :: k)) as (kk & e' & E).
  run ltac:(apply try_err; exact E). run ltac:(apply pop_ne). unfold fail. eauto.
Qed.
Lemma pSeq3_fail2 {A B C} (p : M A) (q : M B) (r : M C) t1 post a0 :
  okp p t1 post a0 -> failp q post -> failp (pSeq3 p q r) (t1 ++ post).
Proof.
  intros Hp Hq o e a fr k. unfold pSeq3. run ltac:(apply push_eq).
  destruct (Hp o e a (t1 ++ post, o, a) (fr :: k)) as (o1 & e1 & E1). run ltac:(apply try_ok; exact E1).
  destruct (Hq o1 e1 (a + zlen t1) (t1 ++ post, o, a) (fr :: k)) as (kk & e2 & E2).
  run ltac:(apply try_err; exact E2). run ltac:(apply pop_ne). unfold fail. eauto.
Qed.
Lemma pSeq3_fail3 {A B C} (p : M A) (q : M B) (r : M C) t1 t2 post a0 b0 :
  okp p t1 (t2 ++ post) a0 -> okp q t2 post b0 -> failp r post -> failp (pSeq3 p q r) (t1 ++ t2 ++ post).
Proof.
  intros Hp Hq Hr o e a fr k. unfold pSeq3. run ltac:(apply push_eq).
  set (F := (t1 ++ t2 ++ post, o, a)).
  destruct (Hp o e a F (fr :: k)) as (o1 & e1 & E1). run ltac:(apply try_ok; exact E1).
  destruct (Hq o1 e1 (a + zlen t1) F (fr :: k)) as (o2 & e2 & E2). run ltac:(apply try_ok; exact E2).
  destruct (Hr o2 e2 (a + zlen t1 + zlen t2) F (fr :: k)) as (kk & e3 & E3).
  run ltac:(apply try_err; exact E3). run ltac:(apply pop_ne). unfold fail. eauto.
Qed.
Lemma pSeq3_okl {A B C} (p : M A) (q : M B) (r : M C) t1 t2 t3 a0 b0 c0 :
  okp p t1 (t2 ++ t3) a0 -> okp q t2 t3 b0 -> okl r t3 c0 ->
  okl (pSeq3 p q r) (t1 ++ t2 ++ t3) (a0, b0, c0).
Proof.
  intros Hp Hq Hr o e a fr k. unfold pSeq3. run ltac:(apply push_eq).
  set (F := (t1 ++ t2 ++ t3, o, a)).
  destruct (Hp o e a F (fr :: k)) as (o1 & e1 & E1). run ltac:(apply try_ok; exact E1).
  destruct (Hq o1 e1 (a + zlen t1) F (fr :: k)) as (o2 & e2 & E2). run ltac:(apply try_ok; exact E2).
  destruct (Hr o2 e2 (a + zlen t1 + zlen t2) F (fr :: k)) as (o3 & e3 & x & E3). run ltac:(apply try_ok; exact E3).
  run ltac:(apply drop_ne). rewrite !zlen_app.
  replace (a + (zlen t1 + (zlen t2 + zlen t3))) with (a + zlen t1 + zlen t2 + zlen t3) by lia. do 3 eexists. reflexivity.
Qed.

(* ---------- pAny *)
Definition anyl_ok {A} (ps : list (M A)) (txt post : list byte) (v : A) : Prop :=
  forall last o e a (f0 fr : frame) k, exists o' e',
    any_loop ps last (mkst (txt ++ post) o e a (f0 :: fr :: k)) = (Ok v, mkst post o' e' (a + zlen txt) (fr :: k)).
Definition anyl_okl {A} (ps : list (M A)) (txt : list byte) (v : A) : Prop :=
  forall last o e a (f0 fr : frame) k, exists o' e' x,
    any_loop ps last (mkst txt o e a (f0 :: fr :: k)) = (Ok v, mkst [] o' e' (a + zlen txt) (x :: fr :: k)).
Definition anyl_fail {A} (ps : list (M A)) (r : list byte) : Prop :=
  forall last o e a (fr : frame) k, exists kk e',
    any_loop ps last (mkst r o e a ((r, o, a) :: fr :: k)) = (Err kk, mkst r o e' a (fr :: k)).

Lemma anyl_here {A} (p : M A) t txt post v : okp p txt post v -> anyl_ok (p :: t) txt post v.
Proof.
  intros H last o e a f0 fr k. destruct (H o e a f0 (fr :: k)) as (o' & e' & E).
  erewrite any_take; [|exact E]. run ltac:(apply drop_ne). do 2 eexists. reflexivity.
Qed.
Lemma anyl_skip {A} (p : M A) t txt post v : failp p (txt ++ post) -> anyl_ok t txt post v -> anyl_ok (p :: t) txt post v.
Proof.
  intros H Ht last o e a f0 fr k. destruct (H o e a f0 (fr :: k)) as (kk & e' & E).
  erewrite any_skip; [|exact E]. apply Ht.
Qed.
Lemma pAny_okp {A} (ps : list (M A)) txt post v : anyl_ok ps txt post v -> okp (pAny ps) txt post v.
Proof. intros H o e a fr k. unfold pAny. run ltac:(apply push_eq). apply H. Qed.

Lemma anyl_here_l {A} (p : M A) t txt v : okl p txt v -> anyl_okl (p :: t) txt v.
Proof.
  intros H last o e a f0 fr k. destruct (H o e a f0 (fr :: k)) as (o' & e' & x & E).
  erewrite any_take; [|exact E]. run ltac:(apply drop_ne). do 3 eexists. reflexivity.
Qed.
Lemma anyl_skip_l {A} (p : M A) t txt v : failp p txt -> anyl_okl t txt v -> anyl_okl (p :: t) txt v.
Proof.
  intros H Ht last o e a f0 fr k. destruct (H o e a f0 (fr :: k)) as (kk & e' & E).
  erewrite any_skip; [|exact E]. apply Ht.
Qed.
Lemma pAny_okl {A} (ps : list (M A)) txt v : anyl_okl ps txt v -> okl (pAny ps) txt v.
Proof. intros H o e a fr k. unfold pAny. run ltac:(apply push_eq). apply H. Qed.

Lemma anyl_fail_nil {A} r : anyl_fail (@nil (M A)) r.
Proof. intros last o e a fr k. cbn [any_loop]. run ltac:(apply pop_ne). unfold fail. do 2 eexists. reflexivity. Qed.
Lemma anyl_fail_cons {A} (p : M A) t r : failp p r -> anyl_fail t r -> anyl_fail (p :: t) r.
Proof.
  intros H Ht last o e a fr k. destruct (H o e a (r, o, a) (fr :: k)) as (kk & e' & E).
  erewrite any_skip; [|exact E]. apply Ht.
Qed.
Lemma pAny_failp {A} (ps : list (M A)) r : anyl_fail ps r -> failp (pAny ps) r.
Proof. intros H o e a fr k. unfold pAny. run ltac:(apply push_eq). apply H. Qed.

(* ---------- leaves *)
Lemma pByte_okp c post : okp (pByte c) [c] post c.
Proof. intros o e a fr k. cbn [app]. rewrite pByte_ne. change (zlen [c]) with 1. do 2 eexists. reflexivity. Qed.
Lemma pByte_failp c r : match r with x :: _ => x <> c | [] => True end -> failp (pByte c) r.
Proof.
  intros H o e a fr k. destruct r as [|x t].
  - rewrite pByte_eof. do 2 eexists. reflexivity.
  - rewrite pByte_other by exact H. do 2 eexists. reflexivity.
Qed.
