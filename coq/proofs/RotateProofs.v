(* RotateProofs.v — C04: what a feature denotes after Rotate.
   Rotate applies  l |-> Expand(0, n) ; Normalize(L)  with 0 <= n < L. *)
From Coq Require Import List ZArith Lia Bool.
From GTS Require Import Base Arith Loc Seq BaseLemmas LocProofs EditProofs.
Import ListNotations.
Open Scope Z_scope.

(* side condition on the contiguous parts: coordinates inside the sequence, a
   range shorter than the whole sequence (the full-length range is the
   property's own special case), an ambiguous span that does not cross the
   new origin *)
Definition awf (n L : Z) (l : loc) : bool :=
  match l with
  | Between p | Point p => 0 <=? p
  | Ranged s e _ _ => (0 <=? s) && (s <? e) && (e - s <? L)
  | Ambiguous s e => (0 <=? s) && (s <? e) && ((s + n) / L =? (e + n - 1) / L)
  | _ => true
  end.

Ltac bsplit :=
  repeat match goal with
  | H : _ && _ = true |- _ => apply andb_true_iff in H; destruct H
  end; zb.

(* ---------- stage A: Expand(0, n) moves every position by n *)

Lemma expandA_base n L : 0 <= n -> forall l, contiguous l -> awf n L l = true ->
  exists l', expand l 0 n = Ok l' /\ den l' = map (onpos (fun x => x + n)) (den l) /\ ord_ok l' = true.
Proof.
  intros Hn l Hc Hw. destruct l as [p|p|s e a b|s e| | |]; try contradiction; cbn [expand awf] in *.
  - eexists; split; [reflexivity|]. split; reflexivity.
  - eexists; split; [reflexivity|]. bsplit. unfold point_expand.
    replace (n <? 0) with false by (symmetry; apply Z.ltb_ge; lia).
    replace (0 <=? n) with true by (symmetry; apply Z.leb_le; lia).
    replace (0 <=? p) with true by (symmetry; apply Z.leb_le; lia).
    cbn [andb orb]. rewrite go_Max_spec, Z.max_r by lia. split; reflexivity.
  - eexists; split; [reflexivity|]. bsplit. unfold ranged_expand.
    destruct (Z.eqb_spec n 0) as [->|Hn0].
    + split; [|reflexivity]. rewrite <- (map_id (den _)) at 1. apply map_ext. intros [q c]. unfold onpos. cbn [fst snd]. f_equal. lia.
    + replace (n <? 0) with false by (symmetry; apply Z.ltb_ge; lia).
      replace (0 <=? n) with true by (symmetry; apply Z.leb_le; lia).
      replace (0 <=? s) with true by (symmetry; apply Z.leb_le; lia).
      replace (0 <? e) with true by (symmetry; apply Z.ltb_lt; lia).
      cbn [andb orb]. rewrite !go_Max_spec, !Z.max_r by lia.
      replace (s + n =? e + n) with false by (symmetry; apply Z.eqb_neq; lia).
      split; [|reflexivity]. rewrite !den_ranged, map_onpos_fwd. f_equal. symmetry.
      apply zrange_map_add. reflexivity.
  - eexists; split; [reflexivity|]. bsplit. unfold ambiguous_expand.
    destruct (Z.eqb_spec n 0) as [->|Hn0].
    + split; [|reflexivity]. rewrite <- (map_id (den _)) at 1. apply map_ext. intros [q c]. unfold onpos. cbn [fst snd]. f_equal. lia.
    + replace (n <? 0) with false by (symmetry; apply Z.ltb_ge; lia).
      replace (0 <=? n) with true by (symmetry; apply Z.leb_le; lia).
      replace (0 <=? s) with true by (symmetry; apply Z.leb_le; lia).
      replace (0 <? e) with true by (symmetry; apply Z.ltb_lt; lia).
      cbn [andb orb]. rewrite !go_Max_spec, !Z.max_r by lia.
      replace (s + n =? e + n) with false by (symmetry; apply Z.eqb_neq; lia).
      split; [|reflexivity]. rewrite !den_ambiguous, map_onpos_fwd. f_equal. symmetry.
      apply zrange_map_add. reflexivity.
Qed.

Lemma expandA_shape n L : 0 <= n -> forall l, contiguous l -> awf n L l = true ->
  forall l', expand l 0 n = Ok l' -> contiguous l' /\ awf 0 L l' = true.
Proof.
  intros Hn l Hc Hw l' E. destruct l as [p|p|s e a b|s e| | |]; try contradiction; cbn [expand awf] in *;
    inversion E; subst l'; clear E.
  - bsplit. unfold between_expand. split; [exact I|]. cbn [awf]. apply Z.leb_le.
    rewrite go_Max_spec. destruct (0 <? p); lia.
  - bsplit. unfold point_expand.
    replace (n <? 0) with false by (symmetry; apply Z.ltb_ge; lia).
    replace (0 <=? n) with true by (symmetry; apply Z.leb_le; lia).
    replace (0 <=? p) with true by (symmetry; apply Z.leb_le; lia).
    cbn [andb orb]. rewrite go_Max_spec, Z.max_r by lia. split; [exact I|]. cbn [awf]. apply Z.leb_le. lia.
  - bsplit. unfold ranged_expand.
    destruct (Z.eqb_spec n 0) as [->|Hn0].
    + split; [exact I|]. cbn [awf]. rewrite !andb_true_iff, Z.leb_le, !Z.ltb_lt. lia.
    + replace (n <? 0) with false by (symmetry; apply Z.ltb_ge; lia).
      replace (0 <=? n) with true by (symmetry; apply Z.leb_le; lia).
      replace (0 <=? s) with true by (symmetry; apply Z.leb_le; lia).
      replace (0 <? e) with true by (symmetry; apply Z.ltb_lt; lia).
      cbn [andb orb]. rewrite !go_Max_spec, !Z.max_r by lia.
      replace (s + n =? e + n) with false by (symmetry; apply Z.eqb_neq; lia).
      split; [exact I|]. cbn [awf]. rewrite !andb_true_iff, Z.leb_le, !Z.ltb_lt. lia.
  - bsplit. unfold ambiguous_expand.
    destruct (Z.eqb_spec n 0) as [->|Hn0].
    + split; [exact I|]. cbn [awf]. rewrite !andb_true_iff, Z.leb_le, Z.ltb_lt, Z.eqb_eq.
      rewrite !Z.add_0_r in *. lia.
    + replace (n <? 0) with false by (symmetry; apply Z.ltb_ge; lia).
      replace (0 <=? n) with true by (symmetry; apply Z.leb_le; lia).
      replace (0 <=? s) with true by (symmetry; apply Z.leb_le; lia).
      replace (0 <? e) with true by (symmetry; apply Z.ltb_lt; lia).
      cbn [andb orb]. rewrite !go_Max_spec, !Z.max_r by lia.
      replace (s + n =? e + n) with false by (symmetry; apply Z.eqb_neq; lia).
      split; [exact I|]. cbn [awf]. rewrite !andb_true_iff, Z.leb_le, Z.ltb_lt, Z.eqb_eq.
      rewrite !Z.add_0_r. lia.
Qed.

(* ---------- stage B: Normalize(L) reduces every position modulo L *)

Lemma gomod_nonneg a L : 0 <= a -> 0 < L -> gomod a L = Ok (a mod L).
Proof.
  intros Ha HL. unfold gomod, gmod. replace (L =? 0) with false by (symmetry; apply Z.eqb_neq; lia).
  now rewrite Z.rem_mod_nonneg by lia.
Qed.

(* a stretch shorter than L either stays on one side of a multiple of L or
   wraps exactly once *)
Lemma mod_range_nowrap s e L : 0 < L -> 0 <= s < e -> s / L = (e - 1) / L ->
  map (fun x => x mod L) (zrange s e) = zrange (s mod L) ((e - 1) mod L + 1).
Proof.
  intros HL Hse Hq.
  pose proof (Z.div_mod s L ltac:(lia)) as Ds. pose proof (Z.div_mod (e - 1) L ltac:(lia)) as De.
  pose proof (Z.mod_pos_bound s L HL). pose proof (Z.mod_pos_bound (e - 1) L HL).
  rewrite (zrange_map_add _ (- (L * (s / L)))).
  - f_equal; lia.
  - intros x Hx. symmetry. apply (Z.mod_unique_pos x L (s / L)); [nia|lia].
Qed.

Lemma mod_range_wrap s e L : 0 < L -> 0 <= s < e -> e - s < L -> s / L <> (e - 1) / L ->
  map (fun x => x mod L) (zrange s e) = zrange (s mod L) L ++ zrange 0 ((e - 1) mod L + 1).
Proof.
  intros HL Hse Hlen Hq.
  pose proof (Z.div_mod s L ltac:(lia)) as Ds. pose proof (Z.div_mod (e - 1) L ltac:(lia)) as De.
  pose proof (Z.mod_pos_bound s L HL). pose proof (Z.mod_pos_bound (e - 1) L HL).
  assert (Hq1 : (e - 1) / L = s / L + 1).
  { assert (s / L <= (e - 1) / L) by (apply Z.div_le_mono; lia).
    assert ((e - 1) / L <= s / L + 1); [|lia].
    { assert ((e - 1) / L < s / L + 2); [|lia]. apply Z.div_lt_upper_bound; [lia|]. nia. } }
  set (m := L * (s / L + 1)).
  rewrite (zrange_split s m e) by (subst m; nia). rewrite map_app. f_equal.
  - rewrite (zrange_map_add _ (- (L * (s / L)))).
    + f_equal; subst m; lia.
    + intros x Hx. symmetry. apply (Z.mod_unique_pos x L (s / L)); [subst m; nia|lia].
  - rewrite (zrange_map_add _ (- m)).
    + f_equal; subst m; lia.
    + intros x Hx. symmetry. apply (Z.mod_unique_pos x L (s / L + 1)); [subst m; nia|subst m; lia].
Qed.

Lemma normalize_base L : 0 < L -> forall l, contiguous l -> awf 0 L l = true ->
  exists l', normalize l L = Ok l' /\ den l' = map (onpos (fun x => x mod L)) (den l) /\ ord_ok l' = true.
Proof.
  intros HL l Hc Hw. destruct l as [p|p|s e a b|s e| | |]; try contradiction; cbn [normalize awf] in *.
  - unfold gomod. replace (L =? 0) with false by (symmetry; apply Z.eqb_neq; lia). cbn [obind].
    eexists; split; [reflexivity|]. split; reflexivity.
  - bsplit. rewrite gomod_nonneg by lia. cbn [obind]. eexists; split; [reflexivity|]. split; reflexivity.
  - bsplit. unfold ranged_normalize.
    replace (e - s =? L) with false by (symmetry; apply Z.eqb_neq; lia).
    rewrite !gomod_nonneg by lia. cbn [obind].
    pose proof (Z.mod_pos_bound s L HL). pose proof (Z.mod_pos_bound (e - 1) L HL).
    destruct (Z.eq_dec (s / L) ((e - 1) / L)) as [Hq|Hq].
    + (* no wrap *)
      pose proof (Z.div_mod s L ltac:(lia)) as Ds. pose proof (Z.div_mod (e - 1) L ltac:(lia)) as De.
      rewrite <- Hq in De.
      replace (s mod L <? (e - 1) mod L + 1) with true by (symmetry; apply Z.ltb_lt; lia).
      unfold partial_range. replace ((e - 1) mod L + 1 <=? s mod L) with false by (symmetry; apply Z.leb_gt; lia).
      eexists; split; [reflexivity|]. split; [|reflexivity].
      rewrite !den_ranged, map_onpos_fwd. f_equal. symmetry. apply mod_range_nowrap; lia.
    + (* across the origin: join(left, right) *)
      pose proof (Z.div_mod s L ltac:(lia)) as Ds. pose proof (Z.div_mod (e - 1) L ltac:(lia)) as De.
      assert (Hq1 : (e - 1) / L = s / L + 1).
      { assert (s / L <= (e - 1) / L) by (apply Z.div_le_mono; lia).
        assert ((e - 1) / L < s / L + 2); [|lia]. apply Z.div_lt_upper_bound; [lia|]. nia. }
      replace (s mod L <? (e - 1) mod L + 1) with false by (symmetry; apply Z.ltb_ge; nia).
      unfold partial_range. replace (L <=? s mod L) with false by (symmetry; apply Z.leb_gt; lia).
      cbn [obind]. replace ((e - 1) mod L + 1 <=? 0) with false by (symmetry; apply Z.leb_gt; lia).
      cbn [obind]. rewrite join_two_ranges by lia.
      eexists; split; [reflexivity|]. split; [|reflexivity].
      cbn [den flat_map]. rewrite app_nil_r. fold fwd.
      change (map fwd (zrange (s mod L) L) ++ map fwd (zrange 0 ((e - 1) mod L + 1)) =
              map (onpos (fun x => x mod L)) (map fwd (zrange s e))).
      rewrite map_onpos_fwd, <- map_app. f_equal. symmetry. apply mod_range_wrap; lia.
  - bsplit. rewrite !Z.add_0_r in *. rewrite !gomod_nonneg by lia. cbn [obind].
    eexists; split; [reflexivity|]. split; [|reflexivity].
    rewrite !den_ambiguous, map_onpos_fwd. f_equal. symmetry. apply mod_range_nowrap; lia.
Qed.

(* ---------- structural predicates survive Order's flattening *)

Section Struct.
  Variable P : loc -> bool.
  Hypothesis P_ord : forall xs, P (Ordered xs) = forallb P xs.

  Lemma flatten_P f : forall ys, forallb P ys = true -> forallb P (flatten_locs f ys) = true.
  Proof.
    induction f as [|f IH]; intros ys H; [exact H|].
    cbn [flatten_locs]. induction ys as [|y t IHt]; [reflexivity|].
    cbn [forallb] in H. apply andb_true_iff in H as [Hy Ht].
    cbn [flat_map]. rewrite forallb_app, (IHt Ht), andb_true_r.
    destruct y; try (cbn [forallb]; now rewrite Hy).
    apply IH. now rewrite <- P_ord.
  Qed.

  Lemma order_P ys r : forallb P ys = true -> order ys = Ok r -> P r = true.
  Proof.
    intros H E. unfold order in E. pose proof (flatten_P (S (list_size ys)) ys H) as HF.
    destruct (flatten_locs (S (list_size ys)) ys) as [|u [|v t]]; [discriminate| |]; inversion E; subst.
    - cbn [forallb] in HF. now rewrite andb_true_r in HF.
    - now rewrite P_ord.
  Qed.
End Struct.

Lemma omapM_inv {A B} (f : A -> out B) : forall ls ys, omapM f ls = Ok ys -> Forall2 (fun x y => f x = Ok y) ls ys.
Proof.
  induction ls as [|x t IH]; intros ys E; cbn [omapM] in E.
  - inversion E. constructor.
  - destruct (f x) eqn:Ex; try discriminate. cbn [obind] in E.
    destruct (omapM f t) eqn:Et; try discriminate. cbn [obind] in E. inversion E; subst.
    constructor; [exact Ex|]. now apply IH.
Qed.

Definition shapeP (L : Z) (l : loc) : bool := jfree l && wf_all (awf 0 L) l.

Lemma shapeP_ord L xs : shapeP L (Ordered xs) = forallb (shapeP L) xs.
Proof.
  unfold shapeP. cbn [jfree wf_all]. induction xs as [|x t IH]; [reflexivity|].
  cbn [forallb]. rewrite <- IH. destruct (jfree x), (wf_all (awf 0 L) x), (forallb jfree t), (forallb (wf_all (awf 0 L)) t); reflexivity.
Qed.

Lemma expandA_shape_all n L : 0 <= n -> forall l,
  jfree l = true -> wf_all (awf n L) l = true ->
  forall l1, expand l 0 n = Ok l1 -> shapeP L l1 = true.
Proof.
  intros Hn. induction l as [p|p|s e a b|s e|ls IH|ls IH|x IH] using loc_ind'; intros Hj Hw l1 E.
  1-4: match type of E with expand ?l0 _ _ = _ =>
    destruct (expandA_shape n L Hn l0 I Hw _ E) as [Hc Hs];
    destruct l1; try contradiction; unfold shapeP; cbn [jfree wf_all]; now rewrite Hs end.
  - discriminate.
  - cbn [expand] in E. destruct (omapM (fun x => expand x 0 n) ls) as [ys| | |] eqn:Ey; try discriminate.
    cbn [obind] in E. apply (order_P (shapeP L) (shapeP_ord L) ys l1); [|exact E].
    apply omapM_inv in Ey. cbn [jfree wf_all] in Hj, Hw.
    apply forallb_Forall in Hj. apply forallb_Forall in Hw.
    apply Forall_forallb. clear E. induction Ey as [|x y t ys' Hxy _ IHt]; [constructor|].
    inversion IH; inversion Hj; inversion Hw; subst. constructor; [|apply IHt; assumption].
    match goal with H : _ -> _ -> forall l1, _ -> shapeP L l1 = true |- _ => eapply H; eassumption end.
  - cbn [expand] in E. destruct (expand x 0 n) as [x'| | |] eqn:Ex; try discriminate. cbn [obind] in E.
    inversion E; subst. cbn [jfree wf_all] in Hj, Hw. specialize (IH Hj Hw _ eq_refl).
    unfold shapeP in *. cbn [jfree wf_all]. exact IH.
Qed.

(* ---------- the two lifts and their composition *)

Lemma flip_map_comm (g : Z -> Z) d : rev (map flipd (map (onpos g) d)) = map (onpos g) (rev (map flipd d)).
Proof. symmetry. apply map_rev_flip. Qed.

Theorem expandA_den n L : 0 <= n -> forall l,
  jfree l = true -> ord_ok l = true -> wf_all (awf n L) l = true ->
  exists l', expand l 0 n = Ok l' /\ den l' = map (onpos (fun x => x + n)) (den l) /\ ord_ok l' = true.
Proof.
  intros Hn l Hj Ho Hw.
  apply (lift_jfree (fun l => expand l 0 n) (fun d' d => d' = map (onpos (fun x => x + n)) d) (awf n L) false);
    try assumption.
  - reflexivity.
  - reflexivity.
  - reflexivity.
  - intros a' a b' b -> ->. now rewrite map_app.
  - intros d' d ->. apply flip_map_comm.
  - now apply expandA_base.
Qed.

Theorem normalize_den L : 0 < L -> forall l,
  jfree l = true -> ord_ok l = true -> wf_all (awf 0 L) l = true ->
  exists l', normalize l L = Ok l' /\ den l' = map (onpos (fun x => x mod L)) (den l) /\ ord_ok l' = true.
Proof.
  intros HL l Hj Ho Hw.
  apply (lift_jfree (fun l => normalize l L) (fun d' d => d' = map (onpos (fun x => x mod L)) d) (awf 0 L) false);
    try assumption.
  - reflexivity.
  - reflexivity.
  - reflexivity.
  - intros a' a b' b -> ->. now rewrite map_app.
  - intros d' d ->. apply flip_map_comm.
  - now apply normalize_base.
Qed.

(* the location transformation of Rotate *)
Definition rot_loc (n L : Z) (l : loc) : out loc := l' <- expand l 0 n ;; normalize l' L.

Theorem rotate_den n L : 0 <= n < L -> forall l,
  jfree l = true -> ord_ok l = true -> wf_all (awf n L) l = true ->
  exists l', rot_loc n L l = Ok l' /\ den l' = map (onpos (fun x => (x + n) mod L)) (den l).
Proof.
  intros Hn l Hj Ho Hw.
  destruct (expandA_den n L ltac:(lia) l Hj Ho Hw) as (l1 & E1 & D1 & O1).
  pose proof (expandA_shape_all n L ltac:(lia) l Hj Hw l1 E1) as S1.
  unfold shapeP in S1. apply andb_true_iff in S1 as [J1 W1].
  destruct (normalize_den L ltac:(lia) l1 J1 O1 W1) as (l2 & E2 & D2 & _).
  exists l2. unfold rot_loc. rewrite E1. cbn [obind]. split; [exact E2|].
  rewrite D2, D1, map_map. apply map_ext. intros [q c]. reflexivity.
Qed.

(* ---------- Rotate on a sequence: every feature, whatever the table order *)
From Coq Require Import Permutation.
From GTS Require Import SeqProofs.

Lemma fs_insert_perm acc f : Permutation (fs_insert acc f) (f :: acc).
Proof.
  unfold fs_insert.
  set (i := Z.to_nat _).
  rewrite <- (firstn_skipn i acc) at 3.
  apply Permutation_sym. cbn [app]. apply Permutation_middle.
Qed.

Definition relocate (ff : list feature) (ls : list loc) : list feature :=
  map (fun fl => set_loc (fst fl) (snd fl)) (combine ff ls).

Lemma insert_all_perm op : forall ff acc,
  Forall (fun f => exists l, op (floc f) = Ok l) ff ->
  exists gg ls, insert_all op acc ff = Ok gg /\
    Forall2 (fun f l => op (floc f) = Ok l) ff ls /\ Permutation gg (acc ++ relocate ff ls).
Proof.
  induction ff as [|f t IH]; intros acc H.
  - exists acc, []. split; [reflexivity|]. split; [constructor|]. unfold relocate. cbn. now rewrite app_nil_r.
  - inversion H as [|? ? [l Hl] Ht]; subst. cbn [insert_all]. rewrite Hl. cbn [obind].
    destruct (IH (fs_insert acc (set_loc f l)) Ht) as (gg & ls & E & F & P).
    exists gg, (l :: ls). split; [exact E|]. split; [constructor; assumption|].
    eapply Permutation_trans; [exact P|]. unfold relocate. cbn [combine map fst snd].
    eapply Permutation_trans; [apply Permutation_app_tail, fs_insert_perm|].
    cbn [app]. apply Permutation_middle.
Qed.

Lemma rot_amount n L : 0 < L -> (if n <? 0 then n mod L else gmod n L) = n mod L.
Proof.
  intros HL. destruct (Z.ltb_spec n 0); [reflexivity|]. unfold gmod. now rewrite Z.rem_mod_nonneg by lia.
Qed.

Definition rot_ok (n L : Z) (f : feature) : Prop :=
  jfree (floc f) = true /\ ord_ok (floc f) = true /\ wf_all (awf (n mod L) L) (floc f) = true.

Theorem seq_rotate_features s n : let L := zlen (residues s) in 0 < L ->
  Forall (rot_ok n L) (feats s) ->
  exists gg ls, seq_rotate s n = Ok (mkseq gg (skipn (Z.to_nat (L - n mod L)) (residues s) ++ firstn (Z.to_nat (L - n mod L)) (residues s))) /\
    Forall2 (fun f l => den l = map (onpos (fun x => (x + n) mod L)) (den (floc f))) (feats s) ls /\
    Permutation gg (relocate (feats s) ls).
Proof.
  intros L HL Hok. unfold seq_rotate. fold L.
  replace (L =? 0) with false by (symmetry; apply Z.eqb_neq; lia).
  rewrite rot_amount by lia.
  pose proof (Z.mod_pos_bound n L HL) as Hn.
  assert (HF : Forall (fun f => exists l, (fun l0 => l' <- expand l0 0 (n mod L) ;; normalize l' L) (floc f) = Ok l) (feats s)).
  { eapply Forall_impl; [|exact Hok]. intros f (Hj & Ho & Hw).
    destruct (rotate_den (n mod L) L Hn (floc f) Hj Ho Hw) as (l' & E & _). exists l'. exact E. }
  destruct (insert_all_perm _ (feats s) [] HF) as (gg & ls & E & F & P).
  rewrite E. cbn [obind].
  assert (Hs1 : slice (residues s) (L - n mod L) L = Ok (skipn (Z.to_nat (L - n mod L)) (residues s))).
  { apply slice_suffix. fold L. lia. }
  assert (Hs2 : slice (residues s) 0 (L - n mod L) = Ok (firstn (Z.to_nat (L - n mod L)) (residues s))).
  { apply slice_prefix. fold L. lia. }
  rewrite Hs1. cbn [obind]. rewrite Hs2. cbn [obind].
  exists gg, ls. split; [reflexivity|]. split; [|exact P].
  clear E P HF. induction F as [|f l t ls' Hfl _ IHt]; [constructor|].
  inversion Hok as [|? ? (Hj & Ho & Hw) Hok']; subst. constructor; [|apply IHt; assumption].
  destruct (rotate_den (n mod L) L Hn (floc f) Hj Ho Hw) as (l' & E & D).
  unfold rot_loc in E. rewrite E in Hfl. inversion Hfl; subst l'. rewrite D.
  apply map_ext. intros [q c]. unfold onpos. cbn [fst snd]. f_equal. apply Zplus_mod_idemp_r.
Qed.

(* positions compose additively; a multiple of L is the identity; -n undoes n *)
Lemma rot_pos_additive L a b x : ((x + a) mod L + b) mod L = (x + (a + b)) mod L.
Proof. rewrite Zplus_mod_idemp_l. f_equal. lia. Qed.

Lemma rot_pos_multiple L k x : 0 < L -> 0 <= x < L -> (x + k * L) mod L = x.
Proof. intros HL Hx. rewrite Z_mod_plus_full. apply Z.mod_small, Hx. Qed.

(* ---------- shape of the result: coordinates in [0,L]; a range across the
   origin becomes join(left,right) with the markers on the outer ends; a
   full-length range stays full-length *)

Fixpoint cin (L : Z) (l : loc) : bool :=
  match l with
  | Between p => (0 <=? p) && (p <=? L)
  | Point p => (0 <=? p) && (p <? L)
  | Ranged s e _ _ | Ambiguous s e => (0 <=? s) && (s <? e) && (e <=? L)
  | Joined ls | Ordered ls => forallb (cin L) ls
  | Complemented x => cin L x
  end.

Lemma rot_range_inside n L s e p5 p3 : 0 <= n < L -> 0 <= s < e -> e - s < L ->
  (s + n) / L = (e + n - 1) / L ->
  rot_loc n L (Ranged s e p5 p3) = Ok (Ranged ((s + n) mod L) ((e + n - 1) mod L + 1) p5 p3).
Proof.
  intros Hn Hse Hlen Hq. unfold rot_loc.
  assert (E : expand (Ranged s e p5 p3) 0 n = Ok (Ranged (s + n) (e + n) p5 p3)).
  { cbn [expand]. unfold ranged_expand. destruct (Z.eqb_spec n 0) as [->|Hn0]; [now rewrite !Z.add_0_r|].
    replace (n <? 0) with false by (symmetry; apply Z.ltb_ge; lia).
    replace (0 <=? n) with true by (symmetry; apply Z.leb_le; lia).
    replace (0 <=? s) with true by (symmetry; apply Z.leb_le; lia).
    replace (0 <? e) with true by (symmetry; apply Z.ltb_lt; lia).
    cbn [andb orb]. rewrite !go_Max_spec, !Z.max_r by lia.
    now replace (s + n =? e + n) with false by (symmetry; apply Z.eqb_neq; lia). }
  rewrite E. cbn [obind normalize]. unfold ranged_normalize.
  replace (e + n - (s + n) =? L) with false by (symmetry; apply Z.eqb_neq; lia).
  rewrite !gomod_nonneg by lia. cbn [obind]. replace (e + n - 1) with (e + n - 1) in * by lia.
  pose proof (Z.div_mod (s + n) L ltac:(lia)) as Ds. pose proof (Z.div_mod (e + n - 1) L ltac:(lia)) as De.
  rewrite <- Hq in De.
  pose proof (Z.mod_pos_bound (s + n) L ltac:(lia)). pose proof (Z.mod_pos_bound (e + n - 1) L ltac:(lia)).
  replace ((s + n) mod L <? (e + n - 1) mod L + 1) with true by (symmetry; apply Z.ltb_lt; lia).
  unfold partial_range. now replace ((e + n - 1) mod L + 1 <=? (s + n) mod L) with false by (symmetry; apply Z.leb_gt; lia).
Qed.

Lemma rot_range_across n L s e p5 p3 : 0 <= n < L -> 0 <= s < e -> e - s < L ->
  (s + n) / L <> (e + n - 1) / L ->
  rot_loc n L (Ranged s e p5 p3) =
  Ok (Joined [Ranged ((s + n) mod L) L p5 false; Ranged 0 ((e + n - 1) mod L + 1) false p3]).
Proof.
  intros Hn Hse Hlen Hq. unfold rot_loc.
  assert (E : expand (Ranged s e p5 p3) 0 n = Ok (Ranged (s + n) (e + n) p5 p3)).
  { cbn [expand]. unfold ranged_expand. destruct (Z.eqb_spec n 0) as [->|Hn0]; [now rewrite !Z.add_0_r|].
    replace (n <? 0) with false by (symmetry; apply Z.ltb_ge; lia).
    replace (0 <=? n) with true by (symmetry; apply Z.leb_le; lia).
    replace (0 <=? s) with true by (symmetry; apply Z.leb_le; lia).
    replace (0 <? e) with true by (symmetry; apply Z.ltb_lt; lia).
    cbn [andb orb]. rewrite !go_Max_spec, !Z.max_r by lia.
    now replace (s + n =? e + n) with false by (symmetry; apply Z.eqb_neq; lia). }
  rewrite E. cbn [obind normalize]. unfold ranged_normalize.
  replace (e + n - (s + n) =? L) with false by (symmetry; apply Z.eqb_neq; lia).
  rewrite !gomod_nonneg by lia. cbn [obind].
  pose proof (Z.div_mod (s + n) L ltac:(lia)) as Ds. pose proof (Z.div_mod (e + n - 1) L ltac:(lia)) as De.
  pose proof (Z.mod_pos_bound (s + n) L ltac:(lia)). pose proof (Z.mod_pos_bound (e + n - 1) L ltac:(lia)).
  assert (Hq1 : (e + n - 1) / L = (s + n) / L + 1).
  { assert ((s + n) / L <= (e + n - 1) / L) by (apply Z.div_le_mono; lia).
    assert ((e + n - 1) / L < (s + n) / L + 2); [|lia]. apply Z.div_lt_upper_bound; [lia|]. nia. }
  replace ((s + n) mod L <? (e + n - 1) mod L + 1) with false by (symmetry; apply Z.ltb_ge; nia).
  unfold partial_range. replace (L <=? (s + n) mod L) with false by (symmetry; apply Z.leb_gt; lia).
  cbn [obind]. replace ((e + n - 1) mod L + 1 <=? 0) with false by (symmetry; apply Z.leb_gt; lia).
  cbn [obind]. now rewrite join_two_ranges by lia.
Qed.

Lemma rot_full_length n L p5 p3 : 0 <= n < L ->
  rot_loc n L (Ranged 0 L p5 p3) = Ok (Ranged 0 L p5 p3).
Proof.
  intros Hn. unfold rot_loc. cbn [expand]. unfold ranged_expand at 1.
  destruct (Z.eqb_spec n 0) as [->|Hn0].
  - cbn [obind normalize]. unfold ranged_normalize. rewrite Z.sub_0_r, Z.eqb_refl. unfold ranged_expand. reflexivity.
  - replace (n <? 0) with false by (symmetry; apply Z.ltb_ge; lia).
    replace (0 <=? n) with true by (symmetry; apply Z.leb_le; lia).
    replace (0 <? L) with true by (symmetry; apply Z.ltb_lt; lia).
    change (0 <=? 0) with true. cbn [andb orb]. rewrite !go_Max_spec, !Z.max_r by lia.
    replace (0 + n =? L + n) with false by (symmetry; apply Z.eqb_neq; lia).
    cbn [obind normalize]. unfold ranged_normalize.
    replace (L + n - (0 + n) =? L) with true by (symmetry; apply Z.eqb_eq; lia).
    unfold ranged_expand.
    replace (- (0 + n) =? 0) with false by (symmetry; apply Z.eqb_neq; lia).
    replace (- (0 + n) <? 0) with true by (symmetry; apply Z.ltb_lt; lia).
    replace (0 <=? - (0 + n)) with false by (symmetry; apply Z.leb_gt; lia).
    replace (0 <=? 0 + n) with true by (symmetry; apply Z.leb_le; lia).
    replace (0 + n <? 0 - - (0 + n)) with false by (symmetry; apply Z.ltb_ge; lia).
    replace (0 <? L + n) with true by (symmetry; apply Z.ltb_lt; lia).
    replace (L + n <=? 0 - - (0 + n)) with false by (symmetry; apply Z.leb_gt; lia).
    replace (0 <? 0 + n) with true by (symmetry; apply Z.ltb_lt; lia).
    replace (0 <=? L + n) with true by (symmetry; apply Z.leb_le; lia).
    cbn [andb orb]. rewrite !go_Max_spec.
    replace (Z.max 0 (0 + n + - (0 + n))) with 0 by lia. replace (Z.max 0 (L + n + - (0 + n))) with L by lia.
    now replace (0 =? L) with false by (symmetry; apply Z.eqb_neq; lia).
Qed.

Lemma normalize_cin_base L : 0 < L -> forall l, contiguous l -> awf 0 L l = true ->
  forall l', normalize l L = Ok l' -> cin L l' = true.
Proof.
  intros HL l Hc Hw l' E. destruct l as [p|p|s e a b|s e| | |]; try contradiction; cbn [normalize awf] in *.
  - bsplit. rewrite gomod_nonneg in E by lia. inversion E; subst. cbn [cin].
    pose proof (Z.mod_pos_bound p L HL). rewrite andb_true_iff, !Z.leb_le. lia.
  - bsplit. rewrite gomod_nonneg in E by lia. inversion E; subst. cbn [cin].
    pose proof (Z.mod_pos_bound p L HL). rewrite andb_true_iff, Z.leb_le, Z.ltb_lt. lia.
  - bsplit.
    destruct (Z.eq_dec (s / L) ((e - 1) / L)) as [Hq|Hq].
    + pose proof (rot_range_inside 0 L s e a b ltac:(lia) ltac:(lia) ltac:(lia)) as R.
      rewrite !Z.add_0_r in R. specialize (R Hq). unfold rot_loc in R. cbn [expand] in R.
      unfold ranged_expand in R. change (0 =? 0) with true in R. cbn [obind normalize] in R.
      rewrite R in E. inversion E; subst. cbn [cin].
      pose proof (Z.mod_pos_bound s L HL). pose proof (Z.mod_pos_bound (e - 1) L HL).
      pose proof (Z.div_mod s L ltac:(lia)) as Ds. pose proof (Z.div_mod (e - 1) L ltac:(lia)) as De.
      rewrite <- Hq in De. rewrite !andb_true_iff, !Z.leb_le, Z.ltb_lt. lia.
    + pose proof (rot_range_across 0 L s e a b ltac:(lia) ltac:(lia) ltac:(lia)) as R.
      rewrite !Z.add_0_r in R. specialize (R Hq). unfold rot_loc in R. cbn [expand] in R.
      unfold ranged_expand in R. change (0 =? 0) with true in R. cbn [obind normalize] in R.
      rewrite R in E. inversion E; subst. cbn [cin forallb].
      pose proof (Z.mod_pos_bound s L HL). pose proof (Z.mod_pos_bound (e - 1) L HL).
      rewrite !andb_true_iff, !Z.leb_le, !Z.ltb_lt. lia.
  - bsplit. rewrite !Z.add_0_r in *. rewrite !gomod_nonneg in E by lia. cbn [obind] in E. inversion E; subst. cbn [cin].
    pose proof (Z.mod_pos_bound s L HL). pose proof (Z.mod_pos_bound (e - 1) L HL).
    pose proof (Z.div_mod s L ltac:(lia)) as Ds. pose proof (Z.div_mod (e - 1) L ltac:(lia)) as De.
    match goal with H : s / L = _ |- _ => rewrite <- H in De end.
    rewrite !andb_true_iff, !Z.leb_le, Z.ltb_lt. lia.
Qed.

Lemma normalize_cin L : 0 < L -> forall l,
  jfree l = true -> wf_all (awf 0 L) l = true ->
  forall l', normalize l L = Ok l' -> cin L l' = true.
Proof.
  intros HL. induction l as [p|p|s e a b|s e|ls IH|ls IH|x IH] using loc_ind'; intros Hj Hw l' E.
  1-4: match type of E with normalize ?l0 _ = _ => exact (normalize_cin_base L HL l0 I Hw _ E) end.
  - discriminate.
  - cbn [normalize] in E. destruct (omapM (fun x => normalize x L) ls) as [ys| | |] eqn:Ey; try discriminate.
    cbn [obind] in E. apply (order_P (cin L) (fun xs => eq_refl) ys l'); [|exact E].
    apply omapM_inv in Ey. cbn [jfree wf_all] in Hj, Hw.
    apply forallb_Forall in Hj. apply forallb_Forall in Hw.
    apply Forall_forallb. clear E. induction Ey as [|x y t ys' Hxy _ IHt]; [constructor|].
    inversion IH; inversion Hj; inversion Hw; subst. constructor; [|apply IHt; assumption].
    match goal with H : _ -> _ -> forall l', _ -> cin L l' = true |- _ => eapply H; eassumption end.
  - cbn [normalize] in E. destruct (normalize x L) as [x'| | |] eqn:Ex; try discriminate. cbn [obind] in E.
    inversion E; subst. cbn [jfree wf_all] in Hj, Hw. cbn [cin]. exact (IH Hj Hw _ eq_refl).
Qed.

(* after Rotate every coordinate lies in [0,L] *)
Theorem rotate_cin n L : 0 <= n < L -> forall l,
  jfree l = true -> wf_all (awf n L) l = true ->
  forall l', rot_loc n L l = Ok l' -> cin L l' = true.
Proof.
  intros Hn l Hj Hw l' E. unfold rot_loc in E.
  destruct (expand l 0 n) as [l1| | |] eqn:E1; try discriminate. cbn [obind] in E.
  pose proof (expandA_shape_all n L ltac:(lia) l Hj Hw l1 E1) as S1.
  unfold shapeP in S1. apply andb_true_iff in S1 as [J1 W1].
  exact (normalize_cin L ltac:(lia) l1 J1 W1 l' E).
Qed.
