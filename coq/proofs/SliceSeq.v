(* SliceSeq.v — Erase and Slice on whole records (C03). *)
From Coq Require Import List ZArith Lia Bool Permutation.
From GTS Require Import Base Arith Loc Region Seq BaseLemmas LocProofs EditProofs SeqProofs RegionProofs PlansProofs ResizeProofs
  JoinSafe JoinDen RotateProofs JoinLift RotateJoin InsertSeq UndoProofs SplitConcat.
Import ListNotations.
Open Scope Z_scope.

(* Erase = Delete on the table without the features lying within the removed
   stretch (source features always stay) *)
Definition erase_keep (off len : Z) (f : feature) : bool :=
  is_source f || negb (loc_within (floc f) off (off + len)).

Theorem seq_erase_features s off len : 0 <= off -> 0 < len -> off + len <= zlen (residues s) ->
  Forall (del_ok off len) (filter (erase_keep off len) (feats s)) ->
  exists ls, seq_erase s off len =
      Ok (mkseq (relocate (filter (erase_keep off len) (feats s)) ls)
                (firstn (Z.to_nat off) (residues s) ++ skipn (Z.to_nat (off + len)) (residues s))) /\
    Forall2 (fun f l => deq (den l) (del_den off len (den (floc f)))) (filter (erase_keep off len) (feats s)) ls.
Proof.
  intros H1 H2 H3 Hok. unfold seq_erase. fold (erase_keep off len).
  exact (seq_delete_features (mkseq (filter (erase_keep off len) (feats s)) (residues s)) off len H1 H2 H3 Hok).
Qed.

(* Slice [s,e), 0 <= s <= e <= L: the features overlapping the window, each
   through the two deletions; a source feature is made complete *)
Lemma den_as_complete l : den (as_complete l) = den l.
Proof.
  induction l as [p|p|a b x y|a b|ls IH|ls IH|x IH] using loc_ind'; try reflexivity.
  - cbn [as_complete den]. induction IH as [|z t Hz _ IHt]; [reflexivity|]. cbn [map flat_map]. now rewrite Hz, IHt.
  - cbn [as_complete den]. induction IH as [|z t Hz _ IHt]; [reflexivity|]. cbn [map flat_map]. now rewrite Hz, IHt.
Qed.

Definition slice_ok (L : Z) (f : feature) : Prop :=
  jfree (floc f) = true /\ ord_ok (floc f) = true /\ Forall (fun x => 0 <= fst x < L) (den (floc f)).

Theorem seq_slice_features sq s e : let L := zlen (residues sq) in 0 <= s <= e -> e <= L ->
  Forall (slice_ok L) (feats sq) ->
  let kept := filter (fun g => loc_overlap (floc g) s e) (feats sq) in
  exists ls, seq_slice sq s e = Ok (mkseq (relocate kept ls) (lslice s e (residues sq))) /\
    Forall2 (fun f l => den l = map (onpos (fun x => x - s)) (filter (inwin (s, e)) (den (floc f)))) kept ls.
Proof.
  intros L Hs He Hok kept.
  assert (Hk : Forall (slice_ok L) kept).
  { apply Forall_forall. intros f Hf. apply filter_In in Hf as [Hf _]. rewrite Forall_forall in Hok. now apply Hok. }
  set (op := fun l => l1 <- expand l e (e - L) ;; expand l1 0 (- s)).
  destruct (map_locs_spec op kept) as (ls0 & E0 & F0).
  { eapply Forall_impl; [|exact Hk]. intros f (Hj & Ho & _).
    destruct (slice_loc_den s e L ltac:(lia) He (floc f) Hj Ho) as (l1 & l2 & E1 & E2 & _).
    exists l2. unfold op. rewrite E1. cbn [obind]. exact E2. }
  set (fin := fun g : feature => if is_source g then set_loc g (as_complete (floc g)) else g).
  exists (map (fun g => floc (fin g)) (relocate kept ls0)). split.
  - unfold seq_slice. cbn [seq_slice_f]. fold L.
    destruct (Z.ltb_spec s 0); [lia|]. destruct (Z.ltb_spec e 0); [lia|]. destruct (Z.ltb_spec e s); [lia|].
    fold kept. fold op. rewrite E0. cbn [obind]. destruct (Z.ltb_spec (e - s) 0); [lia|].
    unfold slice. fold L. destruct (Z.leb_spec 0 s); [|lia]. destruct (Z.leb_spec s e); [|lia]. destruct (Z.leb_spec e L); [|lia].
    cbn [andb obind]. f_equal. f_equal.
    fold fin. clear. revert ls0. induction kept as [|f t IH]; intros [|l ls]; try reflexivity.
    unfold relocate in *. cbn [combine map fst snd]. f_equal; [|apply IH].
    unfold fin, set_loc. cbn [fkey floc fprops]. unfold is_source. cbn [fkey]. destruct (bytes_eqb (fkey f) source_key); reflexivity.
  - clear E0. revert Hk. induction F0 as [|f l t ls' Hfl _ IH]; intros Hk; [constructor|].
    inversion Hk as [|? ? (Hj & Ho & Hd) Hk']; subst. unfold relocate. cbn [combine map fst snd]. constructor; [|apply IH; exact Hk'].
    destruct (slice_loc_den s e L ltac:(lia) He (floc f) Hj Ho) as (l1 & l2 & E1 & E2 & D2 & _).
    unfold op in Hfl. rewrite E1 in Hfl. cbn [obind] in Hfl. rewrite E2 in Hfl. inversion Hfl; subst l.
    assert (Dl : den (floc (fin (set_loc f l2))) = den l2).
    { unfold fin. destruct (is_source (set_loc f l2)); cbn [set_loc floc]; [apply den_as_complete|reflexivity]. }
    rewrite Dl, D2. apply (slice_window_den s e L (den (floc f)) Hs He Hd).
Qed.
