(* RepairDen.v — C12: the merge step of Repair never changes the residues a
   class of features covers (as a multiset of stranded positions), and what the
   bookkeeping (assign_locs) does to the table. *)
From Coq Require Import List ZArith Lia Bool Permutation.
From GTS Require Import Base Arith Loc Seq Repair BaseLemmas LocProofs RepairProofs.
Import ListNotations.
Open Scope Z_scope.

(* every range runs forward *)
Fixpoint rgood (l : loc) : Prop :=
  match l with
  | Ranged s e _ _ => s <= e
  | Joined ls | Ordered ls =>
    (fix all (xs : list loc) : Prop := match xs with [] => True | x :: t => rgood x /\ all t end) ls
  | Complemented x => rgood x
  | _ => True
  end.

Lemma rgood_all xs :
  (fix all (xs : list loc) : Prop := match xs with [] => True | x :: t => rgood x /\ all t end) xs <-> Forall rgood xs.
Proof.
  induction xs as [|x t IH]; split; intros H; [constructor|exact I| |].
  - destruct H as [H1 H2]. constructor; [exact H1|now apply IH].
  - inversion H; subst. split; [assumption|now apply IH].
Qed.

Lemma rgood_parts a : rgood a -> Forall rgood (fst (fragment_parts a)).
Proof.
  destruct a as [| | | |ls|ls|]; cbn [fragment_parts fst rgood]; intros H; try (constructor; [exact H|constructor]);
    apply (proj1 (rgood_all ls)); exact H.
Qed.

Lemma den_parts a : match a with Complemented _ => False | _ => True end ->
  den a = flat_map den (fst (fragment_parts a)).
Proof.
  destruct a; intros H; try contradiction; cbn [fragment_parts fst flat_map]; rewrite ?app_nil_r; reflexivity.
Qed.

Lemma rgood_mk_multi parts ord : Forall rgood parts -> rgood (mk_multi parts ord).
Proof.
  intros H. unfold mk_multi. destruct parts as [|x [|y t]].
  - destruct ord; exact I.
  - inversion H; assumption.
  - destruct ord; cbn [rgood]; apply (proj2 (rgood_all (x :: y :: t))); exact H.
Qed.

Lemma merge_flat_good pa pb ord force m : Forall rgood pa -> Forall rgood pb ->
  merge_flat pa pb ord force = Some m ->
  den m = flat_map den pa ++ flat_map den pb /\ rgood m.
Proof.
  intros Ha Hb H. pose proof (merge_flat_spec pa pb ord force m H) as Spec.
  unfold merge_flat in H.
  destruct (split_last pa) as [[init last]|] eqn:Es; [|discriminate].
  destruct last as [| |ls le l5 l3| | | |]; try discriminate.
  destruct pb as [|b0 tl]; [discriminate|].
  destruct b0 as [| |rs re r5 r3| | | |]; try discriminate.
  destruct (negb (le =? rs)) eqn:E1; [discriminate|].
  apply negb_false_iff, Z.eqb_eq in E1. subst rs.
  destruct (negb force && negb (l3 && r5)); [discriminate|].
  apply split_last_spec in Es. subst pa.
  apply Forall_app in Ha as [Hi Hl]. inversion Hl as [|? ? Hl1 _]; subst.
  inversion Hb as [|? ? Hr1 Htl]; subst. cbn [rgood] in Hl1, Hr1.
  destruct Spec as (init' & ls' & le' & l5' & l3' & re' & r5' & r3' & tl' & Ea & Eb & _ & Hd).
  apply app_inj_tail in Ea as [-> Ea]. inversion Ea; subst. inversion Eb; subst.
  split; [apply Hd; lia|].
  inversion H; subst m. apply rgood_mk_multi. apply Forall_app. split; [exact Hi|].
  constructor; [cbn [rgood]; lia|exact Htl].
Qed.

Definition ncompl (a : loc) : Prop := match a with Complemented _ => False | _ => True end.

Lemma mf_nc a b force : ncompl a -> ncompl b ->
  merge_fragments a b force =
  merge_flat (fst (fragment_parts a)) (fst (fragment_parts b))
             (snd (fragment_parts a) || snd (fragment_parts b)) force.
Proof. destruct a, b; intros Ha Hb; try contradiction; reflexivity. Qed.

Lemma mf_mixed a b force : (ncompl a /\ ~ ncompl b) \/ (~ ncompl a /\ ncompl b) -> merge_fragments a b force = None.
Proof. destruct a, b; cbn [ncompl]; intros [[H1 H2]|[H1 H2]]; try tauto; reflexivity. Qed.

Lemma ncompl_dec a : {ncompl a} + {exists x, a = Complemented x}.
Proof. destruct a; try (left; exact I). right. eexists; reflexivity. Qed.

Lemma merge_fragments_den force : forall a b m, rgood a -> rgood b ->
  merge_fragments a b force = Some m ->
  Permutation (den m) (den a ++ den b) /\ rgood m.
Proof.
  assert (NC : forall a b m, ncompl a -> ncompl b -> rgood a -> rgood b ->
                 merge_fragments a b force = Some m -> Permutation (den m) (den a ++ den b) /\ rgood m).
  { intros a b m Na Nb Ha Hb H. rewrite mf_nc in H by assumption.
    destruct (merge_flat_good _ _ _ _ _ (rgood_parts a Ha) (rgood_parts b Hb) H) as [D G].
    split; [|exact G]. rewrite D, <- (den_parts a Na), <- (den_parts b Nb). apply Permutation_refl. }
  intros a. remember (loc_size a) as n eqn:En. revert a En.
  induction n as [n IHn] using (well_founded_induction lt_wf). intros a En b m Ha Hb H.
  destruct (ncompl_dec a) as [Na|[x ->]]; destruct (ncompl_dec b) as [Nb|[y ->]].
  - now apply NC.
  - rewrite mf_mixed in H; [discriminate|]. left. split; [exact Na|]. cbn. tauto.
  - rewrite mf_mixed in H; [discriminate|]. right. split; [cbn; tauto|exact Nb].
  - cbn [merge_fragments] in H. destruct (merge_fragments x y force) as [m0|] eqn:E; [|discriminate].
    inversion H; subst m. cbn [rgood] in Ha, Hb.
    destruct (IHn (loc_size x) ltac:(subst n; cbn [loc_size]; lia) x eq_refl y m0 Ha Hb E) as [P G].
    split; [|exact G]. rewrite !den_complemented.
    eapply Permutation_trans; [apply Permutation_sym, Permutation_rev|].
    eapply Permutation_trans; [apply Permutation_map, P|]. rewrite map_app.
    apply Permutation_app; apply Permutation_rev.
Qed.

Definition DD (ls : list loc) : list (Z * bool) := flat_map den ls.

Lemma DD_app a b : DD (a ++ b) = DD a ++ DD b.
Proof. unfold DD. apply flat_map_app. Qed.

Lemma DD_perm a b : Permutation a b -> Permutation (DD a) (DD b).
Proof.
  induction 1 as [|x a b _ IH|x y a|a b c _ IH1 _ IH2]; unfold DD in *; cbn [flat_map].
  - constructor.
  - now apply Permutation_app_head.
  - rewrite !app_assoc. apply Permutation_app_tail, Permutation_app_comm.
  - eapply Permutation_trans; eassumption.
Qed.

(* the merge pass over a sorted class *)
Lemma merge_all_den force : forall locs racc, Forall rgood locs -> Forall rgood racc ->
  Permutation (DD (merge_all locs racc force)) (DD (rev racc) ++ DD locs) /\
  Forall rgood (merge_all locs racc force).
Proof.
  induction locs as [|l t IH]; intros racc Hl Hr; cbn [merge_all].
  - change (DD []) with (@nil (Z * bool)). rewrite app_nil_r. split; [apply Permutation_refl|now apply Forall_rev].
  - inversion Hl as [|? ? Hl1 Ht]; subst. destruct racc as [|last rt].
    + destruct (IH [l] Ht ltac:(constructor; [exact Hl1|constructor])) as [P G]. split; [|exact G].
      eapply Permutation_trans; [exact P|]. cbn [rev app]. change (DD []) with (@nil (Z * bool)). cbn [app].
      change (DD (l :: t)) with (den l ++ DD t). change (DD [l]) with (den l ++ []). rewrite app_nil_r.
      apply Permutation_refl.
    + inversion Hr as [|? ? Hlast Hrt]; subst.
      destruct (merge_fragments last l force) as [m|] eqn:E.
      * destruct (merge_fragments_den force last l m Hlast Hl1 E) as [Pm Gm].
        destruct (IH (m :: rt) Ht ltac:(constructor; assumption)) as [P G]. split; [|exact G].
        eapply Permutation_trans; [exact P|]. cbn [rev]. rewrite !DD_app.
        change (DD [m]) with (den m ++ []). change (DD [last]) with (den last ++ []). rewrite !app_nil_r.
        change (DD (l :: t)) with (den l ++ DD t). rewrite <- !app_assoc.
        apply Permutation_app_head. rewrite !app_assoc. apply Permutation_app_tail. exact Pm.
      * destruct (IH (l :: last :: rt) Ht ltac:(constructor; [exact Hl1|constructor; assumption])) as [P G].
        split; [|exact G]. eapply Permutation_trans; [exact P|]. cbn [rev]. rewrite !DD_app.
        change (DD [l]) with (den l ++ []). rewrite app_nil_r.
        change (DD (l :: t)) with (den l ++ DD t). rewrite <- !app_assoc. apply Permutation_refl.
Qed.

Lemma ins_right_perm x racc : Permutation (ins_right x racc) (x :: racc).
Proof.
  induction racc as [|y t IH]; cbn [ins_right]; [apply Permutation_refl|].
  destruct (loc_less x y); [|apply Permutation_refl].
  eapply Permutation_trans; [apply perm_skip, IH|]. apply perm_swap.
Qed.

Lemma loc_isort_perm l : Permutation (loc_isort l) l.
Proof.
  unfold loc_isort. eapply Permutation_trans; [apply Permutation_sym, Permutation_rev|].
  assert (G : forall acc, Permutation (fold_left (fun a x => ins_right x a) l acc) (l ++ acc)).
  { induction l as [|x t IH]; intros acc; cbn [fold_left app]; [apply Permutation_refl|].
    eapply Permutation_trans; [apply IH|].
    eapply Permutation_trans; [apply Permutation_app_head, ins_right_perm|]. apply Permutation_sym, Permutation_middle. }
  specialize (G []). now rewrite app_nil_r in G.
Qed.

(* one class of Repair: whatever is merged, the class covers the same stranded
   residues afterwards as before *)
Theorem repair_class_den (gg : list feature) (indices : list nat) force :
  let locs0 := map (fun i => floc (nth_feat gg i)) indices in
  Forall rgood locs0 ->
  Permutation (DD (merge_all (loc_isort locs0) [] force)) (DD locs0) /\
  Forall rgood (merge_all (loc_isort locs0) [] force).
Proof.
  intros locs0 H.
  assert (Hs : Forall rgood (loc_isort locs0)).
  { apply Forall_forall. intros x Hx. rewrite Forall_forall in H. apply H.
    eapply Permutation_in; [apply loc_isort_perm|exact Hx]. }
  destruct (merge_all_den force (loc_isort locs0) [] Hs ltac:(constructor)) as [P G]. split; [|exact G].
  eapply Permutation_trans; [exact P|]. cbn [rev]. change (DD []) with (@nil (Z * bool)). cbn [app].
  apply DD_perm, loc_isort_perm.
Qed.

(* ---------- the bookkeeping: merged locations go to the first indices *)

Lemma set_nth_length {A} (l : list A) : forall i x, length (set_nth l i x) = length l.
Proof. induction l as [|y t IH]; intros [|i] x; cbn [set_nth length]; auto. Qed.

Lemma nth_set_nth_same {A} (d : A) (l : list A) : forall i x, (i < length l)%nat -> nth i (set_nth l i x) d = x.
Proof. induction l as [|y t IH]; intros [|i] x H; cbn [set_nth nth length] in *; try lia; [reflexivity|]. apply IH. lia. Qed.

Lemma nth_set_nth_other {A} (d : A) (l : list A) : forall i j x, i <> j -> nth j (set_nth l i x) d = nth j l d.
Proof.
  induction l as [|y t IH]; intros [|i] [|j] x H; cbn [set_nth nth]; try reflexivity; try lia.
  apply IH. lia.
Qed.

Lemma assign_locs_length : forall indices locs gg, length (assign_locs gg indices locs) = length gg.
Proof.
  induction indices as [|i it IH]; intros [|l lt] gg; cbn [assign_locs]; try reflexivity.
  rewrite IH, set_nth_length. reflexivity.
Qed.

(* features outside the class are untouched; every feature keeps key and qualifiers *)
Lemma assign_locs_other : forall indices locs gg j, ~ In j indices ->
  nth_feat (assign_locs gg indices locs) j = nth_feat gg j.
Proof.
  induction indices as [|i it IH]; intros [|l lt] gg j Hj; cbn [assign_locs]; try reflexivity.
  rewrite IH by (intros Hin; apply Hj; right; exact Hin).
  unfold nth_feat. apply nth_set_nth_other. intros ->. apply Hj. left. reflexivity.
Qed.

Lemma assign_locs_keeps : forall indices locs gg j,
  fkey (nth_feat (assign_locs gg indices locs) j) = fkey (nth_feat gg j) /\
  fprops (nth_feat (assign_locs gg indices locs) j) = fprops (nth_feat gg j).
Proof.
  induction indices as [|i it IH]; intros [|l lt] gg j; cbn [assign_locs]; try (split; reflexivity).
  destruct (IH lt (set_nth gg i (set_loc (nth_feat gg i) l)) j) as [K P]. rewrite K, P.
  unfold nth_feat. destruct (Nat.eq_dec i j) as [->|Hne].
  - destruct (Nat.lt_ge_cases j (length gg)) as [Hlt|Hge].
    + rewrite nth_set_nth_same by exact Hlt. split; reflexivity.
    + rewrite !nth_overflow by (rewrite ?set_nth_length; lia). split; reflexivity.
  - rewrite nth_set_nth_other by exact Hne. split; reflexivity.
Qed.

(* the i-th merged location sits at the i-th index of the class *)
Lemma assign_locs_at : forall indices locs gg, NoDup indices ->
  Forall (fun i => (i < length gg)%nat) indices -> (length locs <= length indices)%nat ->
  map (fun i => floc (nth_feat (assign_locs gg indices locs) i)) (firstn (length locs) indices) = locs.
Proof.
  induction indices as [|i it IH]; intros [|l lt] gg Hnd Hin Hlen; cbn [assign_locs length firstn map] in *; try reflexivity; try lia.
  inversion Hnd as [|? ? Hni Hnd']; subst. inversion Hin as [|? ? Hi Hin']; subst.
  f_equal.
  - rewrite assign_locs_other by exact Hni. unfold nth_feat. rewrite nth_set_nth_same by exact Hi. reflexivity.
  - apply IH; [exact Hnd'| |lia]. eapply Forall_impl; [|exact Hin']. intros a Ha. now rewrite set_nth_length.
Qed.

(* one class of Repair, table and all *)
Theorem repair_group_spec ff gg indices :
  NoDup indices -> Forall (fun i => (i < length gg)%nat) indices ->
  Forall rgood (map (fun i => floc (nth_feat gg i)) indices) ->
  let '(gg', kept) := repair_group ff gg indices in
  Permutation (DD (map (fun i => floc (nth_feat gg' i)) kept)) (DD (map (fun i => floc (nth_feat gg i)) indices)) /\
  (exists k, kept = firstn k indices) /\
  (forall j, ~ In j indices -> nth_feat gg' j = nth_feat gg j) /\
  (forall j, fkey (nth_feat gg' j) = fkey (nth_feat gg j) /\ fprops (nth_feat gg' j) = fprops (nth_feat gg j)) /\
  length gg' = length gg.
Proof.
  intros Hnd Hin Hg. unfold repair_group. destruct indices as [|i0 it].
  - split; [apply Permutation_refl|]. split; [exists O; reflexivity|]. split; [reflexivity|]. split; [split; reflexivity|reflexivity].
  - set (indices := i0 :: it) in *.
    set (locs0 := map (fun i => floc (nth_feat gg i)) indices) in *.
    set (force := is_source (nth_feat ff i0)).
    set (merged := merge_all (loc_isort locs0) [] force).
    destruct (repair_class_den gg indices force Hg) as [P _]. fold locs0 in P. fold merged in P.
    assert (Hfit : (length merged <= length indices)%nat).
    { pose proof (merge_all_length (loc_isort locs0) [] force) as H.
      rewrite loc_isort_length in H. unfold locs0 in H. rewrite map_length in H. change (length (@nil loc)) with O in H. fold locs0 in H. fold merged in H. lia. }
    destruct (Nat.ltb_spec (length merged) (length indices)) as [Hlt|Hge].
    + split; [|split; [exists (length merged); reflexivity|split; [|split]]].
      * rewrite assign_locs_at by (try assumption; lia). exact P.
      * intros j Hj. now apply assign_locs_other.
      * intros j. apply assign_locs_keeps.
      * apply assign_locs_length.
    + assert (E : length merged = length indices) by lia.
      split; [|split; [exists (length merged); reflexivity|split; [reflexivity|split; [split; reflexivity|reflexivity]]]].
      rewrite E, firstn_all. apply Permutation_refl.
Qed.
