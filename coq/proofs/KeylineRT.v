(* KeylineRT.v — C01: a feature key line written by the table writer
   (prefix, key padded to the location column, location, newline) is read back
   by featureKeylineParser as the same key and location. *)
From Coq Require Import List ZArith Lia Bool.
From GTS Require Import Base Arith Pars Loc LocParse Insdc BaseLemmas ParsLemmas FastaProofs IntRT LocRT BodyRT ParsSpec ModRT LocusRT.
Import ListNotations.
Open Scope Z_scope.

Lemma indent_loop_ok n : forall R o e a (fr : frame) k,
  exists e', indent_loop n (mkst (repeat 32 n ++ R) o e a (fr :: k)) =
             (Ok tt, mkst R (o + Z.of_nat n) e' (a + Z.of_nat n) (fr :: k)).
Proof.
  induction n as [|n IH]; intros R o e a fr k.
  - cbn [indent_loop repeat app]. rewrite !Z.add_0_r. eexists. reflexivity.
  - cbn [indent_loop repeat app]. run ltac:(apply next_cons). cbn [Z.eqb Pos.eqb negb].
    run ltac:(apply advance_ne; [lia|reflexivity]). cbn [skipn Z.to_nat Pos.to_nat Pos.iter_op Nat.add].
    destruct (IH R (o + 1) None (a + 1) fr k) as (e' & E). exists e'. eapply eq_trans; [exact E|].
    rewrite Nat2Z.inj_succ. f_equal. f_equal; lia.
Qed.

Lemma pEOL_lf post o e a (fr : frame) k :
  pEOL (mkst (10 :: post) o e a (fr :: k)) = (Ok [10], mkst post (o + 1) None (a + 1) (fr :: k)).
Proof.
  unfold pEOL. run ltac:(apply try_ok; apply next_cons). cbn [Z.eqb Pos.eqb].
  run ltac:(apply advance_ne; [lia|reflexivity]). reflexivity.
Qed.

Lemma parse_loc_eq s : parse_loc s = parse_location (S (length (rest s))) s.
Proof. reflexivity. Qed.

Definition featkey (key : list byte) : Prop := key <> [] /\ Forall (fun c => is_featkey c = true) key.

Theorem keyline_reads prefix depth key l post :
  featkey key -> zlen prefix + zlen key < depth -> printable l ->
  forall o e a (fr : frame) k, exists o' e' a',
    keyline_parser prefix depth
      (mkst (prefix ++ key ++ repeat_byte 32 (depth - (zlen prefix + zlen key)) ++ show l ++ 10 :: post) o e a (fr :: k)) =
    (Ok (key, l), mkst post o' e' a' (fr :: k)).
Proof.
  intros [Hkne Hkey] Hdepth Hp o e a fr k. unfold keyline_parser.
  set (n := depth - (zlen prefix + zlen key)).
  set (R0 := key ++ repeat_byte 32 n ++ show l ++ 10 :: post).
  (* the prefix *)
  assert (Hh : has_n (prefix ++ R0) (Z.to_nat (zlen prefix)) = true) by (rewrite nat_zlen; apply has_n_app).
  rewrite (bind_ok _ _ _ tt _ (request_ok _ o e a (fr :: k) (zlen prefix) Hh)).
  unfold bind at 1. unfold buffer. cbn [endr off rest].
  replace (o + zlen prefix - o) with (zlen prefix) by lia.
  replace (zlen prefix <? 0) with false by (symmetry; apply Z.ltb_ge; apply zlen_nonneg).
  rewrite nat_zlen, firstn_app, firstn_all, Nat.sub_diag. cbn [firstn]. rewrite app_nil_r, bytes_eqb_refl. cbn [negb].
  rewrite (bind_ok _ _ _ tt _ (advance_ne _ o a fr k (zlen prefix) (zlen_nonneg _) Hh)).
  rewrite nat_zlen, skipn_app, skipn_all, Nat.sub_diag. cbn [skipn app].
  (* the key *)
  assert (Hpad : exists m, Z.to_nat n = S m) by (exists (Z.to_nat n - 1)%nat; subst n; lia).
  destruct Hpad as (m & Hm).
  assert (Hsp : match repeat_byte 32 n ++ show l ++ 10 :: post with c :: _ => is_featkey c = false | [] => True end).
  { unfold repeat_byte. rewrite Hm. reflexivity. }
  subst R0.
  destruct (pWord_okp is_featkey key (repeat_byte 32 n ++ show l ++ 10 :: post) Hkne Hkey Hsp
              (o + zlen prefix) None (a + zlen prefix) fr k) as (o1 & e1 & E1).
  run ltac:(exact E1).
  (* the padding *)
  fold n. unfold repeat_byte at 1.
  destruct (indent_loop_ok (Z.to_nat n) (show l ++ 10 :: post) o1 e1 (a + zlen prefix + zlen key) fr k) as (e2 & E2).
  run ltac:(exact E2).
  (* the location *)
  set (f := length (show l ++ 10 :: post)).
  assert (Hsz : (loc_size l <= S f)%nat).
  { pose proof (size_le_show l Hp). subst f. rewrite app_length. lia. }
  destruct (reads_of_body f l (body_all f l Hp Hsz) (10 :: post) (o1 + Z.of_nat (Z.to_nat n)) e2
              (a + zlen prefix + zlen key + Z.of_nat (Z.to_nat n)) fr k ltac:(cbn; auto)) as (o3 & e3 & a3 & E3).
  run ltac:(rewrite parse_loc_eq; cbn [rest]; exact E3).
  run ltac:(apply pEOL_lf). do 3 eexists. reflexivity.
Qed.

(* what the table writer puts on the key line of a feature *)
Definition feature_head (pre : list byte) (depth : Z) (f : Seq.feature) : list byte :=
  pre ++ Seq.fkey f ++ repeat_byte 32 (depth - (zlen pre + zlen (Seq.fkey f))) ++ show (Seq.floc f).

Lemma flat_map_lf_head {A} (g : A -> list byte) (l : list A) :
  (forall x, g x = [] \/ exists t, g x = 10 :: t) -> flat_map g l = [] \/ exists t, flat_map g l = 10 :: t.
Proof.
  intros H. induction l as [|x l IH]; [left; reflexivity|]. cbn [flat_map].
  destruct (H x) as [-> | (t & ->)]; [exact IH|]. right. eexists. reflexivity.
Qed.

Lemma feature_show_head r pre depth f :
  exists q, feature_show r pre depth f = feature_head pre depth f ++ q /\ (q = [] \/ exists t, q = 10 :: t).
Proof.
  unfold feature_show, feature_head. eexists. split; [rewrite <- !app_assoc; reflexivity|].
  apply flat_map_lf_head. intros [|name vs]; [left; reflexivity|].
  apply flat_map_lf_head. intros v. right. eexists. reflexivity.
Qed.

Theorem feature_keyline_roundtrip r pre depth f post :
  featkey (Seq.fkey f) -> zlen pre + zlen (Seq.fkey f) < depth -> printable (Seq.floc f) ->
  (exists q, feature_show r pre depth f = feature_head pre depth f ++ q /\ (q = [] \/ exists t, q = 10 :: t)) /\
  forall o e a (fr : frame) k, exists o' e' a',
    keyline_parser pre depth (mkst (feature_head pre depth f ++ 10 :: post) o e a (fr :: k)) =
    (Ok (Seq.fkey f, Seq.floc f), mkst post o' e' a' (fr :: k)).
Proof.
  intros Hk Hd Hp. split; [apply feature_show_head|].
  intros o e a fr k. unfold feature_head. rewrite <- !app_assoc.
  exact (keyline_reads pre depth (Seq.fkey f) (Seq.floc f) post Hk Hd Hp o e a fr k).
Qed.
