(* FastaProofs.v — C17: what FastaParser reads from what Fasta.WriteTo wrote *)
From GTS Require Import Base Pars Fasta BaseLemmas ParsLemmas.
Open Scope Z_scope.

Notation frame := (list byte * Z * Z)%type.

(* ---------- stack primitives on explicit states *)

Lemma push_eq r o e a (k : list frame) :
  push (mkst r o e a k) = (Ok tt, mkst r o e a ((r, o, a) :: k)).
Proof. reflexivity. Qed.

Lemma pop_ne r o e a r1 o1 a1 (fr : frame) k :
  pop (mkst r o e a ((r1, o1, a1) :: fr :: k)) = (Ok tt, mkst r1 o1 e a1 (fr :: k)).
Proof. reflexivity. Qed.

Lemma drop_ne r o e a (f0 fr : frame) k :
  drop (mkst r o e a (f0 :: fr :: k)) = (Ok tt, mkst r o e a (fr :: k)).
Proof. reflexivity. Qed.

Lemma pushed_ne r o e a (fr : frame) k : pushed (mkst r o e a (fr :: k)) = (Ok true, mkst r o e a (fr :: k)).
Proof. reflexivity. Qed.

Lemma advance_ne r o a (fr : frame) k n : 0 <= n -> has_n r (Z.to_nat n) = true ->
  advance (mkst r o (Some (o + n)) a (fr :: k)) =
  (Ok tt, mkst (skipn (Z.to_nat n) r) (o + n) None (a + n) (fr :: k)).
Proof. intros Hn H. rewrite advance_ok by assumption. reflexivity. Qed.

Lemma pByte_ne c t o e a (fr : frame) k :
  pByte c (mkst (c :: t) o e a (fr :: k)) = (Ok c, mkst t (o + 1) None (a + 1) (fr :: k)).
Proof.
  unfold pByte. rewrite (bind_ok _ _ _ _ _ (next_cons c t o e a (fr :: k))). rewrite Z.eqb_refl.
  rewrite (bind_ok _ _ _ tt _ (advance_ne (c :: t) o a fr k 1 ltac:(lia) eq_refl)).
  reflexivity.
Qed.

Lemma skip1_ne x t o e a (fr : frame) k :
  skip 1 (mkst (x :: t) o e a (fr :: k)) = (Ok tt, mkst t (o + 1) None (a + 1) (fr :: k)).
Proof.
  unfold skip. rewrite (bind_ok _ _ _ tt (mkst (x :: t) o (Some (o + 1)) a (fr :: k)))
    by (apply request_ok; reflexivity).
  apply (advance_ne (x :: t) o a fr k 1); [lia | reflexivity].
Qed.

(* ---------- the stop condition of the FASTA body: Any('>', End) *)

Definition stopq : M unit := pAny [pByte 62 ;;; ret tt; pEnd].

Lemma stopq_gt t o e a (fr : frame) k :
  stopq (mkst (62 :: t) o e a (fr :: k)) = (Ok tt, mkst t (o + 1) None (a + 1) (fr :: k)).
Proof.
  unfold stopq, pAny. rewrite (bind_ok _ _ _ _ _ (push_eq _ _ _ _ _)).
  cbn [any_loop].
  rewrite (bind_ok _ _ _ (Some tt, EOther) (mkst t (o + 1) None (a + 1) ((62 :: t, o, a) :: fr :: k))).
  - rewrite (bind_ok _ _ _ _ _ (drop_ne _ _ _ _ _ _ _)). reflexivity.
  - apply try_ok. rewrite (bind_ok _ _ _ _ _ (pByte_ne 62 t o e a _ _)). reflexivity.
Qed.

Lemma stopq_eof o e a (fr : frame) k :
  exists e', stopq (mkst [] o e a (fr :: k)) = (Ok tt, mkst [] o e' a (fr :: k)).
Proof.
  unfold stopq, pAny. rewrite (bind_ok _ _ _ _ _ (push_eq _ _ _ _ _)).
  cbn [any_loop].
  rewrite (bind_ok _ _ _ (None, EEof) (mkst [] o (Some o) a (([], o, a) :: fr :: k))).
  2:{ apply try_err. now rewrite (bind_err _ _ _ _ _ (pByte_eof 62 o e a _)). }
  rewrite (bind_ok _ _ _ _ _ (pushed_ne _ _ _ _ _ _)).
  destruct (pEnd_nil o (Some o) a (([], o, a) :: fr :: k)) as [e' He].
  rewrite (bind_ok _ _ _ (Some tt, EOther) _ (try_ok _ _ _ _ He)).
  rewrite (bind_ok _ _ _ _ _ (drop_ne _ _ _ _ _ _ _)). exists e'. reflexivity.
Qed.

Lemma stopq_other x t o e a (fr : frame) k : x <> 62 ->
  exists e', stopq (mkst (x :: t) o e a (fr :: k)) = (Err EOther, mkst (x :: t) o e' a (fr :: k)).
Proof.
  intros Hx. unfold stopq, pAny. rewrite (bind_ok _ _ _ _ _ (push_eq _ _ _ _ _)).
  cbn [any_loop].
  rewrite (bind_ok _ _ _ (None, EOther) (mkst (x :: t) o (Some (o + 1)) a ((x :: t, o, a) :: fr :: k))).
  2:{ apply try_err. now rewrite (bind_err _ _ _ _ _ (pByte_other 62 x t o e a _ Hx)). }
  rewrite (bind_ok _ _ _ _ _ (pushed_ne _ _ _ _ _ _)).
  destruct (pEnd_cons x t o (Some (o + 1)) a ((x :: t, o, a) :: fr :: k)) as [e' He].
  rewrite (bind_ok _ _ _ (None, EOther) _ (try_err _ _ _ _ He)).
  rewrite (bind_ok _ _ _ _ _ (pushed_ne _ _ _ _ _ _)).
  rewrite (bind_ok _ _ _ _ _ (pop_ne _ _ _ _ _ _ _ _ _)). exists e'. reflexivity.
Qed.

(* the tail after a record body: end of input or the next record *)
Definition stops (post : list byte) : Prop := post = [] \/ exists t, post = 62 :: t.
Definition no_gt (l : list byte) : Prop := Forall (fun c => c <> 62) l.

(* the scanning loop of Until: walks over the body, stops at post, with the
   outer frame f1 kept and the inner frame re-pushed at every byte *)
Lemma until_loop_body fuel : forall body post o e a (f1 : frame) k,
  no_gt body -> stops post -> (length body < fuel)%nat ->
  exists e' s',
    until_loop fuel stopq (mkst (body ++ post) o e a ((body ++ post, o, a) :: f1 :: k)) = (Ok tt, s') /\
    stk s' = (post, o + zlen body, a + zlen body) :: f1 :: k /\
    endr s' = e'.
Proof.
  induction fuel as [|f IH]; intros body post o e a f1 k Hb Hp Hf; [lia|].
  cbn [until_loop]. destruct body as [|x b].
  - cbn [app]. rewrite zlen_nil, !Z.add_0_r.
    destruct Hp as [->|[t ->]].
    + destruct (stopq_eof o e a ([], o, a) (f1 :: k)) as [e' He].
      rewrite (bind_ok _ _ _ (Some tt, EOther) _ (try_ok _ _ _ _ He)).
      eexists _, _. split; [reflexivity|]. split; reflexivity.
    + rewrite (bind_ok _ _ _ (Some tt, EOther) _ (try_ok _ _ _ _ (stopq_gt t o e a _ _))).
      eexists _, _. split; [reflexivity|]. split; reflexivity.
  - inversion Hb as [|? ? Hx Hb']; subst. cbn [app].
    destruct (stopq_other x (b ++ post) o e a (x :: b ++ post, o, a) (f1 :: k) Hx) as [e1 He1].
    rewrite (bind_ok _ _ _ (None, EOther) _ (try_err _ _ _ _ He1)).
    rewrite (bind_ok _ _ _ _ _ (drop_ne _ _ _ _ _ _ _)).
    rewrite (bind_ok _ _ _ (Some tt, EOther) _ (try_ok _ _ _ _ (skip1_ne x (b ++ post) o e1 a f1 k))).
    rewrite (bind_ok _ _ _ _ _ (push_eq _ _ _ _ _)).
    destruct (IH b post (o + 1) None (a + 1) f1 k Hb' Hp ltac:(cbn [length] in Hf; lia)) as [e' [s' [H1 [H2 H3]]]].
    exists e', s'. split; [exact H1|]. split; [|exact H3].
    rewrite H2, zlen_cons.
    replace (o + 1 + zlen b) with (o + (1 + zlen b)) by lia.
    replace (a + 1 + zlen b) with (a + (1 + zlen b)) by lia. reflexivity.
Qed.

(* pars.Until(Any('>', End)) on body ++ post, inside at least one frame *)
Lemma pUntil_body body post o e a (fr : frame) k :
  no_gt body -> stops post ->
  pUntilP stopq (mkst (body ++ post) o e a (fr :: k)) =
  (Ok body, mkst post (o + zlen body) None (a + zlen body) (fr :: k)).
Proof.
  intros Hb Hp. unfold pUntilP.
  rewrite (bind_ok _ _ _ _ _ (push_eq _ _ _ _ _)).
  rewrite (bind_ok _ _ _ _ _ (push_eq _ _ _ _ _)).
  unfold bind at 1. unfold get. cbn [rest].
  destruct (until_loop_body (S (S (length (body ++ post)))) body post o e a (body ++ post, o, a) (fr :: k) Hb Hp)
    as [e' [s' [H1 [H2 H3]]]]; [rewrite app_length; lia|].
  rewrite (bind_ok _ _ _ _ _ H1).
  destruct s' as [r' o' e'' a' k']. cbn [stk endr] in H2, H3. subst k' e''.
  rewrite (bind_ok _ _ _ _ _ (pop_ne _ _ _ _ _ _ _ _ _)).
  rewrite (bind_ok _ _ _ _ _ (pushed_ne _ _ _ _ _ _)).
  (* Trail *)
  unfold trail. cbn [stk].
  unfold bind at 1. cbn [off].
  rewrite (bind_ok _ _ _ _ _ (pop_ne _ _ _ _ _ _ _ _ _)).
  unfold bind at 1. cbn [off].
  replace (o + zlen body - o) with (zlen body) by lia.
  assert (Hh : has_n (body ++ post) (Z.to_nat (zlen body)) = true) by (rewrite nat_zlen; apply has_n_app).
  rewrite (bind_ok _ _ _ (Some tt, EOther) (mkst (body ++ post) o (Some (o + zlen body)) a (fr :: k)))
    by (apply try_ok, request_ok, Hh).
  unfold bind at 1. unfold buffer. cbn [endr off rest].
  replace (o + zlen body - o) with (zlen body) by lia.
  replace (zlen body <? 0) with false by (symmetry; apply Z.ltb_ge; apply zlen_nonneg).
  rewrite nat_zlen, firstn_app, firstn_all, Nat.sub_diag. cbn [firstn]. rewrite app_nil_r.
  rewrite (bind_ok _ _ _ tt _ (advance_ne _ o a fr k (zlen body) (zlen_nonneg _) Hh)).
  rewrite nat_zlen, skipn_app, skipn_all, Nat.sub_diag. reflexivity.
Qed.

(* ---------- the body: newline removal undoes 70-column wrapping *)

Definition no_byte (c : byte) (l : list byte) : Prop := Forall (fun x => x <> c) l.

Lemma split_nl_no10 l cur : no_byte 10 l -> split_nl l cur = [rev cur ++ l].
Proof.
  revert cur. induction l as [|c t IH]; intros cur H; cbn [split_nl].
  - now rewrite app_nil_r.
  - inversion H; subst. replace (c =? 10) with false by (symmetry; now apply Z.eqb_neq).
    rewrite IH by assumption. cbn [rev]. now rewrite <- app_assoc.
Qed.

Lemma split_nl_app l1 l2 cur : no_byte 10 l1 ->
  split_nl (l1 ++ 10 :: l2) cur = (rev cur ++ l1) :: split_nl l2 [].
Proof.
  revert cur. induction l1 as [|c t IH]; intros cur H; cbn [app split_nl].
  - change (10 =? 10) with true. cbv iota. now rewrite app_nil_r.
  - inversion H; subst. replace (c =? 10) with false by (symmetry; now apply Z.eqb_neq).
    rewrite IH by assumption. cbn [rev]. now rewrite <- app_assoc.
Qed.

Lemma Forall_firstn' {A} (P : A -> Prop) n l : Forall P l -> Forall P (firstn n l).
Proof.
  revert l. induction n as [|n IH]; intros l H; [constructor|].
  destruct l; [constructor|]. inversion H; subst. cbn [firstn]. constructor; auto.
Qed.

Lemma Forall_skipn' {A} (P : A -> Prop) n l : Forall P l -> Forall P (skipn n l).
Proof.
  revert l. induction n as [|n IH]; intros l H; [exact H|].
  destruct l; [constructor|]. inversion H; subst. cbn [skipn]. auto.
Qed.

(* every line of the wrapped text is a chunk of the data: joining the lines
   gives the data back *)
Lemma wrap_concat fuel : forall data n, (0 < n)%nat -> (length data <= fuel)%nat -> no_byte 10 data ->
  concat (split_nl (wrap_force fuel data n ++ [10]) []) = data.
Proof.
  induction fuel as [|f IH]; intros data n Hn Hf H10.
  - destruct data; [|cbn in Hf; lia]. reflexivity.
  - cbn [wrap_force]. destruct (Nat.ltb n (length data)) eqn:E.
    + apply Nat.ltb_lt in E. rewrite <- !app_assoc. cbn [app].
      rewrite split_nl_app by (now apply Forall_firstn').
      cbn [rev app concat]. rewrite IH.
      * apply firstn_skipn.
      * exact Hn.
      * rewrite skipn_length. lia.
      * now apply Forall_skipn'.
    + rewrite split_nl_app by assumption. cbn [rev app split_nl concat]. now rewrite !app_nil_r.
Qed.

Lemma wrap_lines_no13 fuel : forall data n, (0 < n)%nat -> no_byte 10 data -> no_byte 13 data ->
  Forall (no_byte 13) (split_nl (wrap_force fuel data n ++ [10]) []).
Proof.
  induction fuel as [|f IH]; intros data n Hn H10 H13.
  - cbn [wrap_force]. rewrite split_nl_app by assumption. cbn [rev app split_nl].
    repeat constructor; assumption.
  - cbn [wrap_force]. destruct (Nat.ltb n (length data)) eqn:E.
    + rewrite <- !app_assoc. cbn [app].
      rewrite split_nl_app by (now apply Forall_firstn').
      cbn [rev app]. constructor; [now apply Forall_firstn'|].
      apply IH; [exact Hn | now apply Forall_skipn' | now apply Forall_skipn'].
    + rewrite split_nl_app by assumption. cbn [rev app split_nl]. repeat constructor; assumption.
Qed.

Lemma trim_cr_no13 l : no_byte 13 l -> trim_cr l = l.
Proof.
  intros H. unfold trim_cr. destruct (rev l) as [|c r] eqn:E; [reflexivity|].
  assert (Hin : In c l) by (apply in_rev; rewrite E; now left).
  unfold no_byte in H. rewrite Forall_forall in H. specialize (H c Hin).
  destruct (Z.eq_dec c 13) as [->|Hne]; [congruence|].
  destruct c as [|p|p]; try reflexivity.
  repeat (destruct p as [p|p|]; try reflexivity). congruence.
Qed.

Lemma body_data fuel data : (length data <= fuel)%nat -> no_byte 10 data -> no_byte 13 data ->
  fasta_body_data (wrap_force fuel data 70 ++ [10]) = data.
Proof.
  intros Hf H10 H13. unfold fasta_body_data.
  pose proof (wrap_lines_no13 fuel data 70 ltac:(lia) H10 H13) as HL.
  assert (E : map trim_cr (split_nl (wrap_force fuel data 70 ++ [10]) []) =
              split_nl (wrap_force fuel data 70 ++ [10]) []).
  { induction HL as [|l ls Hl _ IHl]; [reflexivity|]. cbn [map]. now rewrite trim_cr_no13, IHl. }
  rewrite E. apply wrap_concat; [lia | exact Hf | exact H10].
Qed.

Lemma wrap_no_gt fuel : forall data n, no_gt data -> no_gt (wrap_force fuel data n).
Proof.
  induction fuel as [|f IH]; intros data n H; [exact H|].
  cbn [wrap_force]. destruct (Nat.ltb n (length data)); [|exact H].
  apply Forall_app. split; [now apply Forall_firstn'|].
  apply Forall_app. split; [repeat constructor; discriminate|].
  apply IH. now apply Forall_skipn'.
Qed.

Lemma nl_to_space_id d : no_eol d -> nl_to_space d = d.
Proof.
  intros H. unfold nl_to_space. induction H as [|c t [H1 _] _ IH]; [reflexivity|].
  cbn [map]. replace (c =? 10) with false by (symmetry; now apply Z.eqb_neq). now rewrite IH.
Qed.

(* ---------- one record *)

(* the writable domain of C17 *)
Definition fasta_ok (desc data : list byte) : Prop :=
  no_eol desc /\ no_byte 10 data /\ no_byte 13 data /\ no_gt data.

Theorem fasta_record desc data post o e a k :
  fasta_ok desc data -> stops post ->
  exists o' e',
    fasta_parser (mkst (fasta_format desc data ++ post) o e a k) =
    (Ok (desc, data), mkst post o' e' (a + zlen (fasta_format desc data)) k).
Proof.
  intros [Hd [H10 [H13 Hgt]]] Hp. unfold fasta_parser, pMap, fasta_format.
  rewrite nl_to_space_id by assumption.
  set (body := wrap_force (length data) data 70 ++ [10]).
  rewrite (bind_ok _ _ _ _ _ (push_eq _ _ _ _ _)).
  set (F := ((([62] ++ desc ++ [10] ++ body) ++ post), o, a)).
  (* Seq3 *)
  assert (HS : exists o1 e1,
    pSeq3 (pByte 62) pLine (pUntilP (pAny [pByte 62;;; ret tt; pEnd]))
      (mkst (([62] ++ desc ++ [10] ++ body) ++ post) o e a (F :: k)) =
    (Ok (62, desc, body), mkst post o1 e1 (a + 1 + zlen desc + 1 + zlen body) (F :: k))).
  { unfold pSeq3. rewrite (bind_ok _ _ _ _ _ (push_eq _ _ _ _ _)).
    rewrite <- !app_assoc. cbn [app].
    rewrite (bind_ok _ _ _ (Some 62, EOther) _ (try_ok _ _ _ _ (pByte_ne 62 _ o e a _ _))).
    destruct (pLine_lf desc (body ++ post) (o + 1) None (a + 1)
               ((62 :: desc ++ 10 :: body ++ post, o, a) :: F :: k) Hd) as [o1 [e1 HL]].
    rewrite (bind_ok _ _ _ (Some desc, EOther) _ (try_ok _ _ _ _ HL)).
    assert (Hb : no_gt body).
    { unfold body. apply Forall_app. split; [now apply wrap_no_gt | repeat constructor; discriminate]. }
    pose proof (pUntil_body body post o1 e1 (a + 1 + zlen desc + 1)
                  (62 :: desc ++ 10 :: body ++ post, o, a) (F :: k) Hb Hp) as HU.
    fold stopq. rewrite (bind_ok _ _ _ (Some body, EOther) _ (try_ok _ _ _ _ HU)).
    rewrite (bind_ok _ _ _ _ _ (drop_ne _ _ _ _ _ _ _)).
    eexists _, _. reflexivity. }
  destruct HS as [o1 [e1 HS]].
  rewrite (bind_ok _ _ _ (Some (62, desc, body), EOther) _ (try_ok _ _ _ _ HS)).
  (* drop the frame of Map *)
  unfold bind at 1. unfold drop. cbn [stk rest off endr apos].
  destruct (autoclear_cases post o1 e1 (a + 1 + zlen desc + 1 + zlen body) k) as [o2 ->].
  unfold lift. unfold body. rewrite body_data by (auto; lia).
  exists o2, e1. f_equal. f_equal.
  rewrite !zlen_app. change (zlen [62]) with 1. change (zlen [10]) with 1. lia.
Qed.

(* ---------- a stream of records *)

Lemma fasta_parser_eof o e a k :
  exists s', fasta_parser (mkst [] o e a k) = (Err EEof, s').
Proof.
  unfold fasta_parser, pMap.
  rewrite (bind_ok _ _ _ _ _ (push_eq _ _ _ _ _)).
  assert (HS : exists s1, pSeq3 (pByte 62) pLine (pUntilP (pAny [pByte 62;;; ret tt; pEnd]))
                 (mkst [] o e a (([], o, a) :: k)) = (Err EEof, s1)).
  { unfold pSeq3. rewrite (bind_ok _ _ _ _ _ (push_eq _ _ _ _ _)).
    rewrite (bind_ok _ _ _ (None, EEof) _ (try_err _ _ _ _ (pByte_eof 62 o e a _))).
    rewrite (bind_ok _ _ _ _ _ (pop_ne _ _ _ _ _ _ _ _ _)). eexists. reflexivity. }
  destruct HS as [s1 HS].
  rewrite (bind_ok _ _ _ (None, EEof) _ (try_err _ _ _ _ HS)).
  unfold bind, pop. destruct (stk s1) as [|[[? ?] ?] ?]; eexists; reflexivity.
Qed.

Definition fmt (r : list byte * list byte) : list byte := fasta_format (fst r) (snd r).
Definition rec_ok (r : list byte * list byte) : Prop := fasta_ok (fst r) (snd r).

Lemma stream_stops rs : stops (concat (map fmt rs)).
Proof.
  destruct rs as [|r t]; [now left|]. right. cbn [map concat]. unfold fmt at 1, fasta_format.
  eexists. rewrite <- !app_assoc. cbn [app]. reflexivity.
Qed.

(* Scanner.atEnd on the two shapes a stream of written records takes *)
Ltac stepz := repeat (cbn; try change (Pos.to_nat 1) with 1%nat;
  repeat match goal with
  | |- context [?o + 1 - ?o] => replace (o + 1 - o) with 1 by lia
  | |- context [?o + 0 - ?o] => replace (o + 0 - o) with 0 by lia
  | |- context [?o - ?o] => replace (o - o) with 0 by lia
  | |- context [?o + 0] => replace (o + 0) with o by lia
  end).
Lemma at_end_nil o e a k : exists s', at_end (mkst [] o e a k) = (Ok true, s').
Proof.
  unfold at_end, pSpaces, pEnd, next, trail, bind, try, push, pop, request, buffer, advance_while, advance, ret, fail.
  stepz. destruct k; stepz; eexists; reflexivity.
Qed.
Lemma at_end_gt t o e a k : exists o' e', at_end (mkst (62 :: t) o e a k) = (Ok false, mkst (62 :: t) o' e' a k).
Proof.
  unfold at_end, pSpaces, pEnd, next, trail, bind, try, push, pop, request, buffer, advance_while, advance, ret, fail.
  stepz. destruct k; stepz; do 2 eexists; reflexivity.
Qed.

Lemma scan_stream recs : forall acc o e a k fuel,
  Forall rec_ok recs -> (length recs < fuel)%nat ->
  exists s', scan_loop fuel fasta_parser acc (mkst (concat (map fmt recs)) o e a k) =
             (Ok (rev acc ++ recs, true), s').
Proof.
  induction recs as [|r rs IH]; intros acc o e a k fuel Hok Hf; (destruct fuel as [|f]; [lia|]); cbn [scan_loop].
  - cbn [map concat]. destruct (at_end_nil o e a k) as [s' Hs].
    rewrite (bind_ok _ _ _ true _ Hs).
    eexists. unfold ret. now rewrite app_nil_r.
  - inversion Hok as [|? ? Hr Hrs]; subst. cbn [map concat].
    destruct r as [d p]. unfold fmt at 1. cbn [fst snd].
    assert (HA : exists o1 e1, at_end (mkst (fasta_format d p ++ concat (map fmt rs)) o e a k) =
                 (Ok false, mkst (fasta_format d p ++ concat (map fmt rs)) o1 e1 a k)).
    { unfold fasta_format. rewrite <- !app_assoc. cbn [app]. apply at_end_gt. }
    destruct HA as [o1 [e1 HA]]. rewrite (bind_ok _ _ _ false _ HA).
    destruct (fasta_record d p (concat (map fmt rs)) o1 e1 a k Hr (stream_stops rs)) as [o' [e' HR]].
    rewrite (bind_ok _ _ _ (Some (d, p), EOther) _ (try_ok _ _ _ _ HR)).
    destruct (IH ((d, p) :: acc) o' e' (a + zlen (fasta_format d p)) k f Hrs ltac:(cbn [length] in Hf; lia)) as [s' Hs'].
    exists s'. rewrite Hs'. cbn [rev]. now rewrite <- app_assoc.
Qed.

Lemma stream_length recs : (length recs <= length (concat (map fmt recs)))%nat.
Proof.
  induction recs as [|r t IH]; [cbn; lia|]. cbn [map concat length]. rewrite app_length.
  unfold fmt at 1, fasta_format. rewrite app_length. cbn [length]. lia.
Qed.

(* a stream of N written records reads back as the same N records, in order,
   and the scanner reports a clean end of input *)
Theorem fasta_stream recs : Forall rec_ok recs ->
  scan_fasta (concat (map fmt recs)) = Ok (recs, true).
Proof.
  intros H. unfold scan_fasta, st_of.
  destruct (scan_stream recs [] 0 None 0 [] (S (length (concat (map fmt recs)))) H) as [s' Hs].
  - pose proof (stream_length recs). lia.
  - rewrite Hs. reflexivity.
Qed.
