(* RepairProofs.v — C12: what merging two fragments does, and that the
   bookkeeping of Repair never runs out of indices *)
From GTS Require Import Base Arith Loc Seq Repair BaseLemmas LocProofs.
Open Scope Z_scope.

Lemma split_last_spec {A} (l init : list A) last : split_last l = Some (init, last) -> l = init ++ [last].
Proof.
  revert init last. induction l as [|y t IH]; intros init last H; [discriminate|].
  cbn [split_last] in H. destruct t as [|z t'].
  - inversion H; subst. reflexivity.
  - destruct (split_last (z :: t')) as [[i l']|] eqn:E; [|discriminate].
    inversion H; subst. cbn [app]. f_equal. now apply IH.
Qed.

Lemma den_mk_multi parts ord : den (mk_multi parts ord) = flat_map den parts.
Proof.
  unfold mk_multi. destruct parts as [|x [|y t]].
  - destruct ord; reflexivity.
  - cbn [flat_map]. now rewrite app_nil_r.
  - destruct ord; reflexivity.
Qed.

(* merging part lists: only when the last range of the first ends where the
   first range of the second starts and (force, or 3'-partial meets 5'-partial);
   the result denotes exactly the residues of the two, in order *)
Theorem merge_flat_spec pa pb ord force m :
  merge_flat pa pb ord force = Some m ->
  exists init ls le l5 l3 re r5 r3 tl,
    pa = init ++ [Ranged ls le l5 l3] /\ pb = Ranged le re r5 r3 :: tl /\
    (force = true \/ (l3 = true /\ r5 = true)) /\
    (ls <= le <= re -> den m = flat_map den pa ++ flat_map den pb).
Proof.
  unfold merge_flat. intros H.
  destruct (split_last pa) as [[init last]|] eqn:Es; [|discriminate].
  destruct last as [| |ls le l5 l3| | | |]; try discriminate.
  destruct pb as [|fst tl]; [discriminate|].
  destruct fst as [| |rs re r5 r3| | | |]; try discriminate.
  destruct (negb (le =? rs)) eqn:E1; [discriminate|].
  apply negb_false_iff, Z.eqb_eq in E1. subst rs.
  destruct (negb force && negb (l3 && r5)) eqn:E2; [discriminate|].
  inversion H; subst m. apply split_last_spec in Es.
  exists init, ls, le, l5, l3, re, r5, r3, tl. repeat split; try assumption.
  - destruct force; [now left|]. right. cbn [negb andb] in E2.
    apply negb_false_iff, andb_true_iff in E2. exact E2.
  - intros Hw. rewrite den_mk_multi, Es, !flat_map_app. cbn [flat_map]. rewrite !app_nil_r.
    rewrite !den_ranged. rewrite <- !app_assoc. f_equal.
    rewrite (zrange_split ls le re) by lia. rewrite map_app, <- app_assoc. reflexivity.
Qed.

(* bookkeeping: never more merged locations than features in the group *)
Lemma merge_all_length locs : forall racc force,
  (length (merge_all locs racc force) <= length locs + length racc)%nat.
Proof.
  induction locs as [|l t IH]; intros racc force; cbn [merge_all].
  - rewrite rev_length. lia.
  - destruct racc as [|last rt].
    + specialize (IH [l] force). cbn [length] in *. lia.
    + destruct (merge_fragments last l force).
      * specialize (IH (l0 :: rt) force). cbn [length] in *. lia.
      * specialize (IH (l :: last :: rt) force). cbn [length] in *. lia.
Qed.

Lemma ins_right_length x racc : length (ins_right x racc) = S (length racc).
Proof. induction racc as [|y t IH]; cbn [ins_right]; [reflexivity|]. destruct (loc_less x y); cbn [length]; lia. Qed.

Lemma loc_isort_length l : length (loc_isort l) = length l.
Proof.
  unfold loc_isort. rewrite rev_length.
  assert (G : forall acc, length (fold_left (fun a x => ins_right x a) l acc) = (length l + length acc)%nat).
  { induction l as [|x t IH]; intros acc; cbn [fold_left length]; [lia|].
    rewrite IH, ins_right_length. lia. }
  rewrite G. cbn. lia.
Qed.

(* Repair never panics: `indices[:len(locs)]` stays in range *)
Theorem repair_group_keep ff gg indices :
  (length (snd (repair_group ff gg indices)) <= length indices)%nat.
Proof.
  unfold repair_group. destruct indices as [|i0 t]; [cbn; lia|]. cbn [snd].
  rewrite firstn_length. lia.
Qed.

Theorem repair_merged_fits ff gg indices :
  match indices with
  | [] => True
  | i0 :: _ =>
    let locs := loc_isort (map (fun i => floc (nth_feat gg i)) indices) in
    (length (merge_all locs [] (is_source (nth_feat ff i0))) <= length indices)%nat
  end.
Proof.
  destruct indices as [|i0 t]; [exact I|]. cbv zeta.
  pose proof (merge_all_length (loc_isort (map (fun i => floc (nth_feat gg i)) (i0 :: t))) []
                (is_source (nth_feat ff i0))) as H.
  rewrite loc_isort_length, map_length in H. cbn [length] in *. lia.
Qed.

(* nothing merges => the group is left as it was *)
Theorem repair_group_unchanged ff gg indices :
  (length (merge_all (loc_isort (map (fun i => floc (nth_feat gg i)) indices)) []
            (match indices with i0 :: _ => is_source (nth_feat ff i0) | [] => false end))
   = length indices) ->
  repair_group ff gg indices = (gg, indices).
Proof.
  intros H. unfold repair_group. destruct indices as [|i0 t]; [reflexivity|].
  rewrite H, Nat.ltb_irrefl, firstn_all. reflexivity.
Qed.
