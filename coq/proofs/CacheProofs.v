(* CacheProofs.v — C13: a cache entry is returned only if it is exactly what
   was written.  Everything is proved for an arbitrary hash H of fixed output
   size and an arbitrary compressor with inflate (deflate x) = Some x. *)
From GTS Require Import Base Cache BaseLemmas.
Open Scope Z_scope.

Lemma bytes_eqb_eq a b : bytes_eqb a b = true <-> a = b.
Proof.
  unfold bytes_eqb. revert b. induction a as [|x t IH]; intros [|y u]; cbn [list_eqb];
    try (split; discriminate).
  - tauto.
  - rewrite andb_true_iff, Z.eqb_eq, IH. split; [intros [-> ->]; reflexivity | intros E; inversion E; auto].
Qed.

Lemma bytes_eqb_refl a : bytes_eqb a a = true.
Proof. now apply bytes_eqb_eq. Qed.

Lemma app_eq_len {A} (a b c d : list A) : length a = length c -> a ++ b = c ++ d -> a = c /\ b = d.
Proof.
  revert c. induction a as [|x t IH]; intros [|y u] Hl E; cbn in *; try lia; [auto|].
  inversion E; subst. destruct (IH u ltac:(lia) H1) as [-> ->]. auto.
Qed.

(* two lists that differ in exactly one position *)
Definition differ_at_one {A} (f g : list A) : Prop :=
  exists pre x y post, x <> y /\ f = pre ++ x :: post /\ g = pre ++ y :: post.

Lemma one_diff_split {A} (u v u' v' pre post : list A) x y :
  length u = length u' ->
  u ++ v = pre ++ x :: post -> u' ++ v' = pre ++ y :: post -> u = u' \/ v = v'.
Proof.
  intros Hl E E'.
  destruct (Nat.lt_ge_cases (length pre) (length u)) as [Hin|Hout].
  - right.
    assert (Hv : v = skipn (length u) (pre ++ x :: post))
      by (rewrite <- E, skipn_app, skipn_all, Nat.sub_diag; reflexivity).
    assert (Hv' : v' = skipn (length u) (pre ++ y :: post))
      by (rewrite <- E', Hl, skipn_app, skipn_all, Nat.sub_diag; reflexivity).
    rewrite Hv, Hv'. rewrite !skipn_app.
    rewrite (skipn_all2 pre) by lia. cbn [app].
    destruct (length u - length pre)%nat as [|k] eqn:Ek; [lia|]. reflexivity.
  - left.
    assert (Hu : u = firstn (length u) (pre ++ x :: post))
      by (rewrite <- E, firstn_app, firstn_all, Nat.sub_diag; cbn [firstn]; now rewrite app_nil_r).
    assert (Hu' : u' = firstn (length u) (pre ++ y :: post))
      by (rewrite <- E', Hl, firstn_app, firstn_all, Nat.sub_diag; cbn [firstn]; now rewrite app_nil_r).
    rewrite Hu, Hu'. rewrite !firstn_app.
    replace (length u - length pre)%nat with O by lia. reflexivity.
Qed.

Section CacheProofs.
  Variable hsz : nat.
  Variable H : list byte -> list byte.
  Variable deflate : list byte -> list byte.
  Variable inflate : list byte -> option (list byte).
  Hypothesis H_len : forall x, length (H x) = hsz.
  Hypothesis inflate_deflate : forall x, inflate (deflate x) = Some x.

  Notation open_body := (open_body hsz H).
  Notation open_entry := (open_entry hsz H inflate).
  Notation final_file := (final_file H deflate).
  Notation crash_state := (crash_state hsz H deflate).

  Lemma split3 (f : list byte) : (3 * hsz <= length f)%nat ->
    f = firstn hsz f ++ firstn hsz (skipn hsz f) ++ firstn hsz (skipn (2 * hsz) f) ++ skipn (3 * hsz) f.
  Proof.
    intros Hl.
    rewrite <- (firstn_skipn hsz f) at 1. f_equal.
    rewrite <- (firstn_skipn hsz (skipn hsz f)) at 1. f_equal.
    rewrite skipn_skipn. replace (hsz + hsz)%nat with (2 * hsz)%nat by lia.
    rewrite <- (firstn_skipn hsz (skipn (2 * hsz) f)) at 1. f_equal.
    rewrite skipn_skipn. f_equal. lia.
  Qed.

  (* Open succeeds only on a file that is exactly root ++ data ++ H body ++ body *)
  Theorem open_exact rsum dsum f body :
    open_body rsum dsum f = Some body -> f = rsum ++ dsum ++ H body ++ body.
  Proof.
    unfold Cache.open_body. destruct (Nat.ltb (length f) (3 * hsz)) eqn:E; [discriminate|].
    apply Nat.ltb_ge in E.
    destruct (bytes_eqb rsum _ && bytes_eqb dsum _ && bytes_eqb _ _) eqn:E2; [|discriminate].
    apply andb_true_iff in E2 as [E2 E3]. apply andb_true_iff in E2 as [E1 E2].
    apply bytes_eqb_eq in E1, E2, E3. intros Hb. inversion Hb; subst body.
    rewrite E1, E2, E3 at 1. now apply split3.
  Qed.

  Lemma firstn_app_exact {A} (a b : list A) : firstn (length a) (a ++ b) = a.
  Proof. rewrite firstn_app, firstn_all, Nat.sub_diag. cbn [firstn]. apply app_nil_r. Qed.

  Lemma skipn_app_exact {A} (a b : list A) : skipn (length a) (a ++ b) = b.
  Proof. rewrite skipn_app, skipn_all, Nat.sub_diag. reflexivity. Qed.

  Lemma open_body_shape rsum dsum hb body :
    length rsum = hsz -> length dsum = hsz -> length hb = hsz ->
    open_body rsum dsum (rsum ++ dsum ++ hb ++ body) =
    if bytes_eqb (H body) hb then Some body else None.
  Proof.
    intros L1 L2 L3. unfold Cache.open_body.
    replace (Nat.ltb (length (rsum ++ dsum ++ hb ++ body)) (3 * hsz)) with false.
    2:{ symmetry. apply Nat.ltb_ge. rewrite !app_length. lia. }
    assert (F1 : firstn hsz (rsum ++ dsum ++ hb ++ body) = rsum)
      by (rewrite <- L1; apply firstn_app_exact).
    assert (S1 : skipn hsz (rsum ++ dsum ++ hb ++ body) = dsum ++ hb ++ body)
      by (rewrite <- L1; apply skipn_app_exact).
    assert (F2 : firstn hsz (dsum ++ hb ++ body) = dsum) by (rewrite <- L2; apply firstn_app_exact).
    assert (S2 : skipn (2 * hsz) (rsum ++ dsum ++ hb ++ body) = hb ++ body).
    { replace (2 * hsz)%nat with (hsz + hsz)%nat by lia. rewrite <- skipn_skipn, S1.
      rewrite <- L2. apply skipn_app_exact. }
    assert (F3 : firstn hsz (hb ++ body) = hb) by (rewrite <- L3; apply firstn_app_exact).
    assert (S3 : skipn (3 * hsz) (rsum ++ dsum ++ hb ++ body) = body).
    { replace (3 * hsz)%nat with (2 * hsz + hsz)%nat by lia. rewrite <- skipn_skipn, S2.
      rewrite <- L3. apply skipn_app_exact. }
    rewrite F1, S1, F2, S2, F3, S3, !bytes_eqb_refl. reflexivity.
  Qed.

  (* the fields of two well-formed files coincide when the files do *)
  Lemma parse_file (r d hb body r' d' hb' body' : list byte) :
    length r = hsz -> length d = hsz -> length hb = hsz ->
    length r' = hsz -> length d' = hsz -> length hb' = hsz ->
    r ++ d ++ hb ++ body = r' ++ d' ++ hb' ++ body' ->
    r = r' /\ d = d' /\ hb = hb' /\ body = body'.
  Proof.
    intros L1 L2 L3 L4 L5 L6 E.
    apply app_eq_len in E as [-> E]; [|lia].
    apply app_eq_len in E as [-> E]; [|lia].
    apply app_eq_len in E as [-> E]; [|lia]. auto.
  Qed.

  (* reading a finished entry yields exactly the bytes that were written *)
  Theorem roundtrip rsum dsum data : length rsum = hsz -> length dsum = hsz ->
    open_entry rsum dsum (final_file rsum dsum data) = Some data.
  Proof.
    intros L1 L2. unfold Cache.open_entry, Cache.final_file.
    rewrite open_body_shape by auto. rewrite bytes_eqb_refl. apply inflate_deflate.
  Qed.

  (* an entry keyed for a different input or argument digest is rejected on
     the header comparison (no collision caveat) *)
  Theorem wrong_key rsum dsum rsum' dsum' data :
    length rsum = hsz -> length dsum = hsz -> length rsum' = hsz -> length dsum' = hsz ->
    (rsum', dsum') <> (rsum, dsum) ->
    open_entry rsum' dsum' (final_file rsum dsum data) = None.
  Proof.
    intros L1 L2 L3 L4 Hne. unfold Cache.open_entry.
    destruct (open_body rsum' dsum' (final_file rsum dsum data)) as [body|] eqn:E; [|reflexivity].
    exfalso. apply open_exact in E. unfold Cache.final_file in E.
    apply parse_file in E as [E1 [E2 _]]; auto. apply Hne. now rewrite E1, E2.
  Qed.

  (* two distinct byte strings with the same digest *)
  Definition collision : Prop := exists a b : list byte, a <> b /\ H a = H b.

  (* a file that keeps the 3*hsz header bytes of the finished file but is not
     that file (corrupted body, truncated body, extended body): rejected, or a
     collision of H is exhibited *)
  Theorem header_preserving_change rsum dsum data f :
    length rsum = hsz -> length dsum = hsz ->
    f <> final_file rsum dsum data ->
    firstn (3 * hsz) f = firstn (3 * hsz) (final_file rsum dsum data) ->
    open_body rsum dsum f = None \/ collision.
  Proof.
    intros L1 L2 Hne Hpre.
    destruct (open_body rsum dsum f) as [body|] eqn:E; [|now left].
    right. apply open_exact in E. unfold Cache.final_file in *.
    set (body0 := deflate data) in *.
    assert (Hh : rsum ++ dsum ++ H body = rsum ++ dsum ++ H body0).
    { assert (L : length (rsum ++ dsum ++ H body) = (3 * hsz)%nat) by (rewrite !app_length, H_len; lia).
      assert (L0 : length (rsum ++ dsum ++ H body0) = (3 * hsz)%nat) by (rewrite !app_length, H_len; lia).
      rewrite E in Hpre.
      replace (rsum ++ dsum ++ H body ++ body) with ((rsum ++ dsum ++ H body) ++ body) in Hpre
        by now rewrite <- !app_assoc.
      replace (rsum ++ dsum ++ H body0 ++ body0) with ((rsum ++ dsum ++ H body0) ++ body0) in Hpre
        by now rewrite <- !app_assoc.
      rewrite <- L in Hpre at 1. rewrite <- L0 in Hpre. now rewrite !firstn_app_exact in Hpre. }
    apply app_inv_head in Hh. apply app_inv_head in Hh.
    exists body, body0. split; [|exact Hh].
    intros ->. apply Hne. exact E.
  Qed.

  (* truncation: any proper prefix of the finished file *)
  Theorem truncation rsum dsum data k :
    length rsum = hsz -> length dsum = hsz ->
    (k < length (final_file rsum dsum data))%nat ->
    open_body rsum dsum (firstn k (final_file rsum dsum data)) = None \/ collision.
  Proof.
    intros L1 L2 Hk. set (g := final_file rsum dsum data) in *.
    destruct (Nat.lt_ge_cases k (3 * hsz)) as [Hs|Hs].
    - left. unfold Cache.open_body.
      replace (Nat.ltb (length (firstn k g)) (3 * hsz)) with true; [reflexivity|].
      symmetry. apply Nat.ltb_lt. rewrite firstn_length. lia.
    - apply (header_preserving_change rsum dsum data); try assumption.
      + intros C. apply (f_equal (@length _)) in C. rewrite firstn_length in C. fold g in C. lia.
      + fold g. rewrite firstn_firstn. f_equal. lia.
  Qed.

  (* extension: the finished file followed by any non-empty tail *)
  Theorem extension rsum dsum data tail :
    length rsum = hsz -> length dsum = hsz -> tail <> [] ->
    open_body rsum dsum (final_file rsum dsum data ++ tail) = None \/ collision.
  Proof.
    intros L1 L2 Ht. apply (header_preserving_change rsum dsum data); try assumption.
    - intros C. apply (f_equal (@length _)) in C. rewrite app_length in C.
      destruct tail; [congruence | cbn in C; lia].
    - rewrite firstn_app.
      assert (3 * hsz <= length (final_file rsum dsum data))%nat.
      { unfold Cache.final_file. rewrite !app_length, H_len. lia. }
      replace (3 * hsz - length (final_file rsum dsum data))%nat with O by lia.
      cbn [firstn]. now rewrite app_nil_r.
  Qed.

  (* single-byte corruption anywhere in the finished file *)
  Theorem single_byte rsum dsum data f :
    length rsum = hsz -> length dsum = hsz ->
    differ_at_one f (final_file rsum dsum data) ->
    open_body rsum dsum f = None \/ collision.
  Proof.
    intros L1 L2 [pre [x [y [post [Hxy [Hf Hg]]]]]].
    destruct (open_body rsum dsum f) as [body|] eqn:E; [|now left].
    right. apply open_exact in E. unfold Cache.final_file in Hg.
    set (body0 := deflate data) in *.
    assert (Hdiff : body <> body0).
    { intros ->. rewrite E in Hf. rewrite Hf in Hg. apply app_inv_head in Hg. inversion Hg. congruence. }
    exists body, body0. split; [exact Hdiff|].
    assert (Hs : rsum ++ dsum ++ H body = rsum ++ dsum ++ H body0 \/ body = body0).
    { apply (one_diff_split (rsum ++ dsum ++ H body) body (rsum ++ dsum ++ H body0) body0 pre post x y).
      - rewrite !app_length, !H_len. reflexivity.
      - rewrite <- Hf, E. now rewrite <- !app_assoc.
      - rewrite <- Hg. now rewrite <- !app_assoc. }
    destruct Hs as [Hs|Hs]; [|contradiction].
    apply app_inv_head in Hs. now apply app_inv_head in Hs.
  Qed.

  (* every state in which the writer can be interrupted: k header bytes
     already rewritten over the zero placeholder, body' on disk, where the
     header is rewritten only once the whole body is there.  Opening such a
     state fails, or the state is byte-identical to the finished file, or the
     key digests and the body digest are all zero bytes *)
  Theorem crash_points rsum dsum data k body' b :
    length rsum = hsz -> length dsum = hsz -> (k <= 3 * hsz)%nat ->
    (k = O \/ body' = deflate data) ->
    open_entry rsum dsum (crash_state rsum dsum data k body') = Some b ->
    crash_state rsum dsum data k body' = final_file rsum dsum data \/
    (rsum = repeat 0 hsz /\ dsum = repeat 0 hsz /\ H body' = repeat 0 hsz).
  Proof.
    intros L1 L2 Hk Hproto Ho. unfold Cache.open_entry in Ho.
    destruct (open_body rsum dsum (crash_state rsum dsum data k body')) as [body|] eqn:E; [|discriminate].
    apply open_exact in E. unfold Cache.crash_state in *.
    set (hdr := rsum ++ dsum ++ H (deflate data)) in *.
    assert (Lh : length hdr = (3 * hsz)%nat) by (unfold hdr; rewrite !app_length, H_len; lia).
    assert (Lp : length (firstn k hdr ++ repeat 0 (3 * hsz - k)) = (3 * hsz)%nat).
    { rewrite app_length, firstn_length, repeat_length. lia. }
    (* split the crash state at 3*hsz *)
    assert (Es : (firstn k hdr ++ repeat 0 (3 * hsz - k)) ++ body' = (rsum ++ dsum ++ H body) ++ body).
    { rewrite <- !app_assoc in *. exact E. }
    apply app_eq_len in Es as [Eh Eb]; [|rewrite Lp, !app_length, H_len; lia].
    subst body'.
    destruct Hproto as [->|Hb].
    - (* nothing of the header written yet: the placeholder is all zeros *)
      right. cbn [firstn app] in Eh. rewrite Nat.sub_0_r in Eh.
      replace (3 * hsz)%nat with (hsz + (hsz + hsz))%nat in Eh by lia.
      rewrite !repeat_app in Eh.
      apply app_eq_len in Eh as [E1 Eh]; [|rewrite repeat_length; lia].
      apply app_eq_len in Eh as [E2 E3]; [|rewrite repeat_length; lia].
      auto.
    - (* body complete: a header that validates is the final header *)
      left. unfold Cache.final_file. rewrite E, Hb. reflexivity.
  Qed.
End CacheProofs.
