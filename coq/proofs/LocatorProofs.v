(* LocatorProofs.v — C08: a locator X@M denotes the regions of X, each resized
   by M; a bare modifier denotes the whole sequence resized. *)
From Coq Require Import List ZArith Lia Bool.
From GTS Require Import Base Arith Pars Loc LocParse ModParse Seq Region Select Locator BaseLemmas ModRT.
Import ListNotations.
Open Scope Z_scope.

Section LP.
  Variable re_ok : list byte -> bool.
  Variable re_match : list byte -> list byte -> bool.

  Definition no_at (s : list byte) : Prop := Forall (fun c => c <> 64) s.

  Lemma split_at_none s : no_at s -> forall acc, split_at s acc = None.
  Proof.
    induction 1 as [|c t Hc _ IH]; intros acc; [reflexivity|]. cbn [split_at].
    replace (c =? 64) with false by (symmetry; now apply Z.eqb_neq). apply IH.
  Qed.

  Lemma split_at_app x m : no_at x -> forall acc, split_at (x ++ 64 :: m) acc = Some (rev acc ++ x, m).
  Proof.
    induction 1 as [|c t Hc _ IH]; intros acc; cbn [app split_at].
    - rewrite Z.eqb_refl. now rewrite app_nil_r.
    - replace (c =? 64) with false by (symmetry; now apply Z.eqb_neq). rewrite IH. cbn [rev]. now rewrite <- app_assoc.
  Qed.

  (* X@M: exactly the regions of X, each resized by M, in the same order *)
  Theorem locator_compose x m seq : no_at x -> x <> [] ->
    locate_string re_ok re_match (x ++ 64 :: m) seq =
    (lx <- as_locator_plain re_ok x ;; m' <- as_modifier m ;;
     rr <- locate_with re_match lx seq ;; omapM (fun r => region_resize r m') rr).
  Proof.
    intros Hx Hne. unfold locate_string, as_locator. rewrite (split_at_app x m Hx []). cbn [rev app].
    destruct x as [|c t]; [contradiction|].
    destruct (as_locator_plain re_ok (c :: t)) as [lx| | |]; cbn [obind]; try reflexivity.
    destruct (as_modifier m) as [m'| | |]; cbn [obind locate_with]; reflexivity.
  Qed.

  (* @M: every feature of the table, in table order, each resized by M *)
  Theorem locator_all m seq :
    locate_string re_ok re_match (64 :: m) seq =
    (m' <- as_modifier m ;; omapM (fun r => region_resize r m') (map (fun g => loc_region (floc g)) (feats seq))).
  Proof.
    unfold locate_string, as_locator. cbn [split_at]. rewrite Z.eqb_refl. cbn [rev].
    destruct (as_modifier m) as [m'| | |]; cbn [obind locate_with]; reflexivity.
  Qed.

  (* without '@' the reading is: modifier, else location, else selector *)
  Theorem locator_precedence s seq : no_at s ->
    locate_string re_ok re_match s seq =
    match as_modifier s with
    | Ok m => r <- region_resize (Seg 0 (zlen (residues seq))) m ;; Ok [r]
    | Panic => Panic | OutOfFuel => OutOfFuel
    | Err _ =>
      match try_location s with
      | Ok l => Ok [loc_region l]
      | Panic => Panic | OutOfFuel => OutOfFuel
      | Err _ =>
        match selector re_ok s with
        | Ok f => Ok (map (fun g => loc_region (floc g)) (feature_filter re_match f (feats seq)))
        | Panic => Panic | OutOfFuel => OutOfFuel
        | Err _ => Err EOther
        end
      end
    end.
  Proof.
    intros Hs. unfold locate_string, as_locator. rewrite (split_at_none s Hs []). unfold as_locator_plain.
    destruct (as_modifier s); cbn [obind locate_with]; try reflexivity.
    destruct (try_location s); cbn [obind locate_with]; try reflexivity.
    destruct (selector re_ok s); cbn [obind locate_with]; reflexivity.
  Qed.

  (* the printed form of a modifier is a locator for the whole sequence, resized *)
  Lemma digits_no_at ds : IntRT.all_digits ds -> no_at ds.
  Proof.
    intros H. eapply Forall_impl; [|exact H]. intros c Hc ->. discriminate.
  Qed.

  Lemma itoa_no_at n : 0 <= n -> no_at (itoa n).
  Proof. intros Hn. destruct (IntRT.itoa_spec n Hn) as (ds & <- & Hd & _). now apply digits_no_at. Qed.

  Lemma signed_no_at p : no_at (signed p).
  Proof.
    unfold signed. destruct (Z.ltb_spec p 0); (constructor; [discriminate|apply itoa_no_at; lia]).
  Qed.

  Lemma anchor_no_at c p : c <> 64 -> no_at (anchor_show c p).
  Proof. intros Hc. unfold anchor_show. destruct (p =? 0); constructor; try exact Hc; [constructor|apply signed_no_at]. Qed.

  Lemma mod_show_no_at m : no_at (mod_show m).
  Proof.
    destruct m; cbn [mod_show]; rewrite ?head_show_eq, ?tail_show_eq;
      repeat (apply Forall_app; split); try (apply anchor_no_at; discriminate); repeat constructor; discriminate.
  Qed.

  Theorem locator_printed_modifier m seq : mod_ok m ->
    locate_string re_ok re_match (mod_show m) seq =
    (r <- region_resize (Seg 0 (zlen (residues seq))) m ;; Ok [r]).
  Proof.
    intros Hm. rewrite (locator_precedence (mod_show m) seq (mod_show_no_at m)).
    now rewrite (as_modifier_show m Hm).
  Qed.
End LP.
