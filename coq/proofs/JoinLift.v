(* JoinLift.v — lifting the per-kind lemmas of the edit operations through
   join(...), order(...) and complement(...) of any nesting.  The join case
   rests on JoinDen.v: Join keeps the denoted residues (up to adjacent
   duplicates) as long as the images of the leaves are k1-free. *)
From Coq Require Import List ZArith Lia Bool.
From GTS Require Import Base Arith Loc BaseLemmas LocProofs EditProofs JoinSafe JoinDen RotateProofs.
Import ListNotations.
Open Scope Z_scope.

(* the contiguous leaves of a location, left to right *)
Fixpoint leaves (l : loc) : list loc :=
  match l with
  | Joined ls | Ordered ls => flat_map leaves ls
  | Complemented x => leaves x
  | _ => [l]
  end.

Definition images (op : loc -> out loc) (l : loc) : list loc :=
  flat_map (fun x => match op x with Ok y => [y] | _ => [] end) (leaves l).

Lemma deq_filter {A} (p : A -> bool) (a b : list A) : deq a b -> deq (filter p a) (filter p b).
Proof.
  induction 1 as [l|a b _ IH|a b c _ IH1 _ IH2|a a' b b' _ IH1 _ IH2|x].
  - apply deq_refl.
  - now apply deq_sym.
  - eapply deq_trans; eassumption.
  - rewrite !filter_app. now apply deq_app.
  - cbn [filter]. destruct (p x); [apply deq_dup|apply deq_refl].
Qed.

Section Struct2.
  Variable Q : loc -> Prop.
  Hypothesis Q_ord : forall xs, Q (Ordered xs) <-> Forall Q xs.
  Lemma flatten_Q f : forall ys, Forall Q ys -> Forall Q (flatten_locs f ys).
  Proof.
    induction f as [|f IH]; intros ys H; [exact H|].
    cbn [flatten_locs]. induction H as [|y t Hy Ht IHt]; [constructor|].
    cbn [flat_map]. apply Forall_app. split; [|exact IHt].
    destruct y; try (constructor; [exact Hy|constructor]).
    apply IH. now apply Q_ord.
  Qed.
  Lemma order_Q ys r : Forall Q ys -> order ys = Ok r -> Q r.
  Proof.
    intros H E. unfold order in E. pose proof (flatten_Q (S (list_size ys)) ys H) as HF.
    destruct (flatten_locs (S (list_size ys)) ys) as [|u [|v t]]; [discriminate| |]; inversion E; subst.
    - inversion HF; assumption.
    - now apply Q_ord.
  Qed.
End Struct2.

Lemma okl_ordered E P js : okl E P (Ordered js) <-> Forall (okl E P) js.
Proof. exact (okl_joined E P js). Qed.

Section LiftJ.
  Variable op : loc -> out loc.
  Variables G F : list (Z * bool) -> list (Z * bool).
  Variable wf : loc -> bool.
  Variable rv : bool.
  Hypothesis op_joined : forall ls,
    op (Joined ls) = (ls' <- omapM op ls ;; join (if rv then rev ls' else ls')).
  Hypothesis op_ordered : forall ls,
    op (Ordered ls) = (ls' <- omapM op ls ;; order (if rv then rev ls' else ls')).
  Hypothesis op_compl : forall x, op (Complemented x) = (x' <- op x ;; Ok (Complemented x')).
  Hypothesis G_app : forall a b, G (a ++ b) = G a ++ G b.
  Hypothesis G_nil : G [] = [].
  Hypothesis G_flip : forall d, G (rev (map flipd d)) = rev (map flipd (G d)).
  Hypothesis G_deq : forall a b, deq a b -> deq (G a) (G b).
  Hypothesis F_app : forall a b, F (a ++ b) = if rv then F b ++ F a else F a ++ F b.
  Hypothesis F_nil : F [] = [].
  Hypothesis F_flip : forall d, F (rev (map flipd d)) = rev (map flipd (F d)).
  Hypothesis base : forall l, contiguous l -> wf l = true ->
    forall l', op l = Ok l' -> deq (G (den l')) (F (den l)).

  Variables E P : list Z.
  Hypothesis K : forall e p, In e E -> In p P -> e <> p.

  Lemma G_D_lift ys xs : Forall2 (fun x y => deq (G (den y)) (F (den x))) xs ys ->
    deq (G (D (if rv then rev ys else ys))) (F (D xs)).
  Proof.
    induction 1 as [|x y xs' ys' Hxy _ IH].
    - destruct rv; cbn [rev]; change (D []) with (@nil (Z * bool)); rewrite G_nil, F_nil; apply deq_refl.
    - change (D (x :: xs')) with (den x ++ D xs'). rewrite F_app. destruct rv.
      + cbn [rev]. rewrite D_app, G_app. change (D [y]) with (den y ++ []). rewrite app_nil_r.
        apply deq_app; assumption.
      + change (D (y :: ys')) with (den y ++ D ys'). rewrite G_app. apply deq_app; assumption.
  Qed.

  Theorem liftJ : forall l, wf_all wf l = true ->
    Forall (okl E P) (images op l) ->
    forall l', op l = Ok l' -> deq (G (den l')) (F (den l)) /\ okl E P l'.
  Proof.
    induction l as [p|p|s e a b|s e|ls IH|ls IH|x IH] using loc_ind'; intros Hw Him l' E0.
    1-4: (split; [apply base; [exact I|exact Hw|exact E0]|];
          unfold images in Him; cbn [leaves flat_map] in Him; rewrite E0 in Him; cbn [app] in Him; now inversion Him).
    - (* join *)
      rewrite op_joined in E0. destruct (omapM op ls) as [ys| | |] eqn:Ey; try discriminate. cbn [obind] in E0.
      apply omapM_inv in Ey. cbn [wf_all] in Hw. apply forallb_Forall in Hw.
      assert (HF : Forall2 (fun x y => deq (G (den y)) (F (den x)) /\ okl E P y) ls ys).
      { clear E0. unfold images in Him. cbn [leaves] in Him.
        induction Ey as [|x y t ys' Hxy _ IHt]; [constructor|].
        inversion IH as [|? ? IHx IHt']; inversion Hw; subst.
        cbn [flat_map] in Him. rewrite flat_map_app in Him. apply Forall_app in Him as [Hi1 Hi2].
        constructor; [apply IHx; assumption|apply IHt; assumption]. }
      assert (Hok : Forall (okl E P) (if rv then rev ys else ys)).
      { assert (Forall (okl E P) ys) by (clear - HF; induction HF as [|? ? ? ? [_ H]]; constructor; assumption).
        destruct rv; [now apply Forall_rev|assumption]. }
      destruct (join_den_closed E P K _ l' Hok E0) as [Hd Hl']. split; [|exact Hl'].
      eapply deq_trans; [apply G_deq, Hd|]. change (den (Joined ls)) with (D ls).
      apply G_D_lift. clear - HF. induction HF as [|? ? ? ? [H _]]; constructor; assumption.
    - (* order *)
      rewrite op_ordered in E0. destruct (omapM op ls) as [ys| | |] eqn:Ey; try discriminate. cbn [obind] in E0.
      apply omapM_inv in Ey. cbn [wf_all] in Hw. apply forallb_Forall in Hw.
      assert (HF : Forall2 (fun x y => deq (G (den y)) (F (den x)) /\ okl E P y) ls ys).
      { clear E0. unfold images in Him. cbn [leaves] in Him.
        induction Ey as [|x y t ys' Hxy _ IHt]; [constructor|].
        inversion IH as [|? ? IHx IHt']; inversion Hw; subst.
        cbn [flat_map] in Him. rewrite flat_map_app in Him. apply Forall_app in Him as [Hi1 Hi2].
        constructor; [apply IHx; assumption|apply IHt; assumption]. }
      assert (Hok : Forall (okl E P) (if rv then rev ys else ys)).
      { assert (Forall (okl E P) ys) by (clear - HF; induction HF as [|? ? ? ? [_ H]]; constructor; assumption).
        destruct rv; [now apply Forall_rev|assumption]. }
      split; [|exact (order_Q (okl E P) (okl_ordered E P) _ l' Hok E0)].
      rewrite (order_ok_den _ _ E0). change (den (Ordered ls)) with (D ls). fold (D (if rv then rev ys else ys)).
      apply G_D_lift. clear - HF. induction HF as [|? ? ? ? [H _]]; constructor; assumption.
    - (* complement *)
      rewrite op_compl in E0. destruct (op x) as [x'| | |] eqn:Ex; try discriminate. cbn [obind] in E0.
      inversion E0; subst l'. cbn [wf_all] in Hw.
      destruct (IH Hw Him x' eq_refl) as [Hd Hk]. split; [|now apply okl_compl].
      rewrite !den_complemented, G_flip, F_flip. apply deq_rev, deq_map, Hd.
  Qed.
End LiftJ.

(* ---------- closed form: the K1 coordinates are those of the leaves' images *)

Definition k1_after (op : loc -> out loc) (l : loc) : Prop :=
  k1_free (images op l) /\ forallb rokb (images op l) = true.

Lemma images_okl op l : forallb rokb (images op l) = true ->
  Forall (okl (flat_map ends (images op l)) (flat_map pts (images op l))) (images op l).
Proof.
  intros HR. apply forallb_Forall in HR. apply Forall_forall. intros y Hy. rewrite Forall_forall in HR.
  repeat split.
  - intros z Hz. apply in_flat_map. exists y. tauto.
  - intros z Hz. apply in_flat_map. exists y. tauto.
  - apply HR, Hy.
Qed.

Lemma contiguous_jfree l : contiguous l -> jfree l = true /\ ord_ok l = true.
Proof. destruct l; try contradiction; intros _; split; reflexivity. Qed.

Lemma flip_rev_map (g : Z -> Z) d :
  map (onpos g) (rev (map flipd d)) = rev (map flipd (map (onpos g) d)).
Proof. apply map_rev_flip. Qed.

(* Insert: Shift(i, n) *)
Theorem shift_den_all i n : 0 <= n -> forall l, k1_after (fun x => shift x i n) l ->
  forall l', shift l i n = Ok l' -> deq (den l') (map (onpos (bump i n)) (den l)).
Proof.
  intros Hn l [HK HR] l' E0.
  assert (B : forall x, contiguous x -> true = true -> forall x', shift x i n = Ok x' ->
              deq (den x') (map (onpos (bump i n)) (den x))).
  { intros x Hc _ x' Ex. destruct (contiguous_jfree x Hc) as [Hj Ho].
    destruct (shift_den_jfree i n Hn x Hj Ho) as (y & Ey & Dy & _). rewrite Ey in Ex. inversion Ex; subst.
    rewrite Dy. apply deq_refl. }
  exact (proj1 (liftJ (fun x => shift x i n) (fun d => d) (map (onpos (bump i n))) (fun _ => true) false
     (fun _ => eq_refl) (fun _ => eq_refl) (fun _ => eq_refl)
     (fun _ _ => eq_refl) eq_refl (fun _ => eq_refl) (fun _ _ H => H)
     (fun a b => map_app _ a b) eq_refl (flip_rev_map _) B
     _ _ HK l (wf_all_true l) (images_okl _ l HR) l' E0)).
Qed.

(* Embed: Expand(i, n), n > 0: outside the guest interval *)
Theorem expand_pos_den_all i n : 0 < n -> forall l, k1_after (fun x => expand x i n) l ->
  forall l', expand l i n = Ok l' -> deq (emb_den i n (den l')) (map (onpos (bump i n)) (den l)).
Proof.
  intros Hn l [HK HR] l' E0.
  assert (B : forall x, contiguous x -> true = true -> forall x', expand x i n = Ok x' ->
              deq (emb_den i n (den x')) (map (onpos (bump i n)) (den x))).
  { intros x Hc _ x' Ex. destruct (contiguous_jfree x Hc) as [Hj Ho].
    destruct (expand_pos_den_jfree i n Hn x Hj Ho) as (y & Ey & Dy & _). rewrite Ey in Ex. inversion Ex; subst.
    rewrite Dy. apply deq_refl. }
  exact (proj1 (liftJ (fun x => expand x i n) (emb_den i n) (map (onpos (bump i n))) (fun _ => true) false
     (fun _ => eq_refl) (fun _ => eq_refl) (fun _ => eq_refl)
     (fun a b => filter_app _ a b) eq_refl (filter_rev_flip (outside i n)) (fun a b H => deq_filter _ a b H)
     (fun a b => map_app _ a b) eq_refl (flip_rev_map _) B
     _ _ HK l (wf_all_true l) (images_okl _ l HR) l' E0)).
Qed.

(* Delete: Expand(i, -n), n > 0 *)
Lemma del_den_app i n a b : del_den i n (a ++ b) = del_den i n a ++ del_den i n b.
Proof. unfold del_den. now rewrite filter_app, map_app. Qed.
Lemma del_den_flip i n d : del_den i n (rev (map flipd d)) = rev (map flipd (del_den i n d)).
Proof. unfold del_den. apply mapfilter_flip. Qed.

Theorem expand_neg_den_all i n : 0 < n -> forall l, k1_after (fun x => expand x i (- n)) l ->
  forall l', expand l i (- n) = Ok l' -> deq (den l') (del_den i n (den l)).
Proof.
  intros Hn l [HK HR] l' E0.
  assert (B : forall x, contiguous x -> true = true -> forall x', expand x i (- n) = Ok x' ->
              deq (den x') (del_den i n (den x))).
  { intros x Hc _ x' Ex. destruct (contiguous_jfree x Hc) as [Hj Ho].
    destruct (expand_neg_den_jfree i n Hn x Hj Ho) as (y & Ey & Dy & _). rewrite Ey in Ex. inversion Ex; subst.
    rewrite Dy. apply deq_refl. }
  exact (proj1 (liftJ (fun x => expand x i (- n)) (fun d => d) (del_den i n) (fun _ => true) false
     (fun _ => eq_refl) (fun _ => eq_refl) (fun _ => eq_refl)
     (fun _ _ => eq_refl) eq_refl (fun _ => eq_refl) (fun _ _ H => H)
     (del_den_app i n) eq_refl (del_den_flip i n) B
     _ _ HK l (wf_all_true l) (images_okl _ l HR) l' E0)).
Qed.

(* Reverse *)
Lemma rev_den_app L a b : rev_den L (a ++ b) = rev_den L b ++ rev_den L a.
Proof. unfold rev_den. now rewrite map_app, rev_app_distr. Qed.
Lemma rev_den_flip L d : rev_den L (rev (map flipd d)) = rev (map flipd (rev_den L d)).
Proof.
  unfold rev_den. rewrite map_rev, rev_involutive.
  rewrite <- map_rev, rev_involutive. rewrite !map_map. apply map_ext. intros [p c]. reflexivity.
Qed.

Theorem reverse_den_all L : forall l, wf_all range_wf l = true -> k1_after (fun x => reverse x L) l ->
  forall l', reverse l L = Ok l' -> deq (den l') (rev_den L (den l)).
Proof.
  intros l Hw [HK HR] l' E0.
  assert (B : forall x, contiguous x -> range_wf x = true -> forall x', reverse x L = Ok x' ->
              deq (den x') (rev_den L (den x))).
  { intros x Hc Hx x' Ex.
    destruct (reverse_base L x Hc Hx) as (y & Ey & Dy & _). rewrite Ey in Ex. inversion Ex; subst.
    rewrite Dy. apply deq_refl. }
  exact (proj1 (liftJ (fun x => reverse x L) (fun d => d) (rev_den L) range_wf true
     (fun _ => eq_refl) (fun _ => eq_refl) (fun _ => eq_refl)
     (fun _ _ => eq_refl) eq_refl (fun _ => eq_refl) (fun _ _ H => H)
     (rev_den_app L) eq_refl (rev_den_flip L) B
     _ _ HK l Hw (images_okl _ l HR) l' E0)).
Qed.

Definition k1_afterb (op : loc -> out loc) (l : loc) : bool :=
  k1_freeb (images op l) && forallb rokb (images op l).
Lemma k1_afterb_spec op l : k1_afterb op l = true -> k1_after op l.
Proof. unfold k1_afterb, k1_after. intros H. apply andb_true_iff in H as [H1 H2]. split; [now apply k1_freeb_spec|exact H2]. Qed.
