(* PartialProofs.v — the 5'/3' partial markers on the outer ends of a location
   (C02: Insert/Embed keep them; C05: Reverse swaps them), for locations
   without join(...) in the input. *)
From Coq Require Import List ZArith Lia Bool.
From GTS Require Import Base Arith Loc BaseLemmas LocProofs EditProofs RotateProofs.
Import ListNotations.
Open Scope Z_scope.

(* (marker on the first end, marker on the last end), in the reading direction
   of the location: a complement reads the other way round *)
Fixpoint flags (l : loc) : bool * bool :=
  match l with
  | Ranged _ _ p5 p3 => (p5, p3)
  | Complemented x => (snd (flags x), fst (flags x))
  | Joined ls | Ordered ls =>
    ((fix f5 (xs : list loc) : bool := match xs with [] => false | x :: _ => fst (flags x) end) ls,
     (fix f3 (xs : list loc) : bool :=
        match xs with [] => false | x :: t => match t with [] => snd (flags x) | _ :: _ => f3 t end end) ls)
  | _ => (false, false)
  end.

Definition dflt : loc := Between 0.

Lemma flags_multi ls :
  flags (Ordered ls) = (fst (flags (hd dflt ls)), snd (flags (last ls dflt))) /\
  flags (Joined ls) = (fst (flags (hd dflt ls)), snd (flags (last ls dflt))).
Proof.
  assert (H3 : (fix f3 (xs : list loc) : bool :=
                  match xs with [] => false | x :: t => match t with [] => snd (flags x) | _ :: _ => f3 t end end) ls
               = snd (flags (last ls dflt))).
  { induction ls as [|x t IH]; [reflexivity|]. destruct t as [|y t']; [reflexivity|]. exact IH. }
  assert (H5 : (fix f5 (xs : list loc) : bool := match xs with [] => false | x :: _ => fst (flags x) end) ls
               = fst (flags (hd dflt ls))) by (destruct ls; reflexivity).
  split; cbn [flags]; rewrite H5, H3; reflexivity.
Qed.

Lemma flags_ordered ls : flags (Ordered ls) = (fst (flags (hd dflt ls)), snd (flags (last ls dflt))).
Proof. apply flags_multi. Qed.
Lemma flags_joined ls : flags (Joined ls) = (fst (flags (hd dflt ls)), snd (flags (last ls dflt))).
Proof. apply flags_multi. Qed.

Definition swapif (b : bool) (p : bool * bool) : bool * bool := if b then (snd p, fst p) else p.

(* ---------- order(...) flattens nested orders: the outer ends stay *)

Lemma last_app_ne {A} (a b : list A) d : b <> [] -> last (a ++ b) d = last b d.
Proof.
  intros Hb. induction a as [|x t IH]; [reflexivity|]. cbn [app].
  destruct (t ++ b) as [|y r] eqn:E; [apply app_eq_nil in E as [_ E]; contradiction|].
  cbn [last]. exact IH.
Qed.

Lemma hd_app_ne {A} (a b : list A) d : a <> [] -> hd d (a ++ b) = hd d a.
Proof. destruct a; [contradiction|reflexivity]. Qed.

Lemma flatten_ends fuel : forall ls, ls <> [] -> forallb ord_ok ls = true ->
  fst (flags (hd dflt (flatten_locs fuel ls))) = fst (flags (hd dflt ls)) /\
  snd (flags (last (flatten_locs fuel ls) dflt)) = snd (flags (last ls dflt)).
Proof.
  induction fuel as [|f IH]; intros ls Hne Hok; [split; reflexivity|].
  cbn [flatten_locs]. set (g := fun l => match l with Ordered xs => flatten_locs f xs | _ => [l] end).
  assert (Hg : forall x, ord_ok x = true -> g x <> [] /\
              fst (flags (hd dflt (g x))) = fst (flags x) /\ snd (flags (last (g x) dflt)) = snd (flags x)).
  { intros x Hx. destruct x as [| | | | |xs|]; try (split; [discriminate|split; reflexivity]).
    cbn [ord_ok] in Hx. apply andb_true_iff in Hx as [Hn Hall].
    assert (Hxs : xs <> []) by (destruct xs; [discriminate|discriminate]).
    unfold g. split; [apply flatten_nonempty; assumption|].
    destruct (IH xs Hxs Hall) as [E1 E2]. rewrite E1, E2, flags_ordered. split; reflexivity. }
  split.
  - destruct ls as [|x t]; [contradiction|]. cbn [flat_map hd]. cbn [forallb] in Hok. apply andb_true_iff in Hok as [Hx _].
    destruct (Hg x Hx) as (N & E1 & _). rewrite hd_app_ne by exact N. exact E1.
  - clear Hne. revert Hok. induction ls as [|x t IHt]; intros Hok; [reflexivity|].
    cbn [forallb] in Hok. apply andb_true_iff in Hok as [Hx Ht]. cbn [flat_map].
    destruct t as [|y t'].
    + cbn [flat_map]. rewrite app_nil_r. cbn [last]. apply (Hg x Hx).
    + assert (Hfm : flat_map g (y :: t') <> []).
      { cbn [flat_map]. cbn [forallb] in Ht. apply andb_true_iff in Ht as [Hy _]. destruct (Hg y Hy) as (N & _).
        intros E. apply app_eq_nil in E as [E _]. contradiction. }
      rewrite last_app_ne by exact Hfm. rewrite (IHt Ht). reflexivity.
Qed.

Lemma order_flags ys r : ys <> [] -> forallb ord_ok ys = true -> order ys = Ok r ->
  flags r = flags (Ordered ys).
Proof.
  intros Hne Hok E. unfold order in E.
  destruct (flatten_ends (S (list_size ys)) ys Hne Hok) as [E1 E2].
  rewrite flags_ordered, <- E1, <- E2.
  destruct (flatten_locs (S (list_size ys)) ys) as [|x [|y t]]; [discriminate| |]; inversion E; subst.
  - cbn [hd last]. destruct (flags r); reflexivity.
  - rewrite flags_ordered. reflexivity.
Qed.

(* ---------- lifting a statement about the outer markers through order/complement *)

Section FlagsLift.
  Variable op : loc -> out loc.
  Variable wf : loc -> bool.
  Variable rv : bool.   (* the operation reverses the order of parts and swaps the markers *)
  Hypothesis op_ordered : forall ls,
    op (Ordered ls) = (ls' <- omapM op ls ;; order (if rv then rev ls' else ls')).
  Hypothesis op_compl : forall x, op (Complemented x) = (x' <- op x ;; Ok (Complemented x')).
  Hypothesis base : forall l, contiguous l -> wf l = true ->
    forall l', op l = Ok l' -> flags l' = swapif rv (flags l) /\ ord_ok l' = true.

  Theorem lift_flags : forall l, jfree l = true -> ord_ok l = true -> wf_all wf l = true ->
    forall l', op l = Ok l' -> flags l' = swapif rv (flags l) /\ ord_ok l' = true.
  Proof.
    induction l as [p|p|s e a b|s e|ls IH|ls IH|x IH] using loc_ind'; intros Hj Ho Hw l' E.
    1-4: (apply base; [exact I|exact Hw|exact E]).
    - discriminate.
    - cbn [jfree] in Hj. cbn [ord_ok] in Ho. cbn [wf_all] in Hw.
      apply andb_true_iff in Ho as [Hne Hoa].
      assert (Hls : ls <> []) by (destruct ls; [discriminate|discriminate]).
      rewrite op_ordered in E. destruct (omapM op ls) as [ys| | |] eqn:Ey; try discriminate. cbn [obind] in E.
      apply omapM_inv in Ey.
      apply forallb_Forall in Hj. apply forallb_Forall in Hoa. apply forallb_Forall in Hw.
      assert (HF : Forall2 (fun x y => flags y = swapif rv (flags x) /\ ord_ok y = true) ls ys).
      { clear E Hls Hne. induction Ey as [|x y t ys' Hxy _ IHt]; [constructor|].
        inversion IH; inversion Hj; inversion Hoa; inversion Hw; subst. constructor; [auto|apply IHt; assumption]. }
      assert (Hys : ys <> []) by (inversion HF; subst; [contradiction|discriminate]).
      set (zs := if rv then rev ys else ys) in *.
      assert (Hzs : zs <> []).
      { unfold zs. destruct rv; [|exact Hys]. intros Ez. apply (f_equal (@rev loc)) in Ez. rewrite rev_involutive in Ez. exact (Hys Ez). }
      assert (Hzok : forallb ord_ok zs = true).
      { apply Forall_forallb. assert (Forall (fun y => ord_ok y = true) ys) by (clear - HF; induction HF as [|? ? ? ? [_ H]]; constructor; assumption).
        unfold zs. destruct rv; [now apply Forall_rev|assumption]. }
      split.
      + rewrite (order_flags zs l' Hzs Hzok E), !flags_ordered.
        assert (Hh : flags (hd dflt ys) = swapif rv (flags (hd dflt ls))).
        { inversion HF as [|? ? ? ? [H _]]; subst; [contradiction|exact H]. }
        assert (Hl : flags (last ys dflt) = swapif rv (flags (last ls dflt))).
        { clear - HF Hls. induction HF as [|x y t ys' [H _] F IHF]; [contradiction|].
          destruct t as [|x2 t']; inversion F; subst; [exact H|].
          change (last (x :: x2 :: t') dflt) with (last (x2 :: t') dflt).
          match goal with |- flags (last (y :: ?q :: ?r) dflt) = _ => change (last (y :: q :: r) dflt) with (last (q :: r) dflt) end.
          apply IHF. discriminate. }
        unfold zs. destruct rv; unfold swapif in *.
        * assert (Hhd : hd dflt (rev ys) = last ys dflt).
          { clear - Hys. induction ys as [|y t IHy]; [contradiction|]. cbn [rev]. destruct t as [|y2 t'].
            - reflexivity.
            - rewrite hd_app_ne by (cbn [rev]; intros E; apply app_eq_nil in E as [_ E]; discriminate).
              rewrite IHy by discriminate. reflexivity. }
          assert (Hla : last (rev ys) dflt = hd dflt ys).
          { destruct ys as [|y t]; [contradiction|]. cbn [rev hd]. rewrite last_app_ne by discriminate. reflexivity. }
          rewrite Hhd, Hla, Hh, Hl. reflexivity.
        * rewrite Hh, Hl. reflexivity.
      + apply (order_ord_ok zs l' Hzs); [|exact E]. now apply forallb_Forall.
    - cbn [jfree] in Hj. cbn [ord_ok] in Ho. cbn [wf_all] in Hw.
      rewrite op_compl in E. destruct (op x) as [x'| | |] eqn:Ex; try discriminate. cbn [obind] in E. inversion E; subst l'.
      destruct (IH Hj Ho Hw x' eq_refl) as [F O]. split; [|exact O].
      cbn [flags]. rewrite F. destruct rv; unfold swapif; reflexivity.
  Qed.
End FlagsLift.

(* ---------- Insert (Shift), Embed (Expand, n > 0), Reverse *)

Lemma order_two a b : (match a with Ordered _ => False | _ => True end) -> (match b with Ordered _ => False | _ => True end) ->
  order [a; b] = Ok (Ordered [a; b]).
Proof. destruct a, b; intros Ha Hb; try contradiction; reflexivity. Qed.

Lemma shift_flags_base i n : 0 <= n -> forall l, contiguous l -> range_wf l = true ->
  forall l', shift l i n = Ok l' -> flags l' = swapif false (flags l) /\ ord_ok l' = true.
Proof.
  intros Hn l Hc Hw l' E. unfold swapif.
  destruct l as [p|p|s e p5 p3|s e| | |]; try contradiction; cbn [shift] in E.
  - inversion E; subst. split; reflexivity.
  - inversion E; subst. unfold point_expand.
    destruct ((n <? 0) && (i <=? p) && (p <? i - n)); [split; reflexivity|].
    destruct (((0 <=? n) && (i <=? p)) || ((n <? 0) && (i <? p))); split; reflexivity.
  - cbn [range_wf] in Hw. apply Z.ltb_lt in Hw. unfold ranged_shift in E.
    destruct (Z.eqb_spec n 0); [inversion E; subst; split; reflexivity|].
    destruct (Z.ltb_spec n 0); [lia|].
    destruct ((s <? i) && (i <? e)) eqn:Esp.
    + apply andb_true_iff in Esp as [H1 H2]. apply Z.ltb_lt in H1. apply Z.ltb_lt in H2.
      unfold partial_range in E.
      destruct (Z.leb_spec i s); [lia|]. destruct (Z.leb_spec (e + n) (i + n)); [lia|]. cbn [obind] in E.
      rewrite join_two_ranges in E by lia. inversion E; subst. rewrite flags_joined. split; reflexivity.
    + inversion E; subst. split; reflexivity.
  - unfold ambiguous_shift in E.
    destruct (Z.eqb_spec n 0); [inversion E; subst; split; reflexivity|].
    destruct (Z.ltb_spec n 0); [lia|].
    destruct ((s <? i) && (i <? e)).
    + rewrite order_two in E by exact I. inversion E; subst. split; reflexivity.
    + inversion E; subst. split; reflexivity.
Qed.

Theorem shift_keeps_markers i n : 0 <= n -> forall l,
  jfree l = true -> ord_ok l = true -> wf_all range_wf l = true ->
  forall l', shift l i n = Ok l' -> flags l' = flags l.
Proof.
  intros Hn l Hj Ho Hw l' E.
  exact (proj1 (lift_flags (fun x => shift x i n) range_wf false (fun _ => eq_refl) (fun _ => eq_refl)
                  (shift_flags_base i n Hn) l Hj Ho Hw l' E)).
Qed.

Lemma expand_flags_base i n : 0 < n -> forall l, contiguous l -> range_wf l = true ->
  forall l', expand l i n = Ok l' -> flags l' = swapif false (flags l) /\ ord_ok l' = true.
Proof.
  intros Hn l Hc Hw l' E. unfold swapif.
  destruct l as [p|p|s e p5 p3|s e| | |]; try contradiction; cbn [expand] in E; inversion E; subst; clear E.
  - split; reflexivity.
  - unfold point_expand.
    destruct ((n <? 0) && (i <=? p) && (p <? i - n)); [split; reflexivity|].
    destruct (((0 <=? n) && (i <=? p)) || ((n <? 0) && (i <? p))); split; reflexivity.
  - cbn [range_wf] in Hw. apply Z.ltb_lt in Hw. unfold ranged_expand.
    destruct (Z.eqb_spec n 0); [lia|]. destruct (Z.ltb_spec n 0); [lia|]. cbn [andb].
    destruct (Z.leb_spec 0 n); [|lia]. cbn [andb orb]. rewrite !orb_false_r.
    set (s' := if i <=? s then go_Max i (s + n) else s). set (e' := if i <? e then go_Max i (e + n) else e).
    assert (s' < e').
    { unfold s', e'. rewrite !go_Max_spec. destruct (Z.leb_spec i s); destruct (Z.ltb_spec i e); lia. }
    destruct (Z.eqb_spec s' e'); [lia|]. split; reflexivity.
  - unfold ambiguous_expand. destruct (n =? 0); [split; reflexivity|].
    match goal with |- context [if ?a =? ?b then _ else _] => destruct (a =? b) end; split; reflexivity.
Qed.

Theorem embed_keeps_markers i n : 0 < n -> forall l,
  jfree l = true -> ord_ok l = true -> wf_all range_wf l = true ->
  forall l', expand l i n = Ok l' -> flags l' = flags l.
Proof.
  intros Hn l Hj Ho Hw l' E.
  exact (proj1 (lift_flags (fun x => expand x i n) range_wf false (fun _ => eq_refl) (fun _ => eq_refl)
                  (expand_flags_base i n Hn) l Hj Ho Hw l' E)).
Qed.

Lemma reverse_flags_base L : forall l, contiguous l -> range_wf l = true ->
  forall l', reverse l L = Ok l' -> flags l' = swapif true (flags l) /\ ord_ok l' = true.
Proof.
  intros l Hc Hw l' E. unfold swapif.
  destruct l as [p|p|s e p5 p3|s e| | |]; try contradiction; cbn [reverse] in E.
  - inversion E; subst. split; reflexivity.
  - inversion E; subst. split; reflexivity.
  - cbn [range_wf] in Hw. apply Z.ltb_lt in Hw. unfold ranged_reverse, partial_range in E.
    destruct (Z.leb_spec (L - s) (L - e)); [lia|]. cbn [obind] in E.
    destruct p5, p3; inversion E; subst; split; reflexivity.
  - inversion E; subst. split; reflexivity.
Qed.

Theorem reverse_swaps_markers L : forall l,
  jfree l = true -> ord_ok l = true -> wf_all range_wf l = true ->
  forall l', reverse l L = Ok l' -> flags l' = (snd (flags l), fst (flags l)).
Proof.
  intros l Hj Ho Hw l' E.
  exact (proj1 (lift_flags (fun x => reverse x L) range_wf true (fun _ => eq_refl) (fun _ => eq_refl)
                  (reverse_flags_base L) l Hj Ho Hw l' E)).
Qed.

(* Delete of [i, i+n) on a range of which some residue survives: an end whose
   residues were cut off becomes partial, the other keeps its marker *)
Theorem delete_marks_cut_ends s e p5 p3 i n : 0 < n -> s < e -> ~ (i <= s /\ e <= i + n) ->
  exists s' e', s' < e' /\
    expand (Ranged s e p5 p3) i (- n) =
    Ok (Ranged s' e' (p5 || ((i <=? s) && (s <? i + n))) (p3 || ((i <? e) && (e <=? i + n)))).
Proof.
  intros Hn Hse Hsurv. cbn [expand]. unfold ranged_expand.
  destruct (Z.eqb_spec (- n) 0); [lia|]. destruct (Z.ltb_spec (- n) 0); [|lia]. destruct (Z.leb_spec 0 (- n)); [lia|].
  cbn [andb orb]. replace (i - - n) with (i + n) by lia.
  set (s' := if i <? s then go_Max i (s + - n) else s). set (e' := if i <=? e then go_Max i (e + - n) else e).
  assert (Hlt : s' < e').
  { unfold s', e'. rewrite !go_Max_spec. destruct (Z.ltb_spec i s); destruct (Z.leb_spec i e); lia. }
  exists s', e'. split; [exact Hlt|]. destruct (Z.eqb_spec s' e'); [lia|]. f_equal. f_equal.
  - destruct p5; [destruct ((i <=? s) && (s <? i + n)); reflexivity|]. cbn [orb]. destruct ((i <=? s) && (s <? i + n)); reflexivity.
  - destruct p3; [destruct ((i <? e) && (e <=? i + n)); reflexivity|]. cbn [orb]. destruct ((i <? e) && (e <=? i + n)); reflexivity.
Qed.
