(* PlansProofs.v — C15: the multi-site loops act in INPUT coordinates *)
From GTS Require Import Base Arith Loc Seq Region Plans BaseLemmas LocProofs SeqProofs.
Open Scope Z_scope.

Definition bare (p : list byte) : seq := mkseq [] p.

(* ---------- insert at every head, highest index first *)

(* one guest copy at each index, indices given in INPUT coordinates, descending *)
Fixpoint spec_insert (p : list byte) (idx : list Z) (g : list byte) : list byte :=
  match idx with
  | [] => p
  | i :: rest => spec_insert (firstn (Z.to_nat i) p) rest g ++ g ++ skipn (Z.to_nat i) p
  end.

Fixpoint desc_within (hi : Z) (idx : list Z) : Prop :=
  match idx with
  | [] => True
  | i :: rest => 0 <= i <= hi /\ desc_within i rest
  end.

Lemma seq_insert_bare p i g : 0 <= i <= zlen p ->
  seq_insert (bare p) i (bare g) = Ok (bare (firstn (Z.to_nat i) p ++ g ++ skipn (Z.to_nat i) p)).
Proof.
  intros H. unfold seq_insert, bare. cbn [feats residues insert_all obind].
  rewrite insert_bytes_spec by assumption. reflexivity.
Qed.

Lemma seq_embed_bare p i g : 0 <= i <= zlen p ->
  seq_embed (bare p) i (bare g) = Ok (bare (firstn (Z.to_nat i) p ++ g ++ skipn (Z.to_nat i) p)).
Proof.
  intros H. unfold seq_embed, bare. cbn [feats residues insert_all obind].
  rewrite insert_bytes_spec by assumption. reflexivity.
Qed.

(* indices below |A| only touch the prefix A *)
Lemma fold_insert_prefix embed idx : forall (A B g : list byte),
  desc_within (zlen A) idx ->
  exists r, fold_insert embed (bare A) idx (bare g) = Ok (bare r) /\
            fold_insert embed (bare (A ++ B)) idx (bare g) = Ok (bare (r ++ B)).
Proof.
  induction idx as [|i rest IH]; intros A B g H; cbn [fold_insert].
  - exists A. split; reflexivity.
  - destruct H as [Hi Hrest].
    assert (HiAB : 0 <= i <= zlen (A ++ B)) by (rewrite zlen_app; pose proof (zlen_nonneg B); lia).
    assert (E1 : (if embed then seq_embed (bare A) i (bare g) else seq_insert (bare A) i (bare g))
                 = Ok (bare (firstn (Z.to_nat i) A ++ g ++ skipn (Z.to_nat i) A)))
      by (destruct embed; [apply seq_embed_bare | apply seq_insert_bare]; exact Hi).
    assert (E2 : (if embed then seq_embed (bare (A ++ B)) i (bare g) else seq_insert (bare (A ++ B)) i (bare g))
                 = Ok (bare (firstn (Z.to_nat i) (A ++ B) ++ g ++ skipn (Z.to_nat i) (A ++ B))))
      by (destruct embed; [apply seq_embed_bare | apply seq_insert_bare]; exact HiAB).
    rewrite E1, E2. cbn [obind].
    assert (Hn : (Z.to_nat i <= length A)%nat) by (unfold zlen in Hi; lia).
    rewrite firstn_app, skipn_app.
    replace (Z.to_nat i - length A)%nat with O by lia. cbn [firstn skipn]. rewrite app_nil_r.
    set (A1 := firstn (Z.to_nat i) A). set (A2 := skipn (Z.to_nat i) A).
    assert (Hw : desc_within (zlen (A1 ++ g ++ A2)) rest).
    { clear - Hrest Hi Hn. unfold A1, A2.
      assert (G : forall hi hi', hi <= hi' -> desc_within hi rest -> desc_within hi' rest).
      { clear. destruct rest as [|j t]; intros hi hi' Hh H; [exact I|]. destruct H as [H1 H2]. split; [lia | exact H2]. }
      apply (G i); [|exact Hrest].
      rewrite !zlen_app, zlen_firstn. pose proof (zlen_nonneg g). pose proof (zlen_nonneg (skipn (Z.to_nat i) A)).
      unfold zlen in *. lia. }
    destruct (IH (A1 ++ g ++ A2) B g Hw) as [r [H1 H2]].
    exists r. split; [exact H1|]. rewrite <- ?app_assoc in H2. rewrite <- ?app_assoc. exact H2.
Qed.

(* one copy of the guest per located head, at that head's position measured
   in the input's coordinates (equal heads give adjacent copies) *)
Theorem insert_each_head embed idx : forall (p g : list byte),
  desc_within (zlen p) idx ->
  fold_insert embed (bare p) idx (bare g) = Ok (bare (spec_insert p idx g)).
Proof.
  induction idx as [|i rest IH]; intros p g H; cbn [fold_insert spec_insert]; [reflexivity|].
  destruct H as [Hi Hrest].
  assert (E1 : (if embed then seq_embed (bare p) i (bare g) else seq_insert (bare p) i (bare g))
               = Ok (bare (firstn (Z.to_nat i) p ++ g ++ skipn (Z.to_nat i) p)))
    by (destruct embed; [apply seq_embed_bare | apply seq_insert_bare]; exact Hi).
  rewrite E1. cbn [obind].
  set (A := firstn (Z.to_nat i) p). set (B := g ++ skipn (Z.to_nat i) p).
  assert (HA : zlen A = i) by (unfold A; rewrite zlen_firstn; lia).
  assert (Hw : desc_within (zlen A) rest) by (rewrite HA; exact Hrest).
  destruct (fold_insert_prefix embed rest A B g Hw) as [r [H1 H2]].
  rewrite H2. rewrite (IH A g Hw) in H1. inversion H1. reflexivity.
Qed.

(* the CLI sorts the heads in descending order first *)
Lemma z_insert_desc_perm x l : forall y, In y (z_insert_desc x l) <-> y = x \/ In y l.
Proof.
  induction l as [|a t IH]; intros y; cbn [z_insert_desc].
  - cbn. intuition congruence.
  - destruct (a <=? x); cbn [In]; [intuition congruence|]. rewrite IH. intuition congruence.
Qed.

Fixpoint desc_sorted (l : list Z) : Prop :=
  match l with
  | [] => True
  | a :: t => (match t with [] => True | b :: _ => b <= a end) /\ desc_sorted t
  end.

Lemma z_insert_desc_sorted x l : desc_sorted l -> desc_sorted (z_insert_desc x l).
Proof.
  induction l as [|a t IH]; intros H; cbn [z_insert_desc]; [cbn; tauto|].
  destruct (a <=? x) eqn:E; [apply Z.leb_le in E | apply Z.leb_gt in E].
  - cbn [desc_sorted]. split; [exact E | exact H].
  - destruct H as [H1 H2]. specialize (IH H2). cbn [desc_sorted]. split; [|exact IH].
    destruct t as [|b u]; cbn [z_insert_desc].
    + lia.
    + destruct (b <=? x); lia.
Qed.

Lemma sort_desc_sorted l : desc_sorted (sort_desc l).
Proof. induction l as [|x t IH]; [exact I|]. cbn [sort_desc fold_right]. now apply z_insert_desc_sorted. Qed.

Lemma sort_desc_in l y : In y (sort_desc l) <-> In y l.
Proof.
  induction l as [|x t IH]; [tauto|]. cbn [sort_desc fold_right].
  rewrite z_insert_desc_perm. fold (sort_desc t). rewrite IH. cbn [In]. intuition congruence.
Qed.

Lemma desc_sorted_within hi l : desc_sorted l -> Forall (fun i => 0 <= i <= hi) l -> desc_within hi l.
Proof.
  revert hi. induction l as [|a t IH]; intros hi Hs Hb; [exact I|].
  inversion Hb as [|? ? Ha Ht]; subst. destruct Hs as [H1 H2]. split; [exact Ha|].
  apply IH; [exact H2|]. destruct t as [|b u]; [constructor|].
  apply Forall_forall. intros y Hy.
  assert (G : forall l, desc_sorted l -> forall y, In y l -> match l with [] => True | c :: _ => y <= c end).
  { clear. induction l as [|c t IH]; intros Hs y Hy; [exact I|]. destruct Hy as [->|Hy]; [lia|].
    destruct Hs as [H1 H2]. specialize (IH H2 y Hy). destruct t; [contradiction|]. lia. }
  pose proof (G (b :: u) H2 y Hy) as Hyb. cbn in Hyb.
  rewrite Forall_forall in Ht. specialize (Ht y Hy). lia.
Qed.

Theorem plan_insert_bytes embed (p g : list byte) (rr : list region) :
  Forall (fun r => 0 <= region_head r <= zlen p) rr ->
  plan_insert (bare p) rr (bare g) embed =
  Ok (bare (spec_insert p (sort_desc (map region_head rr)) g)).
Proof.
  intros H. unfold plan_insert. apply insert_each_head.
  apply desc_sorted_within; [apply sort_desc_sorted|].
  apply Forall_forall. intros y Hy. apply sort_desc_in, in_map_iff in Hy as [r [<- Hr]].
  rewrite Forall_forall in H. now apply H.
Qed.

(* ---------- delete the union, right to left *)

(* what is left of p after removing the segments (ascending, disjoint), in INPUT coordinates *)
Fixpoint spec_delete (p : list byte) (rev_ss : list (Z * Z)) : list byte :=
  match rev_ss with
  | [] => p
  | (h, t) :: rest => spec_delete (firstn (Z.to_nat h) p) rest ++ skipn (Z.to_nat t) p
  end.

(* rev_ss: segments from right to left, each inside [0,hi] and left of the previous one *)
Fixpoint segs_within (hi : Z) (rev_ss : list (Z * Z)) : Prop :=
  match rev_ss with
  | [] => True
  | (h, t) :: rest => 0 <= h <= t /\ t <= hi /\ segs_within h rest
  end.

Lemma seq_delete_bare p h n : 0 <= h -> 0 <= n -> h + n <= zlen p ->
  seq_delete (bare p) h n = Ok (bare (firstn (Z.to_nat h) p ++ skipn (Z.to_nat (h + n)) p)).
Proof.
  intros H1 H2 H3. pose proof (delete_bytes_spec p h n H1 H2 H3) as HD.
  unfold delete_bytes in HD. unfold bare in *.
  destruct (seq_delete {| feats := []; residues := p |} h n) as [r| | |] eqn:E; try discriminate.
  cbn [obind] in HD. inversion HD; subst.
  unfold seq_delete in E. cbn [feats residues map_locs obind] in E.
  destruct (zlen p - n <? 0); [discriminate|].
  destruct (slice p 0 h); try discriminate. cbn [obind] in E.
  destruct (zlen p - n <? h); [discriminate|].
  destruct (slice p (h + n) (zlen p)); try discriminate. cbn [obind] in E.
  inversion E; subst. cbn [residues] in H0. now rewrite H0.
Qed.

(* Abs is written with shifts on a 64-bit int: |x| for every Go int *)
Lemma abs_spec x : - 2 ^ 63 <= x < 2 ^ 63 -> go_Abs x = Z.abs x.
Proof.
  intros H. unfold go_Abs. change (64 - 1) with 63. rewrite Z.shiftr_div_pow2 by lia.
  destruct (Z.lt_ge_cases x 0) as [Hn|Hp].
  - assert (E : x / 2 ^ 63 = -1).
    { symmetry. apply (Z.div_unique x (2 ^ 63) (-1) (x + 2 ^ 63)); lia. }
    rewrite E, Z.lxor_m1_r. unfold Z.lnot. lia.
  - rewrite Z.div_small by lia. rewrite Z.lxor_0_r. lia.
Qed.

Lemma fold_delete_prefix rev_ss : forall (A B : list byte),
  segs_within (zlen A) rev_ss -> zlen A < 2 ^ 62 ->
  exists r, fold_delete false (bare A) rev_ss = Ok (bare r) /\
            fold_delete false (bare (A ++ B)) rev_ss = Ok (bare (r ++ B)) /\ zlen r <= zlen A.
Proof.
  induction rev_ss as [|[h t] rest IH]; intros A B Hw Hb; cbn [fold_delete].
  - exists A. repeat split; lia.
  - destruct Hw as [Hh [Ht Hrest]].
    rewrite abs_spec by (pose proof (zlen_nonneg A); lia). rewrite Z.abs_eq by lia.
    pose proof (zlen_nonneg B) as HB.
    rewrite (seq_delete_bare A h (t - h)) by lia.
    rewrite (seq_delete_bare (A ++ B) h (t - h)) by (rewrite ?zlen_app; lia).
    cbn [obind]. replace (h + (t - h)) with t by lia.
    assert (Hn : (Z.to_nat h <= length A)%nat /\ (Z.to_nat t <= length A)%nat) by (unfold zlen in *; lia).
    rewrite firstn_app, skipn_app.
    replace (Z.to_nat h - length A)%nat with O by lia. replace (Z.to_nat t - length A)%nat with O by lia.
    cbn [firstn skipn]. rewrite app_nil_r.
    set (A1 := firstn (Z.to_nat h) A). set (A2 := skipn (Z.to_nat t) A).
    assert (HA1 : zlen A1 = h) by (unfold A1; rewrite zlen_firstn; lia).
    (* the remaining segments lie inside A1 *)
    assert (Hw1 : segs_within (zlen A1) rest) by (rewrite HA1; exact Hrest).
    destruct (IH A1 (A2 ++ B) Hw1 ltac:(lia)) as [r [H1 [H2 H3]]].
    destruct (IH A1 A2 Hw1 ltac:(lia)) as [r' [H1' [H2' _]]].
    rewrite H1 in H1'. inversion H1'; subst r'.
    exists (r ++ A2). split; [exact H2'|]. split.
    + rewrite <- ?app_assoc. rewrite <- ?app_assoc in H2. exact H2.
    + rewrite zlen_app. unfold A2. rewrite zlen_skipn. lia.
Qed.

(* removing the located segments right to left removes exactly their union:
   what remains is described in INPUT coordinates *)
Theorem delete_union rev_ss : forall (p : list byte),
  segs_within (zlen p) rev_ss -> zlen p < 2 ^ 62 ->
  fold_delete false (bare p) rev_ss = Ok (bare (spec_delete p rev_ss)).
Proof.
  induction rev_ss as [|[h t] rest IH]; intros p Hw Hb; cbn [fold_delete spec_delete]; [reflexivity|].
  destruct Hw as [Hh [Ht Hrest]].
  rewrite abs_spec by (pose proof (zlen_nonneg p); lia). rewrite Z.abs_eq by lia.
  rewrite (seq_delete_bare p h (t - h)) by lia. cbn [obind]. replace (h + (t - h)) with t by lia.
  set (A := firstn (Z.to_nat h) p). set (B := skipn (Z.to_nat t) p).
  assert (HA : zlen A = h) by (unfold A; rewrite zlen_firstn; lia).
  assert (Hw1 : segs_within (zlen A) rest) by (rewrite HA; exact Hrest).
  destruct (fold_delete_prefix rest A B Hw1 ltac:(lia)) as [r [H1 [H2 _]]].
  rewrite H2. rewrite (IH A Hw1 ltac:(lia)) in H1. inversion H1. reflexivity.
Qed.

(* ---------- split: the pieces concatenate back to the input *)

Lemma seq_slice_bare (p : list byte) a b : 0 <= a <= b -> b <= zlen p ->
  seq_slice (bare p) a b = Ok (bare (firstn (Z.to_nat (b - a)) (skipn (Z.to_nat a) p))).
Proof.
  intros H1 H2. unfold seq_slice, seq_slice_f, bare. cbn [residues feats].
  replace (a <? 0) with false by (symmetry; apply Z.ltb_ge; lia).
  replace (b <? 0) with false by (symmetry; apply Z.ltb_ge; lia).
  replace (b <? a) with false by (symmetry; apply Z.ltb_ge; lia).
  cbn [filter map_locs obind map].
  replace (b - a <? 0) with false by (symmetry; apply Z.ltb_ge; lia).
  unfold slice.
  replace ((0 <=? a) && (a <=? b) && (b <=? zlen p)) with true
    by (symmetry; rewrite !andb_true_iff, !Z.leb_le; lia).
  reflexivity.
Qed.

Fixpoint ascending (lo : Z) (l : list Z) : Prop :=
  match l with [] => True | a :: t => lo <= a /\ ascending a t end.

Lemma ascending_last lo l d : ascending lo l -> l <> [] -> lo <= last l d.
Proof.
  revert lo. induction l as [|a t IH]; intros lo H Hne; [congruence|].
  destruct H as [H1 H2]. destruct t as [|b u]; [cbn; lia|].
  specialize (IH a H2 ltac:(discriminate)). change (last (a :: b :: u) d) with (last (b :: u) d). lia.
Qed.

Lemma last_nonempty {A} (l : list A) d d' : l <> [] -> last l d = last l d'.
Proof.
  induction l as [|a t IH]; intros H; [congruence|].
  destruct t as [|b u]; [reflexivity|]. change (last (b :: u) d = last (b :: u) d'). apply IH. discriminate.
Qed.

Lemma slice_pairs_cons2 s a b t :
  slice_pairs s (a :: b :: t) = (x <- seq_slice s a b ;; xs <- slice_pairs s (b :: t) ;; Ok (x :: xs)).
Proof. reflexivity. Qed.

Lemma slice_pairs_concat (p : list byte) : forall splits a,
  0 <= a -> ascending a splits -> Forall (fun x => x <= zlen p) (a :: splits) ->
  exists pieces, slice_pairs (bare p) (a :: splits) = Ok pieces /\
    flat_map residues pieces =
    firstn (Z.to_nat (last splits a - a)) (skipn (Z.to_nat a) p).
Proof.
  induction splits as [|b t IH]; intros a Ha Hasc Hb.
  - exists []. split; [reflexivity|]. cbn [last]. rewrite Z.sub_diag. reflexivity.
  - destruct Hasc as [Hab Hasc]. inversion Hb as [|? ? Hap Hb']; subst. inversion Hb' as [|? ? Hbp Hb'']; subst.
    rewrite slice_pairs_cons2. rewrite seq_slice_bare by lia. cbn [obind].
    destruct (IH b ltac:(lia) Hasc Hb') as [pieces [H1 H2]].
    rewrite H1. cbn [obind]. eexists. split; [reflexivity|].
    cbn [flat_map residues bare]. rewrite H2.
    assert (Hl : b <= last t b).
    { destruct t as [|c u]; [cbn; lia|]. apply ascending_last; [exact Hasc | discriminate]. }
    replace (last (b :: t) a) with (last t b)
      by (destruct t as [|c u]; [reflexivity|]; change (last (c :: u) b = last (c :: u) a); apply last_nonempty; discriminate).
    (* firstn (b-a) (skipn a p) ++ firstn (l-b) (skipn b p) = firstn (l-a) (skipn a p) *)
    replace (Z.to_nat b) with (Z.to_nat a + Z.to_nat (b - a))%nat by lia.
    rewrite <- skipn_skipn.
    set (q := skipn (Z.to_nat a) p).
    replace (Z.to_nat (last t b - a)) with (Z.to_nat (b - a) + Z.to_nat (last t b - b))%nat by lia.
    rewrite <- (firstn_skipn (Z.to_nat (b - a)) q) at 3.
    rewrite firstn_app.
    assert (Hq : (Z.to_nat (b - a) <= length q)%nat).
    { unfold q. rewrite skipn_length. unfold zlen in *. lia. }
    rewrite firstn_length, Nat.min_l by exact Hq.
    rewrite (firstn_all2 (firstn (Z.to_nat (b - a)) q)) by (rewrite firstn_length; lia).
    f_equal. f_equal. lia.
Qed.

(* linear split: cutting at 0, every distinct located position (ascending) and
   the length gives pieces that concatenate back to the input *)
Theorem split_concat (p : list byte) splits :
  ascending 0 splits -> Forall (fun x => x <= zlen p) splits -> last splits 0 = zlen p ->
  exists pieces, slice_pairs (bare p) (0 :: splits) = Ok pieces /\ flat_map residues pieces = p.
Proof.
  intros Hasc Hb Hl.
  destruct (slice_pairs_concat p splits 0 ltac:(lia) Hasc) as [pieces [H1 H2]].
  - constructor; [apply zlen_nonneg | exact Hb].
  - exists pieces. split; [exact H1|]. rewrite H2, Hl, Z.sub_0_r. cbn [skipn Z.to_nat].
    apply firstn_all2. unfold zlen. lia.
Qed.
