(* PropsRT.v — gts.Props: the qualifiers read one by one and added with
   Props.Add rebuild the Props value they were written from. *)
From Coq Require Import List ZArith Lia Bool.
From GTS Require Import Base Arith Pars Loc Seq Insdc BaseLemmas CacheProofs.
Import ListNotations.
Open Scope Z_scope.

Definition entry_name (e : list (list byte)) : list byte := match e with n :: _ => n | [] => [] end.

(* every entry is a name with at least one value, names are distinct *)
Definition pnormal (ps : props) : Prop :=
  NoDup (map entry_name ps) /\ Forall (fun e => exists n v vs, e = n :: v :: vs) ps.

Definition equals (e : list (list byte)) : list (list byte * list byte) :=
  match e with name :: vs => map (fun v => (name, v)) vs | [] => [] end.

Lemma props_add_new ps name v : ~ In name (map entry_name ps) -> Forall (fun e => e <> []) ps ->
  props_add ps name v = ps ++ [[name; v]].
Proof.
  intros Hn Hne. induction ps as [|e t IH]; [reflexivity|].
  inversion Hne as [|? ? He Ht]; subst. destruct e as [|k vs]; [contradiction|].
  cbn [props_add]. cbn [map entry_name In] in Hn.
  destruct (bytes_eqb k name) eqn:E.
  - apply bytes_eqb_eq in E. subst. exfalso. apply Hn. now left.
  - cbn [app]. f_equal. apply IH; [intros H; apply Hn; now right|exact Ht].
Qed.

Lemma props_add_last ps name vs v : ~ In name (map entry_name ps) -> Forall (fun e => e <> []) ps ->
  props_add (ps ++ [name :: vs]) name v = ps ++ [name :: vs ++ [v]].
Proof.
  intros Hn Hne. induction ps as [|e t IH].
  - cbn [app props_add]. now rewrite bytes_eqb_refl.
  - inversion Hne as [|? ? He Ht]; subst. destruct e as [|k ws]; [contradiction|].
    cbn [app props_add]. cbn [map entry_name In] in Hn.
    destruct (bytes_eqb k name) eqn:E.
    + apply bytes_eqb_eq in E. subst. exfalso. apply Hn. now left.
    + f_equal. apply IH; [intros H; apply Hn; now right|exact Ht].
Qed.

Lemma fold_values ps name : ~ In name (map entry_name ps) -> Forall (fun e => e <> []) ps ->
  forall vs ws, fold_left (fun acc q => props_add acc (fst q) (snd q)) (map (fun v => (name, v)) vs) (ps ++ [name :: ws])
                = ps ++ [name :: ws ++ vs].
Proof.
  intros Hn Hne. induction vs as [|v t IH]; intros ws; cbn [map fold_left fst snd].
  - now rewrite app_nil_r.
  - rewrite props_add_last by assumption. rewrite IH. now rewrite <- app_assoc.
Qed.

Theorem props_of_flat ps : pnormal ps -> props_of (flat_map equals ps) = ps.
Proof.
  intros [Hnd Hf]. unfold props_of.
  assert (G : forall done todo, ps = done ++ todo ->
             fold_left (fun acc q => props_add acc (fst q) (snd q)) (flat_map equals todo) done = ps).
  { intros done todo. revert done. induction todo as [|e t IH]; intros done E.
    - cbn [flat_map fold_left]. now rewrite E, app_nil_r.
    - assert (He : In e ps) by (rewrite E; apply in_or_app; right; now left).
      rewrite Forall_forall in Hf. destruct (Hf e He) as (n & v & vs & ->).
      cbn [flat_map equals map]. rewrite fold_left_app. cbn [fold_left fst snd].
      assert (Hdn : ~ In n (map entry_name done)).
      { rewrite E, map_app in Hnd. cbn [map entry_name] in Hnd. apply NoDup_remove_2 in Hnd.
        intros H. apply Hnd. apply in_or_app. now left. }
      assert (Hdne : Forall (fun x => x <> []) done).
      { apply Forall_forall. intros x Hx. assert (In x ps) by (rewrite E; apply in_or_app; now left).
        destruct (Hf x H) as (? & ? & ? & ->). discriminate. }
      rewrite props_add_new by assumption.
      rewrite (fold_values done n Hdn Hdne vs [v]). cbn [app].
      apply IH. rewrite E, <- app_assoc. reflexivity. }
  apply (G [] ps). reflexivity.
Qed.

(* the first entry carrying a name is the entry itself when names are distinct *)
Lemma props_first_own ps : pnormal ps -> forall e, In e ps -> props_first ps (entry_name e) = tl e.
Proof.
  intros [Hnd Hf] e He. induction ps as [|x t IH]; [contradiction|].
  inversion Hf as [|? ? (n & v & vs & ->) Ht]; subst. cbn [map entry_name] in Hnd. inversion Hnd as [|? ? Hx Hnd']; subst.
  cbn [props_first]. destruct He as [<-|He].
  - cbn [entry_name tl]. now rewrite bytes_eqb_refl.
  - destruct (bytes_eqb n (entry_name e)) eqn:E.
    + apply bytes_eqb_eq in E. exfalso. apply Hx. rewrite E. now apply in_map.
    + now apply IH.
Qed.
