(* ParsLemmas.v — how the pars primitives of model/Pars.v act on explicit states *)
From GTS Require Import Base Pars BaseLemmas.
Open Scope Z_scope.

Lemma has_n_app {A} (a b : list A) : has_n (a ++ b) (length a) = true.
Proof. induction a as [|x t IH]; [reflexivity | exact IH]. Qed.

Lemma has_n_le {A} (l : list A) n : (n <= length l)%nat -> has_n l n = true.
Proof. revert n. induction l as [|x t IH]; intros [|n] H; cbn in *; auto; try lia. apply IH. lia. Qed.

Lemma has_n_gt {A} (l : list A) n : (length l < n)%nat -> has_n l n = false.
Proof. revert n. induction l as [|x t IH]; intros [|n] H; cbn in *; auto; try lia. apply IH. lia. Qed.

Lemma bind_ok {A B} (m : M A) (f : A -> M B) s a s1 :
  m s = (Ok a, s1) -> bind m f s = f a s1.
Proof. intros H. unfold bind. now rewrite H. Qed.

Lemma bind_err {A B} (m : M A) (f : A -> M B) s k s1 :
  m s = (Err k, s1) -> bind m f s = (Err k, s1).
Proof. intros H. unfold bind. now rewrite H. Qed.

Lemma try_ok {A} (m : M A) s a s1 : m s = (Ok a, s1) -> try m s = (Ok (Some a, EOther), s1).
Proof. intros H. unfold try. now rewrite H. Qed.

Lemma try_err {A} (m : M A) s k s1 : m s = (Err k, s1) -> try m s = (Ok (None, k), s1).
Proof. intros H. unfold try. now rewrite H. Qed.

(* ---------- Request / Advance / Next *)

Lemma request_ok r o e a k n : has_n r (Z.to_nat n) = true ->
  request n (mkst r o e a k) = (Ok tt, mkst r o (Some (o + n)) a k).
Proof. intros H. unfold request. cbn [rest off apos stk]. now rewrite H. Qed.

Lemma request_fail r o e a k n : has_n r (Z.to_nat n) = false ->
  request n (mkst r o e a k) = (Err EEof, mkst r o (Some (o + zlen r)) a k).
Proof. intros H. unfold request. cbn [rest off apos stk]. now rewrite H. Qed.

Lemma advance_ok r o a k n : 0 <= n -> has_n r (Z.to_nat n) = true ->
  advance (mkst r o (Some (o + n)) a k) =
  (Ok tt, autoclear (mkst (skipn (Z.to_nat n) r) (o + n) None (a + n) k)).
Proof.
  intros Hn H. unfold advance. cbn [endr off rest apos stk].
  replace (o + n - o) with n by lia.
  replace (n <? 0) with false by (symmetry; apply Z.ltb_ge; lia). rewrite H. reflexivity.
Qed.

(* what matters of a state for everything that follows *)
Definition same_view (s s' : st) : Prop := rest s = rest s' /\ apos s = apos s' /\ stk s = stk s'.

Lemma autoclear_view s : same_view (autoclear s) s.
Proof. unfold autoclear, same_view. destruct (stk s) eqn:E; cbn; rewrite ?E; auto. Qed.

Lemma autoclear_cases r o e a k :
  exists o', autoclear (mkst r o e a k) = mkst r o' e a k.
Proof. unfold autoclear. cbn [stk]. destruct k; eexists; reflexivity. Qed.

Lemma next_cons c t o e a k :
  next (mkst (c :: t) o e a k) = (Ok c, mkst (c :: t) o (Some (o + 1)) a k).
Proof.
  unfold next. rewrite (bind_ok _ _ _ tt (mkst (c :: t) o (Some (o + 1)) a k))
    by (apply request_ok; reflexivity).
  unfold bind, buffer. cbn [endr off rest]. replace (o + 1 - o) with 1 by lia. reflexivity.
Qed.

Lemma next_nil o e a k :
  next (mkst [] o e a k) = (Err EEof, mkst [] o (Some o) a k).
Proof.
  unfold next. rewrite (bind_err _ _ _ EEof (mkst [] o (Some (o + zlen (@nil byte))) a k))
    by (apply request_fail; reflexivity).
  rewrite zlen_nil, Z.add_0_r. reflexivity.
Qed.

(* pars.Byte *)
Lemma pByte_ok c t o e a k :
  exists o', pByte c (mkst (c :: t) o e a k) = (Ok c, mkst t o' None (a + 1) k).
Proof.
  unfold pByte. rewrite (bind_ok _ _ _ _ _ (next_cons c t o e a k)). rewrite Z.eqb_refl.
  rewrite (bind_ok _ _ _ tt _ (advance_ok (c :: t) o a k 1 ltac:(lia) eq_refl)).
  change (Z.to_nat 1) with 1%nat. cbn [skipn]. unfold ret.
  destruct (autoclear_cases t (o + 1) None (a + 1) k) as [o' ->]. now exists o'.
Qed.

Lemma pByte_other c x t o e a k : x <> c ->
  pByte c (mkst (x :: t) o e a k) = (Err EOther, mkst (x :: t) o (Some (o + 1)) a k).
Proof.
  intros H. unfold pByte. rewrite (bind_ok _ _ _ _ _ (next_cons x t o e a k)).
  replace (x =? c) with false by (symmetry; now apply Z.eqb_neq). reflexivity.
Qed.

Lemma pByte_eof c o e a k :
  pByte c (mkst [] o e a k) = (Err EEof, mkst [] o (Some o) a k).
Proof. unfold pByte. now rewrite (bind_err _ _ _ _ _ (next_nil o e a k)). Qed.

(* pars.End *)
Lemma pEnd_nil o e a k : exists e', pEnd (mkst [] o e a k) = (Ok tt, mkst [] o e' a k).
Proof.
  unfold pEnd. rewrite (bind_ok _ _ _ (None, EEof) (mkst [] o (Some (o + zlen (@nil byte))) a k)).
  - eexists. reflexivity.
  - apply try_err. apply request_fail. reflexivity.
Qed.

Lemma pEnd_cons x t o e a k : exists e', pEnd (mkst (x :: t) o e a k) = (Err EOther, mkst (x :: t) o e' a k).
Proof.
  unfold pEnd. rewrite (bind_ok _ _ _ (Some tt, EOther) (mkst (x :: t) o (Some (o + 1)) a k)).
  - eexists. reflexivity.
  - apply try_ok. apply request_ok. reflexivity.
Qed.

(* ---------- lines *)

Definition no_eol (l : list byte) : Prop := Forall (fun c => c <> 10 /\ c <> 13) l.

Lemma calc_line_lf line post i n : no_eol line ->
  calc_line (line ++ 10 :: post) i n false = (i + zlen line, n + 1).
Proof.
  intros H. revert i. induction H as [|c t [H1 H2] _ IH]; intros i; cbn [app calc_line].
  - change (10 =? 10) with true. cbn [andb]. now rewrite zlen_nil, Z.add_0_r.
  - replace (c =? 10) with false by (symmetry; now apply Z.eqb_neq).
    replace (c =? 13) with false by (symmetry; now apply Z.eqb_neq). cbn [andb].
    rewrite IH, zlen_cons. f_equal. lia.
Qed.

Lemma calc_line_crlf line post i n : no_eol line ->
  calc_line (line ++ 13 :: 10 :: post) i n false = (i + zlen line, n + 2).
Proof.
  intros H. revert i. induction H as [|c t [H1 H2] _ IH]; intros i; cbn [app calc_line].
  - cbn. f_equal; lia.
  - replace (c =? 10) with false by (symmetry; now apply Z.eqb_neq).
    replace (c =? 13) with false by (symmetry; now apply Z.eqb_neq). cbn [andb].
    rewrite IH, zlen_cons. f_equal. lia.
Qed.

Lemma calc_line_eof line i n : no_eol line ->
  calc_line line i n false = (i + zlen line, n).
Proof.
  intros H. revert i. induction H as [|c t [H1 H2] _ IH]; intros i; cbn [calc_line].
  - now rewrite zlen_nil, Z.add_0_r.
  - replace (c =? 10) with false by (symmetry; now apply Z.eqb_neq).
    replace (c =? 13) with false by (symmetry; now apply Z.eqb_neq). cbn [andb].
    rewrite IH, zlen_cons. f_equal. lia.
Qed.

Lemma nat_zlen {A} (l : list A) : Z.to_nat (zlen l) = length l.
Proof. unfold zlen. lia. Qed.

(* pars.Line on "line\n": returns the line, consumes the newline *)
Lemma pLine_lf line post o e a k : no_eol line ->
  exists o' e', pLine (mkst (line ++ 10 :: post) o e a k) =
                (Ok line, mkst post o' e' (a + zlen line + 1) k).
Proof.
  intros H. unfold pLine.
  unfold bind at 1. unfold get. cbn [rest].
  rewrite (calc_line_lf line post 0 0 H). cbn [Z.add].
  assert (Hh : has_n (line ++ 10 :: post) (Z.to_nat (zlen line)) = true)
    by (rewrite nat_zlen; apply has_n_app).
  rewrite (bind_ok _ _ _ (Some tt, EOther) (mkst (line ++ 10 :: post) o (Some (o + zlen line)) a k))
    by (apply try_ok, request_ok, Hh).
  unfold bind at 1. unfold buffer. cbn [endr off rest].
  replace (o + zlen line - o) with (zlen line) by lia.
  replace (zlen line <? 0) with false by (symmetry; apply Z.ltb_ge; apply zlen_nonneg).
  rewrite nat_zlen, firstn_app, firstn_all, Nat.sub_diag. cbn [firstn]. rewrite app_nil_r.
  rewrite (bind_ok _ _ _ tt _ (advance_ok _ o a k (zlen line) (zlen_nonneg _) Hh)).
  rewrite nat_zlen, skipn_app, skipn_all, Nat.sub_diag. cbn [skipn app].
  destruct (autoclear_cases (10 :: post) (o + zlen line) None (a + zlen line) k) as [o1 ->].
  (* Skip(1) *)
  unfold skip.
  assert (Hs : try (request 1 ;;; advance) (mkst (10 :: post) o1 None (a + zlen line) k)
               = (Ok (Some tt, EOther), autoclear (mkst post (o1 + 1) None (a + zlen line + 1) k))).
  { apply try_ok. rewrite (bind_ok _ _ _ tt (mkst (10 :: post) o1 (Some (o1 + 1)) (a + zlen line) k))
      by (apply request_ok; reflexivity).
    rewrite (advance_ok (10 :: post) o1 (a + zlen line) k 1 ltac:(lia) eq_refl). reflexivity. }
  rewrite (bind_ok _ _ _ _ _ Hs).
  destruct (autoclear_cases post (o1 + 1) None (a + zlen line + 1) k) as [o2 ->].
  exists o2, None. reflexivity.
Qed.

(* request_z is request *)
Lemma has_n_zlen {A} (l : list A) n : has_n l (Z.to_nat n) = (n <=? zlen l).
Proof.
  unfold zlen. destruct (Z.leb_spec n (Z.of_nat (length l))).
  - apply has_n_le. lia.
  - apply has_n_gt. lia.
Qed.
Lemma request_z_eq n s : request_z n s = request n s.
Proof.
  unfold request_z, request. rewrite has_n_zlen.
  destruct (Z.ltb_spec (zlen (rest s)) n); destruct (Z.leb_spec n (zlen (rest s))); try lia; reflexivity.
Qed.
