(* PlansMore.v — C15: gts rotate brings the first located position to index 0;
   gts extract writes every located region once, the first occurrence kept. *)
From Coq Require Import List ZArith Lia Bool.
From GTS Require Import Base Arith Loc Seq Region Plans BaseLemmas LocProofs SeqProofs RegionProofs PlansProofs ResizeProofs.
Import ListNotations.
Open Scope Z_scope.

(* ---------- rotate *)

Theorem rotate_to_origin (p : list byte) h : 0 <= h < zlen p ->
  rotate_bytes p (- h) = Ok (skipn (Z.to_nat h) p ++ firstn (Z.to_nat h) p).
Proof.
  intros Hh. rewrite rotate_bytes_spec by lia. cbv zeta.
  assert (E : zlen p - (- h) mod zlen p = if h =? 0 then zlen p else h).
  { destruct (Z.eqb_spec h 0) as [->|Hne].
    - rewrite Z.opp_0, Z.mod_0_l by lia. lia.
    - rewrite Z.mod_opp_l_nz by (rewrite ?Z.mod_small by lia; lia). rewrite Z.mod_small by lia. lia. }
  rewrite E. destruct (Z.eqb_spec h 0) as [->|Hne]; [|reflexivity].
  cbn [Z.to_nat skipn firstn app]. rewrite skipn_all2, firstn_all2 by (unfold zlen; lia). now rewrite app_nil_r.
Qed.

Corollary rotate_first_residue (p : list byte) h d : 0 <= h < zlen p ->
  exists q, rotate_bytes p (- h) = Ok q /\ nth 0 q d = nth (Z.to_nat h) p d /\ zlen q = zlen p.
Proof.
  intros Hh. eexists. split; [apply rotate_to_origin; exact Hh|]. split.
  - rewrite app_nth1.
    + rewrite <- (firstn_skipn (Z.to_nat h) p) at 2. rewrite app_nth2 by (rewrite firstn_length; unfold zlen in *; lia).
      rewrite firstn_length. replace (Z.to_nat h - Nat.min (Z.to_nat h) (length p))%nat with O by (unfold zlen in *; lia). reflexivity.
    + rewrite skipn_length. unfold zlen in *. lia.
  - rewrite zlen_app, zlen_skipn, zlen_firstn. lia.
Qed.

(* ---------- extract: duplicates *)

Lemma region_eqb_eq : forall a b, region_eqb a b = true <-> a = b.
Proof.
  induction a as [h t|xs IH] using region_ind'; intros b; destruct b as [h' t'|ys]; cbn [region_eqb]; try (split; discriminate).
  - rewrite andb_true_iff, !Z.eqb_eq. split; [intros [-> ->]; reflexivity|intros E; inversion E; auto].
  - revert ys. induction IH as [|x xt Hx _ IHt]; intros ys; destruct ys as [|y yt]; try (split; [discriminate|intros E; inversion E]); [split; reflexivity|].
    rewrite andb_true_iff, Hx, (IHt yt). split; [intros [-> E]; inversion E; reflexivity|intros E; inversion E; subst; auto].
Qed.

Lemma existsb_region r acc : existsb (region_eqb r) acc = true <-> In r acc.
Proof.
  rewrite existsb_exists. split.
  - intros (x & Hx & E). apply region_eqb_eq in E. now subst.
  - intros H. exists r. split; [exact H|]. now apply region_eqb_eq.
Qed.

Lemma dedup_spec rr : forall acc, NoDup acc ->
  NoDup (dedup_regions rr acc) /\ (forall r, In r (dedup_regions rr acc) <-> In r acc \/ In r rr).
Proof.
  induction rr as [|x t IH]; intros acc Hacc; cbn [dedup_regions].
  - split; [apply NoDup_rev; exact Hacc|]. intros r. rewrite <- in_rev. cbn [In]. tauto.
  - destruct (existsb (region_eqb x) acc) eqn:E.
    + apply existsb_region in E. destruct (IH acc Hacc) as [N M]. split; [exact N|]. intros r. rewrite M. cbn [In].
      split; [tauto|]. intros [H|[<-|H]]; tauto.
    + assert (Hx : ~ In x acc) by (intros H; apply existsb_region in H; congruence).
      destruct (IH (x :: acc) ltac:(constructor; assumption)) as [N M]. split; [exact N|]. intros r. rewrite M. cbn [In]. tauto.
Qed.

(* every located region once *)
Theorem dedup_nodup rr : NoDup (dedup_regions rr []) /\ (forall r, In r (dedup_regions rr []) <-> In r rr).
Proof.
  destruct (dedup_spec rr [] ltac:(constructor)) as [N M]. split; [exact N|]. intros r. rewrite M. cbn [In]. tauto.
Qed.

(* nothing repeated: nothing dropped, order kept *)
Lemma dedup_keep rr : forall acc, NoDup (rev acc ++ rr) -> dedup_regions rr acc = rev acc ++ rr.
Proof.
  induction rr as [|x t IH]; intros acc H; cbn [dedup_regions]; [now rewrite app_nil_r|].
  assert (Hx : ~ In x acc).
  { apply NoDup_remove_2 in H. intros Hin. apply H. apply in_or_app. left. now apply -> in_rev. }
  destruct (existsb (region_eqb x) acc) eqn:E; [apply existsb_region in E; contradiction|].
  rewrite IH; cbn [rev]; rewrite <- app_assoc; [reflexivity|exact H].
Qed.

Theorem dedup_identity rr : NoDup rr -> dedup_regions rr [] = rr.
Proof. intros H. exact (dedup_keep rr [] H). Qed.

(* a repeated region is dropped where it repeats: the first occurrence stays *)
Theorem dedup_first_stays pre x post : ~ In x pre ->
  dedup_regions (pre ++ x :: post) [] = dedup_regions (pre ++ x :: filter (fun r => negb (region_eqb r x)) post) [].
Proof.
  intros _.
  assert (G : forall l acc, In x acc ->
            dedup_regions l acc = dedup_regions (filter (fun r => negb (region_eqb r x)) l) acc).
  { induction l as [|y t IH]; intros acc Hin; cbn [filter dedup_regions]; [reflexivity|].
    destruct (region_eqb y x) eqn:E; cbn [negb].
    - apply region_eqb_eq in E. subst y.
      replace (existsb (region_eqb x) acc) with true by (symmetry; now apply existsb_region). now apply IH.
    - cbn [dedup_regions]. destruct (existsb (region_eqb y) acc); [now apply IH|apply IH; right; exact Hin]. }
  assert (H : forall l acc, dedup_regions (l ++ x :: post) acc
                          = dedup_regions (l ++ x :: filter (fun r => negb (region_eqb r x)) post) acc).
  { induction l as [|y t IH]; intros acc; cbn [app dedup_regions].
    - destruct (existsb (region_eqb x) acc) eqn:E.
      + apply G. now apply existsb_region.
      + apply G. left. reflexivity.
    - destruct (existsb (region_eqb y) acc); apply IH. }
  apply H.
Qed.

(* the plan of gts rotate on a record without features *)
Theorem plan_rotate_origin (p : list byte) r rest : 0 <= region_head r < zlen p ->
  plan_rotate (bare p) (r :: rest) =
  Ok (bare (skipn (Z.to_nat (region_head r)) p ++ firstn (Z.to_nat (region_head r)) p)).
Proof.
  intros Hh. cbn [plan_rotate]. pose proof (rotate_to_origin p (region_head r) Hh) as R.
  unfold rotate_bytes in R. change (mkseq [] p) with (bare p) in R.
  destruct (seq_rotate (bare p) (- region_head r)) as [s| | |] eqn:E; try discriminate. cbn [obind] in R.
  inversion R as [Hres]. f_equal. destruct s as [ff q]. cbn [residues] in Hres. subst q. unfold bare. f_equal.
  unfold seq_rotate in E. cbn [residues feats bare insert_all obind] in E.
  destruct (zlen p =? 0); [inversion E; reflexivity|].
  destruct (slice p _ _); try discriminate. cbn [obind] in E. destruct (slice p _ _); try discriminate. cbn [obind] in E.
  inversion E; reflexivity.
Qed.

(* ---------- split of a circular record at two or more distinct positions *)

Lemma seq_rotate_bare (p : list byte) h : 0 <= h < zlen p ->
  seq_rotate (bare p) (- h) = Ok (bare (skipn (Z.to_nat h) p ++ firstn (Z.to_nat h) p)).
Proof.
  intros Hh. exact (plan_rotate_origin p (Seg h h) [] Hh).
Qed.

Lemma seq_slice_wrap_bare (p : list byte) a b : 0 <= b < a -> a < zlen p ->
  seq_slice (bare p) a b = Ok (bare (skipn (Z.to_nat a) p ++ firstn (Z.to_nat b) p)).
Proof.
  intros Hb Ha. unfold seq_slice. cbn [seq_slice_f]. change (residues (bare p)) with p.
  destruct (Z.ltb_spec a 0); [lia|]. destruct (Z.ltb_spec b 0); [lia|]. destruct (Z.ltb_spec b a); [|lia].
  rewrite seq_rotate_bare by lia. cbn [obind].
  set (q := skipn (Z.to_nat a) p ++ firstn (Z.to_nat a) p).
  assert (Hq : zlen q = zlen p) by (unfold q; rewrite zlen_app, zlen_skipn, zlen_firstn; lia).
  change (seq_slice_f 2 (bare q) 0 (zlen p - a + b)) with (seq_slice (bare q) 0 (zlen p - a + b)) at 1 || idtac.
  pose proof (seq_slice_bare q 0 (zlen p - a + b) ltac:(lia) ltac:(lia)) as S.
  unfold seq_slice in S. cbn [seq_slice_f] in S |- *. change (residues (bare q)) with q in *.
  rewrite Hq in *.
  destruct (Z.ltb_spec 0 0); [lia|]. destruct (Z.ltb_spec (zlen p - a + b) 0); [lia|].
  destruct (Z.ltb_spec (zlen p - a + b) 0); [lia|].
  cbn [seq_slice_f] in S.
  (* both are the non-wrapping branch on q *)
  revert S. cbn [feats bare filter map_locs obind map residues].
  destruct (Z.ltb_spec (zlen p - a + b - 0) 0); [lia|]. intros S.
  rewrite S. f_equal. f_equal. unfold lslice, q. cbn [Z.to_nat skipn]. rewrite Z.sub_0_r.
  rewrite firstn_app. rewrite skipn_length.
  replace (Z.to_nat (zlen p - a + b) - (length p - Z.to_nat a))%nat with (Z.to_nat b) by (unfold zlen in *; lia).
  rewrite firstn_all2 by (rewrite skipn_length; unfold zlen in *; lia).
  f_equal. rewrite firstn_firstn. f_equal. lia.
Qed.

Theorem circular_split_concat (p : list byte) h1 rest : 0 <= h1 -> ascending h1 rest ->
  h1 < last rest h1 -> last rest h1 < zlen p ->
  exists pieces, slice_pairs (bare p) (last rest h1 :: h1 :: rest) = Ok pieces /\
    flat_map residues pieces = skipn (Z.to_nat (last rest h1)) p ++ firstn (Z.to_nat (last rest h1)) p.
Proof.
  intros H0 Hasc Hlt HL. set (lst := last rest h1) in *.
  rewrite slice_pairs_cons2. rewrite seq_slice_wrap_bare by lia. cbn [obind].
  destruct (slice_pairs_concat p rest h1 H0 Hasc) as (pieces & E & F).
  { constructor; [lia|]. clear - Hasc HL. subst lst. revert h1 Hasc HL.
    induction rest as [|x t IH]; intros h1 Hasc HL; [constructor|]. destruct Hasc as [H1 H2].
    assert (Hx : last (x :: t) h1 = last t x).
    { destruct t as [|z t']; [reflexivity|]. change (last (z :: t') h1 = last (z :: t') x). apply last_nonempty. discriminate. }
    rewrite Hx in HL. constructor.
    - destruct t as [|y u]; [cbn [last] in HL; lia|]. pose proof (ascending_last x (y :: u) x H2 ltac:(discriminate)). lia.
    - apply (IH x H2 HL). }
  change (PlansProofs.bare p) with (bare p) in E. rewrite E. cbn [obind]. eexists. split; [reflexivity|]. cbn [flat_map residues bare]. rewrite F. fold lst.
  rewrite <- app_assoc. f_equal.
  rewrite <- (firstn_skipn (Z.to_nat h1) (firstn (Z.to_nat lst) p)).
  rewrite firstn_firstn, Nat.min_l by lia. f_equal.
  rewrite skipn_firstn_comm. f_equal. lia.
Qed.
