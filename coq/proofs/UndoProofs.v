(* UndoProofs.v — C10: delete undoes insert/embed on what every feature
   denotes (every location, joins included); C03: the two deletions of Slice. *)
From Coq Require Import List ZArith Lia Bool.
From GTS Require Import Base Arith Loc BaseLemmas LocProofs EditProofs JoinSafe JoinDen RotateProofs JoinLift.
Import ListNotations.
Open Scope Z_scope.

Lemma unbump_bump i n p : 0 < n -> unbump i n (bump i n p) = p.
Proof.
  intros Hn. unfold unbump, bump. destruct (Z.leb_spec i p).
  - destruct (Z.leb_spec (i + n) (p + n)); lia.
  - destruct (Z.leb_spec (i + n) p); lia.
Qed.

Lemma outside_bump i n p : 0 < n -> outside i n (bump i n p) = true.
Proof.
  intros Hn. unfold outside, bump. destruct (Z.leb_spec i p).
  - replace (i + n <=? p + n) with true by (symmetry; apply Z.leb_le; lia). apply orb_true_r.
  - replace (p <? i) with true by (symmetry; apply Z.ltb_lt; lia). reflexivity.
Qed.

Lemma emb_bump i n d : 0 < n -> emb_den i n (map (onpos (bump i n)) d) = map (onpos (bump i n)) d.
Proof.
  intros Hn. unfold emb_den. induction d as [|[p c] t IH]; [reflexivity|].
  cbn [map filter onpos fst snd]. rewrite outside_bump by lia. now rewrite IH.
Qed.

Lemma unbump_map_bump i n d : 0 < n -> map (onpos (unbump i n)) (map (onpos (bump i n)) d) = d.
Proof.
  intros Hn. rewrite map_map. rewrite <- (map_id d) at 2. apply map_ext. intros [p c].
  unfold onpos. cbn [fst snd]. now rewrite unbump_bump.
Qed.

Lemma del_bump i n d : 0 < n -> del_den i n (map (onpos (bump i n)) d) = d.
Proof.
  intros Hn. unfold del_den. fold (emb_den i n (map (onpos (bump i n)) d)).
  rewrite emb_bump by lia. now apply unbump_map_bump.
Qed.

Lemma del_den_deq i n a b : deq a b -> deq (del_den i n a) (del_den i n b).
Proof. intros H. unfold del_den. apply deq_map, deq_filter, H. Qed.

(* insert ; delete *)
Theorem undo_insert_den i n : 0 < n -> forall l l' l'',
  k1_after (fun x => shift x i n) l -> shift l i n = Ok l' ->
  k1_after (fun x => expand x i (- n)) l' -> expand l' i (- n) = Ok l'' ->
  deq (den l'') (den l).
Proof.
  intros Hn l l' l'' K1 E1 K2 E2.
  pose proof (shift_den_all i n ltac:(lia) l K1 l' E1) as D1.
  pose proof (expand_neg_den_all i n Hn l' K2 l'' E2) as D2.
  eapply deq_trans; [exact D2|]. rewrite <- (del_bump i n (den l)) by lia.
  apply del_den_deq, D1.
Qed.

(* embed ; delete *)
Theorem undo_embed_den i n : 0 < n -> forall l l' l'',
  k1_after (fun x => expand x i n) l -> expand l i n = Ok l' ->
  k1_after (fun x => expand x i (- n)) l' -> expand l' i (- n) = Ok l'' ->
  deq (den l'') (den l).
Proof.
  intros Hn l l' l'' K1 E1 K2 E2.
  pose proof (expand_pos_den_all i n Hn l K1 l' E1) as D1.
  pose proof (expand_neg_den_all i n Hn l' K2 l'' E2) as D2.
  eapply deq_trans; [exact D2|]. unfold del_den. fold (emb_den i n (den l')).
  rewrite <- (unbump_map_bump i n (den l)) by lia. apply deq_map, D1.
Qed.

(* ---------- Slice: Expand(end, end - L) then Expand(0, -start) *)

Lemma expand_contig_jfree i n l l' : contiguous l -> expand l i n = Ok l' -> jfree l' = true.
Proof.
  intros Hc E. destruct l as [p|p|s e a b|s e| | |]; try contradiction; cbn [expand] in E; inversion E; subst l'; clear E.
  - reflexivity.
  - unfold point_expand. repeat match goal with |- context [if ?b then _ else _] => destruct b end; reflexivity.
  - unfold ranged_expand. repeat match goal with |- context [if ?b then _ else _] => destruct b end; reflexivity.
  - unfold ambiguous_expand. repeat match goal with |- context [if ?b then _ else _] => destruct b end; reflexivity.
Qed.

Lemma jfree_ord xs : jfree (Ordered xs) = forallb jfree xs.
Proof. reflexivity. Qed.

Lemma expand_jfree i n : forall l, jfree l = true -> forall l', expand l i n = Ok l' -> jfree l' = true.
Proof.
  induction l as [p|p|s e a b|s e|ls IH|ls IH|x IH] using loc_ind'; intros Hj l' E.
  1-4: (eapply expand_contig_jfree; [|exact E]; exact I).
  - discriminate.
  - cbn [expand] in E. destruct (omapM (fun x => expand x i n) ls) as [ys| | |] eqn:Ey; try discriminate.
    cbn [obind] in E. apply (order_P jfree jfree_ord ys l'); [|exact E].
    apply omapM_inv in Ey. cbn [jfree] in Hj. apply forallb_Forall in Hj.
    apply Forall_forallb. clear E. induction Ey as [|x y t ys' Hxy _ IHt]; [constructor|].
    inversion IH; inversion Hj; subst. constructor; [|apply IHt; assumption].
    match goal with H : _ -> forall l', _ -> jfree l' = true |- _ => eapply H; eassumption end.
  - cbn [expand] in E. destruct (expand x i n) as [x'| | |] eqn:Ex; try discriminate. cbn [obind] in E.
    inversion E; subst. cbn [jfree] in *. exact (IH Hj _ eq_refl).
Qed.

Lemma del_den_zero i d : del_den i 0 d = d.
Proof.
  unfold del_den. induction d as [|[p c] t IH]; [reflexivity|].
  cbn [filter fst].
  assert (Ho : outside i 0 p = true).
  { unfold outside. destruct (Z.ltb_spec p i); [reflexivity|]. cbn [orb]. apply Z.leb_le. lia. }
  rewrite Ho. cbn [map]. rewrite IH. f_equal. unfold onpos, unbump. cbn [fst snd]. f_equal.
  destruct (i + 0 <=? p); lia.
Qed.

(* Expand(i, 0) changes nothing that is denoted *)
Lemma expand_zero_base i : forall l, contiguous l -> true = true ->
  exists l', expand l i 0 = Ok l' /\ den l' = den l /\ ord_ok l' = true.
Proof.
  intros l Hc _. destruct l as [p|p|s e a b|s e| | |]; try contradiction; cbn [expand].
  - eexists; split; [reflexivity|]. split; reflexivity.
  - eexists; split; [reflexivity|]. unfold point_expand. change (0 <? 0) with false. change (0 <=? 0) with true.
    cbn [andb orb]. rewrite go_Max_spec. destruct (Z.leb_spec i p); cbn [orb]; split; try reflexivity.
    replace (Z.max i (p + 0)) with p by lia. reflexivity.
  - eexists; split; [reflexivity|]. unfold ranged_expand. change (0 =? 0) with true. split; reflexivity.
  - eexists; split; [reflexivity|]. unfold ambiguous_expand. change (0 =? 0) with true. split; reflexivity.
Qed.

Lemma expand_nonpos_den i n : 0 <= n -> forall l, jfree l = true -> ord_ok l = true ->
  exists l', expand l i (- n) = Ok l' /\ den l' = del_den i n (den l) /\ ord_ok l' = true.
Proof.
  intros Hn l Hj Ho. destruct (Z.eq_dec n 0) as [->|Hn0].
  - change (- 0) with 0.
    destruct (lift_jfree (fun l => expand l i 0) (fun d' d => d' = d) (fun _ => true) false
                (fun _ => eq_refl) (fun _ => eq_refl) eq_refl
                (fun a' a b' b Ha Hb => f_equal2 (@app _) Ha Hb)
                (fun d' d H => f_equal (fun z => rev (map flipd z)) H)
                (expand_zero_base i) l Hj Ho (wf_all_true l)) as (l' & E & D & O).
    exists l'. rewrite del_den_zero. auto.
  - apply expand_neg_den_jfree; [lia|assumption..].
Qed.

Theorem slice_loc_den s e L : 0 <= s -> e <= L -> forall l, jfree l = true -> ord_ok l = true ->
  exists l1 l2, expand l e (e - L) = Ok l1 /\ expand l1 0 (- s) = Ok l2 /\
    den l2 = del_den 0 s (del_den e (L - e) (den l)) /\ jfree l2 = true /\ ord_ok l2 = true.
Proof.
  intros Hs He l Hj Ho.
  replace (e - L) with (- (L - e)) by lia.
  destruct (expand_nonpos_den e (L - e) ltac:(lia) l Hj Ho) as (l1 & E1 & D1 & O1).
  pose proof (expand_jfree e (- (L - e)) l Hj l1 E1) as J1.
  destruct (expand_nonpos_den 0 s Hs l1 J1 O1) as (l2 & E2 & D2 & O2).
  exists l1, l2. split; [exact E1|]. split; [exact E2|]. split; [now rewrite D2, D1|].
  split; [exact (expand_jfree 0 (- s) l1 J1 l2 E2)|exact O2].
Qed.

Lemma del_den_cons i n x t :
  del_den i n (x :: t) = (if outside i n (fst x) then [onpos (unbump i n) x] else []) ++ del_den i n t.
Proof. unfold del_den. cbn [filter]. destruct (outside i n (fst x)); reflexivity. Qed.

(* for positions inside the sequence the two deletions keep exactly the window
   [s,e), re-based to 0 *)
Lemma slice_window_den s e L d : 0 <= s <= e -> e <= L ->
  Forall (fun x => 0 <= fst x < L) d ->
  del_den 0 s (del_den e (L - e) d) =
  map (onpos (fun x => x - s)) (filter (fun x => (s <=? fst x) && (fst x <? e)) d).
Proof.
  intros Hse HeL Hd. induction Hd as [|[p c] t Hp _ IH]; [reflexivity|].
  cbn [fst] in Hp. rewrite del_den_cons. cbn [fst filter].
  unfold outside at 1. replace (e + (L - e)) with L by lia.
  replace (L <=? p) with false by (symmetry; apply Z.leb_gt; lia). rewrite orb_false_r.
  destruct (Z.ltb_spec p e).
  - cbn [app]. rewrite del_den_cons. unfold onpos at 1 2. cbn [fst snd].
    assert (Hu : unbump e (L - e) p = p).
    { unfold unbump. replace (e + (L - e) <=? p) with false by (symmetry; apply Z.leb_gt; lia). reflexivity. }
    rewrite Hu. unfold outside. replace (p <? 0) with false by (symmetry; apply Z.ltb_ge; lia).
    rewrite Z.add_0_l. cbn [orb]. rewrite andb_true_r.
    destruct (Z.leb_spec s p); cbn [app map]; rewrite IH; [|reflexivity].
    f_equal. unfold onpos, unbump. cbn [fst snd]. rewrite Z.add_0_l.
    replace (e + (L - e) <=? p) with false by (symmetry; apply Z.leb_gt; lia).
    replace (s <=? p) with true by (symmetry; apply Z.leb_le; lia). reflexivity.
  - cbn [app]. rewrite andb_false_r. exact IH.
Qed.
