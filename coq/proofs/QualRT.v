(* QualRT.v — C01: a quoted qualifier written by the table writer
   (name, equals sign, quoted value; continuation lines prefixed) is read back by
   QualifierParser as the same name and value. *)
From Coq Require Import List ZArith Lia Bool.
From GTS Require Import Base Arith Pars Loc LocParse Seq Insdc BaseLemmas ParsLemmas FastaProofs IntRT LocRT BodyRT StripProofs ParsSpec ModRT LocusRT KeylineRT.
Import ListNotations.
Open Scope Z_scope.

(* no double quote (K10) and no backslash (K13) *)
Definition plain (l : list byte) : Prop := Forall (fun c => c <> 34 /\ c <> 92) l.

Lemma between_scan_plain body : forall fuel R n, plain body -> (length body < fuel)%nat ->
  between_scan fuel 34 (body ++ 34 :: R) n = Some (n + zlen body).
Proof.
  induction body as [|c t IH]; intros fuel R n Hp Hf; (destruct fuel as [|f]; [cbn [length] in Hf; lia|]).
  - cbn [app between_scan]. rewrite Z.eqb_refl. change (zlen []) with 0. f_equal. lia.
  - inversion Hp as [|? ? [H34 H92] Ht]; subst. cbn [app between_scan].
    replace (c =? 34) with false by (symmetry; now apply Z.eqb_neq).
    replace (c =? 92) with false by (symmetry; now apply Z.eqb_neq).
    rewrite IH by (try assumption; cbn [length] in Hf; lia). f_equal. rewrite zlen_cons. lia.
Qed.

Lemma plain_app a b : plain a -> plain b -> plain (a ++ b).
Proof. intros; apply Forall_app; split; assumption. Qed.

Lemma plain_add_prefix v p : plain v -> plain p -> plain (add_prefix v p).
Proof.
  intros Hv Hp. unfold add_prefix. induction Hv as [|c t Hc _ IH]; [constructor|].
  cbn [flat_map]. apply plain_app; [|exact IH].
  destruct (c =? 10); [constructor; [split; discriminate|exact Hp]|constructor; [exact Hc|constructor]].
Qed.

(* pars.Quoted on a quoted plain body *)
Lemma pQuoted_okp body post : plain body -> okp (pQuoted 34) (34 :: body ++ [34]) post body.
Proof.
  intros Hp o e a fr k. unfold pQuoted, pBetween. run ltac:(apply push_eq).
  cbn [app]. rewrite <- app_assoc. cbn [app].
  set (F := (34 :: body ++ 34 :: post, o, a)).
  run ltac:(apply try_ok; apply next_cons). cbn [Z.eqb Pos.eqb negb].
  run ltac:(apply advance_ne; [lia|reflexivity]). cbn [skipn Z.to_nat Pos.to_nat Pos.iter_op Nat.add].
  unfold bind at 1. unfold get. cbn [rest off apos stk endr]. change (Pos.to_nat 1) with 1%nat. cbn [skipn].
  pose proof (between_scan_plain body (S (length (body ++ 34 :: post))) post 0 Hp ltac:(rewrite app_length; lia)) as HB.
  unfold byte in *. rewrite HB. clear HB.
  rewrite Z.add_0_l.
  unfold bind at 1. unfold put. cbn [rest off apos stk].
  set (n := zlen body).
  assert (Hsk : skipn (Z.to_nat n) (body ++ 34 :: post) = 34 :: post).
  { subst n. rewrite nat_zlen, skipn_app, skipn_all, Nat.sub_diag. reflexivity. }
  rewrite Hsk.
  (* Trail: everything since the Push, i.e. the opening quote and the body *)
  unfold bind at 1. unfold trail. cbn [stk]. unfold bind at 1. cbn [off]. subst F.
  rewrite (bind_ok _ _ _ _ _ (pop_ne _ _ _ _ _ _ _ _ _)).
  unfold bind at 1. cbn [off]. replace (o + 1 + n - o) with (1 + n) by lia.
  assert (HhL : has_n (34 :: body ++ 34 :: post) (Z.to_nat (1 + n)) = true).
  { subst n. replace (Z.to_nat (1 + zlen body)) with (length (34 :: body)) by (unfold zlen; cbn [length]; lia).
    change (34 :: body ++ 34 :: post) with ((34 :: body) ++ 34 :: post). apply has_n_app. }
  rewrite (bind_ok _ _ _ (Some tt, EOther) _ (try_ok _ _ _ _ (request_ok _ o _ a (fr :: k) (1 + n) HhL))).
  unfold bind at 1. unfold buffer. cbn [endr off rest]. replace (o + (1 + n) - o) with (1 + n) by lia.
  destruct (Z.ltb_spec (1 + n) 0); [subst n; pose proof (zlen_nonneg body); lia|].
  rewrite (bind_ok _ _ _ tt _ (advance_ne _ o a fr k (1 + n) ltac:(subst n; pose proof (zlen_nonneg body); lia) HhL)).
  assert (Hn : Z.to_nat (1 + n) = length (34 :: body)) by (subst n; unfold zlen; cbn [length]; lia).
  assert (Hf : firstn (Z.to_nat (1 + n)) (34 :: body ++ 34 :: post) = 34 :: body).
  { rewrite Hn. change (34 :: body ++ 34 :: post) with ((34 :: body) ++ 34 :: post). rewrite firstn_app, firstn_all, Nat.sub_diag. cbn [firstn]. now rewrite app_nil_r. }
  assert (Hk : skipn (Z.to_nat (1 + n)) (34 :: body ++ 34 :: post) = 34 :: post).
  { rewrite Hn. change (34 :: body ++ 34 :: post) with ((34 :: body) ++ 34 :: post). rewrite skipn_app, skipn_all, Nat.sub_diag. reflexivity. }
  unfold byte in *. rewrite Hf, Hk. unfold ret at 1. cbv beta iota.
  run ltac:(apply try_ok; apply skip1_ne). cbn [tl].
  replace (zlen (34 :: body ++ [34])) with (1 + n + 1) by (subst n; rewrite zlen_cons, zlen_app; change (zlen [34]) with 1; lia).
  replace (a + (1 + n) + 1) with (a + (1 + n + 1)) by lia. do 2 eexists. reflexivity.
Qed.

(* ---------- the quoted value after the name *)
Definition eol_post (eol post : list byte) : Prop := eol = [10] \/ (eol = [] /\ post = []).

Lemma try_pEOL eol post o e a (fr : frame) k : eol_post eol post ->
  exists o' e', try pEOL (mkst (eol ++ post) o e a (fr :: k)) =
                (Ok (Some eol, EOther), mkst post o' e' (a + zlen eol) (fr :: k)).
Proof.
  intros [->|[-> ->]].
  - cbn [app]. do 2 eexists. apply try_ok. rewrite pEOL_lf. reflexivity.
  - cbn [app]. do 2 eexists. apply try_ok. unfold pEOL. erewrite bind_ok; [|apply try_err, next_nil].
    change (zlen []) with 0. rewrite Z.add_0_r. reflexivity.
Qed.

Lemma quoted_value_reads prefix v eol post :
  prefix <> [] -> no10 prefix -> plain prefix -> plain v -> no_occ (10 :: prefix) v -> eol_post eol post ->
  okp (quoted_qualifier_parser prefix) ([61] ++ (34 :: add_prefix v prefix ++ [34]) ++ eol) post v.
Proof.
  intros Hne H10 Hpp Hpv Hocc Heol o e a fr k. unfold quoted_qualifier_parser. run ltac:(apply push_eq).
  cbn [app]. rewrite <- !app_assoc. cbn [app].
  match goal with |- context [(?r, o, a) :: fr :: k] => set (F := (r, o, a)) end.
  run ltac:(apply try_ok; apply next_cons). cbn [Z.eqb Pos.eqb negb].
  run ltac:(apply advance_ne; [lia|reflexivity]). cbn [skipn Z.to_nat Pos.to_nat Pos.iter_op Nat.add].
  destruct (pQuoted_okp (add_prefix v prefix) (eol ++ post) (plain_add_prefix v prefix Hpv Hpp)
              (o + 1) None (a + 1) F (fr :: k)) as (o1 & e1 & E1).
  cbn [app] in E1. rewrite <- app_assoc in E1. cbn [app] in E1.
  run ltac:(apply try_ok; exact E1). run ltac:(apply drop_ne).
  destruct (try_pEOL eol post o1 e1 (a + 1 + zlen (34 :: add_prefix v prefix ++ [34])) fr k Heol) as (o2 & e2 & E2).
  run ltac:(exact E2).
  destruct prefix as [|p0 pt]; [contradiction|].
  rewrite (qualifier_value_roundtrip (p0 :: pt) v Hne H10 Hocc).
  exists o2, e2. unfold ret. f_equal. f_equal.
  unfold zlen. cbn [app length]. rewrite ?app_length. cbn [length]. rewrite ?app_length. cbn [length]. unfold byte in *. lia.
Qed.

(* ---------- the name *)
Definition snake (name : list byte) : Prop := name <> [] /\ Forall (fun c => is_snake c = true) name.

Lemma qualifier_name_reads prefix name post : snake name ->
  match post with c :: _ => is_snake c = false | [] => True end ->
  okp (qualifier_name_parser prefix) ((prefix ++ [47]) ++ name) post name.
Proof.
  intros [Hne Hs] Hp o e a fr k. unfold qualifier_name_parser.
  set (p := prefix ++ [47]). rewrite <- app_assoc.
  assert (Hh : has_n (p ++ name ++ post) (Z.to_nat (zlen p)) = true) by (rewrite nat_zlen; apply has_n_app).
  rewrite (bind_ok _ _ _ tt _ (request_ok _ o e a (fr :: k) (zlen p) Hh)).
  unfold bind at 1. unfold buffer. cbn [endr off rest].
  replace (o + zlen p - o) with (zlen p) by lia.
  replace (zlen p <? 0) with false by (symmetry; apply Z.ltb_ge; apply zlen_nonneg).
  rewrite nat_zlen, firstn_app, firstn_all, Nat.sub_diag. cbn [firstn]. rewrite app_nil_r, bytes_eqb_refl. cbn [negb].
  rewrite (bind_ok _ _ _ tt _ (advance_ne _ o a fr k (zlen p) (zlen_nonneg _) Hh)).
  rewrite nat_zlen, skipn_app, skipn_all, Nat.sub_diag. cbn [skipn app].
  destruct (pWord_okp is_snake name post Hne Hs Hp (o + zlen p) None (a + zlen p) fr k) as (o1 & e1 & E1).
  rewrite E1. rewrite zlen_app, Z.add_assoc. do 2 eexists. reflexivity.
Qed.

(* ---------- what the writer puts on the line(s) of a quoted qualifier *)
Lemma add_prefix_app a b p : add_prefix (a ++ b) p = add_prefix a p ++ add_prefix b p.
Proof. unfold add_prefix. apply flat_map_app. Qed.

Lemma add_prefix_no10 l p : no10 l -> add_prefix l p = l.
Proof.
  intros H. unfold add_prefix. induction H as [|c t Hc _ IH]; [reflexivity|].
  cbn [flat_map]. replace (c =? 10) with false by (symmetry; now apply Z.eqb_neq). cbn [app]. now rewrite IH.
Qed.

Lemma snake_no10 name : Forall (fun c => is_snake c = true) name -> no10 name.
Proof.
  intros H. eapply Forall_impl; [|exact H]. intros c Hc ->. discriminate.
Qed.

Definition quoted_type (r : registry) (name : list byte) : Prop :=
  qualifier_type r name = 0 \/ qualifier_type r name = 3.

Lemma quoted_line r name v p : quoted_type r name -> Forall (fun c => is_snake c = true) name ->
  add_prefix (qualifier_show r name v) p = [47] ++ name ++ [61] ++ (34 :: add_prefix v p ++ [34]).
Proof.
  intros Ht Hs. unfold qualifier_show.
  destruct Ht as [-> | ->]; cbn [Z.eqb Pos.eqb];
    rewrite !add_prefix_app, (add_prefix_no10 name p (snake_no10 name Hs)); reflexivity.
Qed.

(* ---------- QualifierParser on a written quoted qualifier *)
Theorem quoted_qualifier_roundtrip r reg prefix name v eol post :
  snake name -> quoted_type r name -> quoted_type reg name ->
  prefix <> [] -> no10 prefix -> plain prefix -> plain v -> no_occ (10 :: prefix) v -> eol_post eol post ->
  okp (qualifier_parser prefix reg) ((prefix ++ add_prefix (qualifier_show r name v) prefix) ++ eol) post
      ((name, v), if qualifier_type reg name =? 3 then register reg 0 name else reg).
Proof.
  intros Hsn Htr Htreg Hne H10 Hpp Hpv Hocc Heol o e a fr k.
  rewrite (quoted_line r name v prefix Htr (proj2 Hsn)).
  unfold qualifier_parser.
  replace ((prefix ++ [47] ++ name ++ [61] ++ 34 :: add_prefix v prefix ++ [34]) ++ eol)
    with (((prefix ++ [47]) ++ name) ++ ([61] ++ (34 :: add_prefix v prefix ++ [34]) ++ eol))
    by (rewrite <- !app_assoc; reflexivity).
  destruct (qualifier_name_reads prefix name (([61] ++ (34 :: add_prefix v prefix ++ [34]) ++ eol) ++ post) Hsn eq_refl o e a fr k)
    as (o1 & e1 & E1).
  rewrite <- app_assoc. run ltac:(exact E1).
  destruct (quoted_value_reads prefix v eol post Hne H10 Hpp Hpv Hocc Heol o1 e1 (a + zlen ((prefix ++ [47]) ++ name)) fr k)
    as (o2 & e2 & E2).
  destruct Htreg as [Ht|Ht]; rewrite Ht; cbn [Z.eqb Pos.eqb].
  - run ltac:(exact E2). exists o2, e2. unfold ret. f_equal. f_equal. rewrite !zlen_app. unfold byte in *. lia.
  - run ltac:(apply try_ok; exact E2). exists o2, e2. unfold ret. f_equal. f_equal. rewrite !zlen_app. unfold byte in *. lia.
Qed.

(* ---------- a literal qualifier:  name, equals sign, the value to the end of the line *)
Lemma pLine_eof_okp line : no_eol line -> okp pLine line [] line.
Proof.
  intros H o e a fr k. unfold pLine. rewrite app_nil_r.
  unfold bind at 1. unfold get. cbn [rest].
  rewrite (calc_line_eof line 0 0 H). cbn [Z.add].
  assert (Hh : has_n line (Z.to_nat (zlen line)) = true) by (rewrite nat_zlen; apply has_n_le; lia).
  rewrite (bind_ok _ _ _ (Some tt, EOther) (mkst line o (Some (o + zlen line)) a (fr :: k)))
    by (apply try_ok, request_ok, Hh).
  unfold bind at 1. unfold buffer. cbn [endr off rest].
  replace (o + zlen line - o) with (zlen line) by lia.
  replace (zlen line <? 0) with false by (symmetry; apply Z.ltb_ge; apply zlen_nonneg).
  rewrite nat_zlen, firstn_all.
  rewrite (bind_ok _ _ _ tt _ (advance_ne _ o a fr k (zlen line) (zlen_nonneg _) Hh)).
  rewrite nat_zlen, skipn_all.
  assert (Hs : try (skip 0) (mkst [] (o + zlen line) None (a + zlen line) (fr :: k)) =
               (Ok (Some tt, EOther), mkst [] (o + zlen line + 0) None (a + zlen line + 0) (fr :: k))).
  { apply try_ok. unfold skip. erewrite bind_ok; [|apply request_ok; reflexivity].
    apply (advance_ne [] (o + zlen line) (a + zlen line) fr k 0); [lia|reflexivity]. }
  rewrite (bind_ok _ _ _ _ _ Hs). rewrite !Z.add_0_r. do 2 eexists. reflexivity.
Qed.

Definition nextq (prefix R : list byte) : Prop :=
  is_prefix (prefix ++ [47]) R = true \/ is_prefix prefix R = false.

Lemma is_prefix_app_true (p t : list byte) : is_prefix p (p ++ t) = true.
Proof. induction p as [|c p IH]; [reflexivity|]. cbn [app is_prefix]. now rewrite Z.eqb_refl, IH. Qed.

Lemma is_prefix_split (p q R : list byte) : is_prefix (p ++ q) R = true -> exists R', R = p ++ R' /\ is_prefix q R' = true.
Proof.
  revert R. induction p as [|c p IH]; intros R H; [exists R; auto|].
  destruct R as [|d R]; [discriminate|]. cbn [app is_prefix] in H. apply andb_true_iff in H as [H1 H2].
  apply Z.eqb_eq in H1. subst d. destruct (IH R H2) as (R' & -> & H'). exists R'. auto.
Qed.

(* the loop of literalQualifierValueParser stops at once after a one-line value *)
Lemma literal_lines_stop prefix p R fuel o e a (F fr : frame) k : nextq prefix R ->
  exists o' e', literal_lines (S fuel) prefix p (mkst R o e a ((R, o, a) :: F :: fr :: k)) =
                (Ok p, mkst R o' e' a (F :: fr :: k)).
Proof.
  intros [Hq|Hn]; cbn [literal_lines].
  - destruct (is_prefix_split prefix [47] R Hq) as (R' & -> & H47).
    destruct R' as [|c R'']; [discriminate|]. cbn [is_prefix] in H47. apply andb_true_iff in H47 as [Hc _].
    apply Z.eqb_eq in Hc. subst c.
    destruct (pBytes_ok prefix (47 :: R'') o e a ((prefix ++ 47 :: R'', o, a) :: F :: fr :: k)) as (o1 & e1 & E1).
    run ltac:(apply try_ok; exact E1). run ltac:(apply try_ok; apply next_cons). cbn [Z.eqb Pos.eqb].
    run ltac:(apply pop_ne). do 2 eexists. reflexivity.
  - destruct (pBytes_fail prefix R o e a ((R, o, a) :: F :: fr :: k) Hn) as (kk & e1 & E1).
    run ltac:(apply try_err; exact E1). run ltac:(apply drop_ne). do 2 eexists. reflexivity.
Qed.

Definition lit_type (r : registry) (name : list byte) : Prop := qualifier_type r name = 1.

Lemma literal_line r name v p : lit_type r name -> Forall (fun c => is_snake c = true) name -> no_eol v ->
  add_prefix (qualifier_show r name v) p = [47] ++ name ++ [61] ++ v.
Proof.
  intros Ht Hs Hv. unfold qualifier_show. rewrite Ht. cbn [Z.eqb Pos.eqb].
  rewrite !add_prefix_app, (add_prefix_no10 name p (snake_no10 name Hs)).
  rewrite (add_prefix_no10 v p) by (eapply Forall_impl; [|exact Hv]; intros c [H _]; exact H). reflexivity.
Qed.

Lemma literal_value_reads prefix v eol R : no_eol v -> eol_post eol R -> nextq prefix R ->
  okp (literal_qualifier_parser prefix) (([61] ++ v) ++ eol) R v.
Proof.
  intros Hv Heol Hnext o e a fr k. unfold literal_qualifier_parser. run ltac:(apply push_eq).
  rewrite <- !app_assoc. cbn [app].
  match goal with |- context [(?rr, o, a) :: fr :: k] => set (F := (rr, o, a)) end.
  run ltac:(apply try_ok; apply next_cons). cbn [Z.eqb Pos.eqb negb].
  run ltac:(apply advance_ne; [lia|reflexivity]). cbn [skipn Z.to_nat Pos.to_nat Pos.iter_op Nat.add].
  change (Pos.to_nat 1) with 1%nat. cbn [skipn]. fold F.
  assert (ELV : exists o2 e2, literal_value_parser prefix (mkst (v ++ eol ++ R) (o + 1) None (a + 1) (F :: fr :: k)) =
                              (Ok v, mkst R o2 e2 (a + 1 + zlen (v ++ eol)) (F :: fr :: k))).
  { unfold literal_value_parser.
    assert (EL : exists o1 e1, pLine (mkst (v ++ eol ++ R) (o + 1) None (a + 1) (F :: fr :: k)) =
                               (Ok v, mkst R o1 e1 (a + 1 + zlen (v ++ eol)) (F :: fr :: k))).
    { destruct Heol as [->|[-> ->]].
      - destruct (pLine_okp v R Hv (o + 1) None (a + 1) F (fr :: k)) as (o1 & e1 & E1).
        rewrite <- app_assoc in E1. do 2 eexists. exact E1.
      - destruct (pLine_eof_okp v Hv (o + 1) None (a + 1) F (fr :: k)) as (o1 & e1 & E1).
        rewrite !app_nil_r in *. do 2 eexists. exact E1. }
    destruct EL as (o1 & e1 & EL). run ltac:(exact EL). run ltac:(apply push_eq).
    unfold bind at 1. unfold get. cbn [rest].
    destruct (literal_lines_stop prefix v R (length R) o1 e1 (a + 1 + zlen (v ++ eol)) F fr k Hnext) as (o2 & e2 & E2).
    exists o2, e2. eapply eq_trans; [exact E2|]. reflexivity. }
  destruct ELV as (o2 & e2 & ELV). run ltac:(exact ELV). run ltac:(apply drop_ne).
  exists o2, e2. unfold ret. f_equal. f_equal. unfold zlen. cbn [app length]. rewrite ?app_length. cbn [length]. unfold byte in *. lia.
Qed.

(* ---------- QualifierParser on a written literal qualifier *)
Theorem literal_qualifier_roundtrip r reg prefix name v eol R :
  snake name -> lit_type r name -> lit_type reg name -> no_eol v -> eol_post eol R -> nextq prefix R ->
  okp (qualifier_parser prefix reg) ((prefix ++ add_prefix (qualifier_show r name v) prefix) ++ eol) R ((name, v), reg).
Proof.
  intros Hsn Htr Htreg Hv Heol Hnext o e a fr k.
  rewrite (literal_line r name v prefix Htr (proj2 Hsn) Hv).
  unfold qualifier_parser.
  replace ((prefix ++ [47] ++ name ++ [61] ++ v) ++ eol)
    with (((prefix ++ [47]) ++ name) ++ (([61] ++ v) ++ eol)) by (rewrite <- !app_assoc; reflexivity).
  destruct (qualifier_name_reads prefix name ((([61] ++ v) ++ eol) ++ R) Hsn eq_refl o e a fr k) as (o1 & e1 & E1).
  rewrite <- app_assoc. run ltac:(exact E1).
  destruct (literal_value_reads prefix v eol R Hv Heol Hnext o1 e1 (a + zlen ((prefix ++ [47]) ++ name)) fr k) as (o2 & e2 & E2).
  unfold lit_type in Htreg. rewrite Htreg. cbn [Z.eqb Pos.eqb].
  run ltac:(exact E2). exists o2, e2. unfold ret. f_equal. f_equal. rewrite !zlen_app. unfold byte in *. lia.
Qed.

(* ---------- pars.Many(QualifierParser): all qualifiers of a feature *)
Definition reg_step (reg : registry) (name : list byte) : registry :=
  if qualifier_type reg name =? 3 then register reg 0 name else reg.
Definition regs_after (reg : registry) (qs : list (list byte * list byte)) : registry :=
  fold_left (fun r q => reg_step r (fst q)) qs reg.

Lemma mem_cons n m l : mem n (m :: l) = bytes_eqb n m || mem n l.
Proof. reflexivity. Qed.

Lemma quoted_type_step reg m n : quoted_type reg n -> quoted_type (reg_step reg m) n.
Proof.
  unfold reg_step. destruct (qualifier_type reg m =? 3); [|trivial].
  unfold quoted_type, qualifier_type, register. cbn [Z.eqb rq rl rt]. rewrite mem_cons.
  destruct (bytes_eqb n m); cbn [orb]; [left; reflexivity|trivial].
Qed.

Lemma bytes_eqb_true a b : bytes_eqb a b = true -> a = b.
Proof.
  unfold bytes_eqb. revert b. induction a as [|x a IH]; destruct b as [|y b]; cbn [list_eqb]; try discriminate; [reflexivity|].
  intros H. apply andb_true_iff in H as [H1 H2]. apply Z.eqb_eq in H1. subst. f_equal. now apply IH.
Qed.

Lemma lit_type_step reg m n : lit_type reg n -> lit_type (reg_step reg m) n.
Proof.
  unfold reg_step. destruct (qualifier_type reg m =? 3) eqn:E3; [|trivial].
  apply Z.eqb_eq in E3. intros Hn. unfold lit_type in *.
  unfold qualifier_type, register in *. cbn [Z.eqb rq rl rt]. rewrite mem_cons.
  destruct (bytes_eqb n m) eqn:Enm.
  - apply bytes_eqb_true in Enm. subst m. rewrite Hn in E3. discriminate.
  - cbn [orb]. exact Hn.
Qed.

(* one written qualifier *)
Definition qline (r : registry) (prefix : list byte) (q : list byte * list byte) : list byte :=
  prefix ++ add_prefix (qualifier_show r (fst q) (snd q)) prefix.

(* written quoted (values without double quote or backslash, K10/K13) or literal
   (a one-line value) *)
Definition qok (r : registry) (prefix : list byte) (q : list byte * list byte) : Prop :=
  snake (fst q) /\
  ((quoted_type r (fst q) /\ plain (snd q) /\ no_occ (10 :: prefix) (snd q)) \/
   (lit_type r (fst q) /\ no_eol (snd q))).

(* the reader's registry gives the name the reading the writer's gave it *)
Definition reg_ok (r reg : registry) (name : list byte) : Prop :=
  (quoted_type r name -> quoted_type reg name) /\ (lit_type r name -> lit_type reg name).

Lemma reg_ok_step r reg m n : reg_ok r reg n -> reg_ok r (reg_step reg m) n.
Proof. intros [H1 H2]. split; intros H; [apply quoted_type_step, H1, H|apply lit_type_step, H2, H]. Qed.

Lemma quoted_not_lit r n : quoted_type r n -> lit_type r n -> False.
Proof. unfold quoted_type, lit_type. intros [H|H] H1; rewrite H in H1; discriminate. Qed.

Lemma lit_step_same reg n : lit_type reg n -> reg_step reg n = reg.
Proof. unfold lit_type, reg_step. intros ->. reflexivity. Qed.

(* the text of the qualifiers as the reader meets it: every qualifier ends its
   line, except that the very last one may end the input *)
Fixpoint qtext (r : registry) (prefix : list byte) (qs : list (list byte * list byte)) (last_eol : list byte) : list byte :=
  match qs with
  | [] => []
  | [q] => qline r prefix q ++ last_eol
  | q :: t => qline r prefix q ++ [10] ++ qtext r prefix t last_eol
  end.

Lemma qline_nonempty r prefix q : prefix <> [] -> 0 < zlen (qline r prefix q).
Proof.
  intros H. unfold qline. rewrite zlen_app. destruct prefix as [|p0 pt]; [contradiction|]. rewrite zlen_cons.
  pose proof (zlen_nonneg pt). pose proof (zlen_nonneg (add_prefix (qualifier_show r (fst q) (snd q)) (p0 :: pt))). lia.
Qed.

Lemma qline_starts r prefix q : exists t, qline r prefix q = (prefix ++ [47]) ++ t.
Proof.
  unfold qline, qualifier_show.
  destruct (qualifier_type r (fst q) =? 1); [|destruct (qualifier_type r (fst q) =? 2)];
    rewrite add_prefix_app; change (add_prefix [47] prefix) with [47]; eexists; rewrite <- app_assoc; reflexivity.
Qed.

Lemma qtext_next r prefix q t last post : nextq prefix (qtext r prefix (q :: t) last ++ post).
Proof.
  left. destruct (qline_starts r prefix q) as (x & E).
  destruct t as [|q2 t'].
  - cbn [qtext]. rewrite E. repeat rewrite <- (app_assoc (prefix ++ [47])). apply is_prefix_app_true.
  - change (qtext r prefix (q :: q2 :: t') last) with (qline r prefix q ++ [10] ++ qtext r prefix (q2 :: t') last).
    rewrite E. repeat rewrite <- (app_assoc (prefix ++ [47])). apply is_prefix_app_true.
Qed.

Lemma is_prefix_app_false (p q R : list byte) : is_prefix p R = false -> is_prefix (p ++ q) R = false.
Proof.
  revert R. induction p as [|c p IH]; intros R H; [discriminate|].
  destruct R as [|d R]; [reflexivity|]. cbn [app is_prefix] in *.
  destruct (c =? d); [cbn [andb] in *; now apply IH|reflexivity].
Qed.

Lemma qualifier_step r reg prefix q : prefix <> [] -> no10 prefix -> plain prefix ->
  qok r prefix q -> reg_ok r reg (fst q) ->
  forall eol R, eol_post eol R -> nextq prefix R ->
  okp (qualifier_parser prefix reg) (qline r prefix q ++ eol) R ((fst q, snd q), reg_step reg (fst q)).
Proof.
  intros Hne H10 Hpp [Hsn [(Htr & Hpv & Hocc)|(Htr & Hv)]] [Hq Hl] eol R Heol Hnext.
  - exact (quoted_qualifier_roundtrip r reg prefix (fst q) (snd q) eol R Hsn Htr (Hq Htr) Hne H10 Hpp Hpv Hocc Heol).
  - rewrite (lit_step_same reg (fst q) (Hl Htr)).
    exact (literal_qualifier_roundtrip r reg prefix (fst q) (snd q) eol R Hsn Htr (Hl Htr) Hv Heol Hnext).
Qed.

Lemma qualifier_stops prefix reg r0 : is_prefix (prefix ++ [47]) r0 = false -> failp (qualifier_parser prefix reg) r0.
Proof.
  intros H o e a fr k. unfold qualifier_parser. apply failp_bind. clear o e a fr k.
  intros o e a fr k. unfold qualifier_name_parser. cbv zeta. unfold byte in *.
  remember (prefix ++ [47]) as p eqn:Ep.
  destruct (has_n r0 (Z.to_nat (zlen p))) eqn:Hh.
  - rewrite (bind_ok _ _ _ tt _ (request_ok _ o e a (fr :: k) (zlen p) Hh)).
    unfold bind at 1. unfold buffer. cbn [endr off rest].
    replace (o + zlen p - o) with (zlen p) by lia.
    replace (zlen p <? 0) with false by (symmetry; apply Z.ltb_ge; apply zlen_nonneg).
    assert (Hb : bytes_eqb (firstn (Z.to_nat (zlen p)) r0) p = false).
    { rewrite nat_zlen in *. unfold bytes_eqb. clear - H. revert r0 H. induction p as [|x t IH]; intros r0 H; [discriminate|].
      destruct r0 as [|y u]; [reflexivity|]. cbn [length firstn list_eqb is_prefix] in *.
      rewrite (Z.eqb_sym y x). destruct (x =? y); [cbn [andb] in *; apply IH; exact H|reflexivity]. }
    unfold byte in *. rewrite Hb. cbn [negb]. do 2 eexists. reflexivity.
  - erewrite bind_err; [|apply request_fail; exact Hh]. do 2 eexists. reflexivity.
Qed.

Lemma qualifiers_loop_reads r prefix : prefix <> [] -> no10 prefix -> plain prefix ->
  forall qs last_eol post, Forall (qok r prefix) qs -> eol_post last_eol post ->
  is_prefix prefix post = false ->
  forall fuel reg start acc o e a (fr : frame) k,
  (forall q, In q qs -> reg_ok r reg (fst q)) ->
  (length qs < fuel)%nat -> (qs <> [] -> start <= a) -> (acc <> [] -> start < a) ->
  exists o' e' a',
    qualifiers_loop fuel prefix reg start acc (mkst (qtext r prefix qs last_eol ++ post) o e a (fr :: k)) =
    (Ok (rev acc ++ qs, regs_after reg qs), mkst post o' e' a' (fr :: k)).
Proof.
  intros Hne H10 Hpp. induction qs as [|q t IH]; intros last_eol post Hok Heol Hstop fuel reg start acc o e a fr k Hreg Hfuel Hs1 Hs2;
    (destruct fuel as [|f]; [cbn [length] in Hfuel; lia|]); cbn [qualifiers_loop].
  - cbn [qtext app]. destruct (qualifier_stops prefix reg post (is_prefix_app_false prefix [47] post Hstop) o e a fr k) as (kk & e' & E).
    run ltac:(apply try_err; exact E). rewrite app_nil_r. do 3 eexists. reflexivity.
  - inversion Hok as [|? ? Hq Hok']; subst.
    pose proof (qualifier_step r reg prefix q Hne H10 Hpp Hq (Hreg q (or_introl eq_refl))) as Hstep.
    pose proof (qline_nonempty r prefix q Hne) as Hpos.
    destruct t as [|q2 t'].
    + (* the last qualifier *)
      cbn [qtext]. destruct (Hstep last_eol post Heol (or_intror Hstop) o e a fr k) as (o1 & e1 & E1).
      run ltac:(apply try_ok; exact E1). unfold bind at 1. unfold position. cbn [apos].
      replace (a + zlen (qline r prefix q ++ last_eol) =? start) with false
        by (symmetry; apply Z.eqb_neq; rewrite zlen_app; pose proof (zlen_nonneg last_eol); specialize (Hs1 ltac:(discriminate)); lia).
      destruct (IH last_eol post Hok' Heol Hstop f (reg_step reg (fst q)) start (q :: acc) o1 e1
                  (a + zlen (qline r prefix q ++ last_eol)) fr k) as (o2 & e2 & a2 & E2).
      * intros q0 [].
      * cbn [length] in *. lia.
      * intros C; contradiction.
      * intros _. rewrite zlen_app. pose proof (zlen_nonneg last_eol). specialize (Hs1 ltac:(discriminate)). lia.
      * cbn [qtext app] in E2. destruct q as [qn qv]. cbn [fst snd] in *. rewrite E2.
        cbn [rev]. rewrite <- app_assoc. cbn [app regs_after fold_left fst]. do 3 eexists. reflexivity.
    + (* more follow *)
      change (qtext r prefix (q :: q2 :: t') last_eol) with (qline r prefix q ++ [10] ++ qtext r prefix (q2 :: t') last_eol).
      replace ((qline r prefix q ++ [10] ++ qtext r prefix (q2 :: t') last_eol) ++ post)
        with ((qline r prefix q ++ [10]) ++ (qtext r prefix (q2 :: t') last_eol ++ post)) by (rewrite <- !app_assoc; reflexivity).
      destruct (Hstep [10] (qtext r prefix (q2 :: t') last_eol ++ post) (or_introl eq_refl)
                  (qtext_next r prefix q2 t' last_eol post) o e a fr k) as (o1 & e1 & E1).
      run ltac:(apply try_ok; exact E1). unfold bind at 1. unfold position. cbn [apos].
      replace (a + zlen (qline r prefix q ++ [10]) =? start) with false
        by (symmetry; apply Z.eqb_neq; rewrite zlen_app; change (zlen [10]) with 1; specialize (Hs1 ltac:(discriminate)); lia).
      destruct (IH last_eol post Hok' Heol Hstop f (reg_step reg (fst q)) start (q :: acc) o1 e1
                  (a + zlen (qline r prefix q ++ [10])) fr k) as (o2 & e2 & a2 & E2).
      * intros q0 Hin. apply reg_ok_step. apply Hreg. now right.
      * cbn [length] in *. lia.
      * intros _. rewrite zlen_app. change (zlen [10]) with 1. specialize (Hs1 ltac:(discriminate)). lia.
      * intros _. rewrite zlen_app. change (zlen [10]) with 1. specialize (Hs1 ltac:(discriminate)). lia.
      * destruct q as [qn qv]. cbn [fst snd] in *. rewrite E2.
        cbn [rev]. rewrite <- app_assoc. cbn [app]. do 3 eexists. reflexivity.
Qed.
