(* QualRT.v — C01: a quoted qualifier written by the table writer
   (name, equals sign, quoted value; continuation lines prefixed) is read back by
   QualifierParser as the same name and value. *)
From Coq Require Import List ZArith Lia Bool.
From GTS Require Import Base Arith Pars Loc LocParse Seq Insdc BaseLemmas ParsLemmas FastaProofs IntRT LocRT BodyRT StripProofs ParsSpec ModRT LocusRT KeylineRT.
Import ListNotations.
Open Scope Z_scope.

(* no double quote (K10) and no backslash (K13) *)
Definition plain (l : list byte) : Prop := Forall (fun c => c <> 34 /\ c <> 92) l.

Lemma between_scan_plain body : forall fuel R n, plain body -> (length body < fuel)%nat ->
  between_scan fuel 34 (body ++ 34 :: R) n = Some (n + zlen body).
Proof.
  induction body as [|c t IH]; intros fuel R n Hp Hf; (destruct fuel as [|f]; [cbn [length] in Hf; lia|]).
  - cbn [app between_scan]. rewrite Z.eqb_refl. change (zlen []) with 0. f_equal. lia.
  - inversion Hp as [|? ? [H34 H92] Ht]; subst. cbn [app between_scan].
    replace (c =? 34) with false by (symmetry; now apply Z.eqb_neq).
    replace (c =? 92) with false by (symmetry; now apply Z.eqb_neq).
    rewrite IH by (try assumption; cbn [length] in Hf; lia). f_equal. rewrite zlen_cons. lia.
Qed.

Lemma plain_app a b : plain a -> plain b -> plain (a ++ b).
Proof. intros; apply Forall_app; split; assumption. Qed.

Lemma plain_add_prefix v p : plain v -> plain p -> plain (add_prefix v p).
Proof.
  intros Hv Hp. unfold add_prefix. induction Hv as [|c t Hc _ IH]; [constructor|].
  cbn [flat_map]. apply plain_app; [|exact IH].
  destruct (c =? 10); [constructor; [split; discriminate|exact Hp]|constructor; [exact Hc|constructor]].
Qed.

(* pars.Quoted on a quoted plain body *)
Lemma pQuoted_okp body post : plain body -> okp (pQuoted 34) (34 :: body ++ [34]) post body.
Proof.
  intros Hp o e a fr k. unfold pQuoted, pBetween. run ltac:(apply push_eq).
  cbn [app]. rewrite <- app_assoc. cbn [app].
  set (F := (34 :: body ++ 34 :: post, o, a)).
  run ltac:(apply try_ok; apply next_cons). cbn [Z.eqb Pos.eqb negb].
  run ltac:(apply advance_ne; [lia|reflexivity]). cbn [skipn Z.to_nat Pos.to_nat Pos.iter_op Nat.add].
  unfold bind at 1. unfold get. cbn [rest off apos stk endr]. change (Pos.to_nat 1) with 1%nat. cbn [skipn].
  pose proof (between_scan_plain body (S (length (body ++ 34 :: post))) post 0 Hp ltac:(rewrite app_length; lia)) as HB.
  unfold byte in *. rewrite HB. clear HB.
  rewrite Z.add_0_l.
  unfold bind at 1. unfold put. cbn [rest off apos stk].
  set (n := zlen body).
  assert (Hsk : skipn (Z.to_nat n) (body ++ 34 :: post) = 34 :: post).
  { subst n. rewrite nat_zlen, skipn_app, skipn_all, Nat.sub_diag. reflexivity. }
  rewrite Hsk.
  (* Trail: everything since the Push, i.e. the opening quote and the body *)
  unfold bind at 1. unfold trail. cbn [stk]. unfold bind at 1. cbn [off]. subst F.
  rewrite (bind_ok _ _ _ _ _ (pop_ne _ _ _ _ _ _ _ _ _)).
  unfold bind at 1. cbn [off]. replace (o + 1 + n - o) with (1 + n) by lia.
  assert (HhL : has_n (34 :: body ++ 34 :: post) (Z.to_nat (1 + n)) = true).
  { subst n. replace (Z.to_nat (1 + zlen body)) with (length (34 :: body)) by (unfold zlen; cbn [length]; lia).
    change (34 :: body ++ 34 :: post) with ((34 :: body) ++ 34 :: post). apply has_n_app. }
  rewrite (bind_ok _ _ _ (Some tt, EOther) _ (try_ok _ _ _ _ (request_ok _ o _ a (fr :: k) (1 + n) HhL))).
  unfold bind at 1. unfold buffer. cbn [endr off rest]. replace (o + (1 + n) - o) with (1 + n) by lia.
  destruct (Z.ltb_spec (1 + n) 0); [subst n; pose proof (zlen_nonneg body); lia|].
  rewrite (bind_ok _ _ _ tt _ (advance_ne _ o a fr k (1 + n) ltac:(subst n; pose proof (zlen_nonneg body); lia) HhL)).
  assert (Hn : Z.to_nat (1 + n) = length (34 :: body)) by (subst n; unfold zlen; cbn [length]; lia).
  assert (Hf : firstn (Z.to_nat (1 + n)) (34 :: body ++ 34 :: post) = 34 :: body).
  { rewrite Hn. change (34 :: body ++ 34 :: post) with ((34 :: body) ++ 34 :: post). rewrite firstn_app, firstn_all, Nat.sub_diag. cbn [firstn]. now rewrite app_nil_r. }
  assert (Hk : skipn (Z.to_nat (1 + n)) (34 :: body ++ 34 :: post) = 34 :: post).
  { rewrite Hn. change (34 :: body ++ 34 :: post) with ((34 :: body) ++ 34 :: post). rewrite skipn_app, skipn_all, Nat.sub_diag. reflexivity. }
  unfold byte in *. rewrite Hf, Hk. unfold ret at 1. cbv beta iota.
  run ltac:(apply try_ok; apply skip1_ne). cbn [tl].
  replace (zlen (34 :: body ++ [34])) with (1 + n + 1) by (subst n; rewrite zlen_cons, zlen_app; change (zlen [34]) with 1; lia).
  replace (a + (1 + n) + 1) with (a + (1 + n + 1)) by lia. do 2 eexists. reflexivity.
Qed.

(* ---------- the quoted value after the name *)
Definition eol_post (eol post : list byte) : Prop := eol = [10] \/ (eol = [] /\ post = []).

Lemma try_pEOL eol post o e a (fr : frame) k : eol_post eol post ->
  exists o' e', try pEOL (mkst (eol ++ post) o e a (fr :: k)) =
                (Ok (Some eol, EOther), mkst post o' e' (a + zlen eol) (fr :: k)).
Proof.
  intros [->|[-> ->]].
  - cbn [app]. do 2 eexists. apply try_ok. rewrite pEOL_lf. reflexivity.
  - cbn [app]. do 2 eexists. apply try_ok. unfold pEOL. erewrite bind_ok; [|apply try_err, next_nil].
    change (zlen []) with 0. rewrite Z.add_0_r. reflexivity.
Qed.

Lemma quoted_value_reads prefix v eol post :
  prefix <> [] -> no10 prefix -> plain prefix -> plain v -> no_occ (10 :: prefix) v -> eol_post eol post ->
  okp (quoted_qualifier_parser prefix) ([61] ++ (34 :: add_prefix v prefix ++ [34]) ++ eol) post v.
Proof.
  intros Hne H10 Hpp Hpv Hocc Heol o e a fr k. unfold quoted_qualifier_parser. run ltac:(apply push_eq).
  cbn [app]. rewrite <- !app_assoc. cbn [app].
  match goal with |- context [(?r, o, a) :: fr :: k] => set (F := (r, o, a)) end.
  run ltac:(apply try_ok; apply next_cons). cbn [Z.eqb Pos.eqb negb].
  run ltac:(apply advance_ne; [lia|reflexivity]). cbn [skipn Z.to_nat Pos.to_nat Pos.iter_op Nat.add].
  destruct (pQuoted_okp (add_prefix v prefix) (eol ++ post) (plain_add_prefix v prefix Hpv Hpp)
              (o + 1) None (a + 1) F (fr :: k)) as (o1 & e1 & E1).
  cbn [app] in E1. rewrite <- app_assoc in E1. cbn [app] in E1.
  run ltac:(apply try_ok; exact E1). run ltac:(apply drop_ne).
  destruct (try_pEOL eol post o1 e1 (a + 1 + zlen (34 :: add_prefix v prefix ++ [34])) fr k Heol) as (o2 & e2 & E2).
  run ltac:(exact E2).
  destruct prefix as [|p0 pt]; [contradiction|].
  rewrite (qualifier_value_roundtrip (p0 :: pt) v Hne H10 Hocc).
  exists o2, e2. unfold ret. f_equal. f_equal.
  unfold zlen. cbn [app length]. rewrite ?app_length. cbn [length]. rewrite ?app_length. cbn [length]. unfold byte in *. lia.
Qed.

(* ---------- the name *)
Definition snake (name : list byte) : Prop := name <> [] /\ Forall (fun c => is_snake c = true) name.

Lemma qualifier_name_reads prefix name post : snake name ->
  match post with c :: _ => is_snake c = false | [] => True end ->
  okp (qualifier_name_parser prefix) ((prefix ++ [47]) ++ name) post name.
Proof.
  intros [Hne Hs] Hp o e a fr k. unfold qualifier_name_parser.
  set (p := prefix ++ [47]). rewrite <- app_assoc.
  assert (Hh : has_n (p ++ name ++ post) (Z.to_nat (zlen p)) = true) by (rewrite nat_zlen; apply has_n_app).
  rewrite (bind_ok _ _ _ tt _ (request_ok _ o e a (fr :: k) (zlen p) Hh)).
  unfold bind at 1. unfold buffer. cbn [endr off rest].
  replace (o + zlen p - o) with (zlen p) by lia.
  replace (zlen p <? 0) with false by (symmetry; apply Z.ltb_ge; apply zlen_nonneg).
  rewrite nat_zlen, firstn_app, firstn_all, Nat.sub_diag. cbn [firstn]. rewrite app_nil_r, bytes_eqb_refl. cbn [negb].
  rewrite (bind_ok _ _ _ tt _ (advance_ne _ o a fr k (zlen p) (zlen_nonneg _) Hh)).
  rewrite nat_zlen, skipn_app, skipn_all, Nat.sub_diag. cbn [skipn app].
  destruct (pWord_okp is_snake name post Hne Hs Hp (o + zlen p) None (a + zlen p) fr k) as (o1 & e1 & E1).
  rewrite E1. rewrite zlen_app, Z.add_assoc. do 2 eexists. reflexivity.
Qed.

(* ---------- what the writer puts on the line(s) of a quoted qualifier *)
Lemma add_prefix_app a b p : add_prefix (a ++ b) p = add_prefix a p ++ add_prefix b p.
Proof. unfold add_prefix. apply flat_map_app. Qed.

Lemma add_prefix_no10 l p : no10 l -> add_prefix l p = l.
Proof.
  intros H. unfold add_prefix. induction H as [|c t Hc _ IH]; [reflexivity|].
  cbn [flat_map]. replace (c =? 10) with false by (symmetry; now apply Z.eqb_neq). cbn [app]. now rewrite IH.
Qed.

Lemma snake_no10 name : Forall (fun c => is_snake c = true) name -> no10 name.
Proof.
  intros H. eapply Forall_impl; [|exact H]. intros c Hc ->. discriminate.
Qed.

Definition quoted_type (r : registry) (name : list byte) : Prop :=
  qualifier_type r name = 0 \/ qualifier_type r name = 3.

Lemma quoted_line r name v p : quoted_type r name -> Forall (fun c => is_snake c = true) name ->
  add_prefix (qualifier_show r name v) p = [47] ++ name ++ [61] ++ (34 :: add_prefix v p ++ [34]).
Proof.
  intros Ht Hs. unfold qualifier_show.
  destruct Ht as [-> | ->]; cbn [Z.eqb Pos.eqb];
    rewrite !add_prefix_app, (add_prefix_no10 name p (snake_no10 name Hs)); reflexivity.
Qed.

(* ---------- QualifierParser on a written quoted qualifier *)
Theorem quoted_qualifier_roundtrip r reg prefix name v eol post :
  snake name -> quoted_type r name -> quoted_type reg name ->
  prefix <> [] -> no10 prefix -> plain prefix -> plain v -> no_occ (10 :: prefix) v -> eol_post eol post ->
  okp (qualifier_parser prefix reg) ((prefix ++ add_prefix (qualifier_show r name v) prefix) ++ eol) post
      ((name, v), if qualifier_type reg name =? 3 then register reg 0 name else reg).
Proof.
  intros Hsn Htr Htreg Hne H10 Hpp Hpv Hocc Heol o e a fr k.
  rewrite (quoted_line r name v prefix Htr (proj2 Hsn)).
  unfold qualifier_parser.
  replace ((prefix ++ [47] ++ name ++ [61] ++ 34 :: add_prefix v prefix ++ [34]) ++ eol)
    with (((prefix ++ [47]) ++ name) ++ ([61] ++ (34 :: add_prefix v prefix ++ [34]) ++ eol))
    by (rewrite <- !app_assoc; reflexivity).
  destruct (qualifier_name_reads prefix name (([61] ++ (34 :: add_prefix v prefix ++ [34]) ++ eol) ++ post) Hsn eq_refl o e a fr k)
    as (o1 & e1 & E1).
  rewrite <- app_assoc. run ltac:(exact E1).
  destruct (quoted_value_reads prefix v eol post Hne H10 Hpp Hpv Hocc Heol o1 e1 (a + zlen ((prefix ++ [47]) ++ name)) fr k)
    as (o2 & e2 & E2).
  destruct Htreg as [Ht|Ht]; rewrite Ht; cbn [Z.eqb Pos.eqb].
  - run ltac:(exact E2). exists o2, e2. unfold ret. f_equal. f_equal. rewrite !zlen_app. unfold byte in *. lia.
  - run ltac:(apply try_ok; exact E2). exists o2, e2. unfold ret. f_equal. f_equal. rewrite !zlen_app. unfold byte in *. lia.
Qed.

(* ---------- pars.Many(QualifierParser): all qualifiers of a feature *)
Definition reg_step (reg : registry) (name : list byte) : registry :=
  if qualifier_type reg name =? 3 then register reg 0 name else reg.
Definition regs_after (reg : registry) (qs : list (list byte * list byte)) : registry :=
  fold_left (fun r q => reg_step r (fst q)) qs reg.

Lemma mem_cons n m l : mem n (m :: l) = bytes_eqb n m || mem n l.
Proof. reflexivity. Qed.

Lemma quoted_type_step reg m n : quoted_type reg n -> quoted_type (reg_step reg m) n.
Proof.
  unfold reg_step. destruct (qualifier_type reg m =? 3); [|trivial].
  unfold quoted_type, qualifier_type, register. cbn [Z.eqb rq rl rt]. rewrite mem_cons.
  destruct (bytes_eqb n m); cbn [orb]; [left; reflexivity|trivial].
Qed.

(* one written qualifier with its line end *)
Definition qline (r : registry) (prefix : list byte) (q : list byte * list byte) : list byte :=
  prefix ++ add_prefix (qualifier_show r (fst q) (snd q)) prefix.

Definition qok (r : registry) (prefix : list byte) (q : list byte * list byte) : Prop :=
  snake (fst q) /\ quoted_type r (fst q) /\ plain (snd q) /\ no_occ (10 :: prefix) (snd q).

(* the text of the qualifiers as the reader meets it: every qualifier ends its
   line, except that the very last one may end the input *)
Fixpoint qtext (r : registry) (prefix : list byte) (qs : list (list byte * list byte)) (last_eol : list byte) : list byte :=
  match qs with
  | [] => []
  | [q] => qline r prefix q ++ last_eol
  | q :: t => qline r prefix q ++ [10] ++ qtext r prefix t last_eol
  end.

Lemma qline_nonempty r prefix q : prefix <> [] -> 0 < zlen (qline r prefix q).
Proof.
  intros H. unfold qline. rewrite zlen_app. destruct prefix as [|p0 pt]; [contradiction|]. rewrite zlen_cons.
  pose proof (zlen_nonneg pt). pose proof (zlen_nonneg (add_prefix (qualifier_show r (fst q) (snd q)) (p0 :: pt))). lia.
Qed.

Lemma qualifiers_loop_reads r prefix : prefix <> [] -> no10 prefix -> plain prefix ->
  forall qs last_eol post, Forall (qok r prefix) qs -> eol_post last_eol post ->
  (forall reg', failp (qualifier_parser prefix reg') post) ->
  forall fuel reg start acc o e a (fr : frame) k,
  (forall q, In q qs -> quoted_type reg (fst q)) ->
  (length qs < fuel)%nat -> (qs <> [] -> start <= a) -> (acc <> [] -> start < a) ->
  exists o' e' a',
    qualifiers_loop fuel prefix reg start acc (mkst (qtext r prefix qs last_eol ++ post) o e a (fr :: k)) =
    (Ok (rev acc ++ qs, regs_after reg qs), mkst post o' e' a' (fr :: k)).
Proof.
  intros Hne H10 Hpp. induction qs as [|q t IH]; intros last_eol post Hok Heol Hstop fuel reg start acc o e a fr k Hreg Hfuel Hs1 Hs2;
    (destruct fuel as [|f]; [cbn [length] in Hfuel; lia|]); cbn [qualifiers_loop].
  - cbn [qtext app]. destruct (Hstop reg o e a fr k) as (kk & e' & E).
    run ltac:(apply try_err; exact E). rewrite app_nil_r. do 3 eexists. reflexivity.
  - inversion Hok as [|? ? (Hsn & Htr & Hpv & Hocc) Hok']; subst.
    assert (Htreg : quoted_type reg (fst q)) by (apply Hreg; now left).
    assert (Hstep : forall eol R, eol_post eol R ->
      exists o1 e1, qualifier_parser prefix reg (mkst ((qline r prefix q ++ eol) ++ R) o e a (fr :: k)) =
                    (Ok ((fst q, snd q), reg_step reg (fst q)), mkst R o1 e1 (a + zlen (qline r prefix q ++ eol)) (fr :: k))).
    { intros eol R HeR. exact (quoted_qualifier_roundtrip r reg prefix (fst q) (snd q) eol R Hsn Htr Htreg Hne H10 Hpp Hpv Hocc HeR o e a fr k). }
    pose proof (qline_nonempty r prefix q Hne) as Hpos.
    destruct t as [|q2 t'].
    + (* the last qualifier *)
      cbn [qtext]. destruct (Hstep last_eol post Heol) as (o1 & e1 & E1).
      run ltac:(apply try_ok; exact E1). unfold bind at 1. unfold position. cbn [apos].
      replace (a + zlen (qline r prefix q ++ last_eol) =? start) with false
        by (symmetry; apply Z.eqb_neq; rewrite zlen_app; pose proof (zlen_nonneg last_eol); specialize (Hs1 ltac:(discriminate)); lia).
      destruct (IH last_eol post Hok' Heol Hstop f (reg_step reg (fst q)) start (q :: acc) o1 e1
                  (a + zlen (qline r prefix q ++ last_eol)) fr k) as (o2 & e2 & a2 & E2).
      * intros q0 [].
      * cbn [length] in *. lia.
      * intros C; contradiction.
      * intros _. rewrite zlen_app. pose proof (zlen_nonneg last_eol). specialize (Hs1 ltac:(discriminate)). lia.
      * cbn [qtext app] in E2. destruct q as [qn qv]. cbn [fst snd] in *. rewrite E2.
        cbn [rev]. rewrite <- app_assoc. cbn [app regs_after fold_left fst]. do 3 eexists. reflexivity.
    + (* more follow *)
      change (qtext r prefix (q :: q2 :: t') last_eol) with (qline r prefix q ++ [10] ++ qtext r prefix (q2 :: t') last_eol).
      replace ((qline r prefix q ++ [10] ++ qtext r prefix (q2 :: t') last_eol) ++ post)
        with ((qline r prefix q ++ [10]) ++ (qtext r prefix (q2 :: t') last_eol ++ post)) by (rewrite <- !app_assoc; reflexivity).
      destruct (Hstep [10] (qtext r prefix (q2 :: t') last_eol ++ post) (or_introl eq_refl)) as (o1 & e1 & E1).
      run ltac:(apply try_ok; exact E1). unfold bind at 1. unfold position. cbn [apos].
      replace (a + zlen (qline r prefix q ++ [10]) =? start) with false
        by (symmetry; apply Z.eqb_neq; rewrite zlen_app; change (zlen [10]) with 1; specialize (Hs1 ltac:(discriminate)); lia).
      destruct (IH last_eol post Hok' Heol Hstop f (reg_step reg (fst q)) start (q :: acc) o1 e1
                  (a + zlen (qline r prefix q ++ [10])) fr k) as (o2 & e2 & a2 & E2).
      * intros q0 Hin. apply quoted_type_step. apply Hreg. now right.
      * cbn [length] in *. lia.
      * intros _. rewrite zlen_app. change (zlen [10]) with 1. specialize (Hs1 ltac:(discriminate)). lia.
      * intros _. rewrite zlen_app. change (zlen [10]) with 1. specialize (Hs1 ltac:(discriminate)). lia.
      * destruct q as [qn qv]. cbn [fst snd] in *. rewrite E2.
        cbn [rev]. rewrite <- app_assoc. cbn [app]. do 3 eexists. reflexivity.
Qed.
