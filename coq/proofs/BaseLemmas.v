(* BaseLemmas.v — facts about the helpers of model/Base.v *)
From GTS Require Import Base.
Open Scope Z_scope.

Lemma zlen_nil {A} : zlen (@nil A) = 0.
Proof. reflexivity. Qed.

Lemma zlen_cons {A} (x : A) l : zlen (x :: l) = 1 + zlen l.
Proof. unfold zlen; cbn [length]; lia. Qed.

Lemma zlen_app {A} (a b : list A) : zlen (a ++ b) = zlen a + zlen b.
Proof. unfold zlen; rewrite app_length; lia. Qed.

Lemma zlen_nonneg {A} (l : list A) : 0 <= zlen l.
Proof. unfold zlen; lia. Qed.

Lemma zlen_repeat {A} (x : A) n : zlen (repeat x n) = Z.of_nat n.
Proof. unfold zlen; now rewrite repeat_length. Qed.

Lemma zlen_firstn {A} (l : list A) n : zlen (firstn n l) = Z.min (Z.of_nat n) (zlen l).
Proof. unfold zlen; rewrite firstn_length; lia. Qed.

Lemma zlen_skipn {A} (l : list A) n : zlen (skipn n l) = Z.max 0 (zlen l - Z.of_nat n).
Proof. unfold zlen; rewrite skipn_length; lia. Qed.

Lemma zlen_rev {A} (l : list A) : zlen (rev l) = zlen l.
Proof. unfold zlen; now rewrite rev_length. Qed.

Lemma zlen_map {A B} (f : A -> B) l : zlen (map f l) = zlen l.
Proof. unfold zlen; now rewrite map_length. Qed.

Lemma zlen_zero_nil {A} (l : list A) : zlen l = 0 -> l = [].
Proof. destruct l; [reflexivity|]. rewrite zlen_cons. pose proof (zlen_nonneg l). lia. Qed.

Lemma repeat_byte_len c n : zlen (repeat_byte c n) = Z.max 0 n.
Proof. unfold repeat_byte. rewrite zlen_repeat. lia. Qed.

Lemma repeat_byte_nonpos c n : n <= 0 -> repeat_byte c n = [].
Proof. intros H. unfold repeat_byte. replace (Z.to_nat n) with O by lia. reflexivity. Qed.

(* slice of the middle of an append *)
Lemma slice_app_mid {A} (pre mid post : list A) :
  slice (pre ++ mid ++ post) (zlen pre) (zlen pre + zlen mid) = Ok mid.
Proof.
  unfold slice. pose proof (zlen_nonneg pre). pose proof (zlen_nonneg mid).
  pose proof (zlen_nonneg post).
  rewrite !zlen_app.
  replace ((0 <=? zlen pre) && (zlen pre <=? zlen pre + zlen mid)
           && (zlen pre + zlen mid <=? zlen pre + (zlen mid + zlen post))) with true
    by (symmetry; rewrite !andb_true_iff, !Z.leb_le; lia).
  f_equal.
  replace (Z.to_nat (zlen pre)) with (length pre) by (unfold zlen; lia).
  rewrite skipn_app, skipn_all, Nat.sub_diag. cbn [skipn app].
  replace (Z.to_nat (zlen pre + zlen mid - zlen pre)) with (length mid) by (unfold zlen; lia).
  rewrite firstn_app, firstn_all, Nat.sub_diag. cbn [firstn]. now rewrite app_nil_r.
Qed.

Lemma index_app_mid {A} (pre : list A) x post :
  index (pre ++ x :: post) (zlen pre) = Ok x.
Proof.
  unfold index. pose proof (zlen_nonneg pre). pose proof (zlen_nonneg post).
  rewrite zlen_app, zlen_cons.
  replace ((0 <=? zlen pre) && (zlen pre <? zlen pre + (1 + zlen post))) with true
    by (symmetry; rewrite andb_true_iff, Z.leb_le, Z.ltb_lt; lia).
  replace (Z.to_nat (zlen pre)) with (length pre) by (unfold zlen; lia).
  rewrite nth_error_app2 by lia. now rewrite Nat.sub_diag.
Qed.

(* decimal digits *)
Lemma digits_pos_len fuel : forall d n acc,
  1 <= d -> 0 <= n < 10 ^ d ->
  zlen (digits_pos fuel n acc) <= zlen acc + d.
Proof.
  induction fuel as [|k IH]; intros d n acc Hd Hn; cbn [digits_pos]; [lia|].
  destruct (n <? 10) eqn:E.
  - rewrite zlen_cons. lia.
  - apply Z.ltb_ge in E.
    assert (2 <= d).
    { destruct (Z.eq_dec d 1) as [->|]; [simpl in Hn; lia | lia]. }
    specialize (IH (d - 1) (n / 10) ((48 + n mod 10) :: acc)).
    rewrite zlen_cons in IH.
    assert (0 <= n / 10 < 10 ^ (d - 1)).
    { split; [apply Z.div_pos; lia|].
      apply Z.div_lt_upper_bound; [lia|].
      replace (10 * 10 ^ (d - 1)) with (10 ^ d); [lia|].
      replace d with (1 + (d - 1)) at 1 by lia. rewrite Z.pow_add_r by lia. reflexivity. }
    specialize (IH ltac:(lia) H0). lia.
Qed.

Lemma digits_pos_len_lower fuel : forall n acc,
  zlen acc <= zlen (digits_pos fuel n acc).
Proof.
  induction fuel as [|k IH]; intros n acc; cbn [digits_pos]; [lia|].
  destruct (n <? 10).
  - rewrite zlen_cons. lia.
  - specialize (IH (n / 10) ((48 + n mod 10) :: acc)). rewrite zlen_cons in IH. lia.
Qed.

Lemma itoa_len_le n d : 1 <= d -> 0 <= n < 10 ^ d -> zlen (itoa n) <= d.
Proof.
  intros Hd Hn. unfold itoa. replace (n <? 0) with false by (symmetry; apply Z.ltb_ge; lia).
  unfold digits_nat. pose proof (digits_pos_len (S (Z.to_nat (Z.log2 n))) d n [] Hd Hn).
  rewrite zlen_nil in H. lia.
Qed.

Lemma pad_left_len w s : zlen s <= w -> zlen (pad_left w s) = w.
Proof.
  intros H. unfold pad_left. rewrite zlen_app, repeat_byte_len.
  pose proof (zlen_nonneg s). lia.
Qed.

Lemma skipn_skipn {A} (a b : nat) (l : list A) : skipn a (skipn b l) = skipn (b + a) l.
Proof.
  revert l. induction b as [|b IH]; intros l; [reflexivity|].
  destruct l as [|x t]; [now rewrite !skipn_nil|]. cbn [skipn Nat.add]. apply IH.
Qed.
