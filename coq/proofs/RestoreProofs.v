(* RestoreProofs.v — C12: a range cut in two by Slice and put back by Concat is
   re-assembled by Repair's merge step, coordinates and partial markers included,
   on either strand. *)
From Coq Require Import List ZArith Lia Bool.
From GTS Require Import Base Arith Loc Seq Repair BaseLemmas LocProofs EditProofs RepairProofs.
Import ListNotations.
Open Scope Z_scope.

(* the location of a feature in the piece [a,b) of a sequence of length L
   (Slice: Expand(b, b-L) then Expand(0, -a)), moved by Concat to offset off *)
Definition piece_loc (l : loc) (a b L off : Z) : out loc :=
  l1 <- expand l b (b - L) ;; l2 <- expand l1 0 (- a) ;; expand l2 0 off.

Lemma piece_left s e p5 p3 c L : 0 <= s < c -> c < e <= L ->
  piece_loc (Ranged s e p5 p3) 0 c L 0 = Ok (Ranged s c p5 true).
Proof.
  intros H1 H2. unfold piece_loc. cbn [expand obind]. unfold ranged_expand.
  replace (c - L =? 0) with false by (symmetry; apply Z.eqb_neq; lia).
  replace (c - L <? 0) with true by (symmetry; apply Z.ltb_lt; lia).
  replace (0 <=? c - L) with false by (symmetry; apply Z.leb_gt; lia).
  replace (c <=? s) with false by (symmetry; apply Z.leb_gt; lia).
  replace (c <? e) with true by (symmetry; apply Z.ltb_lt; lia).
  replace (e <=? c - (c - L)) with true by (symmetry; apply Z.leb_le; lia).
  replace (c <? s) with false by (symmetry; apply Z.ltb_ge; lia).
  replace (c <=? e) with true by (symmetry; apply Z.leb_le; lia).
  cbn [andb orb]. rewrite !go_Max_spec. replace (Z.max c (e + (c - L))) with c by lia.
  replace (s =? c) with false by (symmetry; apply Z.eqb_neq; lia).
  change (- 0) with 0. cbn [Z.eqb]. reflexivity.
Qed.

Lemma rexp_zero s e p5 p3 i : ranged_expand s e p5 p3 i 0 = Ranged s e p5 p3.
Proof. unfold ranged_expand. reflexivity. Qed.

Lemma rexp_cut_front s e p5 p3 c : 0 <= s < c -> c < e ->
  ranged_expand s e p5 p3 0 (- c) = Ranged 0 (e - c) true p3.
Proof.
  intros H1 H2. unfold ranged_expand.
  replace (- c =? 0) with false by (symmetry; apply Z.eqb_neq; lia).
  replace (- c <? 0) with true by (symmetry; apply Z.ltb_lt; lia).
  replace (0 <=? - c) with false by (symmetry; apply Z.leb_gt; lia).
  replace (0 <=? s) with true by (symmetry; apply Z.leb_le; lia).
  replace (s <? 0 - - c) with true by (symmetry; apply Z.ltb_lt; lia).
  replace (0 <? e) with true by (symmetry; apply Z.ltb_lt; lia).
  replace (e <=? 0 - - c) with false by (symmetry; apply Z.leb_gt; lia).
  replace (0 <=? e) with true by (symmetry; apply Z.leb_le; lia).
  cbn [andb orb]. rewrite !go_Max_spec.
  replace (if 0 <? s then Z.max 0 (s + - c) else s) with 0 by (destruct (Z.ltb_spec 0 s); lia).
  replace (Z.max 0 (e + - c)) with (e - c) by lia.
  now replace (0 =? e - c) with false by (symmetry; apply Z.eqb_neq; lia).
Qed.

Lemma rexp_move s e p5 p3 c : 0 <= s < e -> 0 < c ->
  ranged_expand s e p5 p3 0 c = Ranged (s + c) (e + c) p5 p3.
Proof.
  intros H1 H2. unfold ranged_expand.
  replace (c =? 0) with false by (symmetry; apply Z.eqb_neq; lia).
  replace (c <? 0) with false by (symmetry; apply Z.ltb_ge; lia).
  replace (0 <=? c) with true by (symmetry; apply Z.leb_le; lia).
  replace (0 <=? s) with true by (symmetry; apply Z.leb_le; lia).
  replace (0 <? e) with true by (symmetry; apply Z.ltb_lt; lia).
  cbn [andb orb]. rewrite !go_Max_spec. replace (Z.max 0 (s + c)) with (s + c) by lia. replace (Z.max 0 (e + c)) with (e + c) by lia.
  now replace (s + c =? e + c) with false by (symmetry; apply Z.eqb_neq; lia).
Qed.

Lemma piece_right s e p5 p3 c L : 0 <= s < c -> c < e <= L ->
  piece_loc (Ranged s e p5 p3) c L L c = Ok (Ranged c e true p3).
Proof.
  intros H1 H2. unfold piece_loc. cbn [expand obind]. rewrite Z.sub_diag, rexp_zero. cbn [expand obind].
  rewrite rexp_cut_front by lia. cbn [expand obind]. rewrite rexp_move by lia.
  f_equal. f_equal; lia.
Qed.

(* Repair's merge of the two pieces gives the range back *)
Theorem range_restored s e p5 p3 c L force : 0 <= s < c -> c < e <= L ->
  exists a b, piece_loc (Ranged s e p5 p3) 0 c L 0 = Ok a /\ piece_loc (Ranged s e p5 p3) c L L c = Ok b /\
    merge_fragments a b force = Some (Ranged s e p5 p3).
Proof.
  intros H1 H2. exists (Ranged s c p5 true), (Ranged c e true p3).
  split; [now apply piece_left|]. split; [now apply piece_right|].
  cbn [merge_fragments fragment_parts orb]. unfold merge_flat. cbn [split_last].
  rewrite Z.eqb_refl. cbn [negb andb]. destruct force; reflexivity.
Qed.

Lemma piece_loc_compl x a b L off :
  piece_loc (Complemented x) a b L off = (y <- piece_loc x a b L off ;; Ok (Complemented y)).
Proof.
  unfold piece_loc. cbn [expand]. destruct (expand x b (b - L)) as [x1| | |]; cbn [obind expand]; try reflexivity.
  all: destruct (expand x1 0 (- a)) as [x2| | |]; cbn [obind expand]; try reflexivity.
  all: destruct (expand x2 0 off); reflexivity.
Qed.

(* ... and on the reverse strand *)
Theorem complement_range_restored s e p5 p3 c L force : 0 <= s < c -> c < e <= L ->
  exists a b, piece_loc (Complemented (Ranged s e p5 p3)) 0 c L 0 = Ok (Complemented a) /\
    piece_loc (Complemented (Ranged s e p5 p3)) c L L c = Ok (Complemented b) /\
    merge_fragments (Complemented a) (Complemented b) force = Some (Complemented (Ranged s e p5 p3)).
Proof.
  intros H1 H2. exists (Ranged s c p5 true), (Ranged c e true p3).
  rewrite !piece_loc_compl, (piece_left s e p5 p3 c L H1 H2), (piece_right s e p5 p3 c L H1 H2). cbn [obind].
  split; [reflexivity|]. split; [reflexivity|].
  cbn [merge_fragments fragment_parts orb]. unfold merge_flat. cbn [split_last].
  rewrite Z.eqb_refl. cbn [negb andb]. destruct force; reflexivity.
Qed.
