(* Safety.v — a Hoare logic for the pars model and the proof that the readers
   built on it never reach the Panic outcome (a Go run-time panic).
   wf is the invariant of pars.State the proofs need: offsets are not
   negative, an empty backtracking stack means offset 0 (Advance/Pop/Drop
   auto-clear), and the saved offsets decrease down the stack.  rdy says a
   Request is pending whose extent lies inside the buffer, which is what
   Buffer and Advance need. *)
From GTS Require Import Base Pars BaseLemmas ParsLemmas.
From Coq Require Import Lia.
Open Scope Z_scope.

Fixpoint frames_le (o : Z) (k : list (list byte * Z * Z)) : Prop :=
  match k with
  | [] => True
  | (_, o1, _) :: t => 0 <= o1 <= o /\ frames_le o1 t
  end.

(* the input is shorter than 10^9 bytes: the ORIGIN validators print the line
   index with "%9d" and size their buffer for exactly nine columns *)
Definition input_bound : Z := 999999999.
Definition small (s : st) : Prop :=
  zlen (rest s) <= input_bound /\ Forall (fun fr => zlen (fst (fst fr)) <= input_bound) (stk s).

Definition wf (s : st) : Prop :=
  0 <= off s /\ (stk s = [] -> off s = 0) /\ frames_le (off s) (stk s) /\ small s.

Definition rdy (s : st) : Prop :=
  exists e, endr s = Some e /\ off s <= e /\ has_n (rest s) (Z.to_nat (e - off s)) = true.

Definition triple {A} (P : st -> Prop) (m : M A) (Q : A -> st -> Prop) (E : st -> Prop) : Prop :=
  forall s, P s ->
    match m s with
    | (Ok a, s') => Q a s'
    | (Err _, s') => E s'
    | (Panic, _) => False
    | (OutOfFuel, _) => True
    end.

Definition safe {A} (m : M A) : Prop := triple wf m (fun _ => wf) wf.
Definition wr (s : st) : Prop := wf s /\ rdy s.

Lemma frames_le_mono k : forall o o', frames_le o k -> o <= o' -> frames_le o' k.
Proof. destruct k as [|[[r o1] a] t]; cbn; intros; [trivial|]. intuition lia. Qed.

(* ---------- rules *)

Lemma t_conseq {A} (P P' : st -> Prop) (m : M A) (Q Q' : A -> st -> Prop) (E E' : st -> Prop) :
  triple P m Q E -> (forall s, P' s -> P s) -> (forall a s, Q a s -> Q' a s) -> (forall s, E s -> E' s) ->
  triple P' m Q' E'.
Proof.
  intros H HP HQ HE s Hs. specialize (H s (HP s Hs)). destruct (m s) as [[a|k| |] s']; auto.
Qed.

Lemma t_ret {A} (P : st -> Prop) (a : A) (Q : A -> st -> Prop) E : (forall s, P s -> Q a s) -> triple P (ret a) Q E.
Proof. intros H s Hs. cbn. auto. Qed.

Lemma t_fail {A} (P : st -> Prop) k (Q : A -> st -> Prop) (E : st -> Prop) : (forall s, P s -> E s) -> triple P (fail k) Q E.
Proof. intros H s Hs. cbn. auto. Qed.

Lemma t_nofuel {A} (P : st -> Prop) (Q : A -> st -> Prop) E : triple P nofuel Q E.
Proof. intros s Hs. cbn. trivial. Qed.

Lemma t_bind {A B} (P : st -> Prop) (m : M A) (f : A -> M B) Q1 (Q : B -> st -> Prop) (E : st -> Prop) :
  triple P m Q1 E -> (forall a, triple (Q1 a) (f a) Q E) -> triple P (bind m f) Q E.
Proof.
  intros Hm Hf s Hs. unfold bind. specialize (Hm s Hs). destruct (m s) as [[a|k| |] s']; auto.
  apply (Hf a s' Hm).
Qed.

Lemma t_try {A} (P : st -> Prop) (m : M A) Q1 E1 (E : st -> Prop) :
  triple P m Q1 E1 ->
  triple P (try m) (fun r s => match r with (Some a, _) => Q1 a s | (None, _) => E1 s end) E.
Proof.
  intros Hm s Hs. unfold try. specialize (Hm s Hs). destruct (m s) as [[a|k| |] s']; auto.
Qed.

Lemma t_lift {A} (P : st -> Prop) (x : out A) (Q : A -> st -> Prop) (E : st -> Prop) :
  x <> Panic -> (forall a s, P s -> Q a s) -> (forall s, P s -> E s) -> triple P (lift x) Q E.
Proof. intros Hx HQ HE s Hs. unfold lift. destruct x; auto. Qed.

Lemma t_get (P : st -> Prop) E : triple P get (fun s0 s => s0 = s /\ P s) E.
Proof. intros s Hs. cbn. auto. Qed.

Lemma t_position (P : st -> Prop) E : triple P position (fun _ s => P s) E.
Proof. intros s Hs. cbn. auto. Qed.

Lemma t_pushed (P : st -> Prop) E : triple P pushed (fun _ s => P s) E.
Proof. intros s Hs. cbn. auto. Qed.

(* ---------- the State primitives *)

Definition bounded (k : list (list byte * Z * Z)) : Prop := Forall (fun fr => zlen (fst (fst fr)) <= input_bound) k.

Lemma skipn_zlen_le {A} n (l : list A) : zlen (skipn n l) <= zlen l.
Proof. unfold zlen. rewrite skipn_length. lia. Qed.

Lemma span_n_le f l : zlen (snd (span_n f l)) <= zlen l.
Proof.
  induction l as [|c t IH]; cbn [span_n]; [cbn; lia|].
  destruct (f c); [|cbn [snd]; lia]. destruct (span_n f t) as [k r]. cbn [snd] in *. unfold zlen in *. cbn [length]. lia.
Qed.

Lemma request_spec n : 0 <= n -> triple wf (request n) (fun _ => wr) wr.
Proof.
  intros Hn [r o e a k] (H1 & H2 & H3 & H4). unfold request. cbn [rest off apos stk].
  destruct (has_n r (Z.to_nat n)) eqn:E.
  - split; [repeat split; try assumption; apply H4|]. exists (o + n). cbn. repeat split; try lia.
    replace (o + n - o) with n by lia. exact E.
  - split; [repeat split; try assumption; apply H4|]. exists (o + zlen r). cbn. unfold zlen. repeat split; try lia.
    replace (o + Z.of_nat (length r) - o) with (Z.of_nat (length r)) by lia.
    rewrite Nat2Z.id. apply has_n_le. lia.
Qed.

Lemma buffer_spec E : triple wr buffer (fun _ => wr) E.
Proof.
  intros [r o e a k] (Hw & e0 & He & Hle & Hn). unfold buffer. cbn in *. subst e.
  destruct (Z.ltb_spec (e0 - o) 0); [lia|]. split; [assumption|]. exists e0. cbn. auto.
Qed.

Lemma autoclear_wf r o e a k : 0 <= o -> frames_le o k -> zlen r <= input_bound -> bounded k ->
  wf (autoclear (mkst r o e a k)).
Proof.
  intros Ho Hk Hr Hb. unfold autoclear. cbn [stk]. destruct k as [|f t].
  - unfold wf, small. cbn [off stk rest frames_le]. repeat split; auto; try lia.
  - unfold wf, small. cbn [off stk rest]. repeat split; auto; try lia. intros; discriminate.
Qed.

Lemma advance_spec E : triple wr advance (fun _ => wf) E.
Proof.
  intros [r o e a k] ((H1 & H2 & H3 & H4 & H5) & e0 & He & Hle & Hn). unfold advance. cbn in *. subst e.
  destruct (Z.ltb_spec (e0 - o) 0); [lia|]. rewrite Hn. cbn [negb orb].
  apply autoclear_wf; [lia|apply (frames_le_mono k o e0 H3 Hle)| |exact H5].
  pose proof (skipn_zlen_le (Z.to_nat (e0 - o)) r). lia.
Qed.

Ltac wf_tac := unfold wf, small, bounded in *; cbn [off stk rest endr apos frames_le fst snd] in *;
  repeat split; auto; try lia; try (intros; discriminate); try tauto.

Lemma push_spec : safe push.
Proof.
  intros [r o e a k] (H1 & H2 & H3 & H4 & H5). unfold push. cbn [off stk rest endr apos] in *.
  unfold wf, small. cbn [off stk rest frames_le]. repeat split; auto; try lia; try (intros; discriminate);
    try (constructor; [cbn; assumption|assumption]).
Qed.

Lemma push_wr E : triple wr push (fun _ => wr) E.
Proof.
  intros s [Hw Hr]. pose proof (push_spec s Hw) as H. unfold push in *. cbn in *. split; [exact H|exact Hr].
Qed.

Lemma pop_spec : safe pop.
Proof.
  intros [r o e a k] (H1 & H2 & H3 & H4 & H5). unfold pop. cbn [stk]. destruct k as [|[[r1 o1] a1] t].
  - unfold wf, small. cbn [off stk rest]. repeat split; auto.
  - cbn in H3. cbn [off stk rest] in *. inversion H5 as [|? ? Hf Ht]; subst. cbn in Hf.
    apply autoclear_wf; [lia|tauto|assumption|assumption].
Qed.

Lemma drop_spec : safe drop.
Proof.
  intros [r o e a k] (H1 & H2 & H3 & H4 & H5). unfold drop. cbn [stk]. destruct k as [|[[r1 o1] a1] t].
  - unfold wf, small. cbn [off stk rest]. repeat split; auto.
  - cbn in H3. cbn [rest off endr apos stk] in *. inversion H5 as [|? ? Hf Ht]; subst.
    apply autoclear_wf; [lia| |assumption|assumption].
    apply (frames_le_mono t o1 o); [tauto|lia].
Qed.

Lemma clear_spec : safe clear.
Proof.
  intros [r o e a k] (H1 & H2 & H3 & H4 & H5). unfold clear, wf, small. cbn [off stk rest endr apos frames_le] in *.
  repeat split; auto; try lia; try constructor.
Qed.

Lemma next_spec : triple wf next (fun _ => wr) wf.
Proof.
  intros [r o e a k] Hw. unfold next, bind, request, buffer, ret, mpanic. cbn [rest off endr apos stk].
  change (Z.to_nat 1) with 1%nat.
  destruct r as [|c t]; cbn [has_n].
  - destruct Hw as (H1 & H2 & H3 & H4 & H5). unfold wf, small. cbn [off stk rest] in *. repeat split; auto.
  - cbn [endr off rest]. destruct (Z.ltb_spec (o + 1 - o) 0); [lia|].
    replace (o + 1 - o) with 1 by lia. change (Z.to_nat 1) with 1%nat. cbn [firstn].
    split; [destruct Hw as (H1 & H2 & H3 & H4 & H5); unfold wf, small; cbn [off stk rest] in *; repeat split; auto|].
    exists (o + 1). cbn. repeat split; try lia. replace (o + 1 - o) with 1 by lia. reflexivity.
Qed.

Lemma advance_while_spec f E : triple wf (advance_while f) (fun _ => wf) E.
Proof.
  intros [r o e a k] (H1 & H2 & H3 & H4 & H5). unfold advance_while. cbn [rest off endr apos stk] in *.
  pose proof (span_n_le f r) as Hs.
  destruct (span_n f r) as [n r']. cbn [snd] in Hs. destruct n as [|n].
  - unfold wf, small. cbn [off stk rest]. repeat split; auto.
  - destruct k as [|fr t].
    + unfold wf, small. cbn [off stk rest frames_le]. repeat split; auto; lia.
    + unfold wf, small. cbn [off stk rest]. split; [lia|]. split; [intros; discriminate|].
      split; [apply (frames_le_mono (fr :: t) o); [assumption|lia]|]. split; [lia|assumption].
Qed.

(* ---------- derived rules for the invariant alone *)

Lemma safe_ret {A} (a : A) : safe (ret a).
Proof. apply t_ret. auto. Qed.
Lemma safe_fail {A} k : safe (@fail A k).
Proof. apply t_fail. auto. Qed.
Lemma safe_nofuel {A} : safe (@nofuel A).
Proof. apply t_nofuel. Qed.
Lemma safe_bind {A B} (m : M A) (f : A -> M B) : safe m -> (forall a, safe (f a)) -> safe (bind m f).
Proof. intros Hm Hf. eapply t_bind; [exact Hm|exact Hf]. Qed.
Lemma safe_try {A} (m : M A) E : safe m -> triple wf (try m) (fun _ => wf) E.
Proof.
  intros Hm. eapply t_conseq; [apply (t_try _ _ _ _ E Hm)| | |]; auto.
  intros [[a|] k] s H; exact H.
Qed.
Lemma safe_try' {A} (m : M A) : safe m -> safe (try m).
Proof. apply safe_try. Qed.
Lemma safe_lift {A} (x : out A) : x <> Panic -> safe (lift x).
Proof. intros H. apply t_lift; auto. Qed.
Lemma safe_get : safe get.
Proof. eapply t_conseq; [apply (t_get wf wf)| | |]; auto. intros a s [_ H]; exact H. Qed.
Lemma safe_position : safe position.
Proof. apply t_position. Qed.
Lemma safe_pushed : safe pushed.
Proof. apply t_pushed. Qed.
Lemma safe_request n : 0 <= n -> safe (request n).
Proof. intros H. eapply t_conseq; [apply (request_spec n H)| | |]; auto; unfold wr; intros; tauto. Qed.
Lemma safe_next : safe next.
Proof. eapply t_conseq; [apply next_spec| | |]; auto. intros a s H; apply H. Qed.
Lemma safe_advance_while f : safe (advance_while f).
Proof. apply advance_while_spec. Qed.

Lemma request_spec' n : 0 <= n -> triple wf (request n) (fun _ => wr) wf.
Proof. intros H. eapply t_conseq; [apply (request_spec n H)| | |]; auto; unfold wr; intros; tauto. Qed.

Lemma safe_advance : triple wr advance (fun _ => wf) wf.
Proof. apply advance_spec. Qed.

Lemma req_adv n : 0 <= n -> safe (request n ;;; advance).
Proof.
  intros H. eapply t_bind; [apply (request_spec' n H)|]. intros u. apply safe_advance.
Qed.

(* ---------- pars.Trail *)

Lemma read_off (P : st -> Prop) E : triple P (fun s => (Ok (off s), s)) (fun o s => P s /\ off s = o) E.
Proof. intros s Hs. cbn. auto. Qed.

Lemma pop_le o0 : triple (fun s => wf s /\ off s = o0) pop (fun _ s => wf s /\ off s <= o0) wf.
Proof.
  intros s [Hw Ho]. pose proof (pop_spec s Hw) as Hp. destruct s as [r o e a k].
  destruct Hw as (H1 & H2 & H3 & H4). cbn in Ho. subst o0. unfold pop in *. cbn [stk] in *.
  destruct k as [|[[r1 o1] a1] t].
  - split; [exact Hp|cbn; lia].
  - cbn in H3. split; [exact Hp|].
    unfold autoclear. cbn [stk]. destruct t; cbn; lia.
Qed.

Lemma trail_spec : safe trail.
Proof.
  intros s Hw. unfold trail. destruct (stk s) as [|fr t] eqn:Hk; [exact Hw|].
  revert s Hw Hk. 
  assert (G : safe (o0 <-- (fun s => (Ok (off s), s)) ;;; pop ;;;
                    o1 <-- (fun s => (Ok (off s), s)) ;;;
                    r <-- try (request (o0 - o1)) ;;; p <-- buffer ;;; advance ;;; ret p)).
  { eapply t_bind; [apply (read_off wf wf)|]. intros o0.
    eapply t_bind; [apply (pop_le o0)|]. intros u.
    eapply t_bind; [apply (read_off _ wf)|]. intros o1. cbv beta.
    apply (t_conseq (fun s => wf s /\ 0 <= o0 - o1) _ _ (fun _ => wf) (fun _ => wf) wf wf); auto.
    2:{ intros s [[Hw Hle] Ho]. split; [exact Hw|lia]. }
    intros s [Hw Hn]. 
    assert (T : triple wf (r <-- try (request (o0 - o1)) ;;; p <-- buffer ;;; advance ;;; ret p) (fun _ => wf) wf).
    { eapply t_bind; [apply (t_try _ _ _ _ wf (request_spec (o0 - o1) Hn))|].
      intros [[x|] kk]; cbv beta iota.
      - eapply t_bind; [apply (buffer_spec wf)|]. intros p. eapply t_bind; [apply safe_advance|]. intros. apply safe_ret.
      - eapply t_bind; [apply (buffer_spec wf)|]. intros p. eapply t_bind; [apply safe_advance|]. intros. apply safe_ret. }
    apply (T s Hw). }
  intros s Hw Hk. apply (G s Hw).
Qed.

Lemma safe_skip n : 0 <= n -> safe (skip n).
Proof. apply req_adv. Qed.

(* ---------- the combinators *)

Lemma safe_pMap {A B} (p : M A) (f : A -> out B) : safe p -> (forall a, f a <> Panic) -> safe (pMap p f).
Proof.
  intros Hp Hf. unfold pMap. apply safe_bind; [apply push_spec|]. intros _.
  apply safe_bind; [apply safe_try', Hp|]. intros [[a|] k].
  - apply safe_bind; [apply drop_spec|]. intros _. apply safe_lift, Hf.
  - apply safe_bind; [apply pop_spec|]. intros _. apply safe_fail.
Qed.

Lemma safe_pDry {A} (p : M A) : safe p -> safe (pDry p).
Proof.
  intros Hp. unfold pDry. apply safe_bind; [apply push_spec|]. intros _.
  apply safe_bind; [apply safe_try', Hp|]. intros [[a|] k];
    (apply safe_bind; [apply pop_spec|]; intros _); [apply safe_ret|apply safe_fail].
Qed.

Lemma safe_pSeq2 {A B} (p : M A) (q : M B) : safe p -> safe q -> safe (pSeq2 p q).
Proof.
  intros Hp Hq. unfold pSeq2. apply safe_bind; [apply push_spec|]. intros _.
  apply safe_bind; [apply safe_try', Hp|]. intros [[a|] k].
  - apply safe_bind; [apply safe_try', Hq|]. intros [[b|] k2].
    + apply safe_bind; [apply drop_spec|]. intros _. apply safe_ret.
    + apply safe_bind; [apply pop_spec|]. intros _. apply safe_fail.
  - apply safe_bind; [apply pop_spec|]. intros _. apply safe_fail.
Qed.

Lemma safe_pSeq3 {A B C} (p : M A) (q : M B) (r : M C) : safe p -> safe q -> safe r -> safe (pSeq3 p q r).
Proof.
  intros Hp Hq Hr. unfold pSeq3. apply safe_bind; [apply push_spec|]. intros _.
  apply safe_bind; [apply safe_try', Hp|]. intros [[a|] k].
  - apply safe_bind; [apply safe_try', Hq|]. intros [[b|] k2].
    + apply safe_bind; [apply safe_try', Hr|]. intros [[c|] k3].
      * apply safe_bind; [apply drop_spec|]. intros _. apply safe_ret.
      * apply safe_bind; [apply pop_spec|]. intros _. apply safe_fail.
    + apply safe_bind; [apply pop_spec|]. intros _. apply safe_fail.
  - apply safe_bind; [apply pop_spec|]. intros _. apply safe_fail.
Qed.

Lemma safe_any_loop {A} (ps : list (M A)) : Forall safe ps -> forall last, safe (any_loop ps last).
Proof.
  induction ps as [|p t IH]; intros H last; cbn [any_loop].
  - apply safe_bind; [apply pop_spec|]. intros _. apply safe_fail.
  - inversion H as [|? ? Hp Ht]; subst.
    apply safe_bind; [apply safe_try', Hp|]. intros [[a|] k].
    + apply safe_bind; [apply drop_spec|]. intros _. apply safe_ret.
    + apply safe_bind; [apply safe_pushed|]. intros [|]; [apply (IH Ht)|apply safe_fail].
Qed.

Lemma safe_pAny {A} (ps : list (M A)) : Forall safe ps -> safe (pAny ps).
Proof. intros H. unfold pAny. apply safe_bind; [apply push_spec|]. intros _. apply safe_any_loop, H. Qed.

Lemma safe_pMaybe {A} (p : M A) : safe p -> safe (pMaybe p).
Proof.
  intros Hp. unfold pMaybe. apply safe_bind; [apply push_spec|]. intros _.
  apply safe_bind; [apply safe_try', Hp|]. intros [[a|] k].
  - apply safe_bind; [apply drop_spec|]. intros _. apply safe_ret.
  - apply safe_bind; [apply safe_pushed|]. intros [|]; [|apply safe_fail].
    apply safe_bind; [apply pop_spec|]. intros _. apply safe_ret.
Qed.

Lemma safe_many_loop {A} (p : M A) : safe p -> forall fuel start acc, safe (many_loop fuel p start acc).
Proof.
  intros Hp. induction fuel as [|f IH]; intros start acc; cbn [many_loop]; [apply safe_nofuel|].
  apply safe_bind; [apply safe_try', Hp|]. intros [[a|] k]; [|apply safe_ret].
  apply safe_bind; [apply safe_position|]. intros pos. destruct (pos =? start); [apply safe_ret|apply IH].
Qed.

Lemma safe_pMany {A} (p : M A) : safe p -> safe (pMany p).
Proof. intros Hp. unfold pMany. apply safe_bind; [apply safe_get|]. intros s. apply safe_many_loop, Hp. Qed.

(* ---------- the leaf parsers *)

Lemma safe_pEnd : safe pEnd.
Proof.
  unfold pEnd. apply safe_bind; [apply safe_try', safe_request; lia|]. intros [[x|] k]; [apply safe_fail|apply safe_ret].
Qed.

Lemma safe_pHead : safe pHead.
Proof. unfold pHead. apply safe_bind; [apply safe_position|]. intros a. destruct (a =? 0); [apply safe_ret|apply safe_fail]. Qed.

Lemma safe_pSpaces : safe pSpaces.
Proof.
  unfold pSpaces. apply safe_bind; [apply push_spec|]. intros _.
  apply safe_bind; [apply safe_try', safe_next|]. intros _.
  apply safe_bind; [apply safe_advance_while|]. intros _. apply trail_spec.
Qed.

Lemma safe_at_end : safe at_end.
Proof.
  unfold at_end. apply safe_bind; [apply push_spec|]. intros _.
  apply safe_bind; [apply safe_pSpaces|]. intros _.
  apply safe_bind; [apply safe_try', safe_pEnd|]. intros r.
  apply safe_bind; [apply pop_spec|]. intros _. apply safe_ret.
Qed.

Lemma safe_pWord f : safe (pWord f).
Proof.
  unfold pWord. apply safe_bind; [apply push_spec|]. intros _.
  apply safe_bind; [apply safe_try', safe_next|]. intros _.
  apply safe_bind; [apply safe_advance_while|]. intros _.
  apply safe_bind; [apply trail_spec|]. intros [|c t]; [apply safe_fail|apply safe_ret].
Qed.

(* c <-- next ;;; if test c then advance ;;; k else j : advance right after next *)
Lemma next_then {A} (f : byte -> M A) :
  (forall c, triple wr (f c) (fun _ => wf) wf) -> safe (c <-- next ;;; f c).
Proof. intros H. eapply t_bind; [apply next_spec|]. exact H. Qed.

Lemma wr_weaken {A} (m : M A) : safe m -> triple wr m (fun _ => wf) wf.
Proof. intros H. eapply t_conseq; [exact H| | |]; auto. intros s [Hw _]; exact Hw. Qed.

Lemma adv_then {A} (m : M A) : safe m -> triple wr (advance ;;; m) (fun _ => wf) wf.
Proof. intros H. eapply t_bind; [apply safe_advance|]. intros u. exact H. Qed.

Lemma safe_pFilter f : safe (pFilter f).
Proof.
  unfold pFilter. apply next_then. intros c. destruct (f c); [apply adv_then, safe_ret|apply wr_weaken, safe_fail].
Qed.

Lemma safe_pByte e : safe (pByte e).
Proof.
  unfold pByte. apply next_then. intros c. destruct (c =? e); [apply adv_then, safe_ret|apply wr_weaken, safe_fail].
Qed.

Lemma zlen_nonneg {A} (l : list A) : 0 <= zlen l.
Proof. unfold zlen. lia. Qed.

Lemma safe_pBytes p : safe (pBytes p).
Proof.
  unfold pBytes. eapply t_bind; [apply (request_spec' _ (zlen_nonneg p))|]. intros u.
  eapply t_bind; [apply (buffer_spec wf)|]. intros b.
  destruct (bytes_eqb b p); [apply safe_advance|apply wr_weaken, safe_fail].
Qed.

Lemma safe_pExact {A} (p : M A) : safe p -> safe (pExact p).
Proof.
  intros Hp. unfold pExact. apply safe_pMap.
  - apply safe_pSeq3; [apply safe_pHead|exact Hp|apply safe_pEnd].
  - intros [[u a] v]. discriminate.
Qed.

Lemma safe_pUntilByte e : safe (pUntilByte e).
Proof.
  unfold pUntilByte. apply safe_bind; [apply push_spec|]. intros _.
  apply safe_bind; [apply safe_try', safe_next|]. intros [[c|] k].
  - apply safe_bind; [apply safe_advance_while|]. intros _.
    apply safe_bind; [apply safe_get|]. intros s. destruct (rest s).
    + apply safe_bind; [apply pop_spec|]. intros _. apply safe_fail.
    + apply trail_spec.
  - apply safe_bind; [apply pop_spec|]. intros _. apply safe_fail.
Qed.

Lemma between_scan_nonneg fuel r : forall l n m, 0 <= n -> between_scan fuel r l n = Some m -> 0 <= m.
Proof.
  induction fuel as [|f IH]; intros l n m Hn H; cbn [between_scan] in H; [discriminate|].
  destruct l as [|c t]; [discriminate|]. destruct (c =? r); [inversion H; lia|].
  destruct (c =? 92).
  - destruct t as [|c2 t']; [discriminate|]. apply (IH t' (n + 2) m); [lia|exact H].
  - apply (IH t (n + 1) m); [lia|exact H].
Qed.

(* variants that remember the stack is not empty (inside a Push) *)
Definition wfp (s : st) : Prop := wf s /\ stk s <> [].
Definition wrp (s : st) : Prop := wr s /\ stk s <> [].

Lemma push_wfp : triple wf push (fun _ => wfp) wf.
Proof.
  intros s Hw. pose proof (push_spec s Hw) as H. unfold push in *. cbn in *. split; [exact H|discriminate].
Qed.

Lemma next_wfp : triple wfp next (fun _ => wrp) wfp.
Proof.
  intros s [Hw Hk]. pose proof (next_spec s Hw) as H.
  assert (S : stk (snd (next s)) = stk s).
  { destruct s as [r o e a k]. unfold next, bind, request, buffer, ret, mpanic. cbn [rest off endr apos stk].
    destruct (has_n r (Z.to_nat 1)); cbn; [|reflexivity].
    destruct (o + 1 - o <? 0); cbn; [reflexivity|]. destruct (firstn (Z.to_nat (o + 1 - o)) r); reflexivity. }
  destruct (next s) as [[c|k| |] s']; cbn [snd] in S; auto.
  - split; [exact H|]. now rewrite S.
  - split; [exact H|]. now rewrite S.
Qed.

Lemma advance_wfp : triple wrp advance (fun _ => wfp) wfp.
Proof.
  intros s [Hr Hk]. pose proof (advance_spec wf s Hr) as H.
  destruct s as [r o e a k]. unfold advance in *. cbn [endr off rest apos stk] in *.
  destruct e as [e0|]; [|exact H].
  destruct ((e0 - o <? 0) || negb (has_n r (Z.to_nat (e0 - o)))); [exact H|].
  split; [exact H|]. unfold autoclear. cbn [stk]. destruct k; [contradiction|]. cbn. discriminate.
Qed.

Lemma advance_wfp' : triple wrp advance (fun _ => wfp) wf.
Proof. eapply t_conseq; [apply advance_wfp| | |]; auto. intros s H; apply H. Qed.

Lemma wfp_weaken {A} (m : M A) : safe m -> triple wfp m (fun _ => wf) wf.
Proof. intros H. eapply t_conseq; [exact H| | |]; auto. intros s [Hw _]; exact Hw. Qed.

Lemma safe_pBetween l r : safe (pBetween l r).
Proof.
  unfold pBetween. eapply t_bind; [apply push_wfp|]. intros u.
  eapply t_bind; [apply (t_try _ _ _ _ wf next_wfp)|]. intros [[c|] k]; cbv beta iota.
  2:{ apply wfp_weaken. apply safe_bind; [apply pop_spec|]. intros _. apply safe_fail. }
  destruct (negb (c =? l)).
  { eapply t_conseq; [apply (safe_bind pop (fun _ => fail EOther) pop_spec (fun _ => safe_fail _))| | |]; auto.
    intros s [[Hw _] _]; exact Hw. }
  eapply t_bind; [apply advance_wfp'|]. intros u2.
  eapply t_bind; [apply (t_get wfp wf)|]. intros s0. cbv beta.
  destruct (between_scan (S (length (rest s0))) r (rest s0) 0) as [n|] eqn:Eb.
  2:{ eapply t_conseq; [apply (safe_bind pop (fun _ => fail EOther) pop_spec (fun _ => safe_fail _))| | |]; auto.
      intros s [_ [Hw _]]; exact Hw. }
  pose proof (between_scan_nonneg (S (length (rest s0))) r (rest s0) 0 n ltac:(lia) Eb) as Hn.
  eapply t_bind.
  { instantiate (1 := fun _ => wf). intros s [Hs [Hw Hk]]. subst s0. unfold put.
    destruct s as [rr o e a kk]. cbn [rest off endr apos stk] in *. destruct Hw as (H1 & H2 & H3 & H4 & H5). cbn [rest off endr apos stk] in *.
    unfold wf, small. cbn [off stk rest]. split; [lia|]. split; [intros; contradiction|].
    split; [apply (frames_le_mono kk o); [assumption|lia]|]. split; [|assumption].
    pose proof (skipn_zlen_le (Z.to_nat n) rr). lia. }
  intros u3. apply safe_bind; [apply trail_spec|]. intros p.
  apply safe_bind; [apply safe_try', safe_skip; lia|]. intros _. apply safe_ret.
Qed.

Lemma safe_pQuoted c : safe (pQuoted c).
Proof. apply safe_pBetween. Qed.

Lemma safe_until_loop {A} (p : M A) : safe p -> forall fuel, safe (until_loop fuel p).
Proof.
  intros Hp. induction fuel as [|f IH]; cbn [until_loop]; [apply safe_nofuel|].
  apply safe_bind; [apply safe_try', Hp|]. intros [[a|] k]; [apply safe_ret|].
  apply safe_bind; [apply drop_spec|]. intros _.
  apply safe_bind; [apply safe_try', safe_skip; lia|]. intros [[x|] k2].
  - apply safe_bind; [apply push_spec|]. intros _. apply IH.
  - apply safe_bind; [apply pop_spec|]. intros _. apply safe_fail.
Qed.

Lemma safe_pUntilP {A} (p : M A) : safe p -> safe (pUntilP p).
Proof.
  intros Hp. unfold pUntilP. apply safe_bind; [apply push_spec|]. intros _.
  apply safe_bind; [apply push_spec|]. intros _.
  apply safe_bind; [apply safe_get|]. intros s.
  apply safe_bind; [apply safe_until_loop, Hp|]. intros _.
  apply safe_bind; [apply pop_spec|]. intros _.
  apply safe_bind; [apply safe_pushed|]. intros [|]; [apply trail_spec|apply safe_fail].
Qed.

(* ---------- pars.Int, pars.Line, pars.EOL *)

Lemma atoi_total l : atoi l <> Panic /\ atoi l <> OutOfFuel.
Proof.
  assert (G : forall neg ds,
    match ds with
    | [] => Err EOther
    | _ => if negb (forallb is_digit ds) then Err EOther
           else let v := digits_val ds 0 in
                if (neg : bool) then (if v <=? int64_max + 1 then Ok (- v) else Err EOther)
                else (if v <=? int64_max then Ok v else Err EOther)
    end <> Panic /\
    match ds with
    | [] => Err EOther
    | _ => if negb (forallb is_digit ds) then Err EOther
           else let v := digits_val ds 0 in
                if (neg : bool) then (if v <=? int64_max + 1 then Ok (- v) else Err EOther)
                else (if v <=? int64_max then Ok v else Err EOther)
    end <> OutOfFuel).
  { intros neg ds. destruct ds as [|x r]; [split; discriminate|].
    destruct (negb (forallb is_digit (x :: r))); [split; discriminate|].
    cbv zeta. destruct neg.
    - destruct (digits_val (x :: r) 0 <=? int64_max + 1); split; discriminate.
    - destruct (digits_val (x :: r) 0 <=? int64_max); split; discriminate. }
  unfold atoi. destruct l as [|c t]; [split; discriminate|].
  destruct (c =? 45); [apply (G true t)|]. destruct (c =? 43); [apply (G false t)|apply (G false (c :: t))].
Qed.

Lemma wr_wf s : wr s -> wf s.
Proof. intros [H _]; exact H. Qed.

Lemma safe_pInt : safe pInt.
Proof.
  unfold pInt. apply safe_bind; [apply push_spec|]. intros _.
  eapply t_bind; [apply next_spec|]. intros c.
  eapply t_bind.
  { instantiate (1 := fun _ => wr). destruct ((c =? 45) || (c =? 43)).
    - eapply t_bind; [apply safe_advance|]. intros u. apply next_spec.
    - apply t_ret. auto. }
  intros c2. cbv beta.
  destruct (negb (is_digit c2)).
  { apply wr_weaken. apply safe_bind; [apply pop_spec|]. intros _. apply safe_fail. }
  destruct (c2 =? 48).
  { eapply t_bind; [apply safe_advance|]. intros u. apply safe_bind; [apply drop_spec|]. intros _. apply safe_ret. }
  apply wr_weaken. apply safe_bind; [apply safe_advance_while|]. intros _.
  apply safe_bind; [apply trail_spec|]. intros p. apply safe_lift. apply atoi_total.
Qed.

Lemma calc_line_nonneg l : forall i n cr, 0 <= i -> 0 <= n -> (cr = true -> 1 <= i) ->
  0 <= fst (calc_line l i n cr) /\ 0 <= snd (calc_line l i n cr).
Proof.
  induction l as [|c t IH]; intros i n cr Hi Hn Hc; cbn [calc_line]; [cbn; lia|].
  destruct (c =? 10); cbn [andb].
  - destruct cr; cbn [fst snd]; [specialize (Hc eq_refl)|]; lia.
  - destruct (c =? 13).
    + apply IH; intros; lia.
    + destruct cr.
      * specialize (Hc eq_refl). cbn [fst snd]. lia.
      * apply IH; try lia; intros; discriminate.
Qed.

Lemma safe_pLine : safe pLine.
Proof.
  unfold pLine. apply safe_bind; [apply safe_get|]. intros s.
  pose proof (calc_line_nonneg (rest s) 0 0 false ltac:(lia) ltac:(lia) ltac:(intros; discriminate)) as [Hi Hn].
  destruct (calc_line (rest s) 0 0 false) as [i n]. cbn [fst snd] in Hi, Hn.
  eapply t_bind; [apply (t_try _ _ _ _ wf (request_spec i Hi))|]. intros r.
  eapply t_bind.
  { instantiate (1 := fun _ => wr). destruct r as [[x|] k]; apply (buffer_spec wf). }
  intros tok. eapply t_bind; [apply safe_advance|]. intros u.
  apply safe_bind; [apply safe_try', safe_skip, Hn|]. intros _. apply safe_ret.
Qed.

Lemma safe_pEOL : safe pEOL.
Proof.
  unfold pEOL. eapply t_bind; [apply (t_try _ _ _ _ wf next_spec)|]. intros [[c|] k]; cbv beta iota.
  2:{ apply safe_ret. }
  destruct (c =? 10).
  { eapply t_bind; [apply safe_advance|]. intros u. apply safe_ret. }
  destruct (c =? 13); [|apply wr_weaken, safe_fail].
  eapply t_bind; [apply safe_advance|]. intros u.
  eapply t_bind; [apply (t_try _ _ _ _ wf next_spec)|]. intros [[c2|] k2]; cbv beta iota.
  - destruct c2 as [|p|p]; try (apply wr_weaken, safe_ret).
    repeat (destruct p as [p|p|]; try (apply wr_weaken, safe_ret)).
    eapply t_bind; [apply safe_advance|]. intros u2. apply safe_ret.
  - apply safe_ret.
Qed.
