(* RegionProofs.v — Minimize / Invert (C09) *)
From Coq Require Import Sorting.Sorted Sorting.Permutation.
From GTS Require Import Base Arith Loc Region BaseLemmas LocProofs.
Open Scope Z_scope.

Notation seg := (Z * Z)%type.
Definition norm (s : seg) : Prop := fst s <= snd s.
Definition cov (s : seg) (x : Z) : Prop := fst s <= x < snd s.
Definition covb (s : seg) (x : Z) : bool := (fst s <=? x) && (x <? snd s).
Definition countc (l : list seg) (x : Z) : nat := length (filter (fun s => covb s x) l).
Definition covl (l : list seg) (x : Z) : Prop := Exists (fun s => cov s x) l.

Lemma covb_spec s x : covb s x = true <-> cov s x.
Proof. unfold covb, cov. rewrite andb_true_iff, Z.leb_le, Z.ltb_lt. tauto. Qed.

Lemma countc_app a b x : countc (a ++ b) x = (countc a x + countc b x)%nat.
Proof. unfold countc. now rewrite filter_app, app_length. Qed.

Lemma countc_cons s l x : countc (s :: l) x = ((if covb s x then 1 else 0) + countc l x)%nat.
Proof. unfold countc. cbn [filter]. destruct (covb s x); reflexivity. Qed.

Lemma covl_countc l x : covl l x <-> (0 < countc l x)%nat.
Proof.
  induction l as [|s t IH].
  - split; [inversion 1 | cbn; lia].
  - rewrite countc_cons. split.
    + inversion 1; subst.
      * apply covb_spec in H1. rewrite H1. lia.
      * apply IH in H1. lia.
    + intros H. destruct (covb s x) eqn:E.
      * left. now apply covb_spec.
      * right. apply IH. lia.
Qed.

(* ---------- flattening *)

(* residues covered by a region, orientation ignored *)
Fixpoint rcov (r : region) (x : Z) : Prop :=
  match r with
  | Seg h t => Z.min h t <= x < Z.max h t
  | Regs rs => (fix go (rs : list region) : Prop :=
                  match rs with [] => False | r :: t => rcov r x \/ go t end) rs
  end.

Lemma covl_app a b x : covl (a ++ b) x <-> covl a x \/ covl b x.
Proof. unfold covl. apply Exists_app. Qed.

Lemma flatten_cov r : forall x, covl (flatten_region r) x <-> rcov r x.
Proof.
  induction r as [h t|rs IH] using region_ind'; intros x.
  - cbn [flatten_region rcov]. destruct (t <? h) eqn:E; [apply Z.ltb_lt in E | apply Z.ltb_ge in E];
      unfold covl; rewrite Exists_cons, Exists_nil; unfold cov; cbn [fst snd]; lia.
  - cbn [flatten_region rcov]. induction IH as [|r t Hr _ IHt]; cbn [flat_map].
    + unfold covl. rewrite Exists_nil. tauto.
    + rewrite covl_app, Hr, IHt. tauto.
Qed.

Lemma flatten_norm r : Forall norm (flatten_region r).
Proof.
  induction r as [h t|rs IH] using region_ind'.
  - cbn [flatten_region]. destruct (t <? h) eqn:E; [apply Z.ltb_lt in E | apply Z.ltb_ge in E];
      constructor; [unfold norm; cbn; lia | constructor | unfold norm; cbn; lia | constructor].
  - cbn [flatten_region]. induction IH; cbn [flat_map]; [constructor|]. now apply Forall_app.
Qed.

(* ---------- sorting *)

Definition lexle (a b : seg) : Prop := fst a < fst b \/ (fst a = fst b /\ snd a <= snd b).
Definition fle (a b : seg) : Prop := fst a <= fst b.

Lemma seg_less_norm a b : norm a -> norm b ->
  seg_less a b = true <-> (fst a < fst b \/ (fst a = fst b /\ snd a < snd b)).
Proof.
  unfold norm, seg_less. intros Ha Hb. destruct a as [a0 a1], b as [b0 b1]. cbn [fst snd] in *.
  replace (a1 <? a0) with false by (symmetry; apply Z.ltb_ge; lia).
  replace (b1 <? b0) with false by (symmetry; apply Z.ltb_ge; lia).
  destruct (a0 <? b0) eqn:E1; [apply Z.ltb_lt in E1; split; [lia | reflexivity]|].
  apply Z.ltb_ge in E1. destruct (b0 <? a0) eqn:E2.
  - apply Z.ltb_lt in E2. split; [discriminate | lia].
  - apply Z.ltb_ge in E2. rewrite Z.ltb_lt. lia.
Qed.

Lemma seg_insert_perm x l : Permutation (x :: l) (seg_insert x l).
Proof.
  induction l as [|y t IH]; cbn [seg_insert]; [reflexivity|].
  destruct (seg_less y x); [|reflexivity].
  rewrite perm_swap. now constructor.
Qed.

Lemma seg_sort_perm l : Permutation l (seg_sort l).
Proof.
  induction l as [|x t IH]; cbn [seg_sort fold_right]; [constructor|].
  rewrite <- seg_insert_perm. now constructor.
Qed.

Lemma seg_insert_sorted x l : norm x -> Forall norm l ->
  StronglySorted lexle l -> StronglySorted lexle (seg_insert x l).
Proof.
  intros Hx Hl Hs. induction Hs as [|y t Hs IH Hall]; cbn [seg_insert].
  - repeat constructor.
  - inversion Hl; subst. destruct (seg_less y x) eqn:E.
    + constructor; [now apply IH|].
      apply (Permutation_Forall (seg_insert_perm x t)). constructor; [|exact Hall].
      apply seg_less_norm in E; try assumption. unfold lexle. lia.
    + constructor; [now constructor|].
      assert (Hxy : lexle x y).
      { assert (~ (fst y < fst x \/ (fst y = fst x /\ snd y < snd x))).
        { intros C. apply seg_less_norm in C; try assumption. congruence. }
        unfold lexle. lia. }
      constructor; [exact Hxy|].
      eapply Forall_impl; [|exact Hall]. intros z Hz. unfold lexle in *. lia.
Qed.

Lemma seg_sort_norm l : Forall norm l -> Forall norm (seg_sort l).
Proof. intros H. exact (Permutation_Forall (seg_sort_perm l) H). Qed.

Lemma seg_sort_sorted l : Forall norm l -> StronglySorted lexle (seg_sort l).
Proof.
  induction l as [|x t IH]; intros H; cbn [seg_sort fold_right]; [constructor|].
  inversion H; subst. apply seg_insert_sorted; [assumption | now apply seg_sort_norm | now apply IH].
Qed.

Lemma lexle_antisym a b : lexle a b -> lexle b a -> a = b.
Proof. unfold lexle. destruct a, b; cbn [fst snd]. intros. f_equal; lia. Qed.

Lemma sorted_perm_unique (l1 l2 : list seg) :
  StronglySorted lexle l1 -> StronglySorted lexle l2 -> Permutation l1 l2 -> l1 = l2.
Proof.
  revert l2. induction l1 as [|a t IH]; intros l2 H1 H2 HP.
  - apply Permutation_nil in HP. now subst.
  - destruct l2 as [|b u]; [apply Permutation_sym, Permutation_nil in HP; discriminate|].
    inversion H1 as [|? ? Ht Ha]; subst. inversion H2 as [|? ? Hu Hb]; subst.
    assert (a = b).
    { assert (Ia : In a (b :: u)) by (eapply Permutation_in; [exact HP | now left]).
      assert (Ib : In b (a :: t)) by (eapply Permutation_in; [apply Permutation_sym; exact HP | now left]).
      destruct Ia as [->|Ia]; [reflexivity|]. destruct Ib as [->|Ib]; [reflexivity|].
      rewrite Forall_forall in Ha, Hb. apply lexle_antisym; auto. }
    subst b. f_equal. apply IH; try assumption. now apply Permutation_cons_inv in HP.
Qed.

(* ---------- the merge loop *)

Fixpoint wfsegs (l : list seg) : Prop :=
  match l with
  | [] => True
  | a :: t => norm a /\ match t with [] => True | b :: _ => snd a < fst b end /\ wfsegs t
  end.

Lemma covl_cons s l x : covl (s :: l) x <-> cov s x \/ covl l x.
Proof. unfold covl. apply Exists_cons. Qed.

Lemma merge_unfold f a b t :
  merge_sorted (S f) (a :: b :: t) =
  if snd a <? fst b then a :: merge_sorted f (b :: t)
  else merge_sorted f ((go_Min (fst a) (fst b), go_Max (snd a) (snd b)) :: t).
Proof. reflexivity. Qed.

Lemma merge_ok fuel : forall l, (length l <= fuel)%nat ->
  StronglySorted fle l -> Forall norm l ->
  let m := merge_sorted fuel l in
  wfsegs m /\ (forall x, covl m x <-> covl l x) /\
  match l, m with
  | a :: _, a' :: _ => fst a' = fst a
  | [], [] => True
  | _, _ => False
  end.
Proof.
  induction fuel as [|f IH]; intros l Hlen Hs Hn m.
  - destruct l; [|cbn in Hlen; lia]. subst m. cbn. repeat split; tauto.
  - destruct l as [|a [|b t]]; subst m.
    + cbn. repeat split; tauto.
    + inversion Hn; subst. cbn. repeat split; try tauto.
    + rewrite merge_unfold.
      inversion Hn as [|? ? Hna Hn']; subst. inversion Hn' as [|? ? Hnb Hnt]; subst.
      inversion Hs as [|? ? Hs' Hall]; subst. inversion Hall as [|? ? Hab Hat]; subst.
      destruct (snd a <? fst b) eqn:E; [apply Z.ltb_lt in E | apply Z.ltb_ge in E].
      * destruct (IH (b :: t)) as [Hw [Hc Hh]]; [cbn in *; lia | exact Hs' | exact Hn'|].
        destruct (merge_sorted f (b :: t)) as [|b' m'] eqn:Em; [contradiction|].
        cbv iota in Hh.
        split; [|split].
        -- change (norm a /\ snd a < fst b' /\ wfsegs (b' :: m')).
           split; [exact Hna|]. split; [lia | exact Hw].
        -- intros x. rewrite !covl_cons. rewrite <- (covl_cons b t), <- Hc, covl_cons. tauto.
        -- reflexivity.
      * rewrite go_Min_spec, go_Max_spec.
        unfold fle in Hab.
        replace (Z.min (fst a) (fst b)) with (fst a) by lia.
        set (c := (fst a, Z.max (snd a) (snd b))).
        destruct (IH (c :: t)) as [Hw [Hc Hh]].
        -- cbn in *; lia.
        -- inversion Hs' as [|? ? Hst Hbt]; subst. constructor; [exact Hst|].
           eapply Forall_impl; [|exact Hbt]. intros z Hz. unfold fle, c in *. cbn [fst]. lia.
        -- constructor; [unfold norm, c in *; cbn [fst snd]; unfold norm in Hna; lia | exact Hnt].
        -- destruct (merge_sorted f (c :: t)) as [|c' m'] eqn:Em; [contradiction|].
           split; [exact Hw|]. split.
           ++ intros x. rewrite Hc, !covl_cons. unfold cov, c. cbn [fst snd].
              unfold norm in *. intuition lia.
           ++ exact Hh.
Qed.

Lemma lexle_fle l : StronglySorted lexle l -> StronglySorted fle l.
Proof.
  induction 1; constructor; [assumption|].
  eapply Forall_impl; [|eassumption]. intros z Hz. unfold lexle, fle in *. lia.
Qed.

Lemma covl_perm l1 l2 x : Permutation l1 l2 -> covl l1 x -> covl l2 x.
Proof.
  intros HP H. unfold covl in *. apply Exists_exists in H as [s [Hi Hc]].
  apply Exists_exists. exists s. split; [eapply Permutation_in; eassumption | exact Hc].
Qed.

(* Minimize: forward-oriented, strictly increasing, disjoint, non-abutting *)
Theorem minimize_wf r : wfsegs (minimize r).
Proof.
  unfold minimize.
  apply (merge_ok (length (seg_sort (flatten_region r))) (seg_sort (flatten_region r))).
  - lia.
  - apply lexle_fle, seg_sort_sorted, flatten_norm.
  - apply seg_sort_norm, flatten_norm.
Qed.

(* ... whose union is exactly the set of residues covered by the input *)
Theorem minimize_cover r x : covl (minimize r) x <-> rcov r x.
Proof.
  unfold minimize.
  destruct (merge_ok (length (seg_sort (flatten_region r))) (seg_sort (flatten_region r)))
    as [_ [Hc _]].
  - lia.
  - apply lexle_fle, seg_sort_sorted, flatten_norm.
  - apply seg_sort_norm, flatten_norm.
  - rewrite Hc, <- flatten_cov. split; apply covl_perm;
      [apply Permutation_sym|]; apply seg_sort_perm.
Qed.

(* ... regardless of input order, strand, nesting: only the multiset of
   orientation-normalised segments matters *)
Theorem minimize_order_independent r1 r2 :
  Permutation (flatten_region r1) (flatten_region r2) -> minimize r1 = minimize r2.
Proof.
  intros HP. unfold minimize.
  assert (E : seg_sort (flatten_region r1) = seg_sort (flatten_region r2)).
  { apply sorted_perm_unique.
    - apply seg_sort_sorted, flatten_norm.
    - apply seg_sort_sorted, flatten_norm.
    - rewrite <- (seg_sort_perm (flatten_region r1)), <- (seg_sort_perm (flatten_region r2)). exact HP. }
  now rewrite E.
Qed.

Lemma flatten_orientation h t : flatten_region (Seg h t) = flatten_region (Seg t h).
Proof.
  cbn [flatten_region]. destruct (t <? h) eqn:E1; destruct (h <? t) eqn:E2;
    try reflexivity; [apply Z.ltb_lt in E1; apply Z.ltb_lt in E2; lia|].
  apply Z.ltb_ge in E1. apply Z.ltb_ge in E2. replace t with h by lia. reflexivity.
Qed.

(* ---------- inversion *)

Lemma wfsegs_all_after s t : wfsegs (s :: t) -> Forall (fun u => snd s < fst u) t.
Proof.
  revert s. induction t as [|b u IH]; intros s H; [constructor|].
  destruct H as [Hs [Hlt Hw]]. constructor; [exact Hlt|].
  specialize (IH b Hw). destruct Hw as [Hb _]. unfold norm in Hb.
  eapply Forall_impl; [|exact IH]. intros z Hz. cbn beta in *. lia.
Qed.

Lemma countc_zero_below l x lo : Forall (fun u => lo <= fst u) l -> x < lo -> countc l x = O.
Proof.
  induction 1 as [|u t Hu _ IH]; intros Hx; [reflexivity|].
  rewrite countc_cons, IH by assumption. unfold covb.
  replace (fst u <=? x) with false by (symmetry; apply Z.leb_gt; lia). reflexivity.
Qed.

Lemma invert_starts ss : forall start n, wfsegs ss ->
  match ss with [] => True | s :: _ => start <= fst s end ->
  Forall (fun u => start <= fst u) (invert_segments ss start n).
Proof.
  induction ss as [|s t IH]; intros start n Hw Hst; cbn [invert_segments].
  - destruct (negb (start =? n)); repeat constructor. cbn. lia.
  - apply Forall_app. split.
    + destruct (negb (start =? fst s)); repeat constructor. cbn. lia.
    + destruct Hw as [Hs [Hlt Hw]]. unfold norm in Hs.
      specialize (IH (snd s) n Hw). eapply Forall_impl; [|apply IH].
      * intros z Hz. cbn beta in *. lia.
      * destruct t; [exact I | lia].
Qed.

(* every position of [start,n) is covered exactly once by the minimized
   segments together with the inverted ones; inverted segments are non-empty *)
Lemma invert_partition ss : forall start n, wfsegs ss ->
  match ss with [] => True | s :: _ => start <= fst s end ->
  Forall (fun u => snd u <= n) ss -> start <= n ->
  Forall (fun u => fst u < snd u) (invert_segments ss start n) /\
  forall x, start <= x < n -> countc (ss ++ invert_segments ss start n) x = 1%nat.
Proof.
  induction ss as [|s t IH]; intros start n Hw Hst Hn Hsn; cbn [invert_segments].
  - destruct (start =? n) eqn:E; [apply Z.eqb_eq in E | apply Z.eqb_neq in E]; cbn [negb app].
    + split; [constructor | intros x Hx; lia].
    + split; [repeat constructor; cbn; lia|].
      intros x Hx. rewrite countc_cons. unfold covb. cbn [fst snd countc filter length].
      replace (start <=? x) with true by (symmetry; apply Z.leb_le; lia).
      replace (x <? n) with true by (symmetry; apply Z.ltb_lt; lia). reflexivity.
  - pose proof (wfsegs_all_after s t Hw) as Hafter.
    destruct Hw as [Hs [Hlt Hw]]. unfold norm in Hs.
    inversion Hn as [|? ? Hsn' Hn']; subst.
    destruct (IH (snd s) n Hw) as [Hne Hcnt]; try assumption.
    { destruct t; [exact I | lia]. }
    assert (Hinv_after : Forall (fun u => snd s <= fst u) (invert_segments t (snd s) n)).
    { apply invert_starts; [exact Hw|]. destruct t; [exact I | lia]. }
    split.
    + apply Forall_app. split; [|exact Hne].
      destruct (start =? fst s) eqn:E; [apply Z.eqb_eq in E | apply Z.eqb_neq in E]; cbn [negb];
        repeat constructor. cbn. lia.
    + intros x Hx. cbn [app]. rewrite countc_cons, countc_app, countc_app.
      assert (Hpre : countc (if negb (start =? fst s) then [(start, fst s)] else []) x
                     = if (start <=? x) && (x <? fst s) then 1%nat else 0%nat).
      { destruct (start =? fst s) eqn:E; [apply Z.eqb_eq in E | apply Z.eqb_neq in E]; cbn [negb].
        - cbn. destruct ((start <=? x) && (x <? fst s)) eqn:E'; [|reflexivity].
          apply andb_true_iff in E' as [E1 E2]. apply Z.leb_le in E1. apply Z.ltb_lt in E2. lia.
        - rewrite countc_cons. unfold covb. cbn [fst snd countc filter length].
          destruct ((start <=? x) && (x <? fst s)); reflexivity. }
      rewrite Hpre. unfold covb.
      destruct (Z.lt_ge_cases x (fst s)) as [H1|H1].
      * replace (fst s <=? x) with false by (symmetry; apply Z.leb_gt; lia).
        replace (start <=? x) with true by (symmetry; apply Z.leb_le; lia).
        replace (x <? fst s) with true by (symmetry; apply Z.ltb_lt; lia). cbn [andb].
        rewrite (countc_zero_below t x (snd s)); [| eapply Forall_impl; [|exact Hafter]; cbn beta; intros; lia | lia].
        rewrite (countc_zero_below _ x (snd s) Hinv_after) by lia. reflexivity.
      * replace (x <? fst s) with false by (symmetry; apply Z.ltb_ge; lia). rewrite andb_false_r.
        replace (fst s <=? x) with true by (symmetry; apply Z.leb_le; lia). cbn [andb].
        destruct (Z.lt_ge_cases x (snd s)) as [H2|H2].
        -- replace (x <? snd s) with true by (symmetry; apply Z.ltb_lt; lia).
           rewrite (countc_zero_below t x (snd s)); [| eapply Forall_impl; [|exact Hafter]; cbn beta; intros; lia | lia].
           rewrite (countc_zero_below _ x (snd s) Hinv_after) by lia. reflexivity.
        -- replace (x <? snd s) with false by (symmetry; apply Z.ltb_ge; lia).
           specialize (Hcnt x ltac:(lia)). rewrite countc_app in Hcnt. lia.
Qed.

Definition within (n : Z) (r : region) : Prop :=
  Forall (fun u => 0 <= fst u /\ snd u <= n) (flatten_region r).

Lemma within_minimize n r : within n r -> 0 <= n ->
  Forall (fun u => 0 <= fst u /\ snd u <= n) (minimize r).
Proof.
  intros Hw Hn. unfold minimize.
  set (ss := seg_sort (flatten_region r)).
  assert (Hb : Forall (fun u => 0 <= fst u /\ snd u <= n) ss)
    by (exact (Permutation_Forall (seg_sort_perm _) Hw)).
  assert (Hnm : Forall norm ss) by (apply seg_sort_norm, flatten_norm).
  clearbody ss. generalize (length ss) at 1. intros fuel. revert ss Hb Hnm.
  induction fuel as [|f IH]; intros ss Hb Hnm; [exact Hb|].
  destruct ss as [|a [|b t]]; cbn [merge_sorted]; try exact Hb.
  inversion Hb as [|? ? Ha Hb']; subst. inversion Hb' as [|? ? Hbb Ht]; subst.
  inversion Hnm as [|? ? Hna Hnm']; subst. inversion Hnm' as [|? ? Hnb Hnt]; subst.
  destruct (snd a <? fst b).
  - constructor; [exact Ha|]. apply IH; assumption.
  - apply IH.
    + constructor; [|exact Ht]. rewrite go_Min_spec, go_Max_spec. cbn [fst snd]. lia.
    + constructor; [|exact Hnt]. unfold norm in *. rewrite go_Min_spec, go_Max_spec. cbn [fst snd]. lia.
Qed.

(* InvertLinear: non-empty disjoint segments that together with the minimized
   segments cover every position of [0,n) exactly once *)
Theorem invert_linear_partition r n : 0 <= n -> within n r ->
  let inv := invert_segments (minimize r) 0 n in
  Forall (fun u => fst u < snd u) inv /\
  forall x, 0 <= x < n -> countc (minimize r ++ inv) x = 1%nat.
Proof.
  intros Hn Hw inv. subst inv.
  pose proof (within_minimize n r Hw Hn) as Hb.
  apply invert_partition.
  - apply minimize_wf.
  - destruct (minimize r) as [|s t]; [exact I|]. inversion Hb; subst. tauto.
  - eapply Forall_impl; [|exact Hb]. cbn beta. intros; tauto.
  - exact Hn.
Qed.

(* ---------- modifiers (C08) *)

(* resizing commutes with strand mirroring: for a region with head <> tail,
   mirroring the coordinates mirrors the result *)
Theorem apply_mirror m h t L : h <> t ->
  let '(a, b) := mod_apply m h t in mod_apply m (L - h) (L - t) = (L - a, L - b).
Proof.
  intros Hne. unfold mod_apply.
  destruct (t <? h) eqn:E1; [apply Z.ltb_lt in E1 | apply Z.ltb_ge in E1].
  - replace (L - t <? L - h) with false by (symmetry; apply Z.ltb_ge; lia).
    destruct m; cbn [apply_fwd]; rewrite ?go_Max_spec; f_equal; lia.
  - replace (L - t <? L - h) with true by (symmetry; apply Z.ltb_lt; lia).
    destruct m; cbn [apply_fwd]; rewrite ?go_Max_spec; f_equal; lia.
Qed.

(* bounds [lo,hi) of a modifier inside a region of the given length *)
Definition mod_bounds (m : modifier) (total : Z) : Z * Z :=
  let '(lo, hi) :=
    match m with
    | MHead p => (p, p)
    | MTail q => (total + q, total + q)
    | MHeadTail p q => (p, total + q)
    | MHeadHead p q => (p, q)
    | MTailTail p q => (total + p, total + q)
    end in (lo, Z.max lo hi).

Lemma skipn_zrange_n k s n : skipn k (zrange_n s n) = zrange_n (s + Z.of_nat k) (n - k).
Proof.
  revert s n. induction k as [|k IH]; intros s n.
  - rewrite Nat.sub_0_r. cbn [skipn]. f_equal. lia.
  - destruct n as [|n]; [reflexivity|]. cbn [zrange_n skipn]. rewrite IH. cbn [Nat.sub]. f_equal. lia.
Qed.

Lemma firstn_zrange_n k s n : firstn k (zrange_n s n) = zrange_n s (Nat.min k n).
Proof.
  revert s n. induction k as [|k IH]; intros s n; [reflexivity|].
  destruct n as [|n]; [reflexivity|]. cbn [zrange_n firstn Nat.min]. now rewrite IH.
Qed.

Lemma slice_zrange s e lo hi : 0 <= lo <= hi -> hi <= e - s ->
  firstn (Z.to_nat (hi - lo)) (skipn (Z.to_nat lo) (zrange s e)) = zrange (s + lo) (s + hi).
Proof.
  intros H1 H2. unfold zrange. rewrite skipn_zrange_n, firstn_zrange_n.
  replace (Z.of_nat (Z.to_nat lo)) with lo by lia. f_equal. lia.
Qed.

(* a single forward segment: the resized segment denotes exactly the slice
   [lo,hi) of what the segment denotes *)
Theorem segment_resize_slice m h t : h <= t ->
  let '(lo, hi) := mod_bounds m (t - h) in
  0 <= lo -> hi <= t - h ->
  let '(h', t') := mod_apply m h t in
  region_den (Seg h' t') =
  firstn (Z.to_nat (hi - lo)) (skipn (Z.to_nat lo) (region_den (Seg h t))).
Proof.
  intros Hht. unfold mod_bounds, mod_apply.
  replace (t <? h) with false by (symmetry; apply Z.ltb_ge; lia).
  destruct m; cbn [apply_fwd]; rewrite ?go_Max_spec; intros Hlo Hhi; cbn [region_den].
  all: match goal with |- context [?b <? ?a] => replace (b <? a) with false by (symmetry; apply Z.ltb_ge; lia) end.
  all: replace (t <? h) with false by (symmetry; apply Z.ltb_ge; lia).
  all: rewrite skipn_map, firstn_map; f_equal.
  all: rewrite slice_zrange by lia; f_equal; lia.
Qed.
