(* ModSafe.v — C07: AsModifier and AsLocator never panic. *)
From Coq Require Import List ZArith Lia Bool.
From GTS Require Import Base Arith Pars Loc LocParse ModParse Seq Region Select Locator BaseLemmas ParsLemmas Safety JoinSafe LocSafe.
Import ListNotations.
Open Scope Z_scope.

Lemma safe_bind_ret {A B} (p : M A) (f : A -> B) : safe p -> safe (x <-- p ;;; ret (f x)).
Proof. intros H. apply safe_bind; [exact H|]. intros x. apply safe_ret. Qed.

Lemma safe_parse_anchor c : safe (parse_anchor c).
Proof.
  unfold parse_anchor. apply safe_pMap; [|discriminate].
  apply safe_pAny. repeat constructor.
  - apply safe_pMap; [|discriminate]. apply safe_pSeq2; [apply safe_pByte|apply safe_pInt].
  - apply safe_bind; [apply safe_pByte|]. intros _. apply safe_ret.
Qed.

Lemma safe_pair c1 c2 (mk : Z -> Z -> modifier) :
  safe (pMap (pSeq3 (parse_anchor c1) (pBytes s_dots) (parse_anchor c2)) (fun '(p, _, q) => Ok (mk p q))).
Proof.
  apply safe_pMap; [|intros [[p u] q]; discriminate].
  apply safe_pSeq3; [apply safe_parse_anchor|apply safe_pBytes|apply safe_parse_anchor].
Qed.

Lemma safe_parse_modifier : safe parse_modifier.
Proof.
  unfold parse_modifier. apply safe_pAny. repeat constructor.
  - apply safe_pair.
  - apply safe_pair.
  - apply safe_pair.
  - apply safe_bind_ret, safe_parse_anchor.
  - apply safe_bind_ret, safe_parse_anchor.
Qed.

Theorem as_modifier_no_panic s : zlen s <= input_bound -> as_modifier s <> Panic.
Proof.
  intros Hb. unfold as_modifier, run.
  pose proof (safe_pExact _ safe_parse_modifier (st_of s) (wf_st_of s Hb)) as H.
  destruct (pExact parse_modifier (st_of s)) as [[l|k| |] s']; cbn [fst]; try discriminate. contradiction.
Qed.

Section Loc.
  Variable re_ok : list byte -> bool.

  Lemma selector_loop_no_panic fuel : forall tail flt, selector_loop re_ok fuel tail flt <> Panic.
  Proof.
    induction fuel as [|f IH]; intros tail flt; cbn [selector_loop]; [discriminate|].
    destruct tail as [|c t]; [discriminate|].
    destruct (shift_selector (c :: t) false []) as [h tl]. unfold to_qualifier.
    destruct (index_of 61 h []) as [[n q]|]; (destruct (re_ok _); cbn [obind]; [apply IH|discriminate]).
  Qed.

  Lemma selector_no_panic s : selector re_ok s <> Panic.
  Proof. unfold selector. destruct (shift_selector s false []) as [h t]. apply selector_loop_no_panic. Qed.

  Theorem as_locator_no_panic s : zlen s <= input_bound -> as_locator re_ok s <> Panic.
  Proof.
    intros Hb.
    assert (Hplain : forall x, zlen x <= input_bound -> as_locator_plain re_ok x <> Panic).
    { intros x Hx. unfold as_locator_plain.
      pose proof (as_modifier_no_panic x Hx). pose proof (try_location_no_panic x Hx). pose proof (selector_no_panic x).
      destruct (as_modifier x); try discriminate; try contradiction.
      destruct (try_location x); try discriminate; try contradiction.
      destruct (selector re_ok x); try discriminate; contradiction. }
    unfold as_locator. destruct (split_at s []) as [[x m]|] eqn:E; [|now apply Hplain].
    assert (Hlen : zlen x <= zlen s /\ zlen m <= zlen s).
    { assert (G : forall s0 acc x0 m0, split_at s0 acc = Some (x0, m0) -> zlen x0 <= zlen acc + zlen s0 /\ zlen m0 <= zlen s0).
      { induction s0 as [|c t IH]; intros acc x0 m0 H0; cbn [split_at] in H0; [discriminate|].
        rewrite zlen_cons. pose proof (zlen_nonneg t). destruct (c =? 64).
        - inversion H0; subst. rewrite zlen_rev. lia.
        - destruct (IH _ _ _ H0) as [A1 A2]. rewrite zlen_cons in A1. lia. }
      destruct (G s [] x m E) as [G1 G2]. change (zlen (@nil byte)) with 0 in G1. lia. }
    pose proof (as_modifier_no_panic m ltac:(lia)) as Hm.
    destruct x as [|c t].
    - destruct (as_modifier m); cbn [obind]; try discriminate; contradiction.
    - pose proof (Hplain (c :: t) ltac:(lia)) as Hx.
      destruct (as_locator_plain re_ok (c :: t)); cbn [obind]; try discriminate; try contradiction.
      destruct (as_modifier m); cbn [obind]; try discriminate; contradiction.
  Qed.
End Loc.
