From GTS Require Import Base Pars BaseLemmas ParsLemmas.
From Coq Require Import Lia.
Open Scope Z_scope.

(* ---------- strconv.Itoa then pars.Int / strconv.Atoi *)

Lemma digits_val_app l1 : forall l2 a, digits_val (l1 ++ l2) a = digits_val l2 (digits_val l1 a).
Proof. induction l1 as [|c t IH]; intros l2 a; [reflexivity|]. cbn [app digits_val]. apply IH. Qed.

Definition all_digits (l : list Z) : Prop := Forall (fun c => is_digit c = true) l.

Lemma digit_is_digit r : 0 <= r < 10 -> is_digit (48 + r) = true.
Proof. intros H. unfold is_digit. destruct (Z.leb_spec 48 (48 + r)); destruct (Z.leb_spec (48 + r) 57); try lia; reflexivity. Qed.

Lemma digits_pos_S k n acc : digits_pos (S k) n acc =
  if n <? 10 then (48 + n mod 10) :: acc else digits_pos k (n / 10) ((48 + n mod 10) :: acc).
Proof. reflexivity. Qed.

(* digits_pos n acc = (the decimal digits of n) ++ acc *)
Lemma digits_pos_spec f : forall n acc, 0 <= n < 2 ^ Z.of_nat (S f) ->
  exists ds, digits_pos (S f) n acc = ds ++ acc /\ all_digits ds /\ ds <> [] /\
             (forall a, digits_val ds a = a * 10 ^ zlen ds + n) /\ n < 10 ^ zlen ds /\
             (n <> 0 -> hd 0 ds <> 48) /\ (n = 0 -> ds = [48]).
Proof.
  induction f as [|f IH]; intros n acc Hn; rewrite digits_pos_S.
  - assert (n < 10) by (change (2 ^ Z.of_nat 1) with 2 in Hn; lia).
    destruct (Z.ltb_spec n 10); [|lia]. rewrite Z.mod_small by lia.
    exists [48 + n]. split; [reflexivity|]. split; [repeat constructor; apply digit_is_digit; lia|]. split; [discriminate|].
    split; [intros a; cbn [digits_val]; change (zlen [48 + n]) with 1; lia|]. split; [change (zlen [48 + n]) with 1; lia|].
    split; [cbn [hd]; lia|intros ->; reflexivity].
  - destruct (Z.ltb_spec n 10).
    + rewrite Z.mod_small by lia.
      exists [48 + n]. split; [reflexivity|]. split; [repeat constructor; apply digit_is_digit; lia|]. split; [discriminate|].
      split; [intros a; cbn [digits_val]; change (zlen [48 + n]) with 1; lia|]. split; [change (zlen [48 + n]) with 1; lia|].
      split; [cbn [hd]; lia|intros ->; reflexivity].
    + assert (Hq : 0 <= n / 10 < 2 ^ Z.of_nat (S f)).
      { split; [apply Z.div_pos; lia|]. apply Z.div_lt_upper_bound; [lia|].
        rewrite (Nat2Z.inj_succ (S f)), Z.pow_succ_r in Hn by lia. lia. }
      destruct (IH (n / 10) ((48 + n mod 10) :: acc) Hq) as (ds & E & Hd & Hne & Hv & Hlt & Hh & _).
      assert (Hm : 0 <= n mod 10 < 10) by (apply Z.mod_pos_bound; lia).
      exists (ds ++ [48 + n mod 10]). rewrite E, <- app_assoc. split; [reflexivity|].
      split; [apply Forall_app; split; [exact Hd|repeat constructor; apply digit_is_digit; exact Hm]|].
      split; [destruct ds; discriminate|].
      assert (Hl : zlen (ds ++ [48 + n mod 10]) = zlen ds + 1) by (rewrite zlen_app; reflexivity).
      pose proof (zlen_nonneg ds) as Hz.
      split.
      { intros a. rewrite digits_val_app, Hv. cbn [digits_val]. rewrite Hl, Z.pow_add_r by lia.
        pose proof (Z.div_mod n 10 ltac:(lia)). change (10 ^ 1) with 10. lia. }
      split.
      { rewrite Hl, Z.pow_add_r by lia. change (10 ^ 1) with 10. pose proof (Z.div_mod n 10 ltac:(lia)). lia. }
      split.
      { intros _. destruct ds as [|d0 t]; [contradiction|]. cbn [app hd]. cbn [hd] in Hh. apply Hh.
        assert (1 <= n / 10) by (apply Z.div_le_lower_bound; lia). lia. }
      { intros ->. lia. }
Qed.

Lemma itoa_spec n : 0 <= n ->
  exists ds, itoa n = ds /\ all_digits ds /\ ds <> [] /\ digits_val ds 0 = n /\
             (n <> 0 -> hd 0 ds <> 48) /\ (n = 0 -> ds = [48]).
Proof.
  intros Hn. unfold itoa. destruct (Z.ltb_spec n 0); [lia|]. unfold digits_nat.
  assert (Hb : 0 <= n < 2 ^ Z.of_nat (S (Z.to_nat (Z.log2 n)))).
  { split; [exact Hn|]. rewrite Nat2Z.inj_succ, Z2Nat.id by apply Z.log2_nonneg.
    destruct (Z.eq_dec n 0) as [->|]; [reflexivity|]. apply Z.log2_spec. lia. }
  destruct (digits_pos_spec (Z.to_nat (Z.log2 n)) n [] Hb) as (ds & E & Hd & Hne & Hv & _ & Hh & H0).
  exists ds. rewrite E, app_nil_r. repeat split; try assumption. rewrite Hv. lia.
Qed.

Lemma forallb_all_digits ds : all_digits ds -> forallb is_digit ds = true.
Proof. intros H. induction H as [|c t Hc _ IH]; [reflexivity|]. cbn [forallb]. now rewrite Hc, IH. Qed.

Theorem atoi_itoa n : 0 <= n <= int64_max -> atoi (itoa n) = Ok n.
Proof.
  intros Hn. destruct (itoa_spec n ltac:(lia)) as (ds & -> & Hd & Hne & Hv & _ & _).
  unfold atoi. destruct ds as [|c t]; [contradiction|].
  assert (Hc : is_digit c = true) by (inversion Hd; assumption).
  unfold is_digit in Hc. 
  destruct (Z.eqb_spec c 45); [subst; discriminate|]. destruct (Z.eqb_spec c 43); [subst; discriminate|].
  rewrite (forallb_all_digits _ Hd). cbn [negb]. rewrite Hv.
  destruct (Z.leb_spec n int64_max); [reflexivity|lia].
Qed.

(* ---------- pars.Int on a printed number, inside a pushed context *)
From GTS Require Import FastaProofs.

Lemma span_digits ds post : all_digits ds ->
  match post with c :: _ => is_digit c = false | [] => True end ->
  span_n is_digit (ds ++ post) = (length ds, post).
Proof.
  intros Hd Hp. induction Hd as [|c t Hc _ IH]; cbn [app span_n length].
  - destruct post as [|c t]; [reflexivity|]. cbn [span_n]. now rewrite Hp.
  - rewrite Hc, IH. reflexivity.
Qed.

Lemma has_n_app_len {A} (a b : list A) : has_n (a ++ b) (length a) = true.
Proof. apply has_n_app. Qed.

Lemma bind_ret {A B} (x : A) (f : A -> M B) s : bind (ret x) f s = f x s.
Proof. reflexivity. Qed.

Lemma pInt_itoa n post o e a (fr : frame) k : 0 <= n <= int64_max ->
  match post with c :: _ => is_digit c = false | [] => True end ->
  pInt (mkst (itoa n ++ post) o e a (fr :: k)) =
  (Ok n, mkst post (o + zlen (itoa n)) None (a + zlen (itoa n)) (fr :: k)).
Proof.
  intros Hn Hp. pose proof (atoi_itoa n Hn) as Hat.
  destruct (itoa_spec n ltac:(lia)) as (ds & E & Hd & Hne & Hv & Hh & H0). rewrite E in *. clear E.
  destruct ds as [|c t]; [contradiction|].
  assert (Hc : is_digit c = true) by (inversion Hd; assumption).
  assert (Hs : (c =? 45) || (c =? 43) = false).
  { unfold is_digit in Hc. destruct (Z.eqb_spec c 45); [subst; discriminate|]. destruct (Z.eqb_spec c 43); [subst; discriminate|]. reflexivity. }
  unfold pInt. rewrite (bind_ok _ _ _ _ _ (push_eq _ _ _ _ _)). cbn [app].
  rewrite (bind_ok _ _ _ _ _ (next_cons c (t ++ post) o e a _)). rewrite Hs.
  rewrite bind_ret. rewrite Hc. cbn [negb].
  destruct (Z.eqb_spec c 48) as [->|Hc48].
  - (* "0" *)
    assert (n = 0) by (destruct (Z.eq_dec n 0); [assumption|exfalso; apply (Hh ltac:(assumption)); reflexivity]).
    specialize (H0 H). inversion H0; subst t. cbn [app].
    rewrite (bind_ok _ _ _ tt _ (advance_ne (48 :: post) o a _ (fr :: k) 1 ltac:(lia) eq_refl)).
    cbn [skipn Z.to_nat Pos.to_nat Pos.iter_op Nat.add].
    rewrite (bind_ok _ _ _ _ _ (drop_ne _ _ _ _ _ _ _)). subst n. reflexivity.
  - (* several digits, or one non-zero digit *)
    assert (Hsp : span_n is_digit ((c :: t) ++ post) = (length (c :: t), post)) by (apply span_digits; assumption).
    cbn [app] in Hsp.
    unfold bind at 1. unfold advance_while. cbn [rest stk off apos endr]. rewrite Hsp. cbn [length].
    set (L := Z.of_nat (S (length t))).
    (* trail *)
    unfold bind at 1. unfold trail. cbn [stk].
    unfold bind at 1. cbn [off].
    rewrite (bind_ok _ _ _ _ _ (pop_ne _ _ _ _ _ _ _ _ _)).
    unfold bind at 1. cbn [off].
    assert (Hreq : o + L - o = L) by lia. rewrite Hreq.
    assert (HhL : has_n (c :: t ++ post) (Z.to_nat L) = true).
    { subst L. rewrite Nat2Z.id. change (S (length t)) with (length (c :: t)). change (c :: t ++ post) with ((c :: t) ++ post). apply has_n_app. }
    rewrite (bind_ok _ _ _ (Some tt, EOther) _ (try_ok _ _ _ _ (request_ok _ o _ a (fr :: k) L HhL))).
    unfold bind at 1. unfold buffer. cbn [endr off rest]. rewrite Hreq.
    destruct (Z.ltb_spec L 0); [subst L; lia|].
    rewrite (bind_ok _ _ _ tt _ (advance_ne _ o a fr k L ltac:(subst L; lia) HhL)).
    unfold ret. cbv beta iota.
    assert (Hf : firstn (Z.to_nat L) (c :: t ++ post) = c :: t).
    { subst L. rewrite Nat2Z.id. change (S (length t)) with (length (c :: t)). change (c :: t ++ post) with ((c :: t) ++ post). rewrite firstn_app, firstn_all, Nat.sub_diag. cbn [firstn]. now rewrite app_nil_r. }
    assert (Hk : skipn (Z.to_nat L) (c :: t ++ post) = post).
    { subst L. rewrite Nat2Z.id. change (S (length t)) with (length (c :: t)). change (c :: t ++ post) with ((c :: t) ++ post). rewrite skipn_app, skipn_all, Nat.sub_diag. reflexivity. }
    rewrite Hf, Hk. unfold lift. rewrite Hat. unfold zlen. cbn [length]. fold L. reflexivity.
Qed.
