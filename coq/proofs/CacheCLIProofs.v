(* CacheCLIProofs.v — C14: caching is transparent *)
From GTS Require Import Base CacheCLI.
Open Scope Z_scope.

Section Proofs.
  Variables (Opt Inp Key Outp : Type).
  Variable f : Opt -> Inp -> Outp * bool.
  Variable key : Opt -> Key.
  Variable hin : Inp -> Z.
  Variable hkey : Key -> Z.

  Notation cache := (cache Outp).
  Notation run_cached := (run_cached Opt Inp Key Outp f key hin hkey).
  Notation run_history := (run_history Opt Inp Key Outp f key hin hkey).

  (* every option that changes the output is part of the payload *)
  Hypothesis keyed : forall o o' i, key o = key o' -> f o i = f o' i.

  (* two distinct inputs, or two distinct payloads, with the same digest *)
  Definition collision : Prop :=
    (exists i i', i <> i' /\ hin i = hin i') \/ (exists k k', k <> k' /\ hkey k = hkey k').

  (* every entry was written by a SUCCESSFUL run and holds that run's output *)
  Definition inv (c : cache) : Prop :=
    forall a b out, In ((a, b), out) c ->
      exists o i, hin i = a /\ hkey (key o) = b /\ f o i = (out, true).

  Lemma lookup_in (c : cache) k out : lookup Outp c k = Some out -> In (k, out) c.
  Proof.
    induction c as [|[[a b] o] t IH]; cbn [lookup]; [discriminate|].
    destruct ((a =? fst k) && (b =? snd k)) eqn:E.
    - intros H. inversion H; subst. left.
      apply andb_true_iff in E as [E1 E2]. apply Z.eqb_eq in E1, E2. destruct k; cbn in *; subst. reflexivity.
    - intros H. right. now apply IH.
  Qed.

  Lemma remove_incl (c : cache) k x : In x (remove Outp c k) -> In x c.
  Proof.
    induction c as [|[[a b] o] t IH]; cbn [remove]; [auto|].
    destruct ((a =? fst k) && (b =? snd k)); [right; now apply IH|].
    intros [H|H]; [now left | right; now apply IH].
  Qed.

  Hypothesis inp_dec : forall i i' : Inp, {i = i'} + {i <> i'}.
  Hypothesis key_dec : forall k k' : Key, {k = k'} + {k <> k'}.

  (* one invocation: same output and status as the uncached run, or a digest
     collision is exhibited; the invariant is kept *)
  Lemma run_cached_ok c o i tf : inv c ->
    (fst (run_cached c o i tf) = f o i \/ collision) /\ inv (snd (run_cached c o i tf)).
  Proof.
    intros Hinv. unfold CacheCLI.run_cached.
    destruct (lookup Outp c (hin i, hkey (key o))) as [out|] eqn:El.
    - cbn [fst snd]. split.
      + apply lookup_in in El. destruct (Hinv _ _ _ El) as [o' [i' [H1 [H2 H3]]]].
        destruct (inp_dec i' i) as [->|Hi].
        * destruct (key_dec (key o') (key o)) as [Hk|Hk].
          -- left. rewrite <- H3. symmetry. now apply keyed.
          -- right. right. exists (key o'), (key o). auto.
        * right. left. exists i', i. auto.
      + destruct tf; [|exact Hinv].
        intros a b out' Hin. apply remove_incl in Hin. now apply Hinv.
    - destruct (f o i) as [out ok] eqn:Ef. cbn [fst snd]. split; [now left|].
      destruct ok; [|exact Hinv].
      intros a b out' [Hin|Hin].
      + inversion Hin; subst. exists o, i. auto.
      + now apply Hinv.
  Qed.

  (* every history over a shared cache directory, starting cold or from any
     state reached by earlier invocations *)
  Theorem transparent h : forall c, inv c ->
    (Forall2 (fun r x => let '(o, i, _) := x in r = f o i) (fst (run_history c h)) h \/ collision)
    /\ inv (snd (run_history c h)).
  Proof.
    induction h as [|[[o i] tf] t IH]; intros c Hinv; cbn [CacheCLI.run_history].
    - split; [left; constructor | exact Hinv].
    - pose proof (run_cached_ok c o i tf Hinv) as [H1 H2].
      destruct (run_cached c o i tf) as [r c'] eqn:Er. cbn [fst snd] in *.
      specialize (IH c' H2). destruct (run_history c' t) as [rs c''] eqn:Eh. cbn [fst snd] in *.
      destruct IH as [IH1 IH2]. split; [|exact IH2].
      destruct H1 as [H1|H1]; [|now right]. destruct IH1 as [IH1|IH1]; [|now right].
      left. constructor; assumption.
  Qed.

  Theorem cold_cache_inv : inv [].
  Proof. intros a b out []. Qed.

  (* a run that failed leaves no entry: the same invocation fails again *)
  Theorem failed_run_leaves_no_entry c o i tf out :
    lookup Outp c (hin i, hkey (key o)) = None -> f o i = (out, false) ->
    snd (run_cached c o i tf) = c.
  Proof.
    intros Hl Hf. unfold CacheCLI.run_cached. now rewrite Hl, Hf.
  Qed.
End Proofs.
