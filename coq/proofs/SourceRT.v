(* SourceRT.v — C01: SOURCE / ORGANISM / taxonomy as GenBank.String writes them
   (species and organism on one line each; the taxonomy joined by "; " with a
   final period and wrapped at blanks) are read back by genbankSourceParser. *)
From Coq Require Import List ZArith Lia Bool.
From GTS Require Import Base Arith Pars Insdc GenBank BaseLemmas ParsLemmas FastaProofs BodyRT ParsSpec ModRT LocusRT GenBankProofs FieldRT.
Import ListNotations.
Open Scope Z_scope.

Definition blanks (n : Z) : list byte := repeat_byte 32 n.

Lemma blanks_all n : Forall (fun c => (c =? 32) = true) (blanks n).
Proof. unfold blanks, repeat_byte. apply Forall_forall. intros c H. apply repeat_spec in H. subst. reflexivity. Qed.

Lemma blanks_len n : 0 <= n -> zlen (blanks n) = n.
Proof. intros H. unfold blanks, repeat_byte, zlen. rewrite repeat_length. lia. Qed.

Lemma blanks_ne n : 0 < n -> blanks n <> [].
Proof. intros H E. apply (f_equal zlen) in E. rewrite blanks_len in E by lia. cbn in E. lia. Qed.

(* genbankSubfieldNameParser on "  NAME  " + text: two runs of blanks around the name *)
Lemma subfield_name_reads name depth n1 n2 stale void c post o e a fr k :
  0 < n1 -> 0 < n2 -> n1 + zlen name + n2 = depth ->
  match name with x :: _ => x <> 32 | [] => False end -> c <> 32 ->
  exists o' e', subfield_name_parser name depth stale void
                  (mkst (blanks n1 ++ name ++ blanks n2 ++ c :: post) o e a (fr :: k)) =
                (Ok tt, mkst (c :: post) o' e' (a + depth) (fr :: k)).
Proof.
  intros H1 H2 Hd Hname Hc. unfold subfield_name_parser.
  assert (W1 : okp (pWord (fun c0 => c0 =? 32)) (blanks n1) (name ++ blanks n2 ++ c :: post) (blanks n1)).
  { apply pWord_okp; [apply blanks_ne; exact H1|apply blanks_all|]. destruct name as [|x nt]; [contradiction|]. cbn [app]. apply Z.eqb_neq. exact Hname. }
  destruct (W1 o e a fr k) as (o1 & e1 & E1).
  rewrite (bind_ok _ _ _ (Some (blanks n1), EOther) _ (try_ok _ _ _ _ E1)).
  replace (zlen (blanks n1) =? 0) with false by (symmetry; apply Z.eqb_neq; rewrite (blanks_len n1 ltac:(lia)); lia).
  destruct (pBytes_ok name (blanks n2 ++ c :: post) o1 e1 (a + zlen (blanks n1)) (fr :: k)) as (o2 & e2 & E2).
  rewrite (bind_ok _ _ _ tt _ E2).
  assert (W2 : okp (pWord (fun c0 => c0 =? 32)) (blanks n2) (c :: post) (blanks n2)).
  { apply pWord_okp; [apply blanks_ne; exact H2|apply blanks_all|]. apply Z.eqb_neq. exact Hc. }
  destruct (W2 o2 e2 (a + zlen (blanks n1) + zlen name) fr k) as (o3 & e3 & E3).
  rewrite (bind_ok _ _ _ (Some (blanks n2), EOther) _ (try_ok _ _ _ _ E3)).
  pose proof (blanks_len n1 ltac:(lia)) as L1. pose proof (blanks_len n2 ltac:(lia)) as L2.
  rewrite L1, L2.
  match goal with |- context [negb (?x =? depth)] => destruct (Z.eqb_spec x depth) as [Q|Q] end;
    [|exfalso; apply Q; exact Hd].
  cbn [negb]. exists o3, e3. unfold ret. f_equal. f_equal.
  eapply eq_trans; [|apply f_equal; exact Hd]. ring.
Qed.

(* the taxonomy lines: every line indented, joined by blanks *)
Definition tjoin (acc0 : list byte) (ls : list (list byte)) : list byte :=
  fold_left (fun acc l => match acc with [] => l | _ => acc ++ [32] ++ l end) ls acc0.

Lemma tjoin_cons acc0 l t :
  tjoin acc0 (l :: t) = tjoin (match acc0 with [] => l | _ => acc0 ++ [32] ++ l end) t.
Proof. reflexivity. Qed.

Lemma tjoin_ne acc0 ls : acc0 <> [] -> tjoin acc0 ls = acc0 ++ joined 32 ls.
Proof.
  revert acc0. induction ls as [|l t IH]; intros acc0 H.
  - unfold joined. cbn. now rewrite app_nil_r.
  - rewrite tjoin_cons. destruct acc0 as [|x u]; [contradiction|].
    rewrite IH by discriminate. unfold joined. cbn [map concat]. rewrite <- !app_assoc. reflexivity.
Qed.

Lemma taxon_loop_lines depth ls : forall acc0 o e a k fuel post, Forall no_eol ls -> (length ls < fuel)%nat ->
  is_prefix (repeat_byte 32 depth) post = false ->
  exists o' e', taxon_loop fuel depth acc0 (mkst (cont_text depth ls ++ post) o e a k) =
    (Ok (tjoin acc0 ls), mkst post o' e' (a + zlen (cont_text depth ls)) k).
Proof.
  induction ls as [|l t IH]; intros acc0 o e a k fuel post Hls Hf Hp;
    (destruct fuel as [|f]; [cbn in Hf; lia|]); cbn [taxon_loop].
  - cbn [cont_text map concat app tjoin fold_left]. destruct (field_line_stop depth post o e a k Hp) as (e1 & H1).
    rewrite (bind_ok _ _ _ (None, EOther) _ (try_err _ _ _ _ H1)). exists o, e1.
    rewrite zlen_nil, Z.add_0_r. reflexivity.
  - inversion Hls as [|? ? Hl Ht]; subst.
    unfold cont_text. cbn [map concat]. fold (cont_text depth t). rewrite <- !app_assoc. cbn [app].
    destruct (field_line_ok depth l (cont_text depth t ++ post) o e a k Hl) as (o1 & e1 & H1).
    rewrite (bind_ok _ _ _ (Some l, EOther) _ (try_ok _ _ _ _ H1)).
    destruct (IH (match acc0 with [] => l | _ => acc0 ++ [32] ++ l end) o1 e1 (a + zlen (repeat_byte 32 depth) + zlen l + 1) k f post Ht
                ltac:(cbn [length] in Hf; lia) Hp) as (o2 & e2 & H2).
    exists o2, e2. eapply eq_trans; [exact H2|]. rewrite tjoin_cons. f_equal. f_equal.
    rewrite !zlen_app, zlen_cons. lia.
Qed.

Lemma is_prefix_blanks_short n m x r : (m < n)%nat -> x <> 32 ->
  is_prefix (repeat 32 n) (repeat 32 m ++ x :: r) = false.
Proof.
  revert n. induction m as [|m IH]; intros n H Hx; destruct n as [|n]; try lia; cbn [repeat app is_prefix].
  - destruct (Z.eqb_spec 32 x); [congruence|reflexivity].
  - rewrite Z.eqb_refl. cbn [andb]. apply IH; [lia|exact Hx].
Qed.

(* Map(genbankFieldParser name, f) for a total f *)
Lemma pMap_generic_field {B} name depth (f : list byte * Z -> out B) v l0 ls post o e ap fr k :
  zlen name <= depth -> no_eol l0 -> Forall no_eol ls -> is_prefix (repeat_byte 32 depth) post = false ->
  f (l0 ++ joined 10 ls, 0) = Ok v ->
  exists o' e' a', pMap (generic_field_parser name depth) f
               (mkst (name ++ repeat_byte 32 (depth - zlen name) ++
                      (add_prefix (l0 ++ joined 10 ls) (repeat_byte 32 depth) ++ [10]) ++ post) o e ap (fr :: k)) =
             (Ok v, mkst post o' e' a' (fr :: k)).
Proof.
  intros Hd H0 Hls Hp Hf. unfold pMap.
  set (txt := name ++ repeat_byte 32 (depth - zlen name) ++ (add_prefix (l0 ++ joined 10 ls) (repeat_byte 32 depth) ++ [10]) ++ post).
  destruct (generic_field_roundtrip name depth l0 ls post o e ap (txt, o, ap) (fr :: k) Hd H0 Hls Hp) as (s1 & E & R & S).
  fold txt in E. destruct s1 as [r1 o1 e1 a1 k1]. cbn [rest stk] in R, S. subst r1 k1.
  exists o1, e1, a1.
  rewrite (bind_ok _ _ _ tt _ (push_eq txt o e ap (fr :: k))).
  rewrite (bind_ok _ _ _ (Some (l0 ++ joined 10 ls, 0), EOther) _ (try_ok _ _ _ _ E)).
  rewrite (bind_ok _ _ _ tt _ (drop_ne post o1 e1 a1 (txt, o, ap) fr k)). unfold lift. rewrite Hf. reflexivity.
Qed.

Theorem p_source_roundtrip depth a species c org taxon n l0 ls post o e ap fr k :
  10 < depth -> no_eol species -> c <> 32 -> no_eol (c :: org) ->
  Forall nosep taxon -> join_semi taxon <> [] ->
  Forall (fun x => x <> 10) (join_semi taxon ++ [46]) ->
  (* the lines of the wrapped taxonomy; the first one is not empty *)
  wrap_space (join_semi taxon ++ [46]) n = l0 ++ joined 10 ls -> no_eol l0 -> Forall no_eol ls -> l0 <> [] ->
  is_prefix (repeat_byte 32 depth) post = false ->
  exists s', p_source depth a
      (mkst (n_SOURCE ++ repeat_byte 32 (depth - zlen n_SOURCE) ++ species ++ [10] ++
             blanks 2 ++ n_ORGANISM ++ blanks (depth - 10) ++ (c :: org) ++ [10] ++
             cont_text depth (l0 :: ls) ++ post) o e ap (fr :: k)) =
    (Ok (upd_fields a (set_source (a_fields a) species (c :: org) taxon), None), s') /\ rest s' = post /\ stk s' = fr :: k.
Proof.
  intros Hd Hsp Hc Horg Htx Hne Hnl Ew H0 Hls Hl0 Hp.
  unfold p_source.
  set (tail := blanks 2 ++ n_ORGANISM ++ blanks (depth - 10) ++ (c :: org) ++ [10] ++ cont_text depth (l0 :: ls) ++ post).
  assert (Htail : is_prefix (repeat_byte 32 depth) tail = false).
  { unfold tail, blanks, repeat_byte. change (Z.to_nat 2) with 2%nat. unfold n_ORGANISM.
    apply (is_prefix_blanks_short (Z.to_nat depth) 2 79); [lia|discriminate]. }
  destruct (pMap_generic_field n_SOURCE depth (fun x => Ok x) (species, 0) species [] tail o e ap fr k
              ltac:(change (zlen n_SOURCE) with 6; lia) Hsp ltac:(constructor) Htail) as (o1 & e1 & a1 & E1).
  { unfold joined. cbn [map concat]. now rewrite app_nil_r. }
  unfold joined in E1. cbn [map concat] in E1. rewrite app_nil_r in E1. rewrite (add_prefix_noeol species _ Hsp) in E1.
  replace (n_SOURCE ++ repeat_byte 32 (depth - zlen n_SOURCE) ++ species ++ [10] ++ tail)
    with (n_SOURCE ++ repeat_byte 32 (depth - zlen n_SOURCE) ++ (species ++ [10]) ++ tail)
    by (rewrite <- !app_assoc; reflexivity).
  rewrite (bind_ok _ _ _ (Some (species, 0), EOther) _ (try_ok _ _ _ _ E1)).
  unfold tail.
  destruct (subfield_name_reads n_ORGANISM depth 2 (depth - 10) 0 true c (org ++ [10] ++ cont_text depth (l0 :: ls) ++ post) o1 e1 a1 fr k
              ltac:(lia) ltac:(lia) ltac:(change (zlen n_ORGANISM) with 8; lia) ltac:(discriminate) Hc) as (o2 & e2 & E2).
  replace (blanks 2 ++ n_ORGANISM ++ blanks (depth - 10) ++ (c :: org) ++ [10] ++ cont_text depth (l0 :: ls) ++ post)
    with (blanks 2 ++ n_ORGANISM ++ blanks (depth - 10) ++ c :: org ++ [10] ++ cont_text depth (l0 :: ls) ++ post)
    by reflexivity.
  rewrite (bind_ok _ _ _ (Some tt, EOther) _ (try_ok _ _ _ _ E2)).
  destruct (pLine_lf (c :: org) (cont_text depth (l0 :: ls) ++ post) o2 e2 (a1 + depth) (fr :: k) Horg) as (o3 & e3 & E3).
  change (c :: org ++ [10] ++ cont_text depth (l0 :: ls) ++ post) with ((c :: org) ++ 10 :: cont_text depth (l0 :: ls) ++ post).
  rewrite (bind_ok _ _ _ (c :: org) _ E3). unfold bind at 1. unfold get. cbn [rest].
  destruct (taxon_loop_lines depth (l0 :: ls) [] o3 e3 (a1 + depth + zlen (c :: org) + 1) (fr :: k)
              (S (length (cont_text depth (l0 :: ls) ++ post))) post ltac:(constructor; assumption)) as (o4 & e4 & E4).
  - pose proof (cont_text_len depth (l0 :: ls)). rewrite app_length. unfold byte in *. lia.
  - exact Hp.
  - rewrite (bind_ok _ _ _ _ _ E4).
    assert (Ej : tjoin [] (l0 :: ls) = join_semi taxon ++ [46]).
    { rewrite tjoin_cons. rewrite tjoin_ne by exact Hl0.
      rewrite <- (unwrap_lines unwrap' unwrap'_app unwrap'_id eq_refl l0 ls H0 Hls), <- Ew.
      unfold wrap_space. apply wrap_unwrap. exact Hnl. }
    exists (mkst post o4 e4 (a1 + depth + zlen (c :: org) + 1 + zlen (cont_text depth (l0 :: ls))) (fr :: k)).
    split; [|split; reflexivity].
    unfold ret. rewrite Ej. cbn [upd_fields a_fields]. rewrite (flatfile_split_join taxon Htx Hne). reflexivity.
Qed.
