(* RepairTable.v — C12 on the whole table: Repair never changes the residues
   covered by a (key, qualifiers) class, never moves residues between classes,
   and keeps every feature's key and qualifiers. *)
From Coq Require Import List ZArith Lia Bool Permutation Arith.
From GTS Require Import Base Arith Loc Seq Repair BaseLemmas LocProofs RepairProofs RepairDen CacheProofs.
Import ListNotations.
Open Scope Z_scope.

(* ---------- grouping *)

Definition keys (groups : list (list byte * list nat)) : list (list byte) := map fst groups.

Lemma bytes_neq k0 k : bytes_eqb k0 k = false -> k0 <> k.
Proof. intros E ->. rewrite bytes_eqb_refl in E. discriminate. Qed.

Lemma add_index_keys groups k i :
  (In k (keys groups) -> keys (add_index groups k i) = keys groups) /\
  (~ In k (keys groups) -> keys (add_index groups k i) = keys groups ++ [k]).
Proof.
  unfold keys. induction groups as [|[k0 is] t IH]; cbn [add_index map fst In].
  - split; [contradiction|reflexivity].
  - destruct (bytes_eqb k0 k) eqn:E.
    + apply bytes_eqb_eq in E. subst k0. cbn [map fst]. split; [reflexivity|]. intros N. exfalso. apply N. left. reflexivity.
    + apply bytes_neq in E. cbn [map fst]. destruct IH as [IH1 IH2]. split.
      * intros [H|H]; [congruence|]. now rewrite IH1.
      * intros N. rewrite IH2; [reflexivity|]. intros H. apply N. right. exact H.
Qed.

Lemma add_index_other groups k i k' idx' : k' <> k ->
  (In (k', idx') (add_index groups k i) <-> In (k', idx') groups).
Proof.
  intros Hne. induction groups as [|[k0 is] t IH]; cbn [add_index In].
  - split; [intros [H|[]]; inversion H; congruence|contradiction].
  - destruct (bytes_eqb k0 k) eqn:E.
    + apply bytes_eqb_eq in E. subst k0. cbn [In]. split; intros [H|H]; try (inversion H; congruence); right; exact H.
    + cbn [In]. rewrite IH. tauto.
Qed.

Lemma add_index_same groups k i idx' : NoDup (keys groups) ->
  In (k, idx') (add_index groups k i) ->
  (exists idx0, In (k, idx0) groups /\ idx' = idx0 ++ [i]) \/ (~ In k (keys groups) /\ idx' = [i]).
Proof.
  unfold keys. induction groups as [|[k0 is] t IH]; cbn [add_index In map fst]; intros Hnd H.
  - destruct H as [H|[]]. inversion H; subst. right. split; [tauto|reflexivity].
  - inversion Hnd as [|? ? Hk0 Hnd']; subst. destruct (bytes_eqb k0 k) eqn:E.
    + apply bytes_eqb_eq in E. subst k0. destruct H as [H|H].
      * inversion H; subst. left. exists is. split; [left; reflexivity|reflexivity].
      * exfalso. apply Hk0. apply in_map_iff. exists (k, idx'). split; [reflexivity|exact H].
    + apply bytes_neq in E. destruct H as [H|H]; [inversion H; congruence|].
      destruct (IH Hnd' H) as [(idx0 & H1 & H2)|[H1 H2]].
      * left. exists idx0. split; [right; exact H1|exact H2].
      * right. split; [|exact H2]. intros [H3|H3]; [congruence|contradiction].
Qed.

Lemma add_index_has groups k i : exists idx, In (k, idx) (add_index groups k i) /\ In i idx.
Proof.
  induction groups as [|[k0 is] t IH]; cbn [add_index].
  - exists [i]. split; left; reflexivity.
  - destruct (bytes_eqb k0 k) eqn:E.
    + apply bytes_eqb_eq in E. subst k0. exists (is ++ [i]). split; [left; reflexivity|]. apply in_or_app. right. left. reflexivity.
    + destruct IH as (idx & H1 & H2). exists idx. split; [right; exact H1|exact H2].
Qed.

Lemma add_index_grows groups k i idx0 : In (k, idx0) groups -> NoDup (keys groups) ->
  In (k, idx0 ++ [i]) (add_index groups k i).
Proof.
  unfold keys. induction groups as [|[k0 is] t IH]; cbn [add_index In map fst]; intros H Hnd; [contradiction|].
  inversion Hnd as [|? ? Hk0 Hnd']; subst. destruct (bytes_eqb k0 k) eqn:E.
  - apply bytes_eqb_eq in E. subst k0. destruct H as [H|H]; [inversion H; subst; left; reflexivity|].
    exfalso. apply Hk0. apply in_map_iff. exists (k, idx0). split; [reflexivity|exact H].
  - apply bytes_neq in E. destruct H as [H|H]; [inversion H; congruence|]. right. now apply IH.
Qed.

Lemma NoDup_app_single {A} (l : list A) x : NoDup l -> ~ In x l -> NoDup (l ++ [x]).
Proof.
  induction l as [|y t IH]; intros Hn Hx; cbn [app]; [constructor; [intros []|constructor]|].
  inversion Hn as [|? ? Hy Ht]; subst. constructor.
  - intros Hin. apply in_app_or in Hin. destruct Hin as [Hin|[<-|[]]]; [contradiction|]. apply Hx. left. reflexivity.
  - apply IH; [exact Ht|]. intros Hin. apply Hx. right. exact Hin.
Qed.

Definition gwf (all : list feature) (n : nat) (groups : list (list byte * list nat)) : Prop :=
  NoDup (keys groups) /\
  (forall k idx, In (k, idx) groups ->
     NoDup idx /\ forall i, In i idx -> (i < n)%nat /\ class_key (nth_feat all i) = k) /\
  (forall i, (i < n)%nat -> exists k idx, In (k, idx) groups /\ In i idx).

Lemma gwf_step all n groups : gwf all n groups ->
  gwf all (S n) (add_index groups (class_key (nth_feat all n)) n).
Proof.
  intros (Hk & Hg & Hc). set (k := class_key (nth_feat all n)). split; [|split].
  - destruct (add_index_keys groups k n) as [K1 K2].
    destruct (in_dec (list_eq_dec Z.eq_dec) k (keys groups)) as [I|N].
    + now rewrite K1.
    + rewrite K2 by exact N. apply NoDup_app_single; assumption.
  - intros k' idx' H. destruct (list_eq_dec Z.eq_dec k' k) as [->|Hne].
    + destruct (add_index_same groups k n idx' Hk H) as [(idx0 & H1 & ->)|[H1 ->]].
      * destruct (Hg k idx0 H1) as [Nd Hi]. split.
        -- apply NoDup_app_single; [exact Nd|]. intros Hin. destruct (Hi n Hin). lia.
        -- intros i Hin. apply in_app_or in Hin. destruct Hin as [Hin|[<-|[]]].
           ++ destruct (Hi i Hin). split; [lia|assumption].
           ++ split; [lia|reflexivity].
      * split; [constructor; [intros []|constructor]|]. intros i [<-|[]]. split; [lia|reflexivity].
    + apply (add_index_other groups k n k' idx' Hne) in H. destruct (Hg k' idx' H) as [Nd Hi].
      split; [exact Nd|]. intros i Hin. destruct (Hi i Hin). split; [lia|assumption].
  - intros i Hi. destruct (Nat.eq_dec i n) as [->|Hne].
    + destruct (add_index_has groups k n) as (idx & H1 & H2). exists k, idx. split; assumption.
    + destruct (Hc i ltac:(lia)) as (k' & idx & H1 & H2).
      destruct (list_eq_dec Z.eq_dec k' k) as [->|Hk'].
      * exists k, (idx ++ [n]). split; [now apply add_index_grows|apply in_or_app; left; exact H2].
      * exists k', idx. split; [apply add_index_other; assumption|exact H2].
Qed.

Lemma group_indices_gwf all : forall ff pre acc, all = pre ++ ff -> gwf all (length pre) acc ->
  gwf all (length all) (group_indices ff (length pre) acc).
Proof.
  induction ff as [|f t IH]; intros pre acc E H; cbn [group_indices].
  - subst all. rewrite app_nil_r in *. exact H.
  - assert (Hf : nth_feat all (length pre) = f).
    { subst all. unfold nth_feat. rewrite app_nth2 by lia. now rewrite Nat.sub_diag. }
    pose proof (gwf_step all (length pre) acc H) as S. rewrite Hf in S.
    specialize (IH (pre ++ [f]) (add_index acc (class_key f) (length pre))).
    rewrite app_length in IH. cbn [length] in IH. rewrite Nat.add_1_r in IH.
    apply IH; [subst all; rewrite <- app_assoc; reflexivity|exact S].
Qed.

Lemma groups_gwf ff : gwf ff (length ff) (group_indices ff O []).
Proof.
  apply (group_indices_gwf ff ff [] []); [reflexivity|].
  split; [constructor|]. split; [intros k idx []|]. intros i Hi. cbn [length] in Hi. lia.
Qed.

(* two groups with different keys share no index *)
Lemma gwf_disjoint all n groups k1 idx1 k2 idx2 i : gwf all n groups ->
  In (k1, idx1) groups -> In (k2, idx2) groups -> k1 <> k2 -> In i idx1 -> ~ In i idx2.
Proof.
  intros (_ & Hg & _) H1 H2 Hne Hi1 Hi2.
  destruct (Hg _ _ H1) as [_ G1]. destruct (Hg _ _ H2) as [_ G2].
  destruct (G1 i Hi1) as [_ E1]. destruct (G2 i Hi2) as [_ E2]. congruence.
Qed.

(* ---------- the pass over the groups *)

Definition locs_at (g : list feature) (l : list nat) : list loc := map (fun i => floc (nth_feat g i)) l.

Definition step (ff : list feature) (st : list feature * list nat) (g : list byte * list nat) : list feature * list nat :=
  let '(gg, keep) := st in let '(_, indices) := g in
  let '(gg', k) := repair_group ff gg indices in (gg', keep ++ k).

Lemma repair_unfold ff :
  repair ff = let '(gg, keep) := fold_left (step ff) (group_indices ff O []) (ff, []) in
              map (nth_feat gg) (nat_sort keep).
Proof.
  unfold repair.
  assert (E : forall groups st,
            fold_left (fun '(gg, keep) '(_, indices) => let '(gg', k) := repair_group ff gg indices in (gg', keep ++ k)) groups st
            = fold_left (step ff) groups st).
  { induction groups as [|g t IH]; intros st; [reflexivity|]. cbn [fold_left]. rewrite IH. f_equal.
    destruct st as [gg keep]. destruct g as [k idx]. reflexivity. }
  rewrite E. reflexivity.
Qed.

(* what is known after the groups in `done` have been processed *)
Record inv (ff : list feature) (done todo : list (list byte * list nat)) (gg : list feature) (keep : list nat) : Prop := {
  inv_len : length gg = length ff;
  inv_kq : forall j, fkey (nth_feat gg j) = fkey (nth_feat ff j) /\ fprops (nth_feat gg j) = fprops (nth_feat ff j);
  inv_todo : forall k idx i, In (k, idx) todo -> In i idx -> nth_feat gg i = nth_feat ff i;
  inv_done : exists kepts, keep = concat kepts /\
               Forall2 (fun g kept => (exists m, kept = firstn m (snd g)) /\
                                      Permutation (DD (locs_at gg kept)) (DD (locs_at ff (snd g)))) done kepts
}.

Lemma locs_at_ext g g' l : (forall i, In i l -> nth_feat g' i = nth_feat g i) -> locs_at g' l = locs_at g l.
Proof. intros H. unfold locs_at. apply map_ext_in. intros i Hi. now rewrite H. Qed.

Lemma firstn_incl {A} m (l : list A) x : In x (firstn m l) -> In x l.
Proof. intros H. rewrite <- (firstn_skipn m l). apply in_or_app. left. exact H. Qed.

Lemma inv_step ff done k idx todo gg keep :
  gwf ff (length ff) (done ++ (k, idx) :: todo) ->
  Forall (fun f => rgood (floc f)) ff ->
  inv ff done ((k, idx) :: todo) gg keep ->
  let '(gg', keep') := step ff (gg, keep) (k, idx) in
  inv ff (done ++ [(k, idx)]) todo gg' keep'.
Proof.
  intros Hg Hr [Il Ikq It (kepts & Ek & Id)].
  assert (Hin : In (k, idx) (done ++ (k, idx) :: todo)) by (apply in_or_app; right; left; reflexivity).
  destruct Hg as (Hkeys & Hgrp & Hcov). destruct (Hgrp k idx Hin) as [Nd Hi].
  assert (Hsame : locs_at gg idx = locs_at ff idx).
  { apply locs_at_ext. intros i Hi'. apply (It k idx i); [left; reflexivity|exact Hi']. }
  pose proof (repair_group_spec ff gg idx Nd) as Spec.
  cbn [step]. destruct (repair_group ff gg idx) as [gg' kept] eqn:Er.
  destruct Spec as (P & (m & Ekept) & Hother & Hkq & Hlen).
  { apply Forall_forall. intros i Hi'. rewrite Il. apply (Hi i Hi'). }
  { fold (locs_at gg idx). rewrite Hsame. unfold locs_at. apply Forall_forall. intros l Hl.
    apply in_map_iff in Hl. destruct Hl as (i & <- & Hi'). rewrite Forall_forall in Hr. apply Hr.
    unfold nth_feat. apply nth_In. apply (Hi i Hi'). }
  (* keys of the groups are pairwise different *)
  assert (Hdiff : forall k' idx', In (k', idx') (done ++ todo) -> k' <> k).
  { intros k' idx' H' ->. unfold keys in Hkeys. rewrite map_app in Hkeys. cbn [map fst] in Hkeys.
    apply NoDup_remove_2 in Hkeys. apply Hkeys. rewrite <- map_app. apply in_map_iff. exists (k, idx'). split; [reflexivity|exact H']. }
  assert (Hdisj : forall k' idx' i, In (k', idx') (done ++ todo) -> In i idx' -> ~ In i idx).
  { intros k' idx' i H' Hi'. apply (gwf_disjoint ff (length ff) (done ++ (k, idx) :: todo) k' idx' k idx i).
    - split; [exact Hkeys|split; assumption].
    - apply in_app_or in H'. apply in_or_app. destruct H' as [H'|H']; [left; exact H'|right; right; exact H'].
    - exact Hin.
    - apply (Hdiff k' idx' H').
    - exact Hi'. }
  constructor.
  - now rewrite Hlen.
  - intros j. destruct (Hkq j) as [K1 K2]. destruct (Ikq j) as [K3 K4]. split; congruence.
  - intros k' idx' i H' Hi'. rewrite Hother.
    + apply (It k' idx' i); [right; exact H'|exact Hi'].
    + apply (Hdisj k' idx' i); [apply in_or_app; right; exact H'|exact Hi'].
  - exists (kepts ++ [kept]). split; [rewrite concat_app, Ek; cbn [concat]; now rewrite app_nil_r|].
    apply Forall2_app.
    + clear Ek. revert Id.
      assert (Hd' : forall g, In g done -> forall i, In i (snd g) -> ~ In i idx).
      { intros [k' idx'] Hg' i Hi'. cbn [snd] in Hi'. apply (Hdisj k' idx' i); [apply in_or_app; left; exact Hg'|exact Hi']. }
      clear - Hd' Hother. intros Id. induction Id as [|g kp dn kps [[m' Em] Pk] _ IH]; [constructor|].
      constructor.
      * split; [exists m'; exact Em|]. rewrite (locs_at_ext gg gg' kp); [exact Pk|].
        intros i Hi'. apply Hother. apply (Hd' g); [left; reflexivity|]. subst kp. eapply firstn_incl; exact Hi'.
      * apply IH. intros g' Hg'. apply Hd'. right. exact Hg'.
    + constructor; [|constructor]. cbn [snd]. split; [exists m; exact Ekept|].
      fold (locs_at gg' kept) in P. fold (locs_at gg idx) in P. rewrite Hsame in P. exact P.
Qed.

Lemma inv_fold ff : forall todo done gg keep,
  gwf ff (length ff) (done ++ todo) -> Forall (fun f => rgood (floc f)) ff ->
  inv ff done todo gg keep ->
  let '(gg', keep') := fold_left (step ff) todo (gg, keep) in inv ff (done ++ todo) [] gg' keep'.
Proof.
  induction todo as [|[k idx] t IH]; intros done gg keep Hg Hr Hi; cbn [fold_left].
  - rewrite app_nil_r. exact Hi.
  - pose proof (inv_step ff done k idx t gg keep Hg Hr Hi) as S.
    destruct (step ff (gg, keep) (k, idx)) as [gg1 keep1].
    specialize (IH (done ++ [(k, idx)]) gg1 keep1). rewrite <- app_assoc in IH. cbn [app] in IH.
    apply IH; assumption.
Qed.

Lemma inv_init ff groups : inv ff [] groups ff [].
Proof.
  constructor; try reflexivity.
  - intros j. split; reflexivity.
  - exists []. split; [reflexivity|constructor].
Qed.

(* ---------- list facts *)

Lemma nat_insert_perm x l : Permutation (nat_insert x l) (x :: l).
Proof.
  induction l as [|y t IH]; cbn [nat_insert]; [apply Permutation_refl|].
  destruct (Nat.leb x y); [apply Permutation_refl|].
  eapply Permutation_trans; [apply perm_skip, IH|]. apply perm_swap.
Qed.

Lemma nat_sort_perm l : Permutation (nat_sort l) l.
Proof.
  induction l as [|x t IH]; [constructor|]. unfold nat_sort in *. cbn [fold_right].
  eapply Permutation_trans; [apply nat_insert_perm|]. now constructor.
Qed.

Lemma perm_filter {A} (f : A -> bool) l l' : Permutation l l' -> Permutation (filter f l) (filter f l').
Proof.
  induction 1 as [|x l l' _ IH|x y l|l l' l'' _ IH1 _ IH2]; cbn [filter].
  - constructor.
  - destruct (f x); [now constructor|exact IH].
  - destruct (f x), (f y); try apply Permutation_refl. apply perm_swap.
  - eapply Permutation_trans; eassumption.
Qed.

Lemma filter_map_comm {A B} (f : B -> bool) (g : A -> B) l : filter f (map g l) = map g (filter (fun x => f (g x)) l).
Proof. induction l as [|x t IH]; [reflexivity|]. cbn [map filter]. destruct (f (g x)); cbn [map]; now rewrite IH. Qed.

Lemma filter_concat {A} (f : A -> bool) ls : filter f (concat ls) = concat (map (filter f) ls).
Proof. induction ls as [|l t IH]; [reflexivity|]. cbn [concat map]. now rewrite filter_app, IH. Qed.

Lemma filter_true {A} (f : A -> bool) l : (forall x, In x l -> f x = true) -> filter f l = l.
Proof.
  induction l as [|x t IH]; intros H; [reflexivity|]. cbn [filter]. rewrite H by (left; reflexivity).
  f_equal. apply IH. intros y Hy. apply H. right. exact Hy.
Qed.

Lemma filter_false {A} (f : A -> bool) l : (forall x, In x l -> f x = false) -> filter f l = [].
Proof.
  induction l as [|x t IH]; intros H; [reflexivity|]. cbn [filter]. rewrite H by (left; reflexivity).
  apply IH. intros y Hy. apply H. right. exact Hy.
Qed.

Lemma map_nth_seq {A} (d : A) l : map (fun i => nth i l d) (List.seq O (length l)) = l.
Proof.
  induction l as [|x t IH]; [reflexivity|]. cbn [length List.seq map nth]. f_equal.
  rewrite <- seq_shift, map_map. exact IH.
Qed.

Definition ck (k : list byte) (f : feature) : bool := bytes_eqb (class_key f) k.

Lemma filter_by_index ff (f : feature -> bool) :
  filter f ff = map (nth_feat ff) (filter (fun i => f (nth_feat ff i)) (List.seq O (length ff))).
Proof.
  rewrite <- filter_map_comm. unfold nth_feat. now rewrite map_nth_seq.
Qed.

Lemma class_key_kq f g : fkey f = fkey g -> fprops f = fprops g -> class_key f = class_key g.
Proof. unfold class_key. intros -> ->. reflexivity. Qed.

Lemma gwf_unique all n groups k idx idx' : gwf all n groups -> In (k, idx) groups -> In (k, idx') groups -> idx = idx'.
Proof.
  intros (Hk & _ & _). unfold keys in Hk. induction groups as [|[k0 i0] t IH]; intros H1 H2; [contradiction|].
  cbn [map fst] in Hk. inversion Hk as [|? ? Hn Hk']; subst.
  destruct H1 as [H1|H1]; destruct H2 as [H2|H2].
  - congruence.
  - inversion H1; subst. exfalso. apply Hn. apply in_map_iff. exists (k, idx'). split; [reflexivity|exact H2].
  - inversion H2; subst. exfalso. apply Hn. apply in_map_iff. exists (k, idx). split; [reflexivity|exact H1].
  - now apply IH.
Qed.

(* ---------- the table theorem *)

Theorem repair_class_residues ff k : Forall (fun f => rgood (floc f)) ff ->
  Permutation (DD (map floc (filter (ck k) (repair ff)))) (DD (map floc (filter (ck k) ff))).
Proof.
  intros Hr. rewrite repair_unfold.
  pose proof (groups_gwf ff) as Hg. set (G := group_indices ff O []) in *.
  pose proof (inv_fold ff G [] ff [] Hg Hr (inv_init ff G)) as Hi.
  destruct (fold_left (step ff) G (ff, [])) as [gg keep]. cbn [app] in Hi.
  destruct Hi as [Il Ikq _ (kepts & Ek & Id)].
  set (P := fun j => ck k (nth_feat ff j)).
  assert (HP : forall j, ck k (nth_feat gg j) = P j).
  { intros j. unfold P, ck. destruct (Ikq j) as [K1 K2]. now rewrite (class_key_kq _ _ K1 K2). }
  (* left-hand side: the kept indices of class k *)
  rewrite filter_map_comm. rewrite (filter_ext _ P) by exact HP.
  assert (HL : Permutation (filter P (nat_sort keep)) (filter P (concat kepts))).
  { subst keep. apply perm_filter, nat_sort_perm. }
  rewrite filter_concat in HL.
  (* right-hand side: the indices of class k *)
  rewrite (filter_by_index ff (ck k)). fold P.
  set (S := filter P (List.seq O (length ff))).
  assert (HSnd : NoDup S) by (apply NoDup_filter, seq_NoDup).
  assert (HS : forall i, In i S <-> (i < length ff)%nat /\ P i = true).
  { intros i. unfold S. rewrite filter_In, in_seq. intuition lia. }
  destruct Hg as (Hkeys & Hgrp & Hcov).
  assert (Hcls : forall k' idx' i, In (k', idx') G -> In i idx' -> P i = bytes_eqb k' k).
  { intros k' idx' i H Hi'. destruct (Hgrp k' idx' H) as [_ Hc]. destruct (Hc i Hi') as [_ E]. unfold P, ck. now rewrite E. }
  assert (Z1 : forall Ga Ka, (forall g, In g Ga -> In g G /\ fst g <> k) ->
                 Forall2 (fun g kp => (exists m, kp = firstn m (snd g)) /\
                                      Permutation (DD (locs_at gg kp)) (DD (locs_at ff (snd g)))) Ga Ka ->
                 concat (map (filter P) Ka) = []).
  { intros Ga Ka HGa F. induction F as [|g kp Ga' Ka' [[m' Em'] _] _ IH]; [reflexivity|]. cbn [map concat].
    rewrite IH by (intros g' Hg'; apply HGa; right; exact Hg'). rewrite app_nil_r.
    apply filter_false. intros i Hi'. destruct g as [k' idx']. cbn [snd fst] in *.
    destruct (HGa (k', idx') ltac:(left; reflexivity)) as [HinG Hne]. cbn [fst] in Hne.
    rewrite (Hcls k' idx' i HinG) by (subst kp; eapply firstn_incl; exact Hi').
    destruct (bytes_eqb k' k) eqn:E; [apply bytes_eqb_eq in E; congruence|reflexivity]. }
  (* both sides, as lists of indices *)
  assert (Main : exists kept idx, Permutation (concat (map (filter P) kepts)) kept /\ Permutation S idx /\
                   Permutation (DD (locs_at gg kept)) (DD (locs_at ff idx))).
  { destruct (in_dec (list_eq_dec Z.eq_dec) k (keys G)) as [Ik|Nk].
    - unfold keys in Ik. apply in_map_iff in Ik. destruct Ik as ([k0 idx] & E0 & Hin). cbn [fst] in E0. subst k0.
      destruct (in_split _ _ Hin) as (G1 & G2 & EG).
      rewrite EG in Id. apply Forall2_app_inv_l in Id. destruct Id as (K1 & K2' & F1 & F2 & EK).
      inversion F2 as [|? kept ? K2 [[m Em] Pk] F3]; subst K2'. cbn [snd] in *.
      exists kept, idx. split; [|split; [|exact Pk]].
      + subst kepts. rewrite map_app, concat_app. cbn [map concat].
        assert (Hother : forall g, In g (G1 ++ G2) -> In g G /\ fst g <> k).
        { intros [k' idx'] Hg'. split.
          - rewrite EG. apply in_app_or in Hg'. apply in_or_app. destruct Hg' as [Hg''|Hg'']; [left; exact Hg''|right; right; exact Hg''].
          - cbn [fst]. intros ->. unfold keys in Hkeys. rewrite EG, map_app in Hkeys. cbn [map fst] in Hkeys.
            apply NoDup_remove_2 in Hkeys. apply Hkeys. rewrite <- map_app. apply in_map_iff.
            exists (k, idx'). split; [reflexivity|exact Hg']. }
        rewrite (Z1 G1 K1) by (try exact F1; intros g Hg'; apply Hother, in_or_app; left; exact Hg').
        rewrite (Z1 G2 K2) by (try exact F3; intros g Hg'; apply Hother, in_or_app; right; exact Hg').
        rewrite app_nil_r. cbn [app]. rewrite filter_true; [apply Permutation_refl|].
        intros i Hi'. rewrite (Hcls k idx i Hin) by (subst kept; eapply firstn_incl; exact Hi'). apply bytes_eqb_refl.
      + destruct (Hgrp k idx Hin) as [Nd Hc]. apply NoDup_Permutation; [exact HSnd|exact Nd|]. intros i. rewrite HS. split.
        * intros [Hlt HPi]. destruct (Hcov i Hlt) as (k' & idx' & H1 & H2).
          rewrite (Hcls k' idx' i H1 H2) in HPi. apply bytes_eqb_eq in HPi. subst k'.
          rewrite (gwf_unique ff (length ff) G k idx idx' (conj Hkeys (conj Hgrp Hcov)) Hin H1). exact H2.
        * intros Hi'. destruct (Hc i Hi') as [Hlt _]. split; [exact Hlt|]. rewrite (Hcls k idx i Hin Hi'). apply bytes_eqb_refl.
    - exists [], []. split; [|split; [|apply Permutation_refl]].
      + rewrite (Z1 G kepts); [constructor| |exact Id].
        intros [k' idx'] Hg'. split; [exact Hg'|]. cbn [fst]. intros ->. apply Nk. unfold keys.
        apply in_map_iff. exists (k, idx'). split; [reflexivity|exact Hg'].
      + assert (Z : S = []).
        { unfold S. apply filter_false. intros i Hi'. apply in_seq in Hi'.
          destruct (Hcov i ltac:(lia)) as (k' & idx' & H1 & H2). rewrite (Hcls k' idx' i H1 H2).
          destruct (bytes_eqb k' k) eqn:E; [|reflexivity]. apply bytes_eqb_eq in E. subst k'.
          exfalso. apply Nk. unfold keys. apply in_map_iff. exists (k, idx'). split; [reflexivity|exact H1]. }
        rewrite Z. constructor. }
  destruct Main as (kept & idx & M1 & M2 & M3).
  unfold DD, locs_at in *.
  eapply Permutation_trans; [|eapply Permutation_trans; [exact M3|]].
  - rewrite map_map. apply DD_perm. apply Permutation_map. eapply Permutation_trans; [exact HL|exact M1].
  - rewrite map_map. apply DD_perm. apply Permutation_map. apply Permutation_sym. exact M2.
Qed.

(* every feature of the repaired table is a feature of the input with, at most,
   another location *)
Theorem repair_keeps_key_and_qualifiers ff : Forall (fun f => rgood (floc f)) ff ->
  forall f, In f (repair ff) -> exists g, In g ff /\ fkey f = fkey g /\ fprops f = fprops g.
Proof.
  intros Hr f Hf. rewrite repair_unfold in Hf.
  pose proof (groups_gwf ff) as Hg. set (G := group_indices ff O []) in *.
  pose proof (inv_fold ff G [] ff [] Hg Hr (inv_init ff G)) as Hi.
  destruct (fold_left (step ff) G (ff, [])) as [gg keep]. cbn [app] in Hi.
  destruct Hi as [Il Ikq _ (kepts & Ek & Id)].
  apply in_map_iff in Hf. destruct Hf as (j & <- & Hj).
  apply (Permutation_in _ (nat_sort_perm keep)) in Hj. subst keep.
  apply in_concat in Hj. destruct Hj as (kp & Hkp & Hjk).
  assert (Hlt : (j < length ff)%nat).
  { destruct Hg as (_ & Hgrp & _).
    assert (Gen : forall G0 Ka, (forall g, In g G0 -> In g G) ->
              Forall2 (fun g kept => (exists m, kept = firstn m (snd g)) /\
                                     Permutation (DD (locs_at gg kept)) (DD (locs_at ff (snd g)))) G0 Ka ->
              In kp Ka -> (j < length ff)%nat).
    { intros G0 Ka HG F. induction F as [|g kp' Ga Ka' [[m Em] _] _ IH]; intros Hin; [contradiction|].
      destruct Hin as [->|Hin].
      - destruct g as [k idx]. cbn [snd] in Em. subst kp. apply firstn_incl in Hjk.
        destruct (Hgrp k idx (HG _ (or_introl eq_refl))) as [_ Hc]. apply (Hc j Hjk).
      - apply IH; [|exact Hin]. intros g' Hg'. apply HG. right. exact Hg'. }
    apply (Gen G kepts (fun g H => H) Id Hkp). }
  exists (nth_feat ff j). split; [unfold nth_feat; apply nth_In; exact Hlt|]. apply Ikq.
Qed.

(* ---------- a table in which nothing merges is returned as it is *)
From Coq Require Import Sorting.Sorted.

Lemma merge_all_none force : forall locs racc,
  (forall a b, In a (racc ++ locs) -> In b locs -> merge_fragments a b force = None) ->
  merge_all locs racc force = rev racc ++ locs.
Proof.
  induction locs as [|l t IH]; intros racc H; cbn [merge_all]; [now rewrite app_nil_r|].
  destruct racc as [|last rt].
  - rewrite IH; [reflexivity|]. intros a b Ha Hb. apply H; [cbn [app]; cbn [app] in Ha; destruct Ha as [<-|Ha]; [left; reflexivity|right; exact Ha]|right; exact Hb].
  - rewrite (H last l) by (first [left; reflexivity | apply in_or_app; left; left; reflexivity]).
    rewrite IH.
    + cbn [rev]. rewrite <- !app_assoc. reflexivity.
    + intros a b Ha Hb. apply H; [|right; exact Hb].
      cbn [app] in Ha. destruct Ha as [<-|Ha]; [apply in_or_app; right; left; reflexivity|].
      change (In a ((last :: rt) ++ t)) in Ha. apply in_app_or in Ha. apply in_or_app. destruct Ha as [Ha|Ha]; [left; exact Ha|right; right; exact Ha].
Qed.

Lemma sorted_perm_eq (a : list nat) : forall b, StronglySorted le a -> StronglySorted le b -> Permutation a b -> a = b.
Proof.
  induction a as [|x a' IH]; intros b Sa Sb P.
  - apply Permutation_nil in P. now subst.
  - destruct b as [|y b']; [apply Permutation_sym, Permutation_nil in P; discriminate|].
    inversion Sa as [|? ? Sa' Fa]; subst. inversion Sb as [|? ? Sb' Fb]; subst.
    assert (x = y).
    { assert (Hx : In x (y :: b')) by (eapply Permutation_in; [exact P|left; reflexivity]).
      assert (Hy : In y (x :: a')) by (eapply Permutation_in; [apply Permutation_sym; exact P|left; reflexivity]).
      rewrite Forall_forall in Fa, Fb.
      destruct Hx as [->|Hx]; [reflexivity|]. destruct Hy as [->|Hy]; [reflexivity|].
      specialize (Fb x Hx). specialize (Fa y Hy). lia. }
    subst y. f_equal. apply IH; [assumption|assumption|]. eapply Permutation_cons_inv; exact P.
Qed.

Lemma nat_insert_sorted x l : StronglySorted le l -> StronglySorted le (nat_insert x l).
Proof.
  induction 1 as [|y t St IH Fy]; cbn [nat_insert]; [repeat constructor|].
  destruct (Nat.leb_spec x y).
  - constructor; [constructor; assumption|]. constructor; [assumption|].
    eapply Forall_impl; [|exact Fy]. intros z Hz. lia.
  - constructor; [exact IH|]. apply Forall_forall. intros z Hz.
    apply (Permutation_in _ (nat_insert_perm x t)) in Hz. destruct Hz as [<-|Hz]; [lia|].
    rewrite Forall_forall in Fy. now apply Fy.
Qed.

Lemma nat_sort_sorted l : StronglySorted le (nat_sort l).
Proof. induction l as [|x t IH]; [constructor|]. unfold nat_sort in *. cbn [fold_right]. now apply nat_insert_sorted. Qed.

Lemma seq_sorted n : forall s, StronglySorted le (List.seq s n).
Proof.
  induction n as [|n IH]; intros s; cbn [List.seq]; [constructor|]. constructor; [apply IH|].
  apply Forall_forall. intros z Hz. apply in_seq in Hz. lia.
Qed.

Lemma NoDup_app_intro {A} (a b : list A) : NoDup a -> NoDup b -> (forall x, In x a -> ~ In x b) -> NoDup (a ++ b).
Proof.
  induction a as [|x t IH]; intros Ha Hb Hd; [exact Hb|]. inversion Ha as [|? ? Hx Ht]; subst. cbn [app]. constructor.
  - intros Hin. apply in_app_or in Hin. destruct Hin as [Hin|Hin]; [contradiction|]. apply (Hd x); [left; reflexivity|exact Hin].
  - apply IH; [exact Ht|exact Hb|]. intros y Hy. apply Hd. right. exact Hy.
Qed.

Lemma groups_cover ff : Permutation (concat (map snd (group_indices ff O []))) (List.seq O (length ff)).
Proof.
  pose proof (groups_gwf ff) as Hg. set (G := group_indices ff O []) in *.
  apply NoDup_Permutation; [|apply seq_NoDup|].
  - assert (Gen : forall G0, (forall g, In g G0 -> In g G) -> NoDup (keys G0) -> NoDup (concat (map snd G0))).
    { induction G0 as [|[k idx] t IH]; intros HG Hk; [constructor|]. cbn [map snd concat].
      unfold keys in Hk. cbn [map fst] in Hk. inversion Hk as [|? ? Hn Hk']; subst.
      destruct Hg as (Hkeys & Hgrp & Hcov).
      apply NoDup_app_intro.
      - apply (Hgrp k idx). apply HG. left. reflexivity.
      - apply IH; [intros g Hg'; apply HG; right; exact Hg'|exact Hk'].
      - intros i Hi Hin. apply in_concat in Hin. destruct Hin as (idx' & Hidx' & Hi').
        apply in_map_iff in Hidx'. destruct Hidx' as ([k' idx''] & E & Hg'). cbn [snd] in E. subst idx''.
        apply (gwf_disjoint ff (length ff) G k idx k' idx' i (conj Hkeys (conj Hgrp Hcov))); try assumption.
        + apply HG. left. reflexivity.
        + apply HG. right. exact Hg'.
        + intros ->. apply Hn. apply in_map_iff. exists (k', idx'). split; [reflexivity|exact Hg']. }
    apply Gen; [auto|apply Hg].
  - intros i. rewrite in_seq. destruct Hg as (_ & Hgrp & Hcov). split.
    + intros Hin. apply in_concat in Hin. destruct Hin as (idx & Hidx & Hi).
      apply in_map_iff in Hidx. destruct Hidx as ([k idx'] & E & Hg'). cbn [snd] in E. subst idx'.
      destruct (Hgrp k idx Hg') as [_ Hc]. destruct (Hc i Hi). lia.
    + intros Hi. destruct (Hcov i ltac:(lia)) as (k & idx & H1 & H2). apply in_concat. exists idx. split; [|exact H2].
      apply in_map_iff. exists (k, idx). split; [reflexivity|exact H1].
Qed.

(* the condition: within a class no two locations merge (force is decided by
   the first feature of the class; any feature h of the class is as good) *)
Definition nothing_merges (ff : list feature) : Prop :=
  forall f g h, In f ff -> In g ff -> In h ff -> class_key f = class_key g -> class_key h = class_key f ->
    merge_fragments (floc f) (floc g) (is_source h) = None.

Theorem repair_unchanged ff : nothing_merges ff -> repair ff = ff.
Proof.
  intros Hn. rewrite repair_unfold.
  pose proof (groups_gwf ff) as Hg. set (G := group_indices ff O []) in *.
  assert (Hstep : forall G0 keep, (forall g, In g G0 -> In g G) ->
            fold_left (step ff) G0 (ff, keep) = (ff, keep ++ concat (map snd G0))).
  { induction G0 as [|[k idx] t IH]; intros keep HG; cbn [fold_left map snd concat]; [now rewrite app_nil_r|].
    assert (Hin : In (k, idx) G) by (apply HG; left; reflexivity).
    destruct Hg as (_ & Hgrp & _). destruct (Hgrp k idx Hin) as [Nd Hc].
    assert (Eg : repair_group ff ff idx = (ff, idx)).
    { apply repair_group_unchanged. destruct idx as [|i0 it]; [reflexivity|].
      rewrite merge_all_none.
      - cbn [rev app]. now rewrite loc_isort_length, map_length.
      - cbn [app]. intros a b Ha Hb.
        apply (Permutation_in _ (loc_isort_perm _)) in Ha. apply (Permutation_in _ (loc_isort_perm _)) in Hb.
        apply in_map_iff in Ha. destruct Ha as (ia & <- & Hia). apply in_map_iff in Hb. destruct Hb as (ib & <- & Hib).
        destruct (Hc ia Hia) as [La Ka]. destruct (Hc ib Hib) as [Lb Kb]. destruct (Hc i0 ltac:(left; reflexivity)) as [L0 K0].
        apply Hn; try (unfold nth_feat; apply nth_In; assumption); congruence. }
    cbn [step]. rewrite Eg. rewrite IH by (intros g Hg'; apply HG; right; exact Hg'). now rewrite <- app_assoc. }
  rewrite (Hstep G [] (fun g H => H)). cbn [app].
  rewrite (sorted_perm_eq (nat_sort (concat (map snd G))) (List.seq O (length ff))).
  - unfold nth_feat. apply map_nth_seq.
  - apply nat_sort_sorted.
  - apply seq_sorted.
  - eapply Permutation_trans; [apply nat_sort_perm|apply groups_cover].
Qed.
