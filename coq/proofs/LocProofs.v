(* LocProofs.v — denotation lemmas for the location operations of model/Loc.v *)
From GTS Require Import Base Arith Loc BaseLemmas.
Open Scope Z_scope.

(* ---------- generated integer helpers *)

Lemma go_Max_spec a b : go_Max a b = Z.max a b.
Proof. unfold go_Max. destruct (b <? a) eqn:E; [apply Z.ltb_lt in E | apply Z.ltb_ge in E]; lia. Qed.

Lemma go_Min_spec a b : go_Min a b = Z.min a b.
Proof. unfold go_Min. destruct (a <? b) eqn:E; [apply Z.ltb_lt in E | apply Z.ltb_ge in E]; lia. Qed.

(* ---------- zrange *)

Lemma zrange_n_app s a b : zrange_n s (a + b) = zrange_n s a ++ zrange_n (s + Z.of_nat a) b.
Proof.
  revert s. induction a as [|a IH]; intros s; cbn [zrange_n Nat.add app].
  - f_equal. lia.
  - rewrite IH. do 3 f_equal. lia.
Qed.

Lemma zrange_empty s e : e <= s -> zrange s e = [].
Proof. intros H. unfold zrange. replace (Z.to_nat (e - s)) with O by lia. reflexivity. Qed.

Lemma zrange_split s m e : s <= m <= e -> zrange s e = zrange s m ++ zrange m e.
Proof.
  intros H. unfold zrange.
  replace (Z.to_nat (e - s)) with (Z.to_nat (m - s) + Z.to_nat (e - m))%nat by lia.
  rewrite zrange_n_app. do 2 f_equal. lia.
Qed.

Lemma zrange_n_map (f : Z -> Z) d s n :
  (forall x, s <= x < s + Z.of_nat n -> f x = x + d) ->
  map f (zrange_n s n) = zrange_n (s + d) n.
Proof.
  revert s. induction n as [|n IH]; intros s H; cbn [zrange_n map]; [reflexivity|].
  rewrite H by lia. f_equal. replace (s + d + 1) with (s + 1 + d) by lia.
  apply IH. intros x Hx. apply H. lia.
Qed.

Lemma zrange_map_add (f : Z -> Z) d s e :
  (forall x, s <= x < e -> f x = x + d) ->
  map f (zrange s e) = zrange (s + d) (e + d).
Proof.
  intros H. unfold zrange. replace (e + d - (s + d)) with (e - s) by lia.
  destruct (Z.le_gt_cases e s).
  - replace (Z.to_nat (e - s)) with O by lia. reflexivity.
  - apply zrange_n_map. intros x Hx. apply H. lia.
Qed.

Lemma zrange_n_filter_all (p : Z -> bool) s n :
  (forall x, s <= x < s + Z.of_nat n -> p x = true) -> filter p (zrange_n s n) = zrange_n s n.
Proof.
  revert s. induction n as [|n IH]; intros s H; cbn [zrange_n filter]; [reflexivity|].
  rewrite H by lia. f_equal. apply IH. intros x Hx. apply H. lia.
Qed.

Lemma zrange_n_filter_none (p : Z -> bool) s n :
  (forall x, s <= x < s + Z.of_nat n -> p x = false) -> filter p (zrange_n s n) = [].
Proof.
  revert s. induction n as [|n IH]; intros s H; cbn [zrange_n filter]; [reflexivity|].
  rewrite H by lia. apply IH. intros x Hx. apply H. lia.
Qed.

Lemma zrange_filter_all (p : Z -> bool) s e :
  (forall x, s <= x < e -> p x = true) -> filter p (zrange s e) = zrange s e.
Proof.
  intros H. unfold zrange. destruct (Z.le_gt_cases e s).
  - replace (Z.to_nat (e - s)) with O by lia. reflexivity.
  - apply zrange_n_filter_all. intros x Hx. apply H. lia.
Qed.

Lemma zrange_filter_none (p : Z -> bool) s e :
  (forall x, s <= x < e -> p x = false) -> filter p (zrange s e) = [].
Proof.
  intros H. unfold zrange. destruct (Z.le_gt_cases e s).
  - replace (Z.to_nat (e - s)) with O by lia. reflexivity.
  - apply zrange_n_filter_none. intros x Hx. apply H. lia.
Qed.

Lemma zrange_n_snoc s n : zrange_n s (S n) = zrange_n s n ++ [s + Z.of_nat n].
Proof.
  rewrite <- (Nat.add_1_r n). rewrite zrange_n_app. reflexivity.
Qed.

Lemma zrange_rev_mirror_n L s n :
  rev (map (fun x => L - 1 - x) (zrange_n s n)) = zrange_n (L - s - Z.of_nat n) n.
Proof.
  revert s. induction n as [|n IH]; intros s; [reflexivity|].
  rewrite (zrange_n_snoc (L - s - Z.of_nat (S n)) n).
  cbn [zrange_n map rev]. rewrite IH.
  replace (L - (s + 1) - Z.of_nat n) with (L - s - Z.of_nat (S n)) by lia.
  do 2 f_equal. lia.
Qed.

Lemma zrange_rev_mirror L s e :
  rev (map (fun x => L - 1 - x) (zrange s e)) = zrange (L - e) (L - s).
Proof.
  unfold zrange. replace (L - s - (L - e)) with (e - s) by lia.
  rewrite zrange_rev_mirror_n.
  destruct (Z.le_gt_cases e s).
  - replace (Z.to_nat (e - s)) with O by lia. reflexivity.
  - f_equal. lia.
Qed.

(* ---------- stranded positions *)

Definition fwd (x : Z) : Z * bool := (x, false).
Definition onpos (f : Z -> Z) (d : Z * bool) : Z * bool := (f (fst d), snd d).
Definition flipd (d : Z * bool) : Z * bool := (fst d, negb (snd d)).

Lemma den_complemented x : den (Complemented x) = rev (map flipd (den x)).
Proof.
  cbn [den]. f_equal. apply map_ext. intros [p c]. reflexivity.
Qed.

Lemma onpos_flipd f d : onpos f (flipd d) = flipd (onpos f d).
Proof. destruct d; reflexivity. Qed.

Lemma map_onpos_fwd f l : map (onpos f) (map fwd l) = map fwd (map f l).
Proof. rewrite !map_map. reflexivity. Qed.

Lemma filter_map_fwd (p : Z -> bool) l :
  filter (fun d => p (fst d)) (map fwd l) = map fwd (filter p l).
Proof.
  induction l as [|x l IH]; cbn [map filter fst fwd]; [reflexivity|].
  cbn [fst]. destruct (p x); cbn [map]; now rewrite IH.
Qed.

Lemma den_ranged s e a b : den (Ranged s e a b) = map fwd (zrange s e).
Proof. reflexivity. Qed.
Lemma den_ambiguous s e : den (Ambiguous s e) = map fwd (zrange s e).
Proof. reflexivity. Qed.
Lemma den_point p : den (Point p) = map fwd (zrange p (p + 1)).
Proof.
  unfold zrange. replace (p + 1 - p) with 1 by lia. reflexivity.
Qed.

(* ---------- Order *)

Lemma flatten_den fuel : forall ls, flat_map den (flatten_locs fuel ls) = flat_map den ls.
Proof.
  induction fuel as [|f IH]; intros ls; [reflexivity|].
  cbn [flatten_locs]. induction ls as [|x t IHt]; [reflexivity|].
  cbn [flat_map]. rewrite flat_map_app, IHt. f_equal.
  destruct x; cbn [flat_map den]; rewrite ?app_nil_r; try reflexivity.
  apply IH.
Qed.

Lemma order_ok_den ls r : order ls = Ok r -> den r = flat_map den ls.
Proof.
  unfold order. intros H.
  pose proof (flatten_den (S (list_size ls)) ls) as HF.
  destruct (flatten_locs (S (list_size ls)) ls) as [|x [|y t]]; [discriminate| |].
  - inversion H; subst. cbn [flat_map] in HF. now rewrite app_nil_r in HF.
  - inversion H; subst. exact HF.
Qed.

(* flattening a non-empty list of non-empty-order-free parts stays non-empty *)
Fixpoint ord_ok (l : loc) : bool :=
  match l with
  | Ordered ls => negb (match ls with [] => true | _ => false end) && forallb ord_ok ls
  | Joined ls => forallb ord_ok ls
  | Complemented x => ord_ok x
  | _ => true
  end.

Lemma flatten_nonempty fuel : forall ls,
  ls <> [] -> forallb ord_ok ls = true -> flatten_locs fuel ls <> [].
Proof.
  induction fuel as [|f IH]; intros ls Hne Hok; [exact Hne|].
  destruct ls as [|x t]; [congruence|].
  cbn [flatten_locs flat_map]. cbn [forallb] in Hok. apply andb_true_iff in Hok as [Hx Ht].
  destruct x; try (cbn [app]; discriminate).
  cbn [ord_ok] in Hx. apply andb_true_iff in Hx as [Hn Hall].
  destruct ls as [|y ys]; [discriminate|].
  intros E. apply app_eq_nil in E as [E _].
  revert E. apply IH; [discriminate | exact Hall].
Qed.

Lemma order_ok ls : ls <> [] -> forallb ord_ok ls = true -> exists r, order ls = Ok r.
Proof.
  intros Hne Hok. unfold order.
  pose proof (flatten_nonempty (S (list_size ls)) ls Hne Hok).
  destruct (flatten_locs (S (list_size ls)) ls) as [|x [|y t]]; [congruence | eauto | eauto].
Qed.

(* ---------- joining two ranges (the split produced by Shift / Normalize) *)

Lemma join_two_ranges vs ve a b us ue c d :
  ve <> us ->
  join [Ranged vs ve a b; Ranged us ue c d] = Ok (Joined [Ranged vs ve a b; Ranged us ue c d]).
Proof.
  intros H. unfold join. cbn.
  replace (ve =? us) with false by (symmetry; now apply Z.eqb_neq).
  rewrite andb_false_r. reflexivity.
Qed.

Lemma join_two_ranges_abut vs m a b ue c d :
  join [Ranged vs m a b; Ranged m ue c d] = Ok (Ranged vs ue a d).
Proof.
  unfold join. cbn. rewrite Z.eqb_refl, orb_true_r. reflexivity.
Qed.

(* ---------- locations without joins *)

Fixpoint jfree (l : loc) : bool :=
  match l with
  | Joined _ => false
  | Ordered ls => forallb jfree ls
  | Complemented x => jfree x
  | _ => true
  end.

(* traversals *)
Lemma omapM_den {f : loc -> out loc} {g : Z * bool -> Z * bool} (Q : loc -> Prop) ls :
  Forall (fun x => exists y, f x = Ok y /\ den y = map g (den x) /\ Q y) ls ->
  exists ys, omapM f ls = Ok ys /\ flat_map den ys = map g (flat_map den ls) /\
             length ys = length ls /\ Forall Q ys.
Proof.
  induction 1 as [|x t [y [Hy [Hd HQ]]] _ [ys [Hys [Hds [Hl HQs]]]]].
  - exists []. repeat split. constructor.
  - exists (y :: ys). cbn [omapM]. rewrite Hy. cbn [obind]. rewrite Hys. cbn [obind].
    repeat split.
    + cbn [flat_map]. rewrite map_app, Hd, Hds. reflexivity.
    + cbn [length]. now rewrite Hl.
    + constructor; assumption.
Qed.

Lemma Forall_forallb {A} (p : A -> bool) l : Forall (fun x => p x = true) l -> forallb p l = true.
Proof. induction 1; cbn [forallb]; [reflexivity | now rewrite H, IHForall]. Qed.

Lemma forallb_Forall {A} (p : A -> bool) l : forallb p l = true -> Forall (fun x => p x = true) l.
Proof.
  induction l as [|x t IH]; cbn [forallb]; intros H; constructor;
    apply andb_true_iff in H as [H1 H2]; [exact H1 | exact (IH H2)].
Qed.

Lemma map_rev_flip (g : Z -> Z) d :
  map (onpos g) (rev (map flipd d)) = rev (map flipd (map (onpos g) d)).
Proof.
  rewrite map_rev. f_equal. rewrite !map_map. apply map_ext. intros x. apply onpos_flipd.
Qed.
