From GTS Require Import Base Arith Tables Pars Loc Seq Insdc BaseLemmas FastaProofs.
From Coq Require Import Lia.
Open Scope Z_scope.

(* ---------- multi-line qualifier values: AddPrefix on writing, the prefix
   stripped after every line break on reading *)

Definition occurs_at (p s : list Z) (j : nat) : bool := is_prefix p (skipn j s).
Definition no_occ (p s : list Z) : Prop := forall j, occurs_at p s j = false.

Lemma index_of_sub_none fuel p : forall s i, (length s < fuel)%nat ->
  index_of_sub fuel p s i = None -> forall j, is_prefix p (skipn j s) = false.
Proof.
  induction fuel as [|f IH]; intros s i Hf H j; [lia|]. cbn [index_of_sub] in H.
  destruct (is_prefix p s) eqn:E; [discriminate|].
  destruct s as [|c t].
  - destruct j; cbn [skipn]; exact E.
  - destruct j as [|j]; [exact E|]. cbn [skipn]. apply (IH t (S i)); [cbn [length] in Hf; lia|exact H].
Qed.

Lemma index_of_sub_some fuel p : forall s i k, index_of_sub fuel p s i = Some k ->
  (i <= k)%nat /\ is_prefix p (skipn (k - i) s) = true /\ forall j, (j < k - i)%nat -> is_prefix p (skipn j s) = false.
Proof.
  induction fuel as [|f IH]; intros s i k H; [discriminate|]. cbn [index_of_sub] in H.
  destruct (is_prefix p s) eqn:E.
  - inversion H; subst. replace (k - k)%nat with 0%nat by lia. cbn [skipn]. repeat split; [lia|exact E|intros; lia].
  - destruct s as [|c t]; [discriminate|]. destruct (IH t (S i) k H) as (H1 & H2 & H3).
    split; [lia|]. replace (k - i)%nat with (S (k - S i)) by lia. cbn [skipn]. split; [exact H2|].
    intros j Hj. destruct j as [|j]; [exact E|]. cbn [skipn]. apply H3. lia.
Qed.

(* the leftmost occurrence, when there is one at position m and none before *)
Lemma index_of_sub_at fuel p : forall s i m, (length s < fuel)%nat ->
  is_prefix p (skipn m s) = true -> (forall j, (j < m)%nat -> is_prefix p (skipn j s) = false) ->
  index_of_sub fuel p s i = Some (i + m)%nat.
Proof.
  induction fuel as [|f IH]; intros s i m Hf Hm Hb; [lia|]. cbn [index_of_sub].
  destruct m as [|m].
  - cbn [skipn] in Hm. rewrite Hm. f_equal. lia.
  - pose proof (Hb 0%nat ltac:(lia)) as H0. cbn [skipn] in H0. rewrite H0.
    destruct s as [|c t]; [cbn [skipn] in Hm; rewrite H0 in Hm; discriminate|].
    cbn [skipn] in Hm. rewrite (IH t (S i) m); [f_equal; lia|cbn [length] in Hf; lia|exact Hm|].
    intros j Hj. apply (Hb (S j)). lia.
Qed.

Lemma is_prefix_true_iff p s : is_prefix p s = true <-> exists r, s = p ++ r.
Proof.
  revert s. induction p as [|x t IH]; intros s; cbn [is_prefix].
  - split; [intros _; exists s; reflexivity|reflexivity].
  - destruct s as [|y u]; [split; [discriminate|intros [r Hr]; discriminate]|].
    rewrite Bool.andb_true_iff, Z.eqb_eq, IH. split.
    + intros [-> [r ->]]. exists r. reflexivity.
    + intros [r Hr]. cbn [app] in Hr. inversion Hr; subst. split; [reflexivity|exists r; reflexivity].
Qed.

Lemma is_prefix_app' q post : is_prefix q (q ++ post) = true.
Proof. induction q as [|x t IH]; [reflexivity|]. cbn [app is_prefix]. now rewrite Z.eqb_refl, IH. Qed.

Definition no10 (l : list Z) : Prop := Forall (fun c => c <> 10) l.
Definition count10 (l : list Z) : nat := length (filter (fun c => c =? 10) l).

Lemma split_first_nl w : no10 w \/ exists a w', w = a ++ 10 :: w' /\ no10 a.
Proof.
  induction w as [|c t IH]; [left; constructor|].
  destruct (Z.eq_dec c 10) as [->|Hc].
  - right. exists [], t. split; [reflexivity|constructor].
  - destruct IH as [H|(a & w' & -> & Ha)].
    + left. constructor; assumption.
    + right. exists (c :: a), w'. split; [reflexivity|constructor; assumption].
Qed.

Lemma add_prefix_no10 w P : no10 w -> add_prefix w P = w.
Proof.
  intros H. unfold add_prefix. induction H as [|c t Hc _ IH]; [reflexivity|]. cbn [flat_map].
  destruct (Z.eqb_spec c 10); [contradiction|]. cbn [app]. now rewrite IH.
Qed.

Lemma add_prefix_split a w' P : no10 a -> add_prefix (a ++ 10 :: w') P = a ++ 10 :: P ++ add_prefix w' P.
Proof.
  intros Ha. transitivity (add_prefix a P ++ add_prefix (10 :: w') P); [apply flat_map_app|].
  rewrite (add_prefix_no10 a P Ha). unfold add_prefix at 1. cbn [flat_map]. change (10 =? 10) with true. cbv iota.
  cbn [app]. reflexivity.
Qed.

Lemma count10_split a w' : no10 a -> count10 (a ++ 10 :: w') = S (count10 w').
Proof.
  intros Ha. unfold count10.
  assert (E : filter (fun c => c =? 10) a = []).
  { induction Ha as [|c t Hc _ IH]; [reflexivity|]. cbn [filter]. destruct (Z.eqb_spec c 10); [contradiction|exact IH]. }
  unfold byte in *. rewrite filter_app, E. cbn [app filter]. change (10 =? 10) with true. cbv iota. reflexivity.
Qed.

Ltac blia := unfold byte in *; lia.

Section Strip.
  Variable P : list Z.
  Hypothesis HP : no10 P.
  Local Notation p := (10 :: P).

  (* an occurrence of "\n"+prefix cannot straddle a line break *)
  Lemma no_straddle d z r : (1 <= length d <= length P)%nat -> d ++ 10 :: z = p ++ r -> False.
  Proof.
    intros Hd E. assert (N : nth (length d) (d ++ 10 :: z) 0 = 10).
    { rewrite app_nth2 by (unfold byte in *; lia). rewrite Nat.sub_diag. reflexivity. }
    rewrite E in N. cbn [app] in N.
    destruct (length d) as [|n] eqn:L; [unfold byte in *; lia|]. cbn [nth] in N.
    rewrite app_nth1 in N by (unfold byte in *; lia).
    unfold no10 in HP. rewrite Forall_forall in HP. apply (HP (nth n P 0)); [apply nth_In; unfold byte in *; lia|exact N].
  Qed.

  Lemma skipn_app_le {A} j (x y : list A) : (j <= length x)%nat -> skipn j (x ++ y) = skipn j x ++ y.
  Proof. intros H. rewrite skipn_app. replace (j - length x)%nat with 0%nat by blia. reflexivity. Qed.

  Lemma is_prefix_app_long q s y : (length q <= length s)%nat -> is_prefix q (s ++ y) = is_prefix q s.
  Proof.
    revert s. induction q as [|c t IH]; intros s H; [reflexivity|]. destruct s as [|d u]; [cbn in H; blia|].
    cbn [app is_prefix]. f_equal. apply IH. cbn in H. blia.
  Qed.

  Lemma leftmost x w' tl : no_occ p (x ++ 10 :: w') ->
    forall j, (j < length x)%nat -> is_prefix p (skipn j (x ++ 10 :: P ++ tl)) = false.
  Proof.
    intros Hno j Hj. rewrite skipn_app_le by blia.
    destruct (Nat.le_gt_cases (length p) (length (skipn j x))) as [Hlong|Hshort].
    - rewrite is_prefix_app_long by exact Hlong.
      specialize (Hno j). unfold occurs_at in Hno. rewrite skipn_app_le in Hno by blia.
      rewrite is_prefix_app_long in Hno by exact Hlong. exact Hno.
    - destruct (is_prefix p (skipn j x ++ 10 :: P ++ tl)) eqn:E; [|reflexivity]. exfalso.
      apply is_prefix_true_iff in E. destruct E as [r Hr].
      apply (no_straddle (skipn j x) (P ++ tl) r); [|exact Hr].
      rewrite skipn_length in *. cbn [length] in Hshort. blia.
  Qed.

  Lemma strip_step f x tl : no_occ p (x ++ 10 :: tl) \/ True -> forall w', no_occ p (x ++ 10 :: w') ->
    strip_prefixes (S f) p (x ++ 10 :: P ++ tl) = strip_prefixes f p (x ++ 10 :: tl).
  Proof.
    intros _ w' Hno. cbn [strip_prefixes].
    assert (Hi : index_of_sub (S (length (x ++ 10 :: P ++ tl))) p (x ++ 10 :: P ++ tl) 0 = Some (0 + length x)%nat).
    { apply index_of_sub_at; [blia| |].
      - rewrite skipn_app_le by blia. rewrite skipn_all2 by blia. cbn [app]. apply (is_prefix_app' (10 :: P)).
      - intros j Hj. apply (leftmost x w' tl Hno j Hj). }
    unfold byte in *. rewrite Hi.
    - cbn [Nat.add]. f_equal.
      replace (firstn (S (length x)) (x ++ 10 :: P ++ tl)) with (x ++ [10]).
      2:{ rewrite firstn_app. replace (S (length x) - length x)%nat with 1%nat by blia.
          rewrite firstn_all2 by blia. reflexivity. }
      replace (skipn (length x + length p) (x ++ 10 :: P ++ tl)) with tl.
      2:{ rewrite skipn_app. rewrite skipn_all2 by blia. replace (length x + length p - length x)%nat with (length p) by blia.
          cbn [length skipn app]. rewrite skipn_app. rewrite skipn_all2 by blia. rewrite Nat.sub_diag. reflexivity. }
      rewrite <- app_assoc. reflexivity.
  Qed.

  Theorem strip_add_prefix fuel : forall w u, (count10 w < fuel)%nat -> no_occ p (u ++ w) ->
    strip_prefixes fuel p (u ++ add_prefix w P) = u ++ w.
  Proof.
    induction fuel as [|f IH]; intros w u Hf Hno; [blia|].
    destruct (split_first_nl w) as [Hw|(a & w' & -> & Ha)].
    - rewrite (add_prefix_no10 w P Hw). cbn [strip_prefixes]. unfold byte in *.
      destruct (index_of_sub (S (length (u ++ w))) p (u ++ w) 0) as [k|] eqn:E; [|reflexivity].
      destruct (index_of_sub_some _ _ _ _ _ E) as (_ & H2 & _). replace (k - 0)%nat with k in H2 by blia.
      specialize (Hno k). unfold occurs_at in Hno. unfold byte in *. rewrite H2 in Hno. discriminate.
    - rewrite (add_prefix_split a w' P Ha).
      transitivity (strip_prefixes (S f) p ((u ++ a) ++ 10 :: P ++ add_prefix w' P)); [f_equal; apply app_assoc|].
      transitivity (strip_prefixes f p ((u ++ a) ++ 10 :: add_prefix w' P)).
      { apply (strip_step f (u ++ a) (add_prefix w' P) (or_intror I) w'). rewrite <- app_assoc. exact Hno. }
      transitivity (strip_prefixes f p ((u ++ a ++ [10]) ++ add_prefix w' P)); [f_equal; rewrite <- !app_assoc; reflexivity|].
      transitivity ((u ++ a ++ [10]) ++ w'); [|rewrite <- !app_assoc; reflexivity].
      apply IH.
      + rewrite count10_split in Hf by exact Ha. blia.
      + replace ((u ++ a ++ [10]) ++ w') with (u ++ a ++ 10 :: w') by (rewrite <- !app_assoc; reflexivity). exact Hno.
  Qed.
End Strip.

(* QualifierIO.String / quotedQualifierParser: a value written with AddPrefix
   is restored by the reader's prefix stripping, for every value in which no
   line break is followed by the continuation prefix itself *)
Theorem qualifier_value_roundtrip prefix v : prefix <> [] -> no10 prefix -> no_occ (10 :: prefix) v ->
  strip_prefixes (S (length (add_prefix v prefix))) (10 :: prefix) (add_prefix v prefix) = v.
Proof.
  intros _ HP Hno. apply (strip_add_prefix prefix HP (S (length (add_prefix v prefix))) v []); [|exact Hno].
  unfold count10. assert (length (filter (fun c => (c =? 10)%Z) v) <= length v)%nat.
  { clear. induction v as [|c t IH]; [cbn; lia|]. cbn [filter]. destruct (c =? 10)%Z; cbn [length]; lia. }
  assert (length v <= length (add_prefix v prefix))%nat.
  { unfold add_prefix. clear. induction v as [|c t IH]; [cbn; blia|]. cbn [flat_map]. rewrite app_length.
    destruct (c =? 10); cbn [length] in *; blia. }
  blia.
Qed.
