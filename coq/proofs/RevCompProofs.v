(* RevCompProofs.v — C05, last clause: what a feature extracts from the
   reverse-complemented record is what it extracted from the original. *)
From Coq Require Import List ZArith Lia Bool.
From GTS Require Import Base Arith Tables Loc Region Seq Nuc BaseLemmas LocProofs EditProofs RegionProofs PlansProofs
  ResizeProofs JoinSafe JoinDen RotateProofs JoinLift.
Import ListNotations.
Open Scope Z_scope.

(* the residues of the reverse complement *)
Definition rc_bytes (p : list byte) : list byte := map cb (rev p).

(* a denoted position in the reverse complement: mirrored, other strand *)
Definition rc_pos (L : Z) (d : Z * bool) : Z * bool := (L - 1 - fst d, negb (snd d)).

Lemma nth_rc (p : list byte) x : 0 <= x < zlen p ->
  nth (Z.to_nat (zlen p - 1 - x)) (rc_bytes p) 0 = cb (nth (Z.to_nat x) p 0).
Proof.
  intros Hx. unfold rc_bytes, zlen in *.
  rewrite (nth_indep _ 0 (cb 0)) by (rewrite map_length, rev_length; lia).
  rewrite map_nth. f_equal.
  rewrite rev_nth by lia. f_equal. lia.
Qed.

Theorem revcomp_reads_same (p : list byte) d :
  Forall (fun b => cb (cb b) = b) p -> Forall (fun x => 0 <= fst x < zlen p) d ->
  map (rd (rc_bytes p)) (map (rc_pos (zlen p)) d) = map (rd p) d.
Proof.
  intros Hinv Hd. rewrite map_map. apply map_ext_in. intros [x c] Hin.
  rewrite Forall_forall in Hd. specialize (Hd _ Hin). cbn [fst] in Hd.
  unfold rd, rc_pos. cbn [fst snd]. rewrite nth_rc by exact Hd.
  destruct c; cbn [negb]; [reflexivity|].
  rewrite Forall_forall in Hinv. apply Hinv. apply nth_In. unfold zlen in Hd. lia.
Qed.

(* reverse then complement of a location: every denoted position goes to its
   mirror image on the other strand, order kept *)
Lemma rc_pos_den L d : rev (map flipd (rev_den L d)) = map (rc_pos L) d.
Proof.
  unfold rev_den. rewrite map_rev, rev_involutive, map_map. apply map_ext. intros [x c]. reflexivity.
Qed.

Theorem revcomp_den_all L : forall l, wf_all range_wf l = true -> k1_after (fun x => reverse x L) l ->
  forall l', reverse l L = Ok l' -> deq (den (Complemented l')) (map (rc_pos L) (den l)).
Proof.
  intros l Hw Hk l' E. rewrite den_complemented, <- rc_pos_den.
  apply deq_rev, deq_map. exact (reverse_den_all L l Hw Hk l' E).
Qed.

Lemma den_complement l : den (complement l) = rev (map flipd (den l)).
Proof.
  destruct l; cbn [complement]; try apply den_complemented.
  rewrite den_complemented, map_rev, rev_involutive, map_map.
  symmetry. erewrite map_ext; [apply map_id|]. intros [x c]. unfold flipd. cbn [fst snd]. now rewrite negb_involutive.
Qed.

(* the residues read for a feature from the reverse-complemented record are the
   residues read for it from the original (up to the adjacent duplicates Join
   removes) *)
Theorem revcomp_extract (p : list byte) l l' : let L := zlen p in
  Forall (fun b => cb (cb b) = b) p -> Forall (fun x => 0 <= fst x < L) (den l) ->
  wf_all range_wf l = true -> k1_after (fun x => reverse x L) l -> reverse l L = Ok l' ->
  deq (map (rd (rc_bytes p)) (den (complement l'))) (map (rd p) (den l)).
Proof.
  intros L Hinv Hd Hw Hk E.
  rewrite <- (revcomp_reads_same p (den l) Hinv Hd).
  apply deq_map. rewrite den_complement, <- rc_pos_den. apply deq_rev, deq_map.
  exact (reverse_den_all L l Hw Hk l' E).
Qed.

(* the IUPAC letters other than u/U are fixed by complementing twice *)
Lemma cb_involutive_iupac : forallb (fun b => cb (cb b) =? b)
  [97; 99; 103; 116; 114; 121; 107; 109; 115; 119; 98; 100; 104; 118; 110;
   65; 67; 71; 84; 82; 89; 75; 77; 83; 87; 66; 68; 72; 86; 78; 45; 42] = true.
Proof. vm_compute. reflexivity. Qed.
