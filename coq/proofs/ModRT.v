(* ModRT.v — C08: AsModifier(m.String()) = m for every modifier. *)
From Coq Require Import List ZArith Lia Bool.
From GTS Require Import Base Arith Pars Loc Region ModParse BaseLemmas ParsLemmas FastaProofs IntRT LocRT BodyRT ParsSpec.
Import ListNotations.
Open Scope Z_scope.

(* ---------- "%+d" read by pars.Int *)
Lemma atoi_signed m : 1 <= m <= int64_max ->
  atoi (43 :: itoa m) = Ok m /\ atoi (45 :: itoa m) = Ok (- m).
Proof.
  intros Hm. destruct (itoa_spec m ltac:(lia)) as (ds & E & Hd & Hne & Hv & _ & _). rewrite E.
  unfold atoi. cbn [Z.eqb Pos.eqb]. change (43 =? 45) with false. change (43 =? 43) with true. change (45 =? 45) with true.
  destruct ds as [|c t]; [contradiction|].
  rewrite (forallb_all_digits _ Hd). cbn [negb]. rewrite Hv. split.
  - destruct (Z.leb_spec m int64_max); [reflexivity|lia].
  - destruct (Z.leb_spec m (int64_max + 1)); [reflexivity|lia].
Qed.

Definition sign_of (p : Z) : byte := if p <? 0 then 45 else 43.

Lemma signed_shape p : p <> 0 -> signed p = sign_of p :: itoa (Z.abs p).
Proof. intros Hp. unfold signed, sign_of. destruct (Z.ltb_spec p 0); f_equal; f_equal; lia. Qed.

Lemma pInt_signed p post : p <> 0 -> - int64_max <= p <= int64_max ->
  match post with c :: _ => is_digit c = false | [] => True end ->
  okp pInt (signed p) post p.
Proof.
  intros Hp Hb Hpost o e a fr k. rewrite signed_shape by exact Hp.
  set (m := Z.abs p). assert (Hm : 1 <= m <= int64_max) by (subst m; lia).
  destruct (atoi_signed m Hm) as [Hplus Hminus].
  destruct (itoa_spec m ltac:(lia)) as (ds & E & Hd & Hne & Hv & Hh & _). rewrite E in *. clear E.
  destruct ds as [|c t]; [contradiction|].
  assert (Hc : is_digit c = true) by (inversion Hd; assumption).
  assert (Hc48 : c <> 48) by (intros ->; apply (Hh ltac:(lia)); reflexivity).
  set (sg := sign_of p).
  assert (Hsg : (sg =? 45) || (sg =? 43) = true) by (subst sg; unfold sign_of; destruct (p <? 0); reflexivity).
  assert (Hat : atoi (sg :: c :: t) = Ok p).
  { subst sg. unfold sign_of. destruct (Z.ltb_spec p 0); [eapply eq_trans; [exact Hminus|]|eapply eq_trans; [exact Hplus|]]; f_equal; subst m; lia. }
  unfold pInt. run ltac:(apply push_eq). cbn [app].
  run ltac:(apply next_cons). rewrite Hsg.
  run ltac:(erewrite bind_ok; [|apply advance_ne; [lia|reflexivity]];
            cbn [skipn Z.to_nat Pos.to_nat Pos.iter_op Nat.add]; apply next_cons).
  rewrite Hc. cbn [negb].
  replace (c =? 48) with false by (symmetry; now apply Z.eqb_neq).
  assert (Hsp : span_n is_digit ((c :: t) ++ post) = (length (c :: t), post)) by (apply span_digits; assumption).
  cbn [app] in Hsp.
  unfold bind at 1. unfold advance_while. cbn [rest stk off apos endr]. rewrite Hsp. cbn [length].
  set (L := Z.of_nat (S (length t))).
  unfold bind at 1. unfold trail. cbn [stk].
  unfold bind at 1. cbn [off].
  rewrite (bind_ok _ _ _ _ _ (pop_ne _ _ _ _ _ _ _ _ _)).
  unfold bind at 1. cbn [off].
  assert (Hreq : o + 1 + L - o = 1 + L) by lia. rewrite Hreq.
  assert (HhL : has_n (sg :: c :: t ++ post) (Z.to_nat (1 + L)) = true).
  { subst L. replace (Z.to_nat (1 + Z.of_nat (S (length t)))) with (length (sg :: c :: t)) by (cbn [length]; lia).
    change (sg :: c :: t ++ post) with ((sg :: c :: t) ++ post). apply has_n_app. }
  rewrite (bind_ok _ _ _ (Some tt, EOther) _ (try_ok _ _ _ _ (request_ok _ o _ a (fr :: k) (1 + L) HhL))).
  unfold bind at 1. unfold buffer. cbn [endr off rest]. replace (o + (1 + L) - o) with (1 + L) by lia.
  destruct (Z.ltb_spec (1 + L) 0); [subst L; lia|].
  rewrite (bind_ok _ _ _ tt _ (advance_ne _ o a fr k (1 + L) ltac:(subst L; lia) HhL)).
  unfold ret. cbv beta iota.
  assert (Hn : Z.to_nat (1 + L) = length (sg :: c :: t)) by (subst L; cbn [length]; lia).
  assert (Hf : firstn (Z.to_nat (1 + L)) (sg :: c :: t ++ post) = sg :: c :: t).
  { rewrite Hn. change (sg :: c :: t ++ post) with ((sg :: c :: t) ++ post). rewrite firstn_app, firstn_all, Nat.sub_diag. cbn [firstn]. now rewrite app_nil_r. }
  assert (Hk : skipn (Z.to_nat (1 + L)) (sg :: c :: t ++ post) = post).
  { rewrite Hn. change (sg :: c :: t ++ post) with ((sg :: c :: t) ++ post). rewrite skipn_app, skipn_all, Nat.sub_diag. reflexivity. }
  rewrite Hf, Hk. unfold lift. rewrite Hat.
  replace (zlen (sg :: c :: t)) with (1 + L) by (subst L; unfold zlen; cbn [length]; lia).
  do 2 eexists. reflexivity.
Qed.

Lemma pInt_failp c t : is_digit c = false -> (c =? 45) || (c =? 43) = false -> failp pInt (c :: t).
Proof. intros Hd Hs o e a fr k. rewrite pInt_nondigit by assumption. do 2 eexists. reflexivity. Qed.

(* at the end of the input pars.Int returns its error WITHOUT popping *)
Lemma pInt_eof o e a (fr : frame) k :
  pInt (mkst [] o e a (fr :: k)) = (Err EEof, mkst [] o (Some o) a (([], o, a) :: fr :: k)).
Proof. unfold pInt. run ltac:(apply push_eq). erewrite bind_err; [|apply next_nil]. reflexivity. Qed.

Lemma pBytes_okp p post : okp (pBytes p) p post tt.
Proof. intros o e a fr k. apply pBytes_ok. Qed.
Lemma pBytes_failp p r : is_prefix p r = false -> failp (pBytes p) r.
Proof. intros H o e a fr k. now apply pBytes_fail. Qed.

(* ---------- "^", "^+5", "$-3": parse_anchor *)
Definition anchor_show (c : byte) (p : Z) : list byte := if p =? 0 then [c] else c :: signed p.
Definition mcoord (p : Z) : Prop := - int64_max <= p <= int64_max.
Definition stops (post : list byte) : Prop :=
  match post with c :: _ => is_digit c = false /\ (c =? 45) || (c =? 43) = false | [] => False end.

Lemma head_show_eq p : head_show p = anchor_show 94 p. Proof. reflexivity. Qed.
Lemma tail_show_eq q : tail_show q = anchor_show 36 q. Proof. reflexivity. Qed.

Definition alt1 (c : byte) : M Z := pMap (pSeq2 (pByte c) pInt) (fun x => Ok (snd x)).
Definition alt2 (c : byte) : M Z := (_ <-- pByte c ;;; ret 0).
Lemma parse_anchor_eq c : parse_anchor c = pMap (pAny [alt1 c; alt2 c]) (fun n => Ok n).
Proof. reflexivity. Qed.

Lemma anchor_nz c p post : p <> 0 -> mcoord p ->
  match post with x :: _ => is_digit x = false | [] => True end ->
  okp (parse_anchor c) (c :: signed p) post p.
Proof.
  intros Hp Hb Hpost. rewrite parse_anchor_eq. eapply pMap_okp with (v := p); [|reflexivity].
  apply pAny_okp, anyl_here. unfold alt1.
  eapply pMap_okp with (v := (c, p)); [|reflexivity].
  change (c :: signed p) with ([c] ++ signed p). apply pSeq2_okp; [apply pByte_okp|now apply pInt_signed].
Qed.

Lemma anchor_zero c post : stops post -> okp (parse_anchor c) [c] post 0.
Proof.
  intros Hs. destruct post as [|x t]; [contradiction|]. destruct Hs as [Hd Hsg].
  rewrite parse_anchor_eq. eapply pMap_okp with (v := 0); [|reflexivity].
  apply pAny_okp, anyl_skip.
  - unfold alt1. apply pMap_failp. apply (pSeq2_fail2 _ _ [c] (x :: t) c); [apply pByte_okp|now apply pInt_failp].
  - apply anyl_here. unfold alt2. apply (okp_ret (pByte c) (fun _ => 0) [c] (x :: t) c). apply pByte_okp.
Qed.

Lemma anchor_reads c p post : mcoord p -> stops post -> okp (parse_anchor c) (anchor_show c p) post p.
Proof.
  intros Hb Hs. unfold anchor_show. destruct (Z.eqb_spec p 0) as [->|Hp].
  - now apply anchor_zero.
  - apply anchor_nz; try assumption. destruct post as [|x t]; [exact I|]. apply Hs.
Qed.

Lemma anchor_reads_end c p : mcoord p -> p <> 0 -> okp (parse_anchor c) (anchor_show c p) [] p.
Proof.
  intros Hb Hp. unfold anchor_show. replace (p =? 0) with false by (symmetry; now apply Z.eqb_neq).
  now apply anchor_nz.
Qed.

Lemma anchor_fails c r : match r with x :: _ => x <> c | [] => True end -> failp (parse_anchor c) r.
Proof.
  intros H. rewrite parse_anchor_eq. apply pMap_failp, pAny_failp.
  apply anyl_fail_cons; [unfold alt1; apply pMap_failp, pSeq2_fail1, pByte_failp, H|].
  apply anyl_fail_cons; [unfold alt2; apply failp_bind, pByte_failp, H|]. apply anyl_fail_nil.
Qed.

(* "^" or "$" as the last byte of the input: pars.Int leaks its frame, the
   second alternative still reads the anchor; one frame too many is left *)
Lemma anchor_end_leaky c : okl (parse_anchor c) [c] 0.
Proof.
  intros o e a fr k. rewrite parse_anchor_eq. unfold pMap at 1. run ltac:(apply push_eq).
  set (F1 := ([c], o, a)).
  assert (E : pAny [alt1 c; alt2 c] (mkst [c] o e a (F1 :: fr :: k)) =
              (Ok 0, mkst [] (o + 1) None (a + 1) (F1 :: F1 :: fr :: k))).
  { unfold pAny. run ltac:(apply push_eq). fold F1. cbn [any_loop].
    (* first alternative: the byte, then Int at the end of the input *)
    assert (E1 : alt1 c (mkst [c] o e a (F1 :: F1 :: fr :: k)) =
                 (Err EEof, mkst [c] o (Some (o + 1)) a (F1 :: F1 :: F1 :: fr :: k))).
    { unfold alt1, pMap. run ltac:(apply push_eq). fold F1.
      assert (E2 : pSeq2 (pByte c) pInt (mkst [c] o e a (F1 :: F1 :: F1 :: fr :: k)) =
                   (Err EEof, mkst [] (o + 1) (Some (o + 1)) (a + 1) (F1 :: F1 :: F1 :: F1 :: fr :: k))).
      { unfold pSeq2. run ltac:(apply push_eq). fold F1.
        run ltac:(apply try_ok; apply pByte_ne).
        run ltac:(apply try_err; apply pInt_eof).
        run ltac:(apply pop_ne). reflexivity. }
      run ltac:(apply try_err; exact E2). run ltac:(apply pop_ne). reflexivity. }
    run ltac:(apply try_err; exact E1). run ltac:(apply pushed_ne).
    cbn [any_loop]. unfold alt2.
    run ltac:(apply try_ok; erewrite bind_ok; [|apply pByte_ne]; reflexivity).
    run ltac:(apply drop_ne). reflexivity. }
  run ltac:(apply try_ok; exact E). run ltac:(apply drop_ne). unfold lift.
  change (zlen [c]) with 1. do 3 eexists. reflexivity.
Qed.

(* ---------- pars.Exact at the top of an empty stack *)
Lemma pHead_zero r o e k : pHead (mkst r o e 0 k) = (Ok tt, mkst r o e 0 k).
Proof. reflexivity. Qed.

Lemma exact_clean {A} (p : M A) txt v : okp p txt [] v -> run (pExact p) txt = Ok v.
Proof.
  intros H. unfold run, st_of, pExact, pMap. run ltac:(apply push_eq).
  set (F := (txt, 0, 0)).
  destruct (H 0 None 0 F [F]) as (o' & e' & E). rewrite app_nil_r in E.
  destruct (pEnd_nil o' e' (0 + zlen txt) [F; F]) as (e2 & E2).
  assert (ES : pSeq3 pHead p pEnd (mkst txt 0 None 0 [F]) = (Ok (tt, v, tt), mkst [] o' e2 (0 + zlen txt) [F])).
  { unfold pSeq3. run ltac:(apply push_eq). fold F.
    run ltac:(apply try_ok; apply pHead_zero).
    run ltac:(apply try_ok; exact E).
    run ltac:(apply try_ok; exact E2). run ltac:(apply drop_ne). reflexivity. }
  run ltac:(apply try_ok; exact ES).
  destruct (drop_any [] o' e2 (0 + zlen txt) F []) as (o3 & E3).
  run ltac:(exact E3). reflexivity.
Qed.

Lemma exact_leaky {A} (p : M A) txt v : okl p txt v -> run (pExact p) txt = Ok v.
Proof.
  intros H. unfold run, st_of, pExact, pMap. run ltac:(apply push_eq).
  set (F := (txt, 0, 0)).
  destruct (H 0 None 0 F [F]) as (o' & e' & x & E).
  destruct (pEnd_nil o' e' (0 + zlen txt) [x; F; F]) as (e2 & E2).
  assert (ES : pSeq3 pHead p pEnd (mkst txt 0 None 0 [F]) = (Ok (tt, v, tt), mkst [] o' e2 (0 + zlen txt) [F; F])).
  { unfold pSeq3. run ltac:(apply push_eq). fold F.
    run ltac:(apply try_ok; apply pHead_zero).
    run ltac:(apply try_ok; exact E).
    run ltac:(apply try_ok; exact E2). run ltac:(apply drop_ne). reflexivity. }
  run ltac:(apply try_ok; exact ES).
  run ltac:(apply drop_ne). reflexivity.
Qed.

(* ---------- the five forms *)
Definition dots_stop : stops (s_dots ++ []) . Proof. cbn. split; reflexivity. Qed.
Lemma stops_dots t : stops (s_dots ++ t). Proof. cbn. split; reflexivity. Qed.

Lemma anchor_show_head c p : exists t, anchor_show c p = c :: t.
Proof. unfold anchor_show. destruct (p =? 0); eexists; reflexivity. Qed.

Lemma anchor_other c c' p : c <> c' -> failp (parse_anchor c') (anchor_show c p).
Proof. intros H. destruct (anchor_show_head c p) as [t ->]. apply anchor_fails. exact H. Qed.
Lemma anchor_other_app c c' p post : c <> c' -> failp (parse_anchor c') (anchor_show c p ++ post).
Proof. intros H. destruct (anchor_show_head c p) as [t ->]. apply anchor_fails. exact H. Qed.

Lemma dots_fail_nil : failp (pBytes s_dots) [].
Proof. apply pBytes_failp. reflexivity. Qed.

Section Pair.
  (* c1 p ".." c2 q, read by Seq(anchor c1, "..", anchor c2) *)
  Variables c1 c2 : byte.
  Variable mk : Z -> Z -> modifier.
  Definition pair_parser : M modifier :=
    pMap (pSeq3 (parse_anchor c1) (pBytes s_dots) (parse_anchor c2)) (fun '(p, _, q) => Ok (mk p q)).
  Definition pair_text (p q : Z) : list byte := anchor_show c1 p ++ s_dots ++ anchor_show c2 q.

  Lemma pair_clean p q : mcoord p -> mcoord q -> q <> 0 -> okp pair_parser (pair_text p q) [] (mk p q).
  Proof.
    intros Hp Hq Hq0. unfold pair_parser. eapply pMap_okp with (v := (p, tt, q)); [|reflexivity].
    apply pSeq3_okp.
    - apply anchor_reads; [exact Hp|]. rewrite app_nil_r. apply stops_dots.
    - rewrite app_nil_r. apply pBytes_okp.
    - now apply anchor_reads_end.
  Qed.

  Lemma pair_leaky p : mcoord p -> okl pair_parser (pair_text p 0) (mk p 0).
  Proof.
    intros Hp. unfold pair_parser. eapply pMap_okl with (v := (p, tt, 0)); [|reflexivity].
    unfold pair_text. change (anchor_show c2 0) with [c2]. apply pSeq3_okl.
    - apply anchor_reads; [exact Hp|]. apply stops_dots.
    - apply pBytes_okp.
    - apply anchor_end_leaky.
  Qed.

  (* the third element is the other anchor: clean failure *)
  Lemma pair_fail3 p r : mcoord p -> match r with x :: _ => x <> c2 | [] => True end ->
    failp pair_parser (anchor_show c1 p ++ s_dots ++ r).
  Proof.
    intros Hp Hr. unfold pair_parser. apply pMap_failp. apply pSeq3_fail3 with (a0 := p) (b0 := tt).
    - apply anchor_reads; [exact Hp|]. apply stops_dots.
    - apply pBytes_okp.
    - now apply anchor_fails.
  Qed.

  (* a single anchor, no "..": clean failure at the end of the input *)
  Lemma pair_fail2 p : mcoord p -> p <> 0 -> failp pair_parser (anchor_show c1 p).
  Proof.
    intros Hp Hp0. unfold pair_parser. apply pMap_failp.
    rewrite <- (app_nil_r (anchor_show c1 p)). apply pSeq3_fail2 with (a0 := p).
    - now apply anchor_reads_end.
    - apply dots_fail_nil.
  Qed.

  Lemma pair_fail1 r : match r with x :: _ => x <> c1 | [] => True end -> failp pair_parser r.
  Proof. intros H. unfold pair_parser. apply pMap_failp, pSeq3_fail1. now apply anchor_fails. Qed.
End Pair.

Lemma parse_modifier_eq : parse_modifier =
  pAny [pair_parser 94 36 MHeadTail; pair_parser 94 94 MHeadHead; pair_parser 36 36 MTailTail;
        (p <-- parse_anchor 94 ;;; ret (MHead p)); (q <-- parse_anchor 36 ;;; ret (MTail q))].
Proof. reflexivity. Qed.

Definition mod_ok (m : modifier) : Prop :=
  match m with
  | MHead p | MTail p => mcoord p
  | MHeadTail p q | MHeadHead p q | MTailTail p q => mcoord p /\ mcoord q
  end.

Lemma first_ne c p : match anchor_show c p with x :: _ => x = c | [] => False end.
Proof. unfold anchor_show. destruct (p =? 0); reflexivity. Qed.

Theorem as_modifier_show m : mod_ok m -> as_modifier (mod_show m) = Ok m.
Proof.
  intros Hm. unfold as_modifier. rewrite parse_modifier_eq.
  destruct m as [p|q|p q|p q|p q]; cbn [mod_show mod_ok] in *; rewrite ?head_show_eq, ?tail_show_eq.
  - (* ^p *)
    destruct (Z.eq_dec p 0) as [->|Hp0]; [vm_compute; reflexivity|].
    apply exact_clean, pAny_okp.
    apply anyl_skip; [rewrite app_nil_r; now apply pair_fail2|].
    apply anyl_skip; [rewrite app_nil_r; now apply pair_fail2|].
    apply anyl_skip; [rewrite app_nil_r; apply pair_fail1; destruct (anchor_show_head 94 p) as [t ->]; discriminate|].
    apply anyl_here. apply (okp_ret (parse_anchor 94) MHead). now apply anchor_reads_end.
  - (* $q *)
    destruct (Z.eq_dec q 0) as [->|Hq0]; [vm_compute; reflexivity|].
    apply exact_clean, pAny_okp.
    apply anyl_skip; [rewrite app_nil_r; apply pair_fail1; destruct (anchor_show_head 36 q) as [t ->]; discriminate|].
    apply anyl_skip; [rewrite app_nil_r; apply pair_fail1; destruct (anchor_show_head 36 q) as [t ->]; discriminate|].
    apply anyl_skip; [rewrite app_nil_r; now apply pair_fail2|].
    apply anyl_skip; [rewrite app_nil_r; apply failp_bind, anchor_other; discriminate|].
    apply anyl_here. apply (okp_ret (parse_anchor 36) MTail). now apply anchor_reads_end.
  - (* ^p..$q *)
    destruct Hm as [Hp Hq]. fold (pair_text 94 36 p q).
    destruct (Z.eq_dec q 0) as [->|Hq0].
    + apply exact_leaky, pAny_okl, anyl_here_l. now apply pair_leaky.
    + apply exact_clean, pAny_okp, anyl_here. now apply pair_clean.
  - (* ^p..^q *)
    destruct Hm as [Hp Hq]. fold (pair_text 94 94 p q).
    assert (F1 : failp (pair_parser 94 36 MHeadTail) (pair_text 94 94 p q)).
    { unfold pair_text. apply pair_fail3; [exact Hp|]. destruct (anchor_show_head 94 q) as [t ->]. discriminate. }
    destruct (Z.eq_dec q 0) as [->|Hq0].
    + apply exact_leaky, pAny_okl. apply anyl_skip_l; [exact F1|]. apply anyl_here_l. now apply pair_leaky.
    + apply exact_clean, pAny_okp. apply anyl_skip; [rewrite app_nil_r; exact F1|]. apply anyl_here. now apply pair_clean.
  - (* $p..$q *)
    destruct Hm as [Hp Hq]. fold (pair_text 36 36 p q).
    assert (F1 : forall c2 mk, failp (pair_parser 94 c2 mk) (pair_text 36 36 p q)).
    { intros c2 mk. apply pair_fail1. unfold pair_text. destruct (anchor_show_head 36 p) as [t ->]. discriminate. }
    destruct (Z.eq_dec q 0) as [->|Hq0].
    + apply exact_leaky, pAny_okl. apply anyl_skip_l; [apply F1|]. apply anyl_skip_l; [apply F1|]. apply anyl_here_l. now apply pair_leaky.
    + apply exact_clean, pAny_okp. apply anyl_skip; [rewrite app_nil_r; apply F1|]. apply anyl_skip; [rewrite app_nil_r; apply F1|].
      apply anyl_here. now apply pair_clean.
Qed.
