(* SplitConcat.v — cutting at any ascending list of positions and concatenating
   the pieces in order (C10, second clause): residues are restored; the windows
   partition what every feature denotes, each residue on its strand. *)
From Coq Require Import List ZArith Lia Bool Permutation.
From GTS Require Import Base Arith Loc Region Seq BaseLemmas LocProofs RegionProofs PlansProofs ResizeProofs.
Import ListNotations.
Open Scope Z_scope.

(* the windows between consecutive cut positions, starting at c0 *)
Fixpoint windows (c0 : Z) (cuts : list Z) : list (Z * Z) :=
  match cuts with [] => [] | c :: t => (c0, c) :: windows c t end.

(* c0 <= c1 <= ... <= ck = L *)
Fixpoint chain (c0 : Z) (cuts : list Z) (L : Z) : Prop :=
  match cuts with [] => c0 = L | c :: t => c0 <= c /\ chain c t L end.

Lemma chain_le cuts : forall c0 L, chain c0 cuts L -> c0 <= L.
Proof.
  induction cuts as [|c t IH]; intros c0 L H; cbn [chain] in H; [lia|].
  destruct H as [H1 H2]. specialize (IH _ _ H2). lia.
Qed.

(* ---------- residues *)

Lemma lslice_chain (p : list byte) cuts : forall c0, 0 <= c0 -> chain c0 cuts (zlen p) ->
  concat (map (fun w => lslice (fst w) (snd w) p) (windows c0 cuts)) = skipn (Z.to_nat c0) p.
Proof.
  induction cuts as [|c t IH]; intros c0 H0 H; cbn [chain windows map concat] in *.
  - subst c0. rewrite skipn_all2; [reflexivity|]. unfold zlen. lia.
  - destruct H as [H1 H2]. pose proof (chain_le _ _ _ H2) as H3. rewrite IH by (try assumption; lia).
    cbn [fst snd]. unfold lslice.
    rewrite <- (firstn_skipn (Z.to_nat (c - c0)) (skipn (Z.to_nat c0) p)) at 2.
    f_equal. rewrite skipn_skipn. f_equal. lia.
Qed.

Theorem split_concat_bytes (p : list byte) cuts : chain 0 cuts (zlen p) ->
  exists pieces,
    omapM (fun w => seq_slice (bare p) (fst w) (snd w)) (windows 0 cuts) = Ok (map bare pieces) /\
    (cuts <> [] -> seq_concat (map bare pieces) = Ok (bare p)).
Proof.
  intros H. exists (map (fun w => lslice (fst w) (snd w) p) (windows 0 cuts)). split.
  - assert (G : forall c0, 0 <= c0 -> chain c0 cuts (zlen p) ->
                omapM (fun w => seq_slice (bare p) (fst w) (snd w)) (windows c0 cuts)
                = Ok (map bare (map (fun w => lslice (fst w) (snd w) p) (windows c0 cuts)))).
    { clear H. induction cuts as [|c t IH]; intros c0 H0 H; cbn [windows omapM map]; [reflexivity|].
      destruct H as [H1 H2]. pose proof (chain_le _ _ _ H2). cbn [fst snd].
      rewrite seq_slice_bare by lia. cbn [obind]. rewrite IH by (try assumption; lia). reflexivity. }
    apply G; [lia|exact H].
  - intros _. rewrite seq_concat_bare. rewrite lslice_chain by (try assumption; lia). reflexivity.
Qed.

(* ---------- what a feature denotes *)

Definition inwin (w : Z * Z) (x : Z * bool) : bool := (fst w <=? fst x) && (fst x <? snd w).

Lemma perm_filter_split {A} (f : A -> bool) (l : list A) :
  Permutation (filter f l ++ filter (fun x => negb (f x)) l) l.
Proof.
  induction l as [|x t IH]; [constructor|]. cbn [filter]. destruct (f x); cbn [negb app].
  - now constructor.
  - eapply Permutation_trans; [apply Permutation_sym, Permutation_middle|]. now constructor.
Qed.

Lemma filter_filter_imp {A} (f g : A -> bool) (l : list A) :
  (forall x, f x = true -> g x = true) -> filter f (filter g l) = filter f l.
Proof.
  intros H. induction l as [|x t IH]; [reflexivity|]. cbn [filter].
  destruct (g x) eqn:Eg; cbn [filter].
  - destruct (f x); [f_equal|]; exact IH.
  - destruct (f x) eqn:Ef; [apply H in Ef; congruence|exact IH].
Qed.

Lemma flat_map_ext_in' {A B} (f g : A -> list B) l : (forall x, In x l -> f x = g x) -> flat_map f l = flat_map g l.
Proof.
  induction l as [|x t IH]; intros H; [reflexivity|]. cbn [flat_map].
  rewrite H by (left; reflexivity). rewrite IH; [reflexivity|]. intros y Hy. apply H. right. exact Hy.
Qed.

Lemma windows_from cuts : forall c0 L w, chain c0 cuts L -> In w (windows c0 cuts) -> c0 <= fst w.
Proof.
  induction cuts as [|c t IH]; intros c0 L w H Hin; cbn [windows In chain] in *; [contradiction|].
  destruct H as [H1 H2]. destruct Hin as [<-|Hin]; [cbn; lia|]. specialize (IH _ _ _ H2 Hin). lia.
Qed.

Theorem windows_partition cuts : forall c0 L (d : list (Z * bool)), chain c0 cuts L ->
  Forall (fun x => c0 <= fst x < L) d ->
  Permutation (flat_map (fun w => filter (inwin w) d) (windows c0 cuts)) d.
Proof.
  induction cuts as [|c t IH]; intros c0 L d H Hd; cbn [chain windows flat_map] in *.
  - subst c0. destruct d as [|x d']; [constructor|]. inversion Hd; subst. lia.
  - destruct H as [H1 H2].
    set (hi := fun x : Z * bool => c <=? fst x).
    assert (E1 : filter (inwin (c0, c)) d = filter (fun x => negb (hi x)) d).
    { apply filter_ext_in. intros x Hx. rewrite Forall_forall in Hd. specialize (Hd x Hx).
      unfold inwin, hi. cbn [fst snd]. destruct (Z.leb_spec c0 (fst x)); [|lia].
      destruct (Z.ltb_spec (fst x) c); destruct (Z.leb_spec c (fst x)); cbn; try reflexivity; lia. }
    assert (E2 : flat_map (fun w => filter (inwin w) d) (windows c t)
               = flat_map (fun w => filter (inwin w) (filter hi d)) (windows c t)).
    { apply flat_map_ext_in'. intros w Hw. symmetry. apply filter_filter_imp.
      intros x Hx. pose proof (windows_from _ _ _ _ H2 Hw). unfold inwin in Hx. unfold hi.
      apply andb_true_iff in Hx as [Hx _]. apply Z.leb_le in Hx. apply Z.leb_le. lia. }
    rewrite E1, E2.
    eapply Permutation_trans; [apply Permutation_app_head, (IH c L (filter hi d) H2)|].
    + apply Forall_forall. intros x Hx. apply filter_In in Hx as [Hx Hh]. rewrite Forall_forall in Hd.
      specialize (Hd x Hx). unfold hi in Hh. apply Z.leb_le in Hh. lia.
    + eapply Permutation_trans; [apply Permutation_app_comm|].
      replace (filter hi d) with (filter (fun x => hi x) d) by reflexivity. apply (perm_filter_split hi d).
Qed.

(* ---------- one piece of one feature, back in place *)
From GTS Require Import EditProofs JoinSafe JoinDen RotateProofs JoinLift UndoProofs.

Theorem piece_den s e L M l : 0 <= s <= e -> e <= L ->
  jfree l = true -> ord_ok l = true -> Forall (fun x => 0 <= fst x < L) (den l) ->
  exists l1 l2, expand l e (e - L) = Ok l1 /\ expand l1 0 (- s) = Ok l2 /\
    (wf_all (awf s M) l2 = true ->
     exists l3, expand l2 0 s = Ok l3 /\ den l3 = filter (inwin (s, e)) (den l)).
Proof.
  intros Hs He Hj Ho Hd.
  destruct (slice_loc_den s e L ltac:(lia) He l Hj Ho) as (l1 & l2 & E1 & E2 & D2 & J2 & O2).
  exists l1, l2. split; [exact E1|]. split; [exact E2|]. intros Hw.
  destruct (expandA_den s M ltac:(lia) l2 J2 O2 Hw) as (l3 & E3 & D3 & _).
  exists l3. split; [exact E3|]. rewrite D3, D2, (slice_window_den s e L (den l) Hs He Hd), map_map.
  erewrite map_ext; [apply map_id|]. intros [x c]. unfold onpos. cbn [fst snd]. f_equal. lia.
Qed.
