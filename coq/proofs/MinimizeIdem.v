(* MinimizeIdem.v — C09: Minimize is a normal form.  A list of segments that
   is already forward, strictly increasing, disjoint and non-abutting (wfsegs,
   what Minimize returns) is returned unchanged; hence Minimize of its own
   result is that result. *)
From Coq Require Import Sorting.Sorted Sorting.Permutation.
From GTS Require Import Base Arith Loc Region BaseLemmas RegionProofs.
Open Scope Z_scope.

Definition as_region (l : list seg) : region := Regs (map (fun s => Seg (fst s) (snd s)) l).

Lemma flatten_as_region l : Forall norm l -> flatten_region (as_region l) = l.
Proof.
  intros H. unfold as_region. cbn [flatten_region].
  induction H as [|[h t] l Hn _ IH]; [reflexivity|].
  cbn [map flat_map flatten_region fst snd]. unfold norm in Hn. cbn [fst snd] in Hn.
  replace (t <? h) with false by (symmetry; apply Z.ltb_ge; lia).
  cbn [app]. f_equal. exact IH.
Qed.

Lemma wfsegs_norm l : wfsegs l -> Forall norm l.
Proof.
  induction l as [|a t IH]; intros H; [constructor|].
  destruct H as [Ha [_ Ht]]. constructor; [exact Ha|now apply IH].
Qed.

Lemma seg_less_after a b : norm a -> norm b -> snd a < fst b -> seg_less b a = false.
Proof.
  destruct a as [a0 a1], b as [b0 b1]. unfold norm, seg_less. cbn [fst snd]. intros Ha Hb Hab.
  replace (b1 <? b0) with false by (symmetry; apply Z.ltb_ge; lia).
  replace (a1 <? a0) with false by (symmetry; apply Z.ltb_ge; lia).
  replace (b0 <? a0) with false by (symmetry; apply Z.ltb_ge; lia).
  replace (a0 <? b0) with true by (symmetry; apply Z.ltb_lt; lia). reflexivity.
Qed.

Lemma seg_sort_wf l : wfsegs l -> seg_sort l = l.
Proof.
  induction l as [|a t IH]; intros H; [reflexivity|].
  destruct H as [Ha [Hab Ht]]. unfold seg_sort in *. cbn [fold_right]. rewrite (IH Ht).
  destruct t as [|b t']; [reflexivity|]. cbn [seg_insert].
  destruct Ht as [Hb _]. now rewrite (seg_less_after a b Ha Hb Hab).
Qed.

Lemma merge_sorted_wf fuel : forall l, wfsegs l -> merge_sorted fuel l = l.
Proof.
  induction fuel as [|f IH]; intros l H; [reflexivity|].
  cbn [merge_sorted]. destruct l as [|a [|b t]]; try reflexivity.
  destruct H as [Ha [Hab Ht]].
  replace (snd a <? fst b) with true by (symmetry; apply Z.ltb_lt; exact Hab).
  f_equal. now apply IH.
Qed.

Theorem minimize_normal_form l : wfsegs l -> minimize (as_region l) = l.
Proof.
  intros H. unfold minimize. rewrite flatten_as_region by now apply wfsegs_norm.
  rewrite (seg_sort_wf l H). now apply merge_sorted_wf.
Qed.

Theorem minimize_idempotent r : minimize (as_region (minimize r)) = minimize r.
Proof. apply minimize_normal_form, minimize_wf. Qed.
