(* FeatRT.v — C01: the feature table written by the table writer is read back
   by INSDCTableParser as the same features (keys, locations, qualifiers). *)
From Coq Require Import List ZArith Lia Bool.
From GTS Require Import Base Arith Pars Loc LocParse Seq Insdc GenBank BaseLemmas ParsLemmas FastaProofs IntRT LocRT BodyRT StripProofs ParsSpec ModRT LocusRT KeylineRT QualRT.
Import ListNotations.
Open Scope Z_scope.

(* ---------- the key line, also as the last line of the input *)
Lemma pEOL_any eol post o e a (fr : frame) k : eol_post eol post ->
  exists o' e', pEOL (mkst (eol ++ post) o e a (fr :: k)) = (Ok eol, mkst post o' e' (a + zlen eol) (fr :: k)).
Proof.
  intros [->|[-> ->]]; cbn [app].
  - rewrite pEOL_lf. do 2 eexists. reflexivity.
  - unfold pEOL. erewrite bind_ok; [|apply try_err, next_nil]. change (zlen []) with 0. rewrite Z.add_0_r. do 2 eexists. reflexivity.
Qed.

Lemma follows_eol eol post : eol_post eol post -> follows (eol ++ post).
Proof. intros [->|[-> ->]]; cbn; auto. Qed.

Theorem keyline_reads_eol prefix depth key l eol post :
  featkey key -> zlen prefix + zlen key < depth -> printable l -> eol_post eol post ->
  forall o e a (fr : frame) k, exists o' e' a',
    keyline_parser prefix depth
      (mkst (prefix ++ key ++ repeat_byte 32 (depth - (zlen prefix + zlen key)) ++ show l ++ eol ++ post) o e a (fr :: k)) =
    (Ok (key, l), mkst post o' e' a' (fr :: k)).
Proof.
  intros [Hkne Hkey] Hdepth Hp Heol o e a fr k. unfold keyline_parser.
  set (n := depth - (zlen prefix + zlen key)).
  set (R0 := key ++ repeat_byte 32 n ++ show l ++ eol ++ post).
  assert (Hh : has_n (prefix ++ R0) (Z.to_nat (zlen prefix)) = true) by (rewrite nat_zlen; apply has_n_app).
  rewrite (bind_ok _ _ _ tt _ (request_ok _ o e a (fr :: k) (zlen prefix) Hh)).
  unfold bind at 1. unfold buffer. cbn [endr off rest].
  replace (o + zlen prefix - o) with (zlen prefix) by lia.
  replace (zlen prefix <? 0) with false by (symmetry; apply Z.ltb_ge; apply zlen_nonneg).
  rewrite nat_zlen, firstn_app, firstn_all, Nat.sub_diag. cbn [firstn]. rewrite app_nil_r, bytes_eqb_refl. cbn [negb].
  rewrite (bind_ok _ _ _ tt _ (advance_ne _ o a fr k (zlen prefix) (zlen_nonneg _) Hh)).
  rewrite nat_zlen, skipn_app, skipn_all, Nat.sub_diag. cbn [skipn app].
  assert (Hpad : exists m, Z.to_nat n = S m) by (exists (Z.to_nat n - 1)%nat; subst n; lia).
  destruct Hpad as (m & Hm).
  assert (Hsp : match repeat_byte 32 n ++ show l ++ eol ++ post with c :: _ => is_featkey c = false | [] => True end).
  { unfold repeat_byte. rewrite Hm. reflexivity. }
  subst R0.
  destruct (pWord_okp is_featkey key (repeat_byte 32 n ++ show l ++ eol ++ post) Hkne Hkey Hsp
              (o + zlen prefix) None (a + zlen prefix) fr k) as (o1 & e1 & E1).
  run ltac:(exact E1).
  fold n. unfold repeat_byte at 1.
  destruct (indent_loop_ok (Z.to_nat n) (show l ++ eol ++ post) o1 e1 (a + zlen prefix + zlen key) fr k) as (e2 & E2).
  run ltac:(exact E2).
  set (f := length (show l ++ eol ++ post)).
  assert (Hsz : (loc_size l <= S f)%nat).
  { pose proof (size_le_show l Hp). subst f. rewrite app_length. lia. }
  destruct (reads_of_body f l (body_all f l Hp Hsz) (eol ++ post) (o1 + Z.of_nat (Z.to_nat n)) e2
              (a + zlen prefix + zlen key + Z.of_nat (Z.to_nat n)) fr k (follows_eol eol post Heol)) as (o3 & e3 & a3 & E3).
  run ltac:(rewrite parse_loc_eq; cbn [rest]; exact E3).
  destruct (pEOL_any eol post o3 e3 a3 fr k Heol) as (o4 & e4 & E4).
  run ltac:(exact E4). do 3 eexists. reflexivity.
Qed.

(* the key line parser stops cleanly at a line that does not start with the prefix *)
Lemma keyline_stops prefix depth r : is_prefix prefix r = false ->
  forall o e a (fr : frame) k, exists kk e', keyline_parser prefix depth (mkst r o e a (fr :: k)) = (Err kk, mkst r o e' a (fr :: k)).
Proof.
  intros H o e a fr k. unfold keyline_parser.
  destruct (has_n r (Z.to_nat (zlen prefix))) eqn:Hh.
  - rewrite (bind_ok _ _ _ tt _ (request_ok _ o e a (fr :: k) (zlen prefix) Hh)).
    unfold bind at 1. unfold buffer. cbn [endr off rest].
    replace (o + zlen prefix - o) with (zlen prefix) by lia.
    replace (zlen prefix <? 0) with false by (symmetry; apply Z.ltb_ge; apply zlen_nonneg).
    assert (Hb : bytes_eqb (firstn (Z.to_nat (zlen prefix)) r) prefix = false).
    { rewrite nat_zlen in *. unfold bytes_eqb. clear - H. revert r H. induction prefix as [|x t IH]; intros r H; [discriminate|].
      destruct r as [|y u]; [reflexivity|]. cbn [length firstn list_eqb is_prefix] in *.
      rewrite (Z.eqb_sym y x). destruct (x =? y); [cbn [andb] in *; apply IH; exact H|reflexivity]. }
    rewrite Hb. cbn [negb]. do 2 eexists. reflexivity.
  - erewrite bind_err; [|apply request_fail; exact Hh]. do 2 eexists. reflexivity.
Qed.

(* ---------- the table as the reader meets it *)
Section Table.
  Variable r : registry.          (* the registry the writer consults *)
  Variables np depth : Z.         (* key column and location column *)
  Hypothesis Hnp : 0 <= np.
  Hypothesis Hdepth : np < depth.

  Definition kprefix : list byte := repeat_byte 32 np.
  Definition qprefix : list byte := repeat_byte 32 depth.

  Definition quals (f : feature) : list (list byte * list byte) :=
    flat_map (fun entry => match entry with name :: vs => map (fun v => (name, v)) vs | [] => [] end) (fprops f).

  Definition fok (f : feature) : Prop :=
    featkey (fkey f) /\ np + zlen (fkey f) < depth /\ printable (floc f) /\ Forall (qok r qprefix) (quals f).

  Definition fhead (f : feature) : list byte :=
    kprefix ++ fkey f ++ repeat_byte 32 (depth - (zlen kprefix + zlen (fkey f))) ++ show (floc f).

  (* one feature, then what ends its last line *)
  Definition ftext (f : feature) (last : list byte) : list byte :=
    fhead f ++ match quals f with [] => last | qs => [10] ++ qtext r qprefix qs last end.

  Fixpoint ttext (fs : list feature) (last : list byte) : list byte :=
    match fs with
    | [] => []
    | [f] => ftext f last
    | f :: t => ftext f [10] ++ ttext t last
    end.

  Definition fnorm (f : feature) : feature := mkfeat (fkey f) (floc f) (props_of (quals f)).

  Definition regs_feats (reg : registry) (fs : list feature) : registry :=
    fold_left (fun rg f => regs_after rg (quals f)) fs reg.

  Lemma zlen_kprefix : zlen kprefix = np.
  Proof. unfold kprefix, repeat_byte, zlen. rewrite repeat_length. lia. Qed.

  Lemma qprefix_facts : qprefix <> [] /\ no10 qprefix /\ plain qprefix.
  Proof.
    unfold qprefix, repeat_byte. assert (exists m, Z.to_nat depth = S m) as (m & ->) by (exists (Z.to_nat depth - 1)%nat; lia).
    split; [discriminate|]. split.
    - apply Forall_forall. intros c Hc. apply repeat_spec in Hc. subst. discriminate.
    - apply Forall_forall. intros c Hc. apply repeat_spec in Hc. subst. split; discriminate.
  Qed.

  Lemma is_prefix_pad a : forall b P c R, (b < a)%nat -> c <> 32 ->
    is_prefix (repeat 32 a ++ P) (repeat 32 b ++ c :: R) = false.
  Proof.
    induction a as [|a IH]; intros b P c R Hb Hc; [lia|].
    destruct b as [|b]; cbn [repeat app is_prefix].
    - replace (32 =? c) with false by (symmetry; apply Z.eqb_neq; congruence). reflexivity.
    - rewrite Z.eqb_refl. cbn [andb]. apply IH; [lia|exact Hc].
  Qed.

  Lemma featkey_head key : featkey key -> exists c t, key = c :: t /\ c <> 32.
  Proof.
    intros [Hne Hk]. destruct key as [|c t]; [contradiction|]. exists c, t. split; [reflexivity|].
    inversion Hk as [|? ? Hc _]; subst. intros ->. discriminate.
  Qed.

  (* a key line is neither a qualifier line nor ... *)
  Lemma fhead_not_qualifier f X : fok f -> is_prefix qprefix (fhead f ++ X) = false.
  Proof.
    intros (Hk & Hd & _). destruct (featkey_head _ Hk) as (c & t & E & Hc).
    unfold fhead, qprefix, kprefix, repeat_byte. rewrite E. rewrite <- !app_assoc. cbn [app].
    pose proof (is_prefix_pad (Z.to_nat depth) (Z.to_nat np) [] c (t ++ repeat 32 (Z.to_nat (depth - (zlen (repeat 32 (Z.to_nat np)) + zlen (c :: t)))) ++ show (floc f) ++ X) ltac:(lia) Hc) as HP.
    rewrite app_nil_r in HP. exact HP.
  Qed.

  Definition stops (post : list byte) : Prop :=
    is_prefix kprefix post = false /\ is_prefix qprefix post = false.

  Lemma ttext_not_qualifier fs last post : Forall fok fs -> stops post ->
    is_prefix qprefix (ttext fs last ++ post) = false.
  Proof.
    intros Hf [_ Hs]. destruct fs as [|f t]; [exact Hs|].
    inversion Hf; subst. destruct t as [|g t'].
    - cbn [ttext]. unfold ftext. rewrite <- app_assoc. now apply fhead_not_qualifier.
    - change (ttext (f :: g :: t') last) with (ftext f [10] ++ ttext (g :: t') last).
      unfold ftext. rewrite <- !app_assoc. now apply fhead_not_qualifier.
  Qed.

  (* every qualifier name of the features still has a quoted reading in reg *)
  Definition names_ok (reg : registry) (fs : list feature) : Prop :=
    forall f q, In f fs -> In q (quals f) -> reg_ok r reg (fst q).

  Lemma reg_ok_after reg qs n : reg_ok r reg n -> reg_ok r (regs_after reg qs) n.
  Proof.
    revert reg. induction qs as [|q t IH]; intros reg H; [exact H|].
    cbn [regs_after fold_left]. apply IH. now apply reg_ok_step.
  Qed.

  Lemma qualifiers_parser_reads f rest_text last post reg o e a (fr : frame) k :
    Forall (qok r qprefix) (quals f) -> eol_post last post ->
    is_prefix qprefix post = false ->
    (forall q, In q (quals f) -> reg_ok r reg (fst q)) ->
    rest_text = qtext r qprefix (quals f) last ++ post ->
    exists o' e' a',
      qualifiers_parser qprefix reg (mkst rest_text o e a (fr :: k)) =
      (Ok (quals f, regs_after reg (quals f)), mkst post o' e' a' (fr :: k)).
  Proof.
    intros Hq Heol Hstop Hreg ->. destruct qprefix_facts as (Q1 & Q2 & Q3).
    unfold qualifiers_parser. unfold bind at 1. unfold get. cbn [rest apos].
    destruct (qualifiers_loop_reads r qprefix Q1 Q2 Q3 (quals f) last post Hq Heol Hstop
                (S (length (qtext r qprefix (quals f) last ++ post))) reg a [] o e a fr k Hreg) as (o' & e' & a' & E).
    - rewrite app_length.
      assert (Hlen : forall qs l, (length qs <= length (qtext r qprefix qs l))%nat).
      { induction qs as [|q t IH]; intros l; [cbn; lia|].
        pose proof (qline_nonempty r qprefix q Q1) as Hq1. destruct t as [|q2 t'].
        - cbn [qtext length]. rewrite app_length. unfold zlen, byte in *. lia.
        - change (qtext r qprefix (q :: q2 :: t') l) with (qline r qprefix q ++ [10] ++ qtext r qprefix (q2 :: t') l).
          rewrite !app_length. specialize (IH l). cbn [length] in *. unfold zlen, byte in *. lia. }
      specialize (Hlen (quals f) last). lia.
    - intros _. lia.
    - intros C. contradiction.
    - cbn [rev app] in E. do 3 eexists. exact E.
  Qed.

  Lemma names_ok_tail reg f t : names_ok reg (f :: t) -> names_ok (regs_after reg (quals f)) t.
  Proof. intros H g q Hg Hq. apply reg_ok_after. apply (H g q); [now right|exact Hq]. Qed.

  (* what follows the head of a feature: the end of its line, its qualifiers, the rest *)
  Lemma after_head f t last post : 
    ttext (f :: t) last ++ post =
    fhead f ++ (match quals f with [] => (match t with [] => last | _ => [10] end) | _ => [10] end) ++
               (qtext r qprefix (quals f) (match t with [] => last | _ => [10] end) ++ ttext t last ++ post).
  Proof.
    destruct t as [|g t'].
    - cbn [ttext]. unfold ftext. destruct (quals f) as [|q qs]; cbn [qtext app]; rewrite <- ?app_assoc; cbn [app]; reflexivity.
    - change (ttext (f :: g :: t') last) with (ftext f [10] ++ ttext (g :: t') last).
      unfold ftext. destruct (quals f) as [|q qs]; cbn [qtext app]; rewrite <- ?app_assoc; cbn [app]; rewrite <- ?app_assoc; reflexivity.
  Qed.

  Lemma features_loop_reads : forall fs last post, Forall fok fs -> eol_post last post -> stops post ->
    forall fuel reg acc o e a (fr : frame) k, names_ok reg fs -> (length fs < fuel)%nat ->
    exists o' e' a',
      features_loop fuel kprefix depth qprefix reg acc (mkst (ttext fs last ++ post) o e a (fr :: k)) =
      (Ok (rev acc ++ map fnorm fs, regs_feats reg fs), mkst post o' e' a' (fr :: k)).
  Proof.
    induction fs as [|f t IH]; intros last post Hok Heol Hstop fuel reg acc o e a fr k Hnames Hfuel;
      (destruct fuel as [|fu]; [cbn [length] in Hfuel; lia|]); cbn [features_loop].
    - cbn [ttext app]. destruct (keyline_stops kprefix depth post (proj1 Hstop) o e a fr k) as (kk & e' & E).
      run ltac:(apply try_err; exact E). cbn [map]. rewrite app_nil_r. do 3 eexists. reflexivity.
    - inversion Hok as [|? ? Hf Hok']; subst. destruct Hf as (Hk & Hd & Hp & Hq).
      rewrite after_head.
      set (eolQ := match t with [] => last | _ => [10] end).
      set (eolK := match quals f with [] => eolQ | _ => [10] end).
      set (Rest := ttext t last ++ post).
      assert (HeolQ : eol_post eolQ Rest).
      { subst eolQ Rest. destruct t as [|g t']; [cbn [ttext app]; exact Heol|left; reflexivity]. }
      assert (HeolK : eol_post eolK (qtext r qprefix (quals f) eolQ ++ Rest)).
      { subst eolK. destruct (quals f) as [|q qs]; [cbn [qtext app]; exact HeolQ|left; reflexivity]. }
      unfold fhead.
      destruct (keyline_reads_eol kprefix depth (fkey f) (floc f) eolK (qtext r qprefix (quals f) eolQ ++ Rest)
                  Hk ltac:(rewrite zlen_kprefix; exact Hd) Hp HeolK o e a fr k) as (o1 & e1 & a1 & E1).
      rewrite <- ?app_assoc. rewrite <- ?app_assoc in E1.
      run ltac:(apply try_ok; exact E1).
      assert (Hst : is_prefix qprefix Rest = false) by (subst Rest; now apply ttext_not_qualifier).
      destruct (qualifiers_parser_reads f _ eolQ Rest reg o1 e1 a1 fr k Hq HeolQ Hst
                  (fun q Hin => Hnames f q (or_introl eq_refl) Hin) eq_refl) as (o2 & e2 & a2 & E2).
      run ltac:(exact E2).
      destruct (IH last post Hok' Heol Hstop fu (regs_after reg (quals f)) (mkfeat (fkey f) (floc f) (props_of (quals f)) :: acc)
                  o2 e2 a2 fr k (names_ok_tail reg f t Hnames) ltac:(cbn [length] in Hfuel; lia)) as (o3 & e3 & a3 & E3).
      subst Rest. rewrite E3. cbn [rev map]. rewrite <- app_assoc. cbn [app]. do 3 eexists. reflexivity.
  Qed.

  Lemma featkey_not_space c : is_featkey c = true -> is_space c = false.
  Proof.
    unfold is_space. intros H.
    repeat (match goal with |- context [c =? ?y] => destruct (Z.eqb_spec c y); [subst; discriminate|] end). reflexivity.
  Qed.

  Lemma repeat_byte_forall_space n : Forall (fun c => is_space c = true) (repeat_byte 32 n).
  Proof. apply spaces_forall. Qed.

  Theorem table_parser_reads : forall f t last post, Forall fok (f :: t) -> eol_post last post -> stops post ->
    forall reg o e a (fr : frame) k, names_ok reg (f :: t) ->
    exists o' e' a',
      table_parser [] reg (mkst (ttext (f :: t) last ++ post) o e a (fr :: k)) =
      (Ok (map fnorm (f :: t), regs_feats reg (f :: t)), mkst post o' e' a' (fr :: k)).
  Proof.
    intros f t last post Hok Heol Hstop reg o e a fr k Hnames.
    inversion Hok as [|? ? Hf Hok']; subst. destruct Hf as (Hk & Hd & Hp & Hq).
    rewrite after_head.
    set (eolQ := match t with [] => last | _ => [10] end).
    set (eolK := match quals f with [] => eolQ | _ => [10] end).
    set (Rest := ttext t last ++ post).
    assert (HeolQ : eol_post eolQ Rest).
    { subst eolQ Rest. destruct t as [|g t']; [cbn [ttext app]; exact Heol|left; reflexivity]. }
    assert (HeolK : eol_post eolK (qtext r qprefix (quals f) eolQ ++ Rest)).
    { subst eolK. destruct (quals f) as [|q qs]; [cbn [qtext app]; exact HeolQ|left; reflexivity]. }
    set (After := qtext r qprefix (quals f) eolQ ++ Rest) in *.
    set (pad := repeat_byte 32 (depth - (zlen kprefix + zlen (fkey f)))).
    destruct Hk as [Hkne Hkf].
    destruct (featkey_head (fkey f) (conj Hkne Hkf)) as (c0 & t0 & Ek & Hc0).
    destruct (printable_head (floc f) Hp) as (l0 & lt & El & Hl0).
    unfold table_parser.
    (* the first key line *)
    assert (EF : exists o1 e1 a1,
      pMap (push ;;;
            a0 <-- try (pBytes []) ;;;
            match a0 with
            | (None, k0) => pop ;;; fail k0
            | (Some _, _) =>
              sp1 <-- pSpaces ;;;
              k1 <-- try (pWord is_featkey) ;;;
              match k1 with
              | (None, e0) => pop ;;; fail e0
              | (Some key, _) =>
                sp2 <-- pSpaces ;;;
                l <-- try parse_loc ;;;
                match l with
                | (None, e0) => pop ;;; fail e0
                | (Some lc, _) =>
                  e2 <-- try pEOL ;;;
                  match e2 with
                  | (None, e') => pop ;;; fail e'
                  | (Some _, _) => drop ;;; ret (zlen sp1, key, zlen sp2, lc)
                  end
                end
              end
            end) (fun x => Ok x)
        (mkst (fhead f ++ eolK ++ After) o e a (fr :: k)) =
      (Ok (np, fkey f, depth - (np + zlen (fkey f)), floc f), mkst After o1 e1 a1 (fr :: k))).
    { unfold pMap. run ltac:(apply push_eq).
      match goal with |- context [try ?body] => set (B := body) end.
      match goal with |- context [mkst ?R o e a (?F1 :: fr :: k)] => set (G1 := F1) end.
      assert (EB : exists o1 e1 a1, B (mkst (fhead f ++ eolK ++ After) o e a (G1 :: fr :: k)) =
                     (Ok (np, fkey f, depth - (np + zlen (fkey f)), floc f), mkst After o1 e1 a1 (G1 :: fr :: k))).
      2:{ destruct EB as (o1 & e1 & a1 & EB). run ltac:(apply try_ok; exact EB). run ltac:(apply drop_ne).
          unfold lift. do 3 eexists. reflexivity. }
      subst B. run ltac:(apply push_eq).
      unfold fhead. fold pad.
      match goal with |- context [mkst ?R o e a (?F2 :: G1 :: fr :: k)] => set (G2 := F2) end.
      destruct (pBytes_okp [] (kprefix ++ fkey f ++ pad ++ show (floc f) ++ eolK ++ After) o e a G2 (G1 :: fr :: k)) as (o1 & e1 & E1).
      cbn [app] in E1. rewrite <- ?app_assoc. run ltac:(apply try_ok; exact E1).
      rewrite pSpaces_eq.
      assert (Hw : word (fkey f)).
      { split; [exact Hkne|]. eapply Forall_impl; [|exact Hkf]. intros c Hc. unfold not_space. now rewrite (featkey_not_space c Hc). }
      destruct (sp_then_word kprefix (fkey f) (pad ++ show (floc f) ++ eolK ++ After) (repeat_byte_forall_space np) Hw
                  o1 e1 (a + zlen (@nil byte)) G2 (G1 :: fr :: k)) as (o2 & e2 & E2).
      run ltac:(exact E2).
      assert (Hpadpos : exists m, Z.to_nat (depth - (zlen kprefix + zlen (fkey f))) = S m).
      { rewrite zlen_kprefix. exists (Z.to_nat (depth - (np + zlen (fkey f))) - 1)%nat. lia. }
      destruct Hpadpos as (m & Hm).
      assert (Hsp : match pad ++ show (floc f) ++ eolK ++ After with c :: _ => is_featkey c = false | [] => True end).
      { subst pad. unfold repeat_byte. rewrite Hm. reflexivity. }
      destruct (pWord_okp is_featkey (fkey f) (pad ++ show (floc f) ++ eolK ++ After) Hkne Hkf Hsp
                  o2 e2 (a + zlen (@nil byte) + zlen kprefix) G2 (G1 :: fr :: k)) as (o3 & e3 & E3).
      run ltac:(apply try_ok; exact E3).
      rewrite El. 
      destruct (sp_then_char pad l0 (lt ++ eolK ++ After) (repeat_byte_forall_space _) Hl0
                  o3 e3 (a + zlen (@nil byte) + zlen kprefix + zlen (fkey f)) G2 (G1 :: fr :: k)) as (o4 & e4 & E4).
      rewrite <- ?app_assoc. cbn [app]. cbn [app] in E4. run ltac:(exact E4).
      (* the location *)
      change (l0 :: lt ++ eolK ++ After) with ((l0 :: lt) ++ eolK ++ After). rewrite <- El.
      set (fu := length (show (floc f) ++ eolK ++ After)).
      assert (Hsz : (loc_size (floc f) <= S fu)%nat).
      { pose proof (size_le_show (floc f) Hp). subst fu. rewrite app_length. lia. }
      destruct (reads_of_body fu (floc f) (body_all fu (floc f) Hp Hsz) (eolK ++ After) o4 e4
                  (a + zlen (@nil byte) + zlen kprefix + zlen (fkey f) + zlen pad) G2 (G1 :: fr :: k)
                  (follows_eol eolK After HeolK)) as (o5 & e5 & a5 & E5).
      run ltac:(apply try_ok; rewrite parse_loc_eq; cbn [rest]; exact E5).
      destruct (pEOL_any eolK After o5 e5 a5 G2 (G1 :: fr :: k) HeolK) as (o6 & e6 & E6).
      run ltac:(apply try_ok; exact E6). run ltac:(apply drop_ne).
      assert (Hz1 : zlen kprefix = np) by apply zlen_kprefix.
      assert (Hz2 : zlen pad = depth - (np + zlen (fkey f))).
      { subst pad. rewrite zlen_kprefix. unfold repeat_byte. unfold zlen at 1. rewrite repeat_length. lia. }
      unfold byte in *. rewrite Hz1, Hz2. do 3 eexists. reflexivity. }
    destruct EF as (o1 & e1 & a1 & EF).
    run ltac:(exact EF). cbv zeta. cbn [app].
    replace (np + zlen (fkey f) + (depth - (np + zlen (fkey f)))) with depth by lia.
    fold kprefix. fold qprefix.
    assert (Hst : is_prefix qprefix Rest = false) by (subst Rest; now apply ttext_not_qualifier).
    destruct (qualifiers_parser_reads f After eolQ Rest reg o1 e1 a1 fr k Hq HeolQ Hst
                (fun q Hin => Hnames f q (or_introl eq_refl) Hin) eq_refl) as (o2 & e2 & a2 & E2).
    run ltac:(exact E2).
    unfold bind at 1. unfold get. cbn [rest].
    destruct (features_loop_reads t last post Hok' Heol Hstop (S (length Rest)) (regs_after reg (quals f))
                [mkfeat (fkey f) (floc f) (props_of (quals f))] o2 e2 a2 fr k (names_ok_tail reg f t Hnames)) as (o3 & e3 & a3 & E3).
    { subst Rest. rewrite app_length.
      assert (Hlen : forall fs l, Forall fok fs -> (length fs <= length (ttext fs l))%nat).
      { induction fs as [|g gs IHg]; intros l Hg; [cbn; lia|]. inversion Hg as [|? ? Hg1 Hg2]; subst.
        assert (Hh : (1 <= length (fhead g))%nat).
        { unfold fhead. rewrite !app_length. destruct Hg1 as ([Hn _] & _). destruct (fkey g); [contradiction|]. cbn [length]. lia. }
        destruct gs as [|g2 gs'].
        - cbn [ttext length]. unfold ftext. rewrite app_length. lia.
        - change (ttext (g :: g2 :: gs') l) with (ftext g [10] ++ ttext (g2 :: gs') l). unfold ftext.
          rewrite !app_length. specialize (IHg l Hg2). cbn [length] in *. lia. }
      specialize (Hlen t last Hok'). lia. }
    subst Rest. rewrite E3. cbn [rev app map]. do 3 eexists. reflexivity.
  Qed.
End Table.
