(* DblinkRT.v — C01: the DBLINK cross references are read back as written.
   The writer prints  name ": " value  per pair, the first after the field
   name, the others on continuation lines; the reader cuts every line at its
   FIRST colon and skips two bytes. *)
From Coq Require Import List ZArith Lia Bool.
From GTS Require Import Base Arith Pars GenBank BaseLemmas ParsLemmas FastaProofs BodyRT.
Import ListNotations.
Open Scope Z_scope.

Definition pair_line (kv : list byte * list byte) : list byte := fst kv ++ [58; 32] ++ snd kv.

(* a name holds no colon and no line break; a value holds no line break (colons allowed) *)
Definition pair_ok (kv : list byte * list byte) : Prop :=
  no_eol (fst kv) /\ Forall (fun c => c <> 58) (fst kv) /\ no_eol (snd kv).

Lemma index_first_colon k rest : Forall (fun c => c <> 58) k -> forall i,
  index_byte_from 58 (k ++ 58 :: rest) i = Some (i + length k)%nat.
Proof.
  induction 1 as [|c t Hc _ IH]; intros i; cbn [app index_byte_from length].
  - rewrite Z.eqb_refl. f_equal. lia.
  - destruct (Z.eqb_spec c 58); [contradiction|]. rewrite IH. f_equal. lia.
Qed.

Lemma pair_line_no_eol kv : pair_ok kv -> no_eol (pair_line kv).
Proof.
  intros (Hk & _ & Hv). unfold pair_line, no_eol in *. apply Forall_app. split; [exact Hk|].
  constructor; [split; discriminate|]. constructor; [split; discriminate|exact Hv].
Qed.

Lemma dblink_pair_ok d kv post o e a k : pair_ok kv ->
  exists o' e', dblink_pair d (mkst (pair_line kv ++ 10 :: post) o e a k) =
    (Ok (dict_set d (fst kv) (snd kv)), mkst post o' e' (a + zlen (pair_line kv) + 1) k).
Proof.
  intros Hok. unfold dblink_pair.
  destruct (pLine_lf (pair_line kv) post o e a k (pair_line_no_eol kv Hok)) as (o1 & e1 & H1).
  rewrite (bind_ok _ _ _ _ _ H1). destruct Hok as (_ & Hc & _).
  cbv beta. unfold pair_line. cbn [app]. unfold byte in *. rewrite (index_first_colon (fst kv) (32 :: snd kv) Hc 0). cbn [Nat.add].
  destruct (Nat.ltb_spec (length (fst kv ++ 58 :: 32 :: snd kv)) (length (fst kv) + 2)) as [Hlt|_].
  - rewrite app_length in Hlt. cbn [length] in Hlt. lia.
  - rewrite firstn_app, firstn_all, Nat.sub_diag. cbn [firstn]. rewrite app_nil_r.
    replace (length (fst kv) + 2)%nat with (length (fst kv ++ [58; 32])) by (rewrite app_length; reflexivity).
    replace (fst kv ++ 58 :: 32 :: snd kv) with ((fst kv ++ [58; 32]) ++ snd kv) by (rewrite <- app_assoc; reflexivity).
    rewrite skipn_app, skipn_all, Nat.sub_diag. cbn [skipn app].
    exists o1, e1. unfold ret. unfold pair_line in *. cbn [app] in *. reflexivity.
Qed.

Section Loop.
  Variable depth : Z.
  Let ind := repeat_byte 32 depth.

  Definition more_text (ps : list (list byte * list byte)) : list byte :=
    concat (map (fun kv => ind ++ pair_line kv ++ [10]) ps).

  Definition set_all (d : list (list byte * list byte)) (ps : list (list byte * list byte)) :=
    fold_left (fun d kv => dict_set d (fst kv) (snd kv)) ps d.

  Lemma dblink_loop_reads ps : forall d o e a k fuel post, Forall pair_ok ps -> (length ps < fuel)%nat ->
    is_prefix ind post = false ->
    exists o' e', dblink_loop fuel depth d (mkst (more_text ps ++ post) o e a k) =
      (Ok (set_all d ps, None), mkst post o' e' (a + zlen (more_text ps)) k).
  Proof.
    induction ps as [|kv t IH]; intros d o e a k fuel post Hps Hf Hp;
      (destruct fuel as [|f]; [cbn in Hf; lia|]); cbn [dblink_loop].
    - cbn [more_text map concat app set_all fold_left]. fold ind.
      destruct (pBytes_fail ind post o e a k Hp) as (kk & e1 & H1).
      rewrite (bind_ok _ _ _ (None, kk) _ (try_err _ _ _ _ H1)). exists o, e1.
      rewrite zlen_nil, Z.add_0_r. reflexivity.
    - inversion Hps as [|? ? Hkv Ht]; subst. fold ind.
      unfold more_text. cbn [map concat]. fold (more_text t). rewrite <- !app_assoc. cbn [app].
      destruct (pBytes_ok ind (pair_line kv ++ 10 :: more_text t ++ post) o e a k) as (o1 & e1 & H1).
      rewrite (bind_ok _ _ _ (Some tt, EOther) _ (try_ok _ _ _ _ H1)).
      destruct (dblink_pair_ok d kv (more_text t ++ post) o1 e1 (a + zlen ind) k Hkv) as (o2 & e2 & H2).
      rewrite (bind_ok _ _ _ (Some (dict_set d (fst kv) (snd kv)), EOther) _ (try_ok _ _ _ _ H2)).
      destruct (IH (dict_set d (fst kv) (snd kv)) o2 e2 (a + zlen ind + zlen (pair_line kv) + 1) k f post Ht
                  ltac:(cbn [length] in Hf; lia) Hp) as (o3 & e3 & H3).
      exists o3, e3. eapply eq_trans; [exact H3|]. cbn [set_all fold_left]. f_equal. f_equal.
      rewrite !zlen_app, zlen_cons. lia.
  Qed.

  Lemma more_text_len ps : (length ps <= length (more_text ps))%nat.
  Proof.
    unfold more_text. induction ps as [|p t IH]; cbn [map concat length]; [lia|].
    rewrite !app_length. cbn [length]. unfold byte in *. lia.
  Qed.

  (* what p_dblink runs once the field name is read: the first pair, then the loop *)
  Definition dblink_body (d0 : list (list byte * list byte)) : M (list (list byte * list byte) * option ekind) :=
    d1 <-- dblink_pair d0 ;;; s <-- get ;;; dblink_loop (S (length (rest s))) depth d1.

  Theorem dblink_body_reads d0 kv ps post o e a k : pair_ok kv -> Forall pair_ok ps ->
    is_prefix ind post = false ->
    exists s', dblink_body d0 (mkst (pair_line kv ++ 10 :: more_text ps ++ post) o e a k) =
      (Ok (set_all d0 (kv :: ps), None), s') /\ rest s' = post /\ stk s' = k.
  Proof.
    intros Hkv Hps Hp. unfold dblink_body.
    destruct (dblink_pair_ok d0 kv (more_text ps ++ post) o e a k Hkv) as (o1 & e1 & H1).
    rewrite (bind_ok _ _ _ _ _ H1). unfold bind at 1. unfold get. cbn [rest].
    destruct (dblink_loop_reads ps (dict_set d0 (fst kv) (snd kv)) o1 e1 (a + zlen (pair_line kv) + 1) k
                (S (length (more_text ps ++ post))) post Hps) as (o2 & e2 & H2).
    - pose proof (more_text_len ps). rewrite app_length. unfold byte in *. lia.
    - exact Hp.
    - eexists. split; [exact H2|]. split; reflexivity.
  Qed.
End Loop.

(* DBLink.Set with pairwise different names rebuilds the list *)
Lemma dict_set_fresh d k v : ~ In k (map fst d) -> dict_set d k v = d ++ [(k, v)].
Proof.
  induction d as [|[k' v'] t IH]; intros H; cbn [dict_set app]; [reflexivity|].
  destruct (bytes_eqb k' k) eqn:E.
  - exfalso. apply H. left. cbn [fst]. unfold bytes_eqb in E. clear - E.
    revert k E. induction k' as [|x t' IHk]; intros [|y u] E; cbn [list_eqb] in E; try discriminate; [reflexivity|].
    apply andb_true_iff in E as [E1 E2]. apply Z.eqb_eq in E1. subst. f_equal. now apply IHk.
  - rewrite IH; [reflexivity|]. intros Hin. apply H. right. exact Hin.
Qed.

Lemma set_all_distinct ps : forall d, NoDup (map fst (d ++ ps)) -> set_all d ps = d ++ ps.
Proof.
  induction ps as [|[k v] t IH]; intros d H; cbn [set_all fold_left]; [now rewrite app_nil_r|].
  cbn [fst snd]. rewrite dict_set_fresh.
  - change (fold_left (fun d0 kv => dict_set d0 (fst kv) (snd kv)) t (d ++ [(k, v)])) with (set_all (d ++ [(k, v)]) t).
    rewrite IH; [rewrite <- app_assoc; reflexivity|]. rewrite <- app_assoc. exact H.
  - rewrite map_app in H. cbn [map fst] in H. apply NoDup_remove_2 in H. intros Hin. apply H. apply in_or_app. left. exact Hin.
Qed.

(* the text the writer prints after "DBLINK      " *)
Definition dblink_text (depth : Z) (ps : list (list byte * list byte)) : list byte :=
  match ps with
  | [] => []
  | kv :: t => pair_line kv ++ [10] ++ more_text depth t
  end.

Theorem dblink_roundtrip depth kv ps post o e a k :
  Forall pair_ok (kv :: ps) -> NoDup (map fst (kv :: ps)) ->
  is_prefix (repeat_byte 32 depth) post = false ->
  exists s', dblink_body depth [] (mkst (dblink_text depth (kv :: ps) ++ post) o e a k) =
    (Ok (kv :: ps, None), s') /\ rest s' = post /\ stk s' = k.
Proof.
  intros Hok Hnd Hp. inversion Hok as [|? ? Hkv Hps]; subst.
  replace (dblink_text depth (kv :: ps) ++ post) with (pair_line kv ++ 10 :: more_text depth ps ++ post)
    by (unfold dblink_text; rewrite <- !app_assoc; reflexivity).
  destruct (dblink_body_reads depth [] kv ps post o e a k Hkv Hps Hp) as (s' & E & R & S).
  exists s'. split; [|split; assumption]. rewrite E.
  rewrite (set_all_distinct (kv :: ps) [] Hnd). reflexivity.
Qed.

(* the writer (GenBank.String): "DBLINK      " before the first pair, twelve
   blanks before every other one *)
Definition dblink_written (ps : list (list byte * list byte)) : list byte :=
  concat (map (fun '(i, (k, v)) =>
                 (if (i : Z) =? 0 then [68;66;76;73;78;75;32;32;32;32;32;32] else indent12) ++ k ++ [58; 32] ++ v ++ nl)
              (combine (zrange 0 (zlen ps)) ps)).

Lemma dblink_written_rest t : forall i0, 1 <= i0 ->
  concat (map (fun '(i, (k, v)) =>
                 (if (i : Z) =? 0 then [68;66;76;73;78;75;32;32;32;32;32;32] else indent12) ++ k ++ [58; 32] ++ v ++ nl)
              (combine (zrange_n i0 (length t)) t)) = more_text 12 t.
Proof.
  induction t as [|[k v] t IH]; intros i0 Hi; [reflexivity|].
  cbn [length zrange_n combine map concat]. unfold more_text. cbn [map concat]. fold (more_text 12 t).
  destruct (Z.eqb_spec i0 0); [lia|]. rewrite IH by lia. unfold pair_line, indent12, nl. cbn [fst snd].
  rewrite <- !app_assoc. reflexivity.
Qed.

Lemma dblink_written_text kv ps :
  dblink_written (kv :: ps) = [68;66;76;73;78;75;32;32;32;32;32;32] ++ dblink_text 12 (kv :: ps).
Proof.
  unfold dblink_written, zrange. rewrite Z.sub_0_r. unfold zlen. rewrite Nat2Z.id.
  destruct kv as [k v]. cbn [length zrange_n combine map concat]. rewrite Z.eqb_refl.
  pose proof (dblink_written_rest ps (0 + 1) ltac:(lia)) as R. unfold byte in *. rewrite R. clear R. unfold dblink_text, pair_line, nl. cbn [fst snd].
  rewrite <- !app_assoc. reflexivity.
Qed.
