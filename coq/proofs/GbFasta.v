(* GbFasta.v — C17, second sentence: a GenBank record written as FASTA
   (FastaWriter.WriteSeq through GenBankFields.String) reads back with the
   record's residues and the description version[:head+1-tail] definition,
   the line breaks of a multi-line DEFINITION turned into blanks. *)
From GTS Require Import Base Pars Fasta BaseLemmas ParsLemmas FastaProofs IntRT.
Open Scope Z_scope.

Lemma nl_to_space_idem d : nl_to_space (nl_to_space d) = nl_to_space d.
Proof.
  unfold nl_to_space. rewrite map_map. apply map_ext. intros c.
  destruct (c =? 10) eqn:E; [reflexivity|now rewrite E].
Qed.

Lemma nl_to_space_app a b : nl_to_space (a ++ b) = nl_to_space a ++ nl_to_space b.
Proof. unfold nl_to_space. apply map_app. Qed.

Lemma nl_to_space_no_eol d : no_byte 13 d -> no_eol (nl_to_space d).
Proof.
  intros H. unfold nl_to_space. induction H as [|c t Hc _ IH]; cbn [map]; constructor; [|exact IH].
  destruct (Z.eqb_spec c 10) as [->|Hn]; split; try discriminate; assumption.
Qed.

Lemma digits_no_eol ds : all_digits ds -> no_eol ds.
Proof.
  intros H. eapply Forall_impl; [|exact H]. intros c Hc. split; intros ->; discriminate.
Qed.

Lemma itoa_no_eol n : 0 <= n -> no_eol (itoa n).
Proof. intros Hn. destruct (itoa_spec n Hn) as (ds & <- & Hd & _). now apply digits_no_eol. Qed.

Lemma no_eol_app a b : no_eol a -> no_eol b -> no_eol (a ++ b).
Proof. intros Ha Hb. apply Forall_app. now split. Qed.

(* the region of a slice as Unpack returns it: 0 <= head, 0 <= tail *)
Definition region_ok (r : option (Z * Z)) : Prop :=
  match r with Some (h, t) => 0 <= h /\ 0 <= t | None => True end.

(* what the reader sees: the same description with the definition on one line *)
Lemma gb_desc_one_line ver reg def : no_eol ver -> region_ok reg ->
  nl_to_space (gb_desc ver reg def) = gb_desc ver reg (nl_to_space def).
Proof.
  intros Hv Hr. unfold gb_desc. destruct reg as [[h t]|].
  - destruct Hr as [Hh Ht]. rewrite !nl_to_space_app.
    rewrite (nl_to_space_id ver Hv), (nl_to_space_id (itoa (h + 1))) by (apply itoa_no_eol; lia).
    rewrite (nl_to_space_id (itoa t)) by now apply itoa_no_eol. reflexivity.
  - rewrite !nl_to_space_app. now rewrite (nl_to_space_id ver Hv).
Qed.

Lemma gb_desc_no_eol ver reg def : no_eol ver -> region_ok reg -> no_eol def ->
  no_eol (gb_desc ver reg def).
Proof.
  intros Hv Hr Hd. unfold gb_desc. destruct reg as [[h t]|].
  - destruct Hr as [Hh Ht]. repeat apply no_eol_app; try assumption;
      try (apply itoa_no_eol; lia); repeat constructor; discriminate.
  - repeat apply no_eol_app; try assumption; repeat constructor; discriminate.
Qed.

Lemma fasta_format_one_line desc data : fasta_format (nl_to_space desc) data = fasta_format desc data.
Proof. unfold fasta_format. now rewrite nl_to_space_idem. Qed.

Theorem gb_fasta_record ver reg def data post o e a k :
  no_eol ver -> region_ok reg -> no_byte 13 def ->
  no_byte 10 data -> no_byte 13 data -> no_gt data -> stops post ->
  exists o' e',
    fasta_parser (mkst (gb_to_fasta ver reg def data ++ post) o e a k) =
    (Ok (gb_desc ver reg (nl_to_space def), data),
     mkst post o' e' (a + zlen (gb_to_fasta ver reg def data)) k).
Proof.
  intros Hv Hr Hd H10 H13 Hgt Hp. unfold gb_to_fasta.
  rewrite <- (fasta_format_one_line (gb_desc ver reg def) data), (gb_desc_one_line _ _ _ Hv Hr).
  apply fasta_record; [|exact Hp]. repeat split; try assumption.
  apply gb_desc_no_eol; try assumption. now apply nl_to_space_no_eol.
Qed.

(* the whole scanner on the file `gts ... -F fasta` writes for one record *)
Theorem gb_fasta_scan ver reg def data :
  no_eol ver -> region_ok reg -> no_byte 13 def ->
  no_byte 10 data -> no_byte 13 data -> no_gt data ->
  scan_fasta (gb_to_fasta ver reg def data) = Ok ([(gb_desc ver reg (nl_to_space def), data)], true).
Proof.
  intros Hv Hr Hd H10 H13 Hgt. unfold gb_to_fasta.
  rewrite <- (fasta_format_one_line (gb_desc ver reg def) data), (gb_desc_one_line _ _ _ Hv Hr).
  pose proof (fasta_stream [(gb_desc ver reg (nl_to_space def), data)]) as H.
  cbn [map concat fmt fst snd] in H. rewrite app_nil_r in H. apply H.
  constructor; [|constructor]. unfold rec_ok, fasta_ok. cbn [fst snd]. repeat split; try assumption.
  apply gb_desc_no_eol; try assumption. now apply nl_to_space_no_eol.
Qed.

(* Fasta.WriteTo puts ANY description on one line (strings.ReplaceAll "\n" " "):
   a description with line feeds reads back with blanks in their place *)
Theorem fasta_record_multiline desc data post o e a k :
  no_byte 13 desc -> no_byte 10 data -> no_byte 13 data -> no_gt data -> stops post ->
  exists o' e',
    fasta_parser (mkst (fasta_format desc data ++ post) o e a k) =
    (Ok (nl_to_space desc, data), mkst post o' e' (a + zlen (fasta_format desc data)) k).
Proof.
  intros Hd H10 H13 Hgt Hp. rewrite <- (fasta_format_one_line desc data).
  apply fasta_record; [|exact Hp]. repeat split; try assumption. now apply nl_to_space_no_eol.
Qed.
