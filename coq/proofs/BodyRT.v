From GTS Require Import Base Arith Tables Pars Loc Seq Origin Insdc GenBank BaseLemmas ParsLemmas.
From Coq Require Import Lia.
Open Scope Z_scope.

(* ---------- a field body written with AddPrefix is read back *)

Lemma bytes_eqb_refl p : bytes_eqb p p = true.
Proof. unfold bytes_eqb. induction p as [|x t IH]; cbn [list_eqb]; [reflexivity|]. now rewrite Z.eqb_refl, IH. Qed.

Lemma bytes_eqb_prefix b p : length b = length p -> bytes_eqb b p = is_prefix p b.
Proof.
  unfold bytes_eqb. revert p. induction b as [|x t IH]; intros [|y u] H; cbn in H; try lia; cbn [list_eqb is_prefix]; [reflexivity|].
  rewrite (Z.eqb_sym y x). f_equal. apply IH. lia.
Qed.

Lemma is_prefix_firstn p r : (length p <= length r)%nat -> is_prefix p (firstn (length p) r) = is_prefix p r.
Proof.
  revert r. induction p as [|x t IH]; intros r H; [reflexivity|]. destruct r as [|y u]; [cbn in H; lia|].
  cbn [length firstn is_prefix]. f_equal. apply IH. cbn in H. lia.
Qed.

Lemma is_prefix_app p post : is_prefix p (p ++ post) = true.
Proof. induction p as [|x t IH]; [reflexivity|]. cbn [app is_prefix]. now rewrite Z.eqb_refl, IH. Qed.

Lemma pBytes_ok p post o e a k :
  exists o' e', pBytes p (mkst (p ++ post) o e a k) = (Ok tt, mkst post o' e' (a + zlen p) k).
Proof.
  unfold pBytes.
  assert (Hh : has_n (p ++ post) (Z.to_nat (zlen p)) = true) by (rewrite nat_zlen; apply has_n_app).
  rewrite (bind_ok _ _ _ tt _ (request_ok _ o e a k (zlen p) Hh)).
  unfold bind at 1. unfold buffer. cbn [endr off rest].
  replace (o + zlen p - o) with (zlen p) by lia.
  replace (zlen p <? 0) with false by (symmetry; apply Z.ltb_ge; apply zlen_nonneg).
  rewrite nat_zlen, firstn_app, firstn_all, Nat.sub_diag. cbn [firstn]. rewrite app_nil_r, bytes_eqb_refl.
  rewrite (advance_ok _ o a k (zlen p) (zlen_nonneg _) Hh).
  rewrite nat_zlen, skipn_app, skipn_all, Nat.sub_diag. cbn [skipn app].
  destruct (autoclear_cases post (o + zlen p) None (a + zlen p) k) as [o1 ->]. exists o1, None. reflexivity.
Qed.

Lemma pBytes_fail p r o e a k : is_prefix p r = false ->
  exists kk e', pBytes p (mkst r o e a k) = (Err kk, mkst r o e' a k).
Proof.
  intros H. unfold pBytes. destruct (has_n r (Z.to_nat (zlen p))) eqn:Hh.
  - rewrite (bind_ok _ _ _ tt _ (request_ok _ o e a k (zlen p) Hh)).
    unfold bind at 1. unfold buffer. cbn [endr off rest].
    replace (o + zlen p - o) with (zlen p) by lia.
    replace (zlen p <? 0) with false by (symmetry; apply Z.ltb_ge; apply zlen_nonneg).
    rewrite nat_zlen in *.
    assert (Hl : (length p <= length r)%nat).
    { destruct (Nat.le_gt_cases (length p) (length r)); [assumption|]. rewrite has_n_gt in Hh by assumption. discriminate. }
    rewrite bytes_eqb_prefix by (rewrite firstn_length; unfold byte in *; lia). rewrite is_prefix_firstn by exact Hl. rewrite H.
    do 2 eexists. reflexivity.
  - rewrite (bind_err _ _ _ _ _ (request_fail _ o e a k (zlen p) Hh)). do 2 eexists. reflexivity.
Qed.

Section Body.
  Variables (depth : Z) (sep : byte).
  Let ind := repeat_byte 32 depth.
  Definition cont_text (ls : list (list byte)) : list byte := concat (map (fun l => ind ++ l ++ [10]) ls).
  Definition joined (ls : list (list byte)) : list byte := concat (map (fun l => sep :: l) ls).

  Lemma field_line_ok l post o e a k : no_eol l ->
    exists o' e', field_line_parser depth (mkst (ind ++ l ++ 10 :: post) o e a k) =
                  (Ok l, mkst post o' e' (a + zlen ind + zlen l + 1) k).
  Proof.
    intros Hl. unfold field_line_parser. fold ind.
    destruct (pBytes_ok ind (l ++ 10 :: post) o e a k) as (o1 & e1 & H1).
    rewrite (bind_ok _ _ _ (Some tt, EOther) _ (try_ok _ _ _ _ H1)).
    destruct (pLine_lf l post o1 e1 (a + zlen ind) k Hl) as (o2 & e2 & H2). exists o2, e2. exact H2.
  Qed.

  Lemma field_line_stop post o e a k : is_prefix ind post = false ->
    exists e', field_line_parser depth (mkst post o e a k) = (Err EOther, mkst post o e' a k).
  Proof.
    intros H. unfold field_line_parser. fold ind.
    destruct (pBytes_fail ind post o e a k H) as (kk & e1 & H1).
    rewrite (bind_ok _ _ _ (None, kk) _ (try_err _ _ _ _ H1)). exists e1. reflexivity.
  Qed.

  Lemma body_loop_lines ls : forall acc m o e a k fuel post, Forall no_eol ls -> (length ls < fuel)%nat ->
    is_prefix ind post = false ->
    exists o' e', body_loop fuel depth sep acc m (mkst (cont_text ls ++ post) o e a k) =
      (Ok (acc ++ joined ls, m || negb (match ls with [] => true | _ => false end)),
       mkst post o' e' (a + zlen (cont_text ls)) k).
  Proof.
    induction ls as [|l t IH]; intros acc m o e a k fuel post Hls Hf Hp;
      (destruct fuel as [|f]; [cbn in Hf; lia|]); cbn [body_loop].
    - cbn [cont_text joined map concat app]. destruct (field_line_stop post o e a k Hp) as (e1 & H1).
      rewrite (bind_ok _ _ _ (None, EOther) _ (try_err _ _ _ _ H1)). exists o, e1.
      rewrite app_nil_r, Bool.orb_false_r, zlen_nil, Z.add_0_r. reflexivity.
    - inversion Hls as [|? ? Hl Ht]; subst.
      unfold cont_text. cbn [map concat]. fold (cont_text t). rewrite <- !app_assoc. cbn [app].
      destruct (field_line_ok l (cont_text t ++ post) o e a k Hl) as (o1 & e1 & H1).
      rewrite (bind_ok _ _ _ (Some l, EOther) _ (try_ok _ _ _ _ H1)).
      destruct (IH (acc ++ [sep] ++ l) true o1 e1 (a + zlen ind + zlen l + 1) k f post Ht ltac:(cbn [length] in Hf; lia) Hp) as (o2 & e2 & H2).
      exists o2, e2. eapply eq_trans; [exact H2|].
      assert (E1 : (acc ++ [sep] ++ l) ++ joined t = acc ++ joined (l :: t))
        by (unfold joined; cbn [map concat app]; now rewrite <- !app_assoc).
      assert (E2 : a + zlen ind + zlen l + 1 + zlen (cont_text t) = a + zlen (ind ++ l ++ 10 :: cont_text t))
        by (rewrite !zlen_app, zlen_cons; lia).
      rewrite E1, E2, Bool.orb_true_r. destruct m; reflexivity.
  Qed.

  Lemma cont_text_len ls : (length ls <= length (cont_text ls))%nat.
  Proof.
    unfold cont_text. induction ls as [|l t IH]; cbn [map concat length]; [lia|].
    rewrite !app_length. cbn [length]. unfold byte in *. lia.
  Qed.

  (* genbankFieldBodyParser: first line, then every continuation line *)
  Theorem field_body_lines l0 ls post o e a k : no_eol l0 -> Forall no_eol ls -> is_prefix ind post = false ->
    exists s', field_body_parser' depth sep (mkst (l0 ++ 10 :: cont_text ls ++ post) o e a k) =
      (Ok (l0 ++ joined ls, negb (match ls with [] => true | _ => false end)), s') /\ rest s' = post /\ stk s' = k.
  Proof.
    intros H0 Hls Hp. unfold field_body_parser'.
    destruct (pLine_lf l0 (cont_text ls ++ post) o e a k H0) as (o1 & e1 & H1).
    rewrite (bind_ok _ _ _ l0 _ H1). unfold bind at 1. unfold get. cbn [rest].
    destruct (body_loop_lines ls l0 false o1 e1 (a + zlen l0 + 1) k (S (length (cont_text ls ++ post))) post Hls) as (o2 & e2 & H2).
    - pose proof (cont_text_len ls). rewrite app_length. unfold byte in *. lia.
    - exact Hp.
    - eexists. split; [exact H2|]. split; reflexivity.
  Qed.
End Body.

(* AddPrefix of a multi-line text is exactly that layout *)
Lemma add_prefix_noeol l ind : no_eol l -> add_prefix l ind = l.
Proof.
  intros H. unfold add_prefix. induction H as [|c t [H1 H2] _ IH]; [reflexivity|]. cbn [flat_map].
  destruct (Z.eqb_spec c 10); [contradiction|]. cbn [app]. now rewrite IH.
Qed.

Lemma add_prefix_app a b ind : add_prefix (a ++ b) ind = add_prefix a ind ++ add_prefix b ind.
Proof. unfold add_prefix. apply flat_map_app. Qed.

Lemma add_prefix_joined ind ls : Forall no_eol ls ->
  add_prefix (joined 10 ls) ind = concat (map (fun l => 10 :: ind ++ l) ls).
Proof.
  intros H. unfold joined. induction H as [|l t Hl _ IH]; [reflexivity|].
  cbn [map concat]. rewrite add_prefix_app. change (10 :: l) with ([10] ++ l). rewrite add_prefix_app, (add_prefix_noeol l _ Hl).
  unfold add_prefix at 1. cbn [flat_map]. change (10 =? 10) with true. cbv iota. rewrite app_nil_r.
  rewrite IH. cbn [app]. first [reflexivity | now rewrite <- app_assoc | now rewrite app_assoc].
Qed.

Lemma shift_newline ind ls :
  concat (map (fun l => 10 :: ind ++ l) ls) ++ [10] = 10 :: concat (map (fun l => ind ++ l ++ [10]) ls).
Proof.
  induction ls as [|l t IH]; [reflexivity|]. cbn [map concat]. rewrite <- app_assoc, IH. cbn [app].
  rewrite <- !app_assoc. reflexivity.
Qed.

Lemma add_prefix_lines depth l0 ls : no_eol l0 -> Forall no_eol ls ->
  add_prefix (l0 ++ joined 10 ls) (repeat_byte 32 depth) ++ [10] = l0 ++ 10 :: cont_text depth ls.
Proof.
  intros H0 Hls. rewrite add_prefix_app, (add_prefix_noeol l0 _ H0), <- app_assoc. f_equal.
  rewrite (add_prefix_joined _ ls Hls). apply shift_newline.
Qed.

(* DEFINITION, COMMENT, the reference subfields and extra fields are written as
   name + AddPrefix(text, indent) + "\n": the body parser reads the text back,
   whatever follows, as long as the next line is not indented like a
   continuation line *)
Theorem field_body_roundtrip depth l0 ls post o e a k :
  no_eol l0 -> Forall no_eol ls -> is_prefix (repeat_byte 32 depth) post = false ->
  exists s', field_body_parser' depth 10
               (mkst ((add_prefix (l0 ++ joined 10 ls) (repeat_byte 32 depth) ++ [10]) ++ post) o e a k) =
             (Ok (l0 ++ joined 10 ls, negb (match ls with [] => true | _ => false end)), s')
             /\ rest s' = post /\ stk s' = k.
Proof.
  intros H0 Hls Hp. rewrite (add_prefix_lines depth l0 ls H0 Hls). rewrite <- app_assoc. cbn [app].
  apply field_body_lines; assumption.
Qed.

(* ---------- KEYWORDS / taxonomy lines: wrapped at blanks, read back joined by blanks *)
From GTS Require Import FastaProofs.

Definition no_cr (w : list byte) : Prop := Forall (fun c => c <> 13) w.

Lemma decompose_lines w : no_cr w ->
  exists l0 ls, w = l0 ++ joined 10 ls /\ no_eol l0 /\ Forall no_eol ls.
Proof.
  induction w as [|c t IH]; intros H.
  - exists [], []. repeat split; constructor.
  - inversion H as [|? ? Hc Ht]; subst. destruct (IH Ht) as (l0 & ls & E & H0 & Hls).
    destruct (Z.eq_dec c 10) as [->|Hn].
    + exists [], (l0 :: ls). split; [|split; [constructor|constructor; assumption]].
      unfold joined in *. cbn [map concat app]. now rewrite E.
    + exists (c :: l0), ls. split; [cbn [app]; now rewrite E|]. split; [constructor; [split; assumption|assumption]|assumption].
Qed.

Lemma no_eol_no_nl l : no_eol l -> Forall (fun c => c <> 10) l.
Proof. intros H. induction H as [|c t [H1 H2] _ IH]; constructor; assumption. Qed.

Lemma unwrap_def (s : list byte) : map (fun c => if c =? 10 then 32 else c) s = s -> True.
Proof. trivial. Qed.

Lemma unwrap_lines (unwrap : list byte -> list byte)
  (Hmap : forall a b, unwrap (a ++ b) = unwrap a ++ unwrap b)
  (Hid : forall l, Forall (fun c => c <> 10) l -> unwrap l = l)
  (Hnl : unwrap [10] = [32]) l0 ls :
  no_eol l0 -> Forall no_eol ls -> unwrap (l0 ++ joined 10 ls) = l0 ++ joined 32 ls.
Proof.
  intros H0 Hls. rewrite Hmap, (Hid l0 (no_eol_no_nl _ H0)). f_equal.
  unfold joined. induction Hls as [|l t Hl _ IH]; cbn [map concat].
  - apply (Hid []). constructor.
  - change (10 :: l) with ([10] ++ l). rewrite !Hmap, Hnl, (Hid l (no_eol_no_nl _ Hl)), IH. reflexivity.
Qed.

Lemma wrap_at_no_cr fuel : forall s c n, c <> 13 -> no_cr s -> no_cr (wrap_at fuel s c n).
Proof.
  induction fuel as [|f IH]; intros s c n Hc Hs; cbn [wrap_at]; [exact Hs|].
  assert (A : forall i, no_cr (firstn i s ++ [10] ++ wrap_at f (skipn (S i) s) c n)).
  { intros i. apply Forall_app. split; [apply Forall_firstn', Hs|]. constructor; [discriminate|].
    apply IH; [exact Hc|apply Forall_skipn', Hs]. }
  destruct (index_byte_from 10 s 0) as [i|].
  - apply Forall_app. split; [apply IH; [exact Hc|apply Forall_firstn', Hs]|].
    constructor; [discriminate|]. apply IH; [exact Hc|apply Forall_skipn', Hs].
  - destruct (Nat.ltb n (length s)); [|exact Hs].
    destruct (last_index_byte c (firstn n s) 0 None); [apply A|].
    destruct (index_byte_from c s 0); [apply A|exact Hs].
Qed.

(* GenBankProofs has unwrap / wrap_unwrap; restated here for the scratch build *)
Definition unwrap' (s : list byte) : list byte := map (fun c => if c =? 10 then 32 else c) s.
Lemma unwrap'_app a b : unwrap' (a ++ b) = unwrap' a ++ unwrap' b.
Proof. apply map_app. Qed.
Lemma unwrap'_id l : Forall (fun c => c <> 10) l -> unwrap' l = l.
Proof.
  induction l as [|x t IH]; intros H; [reflexivity|]. inversion H; subst. cbn [unwrap' map].
  destruct (Z.eqb_spec x 10); [contradiction|]. f_equal. apply IH. assumption.
Qed.

Section Keywords.
  Variable wrap_unwrap' : forall fuel s n, Forall (fun c => c <> 10) s -> unwrap' (wrap_at fuel s 32 n) = s.

  Theorem keywords_body_roundtrip depth s n post o e a k :
    Forall (fun c => c <> 10) s -> no_cr s -> is_prefix (repeat_byte 32 depth) post = false ->
    exists flag s', field_body_parser' depth 32
                 (mkst ((add_prefix (wrap_space s n) (repeat_byte 32 depth) ++ [10]) ++ post) o e a k) =
               (Ok (s, flag), s') /\ rest s' = post /\ stk s' = k.
  Proof.
    intros Hnl Hcr Hp.
    assert (Hw : no_cr (wrap_space s n)) by (apply wrap_at_no_cr; [discriminate|exact Hcr]).
    destruct (decompose_lines _ Hw) as (l0 & ls & E & H0 & Hls).
    rewrite E. rewrite (add_prefix_lines depth l0 ls H0 Hls). rewrite <- app_assoc. cbn [app].
    destruct (field_body_lines depth 32 l0 ls post o e a k H0 Hls Hp) as (s' & Hs & Hr & Hk).
    exists (negb (match ls with [] => true | _ => false end)), s'. split; [|split; assumption].
    eapply eq_trans; [exact Hs|]. replace (l0 ++ joined 32 ls) with s; [reflexivity|].
    rewrite <- (unwrap_lines unwrap' unwrap'_app unwrap'_id eq_refl l0 ls H0 Hls), <- E.
    unfold wrap_space. symmetry. apply wrap_unwrap', Hnl.
  Qed.
End Keywords.
