(* LocRT.v — gts.AsLocation(l.String()) = l: the location parser reads back what
   Location.String prints, statement by statement on the pars model. *)
From GTS Require Import Base Arith Pars Loc LocParse BaseLemmas ParsLemmas FastaProofs IntRT.
From Coq Require Import Lia.
Open Scope Z_scope.

Definition coord (n : Z) : Prop := 0 <= n <= int64_max.

(* what may follow a printed location: nothing, ')' or ',' inside a compound
   location, or the end of the line in a feature table *)
Definition follows (post : list byte) : Prop :=
  match post with [] => True | c :: _ => c = 41 \/ c = 44 \/ c = 10 end.

Lemma follows_nondigit post : follows post -> match post with c :: _ => is_digit c = false | [] => True end.
Proof. destruct post as [|c t]; [trivial|]. intros [->|[->| ->]]; reflexivity. Qed.

Lemma itoa_head n : 0 <= n -> exists c t, itoa n = c :: t /\ is_digit c = true.
Proof.
  intros H. destruct (itoa_spec n H) as (ds & E & Hd & Hne & _). rewrite E. destruct ds as [|c t]; [contradiction|].
  exists c, t. split; [reflexivity|]. inversion Hd; assumption.
Qed.

Lemma digit_facts c : is_digit c = true -> (c =? 60) = false /\ (c =? 62) = false /\ (c =? 94) = false /\ (c =? 46) = false
  /\ (c =? 45) = false /\ (c =? 43) = false /\ (c =? 41) = false /\ (c =? 44) = false.
Proof.
  unfold is_digit. intros H.
  repeat split; match goal with |- (c =? ?x) = false => destruct (Z.eqb_spec c x); [subst; discriminate|reflexivity] end.
Qed.

(* ---------- pars.Int failing cleanly on a non-digit *)
Lemma pInt_nondigit c t o e a (fr : frame) k : is_digit c = false -> (c =? 45) || (c =? 43) = false ->
  pInt (mkst (c :: t) o e a (fr :: k)) = (Err EOther, mkst (c :: t) o (Some (o + 1)) a (fr :: k)).
Proof.
  intros Hd Hs. unfold pInt. rewrite (bind_ok _ _ _ _ _ (push_eq _ _ _ _ _)).
  rewrite (bind_ok _ _ _ _ _ (next_cons c t o e a _)). rewrite Hs, bind_ret, Hd. cbn [negb].
  rewrite (bind_ok _ _ _ _ _ (pop_ne _ _ _ _ _ _ _ _ _)). reflexivity.
Qed.

(* ---------- parsePoint *)
Lemma parse_point_ok n post o e a (fr : frame) k : coord (n + 1) -> 0 <= n -> follows post ->
  parse_point (mkst (itoa (n + 1) ++ post) o e a (fr :: k)) =
  (Ok (Point n), mkst post (o + zlen (itoa (n + 1))) None (a + zlen (itoa (n + 1))) (fr :: k)).
Proof.
  intros Hc Hn Hf. unfold parse_point, pMap. rewrite (bind_ok _ _ _ _ _ (push_eq _ _ _ _ _)).
  rewrite (bind_ok _ _ _ (Some (n + 1), EOther) _ (try_ok _ _ _ _ (pInt_itoa (n + 1) post o e a _ (fr :: k) Hc (follows_nondigit _ Hf)))).
  rewrite (bind_ok _ _ _ _ _ (drop_ne _ _ _ _ _ _ _)). unfold lift. replace (n + 1 - 1) with n by lia. reflexivity.
Qed.

Ltac step_ok H := rewrite (bind_ok _ _ _ _ _ H).

(* ---------- parseBetween *)
Lemma parse_between_ok p post o e a (fr : frame) k : 0 <= p -> coord (p + 1) -> follows post ->
  exists o' a', parse_between (mkst (show (Between p) ++ post) o e a (fr :: k)) =
                (Ok (Between p), mkst post o' None a' (fr :: k)).
Proof.
  intros Hp Hc Hf. cbn [show]. rewrite <- !app_assoc. cbn [app].
  unfold parse_between. step_ok (push_eq (itoa p ++ 94 :: itoa (p + 1) ++ post) o e a (fr :: k)).
  assert (Hc0 : coord p) by (unfold coord in *; lia).
  step_ok (try_ok _ _ _ _ (pInt_itoa p (94 :: itoa (p + 1) ++ post) o e a (itoa p ++ 94 :: itoa (p + 1) ++ post, o, a) (fr :: k) Hc0 eq_refl)).
  step_ok (try_ok _ _ _ _ (next_cons 94 (itoa (p + 1) ++ post) (o + zlen (itoa p)) None (a + zlen (itoa p)) ((itoa p ++ 94 :: itoa (p + 1) ++ post, o, a) :: fr :: k))).
  change (negb (94 =? 94)) with false. cbv iota.
  step_ok (advance_ne (94 :: itoa (p + 1) ++ post) (o + zlen (itoa p)) (a + zlen (itoa p)) (itoa p ++ 94 :: itoa (p + 1) ++ post, o, a) (fr :: k) 1 ltac:(lia) eq_refl).
  cbn [skipn Z.to_nat Pos.to_nat Pos.iter_op Nat.add].
  step_ok (try_ok _ _ _ _ (pInt_itoa (p + 1) post (o + zlen (itoa p) + 1) None (a + zlen (itoa p) + 1) (itoa p ++ 94 :: itoa (p + 1) ++ post, o, a) (fr :: k) Hc (follows_nondigit _ Hf))).
  rewrite Z.eqb_refl. cbn [negb].
  step_ok (drop_ne post (o + zlen (itoa p) + 1 + zlen (itoa (p + 1))) None (a + zlen (itoa p) + 1 + zlen (itoa (p + 1))) (itoa p ++ 94 :: itoa (p + 1) ++ post, o, a) fr k).
  do 2 eexists. reflexivity.
Qed.

(* ---------- parseAmbiguous *)
Lemma parse_ambiguous_ok s e0 post o e a (fr : frame) k : 0 <= s -> coord (s + 1) -> coord e0 -> follows post ->
  exists o' a', parse_ambiguous (mkst (show (Ambiguous s e0) ++ post) o e a (fr :: k)) =
                (Ok (Ambiguous s e0), mkst post o' None a' (fr :: k)).
Proof.
  intros Hs Hc He Hf. cbn [show]. rewrite <- !app_assoc. cbn [app].
  unfold parse_ambiguous. step_ok (push_eq (itoa (s + 1) ++ 46 :: itoa e0 ++ post) o e a (fr :: k)).
  step_ok (try_ok _ _ _ _ (pInt_itoa (s + 1) (46 :: itoa e0 ++ post) o e a (itoa (s + 1) ++ 46 :: itoa e0 ++ post, o, a) (fr :: k) Hc eq_refl)).
  step_ok (try_ok _ _ _ _ (next_cons 46 (itoa e0 ++ post) (o + zlen (itoa (s + 1))) None (a + zlen (itoa (s + 1))) ((itoa (s + 1) ++ 46 :: itoa e0 ++ post, o, a) :: fr :: k))).
  change (negb (46 =? 46)) with false. cbv iota.
  step_ok (advance_ne (46 :: itoa e0 ++ post) (o + zlen (itoa (s + 1))) (a + zlen (itoa (s + 1))) (itoa (s + 1) ++ 46 :: itoa e0 ++ post, o, a) (fr :: k) 1 ltac:(lia) eq_refl).
  cbn [skipn Z.to_nat Pos.to_nat Pos.iter_op Nat.add].
  step_ok (try_ok _ _ _ _ (pInt_itoa e0 post (o + zlen (itoa (s + 1)) + 1) None (a + zlen (itoa (s + 1)) + 1) (itoa (s + 1) ++ 46 :: itoa e0 ++ post, o, a) (fr :: k) He (follows_nondigit _ Hf))).
  step_ok (drop_ne post (o + zlen (itoa (s + 1)) + 1 + zlen (itoa e0)) None (a + zlen (itoa (s + 1)) + 1 + zlen (itoa e0)) (itoa (s + 1) ++ 46 :: itoa e0 ++ post, o, a) fr k).
  replace (s + 1 - 1) with s by lia. do 2 eexists. reflexivity.
Qed.

Ltac run tac := (erewrite bind_ok; [|tac]); cbv beta iota zeta.
Ltac run_next := run ltac:(apply try_ok; apply next_cons).
Ltac run_adv := run ltac:(apply advance_ne; [lia|reflexivity]); cbn [skipn Z.to_nat Pos.to_nat Pos.iter_op Nat.add].

Lemma adv_ret {B} (b : B) c t o a (f0 : frame) k :
  (advance ;;; ret b) (mkst (c :: t) o (Some (o + 1)) a (f0 :: k)) = (Ok b, mkst t (o + 1) None (a + 1) (f0 :: k)).
Proof. rewrite (bind_ok _ _ _ tt _ (advance_ne (c :: t) o a f0 k 1 ltac:(lia) eq_refl)). reflexivity. Qed.

Lemma nondigit_dot t : match 46 :: t with c :: _ => is_digit c = false | [] => True end.
Proof. reflexivity. Qed.

(* ---------- parseRange *)
Lemma parse_range_ok s e0 p5 p3 post o e a (fr : frame) k : 0 <= s -> coord (s + 1) -> coord e0 -> follows post ->
  exists o' e' a', parse_range (mkst (show (Ranged s e0 p5 p3) ++ post) o e a (fr :: k)) =
                   (Ok (Ranged s e0 p5 p3), mkst post o' e' a' (fr :: k)).
Proof.
  intros Hs Hc He Hf. cbn [show]. rewrite <- !app_assoc. cbn [app].
  destruct (itoa_head (s + 1) ltac:(lia)) as (c1 & t1 & E1 & D1).
  destruct (itoa_head e0 ltac:(unfold coord in He; lia)) as (c2 & t2 & E2 & D2).
  destruct (digit_facts c1 D1) as (F60 & _). destruct (digit_facts c2 D2) as (_ & G62 & _).
  unfold parse_range. run ltac:(apply push_eq).
  (* optional '<' *)
  assert (Pre : exists o1 e1 a1,
     forall (K : bool -> M loc), (r <-- try next ;;;
       match r with
       | (None, k0) => pop ;;; fail k0
       | (Some c, _) => p5' <-- (if c =? 60 then advance ;;; ret true else ret false) ;;; K p5'
       end) (mkst ((if p5 then [60] else []) ++ itoa (s + 1) ++ 46 :: 46 :: (if p3 then [62] else []) ++ itoa e0 ++ post) o e a
               (((if p5 then [60] else []) ++ itoa (s + 1) ++ 46 :: 46 :: (if p3 then [62] else []) ++ itoa e0 ++ post, o, a) :: fr :: k))
     = K p5 (mkst (itoa (s + 1) ++ 46 :: 46 :: (if p3 then [62] else []) ++ itoa e0 ++ post) o1 e1 a1
               (((if p5 then [60] else []) ++ itoa (s + 1) ++ 46 :: 46 :: (if p3 then [62] else []) ++ itoa e0 ++ post, o, a) :: fr :: k))).
  { destruct p5; cbn [app].
    - do 3 eexists. intros K. run_next. change (60 =? 60) with true. cbv iota. run ltac:(apply adv_ret). reflexivity.
    - rewrite E1. cbn [app]. do 3 eexists. intros K. run_next. rewrite F60. rewrite bind_ret. reflexivity. }
  destruct Pre as (o1 & e1 & a1 & Pre). rewrite Pre. clear Pre.
  run ltac:(apply try_ok; apply pInt_itoa; [assumption|reflexivity]).
  (* ".." *)
  run ltac:(apply try_ok; apply request_ok; reflexivity).
  unfold bind at 1. unfold buffer. cbn [endr off rest].
  replace (o1 + zlen (itoa (s + 1)) + 2 - (o1 + zlen (itoa (s + 1)))) with 2 by lia.
  change (2 <? 0) with false. cbv iota. change (Z.to_nat 2) with 2%nat. cbn [firstn].
  change (negb (bytes_eqb [46; 46] s_dotdot)) with false. cbv iota.
  run ltac:(apply advance_ne; [lia|reflexivity]). change (Z.to_nat 2) with 2%nat. cbn [skipn].
  (* optional '>' *)
  assert (Mid : exists o2 e2 a2,
     forall (K : bool -> M loc) st0, (r <-- try next ;;;
       match r with
       | (None, k0) => fail k0
       | (Some c, _) => p3' <-- (if c =? 62 then advance ;;; ret true else ret false) ;;; K p3'
       end) (mkst ((if p3 then [62] else []) ++ itoa e0 ++ post) (o1 + zlen (itoa (s + 1)) + 2) None (a1 + zlen (itoa (s + 1)) + 2) (st0 :: fr :: k))
     = K p3 (mkst (itoa e0 ++ post) o2 e2 a2 (st0 :: fr :: k))).
  { destruct p3; cbn [app].
    - do 3 eexists. intros K st0. run_next. change (62 =? 62) with true. cbv iota. run ltac:(apply adv_ret). reflexivity.
    - rewrite E2. cbn [app]. do 3 eexists. intros K st0. run_next. rewrite G62. rewrite bind_ret. reflexivity. }
  destruct Mid as (o2 & e2 & a2 & Mid). rewrite Mid. clear Mid.
  run ltac:(apply try_ok; apply pInt_itoa; [assumption|apply follows_nondigit; assumption]).
  (* legacy trailing '>' : absent *)
  destruct post as [|c t].
  - run ltac:(apply try_err; apply next_nil). rewrite bind_ret.
    run ltac:(apply drop_ne). replace (s + 1 - 1) with s by lia. do 3 eexists. reflexivity.
  - run_next. assert (Hc62 : c = 41 \/ c = 44 \/ c = 10) by exact Hf.
    destruct Hc62 as [-> |[-> | ->]]; cbv iota; rewrite bind_ret; run ltac:(apply drop_ne);
      replace (s + 1 - 1) with s by lia; do 3 eexists; reflexivity.
Qed.

(* ---------- alternatives failing cleanly: the state comes back, only the
   pending-request marker differs *)

Definition clean_fail {A} (p : M A) (r : list byte) (o a : Z) (K : list frame) : Prop :=
  forall e, exists kk e', p (mkst r o e a K) = (Err kk, mkst r o e' a K).

Lemma is_prefix_false_first c p r : c <> hd 0 p -> p <> [] -> is_prefix p (c :: r) = false.
Proof. intros H Hp. destruct p as [|x t]; [contradiction|]. cbn [is_prefix hd] in *. destruct (Z.eqb_spec x c); [subst; contradiction|reflexivity]. Qed.

(* "keyword(" parsers on a text that does not start with the keyword *)
Lemma keyword_fail (kw : list byte) r o e a (fr : frame) k (rest_p : M loc) :
  is_prefix kw r = false ->
  exists kk e',
    (push ;;;
     x <-- try (request (zlen kw)) ;;;
     match x with
     | (None, k0) => pop ;;; fail k0
     | (Some _, _) => b <-- buffer ;;; if negb (bytes_eqb b kw) then pop ;;; fail EOther else rest_p
     end) (mkst r o e a (fr :: k)) = (Err kk, mkst r o e' a (fr :: k)).
Proof.
  intros H. run ltac:(apply push_eq).
  destruct (has_n r (Z.to_nat (zlen kw))) eqn:Hh.
  - run ltac:(apply try_ok; apply request_ok; exact Hh).
    unfold bind at 1. unfold buffer. cbn [endr off rest].
    replace (o + zlen kw - o) with (zlen kw) by lia.
    destruct (Z.ltb_spec (zlen kw) 0); [pose proof (zlen_nonneg kw); lia|].
    rewrite nat_zlen in *.
    assert (Hl : (length kw <= length r)%nat).
    { destruct (Nat.le_gt_cases (length kw) (length r)); [assumption|]. rewrite has_n_gt in Hh by assumption. discriminate. }
    assert (Hb : bytes_eqb (firstn (length kw) r) kw = false).
    { unfold bytes_eqb. clear Hh. revert r H Hl. clear. induction kw as [|x t IH]; intros r H Hl; [discriminate|].
      destruct r as [|y u]; [cbn in Hl; lia|]. cbn [length firstn list_eqb is_prefix] in *.
      rewrite (Z.eqb_sym y x). destruct (x =? y); [cbn [andb] in *; apply IH; [exact H|lia]|reflexivity]. }
    rewrite Hb. cbn [negb]. run ltac:(apply pop_ne). do 2 eexists. reflexivity.
  - run ltac:(apply try_err; apply request_fail; exact Hh). run ltac:(apply pop_ne). do 2 eexists. reflexivity.
Qed.

Definition nonsign (c : byte) : Prop := (c =? 45) || (c =? 43) = false.

(* parseRange on a text that starts with a letter *)
Lemma parse_range_fail_letter c t o e a (fr : frame) k :
  is_digit c = false -> nonsign c -> (c =? 60) = false ->
  exists kk e', parse_range (mkst (c :: t) o e a (fr :: k)) = (Err kk, mkst (c :: t) o e' a (fr :: k)).
Proof.
  intros Hd Hs H60. unfold parse_range. run ltac:(apply push_eq). run_next. rewrite H60. rewrite bind_ret.
  run ltac:(apply try_err; apply pInt_nondigit; assumption). run ltac:(apply pop_ne). do 2 eexists. reflexivity.
Qed.

(* parseRange on a number that is not followed by ".." *)
Lemma parse_range_fail_number n post o e a (fr : frame) k : coord n ->
  match post with c :: _ => is_digit c = false | [] => True end ->
  is_prefix s_dotdot post = false ->
  exists kk e', parse_range (mkst (itoa n ++ post) o e a (fr :: k)) = (Err kk, mkst (itoa n ++ post) o e' a (fr :: k)).
Proof.
  intros Hc Hp Hdd. destruct (itoa_head n ltac:(unfold coord in Hc; lia)) as (c1 & t1 & E1 & D1).
  destruct (digit_facts c1 D1) as (F60 & _).
  unfold parse_range. run ltac:(apply push_eq).
  assert (Hn1 : try next (mkst (itoa n ++ post) o e a ((itoa n ++ post, o, a) :: fr :: k)) =
                (Ok (Some c1, EOther), mkst (itoa n ++ post) o (Some (o + 1)) a ((itoa n ++ post, o, a) :: fr :: k))).
  { rewrite E1. cbn [app]. apply try_ok. apply next_cons. }
  run ltac:(exact Hn1). rewrite F60, bind_ret.
  run ltac:(apply try_ok; apply pInt_itoa; assumption).
  destruct (has_n post (Z.to_nat 2)) eqn:Hh.
  - run ltac:(apply try_ok; apply request_ok; exact Hh).
    unfold bind at 1. unfold buffer. cbn [endr off rest].
    replace (o + zlen (itoa n) + 2 - (o + zlen (itoa n))) with 2 by lia.
    change (2 <? 0) with false. cbv iota. change (Z.to_nat 2) with 2%nat in *.
    assert (Hb : bytes_eqb (firstn 2 post) s_dotdot = false).
    { destruct post as [|x [|y u]]; try discriminate. cbn [firstn]. unfold s_dotdot in *. cbn [is_prefix] in Hdd.
      unfold bytes_eqb. cbn [list_eqb]. rewrite (Z.eqb_sym x 46), (Z.eqb_sym y 46).
      destruct (46 =? x); [destruct (46 =? y); [discriminate|reflexivity]|reflexivity]. }
    rewrite Hb. cbn [negb]. run ltac:(apply pop_ne). do 2 eexists. reflexivity.
  - run ltac:(apply try_err; apply request_fail; exact Hh). run ltac:(apply pop_ne). do 2 eexists. reflexivity.
Qed.

(* parseBetween / parseAmbiguous *)
Lemma parse_between_fail_letter c t o e a (fr : frame) k :
  is_digit c = false -> nonsign c ->
  exists kk e', parse_between (mkst (c :: t) o e a (fr :: k)) = (Err kk, mkst (c :: t) o e' a (fr :: k)).
Proof.
  intros Hd Hs. unfold parse_between. run ltac:(apply push_eq).
  run ltac:(apply try_err; apply pInt_nondigit; assumption). run ltac:(apply pop_ne). do 2 eexists. reflexivity.
Qed.

Lemma parse_ambiguous_fail_letter c t o e a (fr : frame) k :
  is_digit c = false -> nonsign c ->
  exists kk e', parse_ambiguous (mkst (c :: t) o e a (fr :: k)) = (Err kk, mkst (c :: t) o e' a (fr :: k)).
Proof.
  intros Hd Hs. unfold parse_ambiguous. run ltac:(apply push_eq).
  run ltac:(apply try_err; apply pInt_nondigit; assumption). run ltac:(apply pop_ne). do 2 eexists. reflexivity.
Qed.

Lemma parse_between_fail_number n post o e a (fr : frame) k : coord n ->
  match post with c :: _ => is_digit c = false /\ c <> 94 | [] => True end ->
  exists kk e', parse_between (mkst (itoa n ++ post) o e a (fr :: k)) = (Err kk, mkst (itoa n ++ post) o e' a (fr :: k)).
Proof.
  intros Hc Hp. unfold parse_between. run ltac:(apply push_eq).
  run ltac:(apply try_ok; apply pInt_itoa; [assumption|destruct post; [trivial|apply Hp]]).
  destruct post as [|c t].
  - run ltac:(apply try_err; apply next_nil). run ltac:(apply pop_ne). do 2 eexists. reflexivity.
  - run_next. destruct Hp as [_ H94]. destruct (Z.eqb_spec c 94); [contradiction|]. cbn [negb].
    run ltac:(apply pop_ne). do 2 eexists. reflexivity.
Qed.

Lemma parse_ambiguous_fail_number n post o e a (fr : frame) k : coord n ->
  match post with c :: _ => is_digit c = false /\ c <> 46 | [] => True end ->
  exists kk e', parse_ambiguous (mkst (itoa n ++ post) o e a (fr :: k)) = (Err kk, mkst (itoa n ++ post) o e' a (fr :: k)).
Proof.
  intros Hc Hp. unfold parse_ambiguous. run ltac:(apply push_eq).
  run ltac:(apply try_ok; apply pInt_itoa; [assumption|destruct post; [trivial|apply Hp]]).
  destruct post as [|c t].
  - run ltac:(apply try_err; apply next_nil). run ltac:(apply pop_ne). do 2 eexists. reflexivity.
  - run_next. destruct Hp as [_ H46]. destruct (Z.eqb_spec c 46); [contradiction|]. cbn [negb].
    run ltac:(apply pop_ne). do 2 eexists. reflexivity.
Qed.

(* ---------- pars.Any *)
Lemma any_skip {A} (p : M A) t last s kk r o e a (fr : frame) k :
  p s = (Err kk, mkst r o e a (fr :: k)) -> any_loop (p :: t) last s = any_loop t kk (mkst r o e a (fr :: k)).
Proof. intros H. cbn [any_loop]. run ltac:(apply try_err; exact H). run ltac:(apply pushed_ne). reflexivity. Qed.

Lemma any_take {A} (p : M A) t last s v s' :
  p s = (Ok v, s') -> any_loop (p :: t) last s = (drop ;;; ret v) s'.
Proof. intros H. cbn [any_loop]. run ltac:(apply try_ok; exact H). reflexivity. Qed.

Lemma drop_any r o e a (f0 : frame) K : exists o', drop (mkst r o e a (f0 :: K)) = (Ok tt, mkst r o' e a K).
Proof. unfold drop. cbn [stk rest off endr apos]. destruct (autoclear_cases r o e a K) as [o' ->]. exists o'. reflexivity. Qed.

(* skipping an alternative that fails cleanly *)
Ltac skip_alt H :=
  let kk := fresh "kk" in let e' := fresh "e'" in let E := fresh "E" in
  destruct H as (kk & e' & E); erewrite any_skip; [|exact E]; clear E.

Section Body.
  Variable pl : M loc.

  Definition alts : list (M loc) :=
    [parse_range; parse_between; parse_ambiguous; parse_complement pl; parse_join pl; parse_order pl; parse_point].

  Lemma s_complement_len : zlen s_complement = 11. Proof. reflexivity. Qed.

  Lemma complement_kw_fail r o e a (fr : frame) k : is_prefix s_complement r = false ->
    exists kk e', parse_complement pl (mkst r o e a (fr :: k)) = (Err kk, mkst r o e' a (fr :: k)).
  Proof. intros H. unfold parse_complement. change 11 with (zlen s_complement). apply keyword_fail. exact H. Qed.

  Lemma wrapped_kw_fail kw fin r o e a (fr : frame) k : is_prefix kw r = false ->
    exists kk e', parse_wrapped pl kw fin (mkst r o e a (fr :: k)) = (Err kk, mkst r o e' a (fr :: k)).
  Proof. intros H. unfold parse_wrapped. apply keyword_fail. exact H. Qed.

  (* a printed number, followed by nothing, ')' or ',' : the point alternative *)
  Lemma body_point n post o e a (fr : frame) k : 0 <= n -> coord (n + 1) -> follows post ->
    exists o' e' a', any_loop alts EOther (mkst (show (Point n) ++ post) o e a (fr :: k)) =
                     (drop ;;; ret (Point n)) (mkst post o' e' a' (fr :: k)).
  Proof.
    intros Hn Hc Hf. cbn [show]. unfold alts.
    destruct (itoa_head (n + 1) ltac:(lia)) as (c1 & t1 & E1 & D1).
    assert (Hdd : is_prefix s_dotdot post = false).
    { destruct post as [|c t]; [reflexivity|]. destruct Hf as [-> |[-> | ->]]; reflexivity. }
    skip_alt (parse_range_fail_number (n + 1) post o e a fr k Hc (follows_nondigit _ Hf) Hdd).
    assert (H94 : match post with c :: _ => is_digit c = false /\ c <> 94 | [] => True end).
    { destruct post as [|c t]; [trivial|]. destruct Hf as [-> |[-> | ->]]; split; (reflexivity || discriminate). }
    skip_alt (parse_between_fail_number (n + 1) post o e' a fr k Hc H94).
    assert (H46 : match post with c :: _ => is_digit c = false /\ c <> 46 | [] => True end).
    { destruct post as [|c t]; [trivial|]. destruct Hf as [-> |[-> | ->]]; split; (reflexivity || discriminate). }
    skip_alt (parse_ambiguous_fail_number (n + 1) post o e'0 a fr k Hc H46).
    assert (Hkw : forall kw, hd 0 kw <> c1 -> kw <> [] -> is_prefix kw (itoa (n + 1) ++ post) = false).
    { intros kw H1 H2. rewrite E1. cbn [app]. apply is_prefix_false_first; [congruence|exact H2]. }
    assert (Hc1 : c1 <> 99 /\ c1 <> 106 /\ c1 <> 111).
    { unfold is_digit in D1. repeat split; intros ->; discriminate. }
    skip_alt (complement_kw_fail (itoa (n + 1) ++ post) o e'1 a fr k (Hkw s_complement ltac:(cbn; intuition congruence) ltac:(discriminate))).
    skip_alt (wrapped_kw_fail s_join join (itoa (n + 1) ++ post) o e'2 a fr k (Hkw s_join ltac:(cbn; intuition congruence) ltac:(discriminate))).
    skip_alt (wrapped_kw_fail s_order order (itoa (n + 1) ++ post) o e'3 a fr k (Hkw s_order ltac:(cbn; intuition congruence) ltac:(discriminate))).
    erewrite any_take; [|apply parse_point_ok; assumption]. do 3 eexists. reflexivity.
  Qed.

  Lemma body_range s0 e0 p5 p3 post o e a (fr : frame) k : 0 <= s0 -> coord (s0 + 1) -> coord e0 -> follows post ->
    exists o' e' a', any_loop alts EOther (mkst (show (Ranged s0 e0 p5 p3) ++ post) o e a (fr :: k)) =
                     (drop ;;; ret (Ranged s0 e0 p5 p3)) (mkst post o' e' a' (fr :: k)).
  Proof.
    intros Hs Hc He Hf. unfold alts.
    destruct (parse_range_ok s0 e0 p5 p3 post o e a fr k Hs Hc He Hf) as (o' & e' & a' & E).
    erewrite any_take; [|exact E]. do 3 eexists. reflexivity.
  Qed.

  Lemma body_between p post o e a (fr : frame) k : 0 <= p -> coord (p + 1) -> follows post ->
    exists o' e' a', any_loop alts EOther (mkst (show (Between p) ++ post) o e a (fr :: k)) =
                     (drop ;;; ret (Between p)) (mkst post o' e' a' (fr :: k)).
  Proof.
    intros Hp Hc Hf. unfold alts.
    assert (Hc0 : coord p) by (unfold coord in *; lia).
    assert (Hsh : show (Between p) ++ post = itoa p ++ 94 :: itoa (p + 1) ++ post) by (cbn [show]; rewrite <- !app_assoc; reflexivity).
    pose proof (parse_range_fail_number p (94 :: itoa (p + 1) ++ post) o e a fr k Hc0 eq_refl eq_refl) as F1.
    rewrite <- Hsh in F1. skip_alt F1.
    destruct (parse_between_ok p post o e' a fr k Hp Hc Hf) as (o' & a' & E).
    erewrite any_take; [|exact E]. do 3 eexists. reflexivity.
  Qed.

  Lemma body_ambiguous s0 e0 post o e a (fr : frame) k : 0 <= s0 -> coord (s0 + 1) -> coord e0 -> follows post ->
    exists o' e' a', any_loop alts EOther (mkst (show (Ambiguous s0 e0) ++ post) o e a (fr :: k)) =
                     (drop ;;; ret (Ambiguous s0 e0)) (mkst post o' e' a' (fr :: k)).
  Proof.
    intros Hs Hc He Hf. unfold alts.
    destruct (itoa_head e0 ltac:(unfold coord in He; lia)) as (c2 & t2 & E2 & D2).
    destruct (digit_facts c2 D2) as (_ & _ & _ & G46 & _).
    assert (Hsh : show (Ambiguous s0 e0) ++ post = itoa (s0 + 1) ++ 46 :: itoa e0 ++ post) by (cbn [show]; rewrite <- !app_assoc; reflexivity).
    assert (Hdd : is_prefix s_dotdot (46 :: itoa e0 ++ post) = false).
    { rewrite E2. cbn [app is_prefix s_dotdot]. rewrite Z.eqb_refl. cbn [andb]. rewrite (Z.eqb_sym 46 c2), G46. reflexivity. }
    pose proof (parse_range_fail_number (s0 + 1) (46 :: itoa e0 ++ post) o e a fr k Hc eq_refl Hdd) as F1.
    rewrite <- Hsh in F1. skip_alt F1.
    pose proof (parse_between_fail_number (s0 + 1) (46 :: itoa e0 ++ post) o e' a fr k Hc ltac:(split; [reflexivity|discriminate])) as F2.
    rewrite <- Hsh in F2. skip_alt F2.
    destruct (parse_ambiguous_ok s0 e0 post o e'0 a fr k Hs Hc He Hf) as (o' & a' & E).
    erewrite any_take; [|exact E]. do 3 eexists. reflexivity.
  Qed.

  (* texts that start with a keyword letter: the three number alternatives fail cleanly *)
  Lemma skip_numbers c t o e a (fr : frame) k last : is_digit c = false -> nonsign c -> (c =? 60) = false ->
    exists kk e', any_loop alts last (mkst (c :: t) o e a (fr :: k)) =
      any_loop [parse_complement pl; parse_join pl; parse_order pl; parse_point] kk (mkst (c :: t) o e' a (fr :: k)).
  Proof.
    intros Hd Hs H60. unfold alts.
    skip_alt (parse_range_fail_letter c t o e a fr k Hd Hs H60).
    skip_alt (parse_between_fail_letter c t o e' a fr k Hd Hs).
    skip_alt (parse_ambiguous_fail_letter c t o e'0 a fr k Hd Hs).
    do 2 eexists. reflexivity.
  Qed.

  (* complement(x), given that the recursive reference reads x *)
  Lemma body_complement x post o e a (fr : frame) k :
    complement x = Complemented x ->
    (forall o1 e1 a1 (f1 : frame) k1, exists o' e' a',
        pl (mkst (show x ++ 41 :: post) o1 e1 a1 (f1 :: k1)) = (Ok x, mkst (41 :: post) o' e' a' (f1 :: k1))) ->
    exists o' e' a', any_loop alts EOther (mkst (show (Complemented x) ++ post) o e a (fr :: k)) =
                     (drop ;;; ret (Complemented x)) (mkst post o' e' a' (fr :: k)).
  Proof.
    intros Hcx IH.
    assert (Hsh : show (Complemented x) ++ post = s_complement ++ show x ++ 41 :: post)
      by (cbn [show]; rewrite <- !app_assoc; reflexivity).
    rewrite Hsh. set (T := show x ++ 41 :: post) in *.
    change (s_complement ++ T) with (99 :: ([111; 109; 112; 108; 101; 109; 101; 110; 116; 40] ++ T)).
    destruct (skip_numbers 99 ([111; 109; 112; 108; 101; 109; 101; 110; 116; 40] ++ T) o e a fr k EOther eq_refl eq_refl eq_refl) as (kk & e1 & E).
    subst T.
    assert (S : exists o' e' a', parse_complement pl (mkst (s_complement ++ show x ++ 41 :: post) o e1 a (fr :: k)) =
                                 (Ok (Complemented x), mkst post o' e' a' (fr :: k))).
    { unfold parse_complement. run ltac:(apply push_eq).
      run ltac:(apply try_ok; apply request_ok; change 11 with (zlen s_complement); rewrite nat_zlen; apply has_n_app).
      unfold bind at 1. unfold buffer. cbn [endr off rest]. replace (o + 11 - o) with 11 by lia.
      change (11 <? 0) with false. cbv iota. change (Z.to_nat 11) with (length s_complement).
      rewrite firstn_app, firstn_all, Nat.sub_diag. cbn [firstn]. rewrite app_nil_r.
      change (negb (bytes_eqb s_complement s_complement)) with false. cbv iota.
      run ltac:(apply advance_ne; [lia|change (Z.to_nat 11) with (length s_complement); apply has_n_app]).
      change (Z.to_nat 11) with (length s_complement). rewrite skipn_app, skipn_all, Nat.sub_diag. cbn [skipn app].
      destruct (IH (o + 11) None (a + 11) (s_complement ++ show x ++ 41 :: post, o, a) (fr :: k)) as (o2 & e2 & a2 & E2).
      run ltac:(apply try_ok; exact E2).
      run_next. change (negb (41 =? 41)) with false. cbv iota.
      run ltac:(apply advance_ne; [lia|reflexivity]). cbn [skipn Z.to_nat Pos.to_nat Pos.iter_op Nat.add].
      run ltac:(apply drop_ne). rewrite Hcx. do 3 eexists. reflexivity. }
    destruct S as (o' & e' & a' & S).
    exists o', e', a'. eapply eq_trans; [exact E|]. eapply eq_trans; [eapply any_take; exact S|]. reflexivity.
  Qed.
End Body.

(* ---------- lists of members: join(...) and order(...) *)

Lemma show_head l : (match l with Between p | Point p => 0 <= p | Ranged s _ _ _ | Ambiguous s _ => 0 <= s | _ => True end) ->
  exists c t, show l = c :: t /\ is_space c = false.
Proof.
  destruct l as [p|p|s e p5 p3|s e|ls|ls|x]; cbn [show]; intros H.
  - destruct (itoa_head p H) as (c & t & E & D). rewrite E. cbn [app]. exists c. eexists. split; [reflexivity|].
    unfold is_digit, is_space in *. destruct (Z.leb_spec 48 c); destruct (Z.leb_spec c 57); try discriminate.
    repeat (match goal with |- context [c =? ?x] => destruct (Z.eqb_spec c x); [lia|] end). reflexivity.
  - destruct (itoa_head (p + 1) ltac:(lia)) as (c & t & E & D). rewrite E. exists c, t. split; [reflexivity|].
    unfold is_digit, is_space in *. destruct (Z.leb_spec 48 c); destruct (Z.leb_spec c 57); try discriminate.
    repeat (match goal with |- context [c =? ?x] => destruct (Z.eqb_spec c x); [lia|] end). reflexivity.
  - destruct p5; cbn [app]; [exists 60; eexists; split; reflexivity|].
    destruct (itoa_head (s + 1) ltac:(lia)) as (c & t & E & D). rewrite E. cbn [app]. exists c. eexists. split; [reflexivity|].
    unfold is_digit, is_space in *. destruct (Z.leb_spec 48 c); destruct (Z.leb_spec c 57); try discriminate.
    repeat (match goal with |- context [c =? ?x] => destruct (Z.eqb_spec c x); [lia|] end). reflexivity.
  - destruct (itoa_head (s + 1) ltac:(lia)) as (c & t & E & D). rewrite E. cbn [app]. exists c. eexists. split; [reflexivity|].
    unfold is_digit, is_space in *. destruct (Z.leb_spec 48 c); destruct (Z.leb_spec c 57); try discriminate.
    repeat (match goal with |- context [c =? ?x] => destruct (Z.eqb_spec c x); [lia|] end). reflexivity.
  - cbn [app]. exists 106. eexists. split; reflexivity.
  - cbn [app]. exists 111. eexists. split; reflexivity.
  - cbn [app]. exists 99. eexists. split; reflexivity.
Qed.

Lemma delimiter_comma c t o e a (fr : frame) k : is_space c = false ->
  exists e', location_delimiter (mkst (44 :: c :: t) o e a (fr :: k)) = (Ok true, mkst (c :: t) (o + 1) e' (a + 1) (fr :: k)).
Proof.
  intros Hc. unfold location_delimiter. run ltac:(apply push_eq). run_next. change (negb (44 =? 44)) with false. cbv iota.
  run ltac:(apply advance_ne; [lia|reflexivity]). cbn [skipn Z.to_nat Pos.to_nat Pos.iter_op Nat.add].
  run_next. unfold bind at 1. unfold advance_while. cbn [rest stk off apos endr span_n]. rewrite Hc.
  run ltac:(apply drop_ne). eexists. reflexivity.
Qed.

Lemma delimiter_stop r o e a (fr : frame) k : match r with c :: _ => c <> 44 | [] => True end ->
  exists e', location_delimiter (mkst r o e a (fr :: k)) = (Ok false, mkst r o e' a (fr :: k)).
Proof.
  intros H. unfold location_delimiter. run ltac:(apply push_eq). destruct r as [|c t].
  - run ltac:(apply try_err; apply next_nil). run ltac:(apply pop_ne). eexists. reflexivity.
  - run_next. destruct (Z.eqb_spec c 44); [contradiction|]. cbn [negb]. run ltac:(apply pop_ne). eexists. reflexivity.
Qed.

Definition reads (pl : M loc) (x : loc) : Prop :=
  forall post o e a (f1 : frame) k1, follows post ->
    exists o' e' a', pl (mkst (show x ++ post) o e a (f1 :: k1)) = (Ok x, mkst post o' e' a' (f1 :: k1)).
Definition head_ok (x : loc) : Prop := exists c t, show x = c :: t /\ is_space c = false.
Definition tailtext (ls : list loc) : list byte := flat_map (fun y => 44 :: show y) ls.

Lemma follows_tail t post : follows (tailtext t ++ 41 :: post).
Proof. destruct t; cbn; auto. Qed.

Section Lists.
  Variable pl : M loc.

  Lemma multi_ok ls : forall acc fuel post o e a (F0 fr : frame) k,
    Forall (reads pl) ls -> Forall head_ok ls -> (length ls < fuel)%nat ->
    exists o' e' a', multi_loop pl fuel acc (mkst (tailtext ls ++ 41 :: post) o e a (F0 :: fr :: k)) =
                     (Ok (rev acc ++ ls), mkst (41 :: post) o' e' a' (fr :: k)).
  Proof.
    induction ls as [|y t IH]; intros acc fuel post o e a F0 fr k Hr Hh Hf;
      (destruct fuel as [|f]; [cbn [length] in Hf; lia|]); cbn [multi_loop].
    - cbn [tailtext flat_map app]. destruct (delimiter_stop (41 :: post) o e a F0 (fr :: k) ltac:(discriminate)) as (e1 & E).
      run ltac:(exact E). run ltac:(apply drop_ne). rewrite app_nil_r. do 3 eexists. reflexivity.
    - inversion Hr as [|? ? Hy Ht]; subst. inversion Hh as [|? ? Hhy Hht]; subst.
      destruct Hhy as (c & t' & Ey & Hc).
      assert (Hrest : tailtext (y :: t) ++ 41 :: post = 44 :: c :: (t' ++ tailtext t ++ 41 :: post)).
      { unfold tailtext. cbn [flat_map]. fold (tailtext t). rewrite Ey. rewrite <- !app_assoc. cbn [app]. reflexivity. }
      rewrite Hrest.
      destruct (delimiter_comma c (t' ++ tailtext t ++ 41 :: post) o e a F0 (fr :: k) Hc) as (e1 & E).
      run ltac:(exact E).
      assert (Hsh : c :: t' ++ tailtext t ++ 41 :: post = show y ++ (tailtext t ++ 41 :: post)) by (rewrite Ey; reflexivity).
      rewrite Hsh.
      destruct (Hy (tailtext t ++ 41 :: post) (o + 1) e1 (a + 1) F0 (fr :: k) (follows_tail t post)) as (o2 & e2 & a2 & E2).
      run ltac:(apply try_ok; exact E2).
      destruct (IH (y :: acc) f post o2 e2 a2 F0 fr k Ht Hht ltac:(cbn [length] in Hf; lia)) as (o3 & e3 & a3 & E3).
      rewrite E3. cbn [rev]. rewrite <- app_assoc. do 3 eexists. reflexivity.
  Qed.

  Lemma multiple_ok x ls post o e a (fr : frame) k :
    reads pl x -> Forall (reads pl) ls -> Forall head_ok ls ->
    exists o' e' a', multiple_location_parser pl (mkst (show x ++ tailtext ls ++ 41 :: post) o e a (fr :: k)) =
                     (Ok (x :: ls), mkst (41 :: post) o' e' a' (fr :: k)).
  Proof.
    intros Hx Hr Hh. unfold multiple_location_parser. run ltac:(apply push_eq).
    destruct (Hx (tailtext ls ++ 41 :: post) o e a (show x ++ tailtext ls ++ 41 :: post, o, a) (fr :: k) (follows_tail ls post)) as (o1 & e1 & a1 & E1).
    run ltac:(apply try_ok; exact E1). unfold bind at 1. unfold get. cbn [rest].
    destruct (multi_ok ls [x] (S (length (tailtext ls ++ 41 :: post))) post o1 e1 a1 (show x ++ tailtext ls ++ 41 :: post, o, a) fr k Hr Hh) as (o2 & e2 & a2 & E2).
    - rewrite app_length. assert (length ls <= length (tailtext ls))%nat; [|unfold byte in *; lia].
      clear. induction ls as [|y t IH]; [cbn; lia|]. unfold tailtext in *. cbn [flat_map length]. rewrite app_length. cbn [length]. unfold byte in *. lia.
    - rewrite E2. do 3 eexists. reflexivity.
  Qed.
End Lists.

Lemma sep_by_tail x ls : sep_by [44] (map show (x :: ls)) = show x ++ tailtext ls.
Proof.
  unfold sep_by, tailtext. cbn [map]. f_equal. induction ls as [|y t IH]; [reflexivity|].
  cbn [map flat_map app]. f_equal. f_equal. exact IH.
Qed.

Lemma bytes_eqb_refl' q : bytes_eqb q q = true.
Proof. unfold bytes_eqb. induction q as [|c t IH]; [reflexivity|]. cbn [list_eqb]. now rewrite Z.eqb_refl, IH. Qed.

Section Wrapped.
  Variable pl : M loc.

  Lemma wrapped_ok kw fin x ls l post o e a (fr : frame) k :
    reads pl x -> Forall (reads pl) ls -> Forall head_ok ls -> fin (x :: ls) = Ok l ->
    exists o' e' a', parse_wrapped pl kw fin (mkst (kw ++ show x ++ tailtext ls ++ 41 :: post) o e a (fr :: k)) =
                     (Ok l, mkst post o' e' a' (fr :: k)).
  Proof.
    intros Hx Hr Hh Hfin. unfold parse_wrapped. run ltac:(apply push_eq).
    run ltac:(apply try_ok; apply request_ok; rewrite nat_zlen; apply has_n_app).
    unfold bind at 1. unfold buffer. cbn [endr off rest]. replace (o + zlen kw - o) with (zlen kw) by lia.
    destruct (Z.ltb_spec (zlen kw) 0); [pose proof (zlen_nonneg kw); lia|].
    rewrite nat_zlen, firstn_app, firstn_all, Nat.sub_diag. cbn [firstn]. rewrite app_nil_r.
    rewrite bytes_eqb_refl'. cbn [negb].
    run ltac:(apply advance_ne; [apply zlen_nonneg|rewrite nat_zlen; apply has_n_app]).
    rewrite nat_zlen, skipn_app, skipn_all, Nat.sub_diag. cbn [skipn app].
    destruct (multiple_ok pl x ls post (o + zlen kw) None (a + zlen kw) (kw ++ show x ++ tailtext ls ++ 41 :: post, o, a) (fr :: k) Hx Hr Hh) as (o1 & e1 & a1 & E1).
    run ltac:(apply try_ok; exact E1).
    run_next. change (negb (41 =? 41)) with false. cbv iota.
    run ltac:(apply advance_ne; [lia|reflexivity]). cbn [skipn Z.to_nat Pos.to_nat Pos.iter_op Nat.add].
    rewrite Hfin. unfold lift at 1. unfold bind at 1.
    run ltac:(apply drop_ne). do 3 eexists. reflexivity.
  Qed.

  Lemma body_join x ls post o e a (fr : frame) k :
    reads pl x -> Forall (reads pl) ls -> Forall head_ok ls -> join (x :: ls) = Ok (Joined (x :: ls)) ->
    exists o' e' a', any_loop (alts pl) EOther (mkst (show (Joined (x :: ls)) ++ post) o e a (fr :: k)) =
                     (drop ;;; ret (Joined (x :: ls))) (mkst post o' e' a' (fr :: k)).
  Proof.
    intros Hx Hr Hh Hj.
    assert (Hsh : show (Joined (x :: ls)) ++ post = s_join ++ show x ++ tailtext ls ++ 41 :: post).
    { cbn [show]. rewrite sep_by_tail. rewrite <- !app_assoc. reflexivity. }
    rewrite Hsh. set (T := show x ++ tailtext ls ++ 41 :: post) in *.
    destruct (skip_numbers pl 106 ([111; 105; 110; 40] ++ T) o e a fr k EOther eq_refl eq_refl eq_refl) as (kk & e1 & E).
    destruct (complement_kw_fail pl (106 :: [111; 105; 110; 40] ++ T) o e1 a fr k eq_refl) as (kk2 & e2 & E2).
    destruct (wrapped_ok s_join join x ls (Joined (x :: ls)) post o e2 a fr k Hx Hr Hh Hj) as (o' & e' & a' & S).
    exists o', e', a'. eapply eq_trans; [exact E|]. eapply eq_trans; [eapply any_skip; exact E2|].
    eapply eq_trans; [eapply any_take; exact S|]. reflexivity.
  Qed.

  Lemma body_order x ls post o e a (fr : frame) k :
    reads pl x -> Forall (reads pl) ls -> Forall head_ok ls -> order (x :: ls) = Ok (Ordered (x :: ls)) ->
    exists o' e' a', any_loop (alts pl) EOther (mkst (show (Ordered (x :: ls)) ++ post) o e a (fr :: k)) =
                     (drop ;;; ret (Ordered (x :: ls))) (mkst post o' e' a' (fr :: k)).
  Proof.
    intros Hx Hr Hh Hj.
    assert (Hsh : show (Ordered (x :: ls)) ++ post = s_order ++ show x ++ tailtext ls ++ 41 :: post).
    { cbn [show]. rewrite sep_by_tail. rewrite <- !app_assoc. reflexivity. }
    rewrite Hsh. set (T := show x ++ tailtext ls ++ 41 :: post) in *.
    destruct (skip_numbers pl 111 ([114; 100; 101; 114; 40] ++ T) o e a fr k EOther eq_refl eq_refl eq_refl) as (kk & e1 & E).
    destruct (complement_kw_fail pl (111 :: [114; 100; 101; 114; 40] ++ T) o e1 a fr k eq_refl) as (kk2 & e2 & E2).
    destruct (wrapped_kw_fail pl s_join join (111 :: [114; 100; 101; 114; 40] ++ T) o e2 a fr k eq_refl) as (kk3 & e3 & E3).
    destruct (wrapped_ok s_order order x ls (Ordered (x :: ls)) post o e3 a fr k Hx Hr Hh Hj) as (o' & e' & a' & S).
    exists o', e', a'. eapply eq_trans; [exact E|]. eapply eq_trans; [eapply any_skip; exact E2|].
    eapply eq_trans; [eapply any_skip; exact E3|]. eapply eq_trans; [eapply any_take; exact S|]. reflexivity.
  Qed.
End Wrapped.

(* ---------- the theorem *)

Fixpoint printable (l : loc) : Prop :=
  match l with
  | Between p | Point p => 0 <= p /\ coord (p + 1)
  | Ranged s e _ _ | Ambiguous s e => 0 <= s /\ coord (s + 1) /\ coord e
  | Joined ls => join ls = Ok (Joined ls) /\
                 (fix all (xs : list loc) : Prop := match xs with [] => True | x :: t => printable x /\ all t end) ls
  | Ordered ls => order ls = Ok (Ordered ls) /\
                  (fix all (xs : list loc) : Prop := match xs with [] => True | x :: t => printable x /\ all t end) ls
  | Complemented x => complement x = Complemented x /\ printable x
  end.

Lemma all_printable ls :
  (fix all (xs : list loc) : Prop := match xs with [] => True | x :: t => printable x /\ all t end) ls -> Forall printable ls.
Proof. induction ls as [|x t IH]; intros H; [constructor|]. destruct H as [H1 H2]. constructor; [exact H1|apply IH, H2]. Qed.

Lemma printable_head l : printable l -> head_ok l.
Proof. intros H. apply show_head. destruct l; cbn [printable] in H; tauto. Qed.

Lemma loc_size_pos l : (1 <= loc_size l)%nat.
Proof. destruct l; cbn [loc_size]; lia. Qed.

Lemma loc_size_member x ls : In x ls -> (loc_size x <= fold_right (fun y acc => loc_size y + acc)%nat O ls)%nat.
Proof. induction ls as [|y t IH]; intros H; [contradiction|]. cbn [fold_right]. destruct H as [->|H]; [lia|]. specialize (IH H). lia. Qed.

Definition body_reads (f : nat) (l : loc) : Prop :=
  forall post o e a (fr : frame) k, follows post ->
    exists o' e' a', any_loop (alts (parse_location f)) EOther (mkst (show l ++ post) o e a (fr :: k)) =
                     (drop ;;; ret l) (mkst post o' e' a' (fr :: k)).

Lemma reads_of_body f l : body_reads f l -> reads (parse_location (S f)) l.
Proof.
  intros H post o e a f1 k1 Hf. cbn [parse_location]. unfold parse_location_body, pAny.
  run ltac:(apply push_eq). fold (alts (parse_location f)).
  destruct (H post o e a (show l ++ post, o, a) (f1 :: k1) Hf) as (o' & e' & a' & E).
  eapply ex_intro. eapply ex_intro. eapply ex_intro. eapply eq_trans; [exact E|].
  run ltac:(apply drop_ne). reflexivity.
Qed.

Theorem body_all f : forall l, printable l -> (loc_size l <= S f)%nat -> body_reads f l.
Proof.
  induction f as [|f IH]; intros l Hp Hs post o e a fr k Hf.
  - (* only contiguous locations have size 1 *)
    destruct l as [p|p|s e0 p5 p3|s e0|ls|ls|x]; cbn [printable] in Hp.
    + apply body_between; tauto.
    + apply body_point; tauto.
    + apply body_range; tauto.
    + apply body_ambiguous; tauto.
    + exfalso. destruct ls as [|x t]; [destruct Hp as [Hj _]; discriminate|].
      cbn [loc_size fold_right] in Hs. pose proof (loc_size_pos x). lia.
    + exfalso. destruct ls as [|x t]; [destruct Hp as [Hj _]; discriminate|].
      cbn [loc_size fold_right] in Hs. pose proof (loc_size_pos x). lia.
    + exfalso. cbn [loc_size] in Hs. pose proof (loc_size_pos x). lia.
  - destruct l as [p|p|s e0 p5 p3|s e0|ls|ls|x]; cbn [printable] in Hp.
    + apply body_between; tauto.
    + apply body_point; tauto.
    + apply body_range; tauto.
    + apply body_ambiguous; tauto.
    + destruct Hp as [Hj Hall]. apply all_printable in Hall.
      destruct ls as [|x t]; [discriminate|]. inversion Hall as [|? ? Hx Ht]; subst.
      assert (Hmem : forall y, In y (x :: t) -> printable y -> reads (parse_location (S f)) y).
      { intros y Hin Hy. apply reads_of_body. apply IH; [exact Hy|].
        pose proof (loc_size_member y (x :: t) Hin). cbn [loc_size] in Hs. lia. }
      apply body_join; [apply Hmem; [left; reflexivity|exact Hx]| | |exact Hj].
      * apply Forall_forall. intros y Hin. apply Hmem; [right; exact Hin|]. rewrite Forall_forall in Ht. apply Ht, Hin.
      * apply Forall_forall. intros y Hin. apply printable_head. rewrite Forall_forall in Ht. apply Ht, Hin.
    + destruct Hp as [Hj Hall]. apply all_printable in Hall.
      destruct ls as [|x t]; [discriminate|]. inversion Hall as [|? ? Hx Ht]; subst.
      assert (Hmem : forall y, In y (x :: t) -> printable y -> reads (parse_location (S f)) y).
      { intros y Hin Hy. apply reads_of_body. apply IH; [exact Hy|].
        pose proof (loc_size_member y (x :: t) Hin). cbn [loc_size] in Hs. lia. }
      apply body_order; [apply Hmem; [left; reflexivity|exact Hx]| | |exact Hj].
      * apply Forall_forall. intros y Hin. apply Hmem; [right; exact Hin|]. rewrite Forall_forall in Ht. apply Ht, Hin.
      * apply Forall_forall. intros y Hin. apply printable_head. rewrite Forall_forall in Ht. apply Ht, Hin.
    + destruct Hp as [Hc Hx]. apply body_complement; [exact Hc|].
      intros o1 e1 a1 f1 k1. apply (reads_of_body f x); [|left; reflexivity].
      apply IH; [exact Hx|]. cbn [loc_size] in Hs. lia.
Qed.

Lemma itoa_nonempty n : 0 <= n -> (1 <= length (itoa n))%nat.
Proof. intros H. destruct (itoa_head n H) as (c & t & E & _). rewrite E. cbn [length]. lia. Qed.

Lemma tailtext_size ls : Forall (fun x => (loc_size x <= length (show x))%nat) ls ->
  (fold_right (fun y acc => loc_size y + acc)%nat O ls <= length (tailtext ls))%nat.
Proof.
  intros H. induction H as [|x t Hx _ IH]; [cbn; lia|]. unfold tailtext in *. cbn [fold_right flat_map length].
  rewrite app_length. cbn [length]. unfold byte in *. lia.
Qed.

Lemma size_le_show l : printable l -> (loc_size l <= length (show l))%nat.
Proof.
  induction l as [p|p|s e0 p5 p3|s e0|ls IH|ls IH|x IH] using loc_ind'; cbn [printable]; intros Hp.
  - cbn [show loc_size]. rewrite !app_length. pose proof (itoa_nonempty p ltac:(tauto)). unfold byte in *. lia.
  - cbn [show loc_size]. apply itoa_nonempty. lia.
  - cbn [show loc_size]. rewrite !app_length. pose proof (itoa_nonempty (s + 1) ltac:(lia)). unfold byte in *. lia.
  - cbn [show loc_size]. rewrite !app_length. pose proof (itoa_nonempty (s + 1) ltac:(lia)). unfold byte in *. lia.
  - destruct Hp as [Hj Hall]. apply all_printable in Hall. destruct ls as [|x t]; [discriminate|].
    cbn [show loc_size]. rewrite sep_by_tail. rewrite !app_length. cbn [length fold_right].
    inversion IH as [|? ? IHx IHt]; subst. inversion Hall as [|? ? Hx Ht]; subst.
    pose proof (IHx Hx). assert (Forall (fun y => (loc_size y <= length (show y))%nat) t).
    { apply Forall_forall. intros y Hin. rewrite Forall_forall in IHt, Ht. apply IHt; [exact Hin|apply Ht, Hin]. }
    pose proof (tailtext_size t H0). unfold byte in *. lia.
  - destruct Hp as [Hj Hall]. apply all_printable in Hall. destruct ls as [|x t]; [discriminate|].
    cbn [show loc_size]. rewrite sep_by_tail. rewrite !app_length. cbn [length fold_right].
    inversion IH as [|? ? IHx IHt]; subst. inversion Hall as [|? ? Hx Ht]; subst.
    pose proof (IHx Hx). assert (Forall (fun y => (loc_size y <= length (show y))%nat) t).
    { apply Forall_forall. intros y Hin. rewrite Forall_forall in IHt, Ht. apply IHt; [exact Hin|apply Ht, Hin]. }
    pose proof (tailtext_size t H0). unfold byte in *. lia.
  - destruct Hp as [_ Hx]. cbn [show loc_size]. rewrite !app_length. cbn [length]. specialize (IH Hx). unfold byte in *. lia.
Qed.

(* gts.AsLocation(l.String()) = l *)
Theorem as_location_show l : printable l -> as_location (show l) = Ok l.
Proof.
  intros Hp. unfold as_location, run, st_of. cbn [parse_location]. unfold parse_location_body, pAny.
  erewrite bind_ok; [|apply push_eq]. fold (alts (parse_location (length (show l)))).
  pose proof (size_le_show l Hp) as Hs.
  destruct (body_all (length (show l)) l Hp ltac:(lia) [] 0 None 0 (show l, 0, 0) [] I) as (o' & e' & a' & E).
  rewrite app_nil_r in E.
  match goal with |- fst ?t = _ => replace t with ((drop ;;; ret l) (mkst [] o' e' a' [(show l, 0, 0)])) by (symmetry; exact E) end.
  reflexivity.
Qed.
