(* LocRT.v — gts.AsLocation(l.String()) = l: the location parser reads back what
   Location.String prints, statement by statement on the pars model. *)
From GTS Require Import Base Arith Pars Loc LocParse BaseLemmas ParsLemmas FastaProofs IntRT.
From Coq Require Import Lia.
Open Scope Z_scope.

Definition coord (n : Z) : Prop := 0 <= n <= int64_max.

(* what may follow a location in a printed location: nothing, ')' or ',' *)
Definition follows (post : list byte) : Prop :=
  match post with [] => True | c :: _ => c = 41 \/ c = 44 end.

Lemma follows_nondigit post : follows post -> match post with c :: _ => is_digit c = false | [] => True end.
Proof. destruct post as [|c t]; [trivial|]. intros [->| ->]; reflexivity. Qed.

Lemma itoa_head n : 0 <= n -> exists c t, itoa n = c :: t /\ is_digit c = true.
Proof.
  intros H. destruct (itoa_spec n H) as (ds & E & Hd & Hne & _). rewrite E. destruct ds as [|c t]; [contradiction|].
  exists c, t. split; [reflexivity|]. inversion Hd; assumption.
Qed.

Lemma digit_facts c : is_digit c = true -> (c =? 60) = false /\ (c =? 62) = false /\ (c =? 94) = false /\ (c =? 46) = false
  /\ (c =? 45) = false /\ (c =? 43) = false /\ (c =? 41) = false /\ (c =? 44) = false.
Proof.
  unfold is_digit. intros H.
  repeat split; match goal with |- (c =? ?x) = false => destruct (Z.eqb_spec c x); [subst; discriminate|reflexivity] end.
Qed.

(* ---------- pars.Int failing cleanly on a non-digit *)
Lemma pInt_nondigit c t o e a (fr : frame) k : is_digit c = false -> (c =? 45) || (c =? 43) = false ->
  pInt (mkst (c :: t) o e a (fr :: k)) = (Err EOther, mkst (c :: t) o (Some (o + 1)) a (fr :: k)).
Proof.
  intros Hd Hs. unfold pInt. rewrite (bind_ok _ _ _ _ _ (push_eq _ _ _ _ _)).
  rewrite (bind_ok _ _ _ _ _ (next_cons c t o e a _)). rewrite Hs, bind_ret, Hd. cbn [negb].
  rewrite (bind_ok _ _ _ _ _ (pop_ne _ _ _ _ _ _ _ _ _)). reflexivity.
Qed.

(* ---------- parsePoint *)
Lemma parse_point_ok n post o e a (fr : frame) k : coord (n + 1) -> 0 <= n -> follows post ->
  parse_point (mkst (itoa (n + 1) ++ post) o e a (fr :: k)) =
  (Ok (Point n), mkst post (o + zlen (itoa (n + 1))) None (a + zlen (itoa (n + 1))) (fr :: k)).
Proof.
  intros Hc Hn Hf. unfold parse_point, pMap. rewrite (bind_ok _ _ _ _ _ (push_eq _ _ _ _ _)).
  rewrite (bind_ok _ _ _ (Some (n + 1), EOther) _ (try_ok _ _ _ _ (pInt_itoa (n + 1) post o e a _ (fr :: k) Hc (follows_nondigit _ Hf)))).
  rewrite (bind_ok _ _ _ _ _ (drop_ne _ _ _ _ _ _ _)). unfold lift. replace (n + 1 - 1) with n by lia. reflexivity.
Qed.

Ltac step_ok H := rewrite (bind_ok _ _ _ _ _ H).

(* ---------- parseBetween *)
Lemma parse_between_ok p post o e a (fr : frame) k : 0 <= p -> coord (p + 1) -> follows post ->
  exists o' a', parse_between (mkst (show (Between p) ++ post) o e a (fr :: k)) =
                (Ok (Between p), mkst post o' None a' (fr :: k)).
Proof.
  intros Hp Hc Hf. cbn [show]. rewrite <- !app_assoc. cbn [app].
  unfold parse_between. step_ok (push_eq (itoa p ++ 94 :: itoa (p + 1) ++ post) o e a (fr :: k)).
  assert (Hc0 : coord p) by (unfold coord in *; lia).
  step_ok (try_ok _ _ _ _ (pInt_itoa p (94 :: itoa (p + 1) ++ post) o e a (itoa p ++ 94 :: itoa (p + 1) ++ post, o, a) (fr :: k) Hc0 eq_refl)).
  step_ok (try_ok _ _ _ _ (next_cons 94 (itoa (p + 1) ++ post) (o + zlen (itoa p)) None (a + zlen (itoa p)) ((itoa p ++ 94 :: itoa (p + 1) ++ post, o, a) :: fr :: k))).
  change (negb (94 =? 94)) with false. cbv iota.
  step_ok (advance_ne (94 :: itoa (p + 1) ++ post) (o + zlen (itoa p)) (a + zlen (itoa p)) (itoa p ++ 94 :: itoa (p + 1) ++ post, o, a) (fr :: k) 1 ltac:(lia) eq_refl).
  cbn [skipn Z.to_nat Pos.to_nat Pos.iter_op Nat.add].
  step_ok (try_ok _ _ _ _ (pInt_itoa (p + 1) post (o + zlen (itoa p) + 1) None (a + zlen (itoa p) + 1) (itoa p ++ 94 :: itoa (p + 1) ++ post, o, a) (fr :: k) Hc (follows_nondigit _ Hf))).
  rewrite Z.eqb_refl. cbn [negb].
  step_ok (drop_ne post (o + zlen (itoa p) + 1 + zlen (itoa (p + 1))) None (a + zlen (itoa p) + 1 + zlen (itoa (p + 1))) (itoa p ++ 94 :: itoa (p + 1) ++ post, o, a) fr k).
  do 2 eexists. reflexivity.
Qed.

(* ---------- parseAmbiguous *)
Lemma parse_ambiguous_ok s e0 post o e a (fr : frame) k : 0 <= s -> coord (s + 1) -> coord e0 -> follows post ->
  exists o' a', parse_ambiguous (mkst (show (Ambiguous s e0) ++ post) o e a (fr :: k)) =
                (Ok (Ambiguous s e0), mkst post o' None a' (fr :: k)).
Proof.
  intros Hs Hc He Hf. cbn [show]. rewrite <- !app_assoc. cbn [app].
  unfold parse_ambiguous. step_ok (push_eq (itoa (s + 1) ++ 46 :: itoa e0 ++ post) o e a (fr :: k)).
  step_ok (try_ok _ _ _ _ (pInt_itoa (s + 1) (46 :: itoa e0 ++ post) o e a (itoa (s + 1) ++ 46 :: itoa e0 ++ post, o, a) (fr :: k) Hc eq_refl)).
  step_ok (try_ok _ _ _ _ (next_cons 46 (itoa e0 ++ post) (o + zlen (itoa (s + 1))) None (a + zlen (itoa (s + 1))) ((itoa (s + 1) ++ 46 :: itoa e0 ++ post, o, a) :: fr :: k))).
  change (negb (46 =? 46)) with false. cbv iota.
  step_ok (advance_ne (46 :: itoa e0 ++ post) (o + zlen (itoa (s + 1))) (a + zlen (itoa (s + 1))) (itoa (s + 1) ++ 46 :: itoa e0 ++ post, o, a) (fr :: k) 1 ltac:(lia) eq_refl).
  cbn [skipn Z.to_nat Pos.to_nat Pos.iter_op Nat.add].
  step_ok (try_ok _ _ _ _ (pInt_itoa e0 post (o + zlen (itoa (s + 1)) + 1) None (a + zlen (itoa (s + 1)) + 1) (itoa (s + 1) ++ 46 :: itoa e0 ++ post, o, a) (fr :: k) He (follows_nondigit _ Hf))).
  step_ok (drop_ne post (o + zlen (itoa (s + 1)) + 1 + zlen (itoa e0)) None (a + zlen (itoa (s + 1)) + 1 + zlen (itoa e0)) (itoa (s + 1) ++ 46 :: itoa e0 ++ post, o, a) fr k).
  replace (s + 1 - 1) with s by lia. do 2 eexists. reflexivity.
Qed.

Ltac run tac := (erewrite bind_ok; [|tac]); cbv beta iota zeta.
Ltac run_next := run ltac:(apply try_ok; apply next_cons).
Ltac run_adv := run ltac:(apply advance_ne; [lia|reflexivity]); cbn [skipn Z.to_nat Pos.to_nat Pos.iter_op Nat.add].

Lemma adv_ret {B} (b : B) c t o a (f0 : frame) k :
  (advance ;;; ret b) (mkst (c :: t) o (Some (o + 1)) a (f0 :: k)) = (Ok b, mkst t (o + 1) None (a + 1) (f0 :: k)).
Proof. rewrite (bind_ok _ _ _ tt _ (advance_ne (c :: t) o a f0 k 1 ltac:(lia) eq_refl)). reflexivity. Qed.

Lemma nondigit_dot t : match 46 :: t with c :: _ => is_digit c = false | [] => True end.
Proof. reflexivity. Qed.

(* ---------- parseRange *)
Lemma parse_range_ok s e0 p5 p3 post o e a (fr : frame) k : 0 <= s -> coord (s + 1) -> coord e0 -> follows post ->
  exists o' e' a', parse_range (mkst (show (Ranged s e0 p5 p3) ++ post) o e a (fr :: k)) =
                   (Ok (Ranged s e0 p5 p3), mkst post o' e' a' (fr :: k)).
Proof.
  intros Hs Hc He Hf. cbn [show]. rewrite <- !app_assoc. cbn [app].
  destruct (itoa_head (s + 1) ltac:(lia)) as (c1 & t1 & E1 & D1).
  destruct (itoa_head e0 ltac:(unfold coord in He; lia)) as (c2 & t2 & E2 & D2).
  destruct (digit_facts c1 D1) as (F60 & _). destruct (digit_facts c2 D2) as (_ & G62 & _).
  unfold parse_range. run ltac:(apply push_eq).
  (* optional '<' *)
  assert (Pre : exists o1 e1 a1,
     forall (K : bool -> M loc), (r <-- try next ;;;
       match r with
       | (None, k0) => pop ;;; fail k0
       | (Some c, _) => p5' <-- (if c =? 60 then advance ;;; ret true else ret false) ;;; K p5'
       end) (mkst ((if p5 then [60] else []) ++ itoa (s + 1) ++ 46 :: 46 :: (if p3 then [62] else []) ++ itoa e0 ++ post) o e a
               (((if p5 then [60] else []) ++ itoa (s + 1) ++ 46 :: 46 :: (if p3 then [62] else []) ++ itoa e0 ++ post, o, a) :: fr :: k))
     = K p5 (mkst (itoa (s + 1) ++ 46 :: 46 :: (if p3 then [62] else []) ++ itoa e0 ++ post) o1 e1 a1
               (((if p5 then [60] else []) ++ itoa (s + 1) ++ 46 :: 46 :: (if p3 then [62] else []) ++ itoa e0 ++ post, o, a) :: fr :: k))).
  { destruct p5; cbn [app].
    - do 3 eexists. intros K. run_next. change (60 =? 60) with true. cbv iota. run ltac:(apply adv_ret). reflexivity.
    - rewrite E1. cbn [app]. do 3 eexists. intros K. run_next. rewrite F60. rewrite bind_ret. reflexivity. }
  destruct Pre as (o1 & e1 & a1 & Pre). rewrite Pre. clear Pre.
  run ltac:(apply try_ok; apply pInt_itoa; [assumption|reflexivity]).
  (* ".." *)
  run ltac:(apply try_ok; apply request_ok; reflexivity).
  unfold bind at 1. unfold buffer. cbn [endr off rest].
  replace (o1 + zlen (itoa (s + 1)) + 2 - (o1 + zlen (itoa (s + 1)))) with 2 by lia.
  change (2 <? 0) with false. cbv iota. change (Z.to_nat 2) with 2%nat. cbn [firstn].
  change (negb (bytes_eqb [46; 46] s_dotdot)) with false. cbv iota.
  run ltac:(apply advance_ne; [lia|reflexivity]). change (Z.to_nat 2) with 2%nat. cbn [skipn].
  (* optional '>' *)
  assert (Mid : exists o2 e2 a2,
     forall (K : bool -> M loc) st0, (r <-- try next ;;;
       match r with
       | (None, k0) => fail k0
       | (Some c, _) => p3' <-- (if c =? 62 then advance ;;; ret true else ret false) ;;; K p3'
       end) (mkst ((if p3 then [62] else []) ++ itoa e0 ++ post) (o1 + zlen (itoa (s + 1)) + 2) None (a1 + zlen (itoa (s + 1)) + 2) (st0 :: fr :: k))
     = K p3 (mkst (itoa e0 ++ post) o2 e2 a2 (st0 :: fr :: k))).
  { destruct p3; cbn [app].
    - do 3 eexists. intros K st0. run_next. change (62 =? 62) with true. cbv iota. run ltac:(apply adv_ret). reflexivity.
    - rewrite E2. cbn [app]. do 3 eexists. intros K st0. run_next. rewrite G62. rewrite bind_ret. reflexivity. }
  destruct Mid as (o2 & e2 & a2 & Mid). rewrite Mid. clear Mid.
  run ltac:(apply try_ok; apply pInt_itoa; [assumption|apply follows_nondigit; assumption]).
  (* legacy trailing '>' : absent *)
  destruct post as [|c t].
  - run ltac:(apply try_err; apply next_nil). rewrite bind_ret.
    run ltac:(apply drop_ne). replace (s + 1 - 1) with s by lia. do 3 eexists. reflexivity.
  - run_next. assert (Hc62 : c = 41 \/ c = 44) by exact Hf.
    destruct Hc62 as [-> | ->]; cbv iota; rewrite bind_ret; run ltac:(apply drop_ne);
      replace (s + 1 - 1) with s by lia; do 3 eexists; reflexivity.
Qed.

(* ---------- alternatives failing cleanly: the state comes back, only the
   pending-request marker differs *)

Definition clean_fail {A} (p : M A) (r : list byte) (o a : Z) (K : list frame) : Prop :=
  forall e, exists kk e', p (mkst r o e a K) = (Err kk, mkst r o e' a K).

Lemma is_prefix_false_first c p r : c <> hd 0 p -> p <> [] -> is_prefix p (c :: r) = false.
Proof. intros H Hp. destruct p as [|x t]; [contradiction|]. cbn [is_prefix hd] in *. destruct (Z.eqb_spec x c); [subst; contradiction|reflexivity]. Qed.

(* "keyword(" parsers on a text that does not start with the keyword *)
Lemma keyword_fail (kw : list byte) r o e a (fr : frame) k (rest_p : M loc) :
  is_prefix kw r = false ->
  exists kk e',
    (push ;;;
     x <-- try (request (zlen kw)) ;;;
     match x with
     | (None, k0) => pop ;;; fail k0
     | (Some _, _) => b <-- buffer ;;; if negb (bytes_eqb b kw) then pop ;;; fail EOther else rest_p
     end) (mkst r o e a (fr :: k)) = (Err kk, mkst r o e' a (fr :: k)).
Proof.
  intros H. run ltac:(apply push_eq).
  destruct (has_n r (Z.to_nat (zlen kw))) eqn:Hh.
  - run ltac:(apply try_ok; apply request_ok; exact Hh).
    unfold bind at 1. unfold buffer. cbn [endr off rest].
    replace (o + zlen kw - o) with (zlen kw) by lia.
    destruct (Z.ltb_spec (zlen kw) 0); [pose proof (zlen_nonneg kw); lia|].
    rewrite nat_zlen in *.
    assert (Hl : (length kw <= length r)%nat).
    { destruct (Nat.le_gt_cases (length kw) (length r)); [assumption|]. rewrite has_n_gt in Hh by assumption. discriminate. }
    assert (Hb : bytes_eqb (firstn (length kw) r) kw = false).
    { unfold bytes_eqb. clear Hh. revert r H Hl. clear. induction kw as [|x t IH]; intros r H Hl; [discriminate|].
      destruct r as [|y u]; [cbn in Hl; lia|]. cbn [length firstn list_eqb is_prefix] in *.
      rewrite (Z.eqb_sym y x). destruct (x =? y); [cbn [andb] in *; apply IH; [exact H|lia]|reflexivity]. }
    rewrite Hb. cbn [negb]. run ltac:(apply pop_ne). do 2 eexists. reflexivity.
  - run ltac:(apply try_err; apply request_fail; exact Hh). run ltac:(apply pop_ne). do 2 eexists. reflexivity.
Qed.
