(* GenBankProofs.v — theorems about the GenBank reader/writer model
   (model/GenBank.v, model/Insdc.v): totality and round trips of the pieces. *)
From GTS Require Import Base Arith Tables Pars Loc Seq Origin Insdc GenBank BaseLemmas ParsLemmas Safety.
From Coq Require Import Lia ZifyBool.
Open Scope Z_scope.

(* ---------- AsDate is total *)

Theorem as_date_total s : as_date s <> Panic /\ as_date s <> OutOfFuel.
Proof.
  unfold as_date.
  destruct (split_dash s []) as [|a [|b [|c [|x r]]]]; try (split; discriminate).
  destruct (atoi_total a) as [Ha1 Ha2]. destruct (atoi a) as [day|k| |]; try contradiction; cbn [obind]; try (split; discriminate).
  destruct (month_of b) as [month|]; [|split; discriminate].
  destruct (atoi_total c) as [Hc1 Hc2]. destruct (atoi c) as [year|k| |]; try contradiction; cbn [obind]; try (split; discriminate).
  destruct (day <? 1); [split; discriminate|].
  match goal with |- context [if ?b then _ else _] => destruct b end; split; discriminate.
Qed.

(* ---------- a date written by the LOCUS line reads back *)

Definition no_dash (l : list byte) : Prop := Forall (fun c => c <> 45) l.

Lemma split_dash_nodash a : forall cur, no_dash a -> split_dash a cur = [rev cur ++ a].
Proof.
  induction a as [|x a IH]; intros cur H; cbn [split_dash].
  - now rewrite app_nil_r.
  - inversion H as [|? ? Hx Ha]; subst. destruct (Z.eqb_spec x 45); [contradiction|].
    rewrite (IH (x :: cur) Ha). cbn [rev]. now rewrite <- app_assoc.
Qed.

Lemma split_dash_app a b : forall cur, no_dash a ->
  split_dash (a ++ 45 :: b) cur = (rev cur ++ a) :: split_dash b [].
Proof.
  induction a as [|x a IH]; intros cur H; cbn [split_dash app].
  - now rewrite app_nil_r.
  - inversion H as [|? ? Hx Ha]; subst. destruct (Z.eqb_spec x 45); [contradiction|].
    rewrite (IH (x :: cur) Ha). cbn [rev]. now rewrite <- app_assoc.
Qed.

Lemma atoi_two d : 0 <= d <= 99 -> atoi (two_digits d) = Ok d.
Proof.
  intros H. unfold two_digits, atoi.
  assert (H1 : 0 <= d / 10 <= 9) by (split; [apply Z.div_pos; lia | assert (d / 10 < 10) by (apply Z.div_lt_upper_bound; lia); lia]).
  assert (H2 : 0 <= d mod 10 <= 9) by (pose proof (Z.mod_pos_bound d 10 ltac:(lia)); lia).
  destruct (Z.eqb_spec (48 + d / 10) 45); [lia|]. destruct (Z.eqb_spec (48 + d / 10) 43); [lia|].
  cbn [forallb digits_val]. unfold is_digit.
  replace ((48 <=? 48 + d / 10) && (48 + d / 10 <=? 57)) with true by lia.
  replace ((48 <=? 48 + d mod 10) && (48 + d mod 10 <=? 57)) with true by lia.
  cbn [andb negb]. unfold int64_max.
  replace ((0 * 10 + (48 + d / 10 - 48)) * 10 + (48 + d mod 10 - 48)) with d by (pose proof (Z.div_mod d 10); lia).
  destruct (Z.leb_spec d 9223372036854775807); [reflexivity|lia].
Qed.

Lemma atoi_four y : 0 <= y <= 9999 -> atoi (four_digits y) = Ok y.
Proof.
  intros H. unfold four_digits. destruct (Z.ltb_spec y 10000); [|lia]. unfold atoi.
  assert (H1 : 0 <= y / 1000 <= 9) by (split; [apply Z.div_pos; lia | assert (y / 1000 < 10) by (apply Z.div_lt_upper_bound; lia); lia]).
  assert (H2 : 0 <= (y / 100) mod 10 <= 9) by (pose proof (Z.mod_pos_bound (y / 100) 10 ltac:(lia)); lia).
  assert (H3 : 0 <= (y / 10) mod 10 <= 9) by (pose proof (Z.mod_pos_bound (y / 10) 10 ltac:(lia)); lia).
  assert (H4 : 0 <= y mod 10 <= 9) by (pose proof (Z.mod_pos_bound y 10 ltac:(lia)); lia).
  destruct (Z.eqb_spec (48 + y / 1000) 45); [lia|]. destruct (Z.eqb_spec (48 + y / 1000) 43); [lia|].
  cbn [forallb digits_val]. unfold is_digit.
  replace ((48 <=? 48 + y / 1000) && (48 + y / 1000 <=? 57)) with true by lia.
  replace ((48 <=? 48 + (y / 100) mod 10) && (48 + (y / 100) mod 10 <=? 57)) with true by lia.
  replace ((48 <=? 48 + (y / 10) mod 10) && (48 + (y / 10) mod 10 <=? 57)) with true by lia.
  replace ((48 <=? 48 + y mod 10) && (48 + y mod 10 <=? 57)) with true by lia.
  cbn [andb negb]. unfold int64_max.
  match goal with |- context [if ?v <=? _ then _ else _] => replace v with y end.
  - destruct (Z.leb_spec y 9223372036854775807); [reflexivity|lia].
  - pose proof (Z.div_mod y 10 ltac:(lia)). pose proof (Z.div_mod (y / 10) 10 ltac:(lia)). pose proof (Z.div_mod (y / 100) 10 ltac:(lia)).
    replace (y / 100) with (y / 10 / 10) in * by (rewrite Z.div_div by lia; reflexivity).
    replace (y / 1000) with (y / 10 / 10 / 10) in * by (rewrite !Z.div_div by lia; reflexivity).
    lia.
Qed.

Definition valid_date (y m d : Z) : Prop :=
  0 <= y <= 9999 /\ 1 <= m <= 12 /\ 1 <= d /\
  d <= days_in m + (if (m =? 2) && go_isLeapYear y then 1 else 0).

Lemma no_dash_two d : 0 <= d <= 99 -> no_dash (two_digits d).
Proof.
  intros H. unfold two_digits, no_dash.
  assert (0 <= d / 10) by (apply Z.div_pos; lia). pose proof (Z.mod_pos_bound d 10 ltac:(lia)).
  repeat constructor; lia.
Qed.

Theorem date_roundtrip y m d : valid_date y m d -> as_date (date_show (y, m, d)) = Ok (y, m, d).
Proof.
  intros (Hy & Hm & Hd1 & Hd2).
  assert (Hd99 : 0 <= d <= 99).
  { unfold days_in in Hd2. destruct (m =? 2); destruct (go_isLeapYear y); cbn [andb] in Hd2;
      repeat match type of Hd2 with context [if ?b then _ else _] => destruct b end; lia. }
  unfold date_show, as_date.
  assert (Hm' : m = 1 \/ m = 2 \/ m = 3 \/ m = 4 \/ m = 5 \/ m = 6 \/ m = 7 \/ m = 8 \/ m = 9 \/ m = 10 \/ m = 11 \/ m = 12) by lia.
  assert (HN : no_dash (nth (Z.to_nat (m - 1)) month_names [])).
  { destruct Hm' as [->|[->|[->|[->|[->|[->|[->|[->|[->|[->|[->| ->]]]]]]]]]]]; cbn; repeat constructor; lia. }
  assert (HM : month_of (nth (Z.to_nat (m - 1)) month_names []) = Some m).
  { destruct Hm' as [->|[->|[->|[->|[->|[->|[->|[->|[->|[->|[->| ->]]]]]]]]]]]; reflexivity. }
  cbv beta iota. cbn [app].
  rewrite (split_dash_app _ _ [] (no_dash_two d Hd99)). cbn [rev app].
  rewrite (split_dash_app _ _ [] HN). cbn [rev app].
  assert (HY : no_dash (four_digits y)).
  { unfold four_digits. destruct (Z.ltb_spec y 10000); [|lia].
    assert (0 <= y / 1000) by (apply Z.div_pos; lia).
    pose proof (Z.mod_pos_bound (y / 100) 10 ltac:(lia)). pose proof (Z.mod_pos_bound (y / 10) 10 ltac:(lia)). pose proof (Z.mod_pos_bound y 10 ltac:(lia)).
    repeat constructor; lia. }
  rewrite (split_dash_nodash _ [] HY). cbn [rev app].
  rewrite (atoi_two d Hd99). cbn [obind]. rewrite HM. rewrite (atoi_four y Hy). cbn [obind].
  destruct (Z.ltb_spec d 1); [lia|].
  match goal with |- context [if ?b then _ else _] => destruct b eqn:E end; [lia|reflexivity].
Qed.

(* the premise is satisfiable: the leap day of 2024 *)
Example date_roundtrip_example : valid_date 2024 2 29 /\ as_date (date_show (2024, 2, 29)) = Ok (2024, 2, 29).
Proof. split; [unfold valid_date; cbn; lia | reflexivity]. Qed.
