(* GenBankProofs.v — theorems about the GenBank reader/writer model
   (model/GenBank.v, model/Insdc.v): totality and round trips of the pieces. *)
From GTS Require Import Base Arith Tables Pars Loc Seq Origin Insdc GenBank BaseLemmas ParsLemmas Safety FastaProofs.
From Coq Require Import Lia ZifyBool.
Open Scope Z_scope.

(* ---------- AsDate is total *)

Theorem as_date_total s : as_date s <> Panic /\ as_date s <> OutOfFuel.
Proof.
  unfold as_date.
  destruct (split_dash s []) as [|a [|b [|c [|x r]]]]; try (split; discriminate).
  destruct (atoi_total a) as [Ha1 Ha2]. destruct (atoi a) as [day|k| |]; try contradiction; cbn [obind]; try (split; discriminate).
  destruct (month_of b) as [month|]; [|split; discriminate].
  destruct (atoi_total c) as [Hc1 Hc2]. destruct (atoi c) as [year|k| |]; try contradiction; cbn [obind]; try (split; discriminate).
  destruct (day <? 1); [split; discriminate|].
  match goal with |- context [if ?b then _ else _] => destruct b end; split; discriminate.
Qed.

(* ---------- a date written by the LOCUS line reads back *)

Definition no_dash (l : list byte) : Prop := Forall (fun c => c <> 45) l.

Lemma split_dash_nodash a : forall cur, no_dash a -> split_dash a cur = [rev cur ++ a].
Proof.
  induction a as [|x a IH]; intros cur H; cbn [split_dash].
  - now rewrite app_nil_r.
  - inversion H as [|? ? Hx Ha]; subst. destruct (Z.eqb_spec x 45); [contradiction|].
    rewrite (IH (x :: cur) Ha). cbn [rev]. now rewrite <- app_assoc.
Qed.

Lemma split_dash_app a b : forall cur, no_dash a ->
  split_dash (a ++ 45 :: b) cur = (rev cur ++ a) :: split_dash b [].
Proof.
  induction a as [|x a IH]; intros cur H; cbn [split_dash app].
  - now rewrite app_nil_r.
  - inversion H as [|? ? Hx Ha]; subst. destruct (Z.eqb_spec x 45); [contradiction|].
    rewrite (IH (x :: cur) Ha). cbn [rev]. now rewrite <- app_assoc.
Qed.

Lemma atoi_two d : 0 <= d <= 99 -> atoi (two_digits d) = Ok d.
Proof.
  intros H. unfold two_digits, atoi.
  assert (H1 : 0 <= d / 10 <= 9) by (split; [apply Z.div_pos; lia | assert (d / 10 < 10) by (apply Z.div_lt_upper_bound; lia); lia]).
  assert (H2 : 0 <= d mod 10 <= 9) by (pose proof (Z.mod_pos_bound d 10 ltac:(lia)); lia).
  destruct (Z.eqb_spec (48 + d / 10) 45); [lia|]. destruct (Z.eqb_spec (48 + d / 10) 43); [lia|].
  cbn [forallb digits_val]. unfold is_digit.
  replace ((48 <=? 48 + d / 10) && (48 + d / 10 <=? 57)) with true by lia.
  replace ((48 <=? 48 + d mod 10) && (48 + d mod 10 <=? 57)) with true by lia.
  cbn [andb negb]. unfold int64_max.
  replace ((0 * 10 + (48 + d / 10 - 48)) * 10 + (48 + d mod 10 - 48)) with d by (pose proof (Z.div_mod d 10); lia).
  destruct (Z.leb_spec d 9223372036854775807); [reflexivity|lia].
Qed.

Lemma atoi_four y : 0 <= y <= 9999 -> atoi (four_digits y) = Ok y.
Proof.
  intros H. unfold four_digits. destruct (Z.ltb_spec y 10000); [|lia]. unfold atoi.
  assert (H1 : 0 <= y / 1000 <= 9) by (split; [apply Z.div_pos; lia | assert (y / 1000 < 10) by (apply Z.div_lt_upper_bound; lia); lia]).
  assert (H2 : 0 <= (y / 100) mod 10 <= 9) by (pose proof (Z.mod_pos_bound (y / 100) 10 ltac:(lia)); lia).
  assert (H3 : 0 <= (y / 10) mod 10 <= 9) by (pose proof (Z.mod_pos_bound (y / 10) 10 ltac:(lia)); lia).
  assert (H4 : 0 <= y mod 10 <= 9) by (pose proof (Z.mod_pos_bound y 10 ltac:(lia)); lia).
  destruct (Z.eqb_spec (48 + y / 1000) 45); [lia|]. destruct (Z.eqb_spec (48 + y / 1000) 43); [lia|].
  cbn [forallb digits_val]. unfold is_digit.
  replace ((48 <=? 48 + y / 1000) && (48 + y / 1000 <=? 57)) with true by lia.
  replace ((48 <=? 48 + (y / 100) mod 10) && (48 + (y / 100) mod 10 <=? 57)) with true by lia.
  replace ((48 <=? 48 + (y / 10) mod 10) && (48 + (y / 10) mod 10 <=? 57)) with true by lia.
  replace ((48 <=? 48 + y mod 10) && (48 + y mod 10 <=? 57)) with true by lia.
  cbn [andb negb]. unfold int64_max.
  match goal with |- context [if ?v <=? _ then _ else _] => replace v with y end.
  - destruct (Z.leb_spec y 9223372036854775807); [reflexivity|lia].
  - pose proof (Z.div_mod y 10 ltac:(lia)). pose proof (Z.div_mod (y / 10) 10 ltac:(lia)). pose proof (Z.div_mod (y / 100) 10 ltac:(lia)).
    replace (y / 100) with (y / 10 / 10) in * by (rewrite Z.div_div by lia; reflexivity).
    replace (y / 1000) with (y / 10 / 10 / 10) in * by (rewrite !Z.div_div by lia; reflexivity).
    lia.
Qed.

Definition valid_date (y m d : Z) : Prop :=
  0 <= y <= 9999 /\ 1 <= m <= 12 /\ 1 <= d /\
  d <= days_in m + (if (m =? 2) && go_isLeapYear y then 1 else 0).

Lemma no_dash_two d : 0 <= d <= 99 -> no_dash (two_digits d).
Proof.
  intros H. unfold two_digits, no_dash.
  assert (0 <= d / 10) by (apply Z.div_pos; lia). pose proof (Z.mod_pos_bound d 10 ltac:(lia)).
  repeat constructor; lia.
Qed.

Theorem date_roundtrip y m d : valid_date y m d -> as_date (date_show (y, m, d)) = Ok (y, m, d).
Proof.
  intros (Hy & Hm & Hd1 & Hd2).
  assert (Hd99 : 0 <= d <= 99).
  { unfold days_in in Hd2. destruct (m =? 2); destruct (go_isLeapYear y); cbn [andb] in Hd2;
      repeat match type of Hd2 with context [if ?b then _ else _] => destruct b end; lia. }
  unfold date_show, as_date.
  assert (Hm' : m = 1 \/ m = 2 \/ m = 3 \/ m = 4 \/ m = 5 \/ m = 6 \/ m = 7 \/ m = 8 \/ m = 9 \/ m = 10 \/ m = 11 \/ m = 12) by lia.
  assert (HN : no_dash (nth (Z.to_nat (m - 1)) month_names [])).
  { destruct Hm' as [->|[->|[->|[->|[->|[->|[->|[->|[->|[->|[->| ->]]]]]]]]]]]; cbn; repeat constructor; lia. }
  assert (HM : month_of (nth (Z.to_nat (m - 1)) month_names []) = Some m).
  { destruct Hm' as [->|[->|[->|[->|[->|[->|[->|[->|[->|[->|[->| ->]]]]]]]]]]]; reflexivity. }
  cbv beta iota. cbn [app].
  rewrite (split_dash_app _ _ [] (no_dash_two d Hd99)). cbn [rev app].
  rewrite (split_dash_app _ _ [] HN). cbn [rev app].
  assert (HY : no_dash (four_digits y)).
  { unfold four_digits. destruct (Z.ltb_spec y 10000); [|lia].
    assert (0 <= y / 1000) by (apply Z.div_pos; lia).
    pose proof (Z.mod_pos_bound (y / 100) 10 ltac:(lia)). pose proof (Z.mod_pos_bound (y / 10) 10 ltac:(lia)). pose proof (Z.mod_pos_bound y 10 ltac:(lia)).
    repeat constructor; lia. }
  rewrite (split_dash_nodash _ [] HY). cbn [rev app].
  rewrite (atoi_two d Hd99). cbn [obind]. rewrite HM. rewrite (atoi_four y Hy). cbn [obind].
  destruct (Z.ltb_spec d 1); [lia|].
  match goal with |- context [if ?b then _ else _] => destruct b eqn:E end; [lia|reflexivity].
Qed.

(* the premise is satisfiable: the leap day of 2024 *)
Example date_roundtrip_example : valid_date 2024 2 29 /\ as_date (date_show (2024, 2, 29)) = Ok (2024, 2, 29).
Proof. split; [unfold valid_date; cbn; lia | reflexivity]. Qed.

(* ---------- GenBankFields.Slice: REFERENCE base ranges (property C03) *)

Lemma overlap_spec s e lo hi : s <= e -> lo <= hi ->
  go_rangeOverlap s e lo hi = (s <? hi) && (lo <? e).
Proof.
  intros H1 H2. unfold go_rangeOverlap.
  destruct (Z.ltb_spec e s); [lia|]. destruct (Z.ltb_spec hi lo); [lia|]. reflexivity.
Qed.

(* a kept range is the intersection of the old range with the window, re-based:
   non-empty and inside [0, end-start) *)
Definition kept (start end_ s e : Z) : bool := negb (start =? end_) && go_rangeOverlap s e start end_.

Theorem clip_is_intersection start end_ s e : start <= end_ -> s < e ->
  kept start end_ s e = true ->
  let h := go_Max 0 (s - start) in let t := go_Min (end_ - start) (e - start) in
  h + start = Z.max s start /\ t + start = Z.min e end_ /\ 0 <= h < t /\ t <= end_ - start.
Proof.
  intros Hw Hr Ho. unfold kept in Ho. rewrite overlap_spec in Ho by lia. unfold go_Max, go_Min. cbv zeta.
  destruct (Z.ltb_spec (s - start) 0); destruct (Z.ltb_spec (end_ - start) (e - start)); lia.
Qed.

(* a reference is dropped exactly when none of its ranges meets the window *)
Theorem clip_empty_iff start end_ locs :
  clip_ranges start end_ locs = [] <-> Forall (fun '(s, e) => kept start end_ s e = false) locs.
Proof.
  unfold clip_ranges. induction locs as [|[s e] t IH]; cbn [filter map]; [split; [constructor|reflexivity]|].
  fold (kept start end_ s e). destruct (kept start end_ s e) eqn:E; cbn [map].
  - split; [discriminate|]. intros H. inversion H; subst. congruence.
  - rewrite IH. split; [intros H; constructor; assumption|intros H; inversion H; assumption].
Qed.

(* nothing is kept by an empty window, and what is disjoint from the window is not kept *)
Theorem kept_only_overlapping start end_ s e : start <= end_ -> s < e ->
  kept start end_ s e = true <-> (Z.max s start < Z.min e end_).
Proof.
  intros Hw Hr. unfold kept. rewrite overlap_spec by lia. split; intros H; lia.
Qed.

(* the kept references are renumbered 1, 2, 3, ... *)
Lemma renumber_numbers rs : forall n, map r_number (renumber n rs) = zrange n (n + zlen rs).
Proof.
  induction rs as [|r t IH]; intros n; cbn [renumber map].
  - unfold zrange, zlen. cbn [length]. replace (n + Z.of_nat 0 - n) with 0 by lia. reflexivity.
  - rewrite IH. unfold zrange, zlen. cbn [length].
    replace (n + Z.of_nat (S (length t)) - n) with (Z.of_nat (S (length t))) by lia.
    replace (n + 1 + Z.of_nat (length t) - (n + 1)) with (Z.of_nat (length t)) by lia.
    rewrite !Nat2Z.id. reflexivity.
Qed.

Lemma renumber_length rs : forall n, length (renumber n rs) = length rs.
Proof. induction rs as [|r t IH]; intros n; cbn [renumber length]; [reflexivity|now rewrite IH]. Qed.

Theorem refs_slice_numbered mol start end_ refs rs :
  refs_slice mol start end_ refs = Ok rs -> map r_number rs = zrange 1 (1 + zlen rs).
Proof.
  unfold refs_slice. destruct (omapM _ refs) as [l|k| |]; cbn [obind]; try discriminate.
  intros H. inversion H; subst. rewrite renumber_numbers. unfold zlen. now rewrite renumber_length.
Qed.

(* ---------- wrap.Space only turns blanks into line breaks *)

Definition unwrap (s : list byte) : list byte := map (fun c => if c =? 10 then 32 else c) s.
Definition no_nl (s : list byte) : Prop := Forall (fun c => c <> 10) s.

Lemma index_byte_from_spec c s : forall i k, index_byte_from c s i = Some k ->
  (i <= k)%nat /\ (k - i < length s)%nat /\ nth (k - i) s 0 = c.
Proof.
  induction s as [|x t IH]; intros i k H; cbn [index_byte_from] in H; [discriminate|].
  destruct (Z.eqb_spec x c).
  - inversion H; subst. replace (k - k)%nat with 0%nat by lia. cbn. repeat split; lia.
  - destruct (IH (S i) k H) as (H1 & H2 & H3). repeat split; try lia; cbn [length]; try lia.
    replace (k - i)%nat with (S (k - S i)) by lia. cbn [nth]. exact H3.
Qed.

Lemma last_index_byte_spec c s : forall i acc k, last_index_byte c s i acc = Some k ->
  (acc = Some k) \/ ((i <= k)%nat /\ (k - i < length s)%nat /\ nth (k - i) s 0 = c).
Proof.
  induction s as [|x t IH]; intros i acc k H; cbn [last_index_byte] in H; [left; exact H|].
  destruct (IH (S i) _ k H) as [Ha|(H1 & H2 & H3)].
  - destruct (Z.eqb_spec x c).
    + inversion Ha; subst. right. replace (k - k)%nat with 0%nat by lia. cbn. repeat split; lia.
    + left; exact Ha.
  - right. repeat split; try lia; cbn [length]; try lia.
    replace (k - i)%nat with (S (k - S i)) by lia. cbn [nth]. exact H3.
Qed.

Lemma split_at_nth (s : list byte) i : (i < length s)%nat ->
  s = firstn i s ++ [nth i s 0] ++ skipn (S i) s.
Proof.
  revert i. induction s as [|x t IH]; intros i H; [cbn in H; lia|].
  destruct i as [|i]; [reflexivity|]. cbn [firstn skipn nth app]. f_equal. apply IH. cbn in H. lia.
Qed.

Lemma unwrap_id s : no_nl s -> unwrap s = s.
Proof.
  induction s as [|x t IH]; intros H; [reflexivity|]. inversion H; subst. cbn [unwrap map].
  destruct (Z.eqb_spec x 10); [contradiction|]. f_equal. apply IH. assumption.
Qed.

Lemma unwrap_app a b : unwrap (a ++ b) = unwrap a ++ unwrap b.
Proof. apply map_app. Qed.

Lemma no_nl_index s : no_nl s -> index_byte_from 10 s 0 = None.
Proof.
  intros H. destruct (index_byte_from 10 s 0) as [k|] eqn:E; [|reflexivity].
  destruct (index_byte_from_spec _ _ _ _ E) as (_ & H2 & H3). replace (k - 0)%nat with k in * by lia.
  exfalso. unfold no_nl in H. rewrite Forall_forall in H. apply (H (nth k s 0)); [apply nth_In; assumption|assumption].
Qed.

Lemma nth_firstn_lt (s : list byte) n i : (i < n)%nat -> nth i (firstn n s) 0 = nth i s 0.
Proof.
  revert n i. induction s as [|x t IH]; intros n i H; [destruct n, i; reflexivity|].
  destruct n; [lia|]. destruct i; [reflexivity|]. cbn [firstn nth]. apply IH. lia.
Qed.

Theorem wrap_unwrap fuel : forall s n, no_nl s -> unwrap (wrap_at fuel s 32 n) = s.
Proof.
  induction fuel as [|f IH]; intros s n Hs; cbn [wrap_at]; [apply unwrap_id, Hs|].
  rewrite (no_nl_index s Hs).
  destruct (Nat.ltb n (length s)); [|apply unwrap_id, Hs].
  assert (Cut : forall i, (i < length s)%nat -> nth i s 0 = 32 ->
                unwrap (firstn i s ++ [10] ++ wrap_at f (skipn (S i) s) 32 n) = s).
  { intros i Hi Hn. rewrite !unwrap_app. rewrite (unwrap_id (firstn i s)) by (apply Forall_firstn', Hs).
    rewrite IH by (apply Forall_skipn', Hs). cbn [unwrap map]. change (10 =? 10) with true. cbv iota.
    rewrite <- Hn. symmetry. apply split_at_nth, Hi. }
  destruct (last_index_byte 32 (firstn n s) 0 None) as [i|] eqn:El.
  - destruct (last_index_byte_spec _ _ _ _ _ El) as [Hx|(H1 & H2 & H3)]; [discriminate|].
    replace (i - 0)%nat with i in * by lia. rewrite firstn_length in H2.
    apply Cut; [lia|]. rewrite <- H3. symmetry. apply nth_firstn_lt. lia.
  - destruct (index_byte_from 32 s 0) as [i|] eqn:Ei; [|apply unwrap_id, Hs].
    destruct (index_byte_from_spec _ _ _ _ Ei) as (_ & H2 & H3). replace (i - 0)%nat with i in * by lia.
    apply Cut; assumption.
Qed.

(* the KEYWORDS / taxonomy layout: wrapped at blanks, continuation lines joined with a blank *)
Corollary wrap_space_unwrap s n : no_nl s -> unwrap (wrap_space s n) = s.
Proof. apply wrap_unwrap. Qed.

(* ---------- keywords and taxonomy: join with "; " and split again *)

Lemma split_step fuel c t cur :
  ~ (c = 59 /\ exists t', t = 32 :: t') ->
  split_semi (S fuel) (c :: t) cur = split_semi fuel t (c :: cur).
Proof.
  intros H. cbn [split_semi].
  destruct (Z.eq_dec c 59) as [->|Hc].
  - destruct t as [|d t']; [reflexivity|].
    destruct (Z.eq_dec d 32) as [->|Hd]; [exfalso; apply H; split; [reflexivity|eexists; reflexivity]|].
    destruct d as [|p|p]; try reflexivity.
    repeat (destruct p as [p|p|]; try reflexivity). exfalso; apply Hd; reflexivity.
  - destruct c as [|p|p]; try reflexivity.
    repeat (destruct p as [p|p|]; try reflexivity). exfalso; apply Hc; reflexivity.
Qed.

Lemma split_sep fuel t cur : split_semi (S fuel) (59 :: 32 :: t) cur = rev cur :: split_semi fuel t [].
Proof. reflexivity. Qed.

(* a keyword: no "; " inside it *)
Fixpoint nosep (k : list byte) : Prop :=
  match k with
  | [] => True
  | c :: t => ~ (c = 59 /\ exists t', t = 32 :: t') /\ nosep t
  end.

Lemma split_keyword k : forall rest cur fuel, nosep k -> (length (k ++ (59 :: 32 :: rest)%Z) < fuel)%nat ->
  exists fuel', (length rest < fuel')%nat /\
    split_semi fuel (k ++ 59 :: 32 :: rest) cur = (rev cur ++ k) :: split_semi fuel' rest [].
Proof.
  induction k as [|c t IH]; intros rest cur fuel Hk Hf; cbn [app] in *.
  - destruct fuel as [|f]; [cbn [length] in Hf; unfold byte in *; lia|]. exists f. split; [cbn [length] in Hf; unfold byte in *; lia|].
    rewrite split_sep. now rewrite app_nil_r.
  - destruct fuel as [|f]; [cbn [length] in Hf; unfold byte in *; lia|]. destruct Hk as [Hc Ht].
    rewrite split_step.
    + destruct (IH rest (c :: cur) f Ht ltac:(cbn [length] in Hf; unfold byte in *; lia)) as (f' & Hf' & E).
      exists f'. split; [exact Hf'|]. eapply eq_trans; [exact E|]. cbn [rev]. now rewrite <- app_assoc.
    + intros [-> [t' Ht']]. apply Hc. split; [reflexivity|].
      destruct t as [|d t0]; cbn [app] in Ht'; [discriminate|]. inversion Ht'; subst. eexists; reflexivity.
Qed.

Lemma split_last_keyword k : forall cur fuel, nosep k -> (length k < fuel)%nat ->
  split_semi fuel k cur = [rev cur ++ k].
Proof.
  induction k as [|c t IH]; intros cur fuel Hk Hf.
  - destruct fuel as [|f]; [cbn [length] in Hf; unfold byte in *; lia|]. cbn [split_semi]. now rewrite app_nil_r.
  - destruct fuel as [|f]; [cbn [length] in Hf; unfold byte in *; lia|]. destruct Hk as [Hc Ht]. rewrite split_step by exact Hc.
    eapply eq_trans; [exact (IH (c :: cur) f Ht ltac:(cbn [length] in Hf; unfold byte in *; lia))|]. cbn [rev]. now rewrite <- app_assoc.
Qed.

Lemma split_joined ks : forall k fuel, Forall nosep (k :: ks) ->
  (length (sep_by [59; 32]%Z (k :: ks)) < fuel)%nat ->
  split_semi fuel (sep_by [59; 32] (k :: ks)) [] = k :: ks.
Proof.
  induction ks as [|k2 t IH]; intros k fuel H Hf; inversion H as [|? ? Hk Hr]; subst.
  - cbn [sep_by flat_map] in *. rewrite app_nil_r in *. apply (split_last_keyword k [] fuel Hk Hf).
  - change (sep_by [59; 32] (k :: k2 :: t)) with (k ++ 59 :: 32 :: sep_by [59; 32] (k2 :: t)) in *.
    destruct (split_keyword k (sep_by [59; 32] (k2 :: t)) [] fuel Hk Hf) as (f' & Hf' & E).
    eapply eq_trans; [exact E|]. cbn [rev app]. f_equal. apply IH; assumption.
Qed.

(* FlatFileSplit undoes strings.Join(..., "; ") + "." *)
Theorem flatfile_split_join ks : Forall nosep ks -> join_semi ks <> [] ->
  flatfile_split (join_semi ks ++ [46]) = ks.
Proof.
  intros H Hne. unfold flatfile_split. rewrite rev_app_distr. cbn [rev app]. rewrite rev_involutive.
  destruct (join_semi ks) as [|c s] eqn:E; [contradiction|]. rewrite <- E.
  destruct ks as [|k t]; [discriminate|]. unfold join_semi in *. apply split_joined; [exact H|lia].
Qed.

Theorem flatfile_split_empty : flatfile_split (join_semi [] ++ [46]) = [].
Proof. reflexivity. Qed.
