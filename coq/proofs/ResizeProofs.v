(* ResizeProofs.v — Regions.Resize on any nested region of either orientation
   equals slicing what the region denotes (C08, all segment counts). *)
From Coq Require Import List ZArith Lia Bool.
From GTS Require Import Base Arith Loc Region BaseLemmas LocProofs RegionProofs PlansProofs.
Import ListNotations.
Open Scope Z_scope.

Definition lslice {A} (lo hi : Z) (l : list A) : list A :=
  firstn (Z.to_nat (hi - lo)) (skipn (Z.to_nat lo) l).

(* coordinates are Go ints far from overflow; every Regions value is non-empty *)
Fixpoint rwf (r : region) : Prop :=
  match r with
  | Seg h t => - 2 ^ 62 <= h < 2 ^ 62 /\ - 2 ^ 62 <= t < 2 ^ 62
  | Regs rs => rs <> [] /\
               (fix all (rs : list region) : Prop :=
                  match rs with [] => True | x :: t => rwf x /\ all t end) rs
  end.

Fixpoint rwf_all (rs : list region) : Prop :=
  match rs with [] => True | x :: t => rwf x /\ rwf_all t end.

Lemma rwf_regs rs : rwf (Regs rs) <-> rs <> [] /\ rwf_all rs.
Proof.
  cbn [rwf]. split; intros [H1 H2]; (split; [exact H1|]); clear H1;
  induction rs as [|x t IH]; cbn; auto; destruct H2; split; auto.
Qed.

Lemma rwf_all_app a b : rwf_all (a ++ b) <-> rwf_all a /\ rwf_all b.
Proof. induction a as [|x t IH]; cbn [app rwf_all]; tauto. Qed.

Definition sumlen (rs : list region) : Z := fold_right (fun x acc => region_len x + acc) 0 rs.

Lemma sumlen_cons x t : sumlen (x :: t) = region_len x + sumlen t.
Proof. reflexivity. Qed.

Lemma sumlen_app a b : sumlen (a ++ b) = sumlen a + sumlen b.
Proof. induction a as [|x t IH]; [reflexivity|]. cbn [app]. rewrite !sumlen_cons, IH. lia. Qed.

Lemma region_len_regs rs : region_len (Regs rs) = sumlen rs.
Proof. reflexivity. Qed.

Lemma zlen_zrange s e : zlen (zrange s e) = Z.max 0 (e - s).
Proof.
  unfold zrange, zlen. assert (H : forall n s, length (zrange_n s n) = n).
  { induction n as [|n IH]; intros s0; cbn [zrange_n length]; [reflexivity|]. now rewrite IH. }
  rewrite H. lia.
Qed.

Lemma den_len r : rwf r -> zlen (region_den r) = region_len r /\ 0 <= region_len r.
Proof.
  induction r as [h t|rs IH] using region_ind'; intros Hw.
  - cbn [rwf] in Hw. cbn [region_den region_len]. rewrite abs_spec by lia.
    destruct (Z.ltb_spec t h).
    + unfold zlen. rewrite rev_length, map_length. fold (zlen (zrange t h)). rewrite zlen_zrange. lia.
    + unfold zlen. rewrite map_length. fold (zlen (zrange h t)). rewrite zlen_zrange. lia.
  - apply rwf_regs in Hw. destruct Hw as [_ Hw]. rewrite region_len_regs. cbn [region_den].
    induction IH as [|x t Hx _ IHt]; [cbn; split; reflexivity|].
    destruct Hw as [Hwx Hwt]. destruct (Hx Hwx) as [E1 P1]. destruct (IHt Hwt) as [E2 P2].
    cbn [flat_map]. rewrite zlen_app, sumlen_cons. lia.
Qed.

Lemma den_regs_app a b : region_den (Regs (a ++ b)) = region_den (Regs a) ++ region_den (Regs b).
Proof. cbn [region_den]. apply flat_map_app. Qed.

Lemma den_regs_cons x t : region_den (Regs (x :: t)) = region_den x ++ region_den (Regs t).
Proof. reflexivity. Qed.

Lemma den_len_all rs : rwf_all rs -> zlen (region_den (Regs rs)) = sumlen rs /\ 0 <= sumlen rs.
Proof.
  induction rs as [|x t IH]; intros Hw; [cbn; split; reflexivity|].
  destruct Hw as [Hx Ht]. destruct (den_len x Hx). destruct (IH Ht).
  rewrite den_regs_cons, zlen_app, sumlen_cons. lia.
Qed.

(* ---------- list slicing *)

Lemma lslice_mid {A} (a b c : list A) x y : 0 <= x -> y <= zlen b ->
  lslice (zlen a + x) (zlen a + y) (a ++ b ++ c) = lslice x y b.
Proof.
  intros Hx Hy. unfold lslice, zlen in *.
  replace (Z.to_nat (Z.of_nat (length a) + x)) with (length a + Z.to_nat x)%nat by lia.
  rewrite skipn_app. replace (length a + Z.to_nat x - length a)%nat with (Z.to_nat x) by lia.
  rewrite (skipn_all2 a) by lia. cbn [app].
  replace (Z.of_nat (length a) + y - (Z.of_nat (length a) + x)) with (y - x) by lia.
  rewrite skipn_app, firstn_app. rewrite skipn_length.
  replace (Z.to_nat (y - x) - (length b - Z.to_nat x))%nat with O by lia.
  cbn [firstn]. now rewrite app_nil_r.
Qed.

Lemma lslice_span {A} (a b m c d : list A) x y : 0 <= x <= zlen b -> 0 <= y <= zlen c ->
  lslice (zlen a + x) (zlen a + zlen b + zlen m + y) (a ++ b ++ m ++ c ++ d)
  = skipn (Z.to_nat x) b ++ m ++ firstn (Z.to_nat y) c.
Proof.
  intros Hx Hy. unfold lslice, zlen in *.
  replace (Z.to_nat (Z.of_nat (length a) + x)) with (length a + Z.to_nat x)%nat by lia.
  rewrite skipn_app. replace (length a + Z.to_nat x - length a)%nat with (Z.to_nat x) by lia.
  rewrite (skipn_all2 a) by lia. cbn [app].
  rewrite skipn_app. replace (Z.to_nat x - length b)%nat with O by lia. cbn [skipn].
  set (n := Z.to_nat (Z.of_nat (length a) + Z.of_nat (length b) + Z.of_nat (length m) + y - (Z.of_nat (length a) + x))).
  assert (Hn : n = (length (skipn (Z.to_nat x) b) + (length m + Z.to_nat y))%nat) by (rewrite skipn_length; lia).
  rewrite Hn, firstn_app_2. f_equal. rewrite firstn_app_2. f_equal.
  rewrite firstn_app. replace (Z.to_nat y - length c)%nat with O by lia. cbn [firstn]. now rewrite app_nil_r.
Qed.

Lemma lslice_empty {A} lo (l : list A) : lslice lo lo l = [].
Proof. unfold lslice. now rewrite Z.sub_diag. Qed.

Lemma lslice_max {A} lo hi (l : list A) : lslice lo (Z.max lo hi) l = lslice lo hi l.
Proof.
  unfold lslice. destruct (Z.max_spec lo hi) as [[H ->]|[H ->]]; [reflexivity|].
  rewrite Z.sub_diag. replace (Z.to_nat (hi - lo)) with O by lia. reflexivity.
Qed.

(* ---------- a single segment, either orientation *)

Lemma length_zrange_n n : forall s, length (zrange_n s n) = n.
Proof. induction n as [|n IH]; intros s; cbn [zrange_n length]; [reflexivity|]. now rewrite IH. Qed.

Lemma rev_zrange_slice t h lo hi : 0 <= lo <= hi -> hi <= h - t ->
  lslice lo hi (rev (zrange t h)) = rev (zrange (h - hi) (h - lo)).
Proof.
  intros H1 H2. unfold lslice, zrange.
  rewrite skipn_rev, firstn_rev. f_equal.
  rewrite length_zrange_n, firstn_zrange_n, length_zrange_n, skipn_zrange_n.
  f_equal; lia.
Qed.

Lemma den_seg_fwd h t lo hi : h <= t -> 0 <= lo <= hi -> hi <= t - h ->
  region_den (Seg (h + lo) (h + hi)) = lslice lo hi (region_den (Seg h t)).
Proof.
  intros H0 H1 H2. cbn [region_den].
  replace (h + hi <? h + lo) with false by (symmetry; apply Z.ltb_ge; lia).
  replace (t <? h) with false by (symmetry; apply Z.ltb_ge; lia).
  unfold lslice. rewrite skipn_map, firstn_map. f_equal. now rewrite slice_zrange by lia.
Qed.

Lemma den_seg_back h t lo hi : t < h -> 0 <= lo <= hi -> hi <= h - t ->
  region_den (Seg (h - lo) (h - hi)) = lslice lo hi (region_den (Seg h t)).
Proof.
  intros H0 H1 H2. cbn [region_den].
  replace (t <? h) with true by (symmetry; apply Z.ltb_lt; lia).
  rewrite <- (map_rev _ (zrange t h)). unfold lslice. rewrite skipn_map, firstn_map. fold (lslice lo hi (rev (zrange t h))).
  rewrite rev_zrange_slice by lia.
  destruct (Z.ltb_spec (h - hi) (h - lo)).
  - now rewrite map_rev.
  - assert (hi = lo) by lia. subst hi. unfold zrange. rewrite Z.sub_diag. reflexivity.
Qed.

Lemma mod_apply_fwd m h t : h <= t ->
  mod_apply m h t = (h + fst (mod_bounds m (t - h)), h + snd (mod_bounds m (t - h))).
Proof.
  intros H. unfold mod_apply, mod_bounds. replace (t <? h) with false by (symmetry; apply Z.ltb_ge; lia).
  destruct m; cbn [apply_fwd fst snd]; rewrite ?go_Max_spec; f_equal; lia.
Qed.

Lemma mod_apply_back m h t : t < h ->
  mod_apply m h t = (h - fst (mod_bounds m (h - t)), h - snd (mod_bounds m (h - t))).
Proof.
  intros H. unfold mod_apply, mod_bounds. replace (t <? h) with true by (symmetry; apply Z.ltb_lt; lia).
  destruct m; cbn [apply_fwd fst snd]; rewrite ?go_Max_spec; f_equal; lia.
Qed.

Lemma mod_bounds_le m n : fst (mod_bounds m n) <= snd (mod_bounds m n).
Proof. unfold mod_bounds. destruct m; cbn [fst snd]; lia. Qed.

Lemma seg_resize_slice m h t : rwf (Seg h t) ->
  0 <= fst (mod_bounds m (region_len (Seg h t))) ->
  snd (mod_bounds m (region_len (Seg h t))) <= region_len (Seg h t) ->
  region_den (Seg (fst (mod_apply m h t)) (snd (mod_apply m h t)))
  = lslice (fst (mod_bounds m (region_len (Seg h t)))) (snd (mod_bounds m (region_len (Seg h t)))) (region_den (Seg h t)).
Proof.
  intros Hw. cbn [rwf] in Hw. cbn [region_len]. rewrite abs_spec by lia.
  destruct (Z.ltb_spec t h) as [Hlt|Hge]; intros Hlo Hhi.
  - rewrite Z.abs_neq in * by lia. replace (- (t - h)) with (h - t) in * by lia.
    rewrite mod_apply_back by lia. cbn [fst snd].
    pose proof (mod_bounds_le m (h - t)). apply den_seg_back; lia.
  - rewrite Z.abs_eq in * by lia.
    rewrite mod_apply_fwd by lia. cbn [fst snd].
    pose proof (mod_bounds_le m (t - h)). apply den_seg_fwd; lia.
Qed.

Fixpoint rin (n : Z) (r : region) : Prop :=
  match r with
  | Seg h t => 0 <= h <= n /\ 0 <= t <= n
  | Regs rs => (fix all (rs : list region) : Prop :=
                  match rs with [] => True | x :: t => rin n x /\ all t end) rs
  end.

Lemma seg_resize_rin m h t n : rwf (Seg h t) ->
  0 <= fst (mod_bounds m (region_len (Seg h t))) ->
  snd (mod_bounds m (region_len (Seg h t))) <= region_len (Seg h t) ->
  (0 <= h <= n /\ 0 <= t <= n) ->
  0 <= fst (mod_apply m h t) <= n /\ 0 <= snd (mod_apply m h t) <= n.
Proof.
  intros Hw. cbn [rwf] in Hw. cbn [region_len]. rewrite abs_spec by lia.
  destruct (Z.ltb_spec t h) as [Hlt|Hge]; intros Hlo Hhi Hn.
  - rewrite Z.abs_neq in * by lia. replace (- (t - h)) with (h - t) in * by lia.
    rewrite mod_apply_back by lia. cbn [fst snd]. pose proof (mod_bounds_le m (h - t)). lia.
  - rewrite Z.abs_eq in * by lia.
    rewrite mod_apply_fwd by lia. cbn [fst snd]. pose proof (mod_bounds_le m (t - h)). lia.
Qed.

(* ---------- the walk of Regions.Resize *)

Lemma walk_spec rs : forall k b, rs <> [] -> rwf_all rs -> b <= sumlen rs ->
  exists pre x post, rs = pre ++ x :: post /\
    resize_walk rs k b = (k + zlen pre, b - sumlen pre) /\
    (b <= 0 -> pre = []) /\ (0 < b -> 0 < b - sumlen pre) /\ b - sumlen pre <= region_len x.
Proof.
  induction rs as [|r t IH]; intros k b Hne Hw Hb; [contradiction|].
  destruct t as [|y t'].
  - exists [], r, []. cbn [app resize_walk zlen length sumlen fold_right].
    rewrite sumlen_cons in Hb. cbn [sumlen fold_right] in Hb.
    repeat split; try (f_equal; unfold zlen; cbn [length]; lia); try lia.
  - destruct Hw as [Hr Ht]. destruct (den_len r Hr) as [_ Hpos].
    change (resize_walk (r :: y :: t') k b) with
      (if region_len r <? b then resize_walk (y :: t') (k + 1) (b - region_len r) else (k, b)).
    rewrite sumlen_cons in Hb.
    destruct (Z.ltb_spec (region_len r) b) as [Hlt|Hge].
    + destruct (IH (k + 1) (b - region_len r) ltac:(discriminate) Ht ltac:(lia)) as (pre & x & post & E & Ew & H1 & H2 & H3).
      exists (r :: pre), x, post. rewrite Ew, E. cbn [app]. rewrite sumlen_cons.
      split; [reflexivity|]. split; [f_equal; [unfold zlen; cbn [length]; lia|lia]|].
      split; [lia|]. split; [intros _; specialize (H2 ltac:(lia)); lia|lia].
    + exists [], r, (y :: t'). cbn [app zlen length sumlen fold_right].
      repeat split; try (f_equal; unfold zlen; cbn [length]; lia); try lia.
Qed.

(* ---------- Go slice operations on a decomposed list *)

Lemma index_mid {A} (pre : list A) x post : index (pre ++ x :: post) (zlen pre) = Ok x.
Proof.
  unfold index. pose proof (zlen_nonneg pre). rewrite zlen_app.
  assert (zlen (x :: post) = 1 + zlen post) by (unfold zlen; cbn [length]; lia).
  pose proof (zlen_nonneg post).
  destruct (Z.leb_spec 0 (zlen pre)); [|lia]. destruct (Z.ltb_spec (zlen pre) (zlen pre + zlen (x :: post))); [|lia].
  cbn [andb]. unfold zlen. rewrite Nat2Z.id, nth_error_app2, Nat.sub_diag by lia. reflexivity.
Qed.

Lemma replace_nth_mid {A} (pre : list A) x post y :
  replace_nth (pre ++ x :: post) (zlen pre) y = pre ++ y :: post.
Proof.
  unfold replace_nth, zlen. rewrite Nat2Z.id.
  rewrite firstn_app, firstn_all, Nat.sub_diag. cbn [firstn]. rewrite app_nil_r.
  f_equal. cbn [app]. f_equal.
  replace (S (length pre)) with (length (pre ++ [x])) by (rewrite app_length; cbn [length]; lia).
  replace (pre ++ x :: post) with ((pre ++ [x]) ++ post) by (rewrite <- app_assoc; reflexivity).
  rewrite skipn_app, skipn_all, Nat.sub_diag. reflexivity.
Qed.

Lemma slice_mid {A} (pre l post : list A) :
  slice (pre ++ l ++ post) (zlen pre) (zlen pre + zlen l) = Ok l.
Proof.
  unfold slice. pose proof (zlen_nonneg pre). pose proof (zlen_nonneg l). pose proof (zlen_nonneg post).
  rewrite !zlen_app.
  destruct (Z.leb_spec 0 (zlen pre)); [|lia].
  destruct (Z.leb_spec (zlen pre) (zlen pre + zlen l)); [|lia].
  destruct (Z.leb_spec (zlen pre + zlen l) (zlen pre + (zlen l + zlen post))); [|lia].
  cbn [andb]. f_equal. unfold zlen.
  replace (Z.to_nat (Z.of_nat (length pre) + Z.of_nat (length l) - Z.of_nat (length pre))) with (length l) by lia.
  rewrite Nat2Z.id, skipn_app, skipn_all, Nat.sub_diag. cbn [skipn app].
  rewrite firstn_app, firstn_all, Nat.sub_diag. cbn [firstn]. now rewrite app_nil_r.
Qed.

Lemma app_split_eq {A} (a : list A) : forall x b c y d,
  a ++ x :: b = c ++ y :: d -> length a = length c -> a = c /\ x = y /\ b = d.
Proof.
  induction a as [|a0 a IH]; intros x b c y d E L; destruct c as [|c0 c]; try discriminate.
  - cbn [app] in E. inversion E. auto.
  - cbn [app] in E. inversion E as [[E0 E1]]. cbn [length] in L.
    destruct (IH _ _ _ _ _ E1 ltac:(lia)) as (-> & -> & ->). auto.
Qed.

Lemma app_split_lt {A} (a : list A) : forall x b c y d,
  a ++ x :: b = c ++ y :: d -> (length a < length c)%nat ->
  exists mid, c = a ++ x :: mid /\ b = mid ++ y :: d.
Proof.
  induction a as [|a0 a IH]; intros x b c y d E L; destruct c as [|c0 c]; cbn [length] in L; try lia.
  - cbn [app] in E. inversion E. exists c. auto.
  - cbn [app] in E. inversion E as [[E0 E1]].
    destruct (IH _ _ _ _ _ E1 ltac:(lia)) as (mid & -> & ->). exists mid. auto.
Qed.

Lemma depth_pos r : (1 <= region_depth r)%nat.
Proof. destruct r; cbn [region_depth]; lia. Qed.

Lemma depth_child pre x post f :
  (region_depth (Regs (pre ++ x :: post)) <= S f)%nat -> (region_depth x <= f)%nat.
Proof.
  cbn [region_depth]. intros H. apply le_S_n in H. revert H.
  induction pre as [|p pre IH]; cbn [app fold_right]; intros H; [lia|]. apply IH. lia.
Qed.


Fixpoint rin_all (n : Z) (rs : list region) : Prop :=
  match rs with [] => True | x :: t => rin n x /\ rin_all n t end.

Lemma rin_regs n rs : rin n (Regs rs) <-> rin_all n rs.
Proof. cbn [rin]. induction rs as [|x t IH]; cbn [rin_all]; tauto. Qed.

Lemma rin_all_app n a b : rin_all n (a ++ b) <-> rin_all n a /\ rin_all n b.
Proof. induction a as [|x t IH]; cbn [app rin_all]; tauto. Qed.

(* ---------- the body of Regions.Resize after the modifier is unpacked *)

Definition mod_lu (m : modifier) (total : Z) : Z * Z :=
  match m with
  | MHead p => (p, p)
  | MTail q => (q + total, q + total)
  | MHeadHead p q => (p, q)
  | MHeadTail p q => (p, q + total)
  | MTailTail p q => (p + total, q + total)
  end.

Definition resize_body (f : nat) (rs : list region) (lower upper : Z) : out region :=
  let '(lft, lower) := resize_walk rs 0 lower in
  let '(rgt, upper) := resize_walk rs 0 upper in
  let c := go_Compare lft rgt in
  if c =? 1 then
    x <- index rs lft ;; resize f x (MHead lower)
  else if c =? 0 then
    x <- index rs lft ;; resize f x (MHeadHead lower upper)
  else
    xl <- index rs lft ;;
    xl' <- resize f xl (MHeadTail lower 0) ;;
    let rs1 := replace_nth rs lft xl' in
    xr <- index rs1 rgt ;;
    xr' <- resize f xr (MHeadHead 0 upper) ;;
    let rs2 := replace_nth rs1 rgt xr' in
    sl <- slice rs2 lft (rgt + 1) ;;
    Ok (Regs sl).

Lemma resize_regs f rs m :
  resize (S f) (Regs rs) m =
  resize_body f rs (fst (mod_lu m (region_len (Regs rs)))) (snd (mod_lu m (region_len (Regs rs)))).
Proof. destruct m; reflexivity. Qed.

Lemma mod_bounds_lu m n :
  mod_bounds m n = (fst (mod_lu m n), Z.max (fst (mod_lu m n)) (snd (mod_lu m n))).
Proof. unfold mod_bounds, mod_lu. destruct m; cbn [fst snd]; f_equal; lia. Qed.

Definition resize_ok (f : nat) : Prop := forall r m, (region_depth r <= f)%nat -> rwf r ->
  0 <= fst (mod_bounds m (region_len r)) -> snd (mod_bounds m (region_len r)) <= region_len r ->
  exists r', resize f r m = Ok r' /\
    region_den r' = lslice (fst (mod_bounds m (region_len r))) (snd (mod_bounds m (region_len r))) (region_den r) /\
    (forall n, rin n r -> rin n r').

Lemma lslice_to_end {A} (l : list A) lo : 0 <= lo <= zlen l ->
  lslice lo (Z.max lo (zlen l + 0)) l = skipn (Z.to_nat lo) l.
Proof.
  intros H. unfold lslice. apply firstn_all2. rewrite skipn_length. unfold zlen in *. lia.
Qed.

Lemma lslice_from_start {A} (l : list A) hi : 0 <= hi ->
  lslice 0 (Z.max 0 hi) l = firstn (Z.to_nat hi) l.
Proof. intros H. unfold lslice. cbn [Z.to_nat skipn]. f_equal. lia. Qed.

Lemma zlen_den_regs rs : rwf_all rs -> zlen (region_den (Regs rs)) = sumlen rs.
Proof. intros H. apply den_len_all, H. Qed.

Lemma resize_body_ok f rs lower upper : resize_ok f ->
  (region_depth (Regs rs) <= S f)%nat -> rs <> [] -> rwf_all rs ->
  0 <= lower -> Z.max lower upper <= sumlen rs ->
  exists r', resize_body f rs lower upper = Ok r' /\
    region_den r' = lslice lower (Z.max lower upper) (region_den (Regs rs)) /\
    (forall n, rin_all n rs -> rin n r').
Proof.
  intros IHf Hd Hne Hw Hlo Hhi.
  destruct (walk_spec rs 0 lower Hne Hw ltac:(lia)) as (pre1 & x1 & post1 & E1 & W1 & A1 & B1 & C1).
  destruct (walk_spec rs 0 upper Hne Hw ltac:(lia)) as (pre2 & x2 & post2 & E2 & W2 & A2 & B2 & C2).
  unfold resize_body. rewrite W1, W2. cbv zeta. rewrite !Z.add_0_l.
  set (l' := lower - sumlen pre1) in *. set (u' := upper - sumlen pre2) in *.
  assert (Hw1 := Hw). rewrite E1 in Hw1. apply rwf_all_app in Hw1. destruct Hw1 as [Hwp1 [Hwx1 Hwq1]].
  assert (Hw2 := Hw). rewrite E2 in Hw2. apply rwf_all_app in Hw2. destruct Hw2 as [Hwp2 [Hwx2 Hwq2]].
  assert (Hd1 : (region_depth x1 <= f)%nat) by (apply (depth_child pre1 x1 post1); rewrite <- E1; exact Hd).
  assert (Hd2 : (region_depth x2 <= f)%nat) by (apply (depth_child pre2 x2 post2); rewrite <- E2; exact Hd).
  destruct (den_len x1 Hwx1) as [Ld1 Lp1]. destruct (den_len x2 Hwx2) as [Ld2 Lp2].
  destruct (den_len_all pre1 Hwp1) as [Lpre1 Ppre1]. destruct (den_len_all pre2 Hwp2) as [Lpre2 Ppre2].
  assert (Hl' : 0 <= l' <= region_len x1).
  { split; [|exact C1]. destruct (Z.eq_dec lower 0) as [Z0|NZ]; [|specialize (B1 ltac:(lia)); subst l'; lia].
    subst l'. rewrite (A1 ltac:(lia)). change (sumlen []) with 0. lia. }
  unfold go_Compare.
  destruct (Z.ltb_spec (zlen pre1) (zlen pre2)) as [Hlt|Hge].
  - (* left < right *)
    change (-1 =? 1) with false. change (-1 =? 0) with false. cbv iota.
    assert (E12 : pre1 ++ x1 :: post1 = pre2 ++ x2 :: post2) by (rewrite <- E1; exact E2).
    destruct (app_split_lt pre1 x1 post1 pre2 x2 post2 E12 ltac:(unfold zlen in Hlt; lia)) as (mid & -> & ->).
    assert (Hup : 0 < upper).
    { destruct (Z.lt_ge_cases 0 upper); [assumption|]. specialize (A2 ltac:(lia)). destruct pre1; discriminate. }
    specialize (B2 Hup).
    apply rwf_all_app in Hwp2. destruct Hwp2 as [_ [_ Hwmid]].
    destruct (den_len_all mid Hwmid) as [Lmid Pmid].
    rewrite sumlen_app, sumlen_cons in *.
    (* left element *)
    destruct (IHf x1 (MHeadTail l' 0) Hd1 Hwx1) as (xl' & Rl & Dl & Il).
    { unfold mod_bounds. cbn [fst]. lia. }
    { unfold mod_bounds. cbn [snd]. lia. }
    (* right element *)
    destruct (IHf x2 (MHeadHead 0 u') Hd2 Hwx2) as (xr' & Rr & Dr & Ir).
    { unfold mod_bounds. cbn [fst]. lia. }
    { unfold mod_bounds. cbn [snd]. lia. }
    rewrite E1, index_mid. cbn [obind]. rewrite Rl. cbn [obind].
    rewrite replace_nth_mid.
    replace (pre1 ++ xl' :: mid ++ x2 :: post2) with ((pre1 ++ xl' :: mid) ++ x2 :: post2)
      by (rewrite <- app_assoc; reflexivity).
    replace (zlen (pre1 ++ x1 :: mid)) with (zlen (pre1 ++ xl' :: mid))
      by (rewrite !zlen_app; unfold zlen; cbn [length]; reflexivity).
    rewrite index_mid. cbn [obind]. rewrite Rr. cbn [obind]. rewrite replace_nth_mid.
    replace ((pre1 ++ xl' :: mid) ++ xr' :: post2) with (pre1 ++ (xl' :: mid ++ [xr']) ++ post2)
      by (rewrite <- !app_assoc; cbn [app]; rewrite <- app_assoc; reflexivity).
    replace (zlen (pre1 ++ xl' :: mid) + 1) with (zlen pre1 + zlen (xl' :: mid ++ [xr']))
      by (rewrite !zlen_app; unfold zlen; cbn [length]; rewrite app_length; cbn [length]; lia).
    rewrite slice_mid. cbn [obind]. eexists; split; [reflexivity|]. split.
    2:{ intros n Hn. apply rin_all_app in Hn. destruct Hn as [_ [Hn1 Hn]].
        apply rin_all_app in Hn. destruct Hn as [Hnm [Hn2 _]].
        apply rin_regs. cbn [rin_all]. split; [apply Il, Hn1|]. apply rin_all_app. split; [exact Hnm|].
        cbn [rin_all]. split; [apply Ir, Hn2|exact Logic.I]. }
    (* denotations *)
    rewrite den_regs_cons, den_regs_app, den_regs_cons. change (region_den (Regs [])) with (@nil (Z * bool)).
    rewrite app_nil_r, Dl, Dr.
    unfold mod_bounds. cbn [fst snd].
    rewrite <- Ld1, lslice_to_end by lia. rewrite lslice_from_start by lia.
    rewrite den_regs_app, den_regs_cons, den_regs_app, den_regs_cons.
    assert (Hmax : Z.max lower upper = zlen (region_den (Regs pre1)) + zlen (region_den x1) + zlen (region_den (Regs mid)) + u').
    { subst u' l'. rewrite Lpre1, Ld1, Lmid. rewrite ?sumlen_app, ?sumlen_cons in *. lia. }
    rewrite Hmax. replace lower with (zlen (region_den (Regs pre1)) + l') at 1 by (subst l'; rewrite Lpre1; lia).
    rewrite lslice_span by (subst u' l'; rewrite ?sumlen_app, ?sumlen_cons in *; lia). reflexivity.
  - destruct (Z.ltb_spec (zlen pre2) (zlen pre1)) as [Hgt|Heq].
    + (* left > right: the interval is empty *)
      change (1 =? 1) with true. cbv iota.
      assert (E12 : pre2 ++ x2 :: post2 = pre1 ++ x1 :: post1) by (rewrite <- E2; exact E1).
      destruct (app_split_lt pre2 x2 post2 pre1 x1 post1 E12 ltac:(unfold zlen in Hgt; lia)) as (mid & -> & ->).
      apply rwf_all_app in Hwp1. destruct Hwp1 as [_ [_ Hwmid]].
      destruct (den_len_all mid Hwmid) as [Lmid Pmid].
      rewrite sumlen_app, sumlen_cons in *.
      assert (Hul : upper <= lower).
      { destruct (Z.lt_ge_cases 0 upper) as [Hp|Hn]; [|lia]. subst u' l'. rewrite ?sumlen_app, ?sumlen_cons in *. lia. }
      destruct (IHf x1 (MHead l') Hd1 Hwx1) as (r' & R & D & I).
      { unfold mod_bounds. cbn [fst]. lia. }
      { unfold mod_bounds. cbn [snd]. lia. }
      rewrite E1, index_mid. cbn [obind]. exists r'. split; [exact R|]. split.
      2:{ intros n Hn. apply rin_all_app in Hn. destruct Hn as [_ [Hn1 _]]. apply I, Hn1. }
      rewrite D. unfold mod_bounds. cbn [fst snd]. rewrite Z.max_id, lslice_empty.
      rewrite Z.max_l by lia. now rewrite lslice_empty.
    + (* left = right *)
      change (0 =? 1) with false. change (0 =? 0) with true. cbv iota.
      assert (E12 : pre1 ++ x1 :: post1 = pre2 ++ x2 :: post2) by (rewrite <- E1; exact E2).
      destruct (app_split_eq pre1 x1 post1 pre2 x2 post2 E12 ltac:(unfold zlen in *; lia)) as (<- & <- & <-).
      destruct (IHf x1 (MHeadHead l' u') Hd1 Hwx1) as (r' & R & D & I).
      { unfold mod_bounds. cbn [fst]. lia. }
      { unfold mod_bounds. cbn [snd]. subst u' l'. rewrite ?sumlen_app, ?sumlen_cons in *. lia. }
      rewrite E1, index_mid. cbn [obind]. exists r'. split; [exact R|]. split.
      2:{ intros n Hn. apply rin_all_app in Hn. destruct Hn as [_ [Hn1 _]]. apply I, Hn1. }
      rewrite D. unfold mod_bounds. cbn [fst snd].
      rewrite den_regs_app, den_regs_cons.
      replace lower with (zlen (region_den (Regs pre1)) + l') at 1 by (subst l'; rewrite Lpre1; lia).
      replace (Z.max lower upper) with (zlen (region_den (Regs pre1)) + Z.max l' u') by (subst u' l'; rewrite Lpre1; lia).
      rewrite lslice_mid by (subst u' l'; rewrite ?sumlen_app, ?sumlen_cons in *; lia). reflexivity.
Qed.

Theorem resize_slice f : resize_ok f.
Proof.
  induction f as [|f IH]; intros r m Hd Hw Hlo Hhi.
  - pose proof (depth_pos r). lia.
  - destruct r as [h t|rs].
    + cbn [resize]. destruct (mod_apply m h t) as [h' t'] eqn:E. eexists; split; [reflexivity|]. split.
      * pose proof (seg_resize_slice m h t Hw Hlo Hhi) as S. rewrite E in S. exact S.
      * intros n Hn. pose proof (seg_resize_rin m h t n Hw Hlo Hhi Hn) as S. rewrite E in S. exact S.
    + rewrite resize_regs. rewrite mod_bounds_lu in *. cbn [fst snd] in *.
      apply rwf_regs in Hw. destruct Hw as [Hne Hw]. rewrite region_len_regs in *.
      destruct (resize_body_ok f rs _ _ IH Hd Hne Hw Hlo Hhi) as (r' & R & D & I).
      exists r'. split; [exact R|]. split; [exact D|]. intros n Hn. apply I, rin_regs, Hn.
Qed.

Theorem region_resize_slice r m : rwf r ->
  0 <= fst (mod_bounds m (region_len r)) -> snd (mod_bounds m (region_len r)) <= region_len r ->
  exists r', region_resize r m = Ok r' /\
    region_den r' = lslice (fst (mod_bounds m (region_len r))) (snd (mod_bounds m (region_len r))) (region_den r) /\
    (forall n, rin n r -> rin n r').
Proof. intros. apply resize_slice; [lia|assumption..]. Qed.

(* ---------- Region.Locate on a bare sequence reads exactly region_den *)
From GTS Require Import Tables Seq Nuc NucProofs SeqProofs.

Definition bare (p : list byte) : seq := mkseq [] p.

Definition cb (c : byte) : byte := match complement_byte c with Ok d => d | _ => c end.

(* the residue a denoted position reads: p[x], complemented on the other strand *)
Definition rd (p : list byte) (xc : Z * bool) : byte :=
  let b := nth (Z.to_nat (fst xc)) p 0 in if snd xc then cb b else b.


Lemma index_byte_bound old c : forall k j, index_byte old c k = Some j -> k <= j < k + zlen old.
Proof.
  induction old as [|x t IH]; intros k j H; cbn [index_byte] in H; [discriminate|].
  rewrite zlen_cons. pose proof (zlen_nonneg t).
  destruct (x =? c); [inversion H; lia|]. specialize (IH _ _ H). lia.
Qed.

Lemma complement_byte_total c : complement_byte c = Ok (cb c).
Proof.
  unfold cb. unfold complement_byte, replace_byte.
  destruct (index_byte complement_from c 0) as [j|] eqn:E; [|reflexivity].
  apply index_byte_bound in E. change (zlen complement_from) with 26 in E.
  unfold index. change (zlen complement_to) with 26.
  destruct (Z.leb_spec 0 j); [|lia]. destruct (Z.ltb_spec j 26); [|lia]. cbn [andb].
  destruct (nth_error complement_to (Z.to_nat j)) eqn:N; [reflexivity|].
  apply nth_error_None in N. change (length complement_to) with 26%nat in N. lia.
Qed.

Lemma complement_bytes_map p : replace_bytes p complement_from complement_to = Ok (map cb p).
Proof.
  unfold replace_bytes. induction p as [|c t IH]; [reflexivity|].
  cbn [omapM map]. fold (complement_byte c). rewrite complement_byte_total. cbn [obind].
  rewrite IH. reflexivity.
Qed.

Lemma skipn_cons_nth {A} (d : A) : forall k l, (k < length l)%nat -> skipn k l = nth k l d :: skipn (S k) l.
Proof.
  induction k as [|k IH]; intros l H; destruct l as [|x t]; cbn [length] in H; try lia; [reflexivity|].
  cbn [skipn nth]. apply IH. lia.
Qed.

Lemma map_nth_zrange_n (p : list byte) : forall n s, 0 <= s -> s + Z.of_nat n <= zlen p ->
  map (fun x => nth (Z.to_nat x) p 0) (zrange_n s n) = firstn n (skipn (Z.to_nat s) p).
Proof.
  induction n as [|n IH]; intros s Hs Hb; [reflexivity|].
  cbn [zrange_n map]. rewrite (@skipn_cons_nth byte 0 (Z.to_nat s) p) by (unfold zlen in Hb; lia).
  cbn [firstn]. f_equal. rewrite IH by lia. f_equal. f_equal. lia.
Qed.

Lemma seq_slice_bare p h t : 0 <= h <= t -> t <= zlen p ->
  seq_slice (bare p) h t = Ok (bare (lslice h t p)).
Proof.
  intros H1 H2. unfold seq_slice. cbn [seq_slice_f bare residues feats filter map_locs obind map].
  destruct (Z.ltb_spec h 0); [lia|]. destruct (Z.ltb_spec t 0); [lia|].
  destruct (Z.ltb_spec t h); [lia|]. destruct (Z.ltb_spec (t - h) 0); [lia|].
  unfold slice. destruct (Z.leb_spec 0 h); [|lia]. destruct (Z.leb_spec h t); [|lia]. destruct (Z.leb_spec t (zlen p)); [|lia].
  reflexivity.
Qed.

Lemma locate_seg_bare p h t : rin (zlen p) (Seg h t) ->
  locate (Seg h t) (bare p) = Ok (bare (map (rd p) (region_den (Seg h t)))).
Proof.
  cbn [rin]. intros [Hh Ht]. cbn [locate region_den].
  destruct (Z.ltb_spec t h) as [Hlt|Hge].
  - rewrite seq_slice_bare by lia. cbn [obind]. unfold seq_complement. cbn [bare residues feats map].
    rewrite complement_bytes_map. cbn [obind]. unfold seq_reverse. cbn [residues feats insert_all obind].
    unfold bare. f_equal. f_equal.
    rewrite map_rev, map_map. unfold rd. cbn [fst snd]. f_equal.
    rewrite <- (map_map (fun x => nth (Z.to_nat x) p 0) cb). f_equal.
    unfold zrange, lslice. rewrite map_nth_zrange_n by lia. reflexivity.
  - rewrite seq_slice_bare by lia. unfold bare. f_equal. f_equal.
    rewrite map_map. unfold rd. cbn [fst snd]. unfold zrange, lslice. now rewrite map_nth_zrange_n by lia.
Qed.

Lemma concat_tail_bare t : forall p, Forall (fun s => feats s = []) t ->
  concat_tail [] p t = Ok (bare (p ++ concat (map residues t))).
Proof.
  induction t as [|s t IH]; intros p H; cbn [concat_tail map concat]; [now rewrite app_nil_r|].
  inversion H as [|? ? Hs Ht]; subst. rewrite Hs. cbn [insert_all obind]. rewrite IH by assumption.
  now rewrite app_assoc.
Qed.

Lemma seq_concat_bare (ps : list (list byte)) : seq_concat (map bare ps) = Ok (bare (concat ps)).
Proof.
  destruct ps as [|a [|b t]]; [reflexivity|cbn [map seq_concat concat]; now rewrite app_nil_r|].
  cbn [map seq_concat]. change (feats (bare a)) with (@nil feature). change (residues (bare a)) with a.
  rewrite (concat_tail_bare (bare b :: map bare t)).
  - f_equal. f_equal. cbn [concat map]. f_equal. change (residues (bare b)) with b. f_equal.
    rewrite map_map. cbn [bare residues]. now rewrite map_id.
  - constructor; [reflexivity|]. apply Forall_forall. intros s Hs. apply in_map_iff in Hs. destruct Hs as [q [<- _]]. reflexivity.
Qed.

Theorem locate_bare p r : rin (zlen p) r ->
  locate r (bare p) = Ok (bare (map (rd p) (region_den r))).
Proof.
  induction r as [h t|rs IH] using region_ind'; intros Hin.
  - now apply locate_seg_bare.
  - cbn [locate].
    assert (E : omapM (fun r => locate r (bare p)) rs = Ok (map bare (map (fun r => map (rd p) (region_den r)) rs))).
    { cbn [rin] in Hin. induction IH as [|x t Hx _ IHt]; [reflexivity|].
      destruct Hin as [Hix Hit]. cbn [omapM map]. rewrite (Hx Hix). cbn [obind]. rewrite (IHt Hit). reflexivity. }
    rewrite E. cbn [obind]. rewrite seq_concat_bare. f_equal. f_equal.
    cbn [region_den]. clear. induction rs as [|x t IHt]; [reflexivity|].
    cbn [map concat flat_map]. now rewrite map_app, IHt.
Qed.

(* the sequence extracted from the resized region is the slice [lo,hi) of the
   sequence extracted from the whole region *)
Theorem locate_resize_slice p r m : rwf r -> rin (zlen p) r ->
  0 <= fst (mod_bounds m (region_len r)) -> snd (mod_bounds m (region_len r)) <= region_len r ->
  exists r' whole, region_resize r m = Ok r' /\ locate r (bare p) = Ok (bare whole) /\
    zlen whole = region_len r /\
    locate r' (bare p) =
       Ok (bare (lslice (fst (mod_bounds m (region_len r))) (snd (mod_bounds m (region_len r))) whole)).
Proof.
  intros Hw Hin Hlo Hhi. destruct (region_resize_slice r m Hw Hlo Hhi) as (r' & R & D & I).
  exists r', (map (rd p) (region_den r)). split; [exact R|]. split; [now apply locate_bare|].
  split; [rewrite zlen_map; apply den_len, Hw|].
  rewrite (locate_bare p r' (I _ Hin)), D. unfold lslice. now rewrite skipn_map, firstn_map.
Qed.
