(* OriginSafe.v — the ORIGIN block readers index their buffer by hand
   (validateOrigin, slowGenBankOriginParser); after Request(toOriginLength(n))
   succeeded every index stays inside the buffer, so they never panic. *)
From GTS Require Import Base Arith Pars Origin BaseLemmas ParsLemmas OriginProofs Safety.
From Coq Require Import Lia.
Open Scope Z_scope.

Notation T := go_toOriginLength.

Lemma T_full a : 0 <= a -> T (60 * a) = 76 * a.
Proof.
  intros Ha. unfold go_toOriginLength, gdiv, gmod.
  assert (R : Z.rem (60 * a) 60 = 0) by (rewrite Z.mul_comm; apply Z.rem_mul; lia).
  assert (Q : Z.quot (60 * a) 60 = a) by (rewrite Z.mul_comm; apply Z.quot_mul; lia).
  rewrite R, Q. cbv zeta. change (0 =? 0) with true. cbv iota. lia.
Qed.

Lemma T_line a m : 0 <= a -> 1 <= m <= 60 -> T (60 * a + m) = 76 * a + 10 + m + (m + 9) / 10.
Proof.
  intros Ha Hm. revert m Hm. 
  assert (G : forall a, 0 <= a -> forall m, 1 <= m <= 60 -> T (60 * a + m) = 76 * a + 10 + m + (m + 9) / 10).
  { intros b Hb. pattern b. apply natlike_ind; [|..|exact Hb].
    - intros m Hm. replace (60 * 0 + m) with m by lia. rewrite to_len_small by lia. lia.
    - intros x Hx IH m Hm. rewrite to_len_step by lia.
      replace (60 * Z.succ x + m - 60) with (60 * x + m) by lia. rewrite IH by lia. lia. }
  intros m Hm. apply G; assumption.
Qed.

Lemma T_mono_step n : 0 <= n -> T n <= T (n + 1).
Proof.
  intros Hn.
  assert (E : exists a m, 0 <= a /\ 0 <= m < 60 /\ n = 60 * a + m).
  { exists (n / 60), (n mod 60). Z.to_euclidean_division_equations. lia. }
  destruct E as (a & m & Ha & Hm & ->).
  destruct (Z.eq_dec m 0) as [->|Hm0].
  - replace (60 * a + 0) with (60 * a) by lia. rewrite T_full by lia. rewrite T_line by lia. 
    assert ((1 + 9) / 10 = 1) by reflexivity. lia.
  - rewrite (T_line a m) by lia. replace (60 * a + m + 1) with (60 * a + (m + 1)) by lia. rewrite (T_line a (m + 1)) by lia.
    Z.to_euclidean_division_equations. lia.
Qed.

Lemma T_mono x y : 0 <= x <= y -> T x <= T y.
Proof.
  intros [Hx Hxy]. replace y with (x + (y - x)) by lia. assert (Hd : 0 <= y - x) by lia. revert Hd.
  generalize (y - x). intros d Hd. pattern d. apply natlike_ind; [| |exact Hd].
  - replace (x + 0) with x by lia. lia.
  - intros z Hz IH. replace (x + Z.succ z) with (x + z + 1) by lia. pose proof (T_mono_step (x + z) ltac:(lia)). lia.
Qed.

(* the bytes of one line after position j (a multiple of ten) of its residues:
   a blank before every group and the residues *)
Definition rem_line (m j : Z) : Z := if j <? m then (m - j) + (m - j + 9) / 10 else 0.

Lemma index_ok {A} (p : list A) o : 0 <= o < zlen p -> exists c, index p o = Ok c.
Proof.
  intros H. unfold index. destruct (Z.leb_spec 0 o); [|lia]. destruct (Z.ltb_spec o (zlen p)); [|lia]. cbn [andb].
  destruct (nth_error p (Z.to_nat o)) eqn:E; [eexists; reflexivity|].
  apply nth_error_None in E. unfold zlen in H. lia.
Qed.

(* ---------- validateOrigin *)

Section Validate.
  Variables (p : list byte) (len i j : Z).

  Lemma vo_bases_ok fuel : forall k offset, 0 <= k -> 10 - k <= Z.of_nat fuel ->
    (forall d, 0 <= d -> k + d < 10 -> i + j + k + d < len -> 0 <= offset + d < zlen p) ->
    match vo_bases fuel p len i j k offset with
    | Ok (Some o') => o' = offset + Z.max 0 (Z.min (10 - k) (len - i - j - k))
    | Ok None => True
    | _ => False
    end.
  Proof.
    induction fuel as [|f IH]; intros k offset Hk Hf Hb; cbn [vo_bases].
    - lia.
    - destruct (Z.ltb_spec k 10); cbn [andb]; [|lia].
      destruct (Z.ltb_spec (i + j + k) len); [|lia].
      destruct (index_ok p offset) as [c Hc]; [specialize (Hb 0); replace (offset + 0) with offset in Hb by lia; apply Hb; lia|].
      rewrite Hc. cbn [obind]. destruct (is_base_char c); [|exact I].
      specialize (IH (k + 1) (offset + 1) ltac:(lia) ltac:(lia)).
      assert (Hb' : forall d, 0 <= d -> k + 1 + d < 10 -> i + j + (k + 1) + d < len -> 0 <= offset + 1 + d < zlen p).
      { intros d Hd H1 H2. replace (offset + 1 + d) with (offset + (d + 1)) by lia. apply Hb; lia. }
      specialize (IH Hb'). destruct (vo_bases f p len i j (k + 1) (offset + 1)) as [[o'|]|e| |]; auto. lia.
  Qed.
End Validate.

Section Validate2.
  Variables (p : list byte) (len i : Z).
  (* m: residues on the line that starts at residue i *)
  Let m := Z.min 60 (len - i).

  Lemma vo_groups_ok fuel : forall b offset, 0 <= b -> 6 - b <= Z.of_nat fuel -> 0 <= offset ->
    offset + rem_line m (10 * b) <= zlen p ->
    match vo_groups fuel p len i (10 * b) offset with
    | Ok (Some o') => o' = offset + rem_line m (10 * b)
    | Ok None => True
    | _ => False
    end.
  Proof.
    induction fuel as [|f IH]; intros b offset Hb Hf Ho Hp; cbn [vo_groups].
    - assert (6 <= b) by lia. unfold rem_line. destruct (Z.ltb_spec (10 * b) m); [subst m; lia|]. lia.
    - destruct (Z.ltb_spec (10 * b) 60); cbn [andb].
      2:{ unfold rem_line. destruct (Z.ltb_spec (10 * b) m); [subst m; lia|]. lia. }
      destruct (Z.ltb_spec (i + 10 * b) len).
      2:{ unfold rem_line. destruct (Z.ltb_spec (10 * b) m); [subst m; lia|]. lia. }
      assert (Hjm : 10 * b < m) by (subst m; lia).
      assert (Hrem : rem_line m (10 * b) = (m - 10 * b) + (m - 10 * b + 9) / 10).
      { unfold rem_line. destruct (Z.ltb_spec (10 * b) m); [reflexivity|lia]. }
      assert (Hq : 1 <= (m - 10 * b + 9) / 10) by (Z.to_euclidean_division_equations; lia).
      destruct (index_ok p offset) as [c Hc]; [lia|]. rewrite Hc. cbn [obind].
      destruct (negb (c =? 32)); [exact I|].
      pose proof (vo_bases_ok p len i (10 * b) 10 0 (offset + 1) ltac:(lia) ltac:(lia)) as VB.
      assert (Hb' : forall d, 0 <= d -> 0 + d < 10 -> i + 10 * b + 0 + d < len -> 0 <= offset + 1 + d < zlen p).
      { intros d Hd H1 H2. assert (d < m - 10 * b) by (subst m; lia). lia. }
      specialize (VB Hb'). destruct (vo_bases 10 p len i (10 * b) 0 (offset + 1)) as [[o1|]|e| |]; cbn [obind]; auto.
      subst o1. replace (10 * b + 10) with (10 * (b + 1)) by lia.
      set (g := Z.max 0 (Z.min (10 - 0) (len - i - 10 * b - 0))).
      assert (Hg : g = Z.min 10 (m - 10 * b)) by (subst g m; lia).
      assert (Hnext : rem_line m (10 * b) = 1 + g + rem_line m (10 * (b + 1))).
      { rewrite Hrem, Hg. unfold rem_line. destruct (Z.ltb_spec (10 * (b + 1)) m).
        - replace (Z.min 10 (m - 10 * b)) with 10 by lia. Z.to_euclidean_division_equations. lia.
        - assert (m - 10 * b <= 10) by lia. replace (Z.min 10 (m - 10 * b)) with (m - 10 * b) by lia.
          Z.to_euclidean_division_equations. lia. }
      specialize (IH (b + 1) (offset + 1 + g) ltac:(lia) ltac:(lia) ltac:(lia) ltac:(lia)).
      destruct (vo_groups f p len i (10 * (b + 1)) (offset + 1 + g)) as [[o2|]|e| |]; auto. lia.
  Qed.
End Validate2.

Lemma vo_lines_ok p len fuel : 0 <= len < 10 ^ 9 -> zlen p = T len ->
  forall a, 0 <= a -> vo_lines fuel p len (60 * a) (T (60 * a)) <> Panic.
Proof.
  intros Hlen Hp. induction fuel as [|f IH]; intros a Ha; cbn [vo_lines]; [discriminate|].
  destruct (Z.ltb_spec (60 * a) len); [|discriminate].
  set (m := Z.min 60 (len - 60 * a)).
  assert (Hm : 1 <= m <= 60) by (subst m; lia).
  assert (HT : T (60 * a + m) <= T len) by (apply T_mono; subst m; lia).
  rewrite (T_line a m) in HT by lia. rewrite (T_full a) by lia.
  assert (Hq : 1 <= (m + 9) / 10) by (Z.to_euclidean_division_equations; lia).
  unfold slice. rewrite Hp.
  destruct (Z.leb_spec 0 (76 * a)); [|lia]. destruct (Z.leb_spec (76 * a) (T len)); [|lia]. destruct (Z.leb_spec (T len) (T len)); [|lia].
  cbn [andb obind].
  match goal with |- context [if ?c then _ else _] => destruct c end; [discriminate|].
  rewrite pad9_len by lia.
  pose proof (vo_groups_ok p len (60 * a) 6 0 (76 * a + 9) ltac:(lia) ltac:(lia) ltac:(lia)) as VG.
  replace (10 * 0) with 0 in VG by lia. fold m in VG.
  assert (Hr0 : rem_line m 0 = m + (m + 9) / 10).
  { unfold rem_line. destruct (Z.ltb_spec 0 m); [|lia]. replace (m - 0) with m by lia. reflexivity. }
  rewrite Hr0, Hp in VG. specialize (VG ltac:(lia)).
  destruct (vo_groups 6 p len (60 * a) 0 (76 * a + 9)) as [[o1|]|e| |]; cbn [obind]; try discriminate; try contradiction.
  subst o1. destruct (index_ok p (76 * a + 9 + (m + (m + 9) / 10))) as [c Hc]; [lia|]. rewrite Hc. cbn [obind].
  destruct (negb (c =? 10)); [discriminate|].
  destruct (Z.ltb_spec (60 * a + 60) len).
  - (* a full line: the next line starts at T (60 (a+1)) *)
    assert (m = 60) by (subst m; lia).
    replace (76 * a + 9 + (m + (m + 9) / 10) + 1) with (T (60 * (a + 1))).
    + replace (60 * a + 60) with (60 * (a + 1)) by lia. apply IH. lia.
    + rewrite T_full by lia. subst m. replace (Z.min 60 (len - 60 * a)) with 60 by lia.
      assert ((60 + 9) / 10 = 6) by reflexivity. lia.
  - (* the last line: the loop ends *)
    destruct f as [|f']; cbn [vo_lines]; [discriminate|].
    destruct (Z.ltb_spec (60 * a + 60) len); [lia|discriminate].
Qed.

Theorem validate_origin_no_panic p len : 0 <= len < 10 ^ 9 -> zlen p = T len -> validate_origin p len <> Panic.
Proof.
  intros Hl Hp. unfold validate_origin.
  pose proof (vo_lines_ok p len (S (Z.to_nat (Z.max 0 len))) Hl Hp 0 ltac:(lia)) as H.
  replace (60 * 0) with 0 in H by lia. rewrite to_len_zero in H. exact H.
Qed.

(* ---------- slowGenBankOriginParser *)

Section Slow.
  Variables (q : list byte) (len i : Z).
  Let m := Z.min 60 (len - i).

  Lemma slow_bases_ok j fuel : forall k extent, 0 <= k -> 10 - k <= Z.of_nat fuel -> 0 <= extent ->
    match slow_bases fuel q len i j k extent with
    | Ok (Some e') => e' = extent + Z.max 0 (Z.min (10 - k) (len - i - j - k))
    | Ok None => True
    | _ => False
    end.
  Proof.
    induction fuel as [|f IH]; intros k extent Hk Hf He; cbn [slow_bases].
    - lia.
    - destruct (Z.ltb_spec k 10); cbn [andb]; [|lia].
      destruct (Z.ltb_spec (i + j + k) len); [|lia].
      destruct (Z.leb_spec (zlen q) extent); [exact I|].
      destruct (index_ok q extent) as [c Hc]; [lia|]. rewrite Hc. cbn [obind].
      destruct (is_base_char c); [|exact I].
      specialize (IH (k + 1) (extent + 1) ltac:(lia) ltac:(lia) ltac:(lia)).
      destruct (slow_bases f q len i j (k + 1) (extent + 1)) as [[e'|]|e| |]; auto. lia.
  Qed.

  Lemma slow_groups_ok fuel : forall b extent, 0 <= b -> 6 - b <= Z.of_nat fuel -> 0 <= extent ->
    match slow_groups fuel q len i (10 * b) extent with
    | Ok (Some e') => e' = extent + rem_line m (10 * b)
    | Ok None => True
    | _ => False
    end.
  Proof.
    induction fuel as [|f IH]; intros b extent Hb Hf He; cbn [slow_groups].
    - assert (6 <= b) by lia. unfold rem_line. destruct (Z.ltb_spec (10 * b) m); [subst m; lia|]. lia.
    - destruct (Z.ltb_spec (10 * b) 60); cbn [andb].
      2:{ unfold rem_line. destruct (Z.ltb_spec (10 * b) m); [subst m; lia|]. lia. }
      destruct (Z.ltb_spec (i + 10 * b) len).
      2:{ unfold rem_line. destruct (Z.ltb_spec (10 * b) m); [subst m; lia|]. lia. }
      destruct (Z.leb_spec (zlen q) extent); [exact I|].
      destruct (index_ok q extent) as [c Hc]; [lia|]. rewrite Hc. cbn [obind].
      destruct (negb (c =? 32)); [exact I|].
      pose proof (slow_bases_ok (10 * b) 10 0 (extent + 1) ltac:(lia) ltac:(lia) ltac:(lia)) as SB.
      destruct (slow_bases 10 q len i (10 * b) 0 (extent + 1)) as [[e1|]|e| |]; cbn [obind]; auto.
      subst e1. replace (10 * b + 10) with (10 * (b + 1)) by lia.
      set (g := Z.max 0 (Z.min (10 - 0) (len - i - 10 * b - 0))).
      assert (Hjm : 10 * b < m) by (subst m; lia).
      assert (Hg : g = Z.min 10 (m - 10 * b)) by (subst g m; lia).
      assert (Hnext : rem_line m (10 * b) = 1 + g + rem_line m (10 * (b + 1))).
      { rewrite Hg. unfold rem_line. destruct (Z.ltb_spec (10 * b) m); [|lia]. destruct (Z.ltb_spec (10 * (b + 1)) m).
        - replace (Z.min 10 (m - 10 * b)) with 10 by lia. Z.to_euclidean_division_equations. lia.
        - assert (m - 10 * b <= 10) by lia. replace (Z.min 10 (m - 10 * b)) with (m - 10 * b) by lia.
          Z.to_euclidean_division_equations. lia. }
      specialize (IH (b + 1) (extent + 1 + g) ltac:(lia) ltac:(lia) ltac:(lia)).
      destruct (slow_groups f q len i (10 * (b + 1)) (extent + 1 + g)) as [[e2|]|e| |]; auto. lia.
  Qed.
End Slow.

Lemma firstn_zlen {A} n (l : list A) : zlen (firstn n l) = Z.min (Z.of_nat n) (zlen l).
Proof. unfold zlen. rewrite firstn_length. lia. Qed.

Lemma safe_bind_lift_ok {A B} (v : A) (f : A -> M B) : safe (f v) -> safe (bind (lift (Ok v)) f).
Proof. intros H s Hs. exact (H s Hs). Qed.

Lemma safe_slow_lines len fuel : 0 <= len < 10 ^ 9 ->
  forall a acc, 0 <= a -> zlen acc = 76 * a -> safe (slow_lines fuel len (T len) (60 * a) acc).
Proof.
  intros Hlen. induction fuel as [|f IH]; intros a acc Ha Hacc; cbn [slow_lines]; [apply safe_nofuel|].
  destruct (Z.ltb_spec (60 * a) len); [|apply safe_ret].
  apply safe_bind; [apply safe_pLine|]. intros q.
  destruct (negb (is_prefix (pad9 (60 * a + 1)) q)); [apply safe_fail|].
  rewrite pad9_len by lia.
  set (m := Z.min 60 (len - 60 * a)).
  assert (Hm : 1 <= m <= 60) by (subst m; lia).
  pose proof (slow_groups_ok q len (60 * a) 6 0 9 ltac:(lia) ltac:(lia) ltac:(lia)) as SG.
  replace (10 * 0) with 0 in SG by lia. fold m in SG.
  assert (Hr0 : rem_line m 0 = m + (m + 9) / 10).
  { unfold rem_line. destruct (Z.ltb_spec 0 m); [|lia]. replace (m - 0) with m by lia. reflexivity. }
  rewrite Hr0 in SG.
  destruct (slow_groups 6 q len (60 * a) 0 9) as [[extent|]|e| |] eqn:Eg; try contradiction.
  2:{ apply safe_bind_lift_ok. apply safe_fail. }
  apply safe_bind_lift_ok.
  destruct (negb (extent =? zlen q)) eqn:Ee; [apply safe_fail|].
  intros s Hs.
  apply Bool.negb_false_iff in Ee. apply Z.eqb_eq in Ee.
  assert (HT : T (60 * a + m) <= T len) by (apply T_mono; subst m; lia).
  rewrite (T_line a m) in HT by lia.
  assert (Hq : 1 <= (m + 9) / 10) by (Z.to_euclidean_division_equations; lia).
  set (acc' := acc ++ firstn (Z.to_nat (T len - zlen acc)) (firstn (Z.to_nat extent) q)).
  assert (Hl : zlen acc' = 76 * a + 9 + (m + (m + 9) / 10)).
  { subst acc'. unfold zlen at 1. rewrite app_length, Nat2Z.inj_add. fold (zlen acc).
    fold (zlen (firstn (Z.to_nat (T len - zlen acc)) (firstn (Z.to_nat extent) q))).
    rewrite !firstn_zlen. rewrite !Z2Nat.id by lia. lia. }
  destruct (Z.ltb_spec (zlen acc') (T len)); [|lia].
  destruct (Z.ltb_spec (60 * a + 60) len).
  - assert (m = 60) by (subst m; lia).
    replace (60 * a + 60) with (60 * (a + 1)) by lia.
    apply (IH (a + 1) (acc' ++ [10])); [lia| |exact Hs].
    unfold zlen. rewrite app_length, Nat2Z.inj_add. fold (zlen acc'). rewrite Hl. subst m.
    replace (Z.min 60 (len - 60 * a)) with 60 by lia. assert ((60 + 9) / 10 = 6) by reflexivity. cbn [length]. lia.
  - destruct f as [|f']; cbn [slow_lines]; [cbn; exact I|].
    destruct (Z.ltb_spec (60 * a + 60) len); [lia|]. cbn. exact Hs.
Qed.

(* ---------- makeGenbankOriginParser *)

Lemma request_z_buffer n : 0 <= n -> forall s, wf s ->
  match request_z n s with
  | (Ok _, s1) => wr s1 /\ exists p, buffer s1 = (Ok p, s1) /\ zlen p = n /\ n <= input_bound
  | (Err _, s1) => wf s1
  | _ => False
  end.
Proof.
  intros Hn s Hs. rewrite request_z_eq. pose proof (request_spec n Hn s Hs) as H.
  destruct s as [r o e a k]. unfold request in *. cbn [rest off endr apos stk] in *.
  destruct (has_n r (Z.to_nat n)) eqn:E.
  - split; [exact H|]. unfold buffer. cbn [endr off rest].
    destruct (Z.ltb_spec (o + n - o) 0); [lia|]. eexists. split; [reflexivity|].
    replace (o + n - o) with n by lia.
    assert (Hle : (Z.to_nat n <= length r)%nat).
    { destruct (Nat.le_gt_cases (Z.to_nat n) (length r)); [assumption|]. rewrite has_n_gt in E by assumption. discriminate. }
    split.
    + unfold zlen. rewrite firstn_length. lia.
    + destruct Hs as (_ & _ & _ & Hsm & _). cbn [rest] in Hsm. unfold zlen in Hsm. lia.
  - apply H.
Qed.

Lemma safe_record_end : safe record_end.
Proof.
  unfold record_end. apply safe_pDry. apply safe_pAny. repeat constructor; [apply safe_pEnd|].
  apply safe_bind; [apply safe_pSeq2; [apply safe_pBytes|apply safe_pEOL]|]. intros _. apply safe_ret.
Qed.

Lemma safe_slow_origin_parser len : 0 <= len < 10 ^ 9 -> safe (slow_origin_parser len).
Proof.
  intros Hl. unfold slow_origin_parser. pose proof (to_len_nonneg len ltac:(lia)).
  destruct (Z.ltb_spec (T len) 0); [lia|].
  pose proof (safe_slow_lines len (S (Z.to_nat (Z.max 0 len))) Hl 0 [] ltac:(lia) ltac:(reflexivity)) as G.
  replace (60 * 0) with 0 in G by lia. exact G.
Qed.

Theorem safe_origin_block_parser len : safe (origin_block_parser len).
Proof.
  unfold origin_block_parser. destruct (Z.ltb_spec len 0); [apply safe_fail|].
  destruct (Z.ltb_spec (T len) 0); [apply safe_fail|].
  intros s Hs. unfold bind at 1. unfold try at 1.
  pose proof (request_z_buffer (T len) (to_len_nonneg len H) s Hs) as R.
  destruct (request_z (T len) s) as [[u|k| |] s1]; try contradiction; [|exact R].
  destruct R as [Hwr (p & Hbuf & Hp & Hb)].
  assert (Hlen : 0 <= len < 10 ^ 9).
  { pose proof (to_len_ge len H). unfold input_bound in Hb. lia. }
  unfold bind at 1. rewrite Hbuf.
  pose proof (validate_origin_no_panic p len Hlen Hp) as Hv.
  unfold bind at 1. unfold lift at 1.
  destruct (validate_origin p len) as [v|k| |]; try contradiction; [|apply Hwr|exact I].
  assert (G : triple wr (p0 <-- (if v then advance ;;; ret p else slow_origin_parser len) ;;;
                         e <-- try record_end ;;;
                         match e with (None, _) => fail EOther | (Some _, _) => ret p0 end) (fun _ => wf) wf).
  { eapply t_bind.
    - instantiate (1 := fun _ => wf). destruct v.
      + eapply t_bind; [apply safe_advance|]. intros u0. apply safe_ret.
      + apply wr_weaken. apply safe_slow_origin_parser, Hlen.
    - intros p0. apply safe_bind; [apply safe_try', safe_record_end|]. intros [[x|] k]; [apply safe_ret|apply safe_fail]. }
  apply (G s1 Hwr).
Qed.
