(* FieldRT.v — C01: a header field written as  name, padding to the field
   depth, AddPrefix(text), newline  is read back by genbankFieldParser as that
   text (DEFINITION without its final period, ACCESSION, VERSION, COMMENT and
   the extra fields all go through it). *)
From Coq Require Import List ZArith Lia Bool.
From GTS Require Import Base Arith Pars Insdc GenBank BaseLemmas ParsLemmas FastaProofs BodyRT ParsSpec ModRT LocusRT.
Import ListNotations.
Open Scope Z_scope.

Lemma field_name_reads name depth post o e a fr k : zlen name <= depth ->
  exists o' e', field_name_parser (fixed_name name) depth
                  (mkst (name ++ repeat_byte 32 (depth - zlen name) ++ post) o e a (fr :: k)) =
                (Ok (name, 0), mkst post o' e' (a + depth) (fr :: k)).
Proof.
  intros Hd. unfold field_name_parser, fixed_name.
  destruct (pBytes_ok name (repeat_byte 32 (depth - zlen name) ++ post) o e a (fr :: k)) as (o1 & e1 & H1).
  assert (Hn : (pBytes name;;; ret name) (mkst (name ++ repeat_byte 32 (depth - zlen name) ++ post) o e a (fr :: k))
               = (Ok name, mkst (repeat_byte 32 (depth - zlen name) ++ post) o1 e1 (a + zlen name) (fr :: k))).
  { rewrite (bind_ok _ _ _ tt _ H1). reflexivity. }
  rewrite (bind_ok _ _ _ name _ Hn).
  destruct (Z.ltb_spec (depth - zlen name) 0); [lia|].
  set (pad := repeat_byte 32 (depth - zlen name)).
  assert (Hany : okp (pAny [pBytes pad;;; ret 0; (e0 <-- pDry pEOL;;; ret (zlen e0))]) pad post 0).
  { apply pAny_okp, anyl_here. exact (okp_ret (pBytes pad) (fun _ : unit => 0) pad post tt (pBytes_okp pad post)). }
  destruct (Hany o1 e1 (a + zlen name) fr k) as (o2 & e2 & H2).
  rewrite (bind_ok _ _ _ (Some 0, EOther) _ (try_ok _ _ _ _ H2)).
  exists o2, e2. unfold ret. f_equal. f_equal.
  assert (zlen pad = depth - zlen name).
  { unfold pad, repeat_byte. unfold zlen in *. rewrite repeat_length. lia. }
  lia.
Qed.

(* the whole field: name, padding, text with continuation lines, newline *)
Theorem generic_field_roundtrip name depth l0 ls post o e a fr k :
  zlen name <= depth -> no_eol l0 -> Forall no_eol ls -> is_prefix (repeat_byte 32 depth) post = false ->
  exists s', generic_field_parser name depth
               (mkst (name ++ repeat_byte 32 (depth - zlen name) ++
                      (add_prefix (l0 ++ joined 10 ls) (repeat_byte 32 depth) ++ [10]) ++ post) o e a (fr :: k)) =
             (Ok (l0 ++ joined 10 ls, 0), s') /\ rest s' = post /\ stk s' = fr :: k.
Proof.
  intros Hd H0 Hls Hp. unfold generic_field_parser.
  destruct (field_name_reads name depth ((add_prefix (l0 ++ joined 10 ls) (repeat_byte 32 depth) ++ [10]) ++ post) o e a fr k Hd)
    as (o1 & e1 & H1).
  rewrite (bind_ok _ _ _ (name, 0) _ H1).
  destruct (field_body_roundtrip depth l0 ls post o1 e1 (a + depth) (fr :: k) H0 Hls Hp) as (s' & E & R & S).
  rewrite (bind_ok _ _ _ _ _ E). exists s'. split; [|split; assumption].
  unfold ret. cbn [fst snd]. destruct ls; reflexivity.
Qed.

(* a one-line field (ACCESSION without region, VERSION as GenBank.String writes them) *)
Corollary one_line_field_roundtrip name depth v post o e a fr k :
  zlen name <= depth -> no_eol v -> is_prefix (repeat_byte 32 depth) post = false ->
  exists s', generic_field_parser name depth
               (mkst ((name ++ repeat_byte 32 (depth - zlen name) ++ v ++ [10]) ++ post) o e a (fr :: k)) =
             (Ok (v, 0), s') /\ rest s' = post /\ stk s' = fr :: k.
Proof.
  intros Hd Hv Hp.
  destruct (generic_field_roundtrip name depth v [] post o e a fr k Hd Hv ltac:(constructor) Hp) as (s' & E & R & S).
  exists s'. split; [|split; assumption].
  unfold joined in E. cbn [map concat] in E. rewrite app_nil_r in E. rewrite (add_prefix_noeol v _ Hv) in E.
  rewrite <- E. f_equal. f_equal. rewrite <- !app_assoc. reflexivity.
Qed.

Example version_line_is_such_a_field v :
  [86;69;82;83;73;79;78;32;32;32;32;32] ++ v ++ nl = n_VERSION ++ repeat_byte 32 (12 - zlen n_VERSION) ++ v ++ [10].
Proof. reflexivity. Qed.

(* the KEYWORDS field as a whole: name, padding, the list joined by "; " with a
   final period, wrapped at blanks, continuation lines indented; read back by
   name parser, body parser (continuation lines joined by a blank) and
   FlatFileSplit as the list it was written from *)
From GTS Require Import GenBankProofs.

Definition keywords_inner (depth : Z) : M (list (list byte)) :=
  _ <-- field_name_parser (fixed_name n_KEYWORDS) depth ;;;
  b <-- field_body_parser depth 32 ;;;
  ret (flatfile_split b).

Theorem keywords_field_roundtrip depth ks n post o e a fr k :
  zlen n_KEYWORDS <= depth -> Forall nosep ks -> join_semi ks <> [] ->
  Forall (fun c => c <> 10) (join_semi ks ++ [46]) -> no_cr (join_semi ks ++ [46]) ->
  is_prefix (repeat_byte 32 depth) post = false ->
  exists s', keywords_inner depth
               (mkst (n_KEYWORDS ++ repeat_byte 32 (depth - zlen n_KEYWORDS) ++
                      (add_prefix (wrap_space (join_semi ks ++ [46]) n) (repeat_byte 32 depth) ++ [10]) ++ post) o e a (fr :: k)) =
             (Ok ks, s') /\ rest s' = post /\ stk s' = fr :: k.
Proof.
  intros Hd Hks Hne Hnl Hcr Hp. unfold keywords_inner.
  destruct (field_name_reads n_KEYWORDS depth
              ((add_prefix (wrap_space (join_semi ks ++ [46]) n) (repeat_byte 32 depth) ++ [10]) ++ post) o e a fr k Hd)
    as (o1 & e1 & H1).
  rewrite (bind_ok _ _ _ (n_KEYWORDS, 0) _ H1).
  destruct (keywords_body_roundtrip wrap_unwrap depth (join_semi ks ++ [46]) n post o1 e1 (a + depth) (fr :: k) Hnl Hcr Hp)
    as (flag & s' & E & R & S).
  unfold field_body_parser. rewrite (bind_ok _ _ _ (join_semi ks ++ [46]) s').
  - exists s'. split; [|split; assumption]. unfold ret. rewrite (flatfile_split_join ks Hks Hne). reflexivity.
  - rewrite (bind_ok _ _ _ _ _ E). reflexivity.
Qed.

(* the DBLINK sub-parser as a whole: field name, padding, first pair, loop *)
From GTS Require Import DblinkRT.

Theorem p_dblink_roundtrip depth a kv ps post o e ap fr k :
  zlen n_DBLINK <= depth -> f_dblink (a_fields a) = [] ->
  Forall pair_ok (kv :: ps) -> NoDup (map fst (kv :: ps)) ->
  is_prefix (repeat_byte 32 depth) post = false ->
  exists s', p_dblink depth a
               (mkst (n_DBLINK ++ repeat_byte 32 (depth - zlen n_DBLINK) ++ dblink_text depth (kv :: ps) ++ post) o e ap (fr :: k)) =
             (Ok (upd_fields a (set_dblink (a_fields a) (kv :: ps)), None), s') /\ rest s' = post /\ stk s' = fr :: k.
Proof.
  intros Hd Hempty Hok Hnd Hp. inversion Hok as [|? ? Hkv Hps]; subst. unfold p_dblink.
  destruct (field_name_reads n_DBLINK depth (dblink_text depth (kv :: ps) ++ post) o e ap fr k Hd) as (o1 & e1 & H1).
  rewrite (bind_ok _ _ _ (Some (n_DBLINK, 0), EOther) _ (try_ok _ _ _ _ H1)).
  rewrite Hempty.
  replace (dblink_text depth (kv :: ps) ++ post) with (pair_line kv ++ 10 :: more_text depth ps ++ post)
    by (unfold dblink_text; rewrite <- !app_assoc; reflexivity).
  destruct (dblink_pair_ok [] kv (more_text depth ps ++ post) o1 e1 (ap + depth) (fr :: k) Hkv) as (o2 & e2 & H2).
  rewrite (bind_ok _ _ _ (Some (dict_set [] (fst kv) (snd kv)), EOther) _ (try_ok _ _ _ _ H2)).
  unfold bind at 1. unfold get. cbn [rest].
  destruct (dblink_loop_reads depth ps (dict_set [] (fst kv) (snd kv)) o2 e2 (ap + depth + zlen (pair_line kv) + 1) (fr :: k)
              (S (length (more_text depth ps ++ post))) post Hps) as (o3 & e3 & H3).
  - pose proof (more_text_len depth ps). rewrite app_length. unfold byte in *. lia.
  - exact Hp.
  - rewrite (bind_ok _ _ _ _ _ H3). eexists. split.
    + unfold ret. cbn [fst snd].
      change (set_all (dict_set [] (fst kv) (snd kv)) ps) with (set_all [] (kv :: ps)).
      rewrite (set_all_distinct (kv :: ps) [] Hnd). reflexivity.
    + split; reflexivity.
Qed.

(* the KEYWORDS sub-parser as a whole (sub_of wraps the error) *)
Theorem p_keywords_roundtrip depth a ks n post o e ap fr k :
  zlen n_KEYWORDS <= depth -> Forall nosep ks -> join_semi ks <> [] ->
  Forall (fun c => c <> 10) (join_semi ks ++ [46]) -> no_cr (join_semi ks ++ [46]) ->
  is_prefix (repeat_byte 32 depth) post = false ->
  exists s', p_keywords depth a
               (mkst (n_KEYWORDS ++ repeat_byte 32 (depth - zlen n_KEYWORDS) ++
                      (add_prefix (wrap_space (join_semi ks ++ [46]) n) (repeat_byte 32 depth) ++ [10]) ++ post) o e ap (fr :: k)) =
             (Ok (upd_fields a (set_keywords (a_fields a) ks), None), s') /\ rest s' = post /\ stk s' = fr :: k.
Proof.
  intros Hd Hks Hne Hnl Hcr Hp. unfold p_keywords, sub_of.
  destruct (field_name_reads n_KEYWORDS depth
              ((add_prefix (wrap_space (join_semi ks ++ [46]) n) (repeat_byte 32 depth) ++ [10]) ++ post) o e ap fr k Hd)
    as (o1 & e1 & H1).
  destruct (keywords_body_roundtrip wrap_unwrap depth (join_semi ks ++ [46]) n post o1 e1 (ap + depth) (fr :: k) Hnl Hcr Hp)
    as (flag & s' & E & R & S).
  assert (Inner : (_ <-- field_name_parser (fixed_name n_KEYWORDS) depth ;;;
                   b <-- field_body_parser depth 32 ;;;
                   ret (upd_fields a (set_keywords (a_fields a) (flatfile_split b))))
                  (mkst (n_KEYWORDS ++ repeat_byte 32 (depth - zlen n_KEYWORDS) ++
                         (add_prefix (wrap_space (join_semi ks ++ [46]) n) (repeat_byte 32 depth) ++ [10]) ++ post) o e ap (fr :: k))
                  = (Ok (upd_fields a (set_keywords (a_fields a) ks)), s')).
  { rewrite (bind_ok _ _ _ (n_KEYWORDS, 0) _ H1). unfold field_body_parser.
    rewrite (bind_ok _ _ _ (join_semi ks ++ [46]) s') by (rewrite (bind_ok _ _ _ _ _ E); reflexivity).
    unfold ret. rewrite (flatfile_split_join ks Hks Hne). reflexivity. }
  rewrite (bind_ok _ _ _ (Some (upd_fields a (set_keywords (a_fields a) ks)), EOther) _ (try_ok _ _ _ _ Inner)).
  exists s'. split; [reflexivity|split; assumption].
Qed.

(* ACCESSION (without region), VERSION and COMMENT: sub-parsers of the shape
   sub_of (Map (genbankFieldParser name) setter) *)
Lemma sub_generic_field name depth (setf : acc -> list byte -> acc) a l0 ls post o e ap fr k :
  zlen name <= depth -> no_eol l0 -> Forall no_eol ls -> is_prefix (repeat_byte 32 depth) post = false ->
  exists s', sub_of (fun a0 => pMap (generic_field_parser name depth) (fun '(p, _) => Ok (setf a0 p))) a
               (mkst (name ++ repeat_byte 32 (depth - zlen name) ++
                      (add_prefix (l0 ++ joined 10 ls) (repeat_byte 32 depth) ++ [10]) ++ post) o e ap (fr :: k)) =
             (Ok (setf a (l0 ++ joined 10 ls), None), s') /\ rest s' = post /\ stk s' = fr :: k.
Proof.
  intros Hd H0 Hls Hp. unfold sub_of, pMap.
  set (txt := name ++ repeat_byte 32 (depth - zlen name) ++ (add_prefix (l0 ++ joined 10 ls) (repeat_byte 32 depth) ++ [10]) ++ post).
  destruct (generic_field_roundtrip name depth l0 ls post o e ap (txt, o, ap) (fr :: k) Hd H0 Hls Hp) as (s1 & E & R & S).
  fold txt in E. destruct s1 as [r1 o1 e1 a1 k1]. cbn [rest stk] in R, S. subst r1 k1.
  assert (Inner : (push;;; r <-- try (generic_field_parser name depth);;;
                   match r with
                   | (Some a1, _) => drop;;; lift ((fun '(p, _) => Ok (setf a p)) a1)
                   | (None, k0) => pop;;; fail k0
                   end) (mkst txt o e ap (fr :: k))
                  = (Ok (setf a (l0 ++ joined 10 ls)), mkst post o1 e1 a1 (fr :: k))).
  { rewrite (bind_ok _ _ _ tt _ (push_eq txt o e ap (fr :: k))).
    rewrite (bind_ok _ _ _ (Some (l0 ++ joined 10 ls, 0), EOther) _ (try_ok _ _ _ _ E)).
    rewrite (bind_ok _ _ _ tt _ (drop_ne post o1 e1 a1 (txt, o, ap) fr k)). reflexivity. }
  rewrite (bind_ok _ _ _ (Some (setf a (l0 ++ joined 10 ls)), EOther) _ (try_ok _ _ _ _ Inner)).
  eexists. split; [reflexivity|split; reflexivity].
Qed.

Theorem p_version_roundtrip depth a v post o e ap fr k :
  zlen n_VERSION <= depth -> no_eol v -> is_prefix (repeat_byte 32 depth) post = false ->
  exists s', p_version depth a
               (mkst ((n_VERSION ++ repeat_byte 32 (depth - zlen n_VERSION) ++ v ++ [10]) ++ post) o e ap (fr :: k)) =
             (Ok (upd_fields a (set_version (a_fields a) v), None), s') /\ rest s' = post /\ stk s' = fr :: k.
Proof.
  intros Hd Hv Hp.
  destruct (sub_generic_field n_VERSION depth (fun a0 p => upd_fields a0 (set_version (a_fields a0) p)) a v [] post o e ap fr k
              Hd Hv ltac:(constructor) Hp) as (s' & E & R & S).
  exists s'. split; [|split; assumption].
  unfold joined in E. cbn [map concat] in E. rewrite app_nil_r in E. rewrite (add_prefix_noeol v _ Hv) in E.
  unfold p_version. rewrite <- E. f_equal. f_equal. rewrite <- !app_assoc. reflexivity.
Qed.

Theorem p_comment_roundtrip depth a l0 ls post o e ap fr k :
  zlen n_COMMENT <= depth -> no_eol l0 -> Forall no_eol ls -> is_prefix (repeat_byte 32 depth) post = false ->
  exists s', p_comment depth a
               (mkst (n_COMMENT ++ repeat_byte 32 (depth - zlen n_COMMENT) ++
                      (add_prefix (l0 ++ joined 10 ls) (repeat_byte 32 depth) ++ [10]) ++ post) o e ap (fr :: k)) =
             (Ok (upd_fields a (add_comment (a_fields a) (l0 ++ joined 10 ls)), None), s') /\ rest s' = post /\ stk s' = fr :: k.
Proof.
  intros Hd H0 Hls Hp.
  exact (sub_generic_field n_COMMENT depth (fun a0 p => upd_fields a0 (add_comment (a_fields a0) p)) a l0 ls post o e ap fr k Hd H0 Hls Hp).
Qed.

(* DEFINITION: written with a final period, which the sub-parser takes off *)
Lemma joined_snoc ls l : joined 10 (ls ++ [l]) = joined 10 ls ++ 10 :: l.
Proof. unfold joined. rewrite map_app, concat_app. cbn [map concat]. now rewrite app_nil_r. Qed.

Theorem p_definition_roundtrip depth a l0 ls post o e ap fr k :
  zlen n_DEFINITION <= depth -> no_eol l0 -> Forall no_eol ls -> is_prefix (repeat_byte 32 depth) post = false ->
  let d := l0 ++ joined 10 ls in
  exists s', p_definition depth a
               (mkst (n_DEFINITION ++ repeat_byte 32 (depth - zlen n_DEFINITION) ++
                      (add_prefix (d ++ [46]) (repeat_byte 32 depth) ++ [10]) ++ post) o e ap (fr :: k)) =
             (Ok (upd_fields a (set_definition (a_fields a) d), None), s') /\ rest s' = post /\ stk s' = fr :: k.
Proof.
  intros Hd H0 Hls Hp d.
  (* the lines of d ++ "." *)
  assert (Hlines : exists m0 ms, no_eol m0 /\ Forall no_eol ms /\ d ++ [46] = m0 ++ joined 10 ms).
  { assert (Hcase : ls = [] \/ exists init lst, ls = init ++ [lst]).
    { destruct ls as [|x t]; [left; reflexivity|right]. destruct (exists_last (l:=x :: t) ltac:(discriminate)) as (init & lst & E0). exists init, lst. exact E0. }
    destruct Hcase as [->|(init & lst & ->)].
    - exists (l0 ++ [46]), []. split; [|split; [constructor|]].
      + unfold no_eol in *. apply Forall_app. split; [exact H0|]. constructor; [split; discriminate|constructor].
      + unfold d, joined. cbn [map concat]. now rewrite !app_nil_r.
    - apply Forall_app in Hls as [Hi Hl]. inversion Hl as [|? ? Hl1 _]; subst.
      exists l0, (init ++ [lst ++ [46]]). split; [exact H0|]. split.
      + apply Forall_app. split; [exact Hi|]. constructor; [|constructor].
        unfold no_eol in *. apply Forall_app. split; [exact Hl1|]. constructor; [split; discriminate|constructor].
      + unfold d. rewrite !joined_snoc. rewrite <- !app_assoc. cbn [app]. reflexivity. }
  destruct Hlines as (m0 & ms & Hm0 & Hms & Ed).
  destruct (sub_generic_field n_DEFINITION depth
              (fun a0 p => match rev p with
                           | [] => upd_fields a0 (set_definition (a_fields a0) [])
                           | 46 :: r => upd_fields a0 (set_definition (a_fields a0) (rev r))
                           | _ => a0 end) a m0 ms post o e ap fr k Hd Hm0 Hms Hp) as (s' & E & R & S).
  (* p_definition maps through an out-valued function: redo the last step *)
  clear E.
  unfold p_definition, sub_of, pMap. rewrite Ed.
  set (txt := n_DEFINITION ++ repeat_byte 32 (depth - zlen n_DEFINITION) ++ (add_prefix (m0 ++ joined 10 ms) (repeat_byte 32 depth) ++ [10]) ++ post).
  destruct (generic_field_roundtrip n_DEFINITION depth m0 ms post o e ap (txt, o, ap) (fr :: k) Hd Hm0 Hms Hp) as (s1 & E1 & R1 & S1).
  fold txt in E1. destruct s1 as [r1 o1 e1 a1 k1]. cbn [rest stk] in R1, S1. subst r1 k1.
  rewrite (bind_ok _ _ _ (Some (upd_fields a (set_definition (a_fields a) d)), EOther) (mkst post o1 e1 a1 (fr :: k))).
  - eexists. split; [reflexivity|split; reflexivity].
  - apply try_ok.
    rewrite (bind_ok _ _ _ tt _ (push_eq txt o e ap (fr :: k))).
    rewrite (bind_ok _ _ _ (Some (m0 ++ joined 10 ms, 0), EOther) _ (try_ok _ _ _ _ E1)).
    rewrite (bind_ok _ _ _ tt _ (drop_ne post o1 e1 a1 (txt, o, ap) fr k)).
    rewrite <- Ed, rev_app_distr. cbn [rev app]. rewrite rev_involutive. reflexivity.
Qed.

Theorem p_accession_roundtrip depth a v post o e ap fr k :
  zlen n_ACCESSION <= depth -> no_eol v -> is_prefix (repeat_byte 32 depth) post = false ->
  exists s', p_accession depth a
               (mkst ((n_ACCESSION ++ repeat_byte 32 (depth - zlen n_ACCESSION) ++ v ++ [10]) ++ post) o e ap (fr :: k)) =
             (Ok (upd_fields a (set_accession (a_fields a) v), None), s') /\ rest s' = post /\ stk s' = fr :: k.
Proof.
  intros Hd Hv Hp.
  destruct (sub_generic_field n_ACCESSION depth (fun a0 p => upd_fields a0 (set_accession (a_fields a0) p)) a v [] post o e ap fr k
              Hd Hv ltac:(constructor) Hp) as (s' & E & R & S).
  exists s'. split; [|split; assumption].
  unfold joined in E. cbn [map concat] in E. rewrite app_nil_r in E. rewrite (add_prefix_noeol v _ Hv) in E.
  unfold p_accession. rewrite <- E. f_equal. f_equal. rewrite <- !app_assoc. reflexivity.
Qed.

(* an extra field: the name is whatever run of capitals starts the line *)
Lemma field_name_word_reads name depth post o e a fr k :
  name <> [] -> Forall (fun c => is_upper c = true) name -> zlen name < depth ->
  exists o' e', field_name_parser (pWord is_upper) depth
                  (mkst (name ++ repeat_byte 32 (depth - zlen name) ++ post) o e a (fr :: k)) =
                (Ok (name, 0), mkst post o' e' (a + depth) (fr :: k)).
Proof.
  intros Hne Hup Hd. unfold field_name_parser.
  set (pad := repeat_byte 32 (depth - zlen name)).
  assert (Hpad : exists pt, pad = 32 :: pt).
  { unfold pad, repeat_byte. destruct (Z.to_nat (depth - zlen name)) eqn:E; [lia|]. cbn [repeat]. eexists; reflexivity. }
  destruct Hpad as (pt & Epad).
  assert (W : okp (pWord is_upper) name (pad ++ post) name).
  { apply pWord_okp; [exact Hne|exact Hup|]. rewrite Epad. reflexivity. }
  destruct (W o e a fr k) as (o1 & e1 & E1).
  rewrite (bind_ok _ _ _ name _ E1).
  destruct (Z.ltb_spec (depth - zlen name) 0); [lia|].
  assert (Hany : okp (pAny [pBytes pad;;; ret 0; (e0 <-- pDry pEOL;;; ret (zlen e0))]) pad post 0).
  { apply pAny_okp, anyl_here. exact (okp_ret (pBytes pad) (fun _ : unit => 0) pad post tt (pBytes_okp pad post)). }
  destruct (Hany o1 e1 (a + zlen name) fr k) as (o2 & e2 & H2).
  fold pad. rewrite (bind_ok _ _ _ (Some 0, EOther) _ (try_ok _ _ _ _ H2)).
  exists o2, e2. unfold ret. f_equal. f_equal.
  assert (zlen pad = depth - zlen name).
  { unfold pad, repeat_byte. unfold zlen in *. rewrite repeat_length. lia. }
  lia.
Qed.

Theorem p_extra_roundtrip depth a name l0 ls post o e ap fr k :
  name <> [] -> Forall (fun c => is_upper c = true) name -> zlen name < depth ->
  no_eol l0 -> Forall no_eol ls -> is_prefix (repeat_byte 32 depth) post = false ->
  exists s', p_extra depth a
               (mkst (name ++ repeat_byte 32 (depth - zlen name) ++
                      (add_prefix (l0 ++ joined 10 ls) (repeat_byte 32 depth) ++ [10]) ++ post) o e ap (fr :: k)) =
             (Ok (upd_fields a (add_extra (a_fields a) name (l0 ++ joined 10 ls)), None), s') /\ rest s' = post /\ stk s' = fr :: k.
Proof.
  intros Hne Hup Hd H0 Hls Hp. unfold p_extra, sub_of.
  destruct (field_name_word_reads name depth ((add_prefix (l0 ++ joined 10 ls) (repeat_byte 32 depth) ++ [10]) ++ post) o e ap fr k Hne Hup Hd)
    as (o1 & e1 & H1).
  destruct (field_body_roundtrip depth l0 ls post o1 e1 (ap + depth) (fr :: k) H0 Hls Hp) as (s' & E & R & S).
  assert (Inner : (n <-- try (field_name_parser (pWord is_upper) depth);;;
                   match n with
                   | (Some (name0, _), _) => v <-- field_body_parser depth 10;;; ret (upd_fields a (add_extra (a_fields a) name0 v))
                   | (None, _) => fail EExtra
                   end)
                  (mkst (name ++ repeat_byte 32 (depth - zlen name) ++
                         (add_prefix (l0 ++ joined 10 ls) (repeat_byte 32 depth) ++ [10]) ++ post) o e ap (fr :: k))
                  = (Ok (upd_fields a (add_extra (a_fields a) name (l0 ++ joined 10 ls))), s')).
  { rewrite (bind_ok _ _ _ (Some (name, 0), EOther) _ (try_ok _ _ _ _ H1)). unfold field_body_parser.
    rewrite (bind_ok _ _ _ (l0 ++ joined 10 ls) s') by (rewrite (bind_ok _ _ _ _ _ E); reflexivity). reflexivity. }
  rewrite (bind_ok _ _ _ (Some (upd_fields a (add_extra (a_fields a) name (l0 ++ joined 10 ls))), EOther) _ (try_ok _ _ _ _ Inner)).
  exists s'. split; [reflexivity|split; assumption].
Qed.
