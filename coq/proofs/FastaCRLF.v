(* FastaCRLF.v — C17 with CRLF line ends, the residue half: the reader's
   newline removal (bytes.Split on LF, TrimSuffix CR, Join) undoes the
   70-column wrapping also after every LF of the written text became CR LF. *)
From GTS Require Import Base Pars Fasta BaseLemmas ParsLemmas FastaProofs.
Open Scope Z_scope.

(* bytes.ReplaceAll(text, "\n", "\r\n") *)
Definition crlf (l : list byte) : list byte :=
  flat_map (fun c => if c =? 10 then [13; 10] else [c]) l.

Lemma trim_cr_snoc l : trim_cr (l ++ [13]) = l.
Proof. unfold trim_cr. rewrite rev_app_distr. cbn [rev app]. apply rev_involutive. Qed.

Lemma no_byte_rev c l : no_byte c l -> no_byte c (rev l).
Proof. unfold no_byte. rewrite !Forall_forall. intros H x Hx. apply H. now apply in_rev. Qed.

(* line by line: the CR LF text gives the lines of the LF text *)
Lemma split_crlf t : forall cur, no_byte 13 t -> no_byte 13 cur ->
  map trim_cr (split_nl (crlf t) cur) = map trim_cr (split_nl t cur).
Proof.
  induction t as [|c t IH]; intros cur Ht Hc; [reflexivity|].
  inversion Ht as [|? ? Hc13 Ht']; subst. cbn [crlf flat_map]. fold (crlf t).
  cbn [split_nl]. destruct (c =? 10) eqn:E.
  - cbn [app split_nl]. change (13 =? 10) with false. change (10 =? 10) with true. cbv iota.
    cbn [map rev]. rewrite trim_cr_snoc, (trim_cr_no13 (rev cur)) by now apply no_byte_rev.
    f_equal. apply IH; [assumption|constructor].
  - cbn [app split_nl]. rewrite E. apply IH; [assumption|]. now constructor.
Qed.

Lemma wrap_no13 fuel : forall data n, no_byte 13 data -> no_byte 13 (wrap_force fuel data n).
Proof.
  induction fuel as [|f IH]; intros data n H; [exact H|].
  cbn [wrap_force]. destruct (Nat.ltb n (length data)); [|exact H].
  apply Forall_app. split; [now apply Forall_firstn'|].
  apply Forall_app. split; [repeat constructor; discriminate|].
  apply IH. now apply Forall_skipn'.
Qed.

Theorem body_data_crlf fuel data : (length data <= fuel)%nat -> no_byte 10 data -> no_byte 13 data ->
  fasta_body_data (crlf (wrap_force fuel data 70 ++ [10])) = data.
Proof.
  intros Hf H10 H13. unfold fasta_body_data. rewrite split_crlf.
  - now apply (body_data fuel data).
  - apply Forall_app. split; [now apply wrap_no13|repeat constructor; discriminate].
  - constructor.
Qed.

(* ---------- a whole record with CR LF line ends *)

(* pars.Line on "line\r\n": returns the line, consumes both bytes *)
Lemma pLine_crlf line post o e a k : no_eol line ->
  exists o' e', pLine (mkst (line ++ 13 :: 10 :: post) o e a k) =
                (Ok line, mkst post o' e' (a + zlen line + 2) k).
Proof.
  intros H. unfold pLine.
  unfold bind at 1. unfold get. cbn [rest].
  rewrite (calc_line_crlf line post 0 0 H). cbn [Z.add].
  assert (Hh : has_n (line ++ 13 :: 10 :: post) (Z.to_nat (zlen line)) = true)
    by (rewrite nat_zlen; apply has_n_app).
  rewrite (bind_ok _ _ _ (Some tt, EOther) (mkst (line ++ 13 :: 10 :: post) o (Some (o + zlen line)) a k))
    by (apply try_ok, request_ok, Hh).
  unfold bind at 1. unfold buffer. cbn [endr off rest].
  replace (o + zlen line - o) with (zlen line) by lia.
  replace (zlen line <? 0) with false by (symmetry; apply Z.ltb_ge; apply zlen_nonneg).
  rewrite nat_zlen, firstn_app, firstn_all, Nat.sub_diag. cbn [firstn]. rewrite app_nil_r.
  rewrite (bind_ok _ _ _ tt _ (advance_ok _ o a k (zlen line) (zlen_nonneg _) Hh)).
  rewrite nat_zlen, skipn_app, skipn_all, Nat.sub_diag. cbn [skipn app].
  destruct (autoclear_cases (13 :: 10 :: post) (o + zlen line) None (a + zlen line) k) as [o1 ->].
  unfold skip.
  assert (Hs : try (request 2 ;;; advance) (mkst (13 :: 10 :: post) o1 None (a + zlen line) k)
               = (Ok (Some tt, EOther), autoclear (mkst post (o1 + 2) None (a + zlen line + 2) k))).
  { apply try_ok. rewrite (bind_ok _ _ _ tt (mkst (13 :: 10 :: post) o1 (Some (o1 + 2)) (a + zlen line) k))
      by (apply request_ok; reflexivity).
    rewrite (advance_ok (13 :: 10 :: post) o1 (a + zlen line) k 2 ltac:(lia) eq_refl). reflexivity. }
  rewrite (bind_ok _ _ _ _ _ Hs).
  destruct (autoclear_cases post (o1 + 2) None (a + zlen line + 2) k) as [o2 ->].
  exists o2, None. reflexivity.
Qed.

Lemma crlf_app a b : crlf (a ++ b) = crlf a ++ crlf b.
Proof. unfold crlf. apply flat_map_app. Qed.

Lemma crlf_id l : no_byte 10 l -> crlf l = l.
Proof.
  intros H. unfold crlf. induction H as [|c t Hc _ IH]; [reflexivity|].
  cbn [flat_map]. replace (c =? 10) with false by (symmetry; now apply Z.eqb_neq). cbn [app]. now rewrite IH.
Qed.

Lemma crlf_no_gt l : no_gt l -> no_gt (crlf l).
Proof.
  intros H. unfold crlf. induction H as [|c t Hc _ IH]; [constructor|].
  cbn [flat_map]. destruct (c =? 10); cbn [app]; repeat constructor; try discriminate; assumption.
Qed.

Lemma no_eol_no10 l : no_eol l -> no_byte 10 l.
Proof. intros H. eapply Forall_impl; [|exact H]. now intros c [? _]. Qed.

(* the text Fasta.WriteTo writes, after LF -> CR LF *)
Lemma crlf_format desc data : no_eol desc ->
  crlf (fasta_format desc data) =
  [62] ++ desc ++ [13; 10] ++ crlf (wrap_force (length data) data 70 ++ [10]).
Proof.
  intros Hd. unfold fasta_format. rewrite nl_to_space_id by assumption.
  rewrite !crlf_app. rewrite (crlf_id desc) by now apply no_eol_no10. reflexivity.
Qed.

Theorem fasta_record_crlf desc data post o e a k :
  fasta_ok desc data -> stops post ->
  exists o' e',
    fasta_parser (mkst (crlf (fasta_format desc data) ++ post) o e a k) =
    (Ok (desc, data), mkst post o' e' (a + zlen (crlf (fasta_format desc data))) k).
Proof.
  intros [Hd [H10 [H13 Hgt]]] Hp. rewrite (crlf_format desc data Hd).
  unfold fasta_parser, pMap.
  set (body := crlf (wrap_force (length data) data 70 ++ [10])).
  rewrite (bind_ok _ _ _ _ _ (push_eq _ _ _ _ _)).
  set (F := ((([62] ++ desc ++ [13; 10] ++ body) ++ post), o, a)).
  assert (HS : exists o1 e1,
    pSeq3 (pByte 62) pLine (pUntilP (pAny [pByte 62;;; ret tt; pEnd]))
      (mkst (([62] ++ desc ++ [13; 10] ++ body) ++ post) o e a (F :: k)) =
    (Ok (62, desc, body), mkst post o1 e1 (a + 1 + zlen desc + 2 + zlen body) (F :: k))).
  { unfold pSeq3. rewrite (bind_ok _ _ _ _ _ (push_eq _ _ _ _ _)).
    rewrite <- !app_assoc. cbn [app].
    rewrite (bind_ok _ _ _ (Some 62, EOther) _ (try_ok _ _ _ _ (pByte_ne 62 _ o e a _ _))).
    destruct (pLine_crlf desc (body ++ post) (o + 1) None (a + 1)
               ((62 :: desc ++ 13 :: 10 :: body ++ post, o, a) :: F :: k) Hd) as [o1 [e1 HL]].
    rewrite (bind_ok _ _ _ (Some desc, EOther) _ (try_ok _ _ _ _ HL)).
    assert (Hb : no_gt body).
    { unfold body. apply crlf_no_gt. apply Forall_app. split; [now apply wrap_no_gt | repeat constructor; discriminate]. }
    pose proof (pUntil_body body post o1 e1 (a + 1 + zlen desc + 2)
                  (62 :: desc ++ 13 :: 10 :: body ++ post, o, a) (F :: k) Hb Hp) as HU.
    fold stopq. rewrite (bind_ok _ _ _ (Some body, EOther) _ (try_ok _ _ _ _ HU)).
    rewrite (bind_ok _ _ _ _ _ (drop_ne _ _ _ _ _ _ _)).
    eexists _, _. reflexivity. }
  destruct HS as [o1 [e1 HS]].
  rewrite (bind_ok _ _ _ (Some (62, desc, body), EOther) _ (try_ok _ _ _ _ HS)).
  unfold bind at 1. unfold drop. cbn [stk rest off endr apos].
  destruct (autoclear_cases post o1 e1 (a + 1 + zlen desc + 2 + zlen body) k) as [o2 ->].
  unfold lift. unfold body. rewrite body_data_crlf by (auto; lia).
  exists o2, e1. f_equal. f_equal.
  rewrite !zlen_app. change (zlen [62]) with 1. change (zlen [13; 10]) with 2. lia.
Qed.

(* ---------- a stream of records with CR LF line ends *)

Definition fmtc (r : list byte * list byte) : list byte := crlf (fmt r).

Lemma crlf_concat rs : crlf (concat (map fmt rs)) = concat (map fmtc rs).
Proof. induction rs as [|r t IH]; [reflexivity|]. cbn [map concat]. now rewrite crlf_app, IH. Qed.

Lemma crlf_format_head d p : exists t, crlf (fasta_format d p) = 62 :: t.
Proof.
  unfold fasta_format. rewrite crlf_app. change (crlf [62]) with [62]. cbn [app]. eexists; reflexivity.
Qed.

Lemma stream_stops_crlf rs : stops (concat (map fmtc rs)).
Proof.
  destruct rs as [|[d p] t]; [now left|]. right. cbn [map concat].
  change (fmtc (d, p)) with (crlf (fasta_format d p)).
  destruct (crlf_format_head d p) as [x ->]. cbn [app]. eexists; reflexivity.
Qed.

Lemma scan_stream_crlf recs : forall acc o e a k fuel,
  Forall rec_ok recs -> (length recs < fuel)%nat ->
  exists s', scan_loop fuel fasta_parser acc (mkst (concat (map fmtc recs)) o e a k) =
             (Ok (rev acc ++ recs, true), s').
Proof.
  induction recs as [|r rs IH]; intros acc o e a k fuel Hok Hf; (destruct fuel as [|f]; [lia|]); cbn [scan_loop].
  - cbn [map concat]. destruct (at_end_nil o e a k) as [s' Hs].
    rewrite (bind_ok _ _ _ true _ Hs).
    eexists. unfold ret. now rewrite app_nil_r.
  - inversion Hok as [|? ? Hr Hrs]; subst. cbn [map concat].
    destruct r as [d p]. change (fmtc (d, p)) with (crlf (fasta_format d p)).
    assert (HA : exists o1 e1, at_end (mkst (crlf (fasta_format d p) ++ concat (map fmtc rs)) o e a k) =
                 (Ok false, mkst (crlf (fasta_format d p) ++ concat (map fmtc rs)) o1 e1 a k)).
    { destruct (crlf_format_head d p) as [x ->]. cbn [app]. apply at_end_gt. }
    destruct HA as [o1 [e1 HA]]. rewrite (bind_ok _ _ _ false _ HA).
    destruct (fasta_record_crlf d p (concat (map fmtc rs)) o1 e1 a k Hr (stream_stops_crlf rs)) as [o' [e' HR]].
    rewrite (bind_ok _ _ _ (Some (d, p), EOther) _ (try_ok _ _ _ _ HR)).
    destruct (IH ((d, p) :: acc) o' e' (a + zlen (crlf (fasta_format d p))) k f Hrs ltac:(cbn [length] in Hf; lia)) as [s' Hs'].
    exists s'. rewrite Hs'. cbn [rev]. now rewrite <- app_assoc.
Qed.

Lemma stream_length_crlf recs : (length recs <= length (concat (map fmtc recs)))%nat.
Proof.
  induction recs as [|[d p] t IH]; [cbn; lia|]. cbn [map concat length]. rewrite app_length.
  change (fmtc (d, p)) with (crlf (fasta_format d p)).
  destruct (crlf_format_head d p) as [x ->]. cbn [length]. lia.
Qed.

(* N written records, every LF of the stream turned into CR LF: the same N
   records in order, clean end *)
Theorem fasta_stream_crlf recs : Forall rec_ok recs ->
  scan_fasta (crlf (concat (map fmt recs))) = Ok (recs, true).
Proof.
  intros H. rewrite crlf_concat. unfold scan_fasta, st_of.
  destruct (scan_stream_crlf recs [] 0 None 0 [] (S (length (concat (map fmtc recs)))) H) as [s' Hs].
  - pose proof (stream_length_crlf recs). lia.
  - rewrite Hs. reflexivity.
Qed.
