(* FastaCRLF.v — C17 with CRLF line ends, the residue half: the reader's
   newline removal (bytes.Split on LF, TrimSuffix CR, Join) undoes the
   70-column wrapping also after every LF of the written text became CR LF. *)
From GTS Require Import Base Pars Fasta BaseLemmas ParsLemmas FastaProofs.
Open Scope Z_scope.

(* bytes.ReplaceAll(text, "\n", "\r\n") *)
Definition crlf (l : list byte) : list byte :=
  flat_map (fun c => if c =? 10 then [13; 10] else [c]) l.

Lemma trim_cr_snoc l : trim_cr (l ++ [13]) = l.
Proof. unfold trim_cr. rewrite rev_app_distr. cbn [rev app]. apply rev_involutive. Qed.

Lemma no_byte_rev c l : no_byte c l -> no_byte c (rev l).
Proof. unfold no_byte. rewrite !Forall_forall. intros H x Hx. apply H. now apply in_rev. Qed.

(* line by line: the CR LF text gives the lines of the LF text *)
Lemma split_crlf t : forall cur, no_byte 13 t -> no_byte 13 cur ->
  map trim_cr (split_nl (crlf t) cur) = map trim_cr (split_nl t cur).
Proof.
  induction t as [|c t IH]; intros cur Ht Hc; [reflexivity|].
  inversion Ht as [|? ? Hc13 Ht']; subst. cbn [crlf flat_map]. fold (crlf t).
  cbn [split_nl]. destruct (c =? 10) eqn:E.
  - cbn [app split_nl]. change (13 =? 10) with false. change (10 =? 10) with true. cbv iota.
    cbn [map rev]. rewrite trim_cr_snoc, (trim_cr_no13 (rev cur)) by now apply no_byte_rev.
    f_equal. apply IH; [assumption|constructor].
  - cbn [app split_nl]. rewrite E. apply IH; [assumption|]. now constructor.
Qed.

Lemma wrap_no13 fuel : forall data n, no_byte 13 data -> no_byte 13 (wrap_force fuel data n).
Proof.
  induction fuel as [|f IH]; intros data n H; [exact H|].
  cbn [wrap_force]. destruct (Nat.ltb n (length data)); [|exact H].
  apply Forall_app. split; [now apply Forall_firstn'|].
  apply Forall_app. split; [repeat constructor; discriminate|].
  apply IH. now apply Forall_skipn'.
Qed.

Theorem body_data_crlf fuel data : (length data <= fuel)%nat -> no_byte 10 data -> no_byte 13 data ->
  fasta_body_data (crlf (wrap_force fuel data 70 ++ [10])) = data.
Proof.
  intros Hf H10 H13. unfold fasta_body_data. rewrite split_crlf.
  - now apply (body_data fuel data).
  - apply Forall_app. split; [now apply wrap_no13|repeat constructor; discriminate].
  - constructor.
Qed.
