(* Extraction of the executable model to OCaml for the correspondence check.
   ExtrOcamlBasic only: bool/option/unit/list/prod/sumbool map to OCaml
   natives; nat, positive, N, Z stay the extracted inductives. *)
Require Extraction.
Require Import ExtrOcamlBasic.
From GTS Require Import Base Arith Tables Pars Origin Loc Seq Region Nuc Cache Fasta LocParse ModParse Select Locator Repair GoSlice CacheCLI Plans Insdc GenBank.
Extraction Blacklist String List Nat.
Extraction "model.ml"
  go_toOriginLength go_fromOriginLength go_Abs go_Compare go_Min go_Max
  go_rangeCompare go_rangeWithin go_rangeOverlap go_isLeapYear
  new_origin origin_bytes origin_len validate_origin slow_origin_parser
  origin_block_parser run st_of
  shift expand reverse normalize join order complement show loc_less loc_within
  loc_overlap loc_region den region_den check_strand as_complete loc_len
  fs_insert seq_insert seq_embed seq_delete seq_erase seq_slice seq_rotate
  seq_reverse seq_complement seq_transcribe seq_concat locate region_complement
  region_resize region_len region_head region_tail mod_apply minimize invert_linear
  invert_circular flatten_region invert_segments
  complement_bytes transcribe_bytes match_segments search_segments iupac_mask compl_mask open_entry_tab fasta_format gb_to_fasta scan_fasta wrap_force as_location try_location
  selector feval feature_filter shift_selector frag_ok frag_match repair merge_fragments alias_bytes alias_table entry_counts
  plan_delete plan_insert plan_rotate plan_split plan_extract
  default_registry scan_genbank auto_scan gb_show as_date table_parser wrap_space flatfile_split itoa
  date_show table_show qualifier_parser refs_slice ref_info_parser
  as_modifier mod_show locate_string.
