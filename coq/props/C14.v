(* C14 — Caching is transparent: cached runs equal uncached runs.
   cli_table is REGENERATED from /repo/cmd/gts/*.go on every run: for every
   subcommand that calls TryCache, every declared option/positional with a flag
   saying whether it reaches the encodePayload literal by def-use closure
   (through derived variables such as filetype, comma, guestSum, loc.String()). *)
From GTS Require Import Base Cli CacheCLI CacheCLIProofs.
Open Scope Z_scope.

(* every declared option is part of the cache key, or is neutral (--no-cache,
   the destination of -o beyond the file type it implies, the primary input
   which is hashed as the root digest) *)
Theorem C14_all_options_keyed :
  forallb (fun cmd => forallb (fun '(_, keyed, neutral) => keyed || neutral) (snd cmd)) cli_table = true.
Proof. vm_compute. reflexivity. Qed.
Print Assumptions C14_all_options_keyed.

(* the 19 cached subcommands are all there *)
Theorem C14_nineteen_cached_commands : length cli_table = 19%nat.
Proof. vm_compute. reflexivity. Qed.
Print Assumptions C14_nineteen_cached_commands.

(* if every option that changes the output is keyed, then for EVERY history of
   invocations over a shared cache directory (cold, warm, interleaved with
   other commands and inputs, stdout or -o) every cached run returns the
   output and status of the uncached run -- or two distinct inputs / payloads
   with the same digest occurred *)
Theorem C14_transparent : forall (Opt Inp Key Outp : Type)
  (f : Opt -> Inp -> Outp * bool) (key : Opt -> Key) (hin : Inp -> Z) (hkey : Key -> Z),
  (forall o o' i, key o = key o' -> f o i = f o' i) ->
  (forall i i' : Inp, {i = i'} + {i <> i'}) -> (forall k k' : Key, {k = k'} + {k <> k'}) ->
  forall h c, inv Opt Inp Key Outp f key hin hkey c ->
  (Forall2 (fun r x => let '(o, i, _) := x in r = f o i)
           (fst (run_history Opt Inp Key Outp f key hin hkey c h)) h
   \/ collision Inp Key hin hkey)
  /\ inv Opt Inp Key Outp f key hin hkey (snd (run_history Opt Inp Key Outp f key hin hkey c h)).
Proof. exact transparent. Qed.
Print Assumptions C14_transparent.

Theorem C14_cold_cache : forall (Opt Inp Key Outp : Type)
  (f : Opt -> Inp -> Outp * bool) (key : Opt -> Key) (hin : Inp -> Z) (hkey : Key -> Z),
  inv Opt Inp Key Outp f key hin hkey [].
Proof. exact cold_cache_inv. Qed.

(* a run that failed does not leave an entry that makes a later identical run succeed *)
Theorem C14_failed_run_leaves_no_entry : forall (Opt Inp Key Outp : Type)
  (f : Opt -> Inp -> Outp * bool) (key : Opt -> Key) (hin : Inp -> Z) (hkey : Key -> Z) c o i tf out,
  lookup Outp c (hin i, hkey (key o)) = None -> f o i = (out, false) ->
  snd (run_cached Opt Inp Key Outp f key hin hkey c o i tf) = c.
Proof. exact failed_run_leaves_no_entry. Qed.
Print Assumptions C14_failed_run_leaves_no_entry.

Example C14_example :
  entry_counts [(0, 0, true, false); (0, 0, true, false); (0, 1, false, false); (0, 1, false, false); (0, 0, true, true)]
  = [1; 1; 1; 1; 0].
Proof. vm_compute. reflexivity. Qed.
