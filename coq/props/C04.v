(* C04 — Rotate is a pure change of origin on circular sequences. *)
From GTS Require Import Base Arith Loc Seq BaseLemmas LocProofs EditProofs SeqProofs.
Open Scope Z_scope.

(* residues: the rotated sequence is p[m:] ++ p[:m] with m = L - n mod L, for
   every integer n (any sign, any magnitude) *)
Theorem C04_bytes : forall p n, 0 < zlen p ->
  let m := Z.to_nat (zlen p - n mod zlen p) in
  rotate_bytes p n = Ok (skipn m p ++ firstn m p).
Proof. exact rotate_bytes_spec. Qed.
Print Assumptions C04_bytes.

(* ... i.e. residue k moves to position (k + n) mod L and nothing else *)
Theorem C04_residue_moves : forall (p : list byte) n k d, 0 < zlen p -> 0 <= k < zlen p ->
  let L := zlen p in
  let m := Z.to_nat (L - n mod L) in
  nth (Z.to_nat ((k + n) mod L)) (skipn m p ++ firstn m p) d = nth (Z.to_nat k) p d.
Proof. exact nth_rotate. Qed.
Print Assumptions C04_residue_moves.

Example C04_example : rotate_bytes [97; 98; 99; 100; 101] (- 7) = Ok [99; 100; 101; 97; 98].
Proof. vm_compute. reflexivity. Qed.
