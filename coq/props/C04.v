(* C04 — Rotate is a pure change of origin on circular sequences. *)
From Coq Require Import Permutation.
From GTS Require Import Base Arith Loc Seq BaseLemmas LocProofs EditProofs SeqProofs RotateProofs JoinDen JoinLift RotateJoin.
Open Scope Z_scope.

(* residues: the rotated sequence is p[m:] ++ p[:m] with m = L - n mod L, for
   every integer n (any sign, any magnitude) *)
Theorem C04_bytes : forall p n, 0 < zlen p ->
  let m := Z.to_nat (zlen p - n mod zlen p) in
  rotate_bytes p n = Ok (skipn m p ++ firstn m p).
Proof. exact rotate_bytes_spec. Qed.
Print Assumptions C04_bytes.

(* ... i.e. residue k moves to position (k + n) mod L and nothing else *)
Theorem C04_residue_moves : forall (p : list byte) n k d, 0 < zlen p -> 0 <= k < zlen p ->
  let L := zlen p in
  let m := Z.to_nat (L - n mod L) in
  nth (Z.to_nat ((k + n) mod L)) (skipn m p ++ firstn m p) d = nth (Z.to_nat k) p d.
Proof. exact nth_rotate. Qed.
Print Assumptions C04_residue_moves.

(* Features.  rot_ok: the location is built from between-sites, points,
   (partial) ranges shorter than L, ambiguous spans that do not cross the new
   origin, order(...) and complement(...) nested to any depth, coordinates
   >= 0.  For EVERY feature table of such features, any L >= 1 and any integer
   n: Rotate succeeds, the residues are re-spliced, and the output table is a
   permutation of the input table in which every feature keeps key and
   qualifiers and denotes exactly its former residues, each moved to
   (x + n) mod L, in the same order and on the same strand.
   PARTIAL: join(...) in the INPUT location (K1 makes the statement false for
   some joins) is decided by the correspondence and the oracle. *)
Theorem C04_features_partial : forall s n, let L := zlen (residues s) in 0 < L ->
  Forall (rot_ok n L) (feats s) ->
  exists gg ls,
    seq_rotate s n = Ok (mkseq gg (skipn (Z.to_nat (L - n mod L)) (residues s) ++ firstn (Z.to_nat (L - n mod L)) (residues s))) /\
    Forall2 (fun f l => den l = map (onpos (fun x => (x + n) mod L)) (den (floc f))) (feats s) ls /\
    Permutation gg (relocate (feats s) ls).
Proof. exact seq_rotate_features. Qed.
Print Assumptions C04_features_partial.

(* ... and all coordinates of the result lie in [0,L] *)
Theorem C04_coordinates_partial : forall n L, 0 <= n < L -> forall l,
  jfree l = true -> wf_all (awf n L) l = true ->
  forall l', rot_loc n L l = Ok l' -> cin L l' = true.
Proof. exact rotate_cin. Qed.
Print Assumptions C04_coordinates_partial.

(* a range that now spans the origin is written as a join reading across it,
   the 5' marker on the part before the origin and the 3' marker on the part
   after it; one that does not is a single range with both markers *)
Theorem C04_range_across_origin : forall n L s e p5 p3, 0 <= n < L -> 0 <= s < e -> e - s < L ->
  (s + n) / L <> (e + n - 1) / L ->
  rot_loc n L (Ranged s e p5 p3) =
  Ok (Joined [Ranged ((s + n) mod L) L p5 false; Ranged 0 ((e + n - 1) mod L + 1) false p3]).
Proof. exact rot_range_across. Qed.
Print Assumptions C04_range_across_origin.

Theorem C04_range_inside : forall n L s e p5 p3, 0 <= n < L -> 0 <= s < e -> e - s < L ->
  (s + n) / L = (e + n - 1) / L ->
  rot_loc n L (Ranged s e p5 p3) = Ok (Ranged ((s + n) mod L) ((e + n - 1) mod L + 1) p5 p3).
Proof. exact rot_range_inside. Qed.
Print Assumptions C04_range_inside.

(* a full-length feature stays full-length, markers kept *)
Theorem C04_full_length : forall n L p5 p3, 0 <= n < L ->
  rot_loc n L (Ranged 0 L p5 p3) = Ok (Ranged 0 L p5 p3).
Proof. exact rot_full_length. Qed.
Print Assumptions C04_full_length.

(* positions compose additively; a multiple of L is the identity *)
Theorem C04_positions_additive : forall L a b x, ((x + a) mod L + b) mod L = (x + (a + b)) mod L.
Proof. exact rot_pos_additive. Qed.
Theorem C04_positions_multiple : forall L k x, 0 < L -> 0 <= x < L -> (x + k * L) mod L = x.
Proof. exact rot_pos_multiple. Qed.

(* the hypotheses are met by a reverse-strand partial range beside an ordered
   pair and an ambiguous span, rotated so that the range crosses the origin *)
Example C04_hypotheses_met :
  let f1 := mkfeat [103] (Complemented (Ranged 6 9 true false)) [] in
  let f2 := mkfeat [104] (Ordered [Point 1; Ambiguous 2 4]) [] in
  rot_ok 3 10 f1 /\ rot_ok 3 10 f2 /\
  rot_loc 3 10 (floc f1) = Ok (Complemented (Joined [Ranged 9 10 true false; Ranged 0 2 false false])) /\
  rot_loc 3 10 (floc f2) = Ok (Ordered [Point 4; Ambiguous 5 7]).
Proof. vm_compute. repeat split; reflexivity. Qed.

(* join(...) in the input.  Expand(0,n) and Normalize(L) each re-join the parts
   of a join, and Join reduces what it is given, so for joins the statement is
   "the same residues in the same order and strand, up to adjacent duplicates"
   (deq; C06 sanctions exactly that reduction) and it holds whenever the images
   of the leaves are free of the K1 shapes after each of the two steps --
   rot_okb, a computable condition; for K1 shapes the statement is false
   (known finding K1) and the correspondence decides.  Same conclusion for a
   whole record whose features are join-free (rot_ok) or satisfy rot_okb. *)
Theorem C04_location_joins_partial : forall n L, 0 <= n < L -> forall l, rot_okb n L l = true ->
  exists l', rot_loc n L l = Ok l' /\ deq (den l') (map (onpos (fun x => (x + n) mod L)) (den l)).
Proof. exact rotate_den_all. Qed.
Print Assumptions C04_location_joins_partial.

Theorem C04_features_joins_partial : forall s n, let L := zlen (residues s) in 0 < L ->
  Forall (rot_ok2 n L) (feats s) ->
  exists gg ls,
    seq_rotate s n = Ok (mkseq gg (skipn (Z.to_nat (L - n mod L)) (residues s) ++ firstn (Z.to_nat (L - n mod L)) (residues s))) /\
    Forall2 (fun f l => deq (den l) (map (onpos (fun x => (x + n) mod L)) (den (floc f)))) (feats s) ls /\
    Permutation gg (relocate (feats s) ls).
Proof. exact seq_rotate_features_joins. Qed.
Print Assumptions C04_features_joins_partial.

(* a spliced reverse-strand CDS whose middle exon lands across the new origin:
   the side conditions hold and the exon is written as two parts *)
Example C04_joins_hypotheses_met :
  let l := Complemented (Joined [Ranged 1 3 true false; Ranged 5 8 false false; Ranged 9 10 false true]) in
  rot_okb 4 10 l = true /\
  rot_loc 4 10 l = Ok (Complemented (Joined [Ranged 5 7 true false; Ranged 9 10 false false; Ranged 0 2 false false; Ranged 3 4 false true])).
Proof. vm_compute. split; reflexivity. Qed.

(* a sequence without residues is returned as it is, whatever the amount
   (before the fix b690083 the code divided by zero here, and every theorem
   above carries 0 < L) *)
Theorem C04_empty_sequence : forall ff n, seq_rotate (mkseq ff []) n = Ok (mkseq ff []).
Proof. intros ff n. reflexivity. Qed.

Example C04_example : rotate_bytes [97; 98; 99; 100; 101] (- 7) = Ok [99; 100; 101; 97; 98].
Proof. vm_compute. reflexivity. Qed.
