(* C05 — Reverse mirrors coordinates (parts in mirrored order, none lost). *)
From GTS Require Import Base Arith Loc Seq BaseLemmas LocProofs EditProofs SeqProofs JoinDen JoinLift.
Open Scope Z_scope.

(* den (reverse l L) = rev (map (mirror L) (den l)): residue x is denoted
   before iff residue L-1-x is denoted after, parts in mirrored order, every
   arity.  PARTIAL: no join(...) in the input (order(...) of every arity is
   covered: the proof goes through the reversal of the part list). *)
Theorem C05_reverse_den_partial : forall L l,
  jfree l = true -> ord_ok l = true -> wf_all range_wf l = true ->
  exists l', reverse l L = Ok l' /\ den l' = rev_den L (den l) /\ ord_ok l' = true.
Proof. exact reverse_den_jfree. Qed.
Print Assumptions C05_reverse_den_partial.

(* the same statement for EVERY location (joins of every arity included), up to
   adjacent duplicates, whenever the mirrored leaves are k1-free (see C02) *)
Theorem C05_reverse_den_joins : forall L l, wf_all range_wf l = true ->
  k1_after (fun x => reverse x L) l ->
  forall l', reverse l L = Ok l' -> deq (den l') (rev_den L (den l)).
Proof. exact reverse_den_all. Qed.
Print Assumptions C05_reverse_den_joins.

Example C05_joins_example :
  let l := Joined [Ranged 0 2 true false; Point 2; Complemented (Joined [Ranged 4 5 false false; Ranged 6 8 false true])] in
  wf_all range_wf l = true /\ k1_afterb (fun x => reverse x 8) l = true /\
  reverse l 8 = Ok (Joined [Complemented (Joined [Ranged 0 2 true false; Ranged 3 4 false false]); Point 5; Ranged 6 8 false true]).
Proof. vm_compute. repeat split; reflexivity. Qed.

(* Reverse is an involution on residues *)
Theorem C05_reverse_bytes_involution : forall s, feats s = [] ->
  (r <- seq_reverse s ;; r' <- seq_reverse r ;; Ok (residues r')) = Ok (residues s).
Proof. exact reverse_bytes_involution. Qed.
Print Assumptions C05_reverse_bytes_involution.

Example C05_example :
  let l := Ordered [Ranged 0 2 true false; Point 3; Complemented (Ranged 5 7 false true)] in
  jfree l = true /\ ord_ok l = true /\ wf_all range_wf l = true /\
  reverse l 8 = Ok (Ordered [Complemented (Ranged 1 3 true false); Point 4; Ranged 6 8 false true]).
Proof. vm_compute. repeat split; reflexivity. Qed.
