(* C05 — Reverse mirrors coordinates (parts in mirrored order, none lost). *)
From GTS Require Import Base Arith Loc Seq BaseLemmas LocProofs EditProofs SeqProofs JoinDen JoinLift RotateProofs RotateJoin InsertSeq Region RegionProofs ResizeProofs RevCompProofs PartialProofs ReverseInvol.
From Coq Require Import Permutation.
Open Scope Z_scope.

(* den (reverse l L) = rev (map (mirror L) (den l)): residue x is denoted
   before iff residue L-1-x is denoted after, parts in mirrored order, every
   arity.  PARTIAL: no join(...) in the input (order(...) of every arity is
   covered: the proof goes through the reversal of the part list). *)
Theorem C05_reverse_den_partial : forall L l,
  jfree l = true -> ord_ok l = true -> wf_all range_wf l = true ->
  exists l', reverse l L = Ok l' /\ den l' = rev_den L (den l) /\ ord_ok l' = true.
Proof. exact reverse_den_jfree. Qed.
Print Assumptions C05_reverse_den_partial.

(* the same statement for EVERY location (joins of every arity included), up to
   adjacent duplicates, whenever the mirrored leaves are k1-free (see C02) *)
Theorem C05_reverse_den_joins : forall L l, wf_all range_wf l = true ->
  k1_after (fun x => reverse x L) l ->
  forall l', reverse l L = Ok l' -> deq (den l') (rev_den L (den l)).
Proof. exact reverse_den_all. Qed.
Print Assumptions C05_reverse_den_joins.

Example C05_joins_example :
  let l := Joined [Ranged 0 2 true false; Point 2; Complemented (Joined [Ranged 4 5 false false; Ranged 6 8 false true])] in
  wf_all range_wf l = true /\ k1_afterb (fun x => reverse x 8) l = true /\
  reverse l 8 = Ok (Joined [Complemented (Joined [Ranged 0 2 true false; Ranged 3 4 false false]); Point 5; Ranged 6 8 false true]).
Proof. vm_compute. repeat split; reflexivity. Qed.

(* mirroring twice is the identity on locations: every between-site, point,
   range (s < e, either partial marker) and ambiguous range, and the complement
   of each, comes back exactly -- coordinates and partial markers, the markers
   having swapped ends in between *)
Theorem C05_reverse_involution_contiguous : forall L l, contiguous l -> range_wf l = true ->
  exists l', reverse l L = Ok l' /\ reverse l' L = Ok l.
Proof. exact reverse_leaf_involution. Qed.
Print Assumptions C05_reverse_involution_contiguous.
Theorem C05_reverse_involution_complement : forall L l, contiguous l -> range_wf l = true ->
  exists l', reverse (Complemented l) L = Ok l' /\ reverse l' L = Ok (Complemented l).
Proof. exact reverse_complement_leaf_involution. Qed.
Print Assumptions C05_reverse_involution_complement.
Example C05_reverse_involution_example :
  reverse (Ranged 2 5 true false) 8 = Ok (Ranged 3 6 false true) /\
  reverse (Ranged 3 6 false true) 8 = Ok (Ranged 2 5 true false).
Proof. vm_compute. split; reflexivity. Qed.

(* Reverse is an involution on residues *)
Theorem C05_reverse_bytes_involution : forall s, feats s = [] ->
  (r <- seq_reverse s ;; r' <- seq_reverse r ;; Ok (residues r')) = Ok (residues s).
Proof. exact reverse_bytes_involution. Qed.
Print Assumptions C05_reverse_bytes_involution.

Example C05_example :
  let l := Ordered [Ranged 0 2 true false; Point 3; Complemented (Ranged 5 7 false true)] in
  jfree l = true /\ ord_ok l = true /\ wf_all range_wf l = true /\
  reverse l 8 = Ok (Ordered [Complemented (Ranged 1 3 true false); Point 4; Ranged 6 8 false true]).
Proof. vm_compute. repeat split; reflexivity. Qed.

(* Whole records.  Reverse of a record of length L: whenever every location is
   free of the K1 shapes after Reverse and the operation returns a location
   (rev_ok), the call succeeds, the residues are reversed, the output table is
   a permutation of the input table in which every feature occurs exactly once
   with its key and qualifiers, and every feature denotes the mirror image of
   its former residues, parts in mirrored order -- whatever its key. *)
Theorem C05_reverse_record : forall s, let L := zlen (residues s) in
  Forall (rev_ok L) (feats s) ->
  exists gg ls, seq_reverse s = Ok (mkseq gg (rev (residues s))) /\
    Forall2 (fun f l => deq (den l) (rev_den L (den (floc f)))) (feats s) ls /\
    Permutation gg (relocate (feats s) ls).
Proof. exact seq_reverse_features. Qed.
Print Assumptions C05_reverse_record.

Example C05_record_hypotheses_met :
  let s := mkseq [mkfeat [115; 111; 117; 114; 99; 101] (Joined [Ranged 5 9 true false; Ranged 0 5 false false]) [];
                  mkfeat [103] (Complemented (Joined [Ranged 1 3 true false; Ranged 4 7 false false])) []]
                 [97; 99; 103; 116; 97; 99; 103; 116; 97] in
  Forall (rev_ok 9) (feats s) /\
  seq_reverse s =
    Ok (mkseq [mkfeat [115; 111; 117; 114; 99; 101] (Joined [Ranged 4 9 false false; Ranged 0 4 false true]) [];
               mkfeat [103] (Complemented (Joined [Ranged 2 5 false false; Ranged 6 8 false true])) []]
              [97; 116; 103; 99; 97; 116; 103; 99; 97]).
Proof.
  cbv zeta. cbn [feats].
  repeat match goal with
  | |- _ /\ _ => split
  | |- Forall _ (_ :: _) => constructor
  | |- Forall _ [] => constructor
  | |- rev_ok _ _ => split; [vm_compute; reflexivity|split]
  | |- k1_after _ _ => apply k1_afterb_spec; vm_compute; reflexivity
  | |- exists _, _ => eexists; vm_compute; reflexivity
  end.
  vm_compute. reflexivity.
Qed.

(* reverse-complement preserves meaning.  rc_bytes p = the residues of the
   reverse complement of p; rd p (x, strand) = the residue read at a denoted
   position (p[x], complemented on the reverse strand; C08_locate_reads_den:
   this is what Region.Locate reads).  For every location in range whose
   Reverse is free of the K1 shapes: what the feature reads from the
   reverse-complemented record (location reversed, then complemented) is what
   it read from the original, residue by residue in the same order.  The
   residues must be fixed by complementing twice: every IUPAC letter except
   u/U (C18), as the property says. *)
Theorem C05_revcomp_extracts_the_same : forall (p : list byte) l l', let L := zlen p in
  Forall (fun b => cb (cb b) = b) p -> Forall (fun x => 0 <= fst x < L) (den l) ->
  wf_all range_wf l = true -> k1_after (fun x => reverse x L) l -> reverse l L = Ok l' ->
  deq (map (rd (rc_bytes p)) (den (complement l'))) (map (rd p) (den l)).
Proof. exact revcomp_extract. Qed.
Print Assumptions C05_revcomp_extracts_the_same.

(* ... position by position: the mirror image on the other strand *)
Theorem C05_revcomp_positions : forall L l, wf_all range_wf l = true -> k1_after (fun x => reverse x L) l ->
  forall l', reverse l L = Ok l' -> deq (den (Complemented l')) (map (rc_pos L) (den l)).
Proof. exact revcomp_den_all. Qed.
Print Assumptions C05_revcomp_positions.

Example C05_revcomp_example :
  let p := [97; 99; 103; 116; 116; 103; 99; 97; 97] in
  let l := Complemented (Joined [Ranged 1 3 true false; Ranged 4 7 false false]) in
  forallb (fun b => cb (cb b) =? b) p = true /\
  reverse l 9 = Ok (Complemented (Joined [Ranged 2 5 false false; Ranged 6 8 false true])) /\
  map (rd p) (den l) = [103; 99; 97; 99; 103] /\
  map (rd (rc_bytes p)) (den (complement (Complemented (Joined [Ranged 2 5 false false; Ranged 6 8 false true]))))
    = [103; 99; 97; 99; 103].
Proof. vm_compute. repeat split; reflexivity. Qed.

(* 5'/3' partial markers swap ends: for every location without join(...) in the
   input whose ranges are non-empty, the marker on the first end of the
   reversed location is the one that was on the last end and vice versa
   (flags: see C02).  PARTIAL: join(...) in the input by correspondence. *)
Theorem C05_reverse_swaps_markers_partial : forall L l,
  jfree l = true -> ord_ok l = true -> wf_all range_wf l = true ->
  forall l', reverse l L = Ok l' -> flags l' = (snd (flags l), fst (flags l)).
Proof. exact reverse_swaps_markers. Qed.
Print Assumptions C05_reverse_swaps_markers_partial.

Example C05_markers_example :
  let l := Ordered [Ranged 0 2 true false; Point 3; Complemented (Ranged 5 7 true false)] in
  flags l = (true, true) /\
  reverse l 8 = Ok (Ordered [Complemented (Ranged 1 3 false true); Point 4; Ranged 6 8 false true]) /\
  flags (Ordered [Complemented (Ranged 1 3 false true); Point 4; Ranged 6 8 false true]) = (true, true) /\
  flags (Ranged 0 2 true false) = (true, false) /\ reverse (Ranged 0 2 true false) 8 = Ok (Ranged 6 8 false true).
Proof. vm_compute. repeat split; reflexivity. Qed.
