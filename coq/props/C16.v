(* C16 — ORIGIN block layout is exact for every sequence length.
   Only statements; every proof is `exact <lemma>` from proofs/OriginProofs.v.
   go_toOriginLength / go_fromOriginLength are REGENERATED from
   /repo/seqio/origin.go on every run (gen/Arith.v). *)
From GTS Require Import Base Arith Pars Origin OriginProofs.
Open Scope Z_scope.

(* the residue count recovered from a block's byte length *)
Theorem C16_from_to : forall n, 0 <= n ->
  go_fromOriginLength (go_toOriginLength n) = n.
Proof. exact from_to. Qed.
Print Assumptions C16_from_to.

(* the block's byte length, for every sequence (index column stays 9 wide
   below 10^9 residues: that bound is part of the statement) *)
Theorem C16_length_formula : forall p, zlen p < 10 ^ 9 ->
  zlen (origin_layout p) = go_toOriginLength (zlen p).
Proof. exact layout_length. Qed.
Print Assumptions C16_length_formula.

(* NewOrigin fills its toOriginLength-sized buffer exactly with the layout:
   no panic, no unwritten bytes *)
Theorem C16_new_origin_is_layout : forall p, zlen p < 10 ^ 9 ->
  new_origin p = Ok (origin_layout p).
Proof. exact new_origin_layout. Qed.
Print Assumptions C16_new_origin_is_layout.

(* converting residues to a block and back is the identity (Origin.Bytes,
   the index-stepping decoder, never indexes out of range on a layout) *)
Theorem C16_roundtrip : forall p, zlen p < 10 ^ 9 - 60 ->
  origin_bytes (origin_layout p) = Ok p.
Proof. exact origin_bytes_layout. Qed.
Print Assumptions C16_roundtrip.

(* the length reported without decoding equals the decoded length *)
Theorem C16_len_without_decoding : forall p, zlen p < 10 ^ 9 ->
  origin_len (origin_layout p) = zlen p.
Proof. exact origin_len_layout. Qed.
Print Assumptions C16_len_without_decoding.

(* non-vacuity: a concrete 61-residue sequence meets every hypothesis and
   crosses a line and a group boundary *)
Example C16_example :
  let p := repeat 97 61 in
  zlen p < 10 ^ 9 - 60 /\ origin_bytes (origin_layout p) = Ok p /\
  zlen (origin_layout p) = 88.
Proof. vm_compute. repeat split; reflexivity. Qed.
