(* C08 — Resizing a region equals slicing its spliced sequence. *)
From GTS Require Import Base Arith Loc Region RegionProofs.
Open Scope Z_scope.

(* resizing commutes with strand mirroring *)
Theorem C08_mirror : forall m h t L, h <> t ->
  let '(a, b) := mod_apply m h t in mod_apply m (L - h) (L - t) = (L - a, L - b).
Proof. exact apply_mirror. Qed.
Print Assumptions C08_mirror.

(* a single forward segment and any of the five modifier forms whose bounds
   [lo,hi) stay inside it: the resized segment denotes exactly that slice of
   what the segment denotes (^ = 5' end, $ = 3' end).
   PARTIAL: multi-segment regions (the walk of Regions.Resize) and the
   complement strand are decided by the exhaustive correspondence + oracle. *)
Theorem C08_segment_resize_slice_partial : forall m h t, h <= t ->
  let '(lo, hi) := mod_bounds m (t - h) in
  0 <= lo -> hi <= t - h ->
  let '(h', t') := mod_apply m h t in
  region_den (Seg h' t') =
  firstn (Z.to_nat (hi - lo)) (skipn (Z.to_nat lo) (region_den (Seg h t))).
Proof. exact segment_resize_slice. Qed.
Print Assumptions C08_segment_resize_slice_partial.

Example C08_example :
  region_resize (Regs [Seg 3 6; Seg 9 10; Seg 13 17]) (MHeadHead 3 7)
  = Ok (Regs [Seg 6 6; Seg 9 10; Seg 13 16]) /\
  mod_bounds (MHeadTail 1 (-2)) 7 = (1, 5).
Proof. vm_compute. split; reflexivity. Qed.
