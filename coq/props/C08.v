(* C08 — Resizing a region equals slicing its spliced sequence. *)
From GTS Require Import Base Arith Loc LocParse Region Seq Select Locator RegionProofs ResizeProofs ExtendProofs ModParse ModRT LocatorProofs.
Open Scope Z_scope.

(* resizing commutes with strand mirroring *)
Theorem C08_mirror : forall m h t L, h <> t ->
  let '(a, b) := mod_apply m h t in mod_apply m (L - h) (L - t) = (L - a, L - b).
Proof. exact apply_mirror. Qed.
Print Assumptions C08_mirror.

(* a single forward segment and any of the five modifier forms whose bounds
   [lo,hi) stay inside it: the resized segment denotes exactly that slice of
   what the segment denotes (^ = 5' end, $ = 3' end).
   (kept as the base case; C08_resize_slice below is the general statement) *)
Theorem C08_segment_resize_slice_partial : forall m h t, h <= t ->
  let '(lo, hi) := mod_bounds m (t - h) in
  0 <= lo -> hi <= t - h ->
  let '(h', t') := mod_apply m h t in
  region_den (Seg h' t') =
  firstn (Z.to_nat (hi - lo)) (skipn (Z.to_nat lo) (region_den (Seg h t))).
Proof. exact segment_resize_slice. Qed.
Print Assumptions C08_segment_resize_slice_partial.

(* ANY region: segments of either orientation, nested Regions of any depth and
   any number of members (rwf: every Regions value non-empty, coordinates far
   from int overflow), and any of the five modifier forms whose bounds [lo,hi)
   stay inside the region: Region.Resize succeeds and the result denotes
   exactly the slice [lo,hi) of what the region denotes, read in the region's
   own direction; it stays inside every window the region was inside. *)
Theorem C08_resize_slice : forall r m, rwf r ->
  0 <= fst (mod_bounds m (region_len r)) -> snd (mod_bounds m (region_len r)) <= region_len r ->
  exists r', region_resize r m = Ok r' /\
    region_den r' = lslice (fst (mod_bounds m (region_len r))) (snd (mod_bounds m (region_len r))) (region_den r) /\
    (forall n, rin n r -> rin n r').
Proof. exact region_resize_slice. Qed.
Print Assumptions C08_resize_slice.

(* offsets outside extend the first/last segment outward.  eden r j is residue j
   of r continued without end in both directions.  For EVERY modifier (no
   condition on its offsets) Region.Resize succeeds and the result denotes
   exactly positions [lo,hi) of that continuation; the three theorems after it
   say what the continuation is: inside [0,len) the residues of the region
   itself (so C08_resize_slice is the special case), before 0 the first
   segment continued outward, from len on the last segment continued outward,
   each in the direction of its own strand.  A first/last segment of length 0
   counts as forward (Segment.Resize tests tail < head), and it is the first or
   last SEGMENT that is continued even when it holds no residue.
   The model computes in unbounded Z; the Go code agrees as long as no int
   overflows, i.e. offsets below 2^62 in magnitude on rwf coordinates. *)
Theorem C08_resize_any_offsets : forall r m, rwf r ->
  exists r', region_resize r m = Ok r' /\
    region_den r' = map (eden r) (zrange (fst (mod_bounds m (region_len r))) (snd (mod_bounds m (region_len r)))).
Proof. exact region_resize_ext. Qed.
Print Assumptions C08_resize_any_offsets.

Theorem C08_continuation_inside : forall r lo hi, rwf r -> 0 <= lo -> hi <= region_len r ->
  map (eden r) (zrange lo hi) = lslice lo hi (region_den r).
Proof. exact eden_inside. Qed.
Print Assumptions C08_continuation_inside.

Theorem C08_continuation_before : forall r, rwf r -> forall j, j < 0 ->
  eden r j = (let '(h, t) := first_seg r in if t <? h then (h - 1 - j, true) else (h + j, false)).
Proof. exact eden_before. Qed.
Print Assumptions C08_continuation_before.

Theorem C08_continuation_after : forall r, rwf r -> forall j, region_len r <= j ->
  eden r j = (let '(h, t) := last_seg r in
              if t <? h then (t - 1 - (j - region_len r), true) else (t + (j - region_len r), false)).
Proof. exact eden_after. Qed.
Print Assumptions C08_continuation_after.

(* a forward exon, a one-base exon and a reverse-strand exon, opened by two
   residues at the 5' end and three at the 3' end: the forward first segment
   grows downwards, the reverse last segment grows downwards too (its 3' end) *)
Example C08_outside_example :
  let r := Regs [Seg 3 6; Seg 9 10; Seg 17 13] in
  rwf r /\ mod_bounds (MHeadTail (-2) 3) (region_len r) = (-2, 11) /\
  region_resize r (MHeadTail (-2) 3) = Ok (Regs [Seg 1 6; Seg 9 10; Seg 17 10]) /\
  map (eden r) (zrange (-2) 11) =
    [(1, false); (2, false); (3, false); (4, false); (5, false); (9, false);
     (16, true); (15, true); (14, true); (13, true); (12, true); (11, true); (10, true)].
Proof. vm_compute. repeat split; try discriminate; try (intros H; discriminate H). Qed.

(* Region.Locate on a sequence without features reads exactly region_den:
   p[x] for a forward position, the complement of p[x] for a reverse one *)
Theorem C08_locate_reads_den : forall p r, rin (zlen p) r ->
  locate r (bare p) = Ok (bare (map (rd p) (region_den r))).
Proof. exact locate_bare. Qed.
Print Assumptions C08_locate_reads_den.

(* hence: the sequence extracted from the resized region is the slice [lo,hi)
   of the sequence extracted from the whole region *)
Theorem C08_extract_resized_is_slice : forall p r m, rwf r -> rin (zlen p) r ->
  0 <= fst (mod_bounds m (region_len r)) -> snd (mod_bounds m (region_len r)) <= region_len r ->
  exists r' whole, region_resize r m = Ok r' /\ locate r (bare p) = Ok (bare whole) /\
    zlen whole = region_len r /\
    locate r' (bare p) =
      Ok (bare (lslice (fst (mod_bounds m (region_len r))) (snd (mod_bounds m (region_len r))) whole)).
Proof. exact locate_resize_slice. Qed.
Print Assumptions C08_extract_resized_is_slice.

(* the hypotheses are met by a spliced CDS on the reverse strand nested beside
   a forward exon, and the walk really crosses segments *)
Example C08_hypotheses_met :
  let r := Regs [Regs [Seg 17 13; Seg 10 9; Seg 6 3]; Seg 20 24] in
  rwf r /\ rin 30 r /\ region_len r = 12 /\
  mod_bounds (MHeadTail 2 (-3)) (region_len r) = (2, 9) /\
  region_resize r (MHeadTail 2 (-3)) = Ok (Regs [Regs [Seg 15 13; Seg 10 9; Seg 6 3]; Seg 20 21]).
Proof. vm_compute. repeat split; try discriminate; try (intros H; discriminate H). Qed.

(* modifiers print and re-parse to themselves: AsModifier(m.String()) = m for
   all five forms and all offsets whose magnitude fits an int64, on the
   faithful pars model.  Cases of the proof: every alternative of
   parseModifier tried before the right one fails and hands the state back;
   when the text ends right after '^' or '$' (last offset 0) pars.Int returns
   its end-of-input error without popping, the second alternative still reads
   the anchor, and the one frame left over is harmless (okl in ParsSpec.v). *)
Theorem C08_modifier_print_parse : forall m, mod_ok m -> as_modifier (mod_show m) = Ok m.
Proof. exact as_modifier_show. Qed.
Print Assumptions C08_modifier_print_parse.

Example C08_modifier_example :
  mod_show (MHeadTail (-12) 0) = [94; 45; 49; 50; 46; 46; 36] /\
  mod_ok (MHeadTail (-12) 0) /\ as_modifier [94; 45; 49; 50; 46; 46; 36] = Ok (MHeadTail (-12) 0).
Proof. split; [reflexivity|]. split; [vm_compute; repeat split; discriminate|vm_compute; reflexivity]. Qed.

(* locators (model of AsLocator, locator.go; regexp a parameter as in C19).
   X@M denotes exactly the regions of X each resized by M, in the same order;
   @M every feature of the table; without '@' a string is read as a modifier
   (the whole sequence, resized), else as a point/range/complement location
   (itself), else as a selector (the matching features in table order); the
   printed form of every modifier is such a whole-sequence locator. *)
Theorem C08_locator_compose : forall re_ok re_match x m seq, no_at x -> x <> [] ->
  locate_string re_ok re_match (x ++ 64 :: m) seq =
  (lx <- as_locator_plain re_ok x ;; m' <- as_modifier m ;;
   rr <- locate_with re_match lx seq ;; omapM (fun r => region_resize r m') rr).
Proof. exact locator_compose. Qed.
Print Assumptions C08_locator_compose.

Theorem C08_locator_all_features : forall re_ok re_match m seq,
  locate_string re_ok re_match (64 :: m) seq =
  (m' <- as_modifier m ;; omapM (fun r => region_resize r m') (map (fun g => loc_region (floc g)) (feats seq))).
Proof. exact locator_all. Qed.

Theorem C08_locator_precedence : forall re_ok re_match s seq, no_at s ->
  locate_string re_ok re_match s seq =
  match as_modifier s with
  | Ok m => r <- region_resize (Seg 0 (zlen (residues seq))) m ;; Ok [r]
  | Panic => Panic | OutOfFuel => OutOfFuel
  | Err _ =>
    match try_location s with
    | Ok l => Ok [loc_region l]
    | Panic => Panic | OutOfFuel => OutOfFuel
    | Err _ =>
      match selector re_ok s with
      | Ok f => Ok (map (fun g => loc_region (floc g)) (feature_filter re_match f (feats seq)))
      | Panic => Panic | OutOfFuel => OutOfFuel
      | Err _ => Err EOther
      end
    end
  end.
Proof. exact locator_precedence. Qed.

Theorem C08_printed_modifier_is_whole_sequence_locator : forall re_ok re_match m seq, mod_ok m ->
  locate_string re_ok re_match (mod_show m) seq = (r <- region_resize (Seg 0 (zlen (residues seq))) m ;; Ok [r]).
Proof. exact locator_printed_modifier. Qed.
Print Assumptions C08_printed_modifier_is_whole_sequence_locator.

Example C08_example :
  region_resize (Regs [Seg 3 6; Seg 9 10; Seg 13 17]) (MHeadHead 3 7)
  = Ok (Regs [Seg 6 6; Seg 9 10; Seg 13 16]) /\
  mod_bounds (MHeadTail 1 (-2)) 7 = (1, 5).
Proof. vm_compute. split; reflexivity. Qed.
