(* C09 — Minimize and Invert partition the sequence exactly. *)
From Coq Require Import Sorting.Permutation.
From GTS Require Import Base Arith Loc Region RegionProofs MinimizeIdem CircProofs.
Open Scope Z_scope.

(* forward-oriented, strictly increasing, pairwise disjoint, non-abutting:
   wfsegs l = every segment has head <= tail and each tail < the next head *)
Theorem C09_minimize_sorted_disjoint : forall r, wfsegs (minimize r).
Proof. exact minimize_wf. Qed.
Print Assumptions C09_minimize_sorted_disjoint.

(* the union is exactly the set of residues covered by the input (any
   nesting, overlap, containment, adjacency, orientation) *)
Theorem C09_minimize_cover : forall r x, covl (minimize r) x <-> rcov r x.
Proof. exact minimize_cover. Qed.
Print Assumptions C09_minimize_cover.

(* regardless of input order, nesting and strand: only the multiset of
   orientation-normalised segments matters, and a segment and its complement
   normalise to the same thing *)
Theorem C09_order_independent : forall r1 r2,
  Permutation (flatten_region r1) (flatten_region r2) -> minimize r1 = minimize r2.
Proof. exact minimize_order_independent. Qed.
Print Assumptions C09_order_independent.

(* Minimize is a normal form: a list that is already forward, strictly
   increasing and non-abutting is returned unchanged, so minimizing the result
   again (as_region l = the Regions value holding the segments of l) gives the
   same result *)
Theorem C09_minimize_normal_form : forall l, wfsegs l -> minimize (as_region l) = l.
Proof. exact minimize_normal_form. Qed.
Print Assumptions C09_minimize_normal_form.
Theorem C09_minimize_idempotent : forall r, minimize (as_region (minimize r)) = minimize r.
Proof. exact minimize_idempotent. Qed.
Print Assumptions C09_minimize_idempotent.

Theorem C09_strand_independent : forall h t, flatten_region (Seg h t) = flatten_region (Seg t h).
Proof. exact flatten_orientation. Qed.
Print Assumptions C09_strand_independent.

(* the linear inversion within [0,n): non-empty segments which together with
   the minimized segments cover every position of [0,n) exactly once *)
Theorem C09_invert_partition : forall r n, 0 <= n -> within n r ->
  let inv := invert_segments (minimize r) 0 n in
  Forall (fun u => fst u < snd u) inv /\
  forall x, 0 <= x < n -> countc (minimize r ++ inv) x = 1%nat.
Proof. exact invert_linear_partition. Qed.
Print Assumptions C09_invert_partition.

(* the circular inversion: for every region inside [0,n) -- also one that
   covers nothing: before the fix 09ea791 the code panicked there, and this
   theorem carried the hypothesis minimize r <> [] -- InvertCircular succeeds and the regions it returns cover, together
   with the minimized input, every position of [0,n) exactly once (rcountL counts
   the segments of nested regions); when the input touches neither end of the
   sequence the gap across the origin is a single region reading the last gap
   and then the first *)
Theorem C09_invert_circular_partition : forall r n, 0 <= n -> within n r ->
  exists out, invert_circular r n = Ok out /\
    forall x, 0 <= x < n -> (countc (minimize r) x + rcountL out x = 1)%nat.
Proof. exact invert_circular_partition. Qed.
Print Assumptions C09_invert_circular_partition.

Theorem C09_wrapped_region_reads_across_origin : forall a n b, a <= n -> 0 <= b ->
  region_den (Regs [Seg a n; Seg 0 b]) = map (fun x => (x, false)) (zrange a n ++ zrange 0 b).
Proof. exact wrapped_den. Qed.

Example C09_circular_example :
  invert_circular (Regs [Seg 5 3; Seg 6 8]) 10 = Ok [Regs [Seg 8 10; Seg 0 3]; Seg 5 6].
Proof. vm_compute. reflexivity. Qed.

Example C09_example :
  let r := Regs [Seg 7 5; Regs [Seg 1 3; Seg 2 4]; Seg 4 4] in
  within 9 r /\ minimize r = [(1, 4); (5, 7)] /\
  invert_segments (minimize r) 0 9 = [(0, 1); (4, 5); (7, 9)].
Proof. vm_compute. repeat split; repeat constructor; discriminate. Qed.
