(* C11 — Library operations are pure: arguments are never modified.
   GoSlice.v models Go slices over a heap of backing arrays (append in place
   iff the capacity suffices).  `agree h h'` says every array that existed
   before the call is unchanged afterwards -- hence every view the caller holds
   (host, guest, enclosing buffers, shared tables, spare capacity included)
   reads the same.  The theorems hold for EVERY heap and EVERY pair of argument
   slices (sub-slices of one buffer, overlapping, with or without spare
   capacity). *)
From GTS Require Import Base GoSlice SliceProofs.
Open Scope nat_scope.

Theorem C11_insert_frame : forall (A : Type) (d : A) (h : heap) (p : slc) pos (q : slc),
  wf_slc h p -> wf_slc h q -> pos <= slen p ->
  let '(h', r) := ins_new d h p pos q in
  agree h h' /\ view h' r = firstn pos (view h p) ++ view h q ++ skipn pos (view h p).
Proof. exact @ins_new_frame. Qed.
Print Assumptions C11_insert_frame.

Theorem C11_rotate_frame : forall (A : Type) (d : A) (h : heap) (q : slc) m,
  wf_slc h q -> m <= slen q ->
  let '(h', r) := rot_new d h q m in
  agree h h' /\ view h' r = skipn m (view h q) ++ firstn m (view h q).
Proof. exact @rot_new_frame. Qed.
Print Assumptions C11_rotate_frame.

Theorem C11_concat_frame : forall (A : Type) (h : heap) (a b : @slc),
  @wf_slc A h a -> wf_slc h b ->
  let '(h', r) := cat_new h a b in
  agree h h' /\ view h' r = view h a ++ view h b.
Proof. exact @cat_new_frame. Qed.
Print Assumptions C11_concat_frame.

Theorem C11_feature_insert_frame : forall (A : Type) (d : A) (h : heap) (ff : slc) i (f : A),
  agree h (fst (fsins_new d h ff i f)).
Proof. exact @fsins_new_frame. Qed.
Print Assumptions C11_feature_insert_frame.

Theorem C11_delete_table_frame : forall (A : Type) (d : A) (h : heap) (tab : slc) (g : A -> A),
  agree h (fst (del_table_new d h tab g)).
Proof. exact @del_table_new_frame. Qed.
Print Assumptions C11_delete_table_frame.

(* the storage lines as they were BEFORE fix ca15676, on a buffer with spare
   capacity: each overwrites bytes the caller still holds *)
Theorem C11_old_code_refuted :
  let buf := [0; 0; 10; 11; 12; 13; 20; 21; 99; 99]%Z in
  let host := mkslc 0 2 4 8 in let guest := mkslc 0 6 2 4 in
  array (fst (ins_old [buf] host 2 guest)) 0 <> buf /\
  array (fst (rot_old [buf] host 2)) 0 <> buf /\
  array (fst (cat_old [buf] (mkslc 0 2 4 8) (mkslc 0 8 2 2))) 0 <> buf /\
  array (fst (fsins_old (-1)%Z [buf] (mkslc 0 2 4 8) 1 77%Z)) 0 <> buf /\
  array (fst (del_table_old [buf] host (Z.add 1))) 0 <> buf.
Proof. vm_compute. repeat split; discriminate. Qed.
Print Assumptions C11_old_code_refuted.

(* non-vacuity: host and guest adjacent in one buffer, both with spare capacity *)
Example C11_example :
  let buf := [0; 0; 10; 11; 12; 13; 20; 21; 99; 99]%Z in
  let host := mkslc 0 2 4 8 in let guest := mkslc 0 6 2 4 in
  wf_slc [buf] host /\ wf_slc [buf] guest /\
  let '(h', r) := ins_new 0%Z [buf] host 2 guest in
  array h' 0 = buf /\ view h' r = [10; 11; 20; 21; 12; 13]%Z.
Proof. vm_compute. repeat split; lia. Qed.
