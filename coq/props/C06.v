(* C06 — Location text round-trips; join reduction never changes the denoted
   bases.  The parser model (LocParse.v) is the faithful, leaky-stack
   transliteration; it agrees with gts.AsLocation on every string of up to 4
   (thorough 5) symbols of the location alphabet. *)
From GTS Require Import Base Arith Pars Loc LocParse BaseLemmas LocProofs.
Open Scope Z_scope.

(* order(...) flattens and never changes the denoted residues or their order *)
Theorem C06_order_den : forall ls r, order ls = Ok r -> den r = flat_map den ls.
Proof. exact order_ok_den. Qed.
Print Assumptions C06_order_den.

(* merging abutting ranges / keeping gapped ranges never changes the bases *)
Theorem C06_join_ranges_gap : forall vs ve a b us ue c d, ve <> us ->
  join [Ranged vs ve a b; Ranged us ue c d] = Ok (Joined [Ranged vs ve a b; Ranged us ue c d]).
Proof. exact join_two_ranges. Qed.
Print Assumptions C06_join_ranges_gap.

Theorem C06_join_ranges_abut : forall vs m a b ue c d,
  join [Ranged vs m a b; Ranged m ue c d] = Ok (Ranged vs ue a d).
Proof. exact join_two_ranges_abut. Qed.
Print Assumptions C06_join_ranges_abut.

(* PARTIAL: the general statement
     join ls = Ok j -> k1_free ls -> dedup (den j) = dedup (flat_map den ls)
   and the print/parse round trip for every location are decided by the
   correspondence and the oracle; the two known findings are exhibited: *)

(* K1 (pinned by TestLocationReduction): a point just past a range is dropped *)
Theorem C06_join_refuted_range_point :
  join [Ranged 3 6 false false; Point 6] = Ok (Ranged 3 6 false false) /\
  den (Ranged 3 6 false false) <> den (Ranged 3 6 false false) ++ den (Point 6).
Proof. split; [vm_compute; reflexivity | vm_compute; discriminate]. Qed.
Print Assumptions C06_join_refuted_range_point.

(* K4: Join is not idempotent around an absorbed between-site, so the value
   join(5,5) does not parse back to itself *)
Theorem C06_join_not_idempotent_refuted :
  join [Point 4; Between 4; Point 4] = Ok (Joined [Point 4; Point 4]) /\
  as_location (show (Joined [Point 4; Point 4])) = Ok (Point 4).
Proof. split; vm_compute; reflexivity. Qed.
Print Assumptions C06_join_not_idempotent_refuted.

(* the leaky-stack behaviour the model reproduces (real results of AsLocation) *)
Example C06_leaks :
  as_location [106;111;105;110;40;49;94;51;44;53;41] = Ok (Point 0)            (* join(1^3,5) *)
  /\ as_location [49;46;46;53;103] = Ok (Ranged 0 5 false false)                (* 1..5g *)
  /\ as_location [53;46;46;51] = Ok (Ranged 4 3 false false).                   (* 5..3 *)
Proof. vm_compute. repeat split; reflexivity. Qed.

(* print -> parse on a concrete nested value *)
Example C06_example :
  let l := Complemented (Joined [Ranged 2 6 true false; Ordered [Point 8; Between 9]; Ambiguous 11 14]) in
  as_location (show l) = Ok l.
Proof. vm_compute. reflexivity. Qed.
