(* C06 — Location text round-trips; join reduction never changes the denoted
   bases.  The parser model (LocParse.v) is the faithful, leaky-stack
   transliteration; it agrees with gts.AsLocation on every string of up to 4
   (thorough 5) symbols of the location alphabet. *)
From GTS Require Import Base Arith Pars Loc LocParse BaseLemmas LocProofs JoinDen.
Open Scope Z_scope.

(* order(...) flattens and never changes the denoted residues or their order *)
Theorem C06_order_den : forall ls r, order ls = Ok r -> den r = flat_map den ls.
Proof. exact order_ok_den. Qed.
Print Assumptions C06_order_den.

(* merging abutting ranges / keeping gapped ranges never changes the bases *)
Theorem C06_join_ranges_gap : forall vs ve a b us ue c d, ve <> us ->
  join [Ranged vs ve a b; Ranged us ue c d] = Ok (Joined [Ranged vs ve a b; Ranged us ue c d]).
Proof. exact join_two_ranges. Qed.
Print Assumptions C06_join_ranges_gap.

Theorem C06_join_ranges_abut : forall vs m a b ue c d,
  join [Ranged vs m a b; Ranged m ue c d] = Ok (Ranged vs ue a d).
Proof. exact join_two_ranges_abut. Qed.
Print Assumptions C06_join_ranges_abut.

(* The reductions applied when parts are joined (dropping duplicates, merging
   abutting ranges, absorbing zero-length sites, re-joining complement pairs in
   reverse order, flattening nested joins) never change the ordered, stranded
   list of residues the location denotes, up to dropping adjacent duplicates
   (deq; equivalently the same canonical form dd and the same set) — for EVERY
   list of locations of every kind and nesting in which every range is
   non-empty and no point coordinate equals the end coordinate of a range
   (k1_free).  Without k1_free the statement is false of the code: K1 below. *)
Theorem C06_join_keeps_residues : forall locs j,
  k1_free locs -> forallb rokb locs = true -> join locs = Ok j ->
  deq (den j) (flat_map den locs).
Proof. exact join_den. Qed.
Print Assumptions C06_join_keeps_residues.

Theorem C06_join_keeps_residues_canonical : forall locs j,
  k1_free locs -> forallb rokb locs = true -> join locs = Ok j ->
  dd pos_eqb (den j) = dd pos_eqb (flat_map den locs) /\
  (forall x, In x (den j) <-> In x (flat_map den locs)).
Proof. exact join_den_dd. Qed.
Print Assumptions C06_join_keeps_residues_canonical.

(* the hypotheses are met by a list on which every reduction fires *)
Example C06_join_example :
  let locs := [Ranged 0 3 false true; Ranged 3 6 true false; Between 6; Point 8; Point 8;
               Joined [Between 9; Ranged 9 12 false false];
               Complemented (Ranged 20 24 true false); Complemented (Ranged 16 20 false true)] in
  forallb rokb locs = true /\
  join locs = Ok (Joined [Ranged 0 6 false false; Point 8; Ranged 9 12 false false;
                          Complemented (Ranged 16 24 false false)]) /\
  forallb (fun e => forallb (fun p => negb (e =? p)) (flat_map pts locs)) (flat_map ends locs) = true.
Proof. vm_compute. repeat split; reflexivity. Qed.

(* K1 (pinned by TestLocationReduction): a point just past a range is dropped *)
Theorem C06_join_refuted_range_point :
  join [Ranged 3 6 false false; Point 6] = Ok (Ranged 3 6 false false) /\
  den (Ranged 3 6 false false) <> den (Ranged 3 6 false false) ++ den (Point 6).
Proof. split; [vm_compute; reflexivity | vm_compute; discriminate]. Qed.
Print Assumptions C06_join_refuted_range_point.

(* K4: Join is not idempotent around an absorbed between-site, so the value
   join(5,5) does not parse back to itself *)
Theorem C06_join_not_idempotent_refuted :
  join [Point 4; Between 4; Point 4] = Ok (Joined [Point 4; Point 4]) /\
  as_location (show (Joined [Point 4; Point 4])) = Ok (Point 4).
Proof. split; vm_compute; reflexivity. Qed.
Print Assumptions C06_join_not_idempotent_refuted.

(* the leaky-stack behaviour the model reproduces (real results of AsLocation) *)
Example C06_leaks :
  as_location [106;111;105;110;40;49;94;51;44;53;41] = Ok (Point 0)            (* join(1^3,5) *)
  /\ as_location [49;46;46;53;103] = Ok (Ranged 0 5 false false)                (* 1..5g *)
  /\ as_location [53;46;46;51] = Ok (Ranged 4 3 false false).                   (* 5..3 *)
Proof. vm_compute. repeat split; reflexivity. Qed.

(* print -> parse on a concrete nested value *)
Example C06_example :
  let l := Complemented (Joined [Ranged 2 6 true false; Ordered [Point 8; Between 9]; Ambiguous 11 14]) in
  as_location (show l) = Ok l.
Proof. vm_compute. reflexivity. Qed.

(* print -> parse: gts.AsLocation(l.String()) = l, for every location whose
   coordinates fit an int64, whose joins and orders are in the normal form
   their constructors produce (join ls = Ok (Joined ls), order ls = Ok (Ordered
   ls)) and which has no complement directly inside a complement (the API and
   the parser unwrap it).  Statement by statement on the faithful pars model:
   every alternative of ParseLocation that is tried before the right one fails
   and hands the state back, the right one consumes exactly the text. *)
From GTS Require Import LocParse IntRT LocRT.
Theorem C06_print_parse_roundtrip : forall l, printable l -> as_location (show l) = Ok l.
Proof. exact as_location_show. Qed.
Print Assumptions C06_print_parse_roundtrip.

(* strconv.Itoa then strconv.Atoi / pars.Int *)
Theorem C06_atoi_itoa : forall n, 0 <= n <= int64_max -> atoi (itoa n) = Ok n.
Proof. exact atoi_itoa. Qed.
Print Assumptions C06_atoi_itoa.

Example C06_printable_example :
  let l := Complemented (Joined [Ranged 0 5 true false; Point 8; Ordered [Between 11; Ambiguous 14 17]; Ranged 20 30 false true]) in
  printable l /\ as_location (show l) = Ok l.
Proof.
  cbv zeta. split.
  - cbn [printable]. unfold coord, int64_max. repeat split; try lia; try reflexivity.
  - vm_compute. reflexivity.
Qed.
