(* C01 — GenBank records written by gts read back identically.
   gb_show = GenBank.String, genbank_parser / scan_genbank = GenBankParser and
   the Scanner loop on the faithful pars model (model/GenBank.v, Insdc.v);
   both run against the implementation in the correspondence check. *)
From GTS Require Import Base Arith Pars GenBank GenBankProofs.
Open Scope Z_scope.

(* the date of the LOCUS line: every valid calendar date (leap days included)
   of the years the "02-Jan-2006" layout prints in four digits is read back as
   the same date.  valid_date is AsDate's own checkDate. *)
Theorem C01_date_roundtrip_partial : forall y m d,
  valid_date y m d -> as_date (date_show (y, m, d)) = Ok (y, m, d).
Proof. exact date_roundtrip. Qed.
Print Assumptions C01_date_roundtrip_partial.

Example C01_date_example :
  valid_date 2024 2 29 /\ as_date (date_show (2024, 2, 29)) = Ok (2024, 2, 29).
Proof. exact date_roundtrip_example. Qed.
