(* C01 — GenBank records written by gts read back identically.
   gb_show = GenBank.String, genbank_parser / scan_genbank = GenBankParser and
   the Scanner loop on the faithful pars model (model/GenBank.v, Insdc.v);
   both run against the implementation in the correspondence check. *)
From GTS Require Import Base Arith Pars Insdc GenBank ParsLemmas GenBankProofs BodyRT StripProofs.
Open Scope Z_scope.

(* the date of the LOCUS line: every valid calendar date (leap days included)
   of the years the "02-Jan-2006" layout prints in four digits is read back as
   the same date.  valid_date is AsDate's own checkDate. *)
Theorem C01_date_roundtrip_partial : forall y m d,
  valid_date y m d -> as_date (date_show (y, m, d)) = Ok (y, m, d).
Proof. exact date_roundtrip. Qed.
Print Assumptions C01_date_roundtrip_partial.

Example C01_date_example :
  valid_date 2024 2 29 /\ as_date (date_show (2024, 2, 29)) = Ok (2024, 2, 29).
Proof. exact date_roundtrip_example. Qed.

(* KEYWORDS and the taxonomy are written as strings.Join(parts, "; ") + "."
   wrapped at blanks by wrap.Space, and read back by joining the lines with a
   blank and FlatFileSplit.  Both steps are inverse to each other: wrapping only
   turns blanks into line breaks, and splitting the joined text returns the
   parts, provided no part contains "; " (nosep) and the list is not [""] *)
Theorem C01_wrap_only_breaks_at_blanks_partial : forall s n, no_nl s -> unwrap (wrap_space s n) = s.
Proof. exact wrap_space_unwrap. Qed.
Print Assumptions C01_wrap_only_breaks_at_blanks_partial.

Theorem C01_keywords_split_join_partial : forall ks, Forall nosep ks -> join_semi ks <> [] ->
  flatfile_split (join_semi ks ++ [46]) = ks.
Proof. exact flatfile_split_join. Qed.
Print Assumptions C01_keywords_split_join_partial.

Example C01_keywords_example :
  let ks := [[82;101;102;83;101;113]; [97;59;98]; [99;32;100]] in
  Forall nosep ks /\ flatfile_split (join_semi ks ++ [46]) = ks.
Proof. split; [repeat constructor; intros [H [t Ht]]; discriminate|reflexivity]. Qed.

(* DEFINITION, COMMENT, the reference subfields and extra fields are written as
   name + AddPrefix(text, indent) + "\n".  The field body parser on the faithful
   pars model reads the text back, line breaks included, whatever follows it,
   as long as the next line is not indented like a continuation line.
   l0 :: ls are the lines of the text (no CR, no LF inside a line). *)
Theorem C01_field_body_roundtrip_partial : forall depth l0 ls post o e a k,
  no_eol l0 -> Forall no_eol ls -> is_prefix (repeat_byte 32 depth) post = false ->
  exists s', field_body_parser' depth 10
               (mkst ((add_prefix (l0 ++ joined 10 ls) (repeat_byte 32 depth) ++ [10]) ++ post) o e a k) =
             (Ok (l0 ++ joined 10 ls, negb (match ls with [] => true | _ => false end)), s')
             /\ rest s' = post /\ stk s' = k.
Proof. exact field_body_roundtrip. Qed.
Print Assumptions C01_field_body_roundtrip_partial.

(* KEYWORDS and the taxonomy: wrap.Space, AddPrefix, then the body parser that
   joins continuation lines with a blank: the text comes back unchanged *)
Theorem C01_keywords_body_roundtrip_partial : forall depth s n post o e a k,
  no_nl s -> no_cr s -> is_prefix (repeat_byte 32 depth) post = false ->
  exists flag s', field_body_parser' depth 32
               (mkst ((add_prefix (wrap_space s n) (repeat_byte 32 depth) ++ [10]) ++ post) o e a k) =
             (Ok (s, flag), s') /\ rest s' = post /\ stk s' = k.
Proof. exact (keywords_body_roundtrip wrap_unwrap). Qed.
Print Assumptions C01_keywords_body_roundtrip_partial.

(* a multi-line qualifier value: QualifierIO.String writes AddPrefix(value,
   prefix), quotedQualifierParser strips "\n"+prefix repeatedly from the left;
   the value is restored whenever no line break in it is followed by the
   continuation prefix itself (21 blanks in a GenBank table) *)
Theorem C01_qualifier_value_roundtrip_partial : forall prefix v,
  prefix <> [] -> no10 prefix -> no_occ (10 :: prefix) v ->
  strip_prefixes (S (length (add_prefix v prefix))) (10 :: prefix) (add_prefix v prefix) = v.
Proof. exact qualifier_value_roundtrip. Qed.
Print Assumptions C01_qualifier_value_roundtrip_partial.

(* the LOCUS line: whatever record GenBank.String writes, its first line is
   read back by genbankLocusParser as exactly the fields it was written from
   (name, length, molecule, topology, division, date) with field depth 12 —
   for a locus name and molecule without blanks, a length within int64, a
   three-letter division and a valid date.  Every fixed-width pad of the line
   ("%-12s%-17s %10d bp %6s     %-9s%s %s") is a case of the proof: names of
   17 or more characters leave only the single separating blank. *)
From GTS Require Import ParsSpec LocusRT.
Theorem C01_locus_line_roundtrip_partial : forall reg g out, gb_show reg g = Ok out ->
  let f := gb_fields g in
  word (f_locus f) -> 0 <= locus_length g <= int64_max -> word (f_molecule f) ->
  (f_topology f = 0 \/ f_topology f = 1) -> upper3 (f_division f) ->
  (let '(y, m, d) := f_date f in valid_date y m d) ->
  exists line rest, out = (line ++ [10]) ++ rest /\
    okp locus_parser (line ++ [10]) rest
      (12, f_locus f, locus_length g, f_molecule f, topology_show (f_topology f), f_division f, f_date f).
Proof. exact locus_roundtrip. Qed.
Print Assumptions C01_locus_line_roundtrip_partial.

(* the key line of a feature: whatever the table writer puts on the first line
   of a feature (prefix, key padded to the location column, the location) is
   read back by featureKeylineParser as the same key and the same location,
   for every printable location (C06) and every key of feature-key characters
   narrower than the location column; what follows it in the table is a
   newline or nothing. *)
From GTS Require Import FastaProofs LocRT KeylineRT.
Theorem C01_feature_keyline_roundtrip_partial : forall r pre depth f post,
  featkey (Seq.fkey f) -> zlen pre + zlen (Seq.fkey f) < depth -> printable (Seq.floc f) ->
  (exists q, feature_show r pre depth f = feature_head pre depth f ++ q /\ (q = [] \/ exists t, q = 10 :: t)) /\
  forall o e a (fr : frame) k, exists o' e' a',
    keyline_parser pre depth (mkst (feature_head pre depth f ++ 10 :: post) o e a (fr :: k)) =
    (Ok (Seq.fkey f, Seq.floc f), mkst post o' e' a' (fr :: k)).
Proof. exact feature_keyline_roundtrip. Qed.
Print Assumptions C01_feature_keyline_roundtrip_partial.

(* THE FEATURE TABLE.  INSDCTableParser(INSDCFormatter.String(table)) = table:
   for every non-empty table whose features have a key of feature-key
   characters narrower than the location column, a printable location (C06)
   and qualifiers that are written quoted (registered as quoted, or unknown to
   the registry: values without a double quote (K10) or a backslash (K13) and
   without a line that starts like a continuation prefix) or literal
   (registered as literal, e.g. /codon_start=1: one-line values), with
   snake-case names; Props in the normal form Props.Add produces (distinct
   names, at least one value each).  The table may end the input or be
   followed by a newline and any text that does not start with the key or the
   qualifier indentation (e.g. ORIGIN).  The result is the SAME list of
   features (keys, locations, Props), and the registry has learned the unknown
   names as quoted.  Proved on the faithful pars model through the key-line
   parser, pars.Quoted, the continuation-prefix stripping, the look-ahead loop
   of the literal value parser, pars.Many with the registry threaded through
   it, and the first-line special case of INSDCTableParser.
   PARTIAL: toggle qualifiers (/pseudo: the reader stores the line end as the
   value) and multi-line literal values are decided by the correspondence and
   the oracle. *)
From GTS Require Import Seq QualRT PropsRT FeatRT TableRT.
Theorem C01_feature_table_roundtrip_partial : forall r np depth, 0 <= np -> np < depth ->
  forall f t last post reg W,
  Forall (fok r np depth) (f :: t) -> Forall (fun g => pnormal (fprops g)) (f :: t) ->
  names_ok r reg (f :: t) -> eol_post last post -> stops np depth post ->
  table_show r (kprefix np) depth (f :: t) = Ok W ->
  forall o e a (fr : frame) k, exists o' e' a',
    table_parser [] reg (mkst ((W ++ last) ++ post) o e a (fr :: k)) =
    (Ok (f :: t, regs_feats reg (f :: t)), mkst post o' e' a' (fr :: k)).
Proof. exact table_roundtrip. Qed.
Print Assumptions C01_feature_table_roundtrip_partial.

(* the hypotheses are met by a concrete table (two features, a reverse-strand
   join, a value of two lines, a qualifier name unknown to the registry,
   followed by ORIGIN), and on it the round trip is also computed *)
From GTS Require Import Loc LocParse StripProofs ParsLemmas.
Definition ex_gene : list byte := [103;101;110;101].
Definition ex_note : list byte := [110;111;116;101].
Definition ex_xyz : list byte := [120;121;122].
Definition ex_codon : list byte := [99;111;100;111;110;95;115;116;97;114;116].
Definition ex_ff : list feature :=
  [mkfeat ex_gene (Ranged 0 9 false false) [[ex_gene; [97;98;99]]];
   mkfeat [67;68;83] (Complemented (Joined [Ranged 2 5 true false; Ranged 7 9 false false]))
          [[ex_note; [116;119;111;10;108;105;110;101;115]; [98]]; [ex_xyz; [113]]; [ex_codon; [49]]]].
Definition ex_post : list byte := [79;82;73;71;73;78;10].

Lemma ex_coord n : 0 <= n <= 1000 -> coord n.
Proof. unfold coord, int64_max. lia. Qed.

Example table_hypotheses_met :
  Forall (fok default_registry 5 21) ex_ff /\ Forall (fun g => pnormal (fprops g)) ex_ff /\
  names_ok default_registry default_registry ex_ff /\ eol_post [10] ex_post /\ stops 5 21 ex_post.
Proof.
  assert (Hsn : forall n, n <> [] -> forallb is_snake n = true -> snake n).
  { intros n H1 H2. split; [exact H1|]. rewrite forallb_forall in H2. apply Forall_forall. exact H2. }
  assert (Hpl : forall v, forallb (fun c => negb (c =? 34) && negb (c =? 92)) v = true -> plain v).
  { intros v H. rewrite forallb_forall in H. apply Forall_forall. intros c Hc. specialize (H c Hc).
    apply andb_true_iff in H as [H1 H2]. apply negb_true_iff in H1, H2. apply Z.eqb_neq in H1, H2. auto. }
  assert (Hq1 : forall n v, n <> [] -> forallb is_snake n = true -> quoted_type default_registry n ->
                 forallb (fun c => negb (c =? 34) && negb (c =? 92)) v = true -> forallb (fun c => negb (c =? 10)) v = true ->
                 qok default_registry (qprefix 21) (n, v)).
  { intros n v H1 H2 H3 H4 H5. split; [now apply Hsn|]. left. split; [exact H3|]. split; [now apply Hpl|].
    apply no_occ_no10. rewrite forallb_forall in H5. apply Forall_forall. intros c Hc. specialize (H5 c Hc).
    apply negb_true_iff, Z.eqb_neq in H5. exact H5. }
  split; [|split; [|split; [|split]]].
  - unfold ex_ff. repeat apply Forall_cons; try apply Forall_nil.
    + split; [split; [discriminate|repeat constructor]|]. split; [vm_compute; reflexivity|].
      split; [cbn [floc printable]; repeat split; try (apply ex_coord); lia|].
      cbn [quals fprops flat_map map app]. repeat apply Forall_cons; try apply Forall_nil.
      apply Hq1; try discriminate; try reflexivity. left. vm_compute. reflexivity.
    + split; [split; [discriminate|repeat constructor]|]. split; [vm_compute; reflexivity|].
      split; [cbn [floc printable]; repeat split; try (apply ex_coord); try lia; vm_compute; reflexivity|].
      cbn [quals fprops flat_map map app]. repeat apply Forall_cons; try apply Forall_nil.
      * (* a value of two lines: the second does not start like a continuation *)
        split; [apply Hsn; [discriminate|reflexivity]|]. left. split; [left; vm_compute; reflexivity|].
        split; [apply Hpl; reflexivity|].
        intros j; unfold occurs_at; do 10 (destruct j as [|j]; [reflexivity|]); destruct j; reflexivity.
      * apply Hq1; try discriminate; try reflexivity. left. vm_compute. reflexivity.
      * apply Hq1; try discriminate; try reflexivity. right. vm_compute. reflexivity.
      * (* a literal qualifier *)
        split; [apply Hsn; [discriminate|reflexivity]|]. right. split; [vm_compute; reflexivity|].
        repeat constructor; discriminate.
  - unfold ex_ff. repeat apply Forall_cons; try apply Forall_nil;
      (split; [cbn [fprops map entry_name]; repeat constructor; cbn [In]; intuition discriminate|repeat constructor; eauto]).
  - intros f q _ _. split; auto.
  - left. reflexivity.
  - split; vm_compute; reflexivity.
Qed.

Example C01_feature_table_example :
  match table_show default_registry (kprefix 5) 21 ex_ff with
  | Ok W => fst (table_parser [] default_registry (st_of (W ++ [10] ++ ex_post))) =
            Ok (ex_ff, regs_feats default_registry ex_ff)
  | _ => False
  end.
Proof. vm_compute. reflexivity. Qed.

(* the DBLINK header field.  The writer prints  name ": " value  per cross
   reference, the first after "DBLINK      ", the others on lines indented by
   the field depth; the reader cuts every line at its FIRST colon and skips
   two bytes.  For every non-empty list of references with pairwise different
   names, names without colon or line break and values without line break
   (colons and ": " inside a value included), what p_dblink runs after the
   field name (dblink_body: first pair, then the continuation loop) reads the
   written text back as exactly that list, whatever follows, as long as the
   next line is not indented like a continuation; and that text is what
   GenBank.String writes after the field name. *)
From GTS Require Import DblinkRT.
Theorem C01_dblink_roundtrip_partial : forall depth kv ps post o e a k,
  Forall pair_ok (kv :: ps) -> NoDup (map fst (kv :: ps)) ->
  is_prefix (repeat_byte 32 depth) post = false ->
  exists s', dblink_body depth [] (mkst (dblink_text depth (kv :: ps) ++ post) o e a k) =
    (Ok (kv :: ps, None), s') /\ rest s' = post /\ stk s' = k.
Proof. exact dblink_roundtrip. Qed.
Print Assumptions C01_dblink_roundtrip_partial.

Theorem C01_dblink_written_text : forall kv ps,
  dblink_written (kv :: ps) = [68;66;76;73;78;75;32;32;32;32;32;32] ++ dblink_text 12 (kv :: ps).
Proof. exact dblink_written_text. Qed.

(* values with colons, the case a reader that splits at every ": " gets wrong *)
Example C01_dblink_example :
  let ps := [([65; 114; 99], [83; 82; 82; 49; 44; 32; 114; 117; 110; 58; 32; 102; 105; 114; 115; 116; 58; 32; 50]);
             ([79], [97; 58; 98; 32; 58; 32; 99])] in
  Forall pair_ok ps /\ NoDup (map fst ps) /\
  fst (dblink_body 12 [] (st_of (dblink_text 12 ps ++ [75; 69; 89]))) = Ok (ps, None).
Proof.
  cbv zeta. split; [|split].
  - repeat constructor; cbn; try discriminate; try lia.
  - repeat constructor; cbn; intuition discriminate.
  - vm_compute. reflexivity.
Qed.

(* a named header field (genbankFieldParser: DEFINITION, ACCESSION, VERSION,
   COMMENT and the extra fields go through it).  Written as the name, padding
   to the field depth, AddPrefix(text, indent), newline; read back -- name
   parser with its padding alternative, first line, continuation loop -- as
   exactly the text, whatever follows, unless the next line is indented like a
   continuation.  Text = first line l0 and further lines ls, none with a line
   break inside; on the faithful pars model with the caller's frame in place. *)
From GTS Require Import ParsSpec FieldRT.
Theorem C01_named_field_roundtrip_partial : forall name depth l0 ls post o e a fr k,
  zlen name <= depth -> no_eol l0 -> Forall no_eol ls -> is_prefix (repeat_byte 32 depth) post = false ->
  exists s', generic_field_parser name depth
               (mkst (name ++ repeat_byte 32 (depth - zlen name) ++
                      (add_prefix (l0 ++ joined 10 ls) (repeat_byte 32 depth) ++ [10]) ++ post) o e a (fr :: k)) =
             (Ok (l0 ++ joined 10 ls, 0), s') /\ rest s' = post /\ stk s' = fr :: k.
Proof. exact generic_field_roundtrip. Qed.
Print Assumptions C01_named_field_roundtrip_partial.

Theorem C01_one_line_field_roundtrip_partial : forall name depth v post o e a fr k,
  zlen name <= depth -> no_eol v -> is_prefix (repeat_byte 32 depth) post = false ->
  exists s', generic_field_parser name depth
               (mkst ((name ++ repeat_byte 32 (depth - zlen name) ++ v ++ [10]) ++ post) o e a (fr :: k)) =
             (Ok (v, 0), s') /\ rest s' = post /\ stk s' = fr :: k.
Proof. exact one_line_field_roundtrip. Qed.
Print Assumptions C01_one_line_field_roundtrip_partial.

Example C01_version_example :
  fst (generic_field_parser n_VERSION 12
         (mkst ([86;69;82;83;73;79;78;32;32;32;32;32] ++ [84; 48; 46; 49] ++ nl ++ [75; 69; 89]) 0 None 0 [([], 0, 0)]))
  = Ok ([84; 48; 46; 49], 0).
Proof. vm_compute. reflexivity. Qed.

(* the KEYWORDS field as a whole (keywords_inner is what p_keywords runs inside
   its error wrapper): the list, joined by "; " with a final period, wrapped at
   blanks to any width, continuation lines indented, is read back as the list *)
Theorem C01_keywords_field_roundtrip_partial : forall depth ks n post o e a fr k,
  zlen n_KEYWORDS <= depth -> Forall nosep ks -> join_semi ks <> [] ->
  Forall (fun c => c <> 10) (join_semi ks ++ [46]) -> no_cr (join_semi ks ++ [46]) ->
  is_prefix (repeat_byte 32 depth) post = false ->
  exists s', keywords_inner depth
               (mkst (n_KEYWORDS ++ repeat_byte 32 (depth - zlen n_KEYWORDS) ++
                      (add_prefix (wrap_space (join_semi ks ++ [46]) n) (repeat_byte 32 depth) ++ [10]) ++ post) o e a (fr :: k)) =
             (Ok ks, s') /\ rest s' = post /\ stk s' = fr :: k.
Proof. exact keywords_field_roundtrip. Qed.
Print Assumptions C01_keywords_field_roundtrip_partial.

(* the DBLINK and KEYWORDS sub-parsers of the GenBank reader as they are run
   (p_dblink, p_keywords: the functions the record parser dispatches to, error
   wrappers included): on the field as GenBank.String writes it they return
   the accumulator with exactly that field set, no error, and stop where the
   next field begins *)
Theorem C01_dblink_subparser_roundtrip_partial : forall depth a kv ps post o e ap fr k,
  zlen n_DBLINK <= depth -> f_dblink (a_fields a) = [] ->
  Forall pair_ok (kv :: ps) -> NoDup (map fst (kv :: ps)) ->
  is_prefix (repeat_byte 32 depth) post = false ->
  exists s', p_dblink depth a
               (mkst (n_DBLINK ++ repeat_byte 32 (depth - zlen n_DBLINK) ++ dblink_text depth (kv :: ps) ++ post) o e ap (fr :: k)) =
             (Ok (upd_fields a (set_dblink (a_fields a) (kv :: ps)), None), s') /\ rest s' = post /\ stk s' = fr :: k.
Proof. exact p_dblink_roundtrip. Qed.
Print Assumptions C01_dblink_subparser_roundtrip_partial.

Theorem C01_keywords_subparser_roundtrip_partial : forall depth a ks n post o e ap fr k,
  zlen n_KEYWORDS <= depth -> Forall nosep ks -> join_semi ks <> [] ->
  Forall (fun c => c <> 10) (join_semi ks ++ [46]) -> no_cr (join_semi ks ++ [46]) ->
  is_prefix (repeat_byte 32 depth) post = false ->
  exists s', p_keywords depth a
               (mkst (n_KEYWORDS ++ repeat_byte 32 (depth - zlen n_KEYWORDS) ++
                      (add_prefix (wrap_space (join_semi ks ++ [46]) n) (repeat_byte 32 depth) ++ [10]) ++ post) o e ap (fr :: k)) =
             (Ok (upd_fields a (set_keywords (a_fields a) ks), None), s') /\ rest s' = post /\ stk s' = fr :: k.
Proof. exact p_keywords_roundtrip. Qed.
Print Assumptions C01_keywords_subparser_roundtrip_partial.

(* VERSION, COMMENT and DEFINITION likewise (sub_of (Map (genbankFieldParser
   name) setter)): the accumulator with exactly that field set / appended, no
   error, stopping where the next field begins; DEFINITION is written with a
   final period which the sub-parser takes off again *)
Theorem C01_version_subparser_roundtrip_partial : forall depth a v post o e ap fr k,
  zlen n_VERSION <= depth -> no_eol v -> is_prefix (repeat_byte 32 depth) post = false ->
  exists s', p_version depth a
               (mkst ((n_VERSION ++ repeat_byte 32 (depth - zlen n_VERSION) ++ v ++ [10]) ++ post) o e ap (fr :: k)) =
             (Ok (upd_fields a (set_version (a_fields a) v), None), s') /\ rest s' = post /\ stk s' = fr :: k.
Proof. exact p_version_roundtrip. Qed.
Print Assumptions C01_version_subparser_roundtrip_partial.

Theorem C01_comment_subparser_roundtrip_partial : forall depth a l0 ls post o e ap fr k,
  zlen n_COMMENT <= depth -> no_eol l0 -> Forall no_eol ls -> is_prefix (repeat_byte 32 depth) post = false ->
  exists s', p_comment depth a
               (mkst (n_COMMENT ++ repeat_byte 32 (depth - zlen n_COMMENT) ++
                      (add_prefix (l0 ++ joined 10 ls) (repeat_byte 32 depth) ++ [10]) ++ post) o e ap (fr :: k)) =
             (Ok (upd_fields a (add_comment (a_fields a) (l0 ++ joined 10 ls)), None), s') /\ rest s' = post /\ stk s' = fr :: k.
Proof. exact p_comment_roundtrip. Qed.
Print Assumptions C01_comment_subparser_roundtrip_partial.

Theorem C01_definition_subparser_roundtrip_partial : forall depth a l0 ls post o e ap fr k,
  zlen n_DEFINITION <= depth -> no_eol l0 -> Forall no_eol ls -> is_prefix (repeat_byte 32 depth) post = false ->
  let d := l0 ++ joined 10 ls in
  exists s', p_definition depth a
               (mkst (n_DEFINITION ++ repeat_byte 32 (depth - zlen n_DEFINITION) ++
                      (add_prefix (d ++ [46]) (repeat_byte 32 depth) ++ [10]) ++ post) o e ap (fr :: k)) =
             (Ok (upd_fields a (set_definition (a_fields a) d), None), s') /\ rest s' = post /\ stk s' = fr :: k.
Proof. exact p_definition_roundtrip. Qed.
Print Assumptions C01_definition_subparser_roundtrip_partial.

(* SOURCE / ORGANISM / taxonomy (genbankSourceParser, p_source): species and
   organism on one line each, the taxonomy joined by "; " with a final period,
   wrapped at blanks to any width, every line of it indented.  The parser --
   Map(genbankFieldParser SOURCE), the subfield-name parser with its two runs of
   blanks, the organism line, the loop over the taxonomy lines, FlatFileSplit --
   returns the accumulator with species, organism and the taxonomy list as
   written.  l0 :: ls are the lines of the wrapped taxonomy, the first not
   empty (a taxonomy beginning with a blank that is wrapped right there is
   the corner the statement excludes); long species/organism values that wrap
   are known findings K8/K9. *)
From GTS Require Import SourceRT.
Theorem C01_source_subparser_roundtrip_partial : forall depth a species c org taxon n l0 ls post o e ap fr k,
  10 < depth -> no_eol species -> c <> 32 -> no_eol (c :: org) ->
  Forall nosep taxon -> join_semi taxon <> [] ->
  Forall (fun x => x <> 10) (join_semi taxon ++ [46]) ->
  wrap_space (join_semi taxon ++ [46]) n = l0 ++ joined 10 ls -> no_eol l0 -> Forall no_eol ls -> l0 <> [] ->
  is_prefix (repeat_byte 32 depth) post = false ->
  exists s', p_source depth a
      (mkst (n_SOURCE ++ repeat_byte 32 (depth - zlen n_SOURCE) ++ species ++ [10] ++
             blanks 2 ++ n_ORGANISM ++ blanks (depth - 10) ++ (c :: org) ++ [10] ++
             cont_text depth (l0 :: ls) ++ post) o e ap (fr :: k)) =
    (Ok (upd_fields a (set_source (a_fields a) species (c :: org) taxon), None), s') /\ rest s' = post /\ stk s' = fr :: k.
Proof. exact p_source_roundtrip. Qed.
Print Assumptions C01_source_subparser_roundtrip_partial.

(* a taxonomy of three entries wrapped at 12 columns: two lines *)
Example C01_source_example :
  let taxon := [[111; 116; 104; 101; 114]; [115; 101; 113; 32; 120]; [118; 101; 99]] in
  wrap_space (join_semi taxon ++ [46]) 12 = [111; 116; 104; 101; 114; 59; 32; 115; 101; 113] ++ joined 10 [[120; 59; 32; 118; 101; 99; 46]] /\
  Forall nosep taxon /\ join_semi taxon <> [].
Proof. split; [vm_compute; reflexivity|]. split; [repeat constructor; intros [H [t Ht]]; discriminate|discriminate]. Qed.

(* ACCESSION (a record that is not a slice: no REGION suffix) likewise *)
Theorem C01_accession_subparser_roundtrip_partial : forall depth a v post o e ap fr k,
  zlen n_ACCESSION <= depth -> no_eol v -> is_prefix (repeat_byte 32 depth) post = false ->
  exists s', p_accession depth a
               (mkst ((n_ACCESSION ++ repeat_byte 32 (depth - zlen n_ACCESSION) ++ v ++ [10]) ++ post) o e ap (fr :: k)) =
             (Ok (upd_fields a (set_accession (a_fields a) v), None), s') /\ rest s' = post /\ stk s' = fr :: k.
Proof. exact p_accession_roundtrip. Qed.
Print Assumptions C01_accession_subparser_roundtrip_partial.

(* an extra field (any field the reader has no sub-parser for): its name is
   the run of capitals that starts the line; for a name shorter than the field
   depth (12 and more: known finding K12) the field is read back as written *)
Theorem C01_extra_field_subparser_roundtrip_partial : forall depth a name l0 ls post o e ap fr k,
  name <> [] -> Forall (fun c => is_upper c = true) name -> zlen name < depth ->
  no_eol l0 -> Forall no_eol ls -> is_prefix (repeat_byte 32 depth) post = false ->
  exists s', p_extra depth a
               (mkst (name ++ repeat_byte 32 (depth - zlen name) ++
                      (add_prefix (l0 ++ joined 10 ls) (repeat_byte 32 depth) ++ [10]) ++ post) o e ap (fr :: k)) =
             (Ok (upd_fields a (add_extra (a_fields a) name (l0 ++ joined 10 ls)), None), s') /\ rest s' = post /\ stk s' = fr :: k.
Proof. exact p_extra_roundtrip. Qed.
Print Assumptions C01_extra_field_subparser_roundtrip_partial.

(* CONTIG: "CONTIG      join(ACCESSION:h..t)" is read back as the accession and
   the zero-based region (untilByte(':'), the two integers, the closing
   parenthesis), for an accession without colon and coordinates within int64;
   contig_text is what GenBank.String writes after the field name *)
From GTS Require Import ContigRT.
Theorem C01_contig_subparser_roundtrip_partial : forall depth a accn h t post o e ap fr k,
  zlen n_CONTIG <= depth -> Forall (fun c => negb (c =? 58) = true) accn ->
  0 <= h + 1 <= int64_max -> 0 <= t <= int64_max ->
  exists s', p_contig depth a
               (mkst (n_CONTIG ++ repeat_byte 32 (depth - zlen n_CONTIG) ++ contig_text accn h t ++ post) o e ap (fr :: k)) =
             (Ok (upd_fields a (set_contig (a_fields a) (accn, h, t)), None), s') /\ rest s' = post /\ stk s' = fr :: k.
Proof. exact p_contig_roundtrip. Qed.
Print Assumptions C01_contig_subparser_roundtrip_partial.

Example C01_contig_text_is_written : forall x accn h t,
  contig_show (x :: accn, h, t) = contig_text (x :: accn) h t.
Proof. reflexivity. Qed.
