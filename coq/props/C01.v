(* C01 — GenBank records written by gts read back identically.
   gb_show = GenBank.String, genbank_parser / scan_genbank = GenBankParser and
   the Scanner loop on the faithful pars model (model/GenBank.v, Insdc.v);
   both run against the implementation in the correspondence check. *)
From GTS Require Import Base Arith Pars GenBank GenBankProofs.
Open Scope Z_scope.

(* the date of the LOCUS line: every valid calendar date (leap days included)
   of the years the "02-Jan-2006" layout prints in four digits is read back as
   the same date.  valid_date is AsDate's own checkDate. *)
Theorem C01_date_roundtrip_partial : forall y m d,
  valid_date y m d -> as_date (date_show (y, m, d)) = Ok (y, m, d).
Proof. exact date_roundtrip. Qed.
Print Assumptions C01_date_roundtrip_partial.

Example C01_date_example :
  valid_date 2024 2 29 /\ as_date (date_show (2024, 2, 29)) = Ok (2024, 2, 29).
Proof. exact date_roundtrip_example. Qed.

(* KEYWORDS and the taxonomy are written as strings.Join(parts, "; ") + "."
   wrapped at blanks by wrap.Space, and read back by joining the lines with a
   blank and FlatFileSplit.  Both steps are inverse to each other: wrapping only
   turns blanks into line breaks, and splitting the joined text returns the
   parts, provided no part contains "; " (nosep) and the list is not [""] *)
Theorem C01_wrap_only_breaks_at_blanks_partial : forall s n, no_nl s -> unwrap (wrap_space s n) = s.
Proof. exact wrap_space_unwrap. Qed.
Print Assumptions C01_wrap_only_breaks_at_blanks_partial.

Theorem C01_keywords_split_join_partial : forall ks, Forall nosep ks -> join_semi ks <> [] ->
  flatfile_split (join_semi ks ++ [46]) = ks.
Proof. exact flatfile_split_join. Qed.
Print Assumptions C01_keywords_split_join_partial.

Example C01_keywords_example :
  let ks := [[82;101;102;83;101;113]; [97;59;98]; [99;32;100]] in
  Forall nosep ks /\ flatfile_split (join_semi ks ++ [46]) = ks.
Proof. split; [repeat constructor; intros [H [t Ht]]; discriminate|reflexivity]. Qed.
