(* C12 — Repair re-assembles features fragmented by split/join, changes
   nothing else.  The model is gts.Repair after the fix that merges fragments
   as units (mergeFragments). *)
From GTS Require Import Base Arith Loc Seq Repair RepairProofs RestoreProofs.
Open Scope Z_scope.

(* two fragments merge ONLY when the last range of the first ends exactly
   where the first range of the second starts and the 3' end meets a 5' start
   marked partial (force = source features); the merged location then denotes
   exactly the residues of the two fragments, in order *)
Theorem C12_only_abutting_partials_merge : forall pa pb ord force m,
  merge_flat pa pb ord force = Some m ->
  exists init ls le l5 l3 re r5 r3 tl,
    pa = init ++ [Ranged ls le l5 l3] /\ pb = Ranged le re r5 r3 :: tl /\
    (force = true \/ (l3 = true /\ r5 = true)) /\
    (ls <= le <= re -> den m = flat_map den pa ++ flat_map den pb).
Proof. exact merge_flat_spec. Qed.
Print Assumptions C12_only_abutting_partials_merge.

(* Repair never panics: the merged locations of a class never outnumber its
   features, so indices[:len(locs)] stays in range (before the fix this failed
   for every table containing a join(...) location) *)
Theorem C12_no_panic : forall ff gg indices,
  match indices with
  | [] => True
  | i0 :: _ =>
    let locs := loc_isort (map (fun i => floc (nth_feat gg i)) indices) in
    (length (merge_all locs [] (is_source (nth_feat ff i0))) <= length indices)%nat
  end.
Proof. exact repair_merged_fits. Qed.
Print Assumptions C12_no_panic.

(* a class in which nothing merges is left exactly as it was *)
Theorem C12_class_unchanged_when_nothing_merges : forall ff gg indices,
  (length (merge_all (loc_isort (map (fun i => floc (nth_feat gg i)) indices)) []
            (match indices with i0 :: _ => is_source (nth_feat ff i0) | [] => false end))
   = length indices) ->
  repair_group ff gg indices = (gg, indices).
Proof. exact repair_group_unchanged. Qed.
Print Assumptions C12_class_unchanged_when_nothing_merges.

(* restoration: a range cut in two at any position c by Slice, the pieces put
   back by Concat (piece_loc = Expand(b, b-L); Expand(0, -a); Expand(0, off)),
   is re-assembled by the merge step exactly: coordinates and both partial
   markers, on either strand, for source (force) and other features *)
Theorem C12_range_restored : forall s e p5 p3 c L force, 0 <= s < c -> c < e <= L ->
  exists a b, piece_loc (Ranged s e p5 p3) 0 c L 0 = Ok a /\ piece_loc (Ranged s e p5 p3) c L L c = Ok b /\
    merge_fragments a b force = Some (Ranged s e p5 p3).
Proof. exact range_restored. Qed.
Print Assumptions C12_range_restored.

Theorem C12_complement_range_restored : forall s e p5 p3 c L force, 0 <= s < c -> c < e <= L ->
  exists a b, piece_loc (Complemented (Ranged s e p5 p3)) 0 c L 0 = Ok (Complemented a) /\
    piece_loc (Complemented (Ranged s e p5 p3)) c L L c = Ok (Complemented b) /\
    merge_fragments (Complemented a) (Complemented b) force = Some (Complemented (Ranged s e p5 p3)).
Proof. exact complement_range_restored. Qed.
Print Assumptions C12_complement_range_restored.

(* PARTIAL: idempotence, restoration of multi-part features and after several
   cuts, and the table-level "unchanged" clause are decided by the
   correspondence and the oracle. *)

(* restoration on a concrete table: a join cut inside its second range *)
Example C12_example :
  let p := [[[103]; [97]]] in
  repair [mkfeat [67] (Joined [Ranged 0 2 false false; Ranged 4 6 false true]) p;
          mkfeat [67] (Ranged 6 9 true false) p]
  = [mkfeat [67] (Joined [Ranged 0 2 false false; Ranged 4 9 false false]) p].
Proof. vm_compute. reflexivity. Qed.

(* known finding K7: a join cut in the gap between its parts is not re-assembled *)
Example C12_gap_cut_refuted :
  let p := [[[103]; [97]]] in
  repair [mkfeat [67] (Joined [Ranged 0 2 false false; Between 3]) p;
          mkfeat [67] (Joined [Between 0; Ranged 4 6 false false]) p]
  <> [mkfeat [67] (Joined [Ranged 0 2 false false; Ranged 4 6 false false]) p].
Proof. vm_compute. discriminate. Qed.
