(* C12 — Repair re-assembles features fragmented by split/join, changes
   nothing else.  The model is gts.Repair after the fix that merges fragments
   as units (mergeFragments). *)
From GTS Require Import Base Arith Loc Seq Repair RepairProofs RestoreProofs RepairDen RepairTable.
From Coq Require Import Permutation.
Open Scope Z_scope.

(* two fragments merge ONLY when the last range of the first ends exactly
   where the first range of the second starts and the 3' end meets a 5' start
   marked partial (force = source features); the merged location then denotes
   exactly the residues of the two fragments, in order *)
Theorem C12_only_abutting_partials_merge : forall pa pb ord force m,
  merge_flat pa pb ord force = Some m ->
  exists init ls le l5 l3 re r5 r3 tl,
    pa = init ++ [Ranged ls le l5 l3] /\ pb = Ranged le re r5 r3 :: tl /\
    (force = true \/ (l3 = true /\ r5 = true)) /\
    (ls <= le <= re -> den m = flat_map den pa ++ flat_map den pb).
Proof. exact merge_flat_spec. Qed.
Print Assumptions C12_only_abutting_partials_merge.

(* Repair never panics: the merged locations of a class never outnumber its
   features, so indices[:len(locs)] stays in range (before the fix this failed
   for every table containing a join(...) location) *)
Theorem C12_no_panic : forall ff gg indices,
  match indices with
  | [] => True
  | i0 :: _ =>
    let locs := loc_isort (map (fun i => floc (nth_feat gg i)) indices) in
    (length (merge_all locs [] (is_source (nth_feat ff i0))) <= length indices)%nat
  end.
Proof. exact repair_merged_fits. Qed.
Print Assumptions C12_no_panic.

(* a class in which nothing merges is left exactly as it was *)
Theorem C12_class_unchanged_when_nothing_merges : forall ff gg indices,
  (length (merge_all (loc_isort (map (fun i => floc (nth_feat gg i)) indices)) []
            (match indices with i0 :: _ => is_source (nth_feat ff i0) | [] => false end))
   = length indices) ->
  repair_group ff gg indices = (gg, indices).
Proof. exact repair_group_unchanged. Qed.
Print Assumptions C12_class_unchanged_when_nothing_merges.

(* restoration: a range cut in two at any position c by Slice, the pieces put
   back by Concat (piece_loc = Expand(b, b-L); Expand(0, -a); Expand(0, off)),
   is re-assembled by the merge step exactly: coordinates and both partial
   markers, on either strand, for source (force) and other features *)
Theorem C12_range_restored : forall s e p5 p3 c L force, 0 <= s < c -> c < e <= L ->
  exists a b, piece_loc (Ranged s e p5 p3) 0 c L 0 = Ok a /\ piece_loc (Ranged s e p5 p3) c L L c = Ok b /\
    merge_fragments a b force = Some (Ranged s e p5 p3).
Proof. exact range_restored. Qed.
Print Assumptions C12_range_restored.

Theorem C12_complement_range_restored : forall s e p5 p3 c L force, 0 <= s < c -> c < e <= L ->
  exists a b, piece_loc (Complemented (Ranged s e p5 p3)) 0 c L 0 = Ok (Complemented a) /\
    piece_loc (Complemented (Ranged s e p5 p3)) c L L c = Ok (Complemented b) /\
    merge_fragments (Complemented a) (Complemented b) force = Some (Complemented (Ranged s e p5 p3)).
Proof. exact complement_range_restored. Qed.
Print Assumptions C12_complement_range_restored.

(* never changes the residues covered by a class.  rgood: every range runs
   forward.  Two fragments that merge are replaced by one location denoting
   the residues of both (as a multiset of stranded positions: on the reverse
   strand the merged location lists the second fragment's residues first);
   hence the merge pass over a class, after sorting, covers exactly what the
   class covered. *)
Theorem C12_merge_keeps_residues : forall force a b m, rgood a -> rgood b ->
  merge_fragments a b force = Some m ->
  Permutation (den m) (den a ++ den b) /\ rgood m.
Proof. exact merge_fragments_den. Qed.
Print Assumptions C12_merge_keeps_residues.

(* one class (the features of gg at `indices`, pairwise different positions of
   the table): after the step the kept features of the class -- a prefix of
   its indices -- cover exactly the residues the class covered; every feature
   outside the class is untouched; every feature of the table keeps key and
   qualifiers; the table keeps its length. *)
Theorem C12_class_step : forall ff gg indices,
  NoDup indices -> Forall (fun i => (i < length gg)%nat) indices ->
  Forall rgood (map (fun i => floc (nth_feat gg i)) indices) ->
  let '(gg', kept) := repair_group ff gg indices in
  Permutation (DD (map (fun i => floc (nth_feat gg' i)) kept)) (DD (map (fun i => floc (nth_feat gg i)) indices)) /\
  (exists k, kept = firstn k indices) /\
  (forall j, ~ In j indices -> nth_feat gg' j = nth_feat gg j) /\
  (forall j, fkey (nth_feat gg' j) = fkey (nth_feat gg j) /\ fprops (nth_feat gg' j) = fprops (nth_feat gg j)) /\
  length gg' = length gg.
Proof. exact repair_group_spec. Qed.
Print Assumptions C12_class_step.

Example C12_class_step_example :
  let p := [[[103]; [97]]] in
  let gg := [mkfeat [67] (Complemented (Ranged 6 9 true false)) p; mkfeat [120] (Point 3) [];
             mkfeat [67] (Complemented (Joined [Ranged 0 2 false false; Ranged 4 6 false true])) p] in
  NoDup [0; 2]%nat /\ Forall rgood (map (fun i => floc (nth_feat gg i)) [0; 2]%nat) /\
  repair_group gg gg [0; 2]%nat =
    ([mkfeat [67] (Complemented (Joined [Ranged 0 2 false false; Ranged 4 9 false false])) p; mkfeat [120] (Point 3) [];
      mkfeat [67] (Complemented (Joined [Ranged 0 2 false false; Ranged 4 6 false true])) p], [0%nat]).
Proof.
  cbv zeta. split; [repeat constructor; cbn; intuition lia|]. split; [|vm_compute; reflexivity].
  cbn [map nth_feat nth floc]. repeat constructor; cbn; lia.
Qed.

(* The whole table.  ck k f: feature f belongs to the class printed as k
   (key and qualifiers as Repair itself compares them).  For EVERY table whose
   ranges run forward and every class k: the features of class k in the
   repaired table cover exactly the stranded residues the features of class k
   covered before -- nothing is lost, nothing is gained, and nothing moves from
   one class to another (so features that differ in key or qualifiers are never
   merged) -- and every feature of the repaired table is a feature of the input
   with its key and qualifiers, at most its location changed. *)
Theorem C12_table_class_residues : forall ff k, Forall (fun f => rgood (floc f)) ff ->
  Permutation (DD (map floc (filter (ck k) (repair ff)))) (DD (map floc (filter (ck k) ff))).
Proof. exact repair_class_residues. Qed.
Print Assumptions C12_table_class_residues.

Theorem C12_table_keeps_key_and_qualifiers : forall ff, Forall (fun f => rgood (floc f)) ff ->
  forall f, In f (repair ff) -> exists g, In g ff /\ fkey f = fkey g /\ fprops f = fprops g.
Proof. exact repair_keeps_key_and_qualifiers. Qed.
Print Assumptions C12_table_keeps_key_and_qualifiers.

(* leaves unchanged any table in which nothing can merge: if within every
   class (features printing the same key and qualifiers) no location merges
   with any other -- by C12_only_abutting_partials_merge: no last range of one
   ends where the first range of another starts with a 3'-partial end meeting
   a 5'-partial start (any abutting ends when the class is a source class) --
   then Repair returns the table exactly as it was, order included. *)
Theorem C12_table_unchanged_when_nothing_merges : forall ff, nothing_merges ff -> repair ff = ff.
Proof. exact repair_unchanged. Qed.
Print Assumptions C12_table_unchanged_when_nothing_merges.

Example C12_unchanged_example :
  let ff := [mkfeat [103] (Ranged 0 6 false false) [[[103]; [97]]];
             mkfeat [67] (Joined [Ranged 0 2 false false; Ranged 4 6 false true]) [[[103]; [97]]];
             mkfeat [67] (Ranged 7 9 true false) [[[103]; [97]]];
             mkfeat [67] (Ranged 6 9 true false) [[[103]; [98]]]] in
  nothing_merges ff /\ repair ff = ff.
Proof.
  cbv zeta. split; [|vm_compute; reflexivity].
  intros f g h Hf Hg Hh E1 E2. cbn [In] in Hf, Hg, Hh.
  repeat match goal with
  | H : _ \/ _ |- _ => destruct H
  | H : False |- _ => contradiction
  end; subst; try (vm_compute in E1; discriminate E1); try (vm_compute in E2; discriminate E2);
  vm_compute; reflexivity.
Qed.

(* PARTIAL: idempotence, and restoration of multi-part features and after
   several cuts, are decided by the correspondence and the oracle. *)

(* restoration on a concrete table: a join cut inside its second range *)
Example C12_example :
  let p := [[[103]; [97]]] in
  repair [mkfeat [67] (Joined [Ranged 0 2 false false; Ranged 4 6 false true]) p;
          mkfeat [67] (Ranged 6 9 true false) p]
  = [mkfeat [67] (Joined [Ranged 0 2 false false; Ranged 4 9 false false]) p].
Proof. vm_compute. reflexivity. Qed.

(* known finding K7: a join cut in the gap between its parts is not re-assembled *)
Example C12_gap_cut_refuted :
  let p := [[[103]; [97]]] in
  repair [mkfeat [67] (Joined [Ranged 0 2 false false; Between 3]) p;
          mkfeat [67] (Joined [Between 0; Ranged 4 6 false false]) p]
  <> [mkfeat [67] (Joined [Ranged 0 2 false false; Ranged 4 6 false false]) p].
Proof. vm_compute. discriminate. Qed.
